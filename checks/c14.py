"""C14 - typed JSON mapping (derive FromJson/IntoJson, json_map!) and the json! macro preserve every value.

Specification: spec/jsonmap/JsonMap.tla.  It defines the documented JSON shape of a typed value (Shape) and the
meaning of a json! literal (DenoteLit), and, separately, a model of the code: the three macro_rules! munchers arm by
arm (JsonM/ArrM/ObjM), the to_json/from_json the derive macros and json_map! expand to (ToJD goes through the object
muncher exactly like the expansion does), the `as` casts of traits.rs.

1. TLC proves on the model (Dev = {}) ShapeOk, RoundTrip, DocReadsBack for every declaration x value in the bound and
   MacroOk (macro = denotation, trailing commas neutral) for every literal in the bound and Compiles; ten sensitivity
   configs (the three deviations of the shipped code - two of them repaired since - and six plausible bugs, plus the
   dropped WellFormed precondition) must each be refuted.
2. spec -> code (method A by program generation): TLC enumerates a rotating family of declarations (all 19 base types x
   6 wrapper stacks x 4 mapping routes x sizes, renames from a 10-string catalogue) with values incl. boundary integers,
   and all literals up to a node bound, printing for each the documented JSON and what the implementation must show.
   This file turns that into ONE Rust crate (gen/), compiles it against /repo's humphrey_json and runs it: one result
   line per vector. Observed vs. TLC's expectation is compared here (equality of JSON trees, nothing else); a compile
   error in generated code is a result, attributed to the generated module it occurs in.
3. code -> spec (method C): random programs (1..6 declarations referring to each other, <= 8 fields, wrapper stacks <= 3,
   random integers/strings/renames) and random literals (depth <= 6) are generated here (inputs only), TLC states their
   documented JSON (Trace_JsonMap, EXPECT mode), the program records what the real code does, and TLC validates every
   record against the theorems (Trace_JsonMap).
A mismatch that is exactly what a single named deviation predicts is attributed to it (KNOWN_FINDINGS decides whether
that is an open finding or a violation)."""
import fcntl
import json
from concurrent.futures import ThreadPoolExecutor
import os
import random
import re
import shutil
import subprocess
import time

import vlib
from vlib import Ctx, run_tlc, parse_jsonl, SPEC, ROOT

D = os.path.join(SPEC, "jsonmap")
GEN = os.path.join(ROOT, "gen")
UTF8 = {"JDK_JAVA_OPTIONS": "-Dfile.encoding=UTF-8 -Dstdout.encoding=UTF-8 -Dsun.stdout.encoding=UTF-8"}
SENSITIVITY = [
    ("MC_JsonMap_dev_null.cfg", "NullTruncatesArray", "MacroOk"),
    ("MC_JsonMap_dev_doc.cfg", "DocAttrPanics", "Compiles"),
    ("MC_JsonMap_dev_p53.cfg", "IntBeyond2p53", "ShapeOk"),
    ("MC_JsonMap_dev_p53rt.cfg", "IntBeyond2p53", "RoundTrip"),
    ("MC_JsonMap_bug_objnull.cfg", "ObjNullDropsRest", "MacroOk"),
    ("MC_JsonMap_bug_droplast.cfg", "DropLastElem", "MacroOk"),
    ("MC_JsonMap_bug_keyrename.cfg", "KeyIgnoresRename", "RoundTrip"),
    ("MC_JsonMap_bug_renamefirst.cfg", "RenameMustBeFirst", "ShapeOk"),
    ("MC_JsonMap_bug_vecnone.cfg", "VecNoneDropped", "RoundTrip"),
    ("MC_JsonMap_bug_optinner.cfg", "OptInnerFirst", "RoundTrip"),
    ("MC_JsonMap_bug_tupleobj.cfg", "TupleAsObject", "ShapeOk"),
    ("MC_JsonMap_bug_noneomitted.cfg", "NoneOmitted", "ShapeOk"),
    ("MC_JsonMap_dupkeys.cfg", "AllowDupKeys", "RoundTrip"),
]


def tlc(module, cfg, **kw):
    env = dict(UTF8)
    env.update(kw.pop("env", {}))
    kw.setdefault("work_id", "c14")
    r = run_tlc(module, cfg, D, env=env, **kw)
    # re-read the printed JSON lines splitting on "\n" only: str.splitlines() (used by vlib) also splits on U+0085,
    # U+2028, FS/GS/RS ..., which occur inside the strings under test (TLC's ToJson leaves U+0085 unescaped)
    r.prints = []
    for line in r.out.split("\n"):
        line = line.rstrip("\r")
        if line.startswith('"{') or line.startswith('"['):
            try:
                r.prints.append(json.loads(json.loads(line)))
            except ValueError:
                pass
    return r


# ------------------------------------------------------------------------------------------------------
# Rendering of the spec's records as Rust source / JSON text (projection abstract -> concrete; no expectations here)
# ------------------------------------------------------------------------------------------------------

def rust_str(s):
    out = ['"']
    for ch in s:
        o = ord(ch)
        if ch == '"':
            out.append('\\"')
        elif ch == "\\":
            out.append("\\\\")
        elif ch == "\n":
            out.append("\\n")
        elif ch == "\t":
            out.append("\\t")
        elif ch == "\r":
            out.append("\\r")
        elif o < 0x20 or o == 0x7F:
            out.append("\\u{%x}" % o)
        else:
            out.append(ch)
    out.append('"')
    return "".join(out)


def json_text(t):
    """JSON text of a canonical tree {t,s,k,c} (numbers are already decimal text)."""
    k = t["t"]
    if k == "null":
        return "null"
    if k in ("bool", "num"):
        return t["s"]
    if k == "str":
        return json.dumps(t["s"], ensure_ascii=False)
    if k == "arr":
        return "[" + ",".join(json_text(c) for c in t["c"]) + "]"
    if k == "obj":
        return "{" + ",".join(json.dumps(n, ensure_ascii=False) + ":" + json_text(c) for n, c in zip(t["k"], t["c"])) + "}"
    raise vlib.ToolError("bad tree node %r" % (t,))


def tree_size(t):
    return 1 + sum(tree_size(c) for c in t["c"])


def rust_type(ty):
    b = ty["base"]
    t = {"Bool": "bool", "F64": "f64", "F32": "f32", "Str": "String"}.get(b) or ty["a"]
    for w in reversed(ty["w"]):
        t = ("Option<%s>" if w == "Opt" else "Vec<%s>") % t
    return t


def rust_decl(d, traits="FromJson, IntoJson", name=None):
    """Rust source of a declaration. `traits`/`name` let the same declaration be emitted as two types that derive
    IntoJson and FromJson separately."""
    n, fs = name or d["name"], d["fields"]
    lines = []

    def attrs(f, rename):
        out, a = [], f.get("doc") or ""
        if a == "doc":
            out.append("    /// documented member (an attribute that is not `rename`, before it)")
        elif a == "allow":
            out.append("    #[allow(dead_code)]")
        if rename and f["hasRen"]:
            out.append("    #[rename = %s]" % rust_str(f["ren"]))
        if a == "after":
            out.append("    /// documented member (the doc attribute comes after `rename`)")
        return out

    if d["kind"] == "named":
        derive = (traits + ", Debug, PartialEq, Clone") if d["via"] == "derive" else "Debug, PartialEq, Clone"
        lines.append("#[derive(%s)]" % derive)
        lines.append("pub struct %s {" % n)
        for f in fs:
            lines += attrs(f, d["via"] == "derive")
            lines.append("    pub %s: %s," % (f["id"], rust_type(f["ty"])))
        lines.append("}")
        if d["via"] == "map":
            lines.append("json_map! {")
            lines.append("    %s," % n)
            lines.append(",\n".join("    %s => %s" % (f["id"], rust_str(f["ren"])) for f in fs))
            lines.append("}")
    elif d["kind"] == "tuple":
        lines.append("#[derive(%s, Debug, PartialEq, Clone)]" % traits)
        lines.append("pub struct %s(" % n)
        for f in fs:
            lines += attrs(f, False)
            lines.append("    pub %s," % rust_type(f["ty"]))
        lines.append(");")
    else:
        lines.append("#[derive(%s, Debug, PartialEq, Clone)]" % traits)
        lines.append("pub enum %s {" % n)
        for f in fs:
            lines += attrs(f, True)
            lines.append("    %s," % f["id"])
        lines.append("}")
    return "\n".join(lines)


def bits_int(b):
    return int("".join(str(x) for x in b), 2) if b else 0


def rust_value(v, ty, prog):
    if ty["w"]:
        inner = dict(ty, w=ty["w"][1:])
        if ty["w"][0] == "Opt":
            return "None" if v["t"] == "none" else "Some(%s)" % rust_value(v["c"][0], inner, prog)
        return "vec![%s]" % ", ".join(rust_value(x, inner, prog) for x in v["c"])
    b = ty["base"]
    if b == "Bool":
        return v["s"]
    if b == "Int":
        return "%s%d%s" % (v["s"], bits_int(v["b"]), ty["a"])
    if b in ("F64", "F32"):
        return "%s%d%s%s" % (v["s"], bits_int(v["b"]), ("." + v["f"]) if v["f"] else "", b.lower())
    if b == "Str":
        return rust_str(v["s"]) + ".to_string()"
    d = next(x for x in prog if x["name"] == ty["a"])
    return rust_decl_value(v, d, prog)


def rust_decl_value(v, d, prog):
    if d["kind"] == "enum":
        return "%s::%s" % (d["name"], v["s"])
    vals = [rust_value(x, f["ty"], prog) for x, f in zip(v["c"], d["fields"])]
    if d["kind"] == "tuple":
        return "%s(%s)" % (d["name"], ", ".join(vals))
    return "%s { %s }" % (d["name"], ", ".join("%s: %s" % (f["id"], x) for f, x in zip(d["fields"], vals)))


MOD_HEAD = "use crate::support;\nuse humphrey_json::prelude::*;\nuse humphrey_json::Value;\n\n"


def split_fn(fname, d, v, prog, doc):
    """The same vector with IntoJson and FromJson derived on two separate types (T__i serialises, T__f reads)."""
    ni, nf = d["name"] + "__i", d["name"] + "__f"
    return ("pub fn %s() -> String {\n"
            "    let vi: %s = %s;\n"
            "    let vf: %s = %s;\n"
            "    let doc: &str = %s;\n"
            "    let j = vi.to_json();\n"
            "    let ser = humphrey_json::to_string(&vi);\n"
            "    let rt = %s::from_json(&j).ok() == Some(vf.clone());\n"
            "    let back: Option<%s> = humphrey_json::from_str(&ser).ok();\n"
            "    let rtt = back == Some(vf.clone());\n"
            "    let pe = Value::parse(doc).map(|x| x == j).unwrap_or(false);\n"
            "    let read: Option<%s> = humphrey_json::from_str(doc).ok();\n"
            "    let fe = read == Some(vf.clone());\n"
            "    let sp = Value::parse(&ser).map(|x| x == j).unwrap_or(false);\n"
            "    support::map_result(&j, &ser, rt, rtt, pe, fe, sp)\n"
            "}\n") % (fname, ni, rust_decl_value(v, dict(d, name=ni), prog), nf, rust_decl_value(v, dict(d, name=nf), prog),
                      rust_str(json_text(doc)), nf, nf, nf)


def map_fn(fname, d, v, prog, doc):
    n = d["name"]
    return ("pub fn %s() -> String {\n"
            "    let v: %s = %s;\n"
            "    let doc: &str = %s;\n"
            "    let j = v.to_json();\n"
            "    let ser = humphrey_json::to_string(&v);\n"
            "    let rt = %s::from_json(&j).ok() == Some(v.clone());\n"
            "    let back: Option<%s> = humphrey_json::from_str(&ser).ok();\n"
            "    let rtt = back == Some(v.clone());\n"
            "    let pe = Value::parse(doc).map(|x| x == j).unwrap_or(false);\n"
            "    let read: Option<%s> = humphrey_json::from_str(doc).ok();\n"
            "    let fe = read == Some(v.clone());\n"
            "    let sp = Value::parse(&ser).map(|x| x == j).unwrap_or(false);\n"
            "    support::map_result(&j, &ser, rt, rtt, pe, fe, sp)\n"
            "}\n") % (fname, n, rust_decl_value(v, d, prog), rust_str(json_text(doc)), n, n, n)


def lit_fn(fname, src, doc, env):
    return ("pub fn %s() -> String { %s let j = json!(%s); let doc: &str = %s; "
            "let eq = Value::parse(doc).map(|x| x == j).unwrap_or(false); support::lit_result(&j, eq) }\n"
            % (fname, " ".join(env), src, rust_str(json_text(doc))))


# ------------------------------------------------------------------------------------------------------
# The generated crate
# ------------------------------------------------------------------------------------------------------

class Crate:
    """Modules (name -> source text) and vectors (id -> (module, function))."""

    def __init__(self):
        self.mods = {}
        self.vecs = []          # (id, module, function)
        self.owner = {}         # module -> description object (for compile error reports)
        self.line_of = {}       # (module, line) -> vector id (literal chunks: one function per line)

    def add_program(self, mod, prog, vec_specs, what, split_specs=()):
        """vec_specs: list of (vector id, function name, decl, value, doc); split_specs: the same for vectors that are
        (also) run with IntoJson / FromJson derived separately on twin types."""
        src = ["// " + what, MOD_HEAD]
        for d in prog:
            src.append(rust_decl(d))
            src.append("")
        twins = []
        for vid, fn, d, v, doc in split_specs:
            if d["name"] not in twins:
                twins.append(d["name"])
                src.append(rust_decl(d, traits="IntoJson", name=d["name"] + "__i"))
                src.append(rust_decl(d, traits="FromJson", name=d["name"] + "__f"))
                src.append("")
            src.append(split_fn(fn, d, v, prog, doc))
            self.vecs.append((vid, mod, fn))
        for vid, fn, d, v, doc in vec_specs:
            src.append(map_fn(fn, d, v, prog, doc))
            self.vecs.append((vid, mod, fn))
        self.mods[mod] = "\n".join(src)
        self.owner[mod] = {"kind": "program", "prog": prog, "what": what}

    def add_literals(self, prefix, lits, env, chunk=400):
        """lits: list of (vector id, src, doc)."""
        for c in range(0, len(lits), chunk):
            mod = "%s%03d" % (prefix, c // chunk)
            lines = ["// json! literals", "use crate::support;", "use humphrey_json::prelude::*;", "use humphrey_json::Value;"]
            for i, (vid, src, doc) in enumerate(lits[c:c + chunk]):
                fn = "l%d" % i
                lines.append(lit_fn(fn, src, doc, env).rstrip("\n"))
                self.line_of[(mod, len(lines))] = vid
                self.vecs.append((vid, mod, fn))
            self.mods[mod] = "\n".join(lines) + "\n"
            self.owner[mod] = {"kind": "literals"}

    def write(self, excluded_mods=(), excluded_vecs=()):
        g = os.path.join(GEN, "src", "g")
        shutil.rmtree(g, ignore_errors=True)
        os.makedirs(g)
        mods = [m for m in self.mods if m not in excluded_mods]
        for m in mods:
            text = self.mods[m]
            if excluded_vecs and self.owner[m]["kind"] == "literals":
                # blank the offending literal functions (keep line numbers stable)
                ls = text.split("\n")
                for (mm, ln), vid in self.line_of.items():
                    if mm == m and vid in excluded_vecs:
                        ls[ln - 1] = "// excluded: did not compile"
                text = "\n".join(ls)
            with open(os.path.join(g, m + ".rs"), "w", encoding="utf-8") as f:
                f.write(text)
        with open(os.path.join(g, "mod.rs"), "w") as f:
            f.write("".join("pub mod %s;\n" % m for m in mods))
        rows = ["    (%s, g::%s::%s)," % (json.dumps(vid), m, fn) for vid, m, fn in self.vecs
                if m not in excluded_mods and vid not in excluded_vecs]
        with open(os.path.join(GEN, "src", "main.rs"), "w") as f:
            f.write("// generated by checks/c14.py - do not edit\n#![allow(unused, non_snake_case, non_camel_case_types, clippy::all)]\n"
                    "mod g;\nmod support;\n\nstatic VECTORS: &[(&str, fn() -> String)] = &[\n%s\n];\n\n"
                    "fn main() {\n    support::quiet_panics();\n"
                    "    let start: usize = std::env::args().nth(1).and_then(|s| s.parse().ok()).unwrap_or(0);\n"
                    "    for (id, f) in &VECTORS[start.min(VECTORS.len())..] {\n        support::run(id, *f);\n    }\n}\n"
                    % "\n".join(rows))
        self.order = [vid for vid, m, fn in self.vecs if m not in excluded_mods and vid not in excluded_vecs]
        return len(rows)


class CrateSet:
    """The generated code as a sequence of crates of at most LIMIT vectors, built and run one after the other in gen/
    (one rustc at a time: a single crate with tens of thousands of functions needs several GB)."""
    LIMIT = 9000

    def __init__(self):
        self.crates = [Crate()]

    def _cur(self):
        if len(self.crates[-1].vecs) >= self.LIMIT:
            self.crates.append(Crate())
        return self.crates[-1]

    def add_program(self, *a, **kw):
        self._cur().add_program(*a, **kw)

    def add_literals(self, prefix, lits, env, chunk=400):
        for c in range(0, len(lits), chunk):
            self._cur().add_literals("%s%03d_" % (prefix, c // chunk), lits[c:c + chunk], env, chunk)

    @property
    def modules(self):
        return sum(len(c.owner) for c in self.crates)


_GFILE = re.compile(r"(?:^|/)src/g/(\w+)\.rs$")


def error_sites(cargo_json_output):
    """(module, line, message) for every rustc error that touches a generated module: the primary span, or - for
    errors reported inside a macro expansion (the definition site in /repo's macros.rs is the primary span then) - the
    invocation site found by walking the expansion chain."""
    out, other = [], []
    for line in cargo_json_output.split("\n"):
        if not line.startswith("{"):
            continue
        try:
            o = json.loads(line)
        except ValueError:
            continue
        m = o.get("message") if o.get("reason") == "compiler-message" else None
        if not m or m.get("level") != "error":
            continue
        sites = []

        def walk(sp):
            while sp:
                g = _GFILE.search(sp.get("file_name", ""))
                if g:
                    sites.append((g.group(1), sp.get("line_start", 0)))
                sp = (sp.get("expansion") or {}).get("span")

        for sp in sorted(m.get("spans", []), key=lambda x: not x.get("is_primary")):
            walk(sp)
        for ch in m.get("children", []):
            for sp in ch.get("spans", []):
                walk(sp)
        if sites:
            out.append((sites[0][0], sites[0][1], m.get("message", "")))
        elif not m.get("message", "").startswith("aborting due to") and "could not compile" not in m.get("message", ""):
            other.append(m.get("rendered") or m.get("message", ""))
    return out, other


def build_and_run(crate, ctx, label):
    """Compile the generated crate against /repo and run it. Compile errors located in generated modules are results:
    the module (program) or the literal is reported and excluded, and the rest is built again."""
    os.makedirs(vlib.WORK, exist_ok=True)
    lockf = open(os.path.join(vlib.WORK, "c14gen.lock"), "w")
    fcntl.flock(lockf, fcntl.LOCK_EX)
    try:
        excl_mods, excl_vecs, compile_errors = set(), set(), []
        t0 = time.time()
        built = False
        for attempt in range(8):
            n = crate.write(excl_mods, excl_vecs)
            cargo_cmd = ["cargo", "build", "--offline", "-q", "--message-format=json"]
            bin_path = os.path.join(GEN, "target", "debug", "c14gen")
            if os.path.abspath(vlib.REPO) != "/repo":
                # development aid (seeded changes in a scratch worktree): build against that checkout, own target dir
                alt = os.path.abspath(vlib.REPO)
                tdir = os.path.join(vlib.WORK, "target-alt-gen-" + vlib.alt_tag(vlib.REPO))
                cargo_cmd += ["--config", 'paths=["%s","%s"]' % (os.path.join(alt, "humphrey-json"), os.path.join(alt, "humphrey-json-derive")),
                              "--target-dir", tdir]
                bin_path = os.path.join(tdir, "debug", "c14gen")
            p = subprocess.run(cargo_cmd, cwd=GEN, env=vlib.cargo_env(),
                               stdout=subprocess.PIPE, stderr=subprocess.PIPE, text=True, errors="replace")
            if p.returncode == 0:
                built = True
                break
            found = False
            sites, other = error_sites(p.stdout)
            for mod, ln, msg in sites:
                if mod not in crate.owner:
                    continue
                found = True
                if crate.owner[mod]["kind"] == "literals":
                    vid = crate.line_of.get((mod, ln))
                    if vid is None or vid in excl_vecs:
                        continue
                    excl_vecs.add(vid)
                    compile_errors.append({"kind": "compile-error", "vector": vid, "message": msg, "module": mod, "line": ln})
                elif mod not in excl_mods:
                    excl_mods.add(mod)
                    compile_errors.append({"kind": "compile-error", "module": mod, "message": msg, "line": ln,
                                           "program": crate.owner[mod].get("prog"), "what": crate.owner[mod].get("what"),
                                           "source": crate.mods[mod].split("\n")[max(0, ln - 3):ln + 2]})
            if not found:
                raise vlib.ToolError("generated crate does not build and no error touches a generated module:\n"
                                     + "\n".join(other)[-3000:] + "\n" + p.stderr[-1500:])
        if not built:
            # still failing after eight rounds of excluding what rustc pointed at: every remaining vector counts as
            # "does not compile" (a result, not a tool error) and nothing is run
            vlib.log("[C14] generated crate still does not build after excluding %d modules / %d literals" % (len(excl_mods), len(excl_vecs)))
            res = {vid: {"id": vid, "compiled": False, "rustc": "crate does not build: " + (compile_errors[-1]["message"] if compile_errors else "?")}
                   for vid, _, _ in crate.vecs}
            for ce in compile_errors:
                if "vector" in ce:
                    res[ce["vector"]]["rustc"] = ce["message"]
            ctx.add_part("generated crate (%s)" % label, modules=len(crate.mods), vectors=0, build_s=round(time.time() - t0, 1),
                         compile_errors=len(compile_errors), rounds=attempt + 1, process_deaths=0)
            return res, compile_errors
        build_s = time.time() - t0
        # run; a vector that kills the process (abort, stack overflow) is data too: it is recorded and the run resumes
        # after it
        res, start, deaths = {}, 0, 0
        while True:
            r = vlib.run_bin(bin_path, [str(start)], timeout=900)
            got = 0
            for ln in r.stdout.split("\n"):       # not splitlines(): U+2028 etc. occur inside the strings under test
                if ln.startswith("{") and ln.endswith("}"):
                    try:
                        x = json.loads(ln)
                    except ValueError:
                        break
                    res[x["id"]] = x
                    got += 1
            if r.returncode == 0:
                break
            deaths += 1
            if start + got >= len(crate.order) or deaths > 25:
                raise vlib.ToolError("generated program failed rc=%s after %d vectors: %s" % (r.returncode, start + got, r.stderr[-1500:]))
            vid = crate.order[start + got]
            res[vid] = {"id": vid, "panic": "process died (rc %s): %s" % (r.returncode, r.stderr.strip()[-300:])}
            start += got + 1
        failed = {}                                 # vector id -> rustc message (its module / literal did not compile)
        for ce in compile_errors:
            if "vector" in ce:
                failed[ce["vector"]] = ce["message"]
            else:
                for vid, m, _ in crate.vecs:
                    if m == ce["module"]:
                        failed[vid] = ce["message"]
        if len(res) != n and os.environ.get("C14_KEEP"):
            open(os.path.join(vlib.workdir("C14"), "stdout.txt"), "w").write(r.stdout)
        if len(res) != n:
            raise vlib.ToolError("generated program printed %d result lines for %d vectors" % (len(res), n))
        ctx.add_part("generated crate (%s)" % label, modules=len(crate.mods), vectors=n, build_s=round(build_s, 1),
                     compile_errors=len(compile_errors), rounds=attempt + 1, process_deaths=deaths)
        for x in res.values():
            x["compiled"] = True
        for vid, msg in failed.items():
            res[vid] = {"id": vid, "compiled": False, "rustc": msg}
        return res, compile_errors
    finally:
        shutil.rmtree(os.path.join(GEN, "src", "g"), ignore_errors=True)
        try:
            os.remove(os.path.join(GEN, "src", "main.rs"))
        except OSError:
            pass
        fcntl.flock(lockf, fcntl.LOCK_UN)
        lockf.close()


# ------------------------------------------------------------------------------------------------------
# Comparison with TLC's expectation (enumerated vectors)
# ------------------------------------------------------------------------------------------------------

def map_agrees(r, o):
    if r["compiled"] != o["c"] or not r["compiled"]:
        return r["compiled"] == o["c"]
    return (r.get("panic") == "" and r.get("obs") == o["obs"] and r.get("rt") == o["rt"] and r.get("rtt") == o["rt"]
            and r.get("pe") == o["pe"] and r.get("fe") == o["fe"] and r.get("sp") is True)


def lit_agrees(r, o):
    if r["compiled"] != o["ok"] or not r["compiled"]:
        return r["compiled"] == o["ok"]
    return r.get("panic") == "" and r.get("obs") == o["obs"] and r.get("eq") == o["eq"]


def judge(r, exp, alt, attr, agrees):
    """'ok' | deviation name | None (unexplained)"""
    if agrees(r, exp):
        return "ok"
    for name, a in zip(attr, alt):
        if not a.get("same", True) and agrees(r, a["o"]):
            return name
    return None


def record_of(x, r):
    """The trace record of one executed vector: its inputs in the spec's encoding and what the real code showed."""
    rec = {k: v for k, v in x.items() if k not in ("pidx", "split")}
    rec["compiled"] = r["compiled"]
    rec["rustc"] = r.get("rustc", "")
    rec["panic"] = r.get("panic", "")
    rec["obs"] = r.get("obs", {"t": "null", "s": "", "k": [], "c": []})
    for k in (("rt", "rtt", "pe", "fe", "sp") if x["kind"] == "map" else ("eq",)):
        rec[k] = bool(r.get(k, False))
    return rec


def brief(r):
    if r is None:
        return None
    x = dict(r)
    if "obs" in x:
        x["obs_text"] = json_text(x.pop("obs"))
    return x


# ------------------------------------------------------------------------------------------------------
# Random inputs for the code -> spec direction (inputs only; what they mean is TLC's business)
# ------------------------------------------------------------------------------------------------------

POOL = list("ab Z_-./:{}[],\"\\'=#%") + ["\u00e9", "\u00df", "\u65e5", "\u672c", "\U0001F600", "\t", "\n", "\r", "\u00a0", "\u007f", "\u2028", "\u0001"]
UNIT = {"base": "Unit", "a": "", "w": []}


def val(t, s="", b=(), f="", c=()):
    return {"t": t, "s": s, "b": list(b), "f": f, "c": list(c)}


def to_bits(n):
    return [int(x) for x in bin(n)[2:]] if n else []


class RandomInputs:
    def __init__(self, seed, cat):
        self.rng = random.Random(seed)
        self.cat = cat
        self.kinds = {k["name"]: k for k in cat["intkinds"]}

    def string(self, catalogue):
        r = self.rng
        if r.random() < 0.5:
            return r.choice(catalogue)
        return "".join(r.choice(POOL) for _ in range(r.randint(0, 7)))

    def type(self, earlier):
        r = self.rng
        allopt = [n for n in earlier if n in getattr(self, "allopt", ())]
        if allopt and r.random() < 0.3:
            # Option<S> / Vec<Option<S>> of a struct S whose members are all optional: S itself reads `null` (every missing key
            # is read as null), so None and Some(S{None..}) must still be told apart by Option's own look at the value
            return {"base": "Ref", "a": r.choice(allopt), "w": r.choice([["Opt"], ["Opt"], ["Vec", "Opt"], ["Opt", "Vec"]])}
        if earlier and r.random() < 0.35:
            base = ("Ref", r.choice(earlier))
        else:
            base = r.choice([("Bool", ""), ("F64", ""), ("F32", ""), ("Str", "")] + [("Int", k) for k in self.kinds] * 1)
        w = []
        for _ in range(r.choice([0, 0, 1, 1, 2, 2, 3])):
            c = r.choice(["Opt", "Vec"])
            if c == "Opt" and w and w[-1] == "Opt":      # Option<Option<T>> is outside the property (one null)
                c = "Vec"
            w.append(c)
        return {"base": base[0], "a": base[1], "w": w}

    def decl(self, name, earlier):
        r = self.rng
        kind, via = r.choice([("named", "derive"), ("named", "map"), ("tuple", "derive"), ("enum", "derive")])
        n = r.randint(1, 6 if kind == "tuple" else 8)
        ids = self.cat["varids"] if kind == "enum" else self.cat["fieldids"]
        fields, keys = [], set()
        for i in range(n):
            fid = str(i) if kind == "tuple" else ids[i]
            ty = UNIT if kind == "enum" else self.type(earlier)
            has, ren = False, ""
            if kind != "tuple":
                if via == "map":
                    has, ren = True, (fid if r.random() < 0.3 else self.string(self.cat["renames"]))
                elif r.random() < 0.5:
                    has, ren = True, self.string(self.cat["renames"])
            fields.append({"id": fid, "hasRen": has, "ren": ren, "doc": r.choice(["", "", "", "", "doc", "allow", "after"]), "ty": ty})
        # precondition WellFormed: members of one type travel under distinct names
        ks = [f["ren"] if f["hasRen"] else f["id"] for f in fields]
        if len(set(ks)) != len(ks):
            return self.decl(name, earlier)
        if kind == "named" and r.random() < 0.25:
            # every member optional (outermost wrapper Option; Option<Option<T>> stays outside the property)
            for f in fields:
                if not f["ty"]["w"] or f["ty"]["w"][0] != "Opt":
                    f["ty"] = dict(f["ty"], w=["Opt"] + list(f["ty"]["w"]))
            if not hasattr(self, "allopt"):
                self.allopt = set()
            self.allopt.add(name)
        elif hasattr(self, "allopt"):
            self.allopt.discard(name)          # names are reused from program to program
        return {"name": name, "kind": kind, "via": via, "fields": fields}

    def program(self):
        prog = []
        for i in range(self.rng.randint(1, 6)):
            prog.append(self.decl("D%d" % (i + 1), [d["name"] for d in prog]))
        return prog

    def int_value(self, kind):
        r = self.rng
        k = self.kinds[kind]
        n, signed = k["bits"], k["signed"]
        mx = (1 << (n - 1)) - 1 if signed else (1 << n) - 1
        mn = -(1 << (n - 1)) if signed else 0
        if r.random() < 0.4:
            e = r.choice([7, 8, 15, 16, 24, 31, 32, 53, 63, 64, 127])
            x = r.choice([mn, mx, 0, 1, -1, mx - 1, mn + 1, (1 << e) - 1, 1 << e, (1 << e) + 1, -(1 << e), -(1 << e) - 1, -(1 << e) + 1])
        else:
            x = r.getrandbits(r.randint(1, n))
            if signed and r.random() < 0.5:
                x = -x
        x = max(mn, min(mx, x))
        return val("int", "-" if x < 0 else "", to_bits(abs(x)))

    def value(self, ty, prog):
        r = self.rng
        if ty["w"]:
            inner = dict(ty, w=ty["w"][1:])
            if ty["w"][0] == "Opt":
                return val("none") if r.random() < 0.35 else val("some", c=[self.value(inner, prog)])
            return val("vec", c=[self.value(inner, prog) for _ in range(r.choice([0, 1, 1, 2, 3]))])
        b = ty["base"]
        if b == "Bool":
            return val("bool", r.choice(["true", "false"]))
        if b == "Int":
            return self.int_value(ty["a"])
        if b == "F64":
            # <= 10 integer + <= 4 fractional digits: at most 15 significant digits, so Rust's shortest round-trip
            # Display prints exactly this decimal (the observation is compared as text)
            ip = r.choice([0, 0, 1, r.getrandbits(10), r.getrandbits(20), r.getrandbits(30)])
            fr = r.choice(["", "", "5", "25", "75", "125", "375", "0625"])
            sg = "-" if (ip or fr) and r.random() < 0.4 else ""
            return val("f64", sg, to_bits(ip), fr)
        if b == "F32":          # exact in binary32: < 2^24 with a dyadic fraction of <= 3 bits
            ip = r.choice([0, 1, r.getrandbits(8), r.getrandbits(20), (1 << 24) - 1])
            fr = "" if ip >= (1 << 20) else r.choice(["", "5", "25", "75", "125"])
            sg = "-" if (ip or fr) and r.random() < 0.4 else ""
            return val("f64", sg, to_bits(ip), fr)
        if b == "Str":
            return val("str", self.string(self.cat["strings"]))
        return self.decl_value(next(d for d in prog if d["name"] == ty["a"]), prog)

    def decl_value(self, d, prog):
        if d["kind"] == "enum":
            return val("enum", self.rng.choice(d["fields"])["id"])
        return val("struct", c=[self.value(f["ty"], prog) for f in d["fields"]])

    def literal(self, depth, top=True):
        r = self.rng
        if top and r.random() < 0.02:
            return {"k": "empty", "e": 0, "tc": False, "ks": [], "items": []}
        if depth == 0 or (not top and r.random() < 0.45):
            if r.random() < 0.3:
                return {"k": "null", "e": 0, "tc": False, "ks": [], "items": []}
            return {"k": "expr", "e": r.randint(1, len(self.cat["leaves"])), "tc": False, "ks": [], "items": []}
        k = r.choice(["arr", "obj"])
        n = r.choice([0, 1, 2, 2, 3, 4, 5])
        items = [self.literal(depth - 1, False) for _ in range(n)]
        ks = r.sample(range(1, len(self.cat["keys"]) + 1), n) if k == "obj" else []
        return {"k": k, "e": 0, "tc": bool(n and r.random() < 0.4), "ks": ks, "items": items}


# ------------------------------------------------------------------------------------------------------
# Deterministic sweeps for the code -> spec direction (inputs only, independent of VERIF_SEED): every rename / key
# string of a list of hard cases in every place a name can stand, names that differ only in case, long vectors with
# None in every position, nested containers in every position of a json! array / object, long literals.
# ------------------------------------------------------------------------------------------------------

SWEEP_EXTRA = ["\u0001", "\u001f", "\r\n", "\u0080", "\u009f", "x\u0000y", "\ufeff", "\u200b", "\u2029", "\\u0041", "\\n", "%s", "{}",
               "null", "true", "0", "-1", " ", "\t", "\n", "\u0130\u0307", "\U000e0001", "a\u0085", "\u0085a"]


def _fld(fid, ren, attr, ty):
    return {"id": fid, "hasRen": ren is not None, "ren": ren or "", "doc": attr, "ty": ty}


def _ty(base, a="", w=()):
    return {"base": base, "a": a, "w": list(w)}


def _keys_ok(d):
    ks = [f["ren"] if f["hasRen"] else f["id"] for f in d["fields"]]
    return len(set(ks)) == len(ks)


def sweep_programs(cat):
    """[(program, [(decl name, value, also as split twins)])]"""
    ri = RandomInputs(20260929, cat)
    attrs = ["", "doc", "allow", "after"]
    out = []

    def pack(prog, nvals=2):
        vs = []
        for d in prog:
            if not _keys_ok(d):
                raise vlib.ToolError("sweep produced a declaration outside the domain: %s" % d)
            if d["kind"] == "enum":
                vals = [val("enum", f["id"]) for f in d["fields"]]
            else:
                vals = [ri.decl_value(d, prog) for _ in range(nvals)]
            for i, v in enumerate(vals):
                vs.append((d["name"], v, d["via"] == "derive" and i == 0))
        out.append((prog, vs))

    # the catalogue strings with outer white space / controls / lone delimiters / case mappings (the ordinary ones occur in
    # every position of the enumerated family already) and the extra hard cases
    strs = list(dict.fromkeys(cat["renames"][10:] + SWEEP_EXTRA))
    for i, s_ in enumerate(strs):
        a1, a2, a3 = attrs[i % 4], attrs[(i + 1) % 4], attrs[(i + 2) % 4]
        if s_ in ("Bee", "value"):
            continue
        prog = [
            {"name": "D1", "kind": "enum", "via": "derive",
             "fields": [_fld("A", s_, a1, UNIT), _fld("Bee", None, a2, UNIT), _fld("C3", s_ + "x", a3, UNIT)]},
            {"name": "D2", "kind": "named", "via": "derive",
             "fields": [_fld("a", s_, a1, _ty("Int", "u8")), _fld("value", None, a2, _ty("Ref", "D1", ["Opt"])),
                        _fld("b2", " " + s_ + " ", a3, _ty("Str", "", ["Vec", "Opt"]))]},
            {"name": "D3", "kind": "named", "via": "map",
             "fields": [_fld("a", s_, a1, _ty("Ref", "D1")), _fld("value", s_ + "x", "", _ty("Int", "i64", ["Opt"]))]},
            {"name": "D4", "kind": "tuple", "via": "derive",
             "fields": [_fld("0", None, a1, _ty("Ref", "D2")), _fld("1", None, a2, _ty("Ref", "D3", ["Opt"]))]},
        ]
        pack(prog)
    # names that differ only in case (or only after case mapping)
    pack([{"name": "D1", "kind": "enum", "via": "derive",
           "fields": [_fld("A", "x", "", UNIT), _fld("Bee", "X", "doc", UNIT), _fld("C3", "\u00df", "", UNIT), _fld("Value", "SS", "", UNIT),
                      _fld("E", "ss", "after", UNIT), _fld("F", "e", "", UNIT)]},
          {"name": "D2", "kind": "named", "via": "derive",
           "fields": [_fld("a", "k", "", _ty("Int", "u8")), _fld("value", "K", "", _ty("Int", "u16")), _fld("b2", "Key", "doc", _ty("Int", "u32")),
                      _fld("string", "KEY", "", _ty("Int", "i8")), _fld("e", None, "", _ty("Int", "i16")), _fld("f", "E", "", _ty("Ref", "D1"))]},
          {"name": "D3", "kind": "named", "via": "map",
           "fields": [_fld("a", "a", "", _ty("Bool")), _fld("value", "A", "", _ty("Bool", "", ["Opt"])), _fld("b2", "VALUE", "", _ty("Str"))]}], 3)
    # long vectors, None in every position
    d = {"name": "D1", "kind": "tuple", "via": "derive",
         "fields": [_fld("0", None, "", _ty("Int", "u8", ["Vec"])), _fld("1", None, "", _ty("Int", "i64", ["Vec", "Opt"])),
                    _fld("2", None, "", _ty("Bool", "", ["Vec", "Vec"])), _fld("3", None, "", _ty("Str", "", ["Vec", "Opt"]))]}
    vs = []
    for nones in (lambda k, n: k % 7 == 0, lambda k, n: k == n - 1, lambda k, n: k % 2 == 1):
        n1 = 48
        v = val("struct", c=[
            val("vec", c=[val("int", "", to_bits(k % 256)) for k in range(260)]),
            val("vec", c=[val("none") if nones(k, n1) else val("some", c=[val("int", "-" if k % 3 == 0 and k else "", to_bits((1 << (k % 63)) + k))])
                          for k in range(n1)]),
            val("vec", c=[val("vec", c=[val("bool", "true" if (k + h) % 2 else "false") for h in range(k % 4)]) for k in range(50)]),
            val("vec", c=[val("none") if nones(k, 5) else val("some", c=[val("str", cat["strings"][k % len(cat["strings"])])]) for k in range(5)])])
        vs.append(("D1", v, len(vs) == 0))
    out.append(([d], vs))
    # newtypes: tuple structs with exactly ONE field whose type is itself a sequence / option of sequences, with the values at
    # which "the documented one-element array" and "the field's own value" could be confused: the empty outer vector ([[]]),
    # None ([null]), [None], [[]], [[], []].  Added after a seeded "accept the bare inner value for single-field tuple structs"
    # was missed (round 8): Grid(vec![]) came back as Grid(vec![vec![]]).
    i32v = lambda k: val("int", "-" if k < 0 else "", to_bits(abs(k)))
    V = lambda *c: val("vec", c=list(c))
    S = lambda x: val("some", c=[x])
    N = val("none")
    fams = [
        (["Vec", "Vec"], [V(), V(V()), V(V(), V()), V(V(i32v(1))), V(V(i32v(1), i32v(-2)), V())]),
        (["Vec", "Vec", "Vec"], [V(), V(V()), V(V(V())), V(V(V(i32v(7))))]),
        (["Opt", "Vec", "Opt"], [N, S(V()), S(V(N)), S(V(S(i32v(3)))), S(V(N, S(i32v(0)), N))]),
        (["Opt", "Vec", "Vec"], [N, S(V()), S(V(V())), S(V(V(i32v(5))))]),
        (["Vec", "Opt"], [V(), V(N), V(N, N), V(S(i32v(1))), V(S(i32v(1)), N)]),
        (["Opt", "Vec"], [N, S(V()), S(V(i32v(1))), S(V(i32v(1), i32v(2)))]),
        (["Vec"], [V(), V(i32v(1)), V(i32v(1), i32v(2))]),
        (["Opt"], [N, S(i32v(0))]),
    ]
    for k, (w, vals_) in enumerate(fams):
        d1 = {"name": "D1", "kind": "tuple", "via": "derive", "fields": [_fld("0", None, ["", "doc", "", "after"][k % 4], _ty("Int", "i32", w))]}
        # ... and the same newtype as a member of a named struct and inside a vector of another tuple struct
        d2 = {"name": "D2", "kind": "named", "via": "derive", "fields": [_fld("a", None, "", _ty("Ref", "D1")), _fld("value", "v", "", _ty("Ref", "D1", ["Vec"]))]}
        vs = []
        for v in vals_:
            vs.append(("D1", val("struct", c=[v]), len(vs) == 0))
        for a in range(len(vals_)):
            vs.append(("D2", val("struct", c=[val("struct", c=[vals_[a]]), V(*[val("struct", c=[x]) for x in vals_[: a + 1]])]), False))
        out.append(([d1, d2], vs))
    return out


def _lit(k, items=(), ks=(), tc=False, e=0):
    return {"k": k, "e": e, "tc": tc, "ks": list(ks), "items": list(items)}


def sweep_literals(cat):
    nl, nk = len(cat["leaves"]), len(cat["keys"])
    cnt = [0]

    def leaf():
        cnt[0] += 1
        return _lit("null") if cnt[0] % 4 == 0 else _lit("expr", e=(cnt[0] % nl) + 1)

    def nested():
        return [_lit("arr"), _lit("arr", [leaf()]), _lit("arr", [_lit("null"), leaf()]), _lit("arr", [_lit("arr", [leaf()])]),
                _lit("obj"), _lit("obj", [_lit("arr", [leaf(), _lit("null")])], [(cnt[0] % nk) + 1]),
                _lit("arr", [leaf(), _lit("arr", [_lit("null"), leaf()], tc=True)]),
                _lit("obj", [_lit("null"), _lit("obj", [_lit("arr")], [2])], [1, 3])]

    out = []
    for kind in ("arr", "obj"):
        for width in (2, 3, 4):
            for pos in range(width):
                for ni in range(len(nested())):
                    for tc in (False, True):
                        items = [leaf() for _ in range(width)]
                        items[pos] = nested()[ni]
                        ks = [((pos + h + ni) % nk) + 1 for h in range(width)] if kind == "obj" else []
                        out.append(_lit(kind, items, ks, tc))
    # every key form in every position of a three-member object
    for k in range(nk):
        for pos in range(3):
            ks = [((k + 1 + h) % nk) + 1 for h in range(3)]
            ks[pos] = k + 1
            if len(set(ks)) == 3:
                out.append(_lit("obj", [leaf(), _lit("arr", [leaf()]), _lit("null")], ks, bool(pos % 2)))
    # long literals (each element costs one macro recursion; the default limit is 128)
    for n in (20, 40, 60):
        items = []
        for k in range(n):
            items.append(_lit("null") if k % 5 == 0 else _lit("arr", [_lit("null"), leaf()]) if k % 7 == 3 else
                         _lit("obj", [leaf()], [(k % nk) + 1]) if k % 11 == 6 else leaf())
        out.append(_lit("arr", items, tc=n == 40))
    out.append(_lit("obj", [leaf() if k % 3 else _lit("arr", [_lit("null"), leaf()]) for k in range(nk)], list(range(1, nk + 1)), True))
    return out


def require_prints(name, r, at_least):
    if r.violation or len(r.prints) < at_least:
        raise vlib.ToolError("generation %s failed (%d lines, %s): %s" % (name, len(r.prints), r.violation, r.out[-1500:]))


def run(tier, replay):
    ctx = Ctx("C14", tier, "model_checking")
    thorough = tier == "thorough"
    work = vlib.workdir("C14")

    # ---- 1. the theorems on the model (runs in the background while the programs are generated, built and run) ----
    def model_part():
        acts_all = ["DeclStart", "DeclAddField", "DeclAddVariant", "LitLeaf", "LitOpen", "LitClose"]
        # (cfg, workers, coverage / vacuity guard for these actions)
        mcs = [("MC_JsonMap_quick.cfg", 4, acts_all),
               ("MC_JsonMap_pairs.cfg", 2, ["DeclStart", "DeclAddField", "DeclAddVariant"])]
        if thorough:
            # the large configurations run without -coverage (it halves TLC's speed); the same actions are guarded above
            mcs += [("MC_JsonMap_thorough.cfg", 8, None), ("MC_JsonMap_triples.cfg", 4, None)]
        for cfg, workers, acts in mcs:
            r = tlc("MC_JsonMap.tla", cfg, workers=workers, coverage=acts is not None, timeout=2400, heap="4g", work_id="c14-mc")
            ctx.add_tlc("theorems, Dev={} (%s)" % cfg, r)
            ctx.require_tlc_ok(cfg, r)
            if acts:
                ctx.require_cover(cfg, r, acts)
        # the tiny sensitivity runs are JVM start-up bound: three at a time
        with ThreadPoolExecutor(max_workers=3) as ex:
            sens = list(ex.map(lambda c: tlc("MC_JsonMap.tla", c[0], workers=1, timeout=600, work_id="c14-" + c[1] + c[2]), SENSITIVITY))
        for (cfg, dev, inv), r in zip(SENSITIVITY, sens):
            ctx.add_tlc("sensitivity: Dev={%s} must violate %s" % (dev, inv), r)
            if r.violation != "invariant" or r.violated_name != inv:
                raise vlib.ToolError("model lost sensitivity: Dev={%s} no longer violates %s (%s %s)" % (dev, inv, r.violation, r.violated_name))

    bg = ThreadPoolExecutor(max_workers=1)
    model_job = None
    if not replay and not os.environ.get("C14_SKIP_MC"):      # (C14_SKIP_MC: debugging aid only)
        model_job = bg.submit(model_part)
    try:
        return _conformance(ctx, tier, thorough, replay, work, model_job)
    finally:
        bg.shutdown(wait=True)


def _conformance(ctx, tier, thorough, replay, work, model_job):
    # ---- 2. generation by TLC ---------------------------------------------------------------------
    g = tlc("MC_JsonMap.tla", "Gen_JsonMap_cat.cfg", workers=1, timeout=300)
    require_prints("cat", g, 1)
    cat = g.prints[0]
    attr = cat["attr"]
    programs, literals = [], []          # TLC's lines
    rnd_inputs = []
    if replay:
        # a replay file holds either the TLC line of an enumerated vector or the record of a random one
        case = json.load(open(replay))["case"]
        if case.get("tlc_line", {}).get("kind") == "map":
            programs = [case["tlc_line"]]
        elif case.get("tlc_line", {}).get("kind") == "lit":
            literals = [case["tlc_line"]]
        elif case.get("kind") == "trace-record":
            x = case["record"]
            rnd_inputs = [dict({k: x[k] for k in (("id", "kind", "prog", "d", "v") if x["kind"] == "map" else ("id", "kind", "ast"))}, pidx=0)]
        else:
            raise vlib.ToolError("replay file has nothing to replay (kind %s)" % case.get("kind"))
    else:
        gens = [("Gen_JsonMap_lib.cfg", 1, 4), ("Gen_JsonMap_ints.cfg", 4, 30),
                ("Gen_JsonMap_decl_thorough.cfg" if thorough else "Gen_JsonMap_decl_quick.cfg", 4, 100),
                ("Gen_JsonMap_lit_thorough.cfg" if thorough else "Gen_JsonMap_lit_quick.cfg", 2, 1000),
                ("Gen_JsonMap_lit_leaves.cfg", 2, 500)]
        with ThreadPoolExecutor(max_workers=3) as ex:        # independent TLC runs, three at a time
            outs = list(ex.map(lambda c: tlc("MC_JsonMap.tla", c[0], workers=c[1], timeout=1500, heap="4g", work_id="c14-" + c[0][12:-4]), gens))
        for (cfg, workers, least), g in zip(gens, outs):
            require_prints(cfg, g, least)
            ctx.add_tlc("generation %s" % cfg, g)
            programs += [x for x in g.prints if x.get("kind") == "map"]
            literals += [x for x in g.prints if x.get("kind") == "lit"]
        programs.sort(key=lambda x: json.dumps(x["prog"][-1], sort_keys=True))
        seen, ls = set(), []
        for x in sorted(literals, key=lambda x: x["src"]):
            if x["src"] not in seen:
                seen.add(x["src"])
                ls.append(x)
        literals = ls

    crate = CrateSet()
    enum_map, enum_lit = {}, {}          # vector id -> (TLC line, vector)
    for i, line in enumerate(programs):
        mod = "p%04d" % i
        prog = line["prog"]
        d = next(x for x in prog if x["name"] == line["d"])
        specs = []
        for q, vec in enumerate(line["vecs"]):
            vid = "%s.v%d" % (mod, q + 1)
            specs.append((vid, "v%d" % (q + 1), d, vec["v"], vec["doc"]))
            enum_map[vid] = (line, vec)
        split = []
        if d["via"] == "derive" and line["vecs"]:
            # the same first vector once more with IntoJson and FromJson derived on two separate types
            vid = "%s.s1" % mod
            split.append((vid, "s1", d, line["vecs"][0]["v"], line["vecs"][0]["doc"]))
            enum_map[vid] = (line, line["vecs"][0])
        crate.add_program(mod, prog, specs, "TLC family member %s/%s with %d field(s)" % (d["kind"], d["via"], len(d["fields"])), split)
    lit_specs = []
    for i, line in enumerate(literals):
        vid = "l%05d" % i
        lit_specs.append((vid, line["src"], line["doc"]))
        enum_lit[vid] = line
    crate.add_literals("lits", lit_specs, cat["env"])

    # ---- 3. random inputs, their documented JSON from TLC ------------------------------------------
    if not replay:
        ri = RandomInputs(ctx.seed * 7919 + (1 if thorough else 0), cat)
        nprog, nlit = (220, 3000) if thorough else (40, 400)
        for p in range(nprog):
            prog = ri.program()
            for di, d in enumerate(prog):
                for q in range(2):
                    rnd_inputs.append({"id": "r%03d.d%d.v%d" % (p, di + 1, q + 1), "kind": "map", "prog": prog, "d": d["name"],
                                       "v": ri.decl_value(d, prog), "pidx": p})
        for i in range(nlit):
            rnd_inputs.append({"id": "rl%04d" % i, "kind": "lit", "ast": ri.literal(ri.rng.randint(1, 6))})
        for p, (prog, vs) in enumerate(sweep_programs(cat)):
            for q, (dname, v, twin) in enumerate(vs):
                x = {"id": "s%03d.%s.v%d" % (p, dname.lower(), q + 1), "kind": "map", "prog": prog, "d": dname, "v": v, "pidx": 1000 + p}
                rnd_inputs.append(x)
                if twin:
                    rnd_inputs.append(dict(x, id=x["id"] + ".t", split=True))
        for i, ast in enumerate(sweep_literals(cat)):
            rnd_inputs.append({"id": "sl%04d" % i, "kind": "lit", "ast": ast})
    if rnd_inputs:
        inp = os.path.join(work, "inputs-%s.ndjson" % tier)
        vlib.write_lines(inp, rnd_inputs)
        e = tlc("Trace_JsonMap.tla", "Trace_JsonMap.cfg", workers=1, env={"TRACE": inp, "EXPECT": "1"}, timeout=1500, deque=True, heap="4g")
        os.remove(inp)
        docs = {x["id"]: x for x in e.prints if "doc" in x}
        if e.violation or len(docs) != len(rnd_inputs) or not all(x["indomain"] for x in docs.values()):
            raise vlib.ToolError("EXPECT pass failed: %d of %d inputs, %s\n%s" % (len(docs), len(rnd_inputs), e.violation, e.out[-1500:]))
        ctx.add_tlc("documented JSON of %d random inputs (Trace_JsonMap, EXPECT)" % len(rnd_inputs), e)
        byprog = {}
        for x in rnd_inputs:
            if x["kind"] == "map":
                byprog.setdefault(x["pidx"], []).append(x)
        for p, xs in sorted(byprog.items()):
            prog = xs[0]["prog"]
            specs = [(x["id"], x["id"].split(".", 1)[1].replace(".", "_"),
                      next(d for d in prog if d["name"] == x["d"]), x["v"], docs[x["id"]]["doc"], bool(x.get("split"))) for x in xs]
            crate.add_program("r%03d" % p, prog, [t[:5] for t in specs if not t[5]],
                              ("random" if p < 1000 else "sweep") + " program with %d declaration(s)" % len(prog), [t[:5] for t in specs if t[5]])
        rl = [x for x in rnd_inputs if x["kind"] == "lit"]
        src_of = {x["id"]: docs[x["id"]]["src"] for x in rl}          # Src(ast), rendered by TLC
        crate.add_literals("rlits", [(x["id"], src_of[x["id"]], docs[x["id"]]["doc"]) for x in rl], cat["env"])

    # ---- 4. compile against /repo and run ----------------------------------------------------------
    res, compile_errors = {}, []
    for ci, c in enumerate(crate.crates):
        if c.vecs:
            r1, ce1 = build_and_run(c, ctx, "%d of %d" % (ci + 1, len(crate.crates)))
            res.update(r1)
            compile_errors += ce1
    # ---- 5. enumerated vectors against TLC's expectation --------------------------------------------
    n_eval, nontrivial, mism, tally = 0, set(), 0, {}
    findings = []                        # (what, replay object, deviation or None); reported shortest first
    pending, second = {}, []             # enumerated vectors the code model does not explain -> second-level judgement
    for vid, (line, vec) in enum_map.items():
        r = res[vid]
        n_eval += 1
        if tree_size(vec["doc"]) >= 3:
            nontrivial.add(json.dumps([line["prog"][-1], vec["v"]], sort_keys=True))
        verdict = judge(r, vec["exp"], vec["alt"], attr, map_agrees)
        tally[verdict] = tally.get(verdict, 0) + 1
        if verdict != "ok":
            mism += 1
            d = next(x for x in line["prog"] if x["name"] == line["d"])
            if not r["compiled"]:
                what = "%s: generated program does not compile (%s):\n%s" % (verdict or "compile error for a supported shape", r.get("rustc"),
                                                                             "\n".join(rust_decl(x) for x in line["prog"]))
            else:
                what = "%s: value %s of\n%s\n  documented JSON %s\n  observed %s" % (
                verdict or "typed mapping differs from the specification", rust_decl_value(vec["v"], d, line["prog"]), rust_decl(d),
                json_text(vec["doc"]), json.dumps(brief(r), ensure_ascii=False))
            obj = {"kind": "map-vector", "id": vid, "expected": vec["exp"], "observed": r, "tlc_line": dict(line, vecs=[vec])}
            if verdict is None:      # not what the code model predicts: judged on the level of the statement by TLC (step 6)
                pending[vid] = (what, obj)
                second.append(record_of({"id": vid, "kind": "map", "prog": line["prog"], "d": line["d"], "v": vec["v"]}, r))
            else:
                findings.append((what, obj, verdict))
    for vid, line in enum_lit.items():
        r = res[vid]
        n_eval += 1
        if line["ast"]["items"]:
            nontrivial.add(line["src"])
        verdict = judge(r, line["exp"], line["alt"], attr, lit_agrees)
        tally["lit " + str(verdict)] = tally.get("lit " + str(verdict), 0) + 1
        if verdict != "ok":
            mism += 1
            what = "%s: json!(%s) should be %s, observed %s" % (verdict or "json! differs from the specification", line["src"],
                                                               json_text(line["doc"]), json.dumps(brief(r), ensure_ascii=False))
            obj = {"kind": "lit-vector", "id": vid, "expected": line["exp"], "observed": r, "tlc_line": line}
            if verdict is None:
                pending[vid] = (what, obj)
                second.append(record_of({"id": vid, "kind": "lit", "ast": line["ast"]}, r))
            else:
                findings.append((what, obj, verdict))
    ctx.add_part("enumerated vectors", programs=len(programs), map_vectors=len(enum_map), literals=len(enum_lit), mismatches=mism,
                 verdicts={str(k): v for k, v in tally.items()})
    vlib.log("[C14] enumerated vectors: %s" % tally)
    for vid in list(enum_map)[:3]:
        line, vec = enum_map[vid]
        d = next(x for x in line["prog"] if x["name"] == line["d"])
        ctx.sample({"decl": rust_decl(d), "value": rust_decl_value(vec["v"], d, line["prog"]), "documented_json": json_text(vec["doc"]),
                    "observed": (res.get(vid) or {}).get("ser")})
    for vid in list(enum_lit)[len(enum_lit) // 2:len(enum_lit) // 2 + 3]:
        ctx.sample({"literal": "json!(%s)" % enum_lit[vid]["src"], "equivalent_text": json_text(enum_lit[vid]["doc"])})

    # ---- 6. random vectors validated by TLC ----------------------------------------------------------
    validated = 0
    drifts = []
    if rnd_inputs or second:
        recs = list(second)
        for x in rnd_inputs:
            r = res[x["id"]]
            rec = record_of(x, r)
            recs.append(rec)
            n_eval += 1
            if x["kind"] == "map":
                if tree_size(rec["obs"]) >= 3:
                    nontrivial.add(json.dumps([x["prog"], x["d"], x["v"]], sort_keys=True))
            elif x["ast"]["items"]:
                nontrivial.add(src_of[x["id"]])
        byid = {x["id"]: x for x in recs}

        def validate(records, name):
            path = os.path.join(work, "%s-%s.ndjson" % (name, tier))
            vlib.write_lines(path, records)
            t = tlc("Trace_JsonMap.tla", "Trace_JsonMap.cfg", workers=1, env={"TRACE": path, "EXPECT": "0"}, timeout=1800, deque=True, heap="4g")
            os.remove(path)
            summ = [x for x in t.prints if x.get("summary")]
            if not summ or summ[-1]["n"] != len(records):
                raise vlib.ToolError("trace validation did not finish: %s" % t.out[-1500:])
            return t, summ[-1]

        t, summ = validate(recs, "trace")
        ctx.add_tlc("trace validation of %d records of random programs / literals" % len(recs), t)
        validated = len(recs)
        for a in summ["attributed"]:
            x = byid[a["id"]]
            if a["id"] in pending:
                findings.append((a["dev"] + " (on the level of the statement): " + pending[a["id"]][0], pending[a["id"]][1], a["dev"]))
                continue
            findings.append(("%s: random vector %s, observed %s" % (a["dev"], describe(x), json_text(x["obs"])),
                             {"kind": "trace-record", "record": x}, a["dev"]))
        for b in summ["rejected"]:
            x = byid[b["id"]]
            if b["why"] == "baddomain":
                raise vlib.ToolError("random generator produced an input outside the property's domain: %s" % describe(x))
            if b["id"] in pending:
                findings.append((pending[b["id"]][0], pending[b["id"]][1], None))
                continue
            findings.append(("random vector rejected by Trace_JsonMap: %s, observed %s" % (describe(x), json.dumps(brief(x), ensure_ascii=False)[:1500]),
                             {"kind": "trace-record", "record": x}, None))
        for dr in summ.get("drift", []):
            x = byid[dr["id"]]
            why = ("input beyond the statement's quantifier (f32 / non-literal json! key / very wide literal)" if dr["beyond"] else
                   "the statement holds (value comes back, members and shapes as documented) but not as the code model predicts "
                   "(member order, reading back the declaration-order text, serialiser/parser agreement)")
            what, obj = pending.get(dr["id"], ("random vector %s, observed %s" % (describe(x), json.dumps(brief(x), ensure_ascii=False)[:1200]),
                                                 {"kind": "trace-record", "record": x}))
            drifts.append(("jsonmap-model", why + ": " + what, obj))
        settled = {a["id"] for a in summ["attributed"]} | {b["id"] for b in summ["rejected"]} | {d_["id"] for d_ in summ.get("drift", [])}
        lost = [vid for vid in pending if vid not in settled]
        if lost:
            raise vlib.ToolError("TLC's printed expectation and Trace_JsonMap disagree about %s" % lost[:5])
        ctx.add_part("random vectors", records=len(recs), attributed=len(summ["attributed"]), rejected=len(summ["rejected"]),
                     drift=len(summ.get("drift", [])), second_level=len(second))
        for x in recs[:2]:
            ctx.sample({"random": describe(x), "observed": json_text(x["obs"])})

        # binding self-test: one altered observation must be rejected by TLC (DESIGN 3.1); it presumes a clean run
        # (on a tree with unexplained mismatches the picked "good" records need not be good)
        unexplained = [f for f in findings if f[2] is None]
        judged = settled
        clean = [x for x in recs if x["id"] not in judged and x["compiled"] and x["panic"] == "" and x["obs"]["c"]]
        # (inputs inside the statement's quantifier only: a disagreement on an f32 program or on a literal with objects whose
        # keys may be non-literal is drift by design, see Beyond in Trace_JsonMap.tla)
        def no_obj(n):
            return n["k"] != "obj" and all(no_obj(i) for i in n["items"])
        cm = [x for x in clean if x["kind"] == "map" and not any(f["ty"]["base"] == "F32" for d_ in x["prog"] for f in d_["fields"])]
        cl = [x for x in clean if x["kind"] == "lit" and no_obj(x["ast"]) and len(x["ast"]["items"]) < 20]
        good = [] if (replay or unexplained) else (cm[:1] + cl[:1])
        bad = []
        for x in good:
            y = json.loads(json.dumps(x))
            y["obs"]["c"] = y["obs"]["c"][:-1]           # drop the last member / element
            y["obs"]["k"] = y["obs"]["k"][:len(y["obs"]["c"])]
            bad.append(y)
        if bad:
            t2, s2 = validate(good + bad, "selftest")
            if len(s2["rejected"]) != len(bad) or t2.violation != "invariant":
                raise vlib.ToolError("binding self-test failed: corrupted records were not rejected (%s)" % s2)
            ctx.add_part("binding self-test", corrupted=len(bad), rejected=len(s2["rejected"]))
        # ... and the comparison of enumerated vectors notices a flipped expectation (on a vector that agreed)
        for vid, (line, vec) in enum_map.items():
            if unexplained:
                break
            if res[vid]["compiled"] and judge(res[vid], vec["exp"], [], [], map_agrees) == "ok":
                flipped = dict(vec["exp"], rt=not vec["exp"]["rt"])
                if judge(res[vid], flipped, [], [], map_agrees) == "ok":
                    raise vlib.ToolError("binding self-test failed: flipped expectation accepted")
                break

    if model_job is not None:
        model_job.result()                 # the theorems on the model; re-raises its ToolError
    for what, obj, dev in sorted(findings, key=lambda f: len(f[0])):
        ctx.violation(what[:1200], obj, dev=dev)
    for area, what, obj in sorted(drifts, key=lambda f: len(f[1]))[:40]:
        ctx.drift(area, what[:1200], obj)

    ctx.cov["evaluations"] = n_eval
    ctx.cov["distinct_nontrivial"] = len(nontrivial)
    ctx.cov["traces_validated_against_impl"] = validated
    ctx.cov["programs"] = crate.modules
    ctx.cov["disagreements_checked"] = len(findings) + len(compile_errors)
    ctx.cov["exhaustive"] = not replay
    ctx.cov["rule"] = ("enumerated: every declaration of the rotating family (base type x wrapper stack x route x size) with its first %d diagonal values, "
                       "every literal within the node/depth bound, every leaf form in every position; random: seeded programs and literals. "
                       "One evaluation = one vector executed by the generated program (to_json, from_json, text round trip, documented text read back / "
                       "json! vs Value::parse). Non-trivial = distinct (declaration, value) whose JSON has >= 3 nodes, or distinct literal with >= 1 item."
                       % (9 if thorough else 3))
    ctx.assumptions += [
        "Shape / DenoteLit in spec/jsonmap/JsonMap.tla are the reading of 'documented shape' and 'equivalent JSON text'",
        "leaf expressions of the literal language have the JSON value stated in LeafCat (Rust semantics and impl IntoJson for primitives)",
        "rendering of the spec's records as Rust source / JSON text (checks/c14.py) and gen/src/support.rs (dump of Value, exact decimal of f64) are trusted",
        "f64 <-> decimal text is delegated to Rust's Display / from_str; usize/isize are 64 bit",
        "WellFormed (distinct member names within one type) is a precondition: without it round trips fail (MC_JsonMap_dupkeys.cfg)",
    ]
    return ctx.finish()


def describe(x):
    if not x.get("compiled", True):
        what = "literal %s" % x["id"] if x["kind"] == "lit" else "program %s" % " ".join(rust_decl(d).replace("\n", " ") for d in x["prog"])[:900]
        return "DOES NOT COMPILE (%s): %s" % (x.get("rustc", ""), what)
    if x["kind"] == "lit":
        return "literal %s" % x["id"]
    d = next(y for y in x["prog"] if y["name"] == x["d"])
    return "%s = %s with %s" % (x["id"], rust_decl_value(x["v"], d, x["prog"])[:400], rust_decl(d).replace("\n", " ")[:600])
