--------------------------- MODULE Trace_ServerApp ---------------------------
(* Code -> spec direction for the running server (C15 spec growth).  harness/src/bin/serverapp.rs `random` renders
   random configurations (wider than the exhaustive bound: up to 4 hosts, 6 routes each, multi-pattern sections,
   every route type with and without a `websocket` key, all log levels and sinks, cache, threads, timeout) to real
   configuration files, starts the real `humphrey` binary on each, runs a random session against it (plain requests
   with and without Host, kept-alive connections, upgrade requests with masked frames pumped both ways and either
   side closing, a non-HTTP request, silence up to the timeout, a request while all workers are held) and logs one
   record per server:
      cfg      the configuration (the abstract state of ServerApp)
      startup  "up" | "panic"
      conns    per connection the planned steps [op, rq, ka] with  obs = what the client saw ([cls, tgt];
               "skipped": the connection was already closed) and, for a proxied upgrade, pump = the scripted exchange
               with the bytes that arrived at the other side / whether the other side saw the close
      flines / clines   the lines found in the log file / on the console, counted per (severity, what); fexists
   TLC replays every record with ServerApp's operators: Startup, Session (answers of every step via CodeAnswer,
   cache, keep-alive, emissions), PumpExpect (the pump run to quiescence after every scripted action), SinkLines.
   A record is inexplicable when any observation differs; the first differences are printed for the driver. *)
EXTENDS ServerApp, Json, IOUtils

Rec == ndJsonDeserialize(IOEnv.TRACE)

VARIABLES l, bad, nsteps, npumps
tvars == <<l, bad, nsteps, npumps, cfg, pm>>

\* differences of record r: a sequence of [what, i, j, expected]
Diffs(r) ==
  IF r.startup # Startup(r.cfg) THEN <<[what |-> "startup", i |-> 0, j |-> 0, expected |-> Ans(Startup(r.cfg), 0)]>>
  ELSE IF r.startup = "panic" THEN <<>>
  ELSE
  LET s == Session(r.cfg, r.conns)
      stepBad(i, j) ==
        LET st == r.conns[i][j] IN
        IF j > Len(s.outs[i]) THEN st.obs.cls # "skipped"
        ELSE st.obs # ObsOf(s.outs[i][j].ans)
      pumpBad(i, j) ==
        LET st == r.conns[i][j] IN
        j <= Len(s.outs[i]) /\ st.obs.cls = "proxied" /\ PumpExpect(st.pump) # st.pump
      expOf(i, j) == IF j > Len(s.outs[i]) THEN Ans("skipped", 0) ELSE ObsOf(s.outs[i][j].ans)
      D1 == { <<i, j>> \in UNION { { <<i, j>> : j \in 1..Len(r.conns[i]) } : i \in 1..Len(r.conns) } : stepBad(i, j) }
      D2 == { <<i, j>> \in UNION { { <<i, j>> : j \in 1..Len(r.conns[i]) } : i \in 1..Len(r.conns) } : pumpBad(i, j) }
      fl == LinesAgree(r.cfg, r.cfg.file, SeqToSet(r.flines), SinkLines(r.cfg, "file", s.ems)) /\ (r.fexists <=> r.cfg.file)
      cl == LinesAgree(r.cfg, r.cfg.console, SeqToSet(r.clines), SinkLines(r.cfg, "console", s.ems))
      first(D, what) == IF D = {} THEN <<>>
                        ELSE LET x == CHOOSE x \in D : \A y \in D : x[1] < y[1] \/ (x[1] = y[1] /\ x[2] <= y[2])
                             IN <<[what |-> what, i |-> x[1], j |-> x[2], expected |-> expOf(x[1], x[2])]>>
  IN first(D1, "answer") \o first(D2, "pump")
     \o (IF fl THEN <<>> ELSE <<[what |-> "file-lines", i |-> 0, j |-> 0, expected |-> Ans("lines", 0)]>>)
     \o (IF cl THEN <<>> ELSE <<[what |-> "console-lines", i |-> 0, j |-> 0, expected |-> Ans("lines", 0)]>>)

ExpLines(r) == IF r.startup = "panic" \/ Startup(r.cfg) = "panic" THEN {} ELSE CountLines(r.cfg.level, Session(r.cfg, r.conns).ems)

RECURSIVE SumLen(_)
SumLen(s) == IF s = <<>> THEN 0 ELSE Len(Head(s)) + SumLen(Tail(s))
Proxied(r) == Cardinality({ <<i, j>> \in UNION { { <<i, j>> : j \in 1..Len(r.conns[i]) } : i \in 1..Len(r.conns) } :
                              r.conns[i][j].obs.cls = "proxied" })

TInit == l = 1 /\ bad = <<>> /\ nsteps = 0 /\ npumps = 0 /\ cfg = <<>> /\ pm = PumpInit
TNext == /\ l <= Len(Rec)
         /\ l' = l + 1
         /\ LET d == Diffs(Rec[l]) IN
            bad' = IF d = <<>> \/ Len(bad) >= 20 THEN bad
                   ELSE Append(bad, [index |-> l, diffs |-> d, lines |-> ExpLines(Rec[l])])
         /\ nsteps' = nsteps + SumLen(Rec[l].conns)
         /\ npumps' = npumps + Proxied(Rec[l])
         /\ UNCHANGED <<cfg, pm>>
TSpec == TInit /\ [][TNext]_tvars

AllExplained == (l = Len(Rec) + 1) =>
   /\ PrintT(ToJson([records |-> Len(Rec), steps |-> nsteps, pumps |-> npumps,
                     rejected |-> [k \in 1..Len(bad) |-> [index |-> bad[k].index, diffs |-> bad[k].diffs, lines |-> bad[k].lines]]]))
   /\ bad = <<>>
=============================================================================
