CONSTANTS
  Dev = {}
  Chunk = 2
  MaxSend = 2
  Pats <- PatsM
  HostPats <- HostPatsT
  Kinds <- KindsM
  MaxDef = 3
  MaxHosts = 0
  MaxHostRoutes = 0
  ReqHosts <- ReqHostsT
  Paths <- PathsT
  DwsSet = {1}
  CacheSet = {FALSE}
  GenMod = 1
SPECIFICATION GrowSpec
INVARIANTS
  Inv_RoutesWellFormed
  Inv_AllServeProps
  Inv_LogMasks
CHECK_DEADLOCK FALSE
