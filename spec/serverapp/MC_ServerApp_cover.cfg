CONSTANTS
  Dev = {}
  Chunk = 2
  MaxSend = 2
  Pats <- PatsQ
  HostPats <- HostPatsQ
  Kinds <- KindsQ
  MaxDef = 1
  MaxHosts = 1
  MaxHostRoutes = 1
  ReqHosts <- ReqHostsQ
  Paths <- PathsQ
  DwsSet = {1}
  CacheSet = {FALSE}
  GenMod = 1
SPECIFICATION GrowSpec
INVARIANTS
  Inv_RoutesWellFormed
  Inv_AllServeProps
  Inv_ServeIsCode
  Inv_RouteOrderRespected
  Inv_HostOrderRespected
  Inv_RedirectExact
  Inv_WsProxiedIffConfigured
  Inv_IndependentOfRest
  Inv_LogMasks
  Inv_LinesMonotone
  Inv_CacheCoherent
CHECK_DEADLOCK FALSE
