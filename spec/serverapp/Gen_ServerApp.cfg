CONSTANTS
  Dev = {}
  Chunk = 1024
  MaxSend = 0
  Pats <- PatsG
  HostPats <- HostPatsG
  Kinds <- KindsG
  MaxDef = 4
  MaxHosts = 3
  MaxHostRoutes = 3
  ReqHosts <- ReqHostsG
  Paths <- PathsG
  DwsSet = {0, 1, 3}
  CacheSet = {TRUE, FALSE}
  GenMod = 1
INIT GenInit
NEXT GenNext
INVARIANT GenInv
CHECK_DEADLOCK FALSE
