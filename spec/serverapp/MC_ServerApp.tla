---------------------------- MODULE MC_ServerApp ----------------------------
(* TLC-only helpers for ServerApp:
   1. the configuration space as a state graph (GrowSpec): a configuration is built route by route, host by host, in
      file order; every reachable state is a configuration of the bound and every invariant is evaluated on it for
      every request of the bound (the Inv_ predicates).  TLC refuses sets beyond 10^6 elements, the graph has no such limit.
   2. generation (GenInv): for a seeded sample of those configurations the standard session with the expected answer
      of every step, the expected log lines and, for proxied upgrades, the pump script with its expected outcome.
   3. the pump machine's configuration (PSpec is in ServerApp). *)
EXTENDS ServerApp, Json, IOUtils

CONSTANTS Pats, HostPats, Kinds, MaxDef, MaxHosts, MaxHostRoutes, ReqHosts, Paths, DwsSet, CacheSet, GenMod

\* ---- the alphabet: patterns, paths and host values are sequences of one-character strings ----
P_a == <<"/", "a">>            P_b == <<"/", "b">>          P_sl == <<"/", "*">>      P_any == <<"*">>
P_dsl == <<"/", "d", "/", "*">>   P_dst == <<"/", "d", "*">>   P_sta == <<"/", "*", "a">>   P_da == <<"/", "d", "/", "a">>
T_a == <<"/", "a">>   T_b == <<"/", "b">>   T_da == <<"/", "d", "/", "a">>   T_root == <<"/">>   T_c == <<"/", "c">>
H_1 == <<"h", "1">>   H_2 == <<"h", "2">>   H_x1 == <<"x", ".", "h", "1">>   H_1p == <<"h", "1", ":", "8", "0">>
HP_1 == <<"h", "1">>  HP_hs == <<"h", "*">>  HP_s1 == <<"*", "1">>  HP_2 == <<"h", "2">>  HP_star == <<"*">>

K(ty, t, w) == [type |-> ty, tgt |-> t, wt |-> w]
KF1 == K("file", 1, 0)   KF2 == K("file", 2, 0)   KFM == K("file", 3, 0)   KD1 == K("directory", 1, 0)
KD2 == K("directory", 2, 0)   KP1 == K("proxy", 1, 0)   KP2 == K("proxy", 2, 0)
KR1 == K("redirect", 1, 0)   KR2 == K("redirect", 2, 0)   KR3 == K("redirect", 3, 0)
KW1 == K("websocket", 0, 1)   KW2 == K("websocket", 0, 2)   KWD == K("websocket", 0, 3)
KFW == K("file", 1, 2)   KDW == K("directory", 2, 1)   KPW == K("proxy", 2, 3)   KRW == K("redirect", 3, 1)

PatsQ == {P_a, P_sl, P_dsl}
PatsT == {P_a, P_sl, P_dsl, P_any, P_dst}
PatsM == {P_a, P_sl, P_dsl, P_any}
KindsM == {KF1, KR1, KR2, KW1, KWD, KFW}
PatsG == {P_a, P_b, P_sl, P_dsl, P_any, P_dst, P_sta, P_da}
PathsQ == {T_a, T_b, T_da}
PathsT == {T_a, T_b, T_da, T_root}
PathsG == {T_a, T_b, T_da, T_root, T_c}
KindsQ == {KF1, KR1, KW1, KDW, KFM}
KindsT == {KF1, KD1, KP1, KR1, KR2, KW1, KWD, KFW, KFM}
KindsG == {KF1, KF2, KFM, KD1, KD2, KP1, KP2, KR1, KR2, KR3, KW1, KW2, KWD, KFW, KDW, KPW, KRW}
HostPatsQ == {HP_1, HP_hs}
HostPatsT == {HP_1, HP_hs, HP_s1}
HostPatsG == {HP_1, HP_hs, HP_s1, HP_2, HP_star}
ReqHostsQ == {H_1, H_2}
ReqHostsT == {H_1, H_2, H_x1}
ReqHostsG == {H_1, H_2, H_x1, H_1p}

Route(p, k) == [pat |-> p, type |-> k.type, tgt |-> k.tgt, wt |-> k.wt]
EmptyCfg(d, c) == [hosts |-> <<>>, def |-> <<>>, dws |-> d, cache |-> c, level |-> "warn", console |-> TRUE, file |-> FALSE,
                   threads |-> 4, timeout |-> 0]

Reqs == { [kind |-> k, hh |-> TRUE, host |-> h, path |-> p] : k \in {"http", "ws"}, h \in ReqHosts, p \in Paths }
        \cup { [kind |-> k, hh |-> FALSE, host |-> <<>>, path |-> p] : k \in {"http", "ws"}, p \in Paths }

(***************************************************************************)
(* 1. the configuration space                                              *)
(***************************************************************************)
GrowInit == /\ \E d \in DwsSet, c \in CacheSet : cfg = EmptyCfg(d, c)
            /\ pm = PumpInit
AddDefRoute == /\ Len(cfg.def) < MaxDef
               /\ \E p \in Pats, k \in Kinds : cfg' = [cfg EXCEPT !.def = Append(@, Route(p, k))]
               /\ UNCHANGED pm
AddHost == /\ Len(cfg.hosts) < MaxHosts
           /\ \E hp \in HostPats : cfg' = [cfg EXCEPT !.hosts = Append(@, [pat |-> hp, routes |-> <<>>])]
           /\ UNCHANGED pm
AddHostRoute == /\ cfg.hosts # <<>>
                /\ Len(cfg.hosts[Len(cfg.hosts)].routes) < MaxHostRoutes
                /\ \E p \in Pats, k \in Kinds :
                      cfg' = [cfg EXCEPT !.hosts[Len(cfg.hosts)].routes = Append(@, Route(p, k))]
                /\ UNCHANGED pm
GrowNext == AddDefRoute \/ AddHost \/ AddHostRoute
GrowSpec == GrowInit /\ [][GrowNext]_vars

\* a deterministic enumeration of a finite set
RECURSIVE SeqOf(_)
SeqOf(S) == IF S = {} THEN <<>> ELSE LET x == CHOOSE x \in S : TRUE IN <<x>> \o SeqOf(S \ {x})

H1 == CHOOSE h \in ReqHosts : TRUE
Http(h, p, ka) == [op |-> "http", rq |-> [kind |-> "http", hh |-> TRUE, host |-> h, path |-> p], ka |-> ka]
Step(op) == [op |-> op, rq |-> [kind |-> "http", hh |-> FALSE, host |-> <<>>, path |-> <<>>], ka |-> FALSE]

\* the standard session: every request of the bound on a connection of its own, then kept-alive connections that
\* repeat a path (cache hit), switch host on the same path (cache key), hang up; a non-HTTP request; and, when the
\* configuration has a timeout, a silent connection; `sat`: one more request while all workers are held
ReqSeq == SeqOf(Reqs)   PathSeq == SeqOf(Paths)   ReqHostSeq == SeqOf(ReqHosts)
Singles == [i \in 1..Len(ReqSeq) |-> <<[op |-> ReqSeq[i].kind, rq |-> ReqSeq[i], ka |-> FALSE]>>]
KaConns ==
  LET ps == PathSeq  hs == ReqHostSeq IN
  [i \in 1..Len(hs) |-> <<Http(hs[i], ps[1], TRUE), Http(hs[i], ps[1], TRUE), Http(hs[i], ps[Len(ps)], TRUE), Step("hangup")>>]
  \o <<<<Http(hs[1], ps[1], TRUE), Http(hs[Len(hs)], ps[1], TRUE), Http(hs[1], ps[1], FALSE)>>>>
StdConns(c, sat) ==
  Singles \o KaConns \o <<<<Step("bad")>>>>
     \o (IF c.timeout > 0 THEN <<<<Step("idle")>>>> ELSE <<>>)
     \o (IF sat THEN <<<<[op |-> "sat", rq |-> Http(ReqHostSeq[1], PathSeq[1], FALSE).rq, ka |-> FALSE]>>>> ELSE <<>>)

Inv_ServeIsCode == \A rq \in Reqs : ServeIsCode(cfg, rq)
Inv_RouteOrderRespected == \A rq \in Reqs : RouteOrderRespected(cfg, rq)
Inv_HostOrderRespected == \A rq \in Reqs : HostOrderRespected(cfg, rq)
Inv_RedirectExact == \A rq \in Reqs : RedirectExact(cfg, rq)
Inv_WsProxiedIffConfigured == \A rq \in Reqs : WsProxiedIffConfigured(cfg, rq)
Inv_IndependentOfRest == \A rq \in Reqs : IndependentOfRest(cfg, rq)
Inv_AllServeProps == AllServeProps(cfg, Reqs)
Inv_LogMasks == cfg.level \in Levels /\ LogLevelMonotone /\ MaskExact /\ NoSilentDrop /\ SeverityIsFirstLevel
Inv_LinesMonotone == LET c == [cfg EXCEPT !.timeout = 1, !.cache = TRUE] IN LinesMonotone(Session(c, StdConns(c, TRUE)).ems)
Inv_CacheCoherent == CacheCoherent(cfg, KaConns)
Inv_RoutesWellFormed == /\ \A k \in 1..Len(cfg.def) : RouteOK(cfg.def[k])
                        /\ \A i \in 1..Len(cfg.hosts) : \A k \in 1..Len(cfg.hosts[i].routes) : RouteOK(cfg.hosts[i].routes[k])

(***************************************************************************)
(* 2. generation                                                           *)
(***************************************************************************)
PatSeq == SeqOf(Pats)   KindSeq == SeqOf(Kinds)   HostPatSeq == SeqOf(HostPats)
PosIn(s, x) == CHOOSE i \in 1..Len(s) : s[i] = x
RouteCode(r) == PosIn(PatSeq, r.pat) + 10 * PosIn(KindSeq, [type |-> r.type, tgt |-> r.tgt, wt |-> r.wt])
RECURSIVE SumSeq(_)
SumSeq(s) == IF s = <<>> THEN 0 ELSE Head(s) + SumSeq(Tail(s))
Weight(c) == SumSeq([k \in 1..Len(c.def) |-> (7 * k + 3) * RouteCode(c.def[k])])
             + SumSeq([i \in 1..Len(c.hosts) |-> (31 * i + 5) * (PosIn(HostPatSeq, c.hosts[i].pat)
                        + SumSeq([j \in 1..Len(c.hosts[i].routes) |-> (11 * j + 1) * RouteCode(c.hosts[i].routes[j])]))])
             + 13 * c.dws + (IF c.cache THEN 17 ELSE 0)

\* a seeded family of configurations: CfgOf(n) for n = GEN_BASE .. GEN_BASE + GEN_COUNT - 1 (deterministic in n)
GenBase == atoi(IOEnv.GEN_BASE)
GenCount == atoi(IOEnv.GEN_COUNT)
Rnd(n, t) == LET x == (n * 7919 + t * 31337 + 17) % 65537 IN (((x * 75 + 74) % 65537) * 75 + 74) % 65537
LevelSeq == <<"error", "warn", "info", "debug">>
\* `host "*"` (D5: the server does not start) is drawn rarely
GenHostPats == <<HP_1, HP_hs, HP_s1, HP_2, HP_1, HP_hs, HP_s1, HP_2, HP_1, HP_hs, HP_s1, HP_2, HP_1, HP_hs, HP_s1, HP_2, HP_1, HP_hs, HP_s1, HP_2, HP_1, HP_hs, HP_star>>
\* every third route or so repeats the body of the one before it (the harness may then write both as one `route p1, p2 {`)
GenRoute(n, t) == LET tk == IF Rnd(n, t + 2000) % 3 = 0 THEN t - 1 ELSE t IN
                  Route(PatSeq[(Rnd(n, t) % Len(PatSeq)) + 1], KindSeq[(Rnd(n, tk + 1000) % Len(KindSeq)) + 1])
CfgOf(n) ==
  LET nd == Rnd(n, 1) % (MaxDef + 1)
      nh == Rnd(n, 2) % (MaxHosts + 1)
      w == Rnd(n, 5)
  IN [def |-> [k \in 1..nd |-> GenRoute(n, 10 + k)],
      hosts |-> [i \in 1..nh |-> [pat |-> GenHostPats[(Rnd(n, 30 + i) % Len(GenHostPats)) + 1],
                                  routes |-> [j \in 1..(Rnd(n, 40 + i) % (MaxHostRoutes + 1)) |-> GenRoute(n, 100 + 10 * i + j)]]],
      dws |-> <<0, 0, 1, 3>>[(Rnd(n, 3) % 4) + 1],
      cache |-> Rnd(n, 4) % 2 = 0,
      level |-> LevelSeq[(w % 4) + 1],
      threads |-> 1 + ((w \div 4) % 3),
      timeout |-> IF (w \div 12) % 5 = 0 THEN 1 ELSE 0,
      console |-> (w \div 60) % 3 # 1,
      file |-> (w \div 60) % 3 # 2]
\* (not together with a timeout: the silent connections that hold the workers must not be answered 408 meanwhile)
WithSat(c) == c.timeout = 0 /\ (Weight(c) \div 7) % 3 = 0

\* pump scripts (byte values 0..255).  RFC 6455 5.7: masked text frame "Hello", unmasked text frame "Hello"
HelloMasked == <<129, 133, 55, 250, 33, 61, 127, 159, 77, 81, 88>>
HelloPlain == <<129, 5, 72, 101, 108, 108, 111>>
Switching == <<72, 84, 84, 80, 47, 49, 46, 49, 32, 49, 48, 49, 32, 83, 13, 10, 13, 10>>     \* "HTTP/1.1 101 S\r\n\r\n"
BigFrame(n) == <<130, 254, n \div 256, n % 256, 1, 2, 3, 4>> \o [i \in 1..n |-> (i * 7 + 3) % 256]   \* masked binary, 16-bit length
CloseMasked == <<136, 128, 9, 8, 7, 6>>
Obs(ev) == Ev(ev, <<>>, FALSE)
PumpScript(v) ==
  <<Ev("tsend", Switching, FALSE), Obs("cgot"), Ev("csend", HelloMasked, FALSE), Obs("tgot"),
    Ev("tsend", HelloPlain, FALSE), Obs("cgot")>>
  \o (IF v % 3 = 2 THEN <<Ev("csend", BigFrame(1480), FALSE), Obs("tgot"), Ev("tsend", BigFrame(1100), FALSE), Obs("cgot")>> ELSE <<>>)
  \o (IF v % 3 = 1 THEN <<Ev("tsend", HelloPlain, FALSE), Ev("tclose", <<>>, FALSE), Obs("cgot"), Obs("ceof")>>
      ELSE <<Ev("csend", CloseMasked, FALSE), Ev("cclose", <<>>, FALSE), Obs("tgot"), Obs("teof")>>)

GenRecord(c0) ==
  LET c == c0
      conns == StdConns(c, WithSat(c0))
      s == Session(c, conns)
  IN [cfg |-> c, startup |-> Startup(c),
      conns |-> [i \in 1..Len(conns) |->
                   [j \in 1..Len(conns[i]) |->
                      LET st == conns[i][j]
                          done == j <= Len(s.outs[i])
                          a == IF done THEN s.outs[i][j].ans ELSE Ans("unreached", 0)
                      IN [op |-> st.op, rq |-> st.rq, ka |-> st.ka, reached |-> done,
                          model |-> a, exp |-> ObsOf(a),
                          status |-> StatusOf(a),
                          pump |-> IF a.cls = "proxied" THEN PumpExpect(PumpScript(i + j)) ELSE <<>>]]],
      flines |-> SinkLines(c, "file", s.ems), clines |-> SinkLines(c, "console", s.ems)]

GenInit == /\ \E n \in GenBase..(GenBase + GenCount - 1) : cfg = CfgOf(n)
           /\ pm = PumpInit
GenNext == FALSE /\ UNCHANGED vars
GenInv == PrintT(ToJson(GenRecord(cfg)))
=============================================================================
