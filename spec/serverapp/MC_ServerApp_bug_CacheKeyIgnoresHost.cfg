CONSTANTS
  Dev = {"CacheKeyIgnoresHost"}
  Chunk = 2
  MaxSend = 2
  Pats <- PatsQ
  HostPats <- HostPatsQ
  Kinds <- KindsQ
  MaxDef = 2
  MaxHosts = 2
  MaxHostRoutes = 1
  ReqHosts <- ReqHostsQ
  Paths <- PathsQ
  DwsSet = {1}
  CacheSet = {FALSE}
  GenMod = 1
SPECIFICATION GrowSpec
INVARIANTS
  Inv_RoutesWellFormed
  Inv_AllServeProps
  Inv_LogMasks
  Inv_LinesMonotone
  Inv_CacheCoherent
CHECK_DEADLOCK FALSE
