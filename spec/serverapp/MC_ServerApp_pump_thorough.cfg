CONSTANTS
  Dev = {}
  Chunk = 3
  MaxSend = 5
  Pats <- PatsQ
  HostPats <- HostPatsQ
  Kinds <- KindsQ
  MaxDef = 0
  MaxHosts = 0
  MaxHostRoutes = 0
  ReqHosts <- ReqHostsQ
  Paths <- PathsQ
  DwsSet = {0}
  CacheSet = {FALSE}
  GenMod = 1
SPECIFICATION PSpec
INVARIANTS
  PumpOrder
  PumpNoLoss
  PumpCloseAfterData
  PumpExitClosesBoth
  PumpEndsOnlyOnClose
PROPERTIES
  PumpClosePropagates
  PumpDelivers
CHECK_DEADLOCK FALSE
