----------------------------- MODULE ServerApp -----------------------------
(* The RUNNING server built from a configuration (spec growth attached to C15, DESIGN section 6):
   humphrey-server/src/server/server.rs   main, init_app_routes, request_handler / inner_request_handler,
                                          websocket_handler / inner_websocket_handler, proxy_websocket
   humphrey-server/src/server/logger.rs   INTERNAL_MASK_*, ToEventMask for LogLevel, Logger::{error,warn,info,debug},
                                          monitor_thread
   humphrey-server/src/server/static.rs   redirect_handler (and the log lines of file_handler / directory_handler)
   and, underneath, humphrey/src/app.rs get_handler / call_websocket_handler / client_handler (C04, C01).

   The abstract state is a CONFIGURATION - the value spec/config/Config.tla's Meaning(ast).cfg describes, reduced to
   what the running server reads:
       cfg.hosts  sequence (file order) of [pat, routes]      cfg.def   the routes of the default host (file order)
       route      [pat, type, tgt, wt]     pat   one pattern (comma lists are already expanded, as in Meaning)
                                           type  "file" | "directory" | "proxy" | "redirect" | "websocket"
                                           tgt   identity of the file / directory / upstream / redirect target (0: none)
                                           wt    identity of the route's `websocket` target (0: the key is absent)
       cfg.dws    identity of the SERVER-level `websocket` key (0: absent)   cfg.level   log level
       cfg.cache  cache on/off     cfg.console, cfg.file  the two log sinks     cfg.threads, cfg.timeout
   plus one connection at a time (request / answer exchange, keep-alive, the file cache it fills) and, for a proxied
   WebSocket, the byte pump between client and target.

   Part 1  Serve(cfg, rq)     which configured route answers and with what class of answer - stated on the
                              configuration alone (first matching host in file order, first matching route in it,
                              else the default host's routes, else 404 / closed).
   Part 2  CodeAnswer(cfg,rq) the same question answered the way the code does it: main() turns the configuration
                              into sub-apps (one with_route per route, one with_websocket_route per route that has
                              a `websocket` key, closures capturing (host_index, route_index)), the core dispatches,
                              the closure looks the route up again with Config::get_route and inner_request_handler /
                              inner_websocket_handler switch on RouteType.   Inv: CodeAnswer = Serve, and the named
                              properties RouteOrderRespected, HostOrderRespected, RedirectExact, WsProxiedIffConfigured,
                              IndependentOfRest (AllServeProps = all of them with the sub-apps built once per state).
   Part 3  logging            LogMask(level) (events the monitor subscribes to), the severity cascade of
                              monitor_thread, the Logger's level gates; LogLevelMonotone, MaskExact, NoSilentDrop;
                              Emissions of every step of a session and the lines that reach the sinks.
   Part 4  connection         one connection: requests, keep-alive, cache; Session folds for generation / traces.
   Part 5  pump               proxy_websocket's loop, one action per statement, against two FIFO byte streams.

   WHAT THE CODE DOES THAT THE DOCUMENTATION DOES NOT SAY (modelled as the code does it; none contradicts the text
   of a listed property; reported, not switched by Dev):
     D1  the SERVER-level `websocket` key (Config::default_websocket_proxy, "address to forward WebSocket connections
         to, unless otherwise specified by the route") is parsed and never used: an upgrade request that matches no
         route with its own `websocket` key is closed even when the server-level key is set.
     D2  docs/src/server/configuration.md says a redirect route answers "302 Moved Permanently"; the code answers
         301 Moved Permanently.
     D3  a route that has only a `websocket` key still registers an HTTP route: a plain request to it gets
         404 "This route only accepts WebSocket requests" and LATER routes matching the same path are shadowed.
     D4  upgrade requests are dispatched over the routes that have a `websocket` key only: an earlier route without
         one does not shadow a later route with one (for plain requests it would).
     D5  `host "*"` loads but App::with_host panics: the server exits at start-up (Startup(cfg) = "panic").
     D6  the Host header is matched literally (with its port, if any) - DESIGN 5a, C04.
     D7  the monitor lines "Request error" are printed for status 400 only (monitor_thread filter); a 404 for an
         unrouted path, a 301, a 502 are logged by no one at any level.
     D8  a `file` route whose file does not exist panics in the worker (File::open(..).unwrap()): the client gets
         EOF without a response, the pool restarts the worker (C08); used here to exercise the Error mask.

   Dev - deviations.  Genuine (the code as found; repaired in /repo by 68bdbad):
     PumpIgnoresEof     proxy_websocket treats read() = Ok(0) (the peer closed) like "no data yet": the loop never
                        ends, the other side is never closed, the worker thread is never released (with `threads 2`
                        two finished WebSocket sessions left every later request unanswered).
   Plausible bugs (sensitivity: each must violate an invariant; MC_ServerApp_bug_*.cfg):
     HostIndexOffByOne  init_app_routes(host, host_index) instead of host_index + 1
     RoutesReversed     routes registered back to front
     LastHostWins       the last matching host sub-app is used
     WsRouteForEvery    with_websocket_route for every route, with or without `websocket`
     WsOnlyFallsThrough a websocket-only route registers no HTTP route
     DefaultWsHonoured  an upgrade request nobody handles is proxied to the server-level `websocket` target
     Redirect302        redirect_handler answers 302
     RedirectAppendsPath  Location = target + request path
     CacheKeyIgnoresHost  the file cache is keyed by the path alone
     WarnMaskMissesTimeout  INTERNAL_MASK_WARN lacks RequestTimeout
     DebugGateIsInfo    Logger::debug prints from level info upwards
     MonitorSeverityByLevel monitor_thread prints every event with Logger::error
     PumpEcho           what was read from the client is written back to the client
     PumpTruncatesChunk only the first byte of every chunk is forwarded
     PumpEofDropsTail   a pending close is noticed before the pending data are read: bytes written just before the
                        close are lost
     PumpLeavesOtherOpen  on EOF only the closed side is dropped *)
EXTENDS Naturals, Sequences, FiniteSets, TLC

CONSTANTS Dev,
          Chunk,       \* bytes one read() of the pump can return (code: 1024)
          MaxSend      \* MC: bytes each side sends through the pump

STAR == "*"
DeadWs == 3          \* websocket target identity that nobody listens on
MissingFile == 3     \* file identity that does not exist on disk

(***************************************************************************)
(* Patterns (C05: Match is what wildcard_match computes).                  *)
(***************************************************************************)
RECURSIVE Match(_, _)
Match(p, t) ==
  IF p = <<>> THEN t = <<>>
  ELSE IF Head(p) = STAR
       THEN Match(Tail(p), t) \/ (t # <<>> /\ Match(p, Tail(t)))
       ELSE t # <<>> /\ Head(t) = Head(p) /\ Match(Tail(p), Tail(t))

\* least i in 1..n with P(i); 0 when there is none
FirstIdx(n, P(_)) == IF \E i \in 1..n : P(i)
                     THEN CHOOSE i \in 1..n : P(i) /\ \A j \in 1..(i - 1) : ~P(j)
                     ELSE 0
LastIdx(n, P(_)) == IF \E i \in 1..n : P(i)
                    THEN CHOOSE i \in 1..n : P(i) /\ \A j \in (i + 1)..n : ~P(j)
                    ELSE 0
Idx(n) == [k \in 1..n |-> k]
Rev(s) == [k \in 1..Len(s) |-> s[Len(s) + 1 - k]]

Types == {"file", "directory", "proxy", "redirect", "websocket"}
Levels == {"error", "warn", "info", "debug"}
Rank == [error |-> 0, warn |-> 1, info |-> 2, debug |-> 3]     \* #[derive(PartialOrd)] on LogLevel

RouteOK(r) == /\ r.type \in Types /\ r.tgt \in 0..3 /\ r.wt \in 0..3
              /\ (r.type = "websocket" => r.tgt = 0 /\ r.wt # 0)     \* parse_route: no file|directory|proxy|redirect
              /\ (r.type # "websocket" => r.tgt # 0)
              /\ (r.type \in {"directory", "proxy"} => r.tgt \in 1..2)     \* file 3 = MissingFile; redirect targets 1..3

\* D5: App::with_host panics on the pattern `*`
Startup(cfg) == IF \E i \in 1..Len(cfg.hosts) : cfg.hosts[i].pat = <<STAR>> THEN "panic" ELSE "up"

(***************************************************************************)
(* Part 1: Serve - the configuration's meaning for one request.            *)
(*   rq = [kind, hh, host, path]  kind "http" | "ws" (Upgrade: websocket); *)
(*   hh: a Host header is present; path: target without query.             *)
(***************************************************************************)
Ans(cls, tgt) == [cls |-> cls, tgt |-> tgt]
\* classes: file directory proxy redirect wsonly notfound panic   (plain requests)
\*          proxied wsdown closed                                  (upgrade requests)
StatusOf(a) == CASE a.cls \in {"file", "directory", "proxy"} -> 200
                 [] a.cls = "redirect" -> IF "Redirect302" \in Dev THEN 302 ELSE 301
                 [] a.cls \in {"wsonly", "notfound"} -> 404
                 [] OTHER -> 0          \* no HTTP response of the server's own

Eligible(r, kind) == kind = "http" \/ r.wt # 0          \* D4
RouteHit(routes, rq) == FirstIdx(Len(routes), LAMBDA k : Eligible(routes[k], rq.kind) /\ Match(routes[k].pat, rq.path))
HostHit(cfg, rq) == IF rq.hh THEN FirstIdx(Len(cfg.hosts), LAMBDA i : Match(cfg.hosts[i].pat, rq.host)) ELSE 0
RoutesOf(cfg, h) == IF h = 0 THEN cfg.def ELSE cfg.hosts[h].routes

\* [h, r]: host (0 = default) and index of the answering route; r = 0: nobody
Chosen(cfg, rq) ==
  LET i == HostHit(cfg, rq)
      k == IF i = 0 THEN 0 ELSE RouteHit(cfg.hosts[i].routes, rq)
  IN IF k # 0 THEN [h |-> i, r |-> k] ELSE [h |-> 0, r |-> RouteHit(cfg.def, rq)]

Respond(kind, route) ==
  IF kind = "ws"
  THEN IF route.wt = DeadWs THEN Ans("wsdown", route.wt) ELSE Ans("proxied", route.wt)
  ELSE CASE route.type = "file"      -> IF route.tgt = MissingFile THEN Ans("panic", 0) ELSE Ans("file", route.tgt)   \* D8
         [] route.type = "directory" -> Ans("directory", route.tgt)
         [] route.type = "proxy"     -> Ans("proxy", route.tgt)
         [] route.type = "redirect"  -> Ans("redirect", route.tgt)
         [] OTHER                    -> Ans("wsonly", 0)                                                             \* D3

Nobody(kind) == IF kind = "ws" THEN Ans("closed", 0) ELSE Ans("notfound", 0)

Serve(cfg, rq) == LET c == Chosen(cfg, rq)
                  IN IF c.r = 0 THEN Nobody(rq.kind) ELSE Respond(rq.kind, RoutesOf(cfg, c.h)[c.r])

(***************************************************************************)
(* Part 2: the code path.                                                  *)
(***************************************************************************)
\* init_app_routes(host, host_index): for (route_index, route) in routes: with_route(matches, closure(host_index,
\* route_index)); if route.websocket_proxy.is_some(): with_websocket_route(matches, closure(host_index, route_index))
SubAppOf(routes, hidx) ==
  LET n == Len(routes)
      ord == IF "RoutesReversed" \in Dev THEN Rev(Idx(n)) ELSE Idx(n)
      H(k) == [pat |-> routes[k].pat, h |-> hidx, r |-> k]
      httpIdx == IF "WsOnlyFallsThrough" \in Dev THEN SelectSeq(ord, LAMBDA k : routes[k].type # "websocket") ELSE ord
      wsIdx == IF "WsRouteForEvery" \in Dev THEN ord ELSE SelectSeq(ord, LAMBDA k : routes[k].wt # 0)
  IN [http |-> [j \in 1..Len(httpIdx) |-> H(httpIdx[j])], ws |-> [j \in 1..Len(wsIdx) |-> H(wsIdx[j])]]

\* main(): with_default_subapp(init_app_routes(default_host, 0)); for (i, host): with_host(matches, init_app_routes(host, i + 1))
AppOf(cfg) ==
  [def |-> SubAppOf(cfg.def, 0),
   hosts |-> [i \in 1..Len(cfg.hosts) |->
                [host |-> cfg.hosts[i].pat,
                 sub |-> SubAppOf(cfg.hosts[i].routes, IF "HostIndexOffByOne" \in Dev THEN i - 1 ELSE i)]]]

\* get_handler / call_websocket_handler (humphrey/src/app.rs)
NoHandler == [pat |-> <<>>, h |-> 0, r |-> 0]
ListOf(sub, kind) == IF kind = "ws" THEN sub.ws ELSE sub.http
FindIn(list, path) == LET k == FirstIdx(Len(list), LAMBDA j : Match(list[j].pat, path)) IN IF k = 0 THEN NoHandler ELSE list[k]
Dispatch(app, rq) ==
  LET n == Len(app.hosts)
      i == IF ~rq.hh THEN 0
           ELSE IF "LastHostWins" \in Dev THEN LastIdx(n, LAMBDA x : Match(app.hosts[x].host, rq.host))
           ELSE FirstIdx(n, LAMBDA x : Match(app.hosts[x].host, rq.host))
      inHost == IF i = 0 THEN NoHandler ELSE FindIn(ListOf(app.hosts[i].sub, rq.kind), rq.path)
  IN IF inHost.r # 0 THEN inHost ELSE FindIn(ListOf(app.def, rq.kind), rq.path)

\* Config::get_route(host, route) - indexing past the end is a panic of the worker
GetRoute(cfg, h, r) ==
  LET rs == IF h = 0 THEN cfg.def ELSE IF h <= Len(cfg.hosts) THEN cfg.hosts[h].routes ELSE <<>>
  IN IF r \in 1..Len(rs) THEN [ok |-> TRUE, route |-> rs[r]]
     ELSE [ok |-> FALSE, route |-> [pat |-> <<>>, type |-> "file", tgt |-> 0, wt |-> 0]]

\* what the handler found by the core does: the closure's (host_index, route_index) -> get_route -> switch on the type
AnswerOf(cfg, hd, rq) ==
  IF hd.r = 0
  THEN IF rq.kind = "ws" /\ "DefaultWsHonoured" \in Dev /\ cfg.dws # 0
       THEN (IF cfg.dws = DeadWs THEN Ans("wsdown", cfg.dws) ELSE Ans("proxied", cfg.dws))
       ELSE Nobody(rq.kind)                  \* error_handler(NotFound) / the stream is dropped
  ELSE LET g == GetRoute(cfg, hd.h, hd.r)
       IN IF ~g.ok THEN Ans("panic", 0)
          ELSE IF rq.kind = "ws"
               THEN \* inner_websocket_handler: if let Some(target) = route.websocket_proxy { proxy_websocket } (else: dropped)
                    IF g.route.wt = 0 THEN Ans("closed", 0) ELSE Respond("ws", g.route)
               ELSE Respond("http", g.route)

CodeChoice(cfg, rq) == LET hd == Dispatch(AppOf(cfg), rq) IN [h |-> hd.h, r |-> hd.r]
CodeAnswer(cfg, rq) == AnswerOf(cfg, Dispatch(AppOf(cfg), rq), rq)

\* Location header of a redirect answer: the configured target, nothing else (redirect_handler)
LocOf(a, rq) == IF "RedirectAppendsPath" \in Dev THEN [tgt |-> a.tgt, suffix |-> rq.path] ELSE [tgt |-> a.tgt, suffix |-> <<>>]
LocationOf(cfg, rq) == LocOf(CodeAnswer(cfg, rq), rq)

\* ---- the properties, for one configuration and one request; c = the code's choice [h, r], a = the code's answer ----
RouteOrderRespectedC(cfg, rq, c) ==
  LET rs == RoutesOf(cfg, c.h)
      hit(list, j) == Eligible(list[j], rq.kind) /\ Match(list[j].pat, rq.path)
  IN /\ c.r # 0 => /\ c.h \in 0..Len(cfg.hosts) /\ c.r \in 1..Len(rs)
                   /\ hit(rs, c.r)                                    \* the answering route matches ...
                   /\ \A j \in 1..(c.r - 1) : ~hit(rs, j)             \* ... and no earlier route of its host does
     /\ c.r = 0 => \A j \in 1..Len(cfg.def) : ~hit(cfg.def, j)       \* 404 / closed only when the default host has none

HostOrderRespectedC(cfg, rq, c) ==
  LET m(i) == rq.hh /\ Match(cfg.hosts[i].pat, rq.host)
      has(i) == \E j \in 1..Len(cfg.hosts[i].routes) :
                    Eligible(cfg.hosts[i].routes[j], rq.kind) /\ Match(cfg.hosts[i].routes[j].pat, rq.path)
      first == FirstIdx(Len(cfg.hosts), m)
  IN /\ c.h # 0 => c.h = first                       \* a host section answers only if it is the first that matches
     /\ (first # 0 /\ has(first)) => c.h = first     \* and it does answer when it has a route for the path
     /\ (c.h = 0 /\ c.r # 0) => (first = 0 \/ ~has(first))   \* the default host only then

RedirectExactC(cfg, rq, c, a) ==
  (rq.kind = "http" /\ c.r # 0 /\ c.h \in 0..Len(cfg.hosts) /\ c.r \in 1..Len(RoutesOf(cfg, c.h)) /\ RoutesOf(cfg, c.h)[c.r].type = "redirect")
     => /\ a.cls = "redirect"
        /\ StatusOf(a) = 301
        /\ LocOf(a, rq) = [tgt |-> RoutesOf(cfg, c.h)[c.r].tgt, suffix |-> <<>>]

\* the websocket target an upgrade request is entitled to: the `websocket` key of the first route HAVING one that
\* matches the path, in the first matching host, else in the default host; 0: none (D1: never the server-level key)
WsTargetFor(cfg, rq) ==
  LET i == HostHit(cfg, rq)
      pick(rs) == LET k == FirstIdx(Len(rs), LAMBDA j : rs[j].wt # 0 /\ Match(rs[j].pat, rq.path))
                  IN IF k = 0 THEN 0 ELSE rs[k].wt
      a == IF i = 0 THEN 0 ELSE pick(cfg.hosts[i].routes)
  IN IF a # 0 THEN a ELSE pick(cfg.def)
WsProxiedIffConfiguredC(cfg, rq, a) ==
  rq.kind = "ws" =>
    LET w == WsTargetFor(cfg, rq) IN
    /\ (a.cls \in {"proxied", "wsdown"}) <=> (w # 0)
    /\ (w # 0) => a.tgt = w /\ ((a.cls = "wsdown") <=> (w = DeadWs))
    /\ (w = 0) => a = Ans("closed", 0)

ServeIsCode(cfg, rq) == CodeAnswer(cfg, rq) = Serve(cfg, rq)
RouteOrderRespected(cfg, rq) == RouteOrderRespectedC(cfg, rq, CodeChoice(cfg, rq))
HostOrderRespected(cfg, rq) == HostOrderRespectedC(cfg, rq, CodeChoice(cfg, rq))
RedirectExact(cfg, rq) == RedirectExactC(cfg, rq, CodeChoice(cfg, rq), CodeAnswer(cfg, rq))
WsProxiedIffConfigured(cfg, rq) == WsProxiedIffConfiguredC(cfg, rq, CodeAnswer(cfg, rq))

\* the answer reads hosts and routes only ("independent of what else is configured")
Redress(cfg, d) == [cfg EXCEPT !.dws = d, !.cache = ~cfg.cache, !.level = IF d = 0 THEN "error" ELSE "debug",
                               !.threads = d + 1, !.timeout = d]
IndependentOfRest(cfg, rq) == \A d \in 0..3 : CodeAnswer(Redress(cfg, d), rq) = CodeAnswer(cfg, rq)

\* all of the above with the sub-apps built once per configuration (large exhaustive runs)
AllServeProps(cfg, reqs) ==
  LET app == AppOf(cfg)
      app0 == AppOf(Redress(cfg, 0))  app2 == AppOf(Redress(cfg, 2))
  IN \A rq \in reqs :
       LET hd == Dispatch(app, rq)
           c == [h |-> hd.h, r |-> hd.r]
           a == AnswerOf(cfg, hd, rq)
       IN /\ a = Serve(cfg, rq)
          /\ RouteOrderRespectedC(cfg, rq, c)
          /\ HostOrderRespectedC(cfg, rq, c)
          /\ RedirectExactC(cfg, rq, c, a)
          /\ WsProxiedIffConfiguredC(cfg, rq, a)
          /\ AnswerOf(Redress(cfg, 0), Dispatch(app0, rq), rq) = a
          /\ AnswerOf(Redress(cfg, 2), Dispatch(app2, rq), rq) = a

(***************************************************************************)
(* Part 3: logging.                                                        *)
(***************************************************************************)
Events == {"ConnectionSuccess", "ConnectionDenied", "ConnectionError", "ConnectionClosed", "ThreadPoolProcessStarted",
           "StreamDisconnectedWhileWaiting", "RequestServedSuccess", "RequestServedError", "RequestTimeout",
           "KeepAliveRespected", "WebsocketConnectionRequested", "WebsocketConnectionClosed", "HTTPSRedirect",
           "ThreadPoolOverload", "ThreadPoolPanic", "ThreadRestarted"}

\* logger.rs INTERNAL_MASK_ERROR / _WARN / _INFO / _DEBUG
MaskError == {"ThreadPoolPanic"}
MaskWarn  == MaskError \cup ({"RequestServedError", "StreamDisconnectedWhileWaiting", "ThreadPoolOverload", "ThreadRestarted"}
                             \cup (IF "WarnMaskMissesTimeout" \in Dev THEN {} ELSE {"RequestTimeout"}))
MaskInfo  == MaskWarn \cup {"HTTPSRedirect"}
MaskDebug == MaskInfo \cup {"KeepAliveRespected", "ThreadPoolProcessStarted", "ConnectionSuccess", "ConnectionClosed"}
\* ToEventMask for LogLevel: what main() subscribes the monitor to
LogMask(level) == CASE level = "error" -> MaskError [] level = "warn" -> MaskWarn
                    [] level = "info" -> MaskInfo [] OTHER -> MaskDebug

\* the documented contents (doc comments of LogLevel and of the masks, docs: "from most logging to least")
DocMask == [error |-> {"ThreadPoolPanic"},
            warn  |-> {"ThreadPoolPanic", "RequestServedError", "RequestTimeout", "StreamDisconnectedWhileWaiting",
                       "ThreadPoolOverload", "ThreadRestarted"},
            info  |-> {"ThreadPoolPanic", "RequestServedError", "RequestTimeout", "StreamDisconnectedWhileWaiting",
                       "ThreadPoolOverload", "ThreadRestarted", "HTTPSRedirect"},
            debug |-> {"ThreadPoolPanic", "RequestServedError", "RequestTimeout", "StreamDisconnectedWhileWaiting",
                       "ThreadPoolOverload", "ThreadRestarted", "HTTPSRedirect", "KeepAliveRespected",
                       "ThreadPoolProcessStarted", "ConnectionSuccess", "ConnectionClosed"}]
NeverLogged == {"ConnectionDenied", "ConnectionError", "RequestServedSuccess", "WebsocketConnectionRequested",
                "WebsocketConnectionClosed"}

\* monitor_thread: which Logger method prints the event
SevOf(ev) == IF "MonitorSeverityByLevel" \in Dev THEN "error"
             ELSE IF ev \in MaskError THEN "error" ELSE IF ev \in MaskWarn THEN "warn"
             ELSE IF ev \in MaskInfo THEN "info" ELSE "debug"
\* Logger::error always; warn: level >= Warn; info: level >= Info; debug: level == Debug
Prints(level, sev) == CASE sev = "error" -> TRUE
                        [] sev = "warn"  -> Rank[level] >= Rank["warn"]
                        [] sev = "info"  -> Rank[level] >= Rank["info"]
                        [] OTHER -> IF "DebugGateIsInfo" \in Dev THEN Rank[level] >= Rank["info"] ELSE level = "debug"

\* an emission: a direct Logger call of a handler / of main (mon = FALSE) or an event sent to the monitor
H(sev, what) == [mon |-> FALSE, sev |-> sev, what |-> what, info |-> ""]
M(ev, info) == [mon |-> TRUE, sev |-> "", what |-> ev, info |-> info]
\* monitor_thread drops RequestServedError events whose info does not start with "400" (D7)
Filtered(em) == em.mon /\ em.what = "RequestServedError" /\ em.info # "400"
Printed(level, em) == IF em.mon THEN em.what \in LogMask(level) /\ ~Filtered(em) /\ Prints(level, SevOf(em.what))
                      ELSE Prints(level, em.sev)
LineOf(em) == [sev |-> IF em.mon THEN SevOf(em.what) ELSE em.sev, what |-> em.what]

LogLevelMonotone == \A a, b \in Levels : Rank[a] <= Rank[b] => LogMask(a) \subseteq LogMask(b)
MaskExact == \A l \in Levels : LogMask(l) = DocMask[l] /\ LogMask(l) \cap NeverLogged = {}
\* the subscription and the Logger's gates agree: what is subscribed is printed, what would be printed is subscribed
NoSilentDrop == \A l \in Levels, ev \in Events :
                   /\ ev \in LogMask(l) => Prints(l, SevOf(ev))
                   /\ (ev \in MaskDebug /\ Prints(l, SevOf(ev))) => ev \in LogMask(l)
\* the severity tag of a monitor line is the lowest level that subscribes to its event
SeverityIsFirstLevel == \A ev \in MaskDebug : \A l \in Levels : (ev \in LogMask(l)) <=> (Rank[l] >= Rank[SevOf(ev)])
\* whatever is emitted, a higher level prints a superset of the lines
LinesMonotone(ems) == \A pr \in {<<"error", "warn">>, <<"warn", "info">>, <<"info", "debug">>} :
                         \A k \in 1..Len(ems) : Printed(pr[1], ems[k]) => Printed(pr[2], ems[k])

(***************************************************************************)
(* Part 4: one connection, sessions.                                       *)
(*   step = [op, rq, ka]   op: "http" (rq, ka = Connection: keep-alive),   *)
(*          "ws" (upgrade), "bad" (not HTTP), "idle" (silence up to the    *)
(*          timeout; only if cfg.timeout > 0), "hangup" (client closes),   *)
(*          "sat" (the request arrives while all cfg.threads workers are   *)
(*          held by idle connections for longer than OVERLOAD_THRESHOLD).  *)
(*   cx = [open, cache]   cache: set of <<host_index, path>> -> target     *)
(***************************************************************************)
StartEms == <<H("info", "conf-loaded"), H("debug", "configuration"), H("info", "starting"), H("info", "running")>>
ConnEms == <<M("ConnectionSuccess", ""), M("ThreadPoolProcessStarted", "")>>
ClosedEm == <<M("ConnectionClosed", "")>>

CacheKey(hd, rq) == IF "CacheKeyIgnoresHost" \in Dev THEN <<0, rq.path>> ELSE <<hd.h, rq.path>>     \* cache.get/set(&request.uri, host)
Cached(cache, key) == \E e \in cache : e.key = key
CachedTgt(cache, key) == (CHOOSE e \in cache : e.key = key).tgt

\* one plain request: [ans, hit, cache', ems, closes]
HttpStep(cfg, app, cache, rq, ka) ==
  LET hd == Dispatch(app, rq)
      a0 == AnswerOf(cfg, hd, rq)
      key == CacheKey(hd, rq)
      cacheable == a0.cls \in {"file", "directory"}
      hit == cfg.cache /\ cacheable /\ Cached(cache, key)              \* cache_check
      a == IF hit THEN Ans(a0.cls, CachedTgt(cache, key)) ELSE a0
      cache2 == IF cfg.cache /\ cacheable /\ ~hit THEN cache \cup {[key |-> key, tgt |-> a0.tgt]} ELSE cache   \* inner_file_handler
      handler == CASE hit -> <<H("info", "200-cached")>>
                   [] cacheable /\ ~hit -> <<H("info", "200")>> \o (IF cfg.cache THEN <<H("debug", "cached-route")>> ELSE <<>>)
                   [] a.cls = "redirect" -> <<H("info", "301")>>
                   [] a.cls = "proxy" -> <<H("info", "200")>>      \* proxy_handler: "{addr}: {status} {reason} {uri}", upstream answers 200
                   [] OTHER -> <<>>
      served == CASE a.cls = "panic" -> <<M("ThreadPoolPanic", "text"), M("ThreadRestarted", "text")>>
                  [] StatusOf(a) = 200 -> <<M("RequestServedSuccess", "200")>>
                  [] StatusOf(a) = 404 -> <<M("RequestServedError", "404")>>
                  [] OTHER -> <<M("RequestServedError", "3xx")>>
      stays == ka /\ a.cls # "panic"
  IN [ans |-> a, hit |-> hit, cache |-> cache2,
      ems |-> handler \o served \o (IF a.cls = "panic" THEN <<>> ELSE IF stays THEN <<M("KeepAliveRespected", "")>> ELSE ClosedEm),
      closes |-> ~stays]

WsStep(cfg, app, rq) ==
  LET a == AnswerOf(cfg, Dispatch(app, rq), rq) IN
  [ans |-> a, hit |-> FALSE,
   ems |-> <<M("WebsocketConnectionRequested", "")>>
           \o (CASE a.cls = "proxied" -> <<H("info", "ws-connected")>>
                 [] a.cls = "wsdown" -> <<H("error", "ws-failed")>>
                 [] a.cls = "panic" -> <<M("ThreadPoolPanic", "text"), M("ThreadRestarted", "text")>>
                 [] OTHER -> <<>>)
           \o (IF a.cls = "panic" THEN <<>> ELSE <<M("WebsocketConnectionClosed", "")>> \o ClosedEm)]

BadAns == Ans("bad400", 0)
TimeoutAns == Ans("timeout408", 0)
HangupAns == Ans("hangup", 0)
BadEms == <<M("RequestServedError", "400")>> \o ClosedEm
IdleEms == <<M("RequestTimeout", "408")>> \o ClosedEm

\* a connection = sequence of steps; the result: per step [ans, hit], the cache afterwards, all emissions
RECURSIVE ConnRun(_, _, _, _, _, _, _)
ConnRun(cfg, app, cache, steps, i, outs, ems) ==
  IF i > Len(steps) THEN [outs |-> outs, cache |-> cache, ems |-> ems]
  ELSE LET s == steps[i] IN
       CASE s.op \in {"http", "sat"} ->
              LET x == HttpStep(cfg, app, cache, s.rq, s.ka)
                  pre == IF s.op = "sat" THEN <<M("ThreadPoolOverload", "")>> ELSE <<>>
              IN IF x.closes THEN [outs |-> Append(outs, [ans |-> x.ans, hit |-> x.hit]), cache |-> x.cache, ems |-> ems \o pre \o x.ems]
                 ELSE ConnRun(cfg, app, x.cache, steps, i + 1, Append(outs, [ans |-> x.ans, hit |-> x.hit]), ems \o pre \o x.ems)
         [] s.op = "ws" -> LET x == WsStep(cfg, app, s.rq) IN
              [outs |-> Append(outs, [ans |-> x.ans, hit |-> FALSE]), cache |-> cache, ems |-> ems \o x.ems]
         [] s.op = "bad" -> [outs |-> Append(outs, [ans |-> BadAns, hit |-> FALSE]), cache |-> cache, ems |-> ems \o BadEms]
         [] s.op = "idle" -> [outs |-> Append(outs, [ans |-> TimeoutAns, hit |-> FALSE]), cache |-> cache, ems |-> ems \o IdleEms]
         [] OTHER -> \* "hangup": RequestError::Disconnected => return (no ConnectionClosed event)
              [outs |-> Append(outs, [ans |-> HangupAns, hit |-> FALSE]), cache |-> cache, ems |-> ems]

\* the idle connections that hold the workers during a "sat" step are connections of their own (opened, never used, hung up)
SatHolders(cfg, steps) == IF \E i \in 1..Len(steps) : steps[i].op = "sat" THEN cfg.threads ELSE 0
RECURSIVE Repeat(_, _)
Repeat(s, n) == IF n = 0 THEN <<>> ELSE s \o Repeat(s, n - 1)

RECURSIVE SessionRun(_, _, _, _, _, _, _)
SessionRun(cfg, app, cache, conns, i, outs, ems) ==
  IF i > Len(conns) THEN [outs |-> outs, ems |-> ems]
  ELSE LET x == ConnRun(cfg, app, cache, conns[i], 1, <<>>, <<>>)
       IN SessionRun(cfg, app, x.cache, conns, i + 1, Append(outs, x.outs),
                     ems \o Repeat(ConnEms, SatHolders(cfg, conns[i])) \o ConnEms \o x.ems)
Session(cfg, conns) == SessionRun(cfg, AppOf(cfg), {}, conns, 1, <<>>, StartEms)

\* the lines of a session at the configured level, as counts per (severity, what)
CountLines(level, ems) ==
  LET P == { k \in 1..Len(ems) : Printed(level, ems[k]) }
      cats == { LineOf(ems[k]) : k \in P }
  IN { [sev |-> c.sev, what |-> c.what, n |-> Cardinality({ k \in P : LineOf(ems[k]) = c })] : c \in cats }

\* the two sinks: the same lines on the console (if `console`) and in the log file (if `file`), nothing otherwise
SinkLines(cfg, sink, ems) == IF (sink = "console" /\ cfg.console) \/ (sink = "file" /\ cfg.file) THEN CountLines(cfg.level, ems) ELSE {}
\* comparison of observed line counts with the expected ones.  ThreadPoolOverload depends on how long a task waited
\* between the accept loop and a worker (> 100 ms): on a loaded machine it fires for connections the model does not
\* expect it for, and a starved accept loop can make it miss the one the model expects.  Its count is therefore free
\* wherever the level prints it - and zero where the level does not (the mask, not the timing, decides that).
SeqToSet(s) == { s[i] : i \in 1..Len(s) }
NOf(S, what) == IF \E x \in S : x.what = what THEN (CHOOSE x \in S : x.what = what).n ELSE 0
LinesAgree(cfg, enabled, obs, exp) ==
  LET o == { x \in obs : x.what # "ThreadPoolOverload" }   e == { x \in exp : x.what # "ThreadPoolOverload" }
  IN /\ o = e
     /\ (enabled /\ Printed(cfg.level, M("ThreadPoolOverload", ""))) \/ NOf(obs, "ThreadPoolOverload") = 0
     /\ \A x \in obs : x.what = "ThreadPoolOverload" => x.sev = SevOf("ThreadPoolOverload")

\* a cache hit returns what the same (host, path) would be served without the cache (C16's coherence, seen from here)
CacheCoherent(cfg, conns) ==
  LET withC == Session([cfg EXCEPT !.cache = TRUE], conns).outs
      without == Session([cfg EXCEPT !.cache = FALSE], conns).outs
  IN \A i \in 1..Len(withC) : \A j \in 1..Len(withC[i]) : withC[i][j].ans = without[i][j].ans

(***************************************************************************)
(* Part 5: the WebSocket proxy pump (proxy_websocket after the connect).   *)
(*   Streams are FIFO; what a side wrote is readable by the pump at once.  *)
(*   cin / tin   bytes written by client / target, not yet read by pump    *)
(*   outT / outC everything the pump wrote to target / client (history)    *)
(*   sentC/sentT everything client / target wrote (history)                *)
(*   cfin / tfin client / target closed (EOF follows the pending bytes)    *)
(*   closedC / closedT the server dropped its stream to client / target    *)
(*   pc: rs (read source) rd (read destination) wd (write to destination)  *)
(*       wsrc (write to source) park, done                                 *)
(***************************************************************************)
VARIABLES cfg, pm
vars == <<cfg, pm>>

PumpInit == [pc |-> "rs", cin |-> <<>>, tin |-> <<>>, sbuf |-> <<>>, dbuf |-> <<>>, outT |-> <<>>, outC |-> <<>>,
             sentC |-> <<>>, sentT |-> <<>>, cfin |-> FALSE, tfin |-> FALSE, closedC |-> FALSE, closedT |-> FALSE,
             why |-> ""]

Take(s, n) == SubSeq(s, 1, IF Len(s) < n THEN Len(s) ELSE n)
Drop(s, n) == SubSeq(s, (IF Len(s) < n THEN Len(s) ELSE n) + 1, Len(s))
Exit(p, why) == [p EXCEPT !.pc = "done", !.why = why,
                          !.closedC = IF "PumpLeavesOtherOpen" \in Dev /\ why = "dstEof" THEN @ ELSE TRUE,
                          !.closedT = IF "PumpLeavesOtherOpen" \in Dev /\ why = "srcEof" THEN @ ELSE TRUE]
Fwd(b) == IF "PumpTruncatesChunk" \in Dev THEN Take(b, 1) ELSE b

\* one statement of the loop; `n` = how many bytes this read() returns (1..Chunk, at most what is pending);
\* `werr` = a write to a peer that has already closed fails (it may also still succeed: the kernel accepts it)
PumpStep(p, n, werr) ==
  CASE p.pc = "rs" ->
         IF p.cin # <<>> THEN [p EXCEPT !.sbuf = Take(p.cin, n), !.cin = Drop(p.cin, n), !.pc = "rd"]
         ELSE IF p.cfin /\ "PumpIgnoresEof" \notin Dev THEN Exit(p, "srcEof")       \* Ok(0): the client closed
         ELSE [p EXCEPT !.sbuf = <<>>, !.pc = "rd"]                                  \* WouldBlock (or, Dev, Ok(0)) => 0
    [] p.pc = "rd" ->
         IF p.tin # <<>> THEN [p EXCEPT !.dbuf = Take(p.tin, n), !.tin = Drop(p.tin, n), !.pc = "wd"]
         ELSE IF p.tfin /\ "PumpIgnoresEof" \notin Dev
              THEN Exit(p, "dstEof")     \* Ok(0): the target closed (what this iteration read from the client goes nowhere)
         ELSE [p EXCEPT !.dbuf = <<>>, !.pc = "wd"]
    [] p.pc = "wd" ->
         IF p.sbuf = <<>> THEN [p EXCEPT !.pc = "wsrc"]
         ELSE IF p.tfin /\ werr THEN Exit(p, "writeErr")                              \* write_all(..)? fails
         ELSE IF "PumpEcho" \in Dev THEN [p EXCEPT !.outC = @ \o Fwd(p.sbuf), !.sbuf = <<>>, !.pc = "wsrc"]
         ELSE [p EXCEPT !.outT = @ \o Fwd(p.sbuf), !.sbuf = <<>>, !.pc = "wsrc"]
    [] p.pc = "wsrc" ->
         IF p.dbuf = <<>> THEN [p EXCEPT !.pc = "park"]
         ELSE IF p.cfin /\ werr THEN Exit(p, "writeErr")
         ELSE [p EXCEPT !.outC = @ \o Fwd(p.dbuf), !.dbuf = <<>>, !.pc = "park"]
    [] p.pc = "park" -> [p EXCEPT !.pc = "rs"]                                        \* park_timeout(10 ms)
    [] OTHER -> p

\* Dev PumpEofDropsTail: data and a close are pending: the close is noticed first and the data are dropped with the exit
PumpStepD(p, n, werr) ==
  IF "PumpEofDropsTail" \in Dev /\ p.pc = "rs" /\ p.cin # <<>> /\ p.cfin THEN Exit([p EXCEPT !.cin = <<>>], "srcEof")
  ELSE IF "PumpEofDropsTail" \in Dev /\ p.pc = "rd" /\ p.tin # <<>> /\ p.tfin THEN Exit([p EXCEPT !.tin = <<>>], "dstEof")
  ELSE PumpStep(p, n, werr)

\* environment
CSend(p, bytes) == [p EXCEPT !.cin = @ \o bytes, !.sentC = @ \o bytes]
TSend(p, bytes) == [p EXCEPT !.tin = @ \o bytes, !.sentT = @ \o bytes]
CClose(p) == [p EXCEPT !.cfin = TRUE]
TClose(p) == [p EXCEPT !.tfin = TRUE]

\* ---- the pump as a state machine (MC) ----
PInit == cfg = <<>> /\ pm = PumpInit
Reads == 1..Chunk
P_ReadSrc   == pm.pc = "rs"   /\ \E n \in Reads : pm' = PumpStepD(pm, n, FALSE) /\ UNCHANGED cfg
P_ReadDst   == pm.pc = "rd"   /\ \E n \in Reads : pm' = PumpStepD(pm, n, FALSE) /\ UNCHANGED cfg
P_WriteDst  == pm.pc = "wd"   /\ \E w \in BOOLEAN : pm' = PumpStepD(pm, 1, w) /\ UNCHANGED cfg
P_WriteSrc  == pm.pc = "wsrc" /\ \E w \in BOOLEAN : pm' = PumpStepD(pm, 1, w) /\ UNCHANGED cfg
P_Park      == pm.pc = "park" /\ pm' = PumpStepD(pm, 1, FALSE) /\ UNCHANGED cfg
E_ClientSend == ~pm.cfin /\ Len(pm.sentC) < MaxSend /\ pm' = CSend(pm, <<Len(pm.sentC) + 1>>) /\ UNCHANGED cfg
E_TargetSend == ~pm.tfin /\ Len(pm.sentT) < MaxSend /\ pm' = TSend(pm, <<Len(pm.sentT) + 101>>) /\ UNCHANGED cfg
E_ClientClose == ~pm.cfin /\ pm' = CClose(pm) /\ UNCHANGED cfg
E_TargetClose == ~pm.tfin /\ pm' = TClose(pm) /\ UNCHANGED cfg
PumpNext == P_ReadSrc \/ P_ReadDst \/ P_WriteDst \/ P_WriteSrc \/ P_Park
PNext == PumpNext \/ E_ClientSend \/ E_TargetSend \/ E_ClientClose \/ E_TargetClose
PSpec == PInit /\ [][PNext]_vars /\ WF_vars(PumpNext)

IsPrefix(a, b) == Len(a) <= Len(b) /\ SubSeq(b, 1, Len(a)) = a
\* transparency: what reaches a side is, in order and without gaps or repeats, what the other side wrote
PumpOrder == IsPrefix(pm.outT, pm.sentC) /\ IsPrefix(pm.outC, pm.sentT)
\* nothing is held back: when the loop is parked with nothing pending, everything written has been delivered
PumpIdle(p) == p.pc = "rs" /\ p.cin = <<>> /\ p.tin = <<>> /\ p.sbuf = <<>> /\ p.dbuf = <<>>
PumpNoLoss == (PumpIdle(pm) /\ ~pm.cfin /\ ~pm.tfin) => (pm.outT = pm.sentC /\ pm.outC = pm.sentT)
\* a side that closes after writing has all its bytes delivered before the other side is closed
PumpCloseAfterData == /\ (pm.pc = "done" /\ pm.why = "srcEof") => pm.outT = pm.sentC
                      /\ (pm.pc = "done" /\ pm.why = "dstEof") => pm.outC = pm.sentT
\* when the loop ends both streams are dropped
PumpExitClosesBoth == pm.pc = "done" => (pm.closedC /\ pm.closedT)
\* the loop only ends because a side closed
PumpEndsOnlyOnClose == pm.pc = "done" => (pm.cfin \/ pm.tfin)
\* liveness: a close is propagated to the other side (the worker is released)
PumpClosePropagates == /\ (pm.cfin ~> pm.closedT)
                       /\ (pm.tfin ~> pm.closedC)
\* liveness: without a close, everything written arrives
PumpDelivers == \A k \in 1..MaxSend : (Len(pm.sentC) >= k /\ ~pm.tfin) ~> (Len(pm.outT) >= k \/ pm.pc = "done")

\* ---- the pump run to quiescence (generation, traces): the script is sequential, every step waits for its effect ----
RECURSIVE PumpIter(_, _)
PumpIter(p, fuel) == IF fuel = 0 \/ p.pc = "done" THEN p
                     ELSE LET q == PumpStepD(p, Chunk, FALSE) IN IF q.pc = "rs" \/ q.pc = "done" THEN q ELSE PumpIter(q, fuel - 1)
RECURSIVE PumpRun(_, _)
PumpRun(p, fuel) == IF fuel = 0 \/ p.pc = "done" THEN p
                    ELSE LET q == PumpIter(p, 8) IN IF q = p THEN p ELSE PumpRun(q, fuel - 1)
Quiesce(p) == PumpRun(p, 10000)

\* A scripted exchange over the pump: actions [ev: csend | tsend | cclose | tclose, data] and observations
\* [ev: tgot | cgot (the bytes that arrived since the last such event), teof | ceof (seen: the side observed the close)].
\* PumpReplay returns the script with every observation replaced by what the model yields.
Ev(ev, data, seen) == [ev |-> ev, data |-> data, seen |-> seen]
RECURSIVE PumpReplay(_, _, _, _, _, _)
PumpReplay(evs, i, p, rdT, rdC, out) ==
  IF i > Len(evs) THEN out
  ELSE LET e == evs[i] IN
       CASE e.ev = "csend"  -> PumpReplay(evs, i + 1, Quiesce(CSend(p, e.data)), rdT, rdC, Append(out, e))
         [] e.ev = "tsend"  -> PumpReplay(evs, i + 1, Quiesce(TSend(p, e.data)), rdT, rdC, Append(out, e))
         [] e.ev = "cclose" -> PumpReplay(evs, i + 1, Quiesce(CClose(p)), rdT, rdC, Append(out, e))
         [] e.ev = "tclose" -> PumpReplay(evs, i + 1, Quiesce(TClose(p)), rdT, rdC, Append(out, e))
         [] e.ev = "tgot"   -> PumpReplay(evs, i + 1, p, Len(p.outT), rdC,
                                          Append(out, Ev("tgot", SubSeq(p.outT, rdT + 1, Len(p.outT)), FALSE)))
         [] e.ev = "cgot"   -> PumpReplay(evs, i + 1, p, rdT, Len(p.outC),
                                          Append(out, Ev("cgot", SubSeq(p.outC, rdC + 1, Len(p.outC)), FALSE)))
         [] e.ev = "teof"   -> PumpReplay(evs, i + 1, p, rdT, rdC, Append(out, Ev("teof", <<>>, p.closedT)))
         [] OTHER           -> PumpReplay(evs, i + 1, p, rdT, rdC, Append(out, Ev("ceof", <<>>, p.closedC)))
PumpExpect(evs) == PumpReplay(evs, 1, PumpInit, 0, 0, <<>>)

\* what a client can see of an answer: a dropped connection looks the same whatever the reason
ObsOf(a) == IF a.cls \in {"panic", "closed", "wsdown", "hangup"} THEN Ans("eof", 0) ELSE a
=============================================================================
