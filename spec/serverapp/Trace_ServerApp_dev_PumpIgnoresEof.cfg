CONSTANTS
  Dev = {"PumpIgnoresEof"}
  Chunk = 1024
  MaxSend = 0
SPECIFICATION TSpec
INVARIANTS AllExplained
CHECK_DEADLOCK FALSE
