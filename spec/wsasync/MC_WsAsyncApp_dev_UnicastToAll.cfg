\* sensitivity (plausible bug): a unicast is written to every stream
CONSTANTS
  c1 = c1
  c2 = c2
  c3 = c3
  w1 = w1
  w2 = w2
  w3 = w3
  Clients <- CS2
  MaxMsgs = 1
  MaxPings = 0
  Workers <- WS1
  Heartbeat = FALSE
  Reply <- ReplyUni
  ExtScript <- ExtNone
  Mode = "free"
  ShutdownMode = "any"
  Dev = {"UnicastToAll"}
INIT Init
NEXT Next
VIEW MCView
INVARIANTS DeliveryInvs
CHECK_DEADLOCK FALSE
