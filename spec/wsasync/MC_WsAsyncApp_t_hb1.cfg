\* thorough: heartbeat on, one client x <= 2 messages + ping, pool of 2, echo replies: a client that talks in every ping round and answers its pings is never reaped
CONSTANTS
  c1 = c1
  c2 = c2
  c3 = c3
  w1 = w1
  w2 = w2
  w3 = w3
  Clients <- CS1
  MaxMsgs = 2
  MaxPings = 1
  Workers <- WS2
  Heartbeat = TRUE
  Reply <- ReplyUni
  ExtScript <- ExtNone
  Mode = "free"
  ShutdownMode = "any"
  Dev = {}
INIT Init
NEXT Next
SYMMETRY Sym
VIEW MCView
INVARIANTS TypeOK CurInStreams DispatchInvs InvocationInvs DeliveryInvs QuiescentComplete
CHECK_DEADLOCK FALSE
