\* thorough: 2 clients x 1 message + ping, pool of 2, heartbeat on (timeouts, dropped sockets), chat replies
CONSTANTS
  c1 = c1
  c2 = c2
  c3 = c3
  w1 = w1
  w2 = w2
  w3 = w3
  Clients <- CS2
  MaxMsgs = 1
  MaxPings = 1
  Workers <- WS2
  Heartbeat = TRUE
  Reply <- ReplyChat
  ExtScript <- ExtNone
  Mode = "free"
  ShutdownMode = "any"
  Dev = {}
INIT Init
NEXT Next
SYMMETRY Sym
INVARIANTS TypeOK CurInStreams DispatchInvs InvocationInvs DeliveryInvs QuiescentComplete
CHECK_DEADLOCK FALSE
