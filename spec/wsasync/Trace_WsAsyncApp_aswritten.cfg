\* trace validation against the pool as written (no per-client serialisation of handler starts)
CONSTANTS
  Clients = {1, 2, 3, 4, 5, 6, 7, 8}
  MaxMsgs = 100000
  MaxPings = 100000
  Workers = {1, 2, 3, 4, 5, 6, 7, 8, 9, 10, 11, 12, 13, 14, 15, 16}
  Heartbeat = TRUE
  Reply <- TrReply
  ExtScript <- TrExt
  Mode = "free"
  ShutdownMode = "any"
  Dev = {"InvocationInversion"}
SPECIFICATION TSpec
INVARIANTS AllAccepted
CHECK_DEADLOCK FALSE
