\* reachability: both workers run a handler at the same time
CONSTANTS
  c1 = c1
  c2 = c2
  c3 = c3
  w1 = w1
  w2 = w2
  w3 = w3
  Clients <- CS1
  MaxMsgs = 1
  MaxPings = 0
  Workers <- WS2
  Heartbeat = FALSE
  Reply <- ReplyNone
  ExtScript <- ExtNone
  Mode = "free"
  ShutdownMode = "any"
  Dev = {"InvocationInversion"}
INIT Init
NEXT Next
VIEW MCView
INVARIANTS Reach_ParallelHandlers
CHECK_DEADLOCK FALSE
