\* thorough: liveness ShutdownEndsRun with 2 clients and one worker (no symmetry under liveness)
CONSTANTS
  c1 = c1
  c2 = c2
  c3 = c3
  w1 = w1
  w2 = w2
  w3 = w3
  Clients <- CS2
  MaxMsgs = 1
  MaxPings = 0
  Workers <- WS1
  Heartbeat = FALSE
  Reply <- ReplyNone
  ExtScript <- ExtNone
  Mode = "free"
  ShutdownMode = "any"
  Dev = {}
SPECIFICATION Spec
INVARIANTS TypeOK
PROPERTY ShutdownEndsRun
CHECK_DEADLOCK FALSE
