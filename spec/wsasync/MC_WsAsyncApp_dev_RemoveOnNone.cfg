\* sensitivity (plausible bug): Restion::None handled like an error
CONSTANTS
  c1 = c1
  c2 = c2
  c3 = c3
  w1 = w1
  w2 = w2
  w3 = w3
  Clients <- CS1
  MaxMsgs = 1
  MaxPings = 0
  Workers <- WS1
  Heartbeat = FALSE
  Reply <- ReplyNone
  ExtScript <- ExtNone
  Mode = "free"
  ShutdownMode = "any"
  Dev = {"RemoveOnNone"}
INIT Init
NEXT Next
VIEW MCView
INVARIANTS DispatchInvs
CHECK_DEADLOCK FALSE
