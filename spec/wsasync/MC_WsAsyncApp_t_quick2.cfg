\* thorough: two clients x 1 message, pool of 2, repaired pool: every invariant
CONSTANTS
  c1 = c1
  c2 = c2
  c3 = c3
  w1 = w1
  w2 = w2
  w3 = w3
  Clients <- CS2
  MaxMsgs = 1
  MaxPings = 0
  Workers <- WS2
  Heartbeat = FALSE
  Reply <- ReplyNone
  ExtScript <- ExtNone
  Mode = "free"
  ShutdownMode = "any"
  Dev = {}
INIT Init
NEXT Next
SYMMETRY Sym
VIEW MCView
INVARIANTS TypeOK CurInStreams DispatchInvs InvocationInvs DeliveryInvs QuiescentComplete
CHECK_DEADLOCK FALSE
