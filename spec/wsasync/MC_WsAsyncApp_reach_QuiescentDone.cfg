\* reachability: a run with a message and a disconnect ends by a quiescent shutdown
CONSTANTS
  c1 = c1
  c2 = c2
  c3 = c3
  w1 = w1
  w2 = w2
  w3 = w3
  Clients <- CS1
  MaxMsgs = 1
  MaxPings = 0
  Workers <- WS1
  Heartbeat = FALSE
  Reply <- ReplyNone
  ExtScript <- ExtNone
  Mode = "free"
  ShutdownMode = "quiescent"
  Dev = {}
INIT Init
NEXT Next
VIEW MCView
INVARIANTS Reach_QuiescentDone
CHECK_DEADLOCK FALSE
