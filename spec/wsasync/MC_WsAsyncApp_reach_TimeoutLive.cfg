\* reachability: the heartbeat times out a stream whose client is alive
CONSTANTS
  c1 = c1
  c2 = c2
  c3 = c3
  w1 = w1
  w2 = w2
  w3 = w3
  Clients <- CS1
  MaxMsgs = 0
  MaxPings = 0
  Workers <- WS1
  Heartbeat = TRUE
  Reply <- ReplyNone
  ExtScript <- ExtNone
  Mode = "free"
  ShutdownMode = "any"
  Dev = {}
INIT Init
NEXT Next
VIEW MCView
INVARIANTS Reach_TimeoutLive
CHECK_DEADLOCK FALSE
