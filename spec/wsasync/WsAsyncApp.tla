------------------------------ MODULE WsAsyncApp ------------------------------
(* Model of humphrey_ws::async_app::AsyncWebsocketApp::run (property C12).

   Processes
     clients        scripts over connect / send / ping / close / vanish (nondeterministic, bounded)
     handshake      the Humphrey App thread that answers 101 and then pushes the stream into the
                    `incoming_streams` channel (Srv_Enqueue)
     event loop     ONE thread; per iteration, in this order (async_app.rs run()):
                      Loop_Shutdown | Loop_Begin      shutdown.try_recv(); keys = streams.keys()
                      for addr in keys:               (HashMap order = arbitrary)
                        'inner: recv_nonblocking      Loop_RecvMsg  -> dispatch message, stay
                                                      Loop_RecvCtl  -> ping/pong answered inside, stay
                                                      Loop_RecvErr  -> dispatch disconnect, remove
                                                      Loop_RecvNone -> leave the stream
                        heartbeat timeout             Loop_Timeout  -> dispatch disconnect, remove
                      incoming_streams.try_iter()     Loop_Admit*   -> dispatch connect, insert
                      outgoing_messages.try_iter()    Loop_Flush*   -> unicast to a present addressee,
                                                                       broadcast to the current key set
                      sleep(poll_interval)            (back to the top)
     handler pool   FIFO channel `q`, N workers: Worker_Take (dequeue under the receiver mutex),
                    Worker_Invoke (handler body starts, after the mutex was released),
                    Worker_Finish (handler sends its replies into `outgoing` and returns)
     external       an AsyncSender held by another thread (Ext_Send)
     environment    Env_Shutdown

   "dispatch" = the loop hands a closure to ThreadPool::execute  (history dseq)
   "invoke"   = the handler body starts on a pool thread          (history iseq)

   Dev (named deviations):
     InvocationInversion  the code as written: the pool does not serialise the tasks of one client,
                          so with >= 2 workers handler bodies may start in another order than they
                          were dispatched.  Dev = {} models the minimal repair: a handler body of
                          client c starts only when every earlier-dispatched task of c has started.
     the others are plausible bugs used only to show that the invariants are not vacuous:
     DoubleDisconnect     the error path forgets streams.remove -> the heartbeat path disconnects again
     RemoveOnNone         `Restion::None` is treated like an error
     LateConnect          admission inserts the stream, connect is only dispatched after its first poll
     BroadcastSkipsSender a handler's broadcast is not written to the originating client
     UnicastToAll         a unicast is written to every stream
     FlushWriteMayTruncate a flushed message may reach a receiver only in part (e.g. write_all failing in
                          mid-frame on a socket that was left non-blocking, the error being ignored)
     CloseOvertakesMessages the Close frame of a client is acted upon although data frames that arrived before it
                          (in the same write / poll interval) have not been dispatched yet: they are lost
     BroadcastAbortsOnDeadPeer a broadcast stops at the first stream whose socket is dead (the write fails):
                          the members after it never get the message
     PingSkippedWhenActive the heartbeat ping is not sent to a stream that delivered a message in the same
                          iteration, although liveness is judged by the last pong alone

   Heartbeat.  Time is abstracted to ping rounds: a round is an iteration in which `will_ping` is true
   (last_ping.elapsed() >= interval); rounds[c] counts the rounds that began since the loop last read a
   Pong from c (or admitted c), and `last_pong.elapsed() >= timeout` is rounds[c] >= 2 (timeout = two
   intervals; the loop iterates often compared with the interval).  In a round every stream that is still
   in the map after it was drained is sent a Ping (pq[c] = pings the client has not answered yet); the
   client answers when it chooses to (Cl_Pong) - a client that does not is "silent". *)
EXTENDS Naturals, Sequences, FiniteSets, TLC

CONSTANTS Clients,       \* client ids (small positive integers; one id = one socket address)
          MaxMsgs,       \* data messages a client may send
          MaxPings,      \* client-originated pings per client
          Workers,       \* pool worker ids
          Heartbeat,     \* BOOLEAN - heartbeat configured (timeouts possible)
          Reply,         \* [{"C","M","D"} -> {"none","uni","bc"}] what each handler sends
          ExtScript,     \* sequence over {"uni","bc"}: what the external AsyncSender sends (a unicast goes
                         \* to the address of any client that has connected at some time, present or not)
          Mode,          \* "free" | "lockstep" (lockstep = the sub-behaviours the gated harness can force)
          ShutdownMode,  \* "any" | "quiescent"
          Dev

NoClient == 0        \* client ids are compared, never computed with: the MC configs use model values
DevNames == {"InvocationInversion", "DoubleDisconnect", "RemoveOnNone", "LateConnect",
             "BroadcastSkipsSender", "UnicastToAll", "PingSkippedWhenActive", "FlushWriteMayTruncate",
             "CloseOvertakesMessages", "BroadcastAbortsOnDeadPeer"}
ASSUME Dev \subseteq DevNames
ASSUME Reply["D"] # "uni"         \* AsyncStream::send asserts `connected`

VARIABLES
  cst,       \* client state: "new" | "open" | "closed" (Close frame sent) | "gone_fin" | "gone_rst"
  sent,      \* number of data messages the client has sent (ids 1..sent[c])
  pings,     \* number of pings the client has sent
  net,       \* client -> server bytes not yet read by the loop, as a sequence of frames
  pending,   \* handshake answered (101 written), stream not yet pushed into the channel
  incoming,  \* the incoming_streams channel
  streams,   \* keys of the `streams` HashMap
  lpc,       \* loop phase: "top" | "poll" | "admit" | "flush" | "done"
  keys,      \* keys of this iteration not yet visited
  cur,       \* the stream being drained, or NoClient
  q,         \* the pool's task channel
  wst,       \* worker state: "idle" | "taken" | "run"
  wtask,     \* the task a worker holds
  outgoing,  \* the outgoing_messages channel
  ext,       \* index of the next ExtScript entry
  shut,      \* "no" | "sent" | "seen"
  sentTo,    \* history: what the loop wrote to each client, in order
  rxn,       \* how many of sentTo[c] the client has read
  dseq,      \* history: per client, the events in dispatch order
  iseq,      \* history: per client, the events in invocation order
  admitted,  \* history: clients that were ever inserted into `streams`
  tmo,       \* history: clients removed by the heartbeat timeout
  flog,      \* history: one record per flushed outgoing message: the ideal set of receivers
  wp,        \* will_ping of the current iteration
  rounds,    \* per stream: ping rounds begun since the last Pong was read (capped at 2 = timed out)
  pq,        \* per client: Pings written to it that it has not answered
  act,       \* the stream being drained delivered a message in this iteration
  tmoBad     \* history: clients reaped by the heartbeat although open and with no Ping unanswered

loopvars == <<lpc, keys, cur>>
hbvars == <<wp, rounds, pq, act, tmoBad>>
vars == <<cst, sent, pings, net, pending, incoming, streams, lpc, keys, cur, q, wst, wtask,
          outgoing, ext, shut, sentTo, rxn, dseq, iseq, admitted, tmo, flog, wp, rounds, pq, act, tmoBad>>

Frame(k, m)              == [k |-> k, m |-> m]                         \* k: "m" | "ping" | "close"
Ev(k, m)                 == [k |-> k, m |-> m]                         \* k: "C" | "M" | "D"
Task(k, c, m, n)         == [k |-> k, c |-> c, m |-> m, n |-> n]       \* n = position in dseq[c]
Msg(k, to, src, c, m, j) == [k |-> k, to |-> to, src |-> src, c |-> c, m |-> m, j |-> j]
NoTask == Task("-", NoClient, 0, 0)

Gone(c) == cst[c] \in {"gone_fin", "gone_rst"}
Has(s, k) == \E i \in DOMAIN s : s[i].k = k
CountK(s, k) == Cardinality({i \in DOMAIN s : s[i].k = k})
CountMsg(s, x) == Cardinality({i \in DOMAIN s : s[i] = x})

Init ==
  /\ cst = [c \in Clients |-> "new"] /\ sent = [c \in Clients |-> 0] /\ pings = [c \in Clients |-> 0]
  /\ net = [c \in Clients |-> <<>>] /\ pending = {} /\ incoming = <<>> /\ streams = {}
  /\ lpc = "top" /\ keys = {} /\ cur = NoClient
  /\ q = <<>> /\ wst = [w \in Workers |-> "idle"] /\ wtask = [w \in Workers |-> NoTask]
  /\ outgoing = <<>> /\ ext = 1 /\ shut = "no"
  /\ sentTo = [c \in Clients |-> <<>>] /\ rxn = [c \in Clients |-> 0]
  /\ dseq = [c \in Clients |-> <<>>] /\ iseq = [c \in Clients |-> <<>>]
  /\ admitted = {} /\ tmo = {} /\ flog = {}
  /\ wp = FALSE /\ rounds = [c \in Clients |-> 0] /\ pq = [c \in Clients |-> 0] /\ act = FALSE /\ tmoBad = {}

(***************************************************************************)
(* Effects shared by the phase-guarded loop actions below and by the trace *)
(* spec (which does not see the phases).  Every *Eff leaves loopvars to    *)
(* the caller.                                                             *)
(***************************************************************************)
Dispatch(k, c, m) ==
  /\ dseq' = [dseq EXCEPT ![c] = Append(@, Ev(k, m))]
  /\ q' = Append(q, Task(k, c, m, Len(dseq[c]) + 1))

\* ---- clients -------------------------------------------------------------
\* the environment's scripts end with the shutdown signal (what clients do between the signal and the
\* loop noticing it adds nothing: until then the loop treats them as before)
EnvMayAct == /\ lpc # "done" /\ shut = "no"
             /\ (Mode = "lockstep" => lpc = "top")
\* lockstep: at most one stream has unread input, so that the order of dispatch does not depend on the
\* iteration order of the HashMap
SingleInput(c) == Mode = "lockstep" => \A d \in Clients \ {c} : net[d] = <<>> /\ ~(Gone(d) /\ d \in streams)

\* lockstep: one handshake at a time, so the order in the channel is the order of the connects
ConnectPre(c) == cst[c] = "new" /\ (Mode = "lockstep" => pending = {})
ConnectEff(c) ==
  /\ cst' = [cst EXCEPT ![c] = "open"] /\ pending' = pending \cup {c}
  /\ UNCHANGED <<sent, pings, net, incoming, streams, q, wst, wtask, outgoing, ext, shut,
                 sentTo, rxn, dseq, iseq, admitted, tmo, flog>>

EnqueuePre(c) == c \in pending
EnqueueEff(c) ==
  /\ pending' = pending \ {c} /\ incoming' = Append(incoming, c)
  /\ UNCHANGED <<cst, sent, pings, net, streams, q, wst, wtask, outgoing, ext, shut,
                 sentTo, rxn, dseq, iseq, admitted, tmo, flog>>

SendPre(c) == cst[c] = "open" /\ sent[c] < MaxMsgs
SendEff(c) ==
  /\ sent' = [sent EXCEPT ![c] = @ + 1]
  /\ net' = [net EXCEPT ![c] = Append(@, Frame("m", sent[c] + 1))]
  /\ UNCHANGED <<cst, pings, pending, incoming, streams, q, wst, wtask, outgoing, ext, shut,
                 sentTo, rxn, dseq, iseq, admitted, tmo, flog>>

PingPre(c) == cst[c] = "open" /\ pings[c] < MaxPings
PingEff(c) ==
  /\ pings' = [pings EXCEPT ![c] = @ + 1]
  /\ net' = [net EXCEPT ![c] = Append(@, Frame("ping", 0))]
  /\ UNCHANGED <<cst, sent, pending, incoming, streams, q, wst, wtask, outgoing, ext, shut,
                 sentTo, rxn, dseq, iseq, admitted, tmo, flog>>

ClosePre(c) == cst[c] = "open"
CloseEff(c) ==
  /\ cst' = [cst EXCEPT ![c] = "closed"]
  /\ net' = [net EXCEPT ![c] = Append(@, Frame("close", 0))]
  /\ UNCHANGED <<sent, pings, pending, incoming, streams, q, wst, wtask, outgoing, ext, shut,
                 sentTo, rxn, dseq, iseq, admitted, tmo, flog>>

\* abrupt disconnect: the socket is dropped without a Close frame ("fin") or reset ("rst")
VanishPre(c, how) ==
  /\ cst[c] = "open" /\ how \in {"fin", "rst"}
  /\ (how = "fin" => Heartbeat)                  \* the property asks for heartbeat on in vanish cases
  /\ (Mode = "lockstep" => how = "rst" /\ c \in streams /\ net[c] = <<>>)
VanishEff(c, how) ==
  /\ cst' = [cst EXCEPT ![c] = IF how = "fin" THEN "gone_fin" ELSE "gone_rst"]
  /\ UNCHANGED <<sent, pings, net, pending, incoming, streams, q, wst, wtask, outgoing, ext, shut,
                 sentTo, rxn, dseq, iseq, admitted, tmo, flog>>

\* the client answers a heartbeat Ping (a responsive client does so promptly, a silent one never)
PongPre(c) == cst[c] = "open" /\ pq[c] > 0
PongEff(c) ==
  /\ pq' = [pq EXCEPT ![c] = @ - 1]
  /\ net' = [net EXCEPT ![c] = Append(@, Frame("pong", 0))]
  /\ UNCHANGED <<cst, sent, pings, pending, incoming, streams, q, wst, wtask, outgoing, ext, shut,
                 sentTo, rxn, dseq, iseq, admitted, tmo, flog>>

\* the client reads the next frame the loop wrote to it
RxPre(c) == cst[c] \in {"open", "closed"} /\ rxn[c] < Len(sentTo[c])
RxEff(c) ==
  /\ rxn' = [rxn EXCEPT ![c] = @ + 1]
  /\ UNCHANGED <<cst, sent, pings, net, pending, incoming, streams, q, wst, wtask, outgoing, ext, shut,
                 sentTo, dseq, iseq, admitted, tmo, flog>>

\* ---- any thread holding a Sender<OutgoingMessage> --------------------------
OutSendEff(msg) == outgoing' = Append(outgoing, msg)

\* a unicast needs a socket address: that of a client that has connected at some time (it may be gone)
ExtPre(k, to) == /\ ext <= Len(ExtScript) /\ ExtScript[ext] = k
                 /\ IF k = "uni" THEN to \in Clients /\ cst[to] # "new" ELSE to = NoClient
ExtEff(k, to) ==
  /\ OutSendEff(Msg(k, to, "X", NoClient, ext, 1))
  /\ ext' = ext + 1
  /\ UNCHANGED <<cst, sent, pings, net, pending, incoming, streams, q, wst, wtask, shut,
                 sentTo, rxn, dseq, iseq, admitted, tmo, flog>>

\* ---- loop: poll phase ------------------------------------------------------
RecvMsgPre(c) == c \in streams /\ net[c] # <<>> /\ Head(net[c]).k = "m"
RecvMsgEff(c) ==
  /\ net' = [net EXCEPT ![c] = Tail(@)]
  /\ Dispatch("M", c, Head(net[c]).m)
  /\ UNCHANGED <<cst, sent, pings, pending, incoming, streams, wst, wtask, outgoing, ext, shut,
                 sentTo, rxn, iseq, admitted, tmo, flog>>

\* Message::from_stream_nonblocking answers a ping / notes a pong and keeps reading
RecvCtlPre(c) == c \in streams /\ net[c] # <<>> /\ Head(net[c]).k \in {"ping", "pong"}
RecvCtlEff(c) ==
  /\ net' = [net EXCEPT ![c] = Tail(@)]
  /\ UNCHANGED <<cst, sent, pings, pending, incoming, streams, q, wst, wtask, outgoing, ext, shut,
                 sentTo, rxn, dseq, iseq, admitted, tmo, flog>>

\* a Close frame, or a read error (reset socket)
\* A dropped socket (FIN, no Close frame): on Linux read() keeps returning 0 once the FIN was seen, whatever
\* is written to the socket afterwards, and recv_nonblocking takes 0 for "nothing yet": only the heartbeat
\* reaps such a stream.  The model accepts either outcome (None for ever, or a read error), so a tree that
\* treats end-of-stream as a disconnect is not flagged.
ErrPossible(c) == \/ (net[c] # <<>> /\ Head(net[c]).k = "close")
                  \/ ("CloseOvertakesMessages" \in Dev /\ \E x \in DOMAIN net[c] : net[c][x].k = "close")
                  \/ cst[c] = "gone_rst"
                  \/ cst[c] = "gone_fin"
RecvErrPre(c) == c \in streams /\ ErrPossible(c)
RemoveEff(c, forget) ==
  streams' = IF forget THEN streams ELSE streams \ {c}
RecvErrEff(c) ==
  /\ net' = [net EXCEPT ![c] = <<>>]
  /\ Dispatch("D", c, 0)
  /\ RemoveEff(c, "DoubleDisconnect" \in Dev)
  /\ UNCHANGED <<cst, sent, pings, pending, incoming, wst, wtask, outgoing, ext, shut,
                 sentTo, rxn, iseq, admitted, tmo, flog>>

\* nothing (more) to read right now. A frame that is still in flight is, for everything the server
\* can observe, the same as a frame the client writes later (Cl_Send is enabled at any time), so
\* network latency needs no action of its own: None is what an empty buffer yields. A reset socket
\* yields the error; a dropped one (FIN, read returns Ok(0)) yields None.
RecvNonePre(c) == c \in streams /\ net[c] = <<>> /\ cst[c] # "gone_rst"
RecvNoneEff(c) ==
  IF "RemoveOnNone" \in Dev
  THEN /\ Dispatch("D", c, 0) /\ streams' = streams \ {c}
       /\ UNCHANGED <<cst, sent, pings, net, pending, incoming, wst, wtask, outgoing, ext, shut,
                      sentTo, rxn, iseq, admitted, tmo, flog>>
  ELSE IF "LateConnect" \in Dev /\ ~Has(dseq[c], "C")
  THEN /\ Dispatch("C", c, 0)
       /\ UNCHANGED <<cst, sent, pings, net, pending, incoming, streams, wst, wtask, outgoing, ext, shut,
                      sentTo, rxn, iseq, admitted, tmo, flog>>
  ELSE UNCHANGED <<cst, sent, pings, net, pending, incoming, streams, q, wst, wtask, outgoing, ext, shut,
                   sentTo, rxn, dseq, iseq, admitted, tmo, flog>>

\* last_pong.elapsed() >= timeout: two ping rounds began and no Pong was read since
TimedOut(c) == Heartbeat /\ rounds[c] >= 2
TimeoutPre(c) == c \in streams /\ TimedOut(c) /\ Mode = "free"
TimeoutEff(c) ==
  /\ Dispatch("D", c, 0)
  /\ streams' = streams \ {c}
  /\ tmo' = tmo \cup {c}
  /\ UNCHANGED <<cst, sent, pings, net, pending, incoming, wst, wtask, outgoing, ext, shut,
                 sentTo, rxn, iseq, admitted, flog>>

\* ---- loop: admit phase -----------------------------------------------------
AdmitEff(c) ==
  /\ streams' = streams \cup {c}
  /\ admitted' = admitted \cup {c}
  /\ IF "LateConnect" \in Dev THEN UNCHANGED <<dseq, q>> ELSE Dispatch("C", c, 0)

\* ---- loop: flush phase -----------------------------------------------------
\* A flush is modelled as atomic AND COMPLETE: send_raw's write_all blocks until the whole frame is handed to
\* the kernel, so every stream written to gets the entire message (the obligation FlushedCompletely below;
\* what the reference clients check frame by frame, length and hash).  The deviation shows what the
\* delivery properties say when that fails for some receiver.
Garbled(msg) == [msg EXCEPT !.k = "garbled"]
WriteTo(S, msg) ==
  IF "FlushWriteMayTruncate" \in Dev
  THEN \E T \in SUBSET S :
         sentTo' = [c \in Clients |-> IF c \in T THEN Append(sentTo[c], Garbled(msg))
                                     ELSE IF c \in S THEN Append(sentTo[c], msg) ELSE sentTo[c]]
  ELSE sentTo' = [c \in Clients |-> IF c \in S THEN Append(sentTo[c], msg) ELSE sentTo[c]]

FlushUniPre(msg) == msg.k = "uni"
FlushUniEff(msg) ==
  LET ideal == IF msg.to \in streams THEN {msg.to} ELSE {}
      real  == IF "UnicastToAll" \in Dev THEN streams ELSE ideal
  IN /\ WriteTo(real, msg)
     /\ flog' = flog \cup {[msg |-> msg, to |-> ideal]}

FlushBcPre(msg) == msg.k = "bc"
FlushBcEff(msg) ==
  LET ideal == streams
      real  == IF "BroadcastSkipsSender" \in Dev THEN streams \ {msg.c}
               ELSE IF "BroadcastAbortsOnDeadPeer" \in Dev /\ \E g \in streams : Gone(g)
               THEN {g \in streams : Gone(g)} ELSE ideal
  IN /\ WriteTo(real, msg)
     /\ flog' = flog \cup {[msg |-> msg, to |-> ideal]}

\* ---- pool ------------------------------------------------------------------
TakePre(w) == wst[w] = "idle" /\ q # <<>>
TakeEff(w) ==
  /\ wtask' = [wtask EXCEPT ![w] = Head(q)] /\ q' = Tail(q)
  /\ wst' = [wst EXCEPT ![w] = "taken"]
  /\ UNCHANGED <<cst, sent, pings, net, pending, incoming, streams, outgoing, ext, shut,
                 sentTo, rxn, dseq, iseq, admitted, tmo, flog>>

\* Dev = {}: per-client serialisation of handler starts (the minimal repair); as written: no guard.
\* The behaviours generated for the lock-step replay with Dev = {} must be forceable on ANY repaired pool,
\* also one that runs the handlers of a client strictly one after the other: there, handlers of the same
\* client do not overlap.
InvokeGuard(w) ==
  \/ "InvocationInversion" \in Dev
  \/ /\ Len(iseq[wtask[w].c]) + 1 = wtask[w].n
     /\ (Mode = "lockstep" => \A w2 \in Workers \ {w} : wst[w2] = "run" => wtask[w2].c # wtask[w].c)
InvokePre(w) == wst[w] = "taken" /\ InvokeGuard(w)
InvokeEff(w) ==
  /\ wst' = [wst EXCEPT ![w] = "run"]
  /\ iseq' = [iseq EXCEPT ![wtask[w].c] = Append(@, Ev(wtask[w].k, wtask[w].m))]
  /\ UNCHANGED <<cst, sent, pings, net, pending, incoming, streams, q, wtask, outgoing, ext, shut,
                 sentTo, rxn, dseq, admitted, tmo, flog>>

\* the running handler on w calls stream.send (k = "uni", to = its own client) or stream.broadcast
HSendPre(w, k) == wst[w] = "run" /\ (k = "uni" => wtask[w].k # "D")
HSendEff(w, k, j) ==
  /\ OutSendEff(Msg(k, IF k = "uni" THEN wtask[w].c ELSE NoClient, wtask[w].k, wtask[w].c, wtask[w].m, j))
  /\ UNCHANGED <<cst, sent, pings, net, pending, incoming, streams, q, wst, wtask, ext, shut,
                 sentTo, rxn, dseq, iseq, admitted, tmo, flog>>

HDonePre(w) == wst[w] = "run"
HDoneEff(w) ==
  /\ wst' = [wst EXCEPT ![w] = "idle"] /\ wtask' = [wtask EXCEPT ![w] = NoTask]
  /\ UNCHANGED <<cst, sent, pings, net, pending, incoming, streams, q, outgoing, ext, shut,
                 sentTo, rxn, dseq, iseq, admitted, tmo, flog>>

(***************************************************************************)
(* The actions                                                             *)
(***************************************************************************)
Cl_Connect(c)     == EnvMayAct /\ ConnectPre(c) /\ ConnectEff(c) /\ UNCHANGED loopvars /\ UNCHANGED hbvars
Srv_Enqueue(c)    == lpc # "done" /\ EnqueuePre(c) /\ EnqueueEff(c) /\ UNCHANGED loopvars /\ UNCHANGED hbvars
Cl_Send(c)        == EnvMayAct /\ SingleInput(c) /\ SendPre(c) /\ SendEff(c) /\ UNCHANGED loopvars /\ UNCHANGED hbvars
Cl_Ping(c)        == EnvMayAct /\ SingleInput(c) /\ PingPre(c) /\ PingEff(c) /\ UNCHANGED loopvars /\ UNCHANGED hbvars
Cl_Close(c)       == EnvMayAct /\ SingleInput(c) /\ ClosePre(c) /\ CloseEff(c) /\ UNCHANGED loopvars /\ UNCHANGED hbvars
Cl_Vanish(c, how) == EnvMayAct /\ SingleInput(c) /\ VanishPre(c, how) /\ VanishEff(c, how) /\ UNCHANGED loopvars /\ UNCHANGED hbvars
Cl_Pong(c)        == lpc # "done" /\ PongPre(c) /\ PongEff(c) /\ UNCHANGED loopvars
                     /\ UNCHANGED <<wp, rounds, act, tmoBad>>
Cl_Rx(c)          == RxPre(c) /\ RxEff(c) /\ UNCHANGED loopvars /\ UNCHANGED hbvars
Ext_Send(k, to)   == EnvMayAct /\ ExtPre(k, to) /\ ExtEff(k, to) /\ UNCHANGED loopvars /\ UNCHANGED hbvars

WorkersIdle == \A w \in Workers : wst[w] = "idle"
\* nothing is in flight anywhere (the harness signals shutdown after such a settle period)
Quiescent ==
  /\ lpc = "top" /\ pending = {} /\ incoming = <<>> /\ outgoing = <<>> /\ q = <<>> /\ WorkersIdle
  /\ \A c \in streams : net[c] = <<>> /\ (Gone(c) => (cst[c] = "gone_fin" /\ ~Heartbeat))

Env_Shutdown ==
  /\ shut = "no" /\ lpc # "done"
  /\ (ShutdownMode = "quiescent" => Quiescent)
  /\ (Mode = "lockstep" => lpc = "top")
  /\ shut' = "sent"
  /\ UNCHANGED <<cst, sent, pings, net, pending, incoming, streams, lpc, keys, cur, q, wst, wtask,
                 outgoing, ext, sentTo, rxn, dseq, iseq, admitted, tmo, flog>>
  /\ UNCHANGED hbvars

\* if let Some(ref s) = self.shutdown { if s.try_recv().is_ok() { break } }   ... thread_pool.stop()
Loop_Shutdown ==
  /\ lpc = "top" /\ shut = "sent"
  /\ lpc' = "done" /\ shut' = "seen"
  /\ UNCHANGED <<cst, sent, pings, net, pending, incoming, streams, keys, cur, q, wst, wtask,
                 outgoing, ext, sentTo, rxn, dseq, iseq, admitted, tmo, flog>>
  /\ UNCHANGED hbvars

\* let keys = self.streams.keys().copied().collect()        (no stream: straight to the admit phase)
Loop_Begin ==
  /\ lpc = "top" /\ shut # "sent"
  /\ (Mode = "lockstep" => pending = {})
  /\ lpc' = (IF streams = {} THEN "admit" ELSE "poll") /\ keys' = streams /\ cur' = NoClient
  \* will_ping = last_ping.elapsed() >= interval: some iterations are ping rounds
  /\ wp' \in (IF Heartbeat /\ Mode = "free" THEN BOOLEAN ELSE {FALSE})
  /\ rounds' = (IF wp' THEN [c \in Clients |-> IF c \in streams /\ rounds[c] < 2 THEN rounds[c] + 1 ELSE rounds[c]]
                 ELSE rounds)
  /\ act' = FALSE
  /\ UNCHANGED <<pq, tmoBad>>
  /\ UNCHANGED <<cst, sent, pings, net, pending, incoming, streams, q, wst, wtask,
                 outgoing, ext, shut, sentTo, rxn, dseq, iseq, admitted, tmo, flog>>

\* `for addr in keys` visits the keys in HashMap order (arbitrary): the loop is at stream c when it is
\* draining c, or when it is between streams and c has not been visited in this iteration.
\* Leaving the last stream moves on to the admit phase.
AtStream(c) == lpc = "poll" /\ (cur = c \/ (cur = NoClient /\ c \in keys))
Stay(c)  == cur' = c /\ keys' = keys \ {c} /\ lpc' = lpc
Leave(c) == cur' = NoClient /\ keys' = keys \ {c}
            /\ lpc' = (IF keys \ {c} = {} THEN "admit" ELSE "poll")
Forget(c) == rounds' = [rounds EXCEPT ![c] = 0] /\ pq' = [pq EXCEPT ![c] = 0]
Loop_RecvMsg(c)  == AtStream(c) /\ RecvMsgPre(c) /\ RecvMsgEff(c) /\ Stay(c)
                    /\ act' = TRUE /\ UNCHANGED <<wp, rounds, pq, tmoBad>>
\* a Pong sets last_pong = now
Loop_RecvCtl(c)  == AtStream(c) /\ RecvCtlPre(c) /\ RecvCtlEff(c) /\ Stay(c)
                    /\ rounds' = (IF Head(net[c]).k = "pong" THEN [rounds EXCEPT ![c] = 0] ELSE rounds)
                    /\ UNCHANGED <<wp, pq, act, tmoBad>>
Loop_RecvErr(c)  == AtStream(c) /\ RecvErrPre(c) /\ RecvErrEff(c) /\ Leave(c)
                    /\ Forget(c) /\ act' = FALSE /\ UNCHANGED <<wp, tmoBad>>
\* None, the stream has not timed out: `if will_ping { stream.inner.ping() }`
Loop_RecvNone(c) == AtStream(c) /\ RecvNonePre(c) /\ ~TimedOut(c) /\ RecvNoneEff(c) /\ Leave(c)
                    /\ pq' = (IF wp /\ "RemoveOnNone" \notin Dev /\ ~("PingSkippedWhenActive" \in Dev /\ act)
                               THEN [pq EXCEPT ![c] = IF @ < 2 THEN @ + 1 ELSE @] ELSE pq)
                    /\ act' = FALSE /\ UNCHANGED <<wp, rounds, tmoBad>>
\* None, and last_pong.elapsed() >= timeout
Loop_Timeout(c)  == AtStream(c) /\ RecvNonePre(c) /\ TimeoutPre(c) /\ TimeoutEff(c) /\ Leave(c)
                    /\ tmoBad' = (IF cst[c] = "open" /\ pq[c] = 0 THEN tmoBad \cup {c} ELSE tmoBad)
                    /\ Forget(c) /\ act' = FALSE /\ UNCHANGED wp

\* for (addr, stream) in incoming_streams.try_iter().filter_map(peer_addr ok)
Loop_Admit ==
  /\ lpc = "admit" /\ incoming # <<>>
  /\ incoming' = Tail(incoming)
  /\ AdmitEff(Head(incoming))
  /\ UNCHANGED <<cst, sent, pings, net, pending, lpc, keys, cur, wst, wtask,
                 outgoing, ext, shut, sentTo, rxn, iseq, tmo, flog>>
  /\ UNCHANGED hbvars
\* peer_addr() fails on a socket that was reset before admission: the stream is dropped silently
Loop_AdmitDrop ==
  /\ lpc = "admit" /\ incoming # <<>> /\ cst[Head(incoming)] = "gone_rst"
  /\ incoming' = Tail(incoming)
  /\ UNCHANGED <<cst, sent, pings, net, pending, streams, lpc, keys, cur, q, wst, wtask,
                 outgoing, ext, shut, sentTo, rxn, dseq, iseq, admitted, tmo, flog>>
  /\ UNCHANGED hbvars
Loop_AdmitDone ==
  /\ lpc = "admit" /\ incoming = <<>>
  /\ lpc' = "flush"
  /\ UNCHANGED <<cst, sent, pings, net, pending, incoming, streams, keys, cur, q, wst, wtask,
                 outgoing, ext, shut, sentTo, rxn, dseq, iseq, admitted, tmo, flog>>
  /\ UNCHANGED hbvars

\* for message in self.outgoing_messages.try_iter()
Loop_Flush ==
  /\ lpc = "flush" /\ outgoing # <<>>
  /\ outgoing' = Tail(outgoing)
  /\ IF Head(outgoing).k = "uni" THEN FlushUniEff(Head(outgoing)) ELSE FlushBcEff(Head(outgoing))
  /\ UNCHANGED <<cst, sent, pings, net, pending, incoming, streams, lpc, keys, cur, q, wst, wtask,
                 ext, shut, rxn, dseq, iseq, admitted, tmo>>
  /\ UNCHANGED hbvars
Loop_FlushDone ==
  /\ lpc = "flush" /\ outgoing = <<>>
  /\ lpc' = "top"
  /\ UNCHANGED <<cst, sent, pings, net, pending, incoming, streams, keys, cur, q, wst, wtask,
                 outgoing, ext, shut, sentTo, rxn, dseq, iseq, admitted, tmo, flog>>
  /\ UNCHANGED hbvars

PoolMayAct == Mode = "lockstep" => lpc \in {"top", "done"}
Worker_Take(w)   == PoolMayAct /\ TakePre(w) /\ TakeEff(w) /\ UNCHANGED loopvars /\ UNCHANGED hbvars
Worker_Invoke(w) == PoolMayAct /\ InvokePre(w) /\ InvokeEff(w) /\ UNCHANGED loopvars /\ UNCHANGED hbvars
\* the handler body: at most one send, as configured by Reply, then return
Worker_Finish(w) ==
  /\ PoolMayAct /\ wst[w] = "run"
  /\ wst' = [wst EXCEPT ![w] = "idle"] /\ wtask' = [wtask EXCEPT ![w] = NoTask]
  /\ IF Reply[wtask[w].k] = "none" THEN UNCHANGED outgoing
     ELSE OutSendEff(Msg(Reply[wtask[w].k], IF Reply[wtask[w].k] = "uni" THEN wtask[w].c ELSE NoClient,
                         wtask[w].k, wtask[w].c, wtask[w].m, 1))
  /\ UNCHANGED <<cst, sent, pings, net, pending, incoming, streams, lpc, keys, cur, q, ext, shut,
                 sentTo, rxn, dseq, iseq, admitted, tmo, flog>>
  /\ UNCHANGED hbvars

ClientNext == \E c \in Clients : \/ Cl_Connect(c) \/ Cl_Send(c) \/ Cl_Ping(c) \/ Cl_Close(c)
                                 \/ Cl_Vanish(c, "fin") \/ Cl_Vanish(c, "rst") \/ Srv_Enqueue(c)
                                 \/ Cl_Pong(c)
LoopNext == \/ Loop_Shutdown \/ Loop_Begin \/ Loop_Admit \/ Loop_AdmitDrop
            \/ Loop_AdmitDone \/ Loop_Flush \/ Loop_FlushDone
            \/ \E c \in Clients : \/ Loop_RecvMsg(c) \/ Loop_RecvCtl(c)
                                  \/ Loop_RecvErr(c) \/ Loop_RecvNone(c) \/ Loop_Timeout(c)
PoolNext == \E w \in Workers : Worker_Take(w) \/ Worker_Invoke(w) \/ Worker_Finish(w)
\* client reads (Cl_Rx) are left out of Next: they change nothing the server can see; the trace
\* spec uses them to match the receptions logged by the reference clients
ExtNext == \/ Ext_Send("bc", NoClient)
           \/ \E c \in Clients : Ext_Send("uni", c)
Next == ClientNext \/ LoopNext \/ PoolNext \/ ExtNext \/ Env_Shutdown

Spec == Init /\ [][Next]_vars /\ WF_vars(LoopNext)

(***************************************************************************)
(* Properties.  Each ordering property is a predicate on one client's      *)
(* event sequence and is stated twice: on dseq (dispatch order, _D) and on *)
(* iseq (invocation order, _I).                                            *)
(***************************************************************************)
ConnectOnce(s)            == CountK(s, "C") <= 1
ConnectBeforeMessages(s)  == \A i \in DOMAIN s : s[i].k = "M" => \E j \in 1..(i - 1) : s[j].k = "C"
\* the data messages appear exactly once each, in the order the client sent them (ids 1, 2, 3 ...)
MessageOncePerClientOrder(s) ==
  LET ms == SelectSeq(s, LAMBDA e : e.k = "M") IN \A i \in DOMAIN ms : ms[i].m = i
DisconnectOnce(s)         == CountK(s, "D") <= 1
NothingAfterDisconnect(s) == \A i \in DOMAIN s : s[i].k = "D" => i = Len(s)

ConnectOnce_D            == \A c \in Clients : ConnectOnce(dseq[c])
ConnectBeforeMessages_D  == \A c \in Clients : ConnectBeforeMessages(dseq[c])
MessageOncePerClientOrder_D == \A c \in Clients : /\ MessageOncePerClientOrder(dseq[c])
                                                  /\ CountK(dseq[c], "M") <= sent[c]
DisconnectOnce_D         == \A c \in Clients : DisconnectOnce(dseq[c])
NothingAfterDisconnect_D == \A c \in Clients : NothingAfterDisconnect(dseq[c])

ConnectOnce_I            == \A c \in Clients : ConnectOnce(iseq[c])
ConnectBeforeMessages_I  == \A c \in Clients : ConnectBeforeMessages(iseq[c])
MessageOncePerClientOrder_I == \A c \in Clients : MessageOncePerClientOrder(iseq[c])
DisconnectOnce_I         == \A c \in Clients : DisconnectOnce(iseq[c])
NothingAfterDisconnect_I == \A c \in Clients : NothingAfterDisconnect(iseq[c])
\* a handler is only ever invoked for something that was dispatched, at most once
InvokedWasDispatched     == \A c \in Clients : \A i \in DOMAIN iseq[c] :
                               /\ \E j \in DOMAIN dseq[c] : dseq[c][j] = iseq[c][i]
                               /\ \A i2 \in DOMAIN iseq[c] : iseq[c][i2] = iseq[c][i] => i2 = i

\* "exactly once per accepted client" / "exactly once per closed client" (the at-least-once halves)
AcceptedIsConnected  == \A c \in admitted : CountK(dseq[c], "C") = 1
RemovedIsDisconnected == \A c \in admitted : c \notin streams => CountK(dseq[c], "D") = 1
\* no disconnect for a client that is neither closed, gone, nor timed out by the heartbeat
DisconnectOnlyIfClosed == \A c \in Clients : Has(dseq[c], "D") => (cst[c] # "open" \/ c \in tmo)
\* ... and the heartbeat reaps only clients that left a Ping unanswered (or are closed / gone anyway)
DisconnectOnlyIfClosedOrSilent == DisconnectOnlyIfClosed /\ tmoBad = {}
\* a client that sent a Close frame and was disconnected for it had every message it sent before dispatched
\* first (also when messages and Close arrive in one write, within one poll interval)
ClosedAfterAllMessages == \A c \in Clients : (cst[c] = "closed" /\ Has(dseq[c], "D") /\ c \notin tmo)
                                                 => CountK(dseq[c], "M") = sent[c]
\* nothing is dispatched for a client that was never inserted
OnlyAdmittedDispatched == \A c \in Clients : dseq[c] # <<>> => c \in admitted

\* A unicast reaches only its addressee (at most once; exactly once when the addressee is present)
UnicastOnlyAddressee ==
  /\ \A c \in Clients : \A i \in DOMAIN sentTo[c] : sentTo[c][i].k = "uni" => sentTo[c][i].to = c
  /\ \A f \in flog : f.msg.k = "uni" =>
        \A c \in Clients : CountMsg(sentTo[c], f.msg) = IF c \in f.to THEN 1 ELSE 0
\* A broadcast reaches every client connected at the moment it is flushed, exactly once
BroadcastExactlyCurrentMembers ==
  \A f \in flog : f.msg.k = "bc" =>
        \A c \in Clients : CountMsg(sentTo[c], f.msg) = IF c \in f.to THEN 1 ELSE 0
\* what was written to a stream is the whole message
FlushedCompletely == \A c \in Clients : \A i \in DOMAIN sentTo[c] : sentTo[c][i].k \in {"uni", "bc"}
\* everything a client was sent went through a flush
NothingUnflushed == \A c \in Clients : \A i \in DOMAIN sentTo[c] : \E f \in flog : f.msg = sentTo[c][i]

\* after a shutdown signalled at a quiescent moment everything was delivered exactly once
QuiescentComplete ==
  (ShutdownMode = "quiescent" /\ lpc = "done") =>
     \A c \in admitted :
        /\ iseq[c] = dseq[c]
        /\ (c \notin tmo /\ ~Gone(c)) =>
              /\ CountK(dseq[c], "M") = sent[c]
              /\ (cst[c] = "closed" <=> Has(dseq[c], "D"))

TypeOK ==
  /\ cst \in [Clients -> {"new", "open", "closed", "gone_fin", "gone_rst"}]
  /\ streams \subseteq Clients /\ pending \subseteq Clients /\ admitted \subseteq Clients
  /\ lpc \in {"top", "poll", "admit", "flush", "done"}
  /\ cur \in Clients \cup {NoClient} /\ keys \subseteq Clients
  /\ wst \in [Workers -> {"idle", "taken", "run"}]
  /\ shut \in {"no", "sent", "seen"}
  /\ \A c \in Clients : rxn[c] <= Len(sentTo[c])
\* the stream being drained is in the map (`streams.get_mut(&addr).unwrap()` cannot panic)
CurInStreams == (lpc = "poll" /\ cur # NoClient) => (cur \in streams \/ "DoubleDisconnect" \in Dev)

DispatchInvs == /\ ConnectOnce_D /\ ConnectBeforeMessages_D /\ MessageOncePerClientOrder_D
                /\ DisconnectOnce_D /\ NothingAfterDisconnect_D
                /\ AcceptedIsConnected /\ RemovedIsDisconnected /\ DisconnectOnlyIfClosedOrSilent
                /\ OnlyAdmittedDispatched /\ ClosedAfterAllMessages
InvocationInvs == /\ ConnectOnce_I /\ ConnectBeforeMessages_I /\ MessageOncePerClientOrder_I
                  /\ DisconnectOnce_I /\ NothingAfterDisconnect_I /\ InvokedWasDispatched
DeliveryInvs == UnicastOnlyAddressee /\ BroadcastExactlyCurrentMembers /\ NothingUnflushed /\ FlushedCompletely

\* liveness: a shutdown signal makes run() return
ShutdownEndsRun == (shut = "sent") ~> (lpc = "done")
=============================================================================
