\* shortest behaviour of the code as written (pool of 2) in which a message handler starts before the
\* connect handler of the same client; TLC MUST report InversionWitness violated
CONSTANTS
  c1 = c1
  c2 = c2
  c3 = c3
  w1 = w1
  w2 = w2
  w3 = w3
  Clients = {1}
  MaxMsgs = 1
  MaxPings = 0
  Workers = {1, 2}
  Heartbeat = FALSE
  Reply <- ReplyUni
  ExtScript <- ExtNone
  Mode = "lockstep"
  ShutdownMode = "any"
  Dev = {"InvocationInversion"}
  MinLen = 0
INIT GenInit
NEXT GenNext
INVARIANTS GenInvs InversionWitness
CHECK_DEADLOCK FALSE
