CONSTANTS
  c1 = c1
  c2 = c2
  c3 = c3
  w1 = w1
  w2 = w2
  w3 = w3
  Clients <- CS2
  MaxMsgs = 2
  MaxPings = 1
  Workers <- WS2
  Heartbeat = FALSE
  Reply <- ReplyChat
  ExtScript <- ExtBoth
  Mode = "lockstep"
  ShutdownMode = "any"
  Dev = {"InvocationInversion"}
INIT Init
NEXT Next
SYMMETRY Sym
VIEW MCView
INVARIANTS TypeOK CurInStreams DispatchInvs DeliveryInvs
CHECK_DEADLOCK FALSE
