\* thorough: 3 clients that connect / close / vanish (no messages), one worker, greeting unicast + departure broadcast: membership changes with three members
CONSTANTS
  c1 = c1
  c2 = c2
  c3 = c3
  w1 = w1
  w2 = w2
  w3 = w3
  Clients <- CS3
  MaxMsgs = 0
  MaxPings = 0
  Workers <- WS1
  Heartbeat = FALSE
  Reply <- ReplyChat
  ExtScript <- ExtNone
  Mode = "free"
  ShutdownMode = "any"
  Dev = {}
INIT Init
NEXT Next
SYMMETRY Sym
VIEW MCView
INVARIANTS TypeOK CurInStreams DispatchInvs InvocationInvs DeliveryInvs QuiescentComplete
CHECK_DEADLOCK FALSE
