\* quick: the lock-step sub-behaviours used for generation satisfy the same properties (pool as written, dispatch level)
CONSTANTS
  c1 = c1
  c2 = c2
  c3 = c3
  w1 = w1
  w2 = w2
  w3 = w3
  Clients <- CS1
  MaxMsgs = 2
  MaxPings = 0
  Workers <- WS2
  Heartbeat = FALSE
  Reply <- ReplyChat
  ExtScript <- ExtNone
  Mode = "lockstep"
  ShutdownMode = "any"
  Dev = {"InvocationInversion"}
INIT Init
NEXT Next
SYMMETRY Sym
VIEW MCView
INVARIANTS TypeOK CurInStreams DispatchInvs DeliveryInvs
CHECK_DEADLOCK FALSE
