\* sensitivity (plausible bug): a handler's broadcast is not written to the originating client
CONSTANTS
  c1 = c1
  c2 = c2
  c3 = c3
  w1 = w1
  w2 = w2
  w3 = w3
  Clients <- CS1
  MaxMsgs = 1
  MaxPings = 0
  Workers <- WS1
  Heartbeat = FALSE
  Reply <- ReplyBc
  ExtScript <- ExtNone
  Mode = "free"
  ShutdownMode = "any"
  Dev = {"BroadcastSkipsSender"}
INIT Init
NEXT Next
VIEW MCView
INVARIANTS DeliveryInvs
CHECK_DEADLOCK FALSE
