\* sensitivity (seeded change C12-active-client-never-pinged): no heartbeat ping for a stream that delivered a message in the same iteration; a client that talks in every ping round is reaped although it answered every ping it got
CONSTANTS
  c1 = c1
  c2 = c2
  c3 = c3
  w1 = w1
  w2 = w2
  w3 = w3
  Clients <- CS1
  MaxMsgs = 2
  MaxPings = 0
  Workers <- WS1
  Heartbeat = TRUE
  Reply <- ReplyNone
  ExtScript <- ExtNone
  Mode = "free"
  ShutdownMode = "any"
  Dev = {"PingSkippedWhenActive"}
INIT Init
NEXT Next
VIEW MCView
INVARIANTS DispatchInvs
CHECK_DEADLOCK FALSE
