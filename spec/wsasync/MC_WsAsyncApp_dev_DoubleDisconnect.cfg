\* sensitivity (plausible bug): the error path forgets streams.remove; the heartbeat path disconnects again
CONSTANTS
  c1 = c1
  c2 = c2
  c3 = c3
  w1 = w1
  w2 = w2
  w3 = w3
  Clients <- CS1
  MaxMsgs = 1
  MaxPings = 0
  Workers <- WS1
  Heartbeat = TRUE
  Reply <- ReplyNone
  ExtScript <- ExtNone
  Mode = "free"
  ShutdownMode = "any"
  Dev = {"DoubleDisconnect"}
INIT Init
NEXT Next
VIEW MCView
INVARIANTS DispatchInvs
CHECK_DEADLOCK FALSE
