\* random behaviours (TLC -simulate) of the repaired pool (a subset of what the code as written can do; handlers of one client do not overlap): 3 clients x <= 2 messages, pool of 2,
\* connect greets (unicast), message and disconnect handlers broadcast, external sender: unicast + broadcast
CONSTANTS
  c1 = c1
  c2 = c2
  c3 = c3
  w1 = w1
  w2 = w2
  w3 = w3
  Clients = {1, 2, 3}
  MaxMsgs = 2
  MaxPings = 1
  Workers = {1, 2}
  Heartbeat = FALSE
  Reply <- ReplyChat
  ExtScript <- ExtBoth
  Mode = "lockstep"
  ShutdownMode = "any"
  Dev = {}
  MinLen = 45
INIT GenInit
NEXT GenNext
INVARIANTS GenInvs GenPrint
CHECK_DEADLOCK FALSE
