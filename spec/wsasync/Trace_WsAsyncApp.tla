--------------------------- MODULE Trace_WsAsyncApp ---------------------------
(* Code -> spec direction for C12.  The harness records, through one mutex with a global sequence
   number, what the real AsyncWebsocketApp did:

     loop thread (hook call sites in async_app.rs): Loop_Admit, Loop_RecvMsg, Loop_RecvErr, Loop_Timeout,
         Loop_Remove, Loop_FlushUni, Loop_FlushBc, Loop_Shutdown, Exit
     pool threads (the harness' handlers):          Invoke, H_Send, H_Done
     reference clients:                             C_Connect, C_Send, C_Ping, C_Close, C_Vanish  (logged
                                                    BEFORE the bytes are written), C_Rx (after a frame was parsed)
     external AsyncSender / driver:                 X_Send, X_Shutdown, End
     Reset starts a new run (several runs are concatenated to amortise the JVM start).

   Every record must be explained by the corresponding action of WsAsyncApp (same *Pre / *Eff operators
   as the model-checked actions) with the logged fields bound to the action's parameters.  The phases
   of the loop iteration are not logged and not constrained here (only what the property names is
   compared; the phase order is checked by the lock-step replay of TLC behaviours).  Two kinds of
   steps are not logged and are taken eagerly, which loses nothing because nobody can observe when
   exactly they happen:
     - pool threads dequeue tasks: folded into the Invoke record (see PoolOrder below);
     - recv_nonblocking swallows a client Ping.
   Named leniencies - what the statement of C12 leaves open is accepted either way, so that a tree which
   changes only that is not flagged:
     PoolOrder    the pool need not be one global FIFO and its threads are anonymous: a task may be dequeued
                  when no task of the same client is queued ahead of it (per-client order is what the statement
                  demands; per-client queues, key-affine workers and one pool task per batch of a client's
                  messages are explained as well); only a pool of one thread cannot let a later task overtake.
                  The `w` of a record is a slot the harness hands out for the duration of one handler call.
     FlushAtShutdown  between noticing the shutdown signal (Loop_Shutdown) and the return of run() the loop may
                  still flush queued messages (a graceful shutdown); it may not dispatch anything any more.
     FlushOrder   queued outgoing messages may be flushed in any order (the statement demands who gets a
                  message and how often, not the order among different messages)
     LateRemoval  after a disconnect was dispatched for a stream the loop may take the stream out of its table
                  later (Loop_Remove need not follow at once); until then a flush may or may not still write
                  to that stream.  Nothing may be DISPATCHED for it any more.
   The phases of one loop iteration, the moment of the heartbeat ping and the worker a task runs on are not
   constrained at all.
   With that the replay is deterministic: one successor per state.  A record that cannot be explained,
   or a property of WsAsyncApp that is false after a record, rejects the run: the run is noted in
   `bad` and skipped.  With Dev = {} a handler start that overtakes an earlier-dispatched task of the
   same client is inexplicable (InvokeGuard); with Dev = {"InvocationInversion"} it is explained and
   the invocation-level properties are not evaluated - the driver uses the pair of verdicts to
   attribute exactly that pattern. *)
EXTENDS WsAsyncApp, Json, IOUtils

Rec == ndJsonDeserialize(IOEnv.TRACE)
N == Len(Rec)

VARIABLES i,      \* index of the next record
          run,    \* id of the current run
          hb,     \* the run has a heartbeat configured
          rmp,    \* clients whose disconnect was dispatched and whose Loop_Remove record has not come yet
          qs,     \* the shutdown was signalled at a quiescent moment
          lastc,  \* client whose histories changed in the last step
          limbo,  \* tasks a pool thread has dequeued but whose handler has not started yet
          nwk,    \* pool size of the run
          rend,   \* index of the Reset record that ends the current run (N + 1 for the last run)
          bad     \* rejected runs

tvars == <<i, run, hb, rmp, qs, lastc, limbo, nwk, rend, bad>>

Idx == [j \in 1..N |-> j]
ResetSeq == SelectSeq(Idx, LAMBDA j : Rec[j].ev = "Reset")
\* index of the first Reset record after position p (N + 1 if none)
NextReset(p) == LET S == {k \in DOMAIN ResetSeq : ResetSeq[k] > p}
                IN IF S = {} THEN N + 1 ELSE ResetSeq[CHOOSE k \in S : \A k2 \in S : k <= k2]
e == Rec[i]
TrReply == [k \in {"C", "M", "D"} |-> "none"]      \* unused here: handler sends are logged records
TrExt == <<>>
MsgOf(r) == Msg(r.k, r.to, r.src, r.sc, r.m, r.j)
ToSet(s) == {s[x] : x \in DOMAIN s}

TInit == /\ Init
         /\ i = 1 /\ run = 0 /\ hb = FALSE /\ rmp = {} /\ qs = FALSE /\ lastc = NoClient
         /\ limbo = {} /\ nwk = 0 /\ rend = NextReset(1) /\ bad = <<>>

ResetAll ==
  /\ cst' = [c \in Clients |-> "new"] /\ sent' = [c \in Clients |-> 0] /\ pings' = [c \in Clients |-> 0]
  /\ net' = [c \in Clients |-> <<>>] /\ pending' = {} /\ incoming' = <<>> /\ streams' = {}
  /\ lpc' = "top" /\ keys' = {} /\ cur' = NoClient
  /\ q' = <<>> /\ wst' = [w \in Workers |-> "idle"] /\ wtask' = [w \in Workers |-> NoTask]
  /\ outgoing' = <<>> /\ ext' = 1 /\ shut' = "no"
  /\ sentTo' = [c \in Clients |-> <<>>] /\ rxn' = [c \in Clients |-> 0]
  /\ dseq' = [c \in Clients |-> <<>>] /\ iseq' = [c \in Clients |-> <<>>]
  /\ admitted' = {} /\ tmo' = {} /\ flog' = {}
  /\ UNCHANGED hbvars       \* ping rounds are not replayed here: see the Loop_Timeout guard

\* ---- properties evaluated after every record (only for the client whose history changed) --------
HardNames == {"ConnectOnce_D", "ConnectBeforeMessages_D", "MessageOncePerClientOrder_D", "DisconnectOnce_D",
              "NothingAfterDisconnect_D", "AcceptedIsConnected", "RemovedIsDisconnected",
              "DisconnectOnlyIfClosed", "OnlyAdmittedDispatched", "InvokedWasDispatched",
              "ClosedAfterAllMessages"}
InvNames == {"ConnectOnce_I", "ConnectBeforeMessages_I", "MessageOncePerClientOrder_I", "DisconnectOnce_I",
             "NothingAfterDisconnect_I"}
Holds(n, c) ==
  CASE n = "ConnectOnce_D" -> ConnectOnce(dseq[c])
    [] n = "ConnectBeforeMessages_D" -> ConnectBeforeMessages(dseq[c])
    [] n = "MessageOncePerClientOrder_D" -> MessageOncePerClientOrder(dseq[c]) /\ CountK(dseq[c], "M") <= sent[c]
    [] n = "DisconnectOnce_D" -> DisconnectOnce(dseq[c])
    [] n = "NothingAfterDisconnect_D" -> NothingAfterDisconnect(dseq[c])
    [] n = "AcceptedIsConnected" -> (c \in admitted => CountK(dseq[c], "C") = 1)
    [] n = "RemovedIsDisconnected" -> ((c \in admitted /\ c \notin streams) => CountK(dseq[c], "D") = 1)
    [] n = "DisconnectOnlyIfClosed" -> (Has(dseq[c], "D") => (cst[c] # "open" \/ c \in tmo))
    [] n = "OnlyAdmittedDispatched" -> (dseq[c] # <<>> => c \in admitted)
    [] n = "ClosedAfterAllMessages" -> ((cst[c] = "closed" /\ Has(dseq[c], "D") /\ c \notin tmo) => CountK(dseq[c], "M") = sent[c])
    \* every prefix was checked after the record that produced it: only the newest start is looked at
    [] n = "InvokedWasDispatched" ->
          (iseq[c] # <<>> =>
             LET x == Len(iseq[c]) IN /\ \E y \in DOMAIN dseq[c] : dseq[c][y] = iseq[c][x]
                                      /\ \A x2 \in 1..(x - 1) : iseq[c][x2] # iseq[c][x])
    [] n = "ConnectOnce_I" -> ConnectOnce(iseq[c])
    [] n = "ConnectBeforeMessages_I" -> ConnectBeforeMessages(iseq[c])
    [] n = "MessageOncePerClientOrder_I" -> MessageOncePerClientOrder(iseq[c])
    [] n = "DisconnectOnce_I" -> DisconnectOnce(iseq[c])
    [] n = "NothingAfterDisconnect_I" -> NothingAfterDisconnect(iseq[c])
CheckedNames == IF "InvocationInversion" \in Dev THEN HardNames ELSE HardNames \cup InvNames
Violated == IF lastc = NoClient THEN {} ELSE {n \in CheckedNames : ~Holds(n, lastc)}

\* sequence s without its element at position p
Without(s, p) == [x \in 1..(Len(s) - 1) |-> IF x < p THEN s[x] ELSE s[x + 1]]
PosOf(s, x) == CHOOSE p \in DOMAIN s : s[p] = x
\* ---- unlogged steps, taken eagerly -----------------------------------------------------------
\* (a silent step changes no history: nothing to re-check after it)
SilentT == lastc' = NoClient /\ UNCHANGED <<i, run, hb, rmp, qs, limbo, nwk, rend, bad>>
SilentCtl(c)  == RecvCtlPre(c) /\ RecvCtlEff(c) /\ UNCHANGED loopvars /\ UNCHANGED hbvars /\ SilentT
SilentEnabled == \E c \in Clients : RecvCtlPre(c)
Silent == \E c \in Clients : SilentCtl(c)

IsC(x) == x \in Clients
IsW(x) == x \in Workers
\* ---- the pool (leniency PoolOrder) -------------------------------------------------------------
\* The handler of task t can start now when t was dequeued earlier (limbo) or is still queued; in the latter
\* case every task of the same client queued ahead of it was dequeued before it (per-client FIFO) by threads
\* that have not started their handler yet (or that run several tasks of one client as one batch).  A pool of
\* ONE thread cannot hold a task back while it runs another one: there nothing may overtake.
Same(t, r) == t.k = r.k /\ t.c = r.c /\ t.m = r.m
QPos(r) == {p \in DOMAIN q : Same(q[p], r)}
Ahead(r) == IF QPos(r) = {} THEN {}
            ELSE LET p == CHOOSE x \in QPos(r) : TRUE IN {p2 \in 1..(p - 1) : q[p2].c = r.c}
TaskOf(r) == IF \E t \in limbo : Same(t, r) THEN CHOOSE t \in limbo : Same(t, r)
             ELSE q[CHOOSE x \in QPos(r) : TRUE]
Running == Cardinality({w \in Workers : wst[w] = "run"})
LimboAfter(r) == (limbo \cup {q[p] : p \in Ahead(r)}) \ {TaskOf(r)}
StartPre(r) ==
  /\ IsW(r.w) /\ wst[r.w] = "idle" /\ r.sc = r.c /\ IsC(r.c)
  /\ ((\E t \in limbo : Same(t, r)) \/ QPos(r) # {})
  /\ (nwk >= 2 \/ LimboAfter(r) = {})
  /\ ("InvocationInversion" \in Dev \/ Len(iseq[r.c]) + 1 = TaskOf(r).n)
QAfter(r) == LET drop == Ahead(r) \cup QPos(r) IN
             SelectSeq([p \in DOMAIN q |-> [t |-> q[p], keep |-> p \notin drop]], LAMBDA x : x.keep)
StartEff(r) ==
  /\ q' = [p \in DOMAIN QAfter(r) |-> QAfter(r)[p].t]
  /\ wtask' = [wtask EXCEPT ![r.w] = TaskOf(r)] /\ wst' = [wst EXCEPT ![r.w] = "run"]
  /\ iseq' = [iseq EXCEPT ![r.c] = Append(@, Ev(r.k, r.m))]
  /\ UNCHANGED <<cst, sent, pings, net, pending, incoming, streams, outgoing, ext, shut,
                 sentTo, rxn, dseq, admitted, tmo, flog>>

\* ---- one guard and one effect per record kind ---------------------------------------------------
LoopOK == lpc # "done"
\* flushing is possible until run() has returned (record Exit, which sets shut to "exited")
FlushOK == shut # "exited"
UNL == UNCHANGED loopvars

QuiescentNow ==
  /\ pending = {} /\ incoming = <<>> /\ outgoing = <<>> /\ q = <<>> /\ WorkersIdle
  /\ \A c \in streams : net[c] = <<>> /\ cst[c] = "open"
  /\ \A c \in Clients : cst[c] = "closed" => c \notin pending

\* every admitted client that neither vanished nor timed out had all its messages dispatched, a
\* disconnect iff it closed, and every dispatched event was invoked
CompleteAtEnd ==
  \A c \in admitted :
     /\ iseq[c] = dseq[c] \/ "InvocationInversion" \in Dev
     /\ Len(iseq[c]) = Len(dseq[c])
     /\ (qs /\ c \notin tmo /\ ~Gone(c)) =>
           /\ CountK(dseq[c], "M") = sent[c]
           /\ (cst[c] = "closed" <=> Has(dseq[c], "D"))
\* clients that read up to EOF on a connection the server closed in an orderly way saw every frame
MustHaveAll(c) == \/ (cst[c] = "closed" /\ c \in admitted /\ c \notin streams /\ c \notin tmo)
                  \/ (cst[c] = "open" /\ ~hb /\ qs)
ReceivedAll == \A c \in Clients : MustHaveAll(c) => rxn[c] = Len(sentTo[c])

Guard ==
  CASE e.ev = "C_Connect"  -> IsC(e.c) /\ ConnectPre(e.c)
    [] e.ev = "C_Send"     -> IsC(e.c) /\ SendPre(e.c) /\ e.m = sent[e.c] + 1
    [] e.ev = "C_Ping"     -> IsC(e.c) /\ PingPre(e.c)
    [] e.ev = "C_Pong"     -> IsC(e.c) /\ cst[e.c] = "open"
    [] e.ev = "C_Close"    -> IsC(e.c) /\ ClosePre(e.c)
    [] e.ev = "C_Vanish"   -> IsC(e.c) /\ VanishPre(e.c, e.k)
    [] e.ev = "C_Rx"       -> IsC(e.c) /\ RxPre(e.c) /\ sentTo[e.c][rxn[e.c] + 1] = MsgOf(e)
    [] e.ev = "X_Send"     -> /\ e.src = "X" /\ e.sc = NoClient /\ e.m = ext /\ e.j = 1
                              /\ IF e.k = "uni" THEN IsC(e.to) ELSE e.k = "bc" /\ e.to = NoClient
    [] e.ev = "X_Shutdown" -> shut = "no"
    [] e.ev = "Invoke"     -> StartPre(e)
    [] e.ev = "H_Send"     -> /\ IsW(e.w) /\ e.k \in {"uni", "bc"} /\ HSendPre(e.w, e.k)
                              /\ MsgOf(e) = Msg(e.k, IF e.k = "uni" THEN wtask[e.w].c ELSE NoClient,
                                                wtask[e.w].k, wtask[e.w].c, wtask[e.w].m, e.j)
    [] e.ev = "H_Done"     -> IsW(e.w) /\ HDonePre(e.w)
    [] e.ev = "Loop_Admit" -> LoopOK /\ IsC(e.c) /\ e.c \in pending /\ e.c \notin streams
    [] e.ev = "Loop_RecvMsg" -> LoopOK /\ IsC(e.c) /\ RecvMsgPre(e.c) /\ Head(net[e.c]).m = e.m /\ e.sc = e.c
    [] e.ev = "Loop_RecvErr" -> LoopOK /\ IsC(e.c) /\ RecvErrPre(e.c)
    \* The heartbeat may reap a stream whose client is closed or gone, or - record field n = 1 - when the
    \* harness measured a stall of the loop or of that client's reader long enough for a Pong to be late
    \* (2 * longest loop gap + longest reader gap >= 3/4 (timeout - interval)).  A client that is open, answers
    \* every Ping at once (C_Pong records) and is polled by a loop that keeps iterating cannot time out:
    \* pings leave every <= interval + gap, so a Pong is read within interval + 2 gaps + reader delay < timeout.
    [] e.ev = "Loop_Timeout" -> /\ LoopOK /\ IsC(e.c) /\ hb /\ e.c \in streams
                                /\ (cst[e.c] # "open" \/ e.n = 1)
    [] e.ev = "Loop_Remove"  -> e.c \in rmp
    \* (leniencies FlushOrder and LateRemoval, see the head of the module)
    [] e.ev = "Loop_FlushUni" -> /\ FlushOK /\ (\E p \in DOMAIN outgoing : outgoing[p] = MsgOf(e)) /\ e.k = "uni"
                                 /\ e.c = e.to /\ Len(e.lst) <= 1
                                 /\ \/ ToSet(e.lst) = (IF e.to \in streams THEN {e.to} ELSE {})
                                    \/ (e.to \in rmp /\ ToSet(e.lst) = {e.to})
    [] e.ev = "Loop_FlushBc"  -> /\ FlushOK /\ (\E p \in DOMAIN outgoing : outgoing[p] = MsgOf(e)) /\ e.k = "bc"
                                 /\ streams \subseteq ToSet(e.lst) /\ ToSet(e.lst) \subseteq streams \cup rmp
                                 /\ Len(e.lst) = Cardinality(ToSet(e.lst))
    [] e.ev = "Loop_Shutdown" -> LoopOK /\ lpc = "top" /\ shut = "sent"
    [] e.ev = "Exit"       -> lpc = "done" /\ shut = "seen"
    \* e.n: clients that vanished, were written to afterwards (which makes the kernel report the dead socket)
    \* and were still not disconnected when the harness gave up waiting (10 s) before the shutdown
    [] e.ev = "End"        -> /\ lpc = "done" /\ e.m = 0 /\ e.n = 0 /\ q = <<>> /\ limbo = {} /\ WorkersIdle
                              /\ CompleteAtEnd /\ ReceivedAll
    [] OTHER -> FALSE

TouchedClient ==
  CASE e.ev \in {"Loop_Admit", "Loop_RecvMsg", "Loop_RecvErr", "Loop_Timeout", "Invoke",
                 "C_Close", "C_Vanish"} -> e.c
    [] OTHER -> NoClient

Effect ==
  CASE e.ev = "C_Connect"  -> ConnectEff(e.c) /\ UNL /\ UNCHANGED <<rmp, qs>>
    [] e.ev = "C_Send"     -> SendEff(e.c) /\ UNL /\ UNCHANGED <<rmp, qs>>
    [] e.ev = "C_Ping"     -> PingEff(e.c) /\ UNL /\ UNCHANGED <<rmp, qs>>
    [] e.ev = "C_Pong"     -> /\ net' = [net EXCEPT ![e.c] = Append(@, Frame("pong", 0))]
                              /\ UNCHANGED <<cst, sent, pings, pending, incoming, streams, q, wst, wtask, outgoing, ext,
                                             shut, sentTo, rxn, dseq, iseq, admitted, tmo, flog>>
                              /\ UNL /\ UNCHANGED <<rmp, qs>>
    [] e.ev = "C_Close"    -> CloseEff(e.c) /\ UNL /\ UNCHANGED <<rmp, qs>>
    [] e.ev = "C_Vanish"   -> VanishEff(e.c, e.k) /\ UNL /\ UNCHANGED <<rmp, qs>>
    [] e.ev = "C_Rx"       -> RxEff(e.c) /\ UNL /\ UNCHANGED <<rmp, qs>>
    [] e.ev = "X_Send"     -> /\ OutSendEff(MsgOf(e)) /\ ext' = ext + 1
                              /\ UNCHANGED <<cst, sent, pings, net, pending, incoming, streams, q, wst, wtask, shut,
                                             sentTo, rxn, dseq, iseq, admitted, tmo, flog>>
                              /\ UNL /\ UNCHANGED <<rmp, qs>>
    [] e.ev = "X_Shutdown" -> /\ shut' = "sent" /\ qs' = QuiescentNow
                              /\ UNCHANGED <<cst, sent, pings, net, pending, incoming, streams, q, wst, wtask,
                                             outgoing, ext, sentTo, rxn, dseq, iseq, admitted, tmo, flog>>
                              /\ UNL /\ UNCHANGED rmp
    [] e.ev = "Invoke"     -> StartEff(e) /\ UNL /\ UNCHANGED <<rmp, qs>>
    [] e.ev = "H_Send"     -> HSendEff(e.w, e.k, e.j) /\ UNL /\ UNCHANGED <<rmp, qs>>
    [] e.ev = "H_Done"     -> HDoneEff(e.w) /\ UNL /\ UNCHANGED <<rmp, qs>>
    [] e.ev = "Loop_Admit" -> /\ pending' = pending \ {e.c} /\ AdmitEff(e.c)
                              /\ UNCHANGED <<cst, sent, pings, net, incoming, wst, wtask, outgoing, ext, shut,
                                             sentTo, rxn, iseq, tmo, flog>>
                              /\ UNL /\ UNCHANGED <<rmp, qs>>
    [] e.ev = "Loop_RecvMsg" -> RecvMsgEff(e.c) /\ UNL /\ UNCHANGED <<rmp, qs>>
    [] e.ev = "Loop_RecvErr" -> RecvErrEff(e.c) /\ rmp' = rmp \cup {e.c} /\ UNL /\ UNCHANGED qs
    [] e.ev = "Loop_Timeout" -> TimeoutEff(e.c) /\ rmp' = rmp \cup {e.c} /\ UNL /\ UNCHANGED qs
    [] e.ev = "Loop_Remove"  -> rmp' = rmp \ {e.c} /\ UNCHANGED vars /\ UNCHANGED qs
    [] e.ev = "Loop_FlushUni" -> /\ outgoing' = Without(outgoing, PosOf(outgoing, MsgOf(e)))
                                 /\ WriteTo(ToSet(e.lst), MsgOf(e))
                                 /\ flog' = flog \cup {[msg |-> MsgOf(e), to |-> ToSet(e.lst)]}
                                 /\ UNCHANGED <<cst, sent, pings, net, pending, incoming, streams, q, wst, wtask,
                                                ext, shut, rxn, dseq, iseq, admitted, tmo>>
                                 /\ UNL /\ UNCHANGED <<rmp, qs>>
    [] e.ev = "Loop_FlushBc"  -> /\ outgoing' = Without(outgoing, PosOf(outgoing, MsgOf(e)))
                                 /\ WriteTo(ToSet(e.lst), MsgOf(e))
                                 /\ flog' = flog \cup {[msg |-> MsgOf(e), to |-> ToSet(e.lst)]}
                                 /\ UNCHANGED <<cst, sent, pings, net, pending, incoming, streams, q, wst, wtask,
                                                ext, shut, rxn, dseq, iseq, admitted, tmo>>
                                 /\ UNL /\ UNCHANGED <<rmp, qs>>
    [] e.ev = "Loop_Shutdown" -> /\ lpc' = "done" /\ shut' = "seen"
                                 /\ UNCHANGED <<cst, sent, pings, net, pending, incoming, streams, keys, cur, q, wst, wtask,
                                                outgoing, ext, sentTo, rxn, dseq, iseq, admitted, tmo, flog>>
                                 /\ UNCHANGED <<rmp, qs>>
    [] e.ev = "Exit" -> /\ shut' = "exited"
                        /\ UNCHANGED <<cst, sent, pings, net, pending, incoming, streams, lpc, keys, cur, q, wst, wtask,
                                       outgoing, ext, sentTo, rxn, dseq, iseq, admitted, tmo, flog>>
                        /\ UNCHANGED <<rmp, qs>>
    [] e.ev = "End" -> UNCHANGED vars /\ UNCHANGED <<rmp, qs>>

\* a false property was caused by the record before this one
Reject(why, names) ==
  /\ bad' = Append(bad, IF why = "property"
                        THEN [run |-> run, idx |-> i - 1, why |-> why, inv |-> names, rec |-> Rec[i - 1]]
                        ELSE [run |-> run, idx |-> i, why |-> why, inv |-> names, rec |-> e])
  /\ i' = rend
  /\ lastc' = NoClient
  /\ UNCHANGED vars /\ UNCHANGED <<run, hb, rmp, qs, limbo, nwk, rend>>

DoReset ==
  /\ ResetAll
  /\ run' = e.run /\ hb' = (e.hb = 1) /\ rmp' = {} /\ qs' = FALSE /\ lastc' = NoClient
  /\ limbo' = {} /\ nwk' = e.nw
  /\ rend' = NextReset(i)
  /\ i' = i + 1 /\ UNCHANGED bad

Consume(v) ==
  /\ i <= N
  /\ IF e.ev = "Reset" THEN DoReset
     ELSE IF v # {} THEN Reject("property", v)
     ELSE IF ~Guard THEN Reject("unexplained", {})
     ELSE /\ Effect /\ UNCHANGED hbvars
          /\ i' = i + 1
          /\ lastc' = TouchedClient
          /\ limbo' = (IF e.ev = "Invoke" THEN LimboAfter(e) ELSE limbo)
          /\ UNCHANGED nwk
          /\ UNCHANGED <<run, hb, rend, bad>>

\* the last record of a run may leave a property false: one more step reports it
FinalCheck(v) ==
  /\ i = N + 1 /\ v # {}
  /\ bad' = Append(bad, [run |-> run, idx |-> N, why |-> "property", inv |-> v, rec |-> Rec[N]])
  /\ lastc' = NoClient
  /\ UNCHANGED vars /\ UNCHANGED <<i, run, hb, rmp, qs, limbo, nwk, rend>>

TNext == LET v == Violated IN
         IF i <= N /\ Rec[i].ev # "Reset" /\ v = {} /\ SilentEnabled THEN Silent
         ELSE Consume(v) \/ FinalCheck(v)
TSpec == TInit /\ [][TNext]_<<vars, tvars>>

\* checked at the last state: every record consumed, no run rejected (the rejected runs are printed
\* for the driver, which stores them as the replay file)
AllAccepted == (i = N + 1 /\ Violated = {}) =>
                 \/ bad = <<>>
                 \/ PrintT(ToJson([rejected |-> bad])) /\ FALSE
=============================================================================
