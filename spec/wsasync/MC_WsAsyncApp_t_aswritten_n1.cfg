\* thorough: pool as written, ONE worker, 2 clients x <= 2 messages: every property incl. invocation level
CONSTANTS
  c1 = c1
  c2 = c2
  c3 = c3
  w1 = w1
  w2 = w2
  w3 = w3
  Clients <- CS2
  MaxMsgs = 2
  MaxPings = 0
  Workers <- WS1
  Heartbeat = FALSE
  Reply <- ReplyUni
  ExtScript <- ExtNone
  Mode = "free"
  ShutdownMode = "any"
  Dev = {"InvocationInversion"}
INIT Init
NEXT Next
SYMMETRY Sym
VIEW MCView
INVARIANTS TypeOK CurInStreams DispatchInvs InvocationInvs DeliveryInvs QuiescentComplete
CHECK_DEADLOCK FALSE
