\* sensitivity (plausible bug): the Close frame is acted upon before the data frames that arrived ahead of it in the same poll interval are dispatched
CONSTANTS
  c1 = c1
  c2 = c2
  c3 = c3
  w1 = w1
  w2 = w2
  w3 = w3
  Clients <- CS1
  MaxMsgs = 2
  MaxPings = 0
  Workers <- WS1
  Heartbeat = FALSE
  Reply <- ReplyNone
  ExtScript <- ExtNone
  Mode = "free"
  ShutdownMode = "any"
  Dev = {"CloseOvertakesMessages"}
INIT Init
NEXT Next
VIEW MCView
INVARIANTS DispatchInvs
CHECK_DEADLOCK FALSE
