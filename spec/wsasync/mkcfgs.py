#!/usr/bin/env python3
"""Writes the MC_WsAsyncApp_*.cfg files (kept in the repository; this script only keeps them consistent)."""
HEAD = "CONSTANTS\n" + "".join("  %s = %s\n" % (v, v) for v in ("c1", "c2", "c3", "w1", "w2", "w3"))
ALL = "TypeOK CurInStreams DispatchInvs InvocationInvs DeliveryInvs QuiescentComplete"
HARD = "TypeOK CurInStreams DispatchInvs DeliveryInvs"
II = '{"InvocationInversion"}'


def cfg(name, comment, clients, workers, msgs, pings, hb, reply, ext, dev="{}", mode="free", shut="any",
        inv=ALL, sym=True, live=False):
    s = "\\* " + comment + "\n" + HEAD
    s += "  Clients <- %s\n  MaxMsgs = %d\n  MaxPings = %d\n  Workers <- %s\n  Heartbeat = %s\n" % (clients, msgs, pings, workers, hb)
    s += "  Reply <- %s\n  ExtScript <- %s\n  Mode = \"%s\"\n  ShutdownMode = \"%s\"\n  Dev = %s\n" % (reply, ext, mode, shut, dev)
    s += "SPECIFICATION Spec\n" if live else "INIT Init\nNEXT Next\n"
    if sym and not live:
        s += "SYMMETRY Sym\n"
    if not live:
        s += "VIEW MCView\n"
    s += "INVARIANTS %s\n" % inv
    if live:
        s += "PROPERTY ShutdownEndsRun\n"
    s += "CHECK_DEADLOCK FALSE\n"
    open("MC_WsAsyncApp_%s.cfg" % name, "w").write(s)


# quick
cfg("quick", "quick: one client, pool of 2, echo replies, external broadcast; repaired pool (Dev = {}): every invariant and the liveness ShutdownEndsRun",
    "CS1", "WS2", 1, 0, "FALSE", "ReplyUni", "ExtBc", live=True)
cfg("hb", "quick: heartbeat on (ping rounds, pongs, timeouts): one client that may talk in every ping round, answer pings or stay silent, close or vanish: only closed / gone / silent clients are reaped (DisconnectOnlyIfClosedOrSilent)",
    "CS1", "WS1", 2, 0, "TRUE", "ReplyNone", "ExtNone")
cfg("t_quick2", "thorough: two clients x 1 message, pool of 2, repaired pool: every invariant",
    "CS2", "WS2", 1, 0, "FALSE", "ReplyNone", "ExtNone")
cfg("aswritten_n1", "quick: the pool as written with ONE worker, broadcast replies: the invocation-level properties hold as well",
    "CS2", "WS1", 1, 0, "FALSE", "ReplyBc", "ExtNone", dev=II)
cfg("aswritten_n2", "quick: the pool as written with TWO workers: dispatch-level and delivery properties hold (the invocation-level ones do not: MC_WsAsyncApp_dev_InvocationInversion.cfg)",
    "CS1", "WS2", 2, 0, "FALSE", "ReplyUni", "ExtNone", dev=II, inv=HARD)
cfg("lockstep", "quick: the lock-step sub-behaviours used for generation satisfy the same properties (pool as written, dispatch level)",
    "CS1", "WS2", 2, 0, "FALSE", "ReplyChat", "ExtNone", dev=II, mode="lockstep", inv=HARD)
cfg("quiescent", "quick: shutdown signalled only at a quiescent moment: everything was dispatched and invoked exactly once (QuiescentComplete)",
    "CS1", "WS2", 2, 1, "FALSE", "ReplyUni", "ExtNone", shut="quiescent")
# sensitivity: each MUST violate
cfg("dev_InvocationInversion", "sensitivity / the open deviation: pool as written, 2 workers: TLC must exhibit a handler start that overtakes an earlier-dispatched task of the same client",
    "CS1", "WS2", 1, 0, "FALSE", "ReplyNone", "ExtNone", dev=II, inv="InvocationInvs", sym=False)
cfg("dev_DoubleDisconnect", "sensitivity (plausible bug): the error path forgets streams.remove; the heartbeat path disconnects again",
    "CS1", "WS1", 1, 0, "TRUE", "ReplyNone", "ExtNone", dev='{"DoubleDisconnect"}', inv="DispatchInvs", sym=False)
cfg("dev_RemoveOnNone", "sensitivity (plausible bug): Restion::None handled like an error",
    "CS1", "WS1", 1, 0, "FALSE", "ReplyNone", "ExtNone", dev='{"RemoveOnNone"}', inv="DispatchInvs", sym=False)
cfg("dev_LateConnect", "sensitivity (plausible bug): connect dispatched only after the first poll of the stream",
    "CS1", "WS1", 1, 0, "FALSE", "ReplyNone", "ExtNone", dev='{"LateConnect"}', inv="DispatchInvs", sym=False)
cfg("dev_BroadcastSkipsSender", "sensitivity (plausible bug): a handler's broadcast is not written to the originating client",
    "CS1", "WS1", 1, 0, "FALSE", "ReplyBc", "ExtNone", dev='{"BroadcastSkipsSender"}', inv="DeliveryInvs", sym=False)
cfg("dev_UnicastToAll", "sensitivity (plausible bug): a unicast is written to every stream",
    "CS2", "WS1", 1, 0, "FALSE", "ReplyUni", "ExtNone", dev='{"UnicastToAll"}', inv="DeliveryInvs", sym=False)
cfg("dev_PingSkippedWhenActive", "sensitivity (seeded change C12-active-client-never-pinged): no heartbeat ping for a stream that delivered a message in the same iteration; a client that talks in every ping round is reaped although it answered every ping it got",
    "CS1", "WS1", 2, 0, "TRUE", "ReplyNone", "ExtNone", dev='{"PingSkippedWhenActive"}', inv="DispatchInvs", sym=False)
cfg("dev_FlushWriteMayTruncate", "sensitivity (seeded change C12-idle-socket-left-nonblocking): a flushed message may reach a receiver only in part: exactly-once delivery to the addressee / every current member fails",
    "CS1", "WS1", 1, 0, "FALSE", "ReplyUni", "ExtNone", dev='{"FlushWriteMayTruncate"}', inv="UnicastOnlyAddressee", sym=False)
cfg("dev_CloseOvertakesMessages", "sensitivity (plausible bug): the Close frame is acted upon before the data frames that arrived ahead of it in the same poll interval are dispatched",
    "CS1", "WS1", 2, 0, "FALSE", "ReplyNone", "ExtNone", dev='{"CloseOvertakesMessages"}', inv="DispatchInvs", sym=False)
cfg("dev_BroadcastAbortsOnDeadPeer", "sensitivity (plausible bug): a broadcast stops at the first dead socket, later members miss it",
    "CS2", "WS1", 0, 0, "FALSE", "ReplyNone", "ExtBc", dev='{"BroadcastAbortsOnDeadPeer"}', inv="DeliveryInvs", sym=False)
# thorough
cfg("t_uni", "thorough: 2 clients x <= 2 messages, pool of 2, echo (unicast) replies, repaired pool",
    "CS2", "WS2", 2, 0, "FALSE", "ReplyUni", "ExtNone")
cfg("t_bc", "thorough: 2 clients x 1 message, pool of 2, broadcast replies + external unicast, repaired pool",
    "CS2", "WS2", 1, 0, "FALSE", "ReplyBc", "ExtUni")
cfg("t_hb", "thorough: 2 clients (connect, answer pings or not, close, vanish; no messages), one worker, heartbeat on: ping rounds, pongs (timeouts of live and dead streams, dropped sockets)",
    "CS2", "WS1", 0, 0, "TRUE", "ReplyNone", "ExtNone")
cfg("t_hb1", "thorough: heartbeat on, one client x <= 2 messages + ping, pool of 2, echo replies: a client that talks in every ping round and answers its pings is never reaped",
    "CS1", "WS2", 2, 1, "TRUE", "ReplyUni", "ExtNone")
cfg("t_aswritten", "thorough: pool as written, 2 clients x 1 message, 2 workers, broadcast replies: dispatch-level and delivery properties",
    "CS2", "WS2", 1, 0, "FALSE", "ReplyBc", "ExtNone", dev=II, inv=HARD)
cfg("t_aswritten_n1", "thorough: pool as written, ONE worker, 2 clients x <= 2 messages: every property incl. invocation level",
    "CS2", "WS1", 2, 0, "FALSE", "ReplyUni", "ExtNone", dev=II)
cfg("t_c3", "thorough: 3 clients that connect / close / vanish (no messages), one worker, greeting unicast + departure broadcast: membership changes with three members",
    "CS3", "WS1", 0, 0, "FALSE", "ReplyChat", "ExtNone")
cfg("t_live", "thorough: liveness ShutdownEndsRun with 2 clients and one worker (no symmetry under liveness)",
    "CS2", "WS1", 1, 0, "FALSE", "ReplyNone", "ExtNone", live=True, inv="TypeOK")
# reachability witnesses: each MUST violate
cfg("reach_ParallelHandlers", "reachability: both workers run a handler at the same time", "CS1", "WS2", 1, 0, "FALSE", "ReplyNone", "ExtNone", dev=II, inv="Reach_ParallelHandlers", sym=False)
cfg("reach_BroadcastToTwo", "reachability: a broadcast is written to two members", "CS2", "WS1", 1, 0, "FALSE", "ReplyBc", "ExtNone", inv="Reach_BroadcastToTwo", sym=False)
cfg("reach_UnicastDropped", "reachability: a unicast whose addressee has left is dropped", "CS1", "WS1", 1, 0, "FALSE", "ReplyUni", "ExtNone", inv="Reach_UnicastDropped", sym=False)
cfg("reach_QuiescentDone", "reachability: a run with a message and a disconnect ends by a quiescent shutdown", "CS1", "WS1", 1, 0, "FALSE", "ReplyNone", "ExtNone", shut="quiescent", inv="Reach_QuiescentDone", sym=False)
cfg("reach_TimeoutLive", "reachability: the heartbeat times out a stream whose client is alive", "CS1", "WS1", 0, 0, "TRUE", "ReplyNone", "ExtNone", inv="Reach_TimeoutLive", sym=False)
cfg("reach_MsgAfterVanish", "reachability: a message of a vanished client is still dispatched before its disconnect", "CS1", "WS1", 1, 0, "TRUE", "ReplyNone", "ExtNone", inv="Reach_MsgAfterVanish", sym=False)
