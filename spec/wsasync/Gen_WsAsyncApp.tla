---------------------------- MODULE Gen_WsAsyncApp ----------------------------
(* Generation of behaviours for the lock-step replay (spec -> code direction of C12).

   With Mode = "lockstep" the environment and the pool only move while the loop is parked at the top
   of an iteration, a loop iteration reads everything that was written, and at most one stream has
   unread input - exactly the sub-behaviours of WsAsyncApp that the harness can force on the real
   AsyncWebsocketApp with its two gates (Loop_Iter, Task_Start) and that do not depend on the iteration
   order of the HashMap.  `hist` records the label and the parameters of every action taken; when the
   run is over (loop returned, pool drained) the behaviour is printed as one JSON line.  The harness
   performs the client / sender / shutdown steps, releases the loop for one iteration per Loop_Begin and
   compares what the real loop did in that iteration (messages dispatched, streams removed, streams
   admitted, messages flushed and to whom) with the Loop_* steps TLC computed; handlers are started
   and finished in the order of the Worker_* steps. *)
EXTENDS MC_WsAsyncApp

CONSTANT MinLen      \* the shutdown is not signalled before this many steps (keeps sampled behaviours interesting)
VARIABLE hist
gvars == <<vars, hist>>

H(r) == hist' = Append(hist, r)
Written == {c \in Clients : Len(sentTo'[c]) > Len(sentTo[c])}

GenInit == Init /\ hist = <<>>
GenNext ==
  \/ \E c \in Clients :
       \/ Cl_Connect(c)        /\ H([a |-> "Cl_Connect", c |-> c])
       \/ Srv_Enqueue(c)       /\ H([a |-> "Srv_Enqueue", c |-> c])
       \/ Cl_Send(c)           /\ H([a |-> "Cl_Send", c |-> c, m |-> sent[c] + 1])
       \/ Cl_Ping(c)           /\ H([a |-> "Cl_Ping", c |-> c])
       \/ Cl_Close(c)          /\ H([a |-> "Cl_Close", c |-> c])
       \/ Cl_Vanish(c, "rst")  /\ H([a |-> "Cl_Vanish", c |-> c, how |-> "rst"])
       \/ Ext_Send("uni", c)   /\ H([a |-> "Ext_Send", k |-> "uni", to |-> c])
       \/ Loop_RecvMsg(c)      /\ H([a |-> "Loop_RecvMsg", c |-> c, m |-> Head(net[c]).m])
       \/ Loop_RecvCtl(c)      /\ H([a |-> "Loop_RecvCtl", c |-> c])
       \/ Loop_RecvErr(c)      /\ H([a |-> "Loop_RecvErr", c |-> c])
       \/ Loop_RecvNone(c)     /\ H([a |-> "Loop_RecvNone", c |-> c])
  \/ Ext_Send("bc", NoClient)  /\ H([a |-> "Ext_Send", k |-> "bc", to |-> NoClient])
  \/ Env_Shutdown /\ Len(hist) >= MinLen /\ H([a |-> "Env_Shutdown"])
  \/ Loop_Shutdown             /\ H([a |-> "Loop_Shutdown"])
  \/ Loop_Begin                /\ H([a |-> "Loop_Begin"])
  \/ Loop_Admit                /\ H([a |-> "Loop_Admit", c |-> Head(incoming)])
  \/ Loop_AdmitDone            /\ H([a |-> "Loop_AdmitDone"])
  \/ Loop_Flush                /\ H([a |-> "Loop_Flush", msg |-> Head(outgoing), to |-> Written])
  \/ Loop_FlushDone            /\ H([a |-> "Loop_FlushDone"])
  \/ \E w \in Workers :
       \/ Worker_Take(w)       /\ H([a |-> "Worker_Take", w |-> w, task |-> Head(q)])
       \/ Worker_Invoke(w)     /\ H([a |-> "Worker_Invoke", w |-> w, task |-> wtask[w]])
       \/ Worker_Finish(w)     /\ H([a |-> "Worker_Finish", w |-> w, task |-> wtask[w]])

GenDone == lpc = "done" /\ q = <<>> /\ WorkersIdle
Inverted == \E c \in Clients : iseq[c] # dseq[c]
Behaviour == [steps |-> hist, nw |-> Cardinality(Workers), reply |-> Reply,
              inverted |-> Inverted, dseq |-> dseq, iseq |-> iseq, sentTo |-> sentTo]

\* simulation: print every behaviour that ran to its end
GenPrint == GenDone => PrintT(ToJson(Behaviour))
\* exhaustive search for the shortest complete behaviour in which a message handler of a client starts
\* before that client's connect handler (worker A dequeues connect(c), worker B dequeues and starts
\* message(c,1) first): TLC stops at the witness and prints it
InvertedCM == \E c \in Clients : ~ConnectBeforeMessages(iseq[c])
InversionWitness == (GenDone /\ InvertedCM) => (PrintT(ToJson(Behaviour)) /\ FALSE)
\* the model's invariants are checked on the generated behaviours as well
GenInvs == TypeOK /\ DispatchInvs /\ DeliveryInvs
=============================================================================
