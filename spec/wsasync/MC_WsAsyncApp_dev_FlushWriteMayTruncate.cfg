\* sensitivity (seeded change C12-idle-socket-left-nonblocking): a flushed message may reach a receiver only in part: exactly-once delivery to the addressee / every current member fails
CONSTANTS
  c1 = c1
  c2 = c2
  c3 = c3
  w1 = w1
  w2 = w2
  w3 = w3
  Clients <- CS1
  MaxMsgs = 1
  MaxPings = 0
  Workers <- WS1
  Heartbeat = FALSE
  Reply <- ReplyUni
  ExtScript <- ExtNone
  Mode = "free"
  ShutdownMode = "any"
  Dev = {"FlushWriteMayTruncate"}
INIT Init
NEXT Next
VIEW MCView
INVARIANTS UnicastOnlyAddressee
CHECK_DEADLOCK FALSE
