\* sensitivity (plausible bug): a broadcast stops at the first dead socket, later members miss it
CONSTANTS
  c1 = c1
  c2 = c2
  c3 = c3
  w1 = w1
  w2 = w2
  w3 = w3
  Clients <- CS2
  MaxMsgs = 0
  MaxPings = 0
  Workers <- WS1
  Heartbeat = FALSE
  Reply <- ReplyNone
  ExtScript <- ExtBc
  Mode = "free"
  ShutdownMode = "any"
  Dev = {"BroadcastAbortsOnDeadPeer"}
INIT Init
NEXT Next
VIEW MCView
INVARIANTS DeliveryInvs
CHECK_DEADLOCK FALSE
