\* quick: shutdown signalled only at a quiescent moment: everything was dispatched and invoked exactly once (QuiescentComplete)
CONSTANTS
  c1 = c1
  c2 = c2
  c3 = c3
  w1 = w1
  w2 = w2
  w3 = w3
  Clients <- CS1
  MaxMsgs = 2
  MaxPings = 1
  Workers <- WS2
  Heartbeat = FALSE
  Reply <- ReplyUni
  ExtScript <- ExtNone
  Mode = "free"
  ShutdownMode = "quiescent"
  Dev = {}
INIT Init
NEXT Next
SYMMETRY Sym
VIEW MCView
INVARIANTS TypeOK CurInStreams DispatchInvs InvocationInvs DeliveryInvs QuiescentComplete
CHECK_DEADLOCK FALSE
