\* thorough: pool as written, 2 clients x 1 message, 2 workers, broadcast replies: dispatch-level and delivery properties
CONSTANTS
  c1 = c1
  c2 = c2
  c3 = c3
  w1 = w1
  w2 = w2
  w3 = w3
  Clients <- CS2
  MaxMsgs = 1
  MaxPings = 0
  Workers <- WS2
  Heartbeat = FALSE
  Reply <- ReplyBc
  ExtScript <- ExtNone
  Mode = "free"
  ShutdownMode = "any"
  Dev = {"InvocationInversion"}
INIT Init
NEXT Next
SYMMETRY Sym
VIEW MCView
INVARIANTS TypeOK CurInStreams DispatchInvs DeliveryInvs
CHECK_DEADLOCK FALSE
