---------------------------- MODULE MC_WsAsyncApp ----------------------------
(* TLC-only definitions for WsAsyncApp: constant values that a .cfg cannot spell (functions,
   sequences), symmetry sets, and the generation wrapper that records the action labels of a behaviour. *)
EXTENDS WsAsyncApp, Json

CONSTANTS c1, c2, c3, w1, w2, w3       \* model values

Kinds == {"C", "M", "D"}
ReplyNone == [k \in Kinds |-> "none"]
ReplyUni  == [k \in Kinds |-> IF k = "M" THEN "uni" ELSE "none"]          \* echo to the sender
ReplyBc   == [k \in Kinds |-> IF k = "M" THEN "bc" ELSE "none"]           \* relay to everybody
ReplyChat == [k \in Kinds |-> IF k = "C" THEN "uni" ELSE "bc"]            \* greet, relay, announce departure

ExtNone == <<>>
ExtBc   == <<"bc">>
ExtUni  == <<"uni">>
ExtBoth == <<"uni", "bc">>

CS1 == {c1}
CS2 == {c1, c2}
CS3 == {c1, c2, c3}
WS1 == {w1}
WS2 == {w1, w2}
WS3 == {w1, w2, w3}
Sym == Permutations(Clients) \cup Permutations(Workers)

\* sentTo is a pure history (no action reads it; every property counts occurrences): states that differ
\* only in the ORDER in which a client was written to are identified
BagOf(s) == [x \in {s[i] : i \in DOMAIN s} |-> Cardinality({i \in DOMAIN s : s[i] = x})]
MCView == <<cst, sent, pings, net, pending, incoming, streams, lpc, keys, cur, q, wst, wtask, outgoing, ext,
            shut, [c \in Clients |-> BagOf(sentTo[c])], rxn, dseq, iseq, admitted, tmo, flog,
            wp, rounds, pq, act, tmoBad>>

\* "can happen" claims: each is the NEGATION of a situation the properties talk about; TLC must
\* violate it (vacuity guard: the antecedents of the invariants are reachable)
Reach_ParallelHandlers == ~(\A w \in Workers : wst[w] = "run")
Reach_BroadcastToTwo   == ~(\E f \in flog : f.msg.k = "bc" /\ Cardinality(f.to) = 2)
Reach_UnicastDropped   == ~(\E f \in flog : f.msg.k = "uni" /\ f.to = {})
Reach_QuiescentDone    == ~(lpc = "done" /\ \E c \in Clients : Has(iseq[c], "M") /\ Has(iseq[c], "D"))
Reach_TimeoutLive      == ~(\E c \in tmo : cst[c] = "open")
Reach_MsgAfterVanish   == ~(\E c \in Clients : Gone(c) /\ Has(dseq[c], "M") /\ Has(dseq[c], "D"))
=============================================================================
