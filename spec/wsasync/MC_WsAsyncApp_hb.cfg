\* quick: heartbeat on (ping rounds, pongs, timeouts): one client that may talk in every ping round, answer pings or stay silent, close or vanish: only closed / gone / silent clients are reaped (DisconnectOnlyIfClosedOrSilent)
CONSTANTS
  c1 = c1
  c2 = c2
  c3 = c3
  w1 = w1
  w2 = w2
  w3 = w3
  Clients <- CS1
  MaxMsgs = 2
  MaxPings = 0
  Workers <- WS1
  Heartbeat = TRUE
  Reply <- ReplyNone
  ExtScript <- ExtNone
  Mode = "free"
  ShutdownMode = "any"
  Dev = {}
INIT Init
NEXT Next
SYMMETRY Sym
VIEW MCView
INVARIANTS TypeOK CurInStreams DispatchInvs InvocationInvs DeliveryInvs QuiescentComplete
CHECK_DEADLOCK FALSE
