\* reachability: a broadcast is written to two members
CONSTANTS
  c1 = c1
  c2 = c2
  c3 = c3
  w1 = w1
  w2 = w2
  w3 = w3
  Clients <- CS2
  MaxMsgs = 1
  MaxPings = 0
  Workers <- WS1
  Heartbeat = FALSE
  Reply <- ReplyBc
  ExtScript <- ExtNone
  Mode = "free"
  ShutdownMode = "any"
  Dev = {}
INIT Init
NEXT Next
VIEW MCView
INVARIANTS Reach_BroadcastToTwo
CHECK_DEADLOCK FALSE
