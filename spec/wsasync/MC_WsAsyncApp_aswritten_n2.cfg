\* quick 4/4: the pool as written with TWO workers: the dispatch-level and delivery properties hold (the invocation-level ones do not: MC_WsAsyncApp_dev_InvocationInversion.cfg)
CONSTANTS
  c1 = c1
  c2 = c2
  c3 = c3
  w1 = w1
  w2 = w2
  w3 = w3
  Clients <- CS2
  MaxMsgs = 1
  MaxPings = 0
  Workers <- WS2
  Heartbeat = FALSE
  Reply <- ReplyUni
  ExtScript <- ExtNone
  Mode = "free"
  ShutdownMode = "any"
  Dev = {"InvocationInversion"}
INIT Init
NEXT Next
SYMMETRY Sym
INVARIANTS TypeOK CurInStreams DispatchInvs DeliveryInvs
CHECK_DEADLOCK FALSE
