\* quick: the pool as written with TWO workers: dispatch-level and delivery properties hold (the invocation-level ones do not: MC_WsAsyncApp_dev_InvocationInversion.cfg)
CONSTANTS
  c1 = c1
  c2 = c2
  c3 = c3
  w1 = w1
  w2 = w2
  w3 = w3
  Clients <- CS1
  MaxMsgs = 2
  MaxPings = 0
  Workers <- WS2
  Heartbeat = FALSE
  Reply <- ReplyUni
  ExtScript <- ExtNone
  Mode = "free"
  ShutdownMode = "any"
  Dev = {"InvocationInversion"}
INIT Init
NEXT Next
SYMMETRY Sym
VIEW MCView
INVARIANTS TypeOK CurInStreams DispatchInvs DeliveryInvs
CHECK_DEADLOCK FALSE
