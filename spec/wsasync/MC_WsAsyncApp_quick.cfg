\* quick: one client, pool of 2, echo replies, external broadcast; repaired pool (Dev = {}): every invariant and the liveness ShutdownEndsRun
CONSTANTS
  c1 = c1
  c2 = c2
  c3 = c3
  w1 = w1
  w2 = w2
  w3 = w3
  Clients <- CS1
  MaxMsgs = 1
  MaxPings = 0
  Workers <- WS2
  Heartbeat = FALSE
  Reply <- ReplyUni
  ExtScript <- ExtBc
  Mode = "free"
  ShutdownMode = "any"
  Dev = {}
SPECIFICATION Spec
INVARIANTS TypeOK CurInStreams DispatchInvs InvocationInvs DeliveryInvs QuiescentComplete
PROPERTY ShutdownEndsRun
CHECK_DEADLOCK FALSE
