\* quick: 2 clients x 1 message, pool of 2, ideal pool (Dev = {}), message handler echoes (unicast)
CONSTANTS
  Clients <- C2
  MaxMsgs = 1
  MaxPings = 0
  Workers <- W2
  Heartbeat = FALSE
  Reply <- ReplyUni
  ExtScript <- ExtNone
  Mode = "free"
  ShutdownMode = "any"
  Dev = {}
INIT Init
NEXT Next
INVARIANTS TypeOK CurInStreams DispatchInvs InvocationInvs DeliveryInvs
\* PROPERTY ShutdownEndsRun
CHECK_DEADLOCK FALSE
