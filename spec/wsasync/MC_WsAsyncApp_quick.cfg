\* quick 1/4: one client with every feature (2 messages, ping, heartbeat, chat-style replies, external sender), pool of 2, repaired pool (Dev = {}): every property incl. the liveness ShutdownEndsRun
CONSTANTS
  c1 = c1
  c2 = c2
  c3 = c3
  w1 = w1
  w2 = w2
  w3 = w3
  Clients <- CS1
  MaxMsgs = 2
  MaxPings = 1
  Workers <- WS2
  Heartbeat = TRUE
  Reply <- ReplyChat
  ExtScript <- ExtBoth
  Mode = "free"
  ShutdownMode = "any"
  Dev = {}
SPECIFICATION Spec
INVARIANTS TypeOK CurInStreams DispatchInvs InvocationInvs DeliveryInvs QuiescentComplete
PROPERTY ShutdownEndsRun
CHECK_DEADLOCK FALSE
