CONSTANTS
  Dev = {"BugPairNoOffset"}
  Alphabet <- AlphaSur
  MaxLen = 4
  Prune = TRUE
  DepthProbe = {256}
INIT Init
NEXT Next
INVARIANTS Inv_Value
CHECK_DEADLOCK FALSE
