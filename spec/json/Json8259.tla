------------------------------- MODULE Json8259 -------------------------------
(* Property C13: humphrey_json::Value::parse accepts exactly the JSON texts of RFC 8259 (nested no
   deeper than the depth limit) and yields the value the text denotes; Value::serialize /
   serialize_pretty emit RFC 8259 text that parses back to an equal value.

   Part 1  RFC 8259 as a definition: Parse(s) over a sequence of Unicode code points gives
           IsJson(s), Denote(s) (the value tree, object members in document order), Depth(s)
           (container nesting) and Lone(s) (some \uXXXX escape denotes an unpaired surrogate: the
           property allows such texts to be accepted or rejected).  This part is written from the
           RFC's ABNF, production by production, not from the Rust code.
   Part 2  A transcription of humphrey-json/src/parser.rs (Parser::parse_value, parse_string,
           parse_array, parse_object, parse_literal, expect_eof, inc_depth), one operator per
           function, one recursive call per loop iteration.  Dev switches the named deviations =
           the code as it was before the repairs:
             LenientNumber        parse_literal hands every non-word literal to f64::from_str, whose
                                  grammar is a superset of JSON's (`01`, `.5`, `1.`, `+1`, `NaN`, `inf`)
             MissingComma         parse_object only tracks `trailing_comma`: a member may follow a
                                  member without a comma (`{"a":1 "b":2}`)
             PlusInUnicodeEscape  \uXXXX is converted by u16::from_str_radix, which accepts a
                                  leading `+` (`"\u+041"` = "A")
           and a few plausible bugs used only to show that the invariants are not vacuous (names starting with Bug).
   Part 3  A transcription of serialize.rs over value trees (numbers are carried as their literal
           text: f64 <-> decimal conversion is Rust's and is trusted; see DESIGN 8).
   Part 5  A model of indexing.rs (get / get_mut / Index / IndexMut) with its laws; beyond the text of C13.
   Part 4  The enumerator: the bounded input space is enumerated AS STATES (Next appends one token
           of Alphabet); the properties are invariants evaluated on every string.  With Prune = TRUE a
           text is extended only while it is viable (accepted, or rejected only because it ended);
           Inv_DeadStaysDead - checked with Prune = FALSE on complete spaces - is the lemma that no
           extension of a non-viable text is accepted by the RFC definition or by the model of the code.
   (JsonMachine.tla is parser.rs once more, as a state machine with one action per loop iteration.)

   Dev = {} satisfies every invariant (checked by TLC on the whole bounded space). *)
EXTENDS Integers, Sequences, TLC

CONSTANTS Dev,        \* subset of DevNames
          Alphabet,   \* sequence of tokens, each a non-empty sequence of code points
          MaxLen,     \* strings of at most MaxLen tokens are enumerated
          Prune,      \* TRUE: texts that can no longer become acceptable are not extended (see Viable)
          DepthProbe  \* set of depth limits d for which parse_max_depth(., d) is compared

DevNames == {"LenientNumber", "MissingComma", "PlusInUnicodeEscape",
             "BugArrayTrailingComma", "BugDepthOffByOne", "BugControlInString", "BugLiteralPrefix",
             "BugSerRawControl", "BugSerNoQuoteEscape", "BugSerPrettyComma", "BugMemberOrder",
             "BugIndexLastMatch", "BugGetMutNoInsert",
             "BugPairNoOffset", "BugSerBoundary1F", "BugSerPrettyEmptyPop", "BugDepthLeak"}
ASSUME Dev \subseteq DevNames

(***************************************************************************)
(* Characters                                                              *)
(***************************************************************************)
At(s, i) == IF i >= 1 /\ i <= Len(s) THEN s[i] ELSE -1        \* -1 = end of input
IsWs(c)    == c = 32 \/ c = 9 \/ c = 10 \/ c = 13              \* RFC 8259 section 2: ws
IsDigit(c) == c >= 48 /\ c <= 57
IsHex(c)   == IsDigit(c) \/ (c >= 65 /\ c <= 70) \/ (c >= 97 /\ c <= 102)
HexVal(c)  == IF IsDigit(c) THEN c - 48 ELSE IF c >= 97 THEN c - 87 ELSE c - 55
IsHighSur(u) == u >= 55296 /\ u <= 56319                       \* D800..DBFF
IsLowSur(u)  == u >= 56320 /\ u <= 57343                       \* DC00..DFFF
Pair(u, u2)  == 65536 + (u - 55296) * 1024 + (u2 - 56320)

W_TRUE  == <<116, 114, 117, 101>>
W_FALSE == <<102, 97, 108, 115, 101>>
W_NULL  == <<110, 117, 108, 108>>
Word(s, i, w) == \A k \in 1..Len(w) : At(s, i + k - 1) = w[k]

RECURSIVE SkipWs(_, _)
SkipWs(s, i) == IF IsWs(At(s, i)) THEN SkipWs(s, i + 1) ELSE i
RECURSIVE SkipDigits(_, _)
SkipDigits(s, i) == IF IsDigit(At(s, i)) THEN SkipDigits(s, i + 1) ELSE i

\* value trees
VNull      == [t |-> "null"]
VBool(b)   == [t |-> "bool", b |-> b]
VNum(lit)  == [t |-> "num", n |-> lit]             \* the literal's text (code points)
VStr(cps)  == [t |-> "str", s |-> cps]             \* decoded code points
VArr(a)    == [t |-> "arr", a |-> a]
VObj(k, a) == [t |-> "obj", k |-> k, a |-> a]      \* keys and values, document order, duplicates kept

Max(a, b) == IF a >= b THEN a ELSE b

(***************************************************************************)
(* Part 1.  RFC 8259                                                       *)
(***************************************************************************)
\* number = [ minus ] int [ frac ] [ exp ]          (section 6).  Result: index after the number, or, when there
\* is no number here, MINUS the index of the offending character (beyond the end: the text stops too early).
NumEnd(s, i) ==
  LET a == IF At(s, i) = 45 THEN i + 1 ELSE i
      b == IF At(s, a) = 48 THEN a + 1                                   \* int = zero / ( digit1-9 *DIGIT )
           ELSE IF At(s, a) >= 49 /\ At(s, a) <= 57 THEN SkipDigits(s, a + 1)
           ELSE 0 - a
  IN  IF b < 0 THEN b
      ELSE LET c == IF At(s, b) # 46 THEN b                               \* frac = decimal-point 1*DIGIT
                    ELSE IF IsDigit(At(s, b + 1)) THEN SkipDigits(s, b + 2) ELSE 0 - (b + 1)
           IN  IF c < 0 THEN c
               ELSE IF At(s, c) # 101 /\ At(s, c) # 69 THEN c            \* exp = e [ minus / plus ] 1*DIGIT
               ELSE LET e == IF At(s, c + 1) = 43 \/ At(s, c + 1) = 45 THEN c + 2 ELSE c + 1
                    IN  IF IsDigit(At(s, e)) THEN SkipDigits(s, e + 1) ELSE 0 - e

IsNumberText(x) == NumEnd(x, 1) = Len(x) + 1

Hex4(s, i) == IF IsHex(At(s, i)) /\ IsHex(At(s, i + 1)) /\ IsHex(At(s, i + 2)) /\ IsHex(At(s, i + 3))
              THEN HexVal(s[i]) * 4096 + HexVal(s[i + 1]) * 256 + HexVal(s[i + 2]) * 16 + HexVal(s[i + 3])
              ELSE -1
\* where a failing match stops: the first character that does not fit (possibly just beyond the end)
HexMis(s, i)     == CHOOSE k \in i..(i + 3) : ~IsHex(At(s, k)) /\ \A j \in i..(k - 1) : IsHex(At(s, j))
WordMis(s, i, w) == i - 1 + CHOOSE k \in 1..Len(w) : At(s, i + k - 1) # w[k] /\ \A j \in 1..(k - 1) : At(s, i + j - 1) = w[j]

\* escape = %x22 / %x5C / %x2F / %x62 / %x66 / %x6E / %x72 / %x74 / %x75 4HEXDIG     (section 7)
SimpleEsc == (34 :> 34) @@ (92 :> 92) @@ (47 :> 47) @@ (98 :> 8) @@ (102 :> 12) @@ (110 :> 10) @@ (114 :> 13) @@ (116 :> 9)

\* Failures carry `at`, the index of the character at which the text stops being a prefix of a JSON text;
\* at > Len(s) means "ended too early" (some extension may still be JSON), at <= Len(s) means no extension is.
SFailAt(p) == [ok |-> FALSE, i |-> 0, cps |-> <<>>, lone |-> FALSE, at |-> p]

\* i = index of the next character inside the string; acc = characters decoded so far.
\* unescaped = %x20-21 / %x23-5B / %x5D-10FFFF.  A \uD800-DBFF escape immediately followed by a
\* \uDC00-DFFF escape denotes one supplementary character; any other surrogate escape is "lone".
RECURSIVE StrBody(_, _, _, _)
StrBody(s, i, acc, lone) ==
  LET c == At(s, i) IN
  IF c = 34 THEN [ok |-> TRUE, i |-> i + 1, cps |-> acc, lone |-> lone, at |-> 0]
  ELSE IF c = 92 THEN
    LET e == At(s, i + 1) IN
    IF e \in DOMAIN SimpleEsc THEN StrBody(s, i + 2, Append(acc, SimpleEsc[e]), lone)
    ELSE IF e = 117 THEN
      LET u == Hex4(s, i + 2) IN
      IF u < 0 THEN SFailAt(HexMis(s, i + 2))
      ELSE IF IsHighSur(u) THEN
        LET u2 == IF At(s, i + 6) = 92 /\ At(s, i + 7) = 117 THEN Hex4(s, i + 8) ELSE -1 IN
        IF IsLowSur(u2) THEN StrBody(s, i + 12, Append(acc, Pair(u, u2)), lone)
        ELSE StrBody(s, i + 6, Append(acc, u), TRUE)
      ELSE IF IsLowSur(u) THEN StrBody(s, i + 6, Append(acc, u), TRUE)
      ELSE StrBody(s, i + 6, Append(acc, u), lone)
    ELSE SFailAt(i + 1)
  ELSE IF c >= 32 /\ c <= 1114111 THEN StrBody(s, i + 1, Append(acc, c), lone)
  ELSE SFailAt(i)                                               \* control character or end of input

FailAt(p) == [ok |-> FALSE, i |-> 0, v |-> VNull, d |-> 0, lone |-> FALSE, at |-> p]
R(i, v, d, lone) == [ok |-> TRUE, i |-> i, v |-> v, d |-> d, lone |-> lone, at |-> 0]

\* value = false / null / true / object / array / number / string     (section 3); i is at its first character
RECURSIVE PValue(_, _), PElems(_, _, _, _, _), PMembers(_, _, _, _, _, _)
PValue(s, i) ==
  LET c == At(s, i) IN
  IF c = 34 THEN
    LET r == StrBody(s, i + 1, <<>>, FALSE) IN IF r.ok THEN R(r.i, VStr(r.cps), 0, r.lone) ELSE FailAt(r.at)
  ELSE IF c = 91 THEN                           \* array = begin-array [ value *( value-separator value ) ] end-array
    LET j == SkipWs(s, i + 1) IN
    IF At(s, j) = 93 THEN R(j + 1, VArr(<<>>), 1, FALSE) ELSE PElems(s, j, <<>>, 0, FALSE)
  ELSE IF c = 123 THEN                          \* object = begin-object [ member *( value-separator member ) ] end-object
    LET j == SkipWs(s, i + 1) IN
    IF At(s, j) = 125 THEN R(j + 1, VObj(<<>>, <<>>), 1, FALSE) ELSE PMembers(s, j, <<>>, <<>>, 0, FALSE)
  ELSE IF c = 116 THEN (IF Word(s, i, W_TRUE) THEN R(i + 4, VBool(TRUE), 0, FALSE) ELSE FailAt(WordMis(s, i, W_TRUE)))
  ELSE IF c = 102 THEN (IF Word(s, i, W_FALSE) THEN R(i + 5, VBool(FALSE), 0, FALSE) ELSE FailAt(WordMis(s, i, W_FALSE)))
  ELSE IF c = 110 THEN (IF Word(s, i, W_NULL) THEN R(i + 4, VNull, 0, FALSE) ELSE FailAt(WordMis(s, i, W_NULL)))
  ELSE IF c = 45 \/ IsDigit(c) THEN
    LET j == NumEnd(s, i) IN IF j < 0 THEN FailAt(0 - j) ELSE R(j, VNum(SubSeq(s, i, j - 1)), 0, FALSE)
  ELSE FailAt(i)

\* i is at the first character of an element; d = deepest element so far
PElems(s, i, acc, d, lone) ==
  LET r == PValue(s, i) IN
  IF ~r.ok THEN r
  ELSE LET j == SkipWs(s, r.i)
           acc2 == Append(acc, r.v)
           d2 == Max(d, r.d)
           l2 == lone \/ r.lone
       IN  IF At(s, j) = 44 THEN PElems(s, SkipWs(s, j + 1), acc2, d2, l2)
           ELSE IF At(s, j) = 93 THEN R(j + 1, VArr(acc2), d2 + 1, l2)
           ELSE FailAt(j)

\* member = string name-separator value; i is at the first character of a member
PMembers(s, i, ks, vs, d, lone) ==
  IF At(s, i) # 34 THEN FailAt(i)
  ELSE LET k == StrBody(s, i + 1, <<>>, FALSE) IN
       IF ~k.ok THEN FailAt(k.at)
       ELSE LET j == SkipWs(s, k.i) IN
            IF At(s, j) # 58 THEN FailAt(j)
            ELSE LET r == PValue(s, SkipWs(s, j + 1)) IN
                 IF ~r.ok THEN r
                 ELSE LET m == SkipWs(s, r.i)
                          ks2 == Append(ks, k.cps)
                          vs2 == Append(vs, r.v)
                          d2 == Max(d, r.d)
                          l2 == lone \/ k.lone \/ r.lone
                      IN  IF At(s, m) = 44 THEN PMembers(s, SkipWs(s, m + 1), ks2, vs2, d2, l2)
                          ELSE IF At(s, m) = 125 THEN R(m + 1, VObj(ks2, vs2), d2 + 1, l2)
                          ELSE FailAt(m)

\* JSON-text = ws value ws     (section 2)
Parse(s) == LET r == PValue(s, SkipWs(s, 1)) IN
            IF r.ok THEN (IF SkipWs(s, r.i) = Len(s) + 1 THEN r ELSE FailAt(SkipWs(s, r.i))) ELSE r

IsJson(s) == Parse(s).ok
Denote(s) == Parse(s).v
Depth(s)  == Parse(s).d        \* 0 for a scalar, 1 + deepest element for a container
Lone(s)   == Parse(s).lone

\* A second, independent definition of the nesting depth of a JSON text: the largest number of
\* brackets open at once, brackets inside strings not counted.  (Inv_DepthScan: equal to Depth.)
RECURSIVE Scan(_, _, _, _, _)
Scan(s, i, open, best, instr) ==
  LET c == At(s, i) IN
  IF c = -1 THEN best
  ELSE IF instr THEN (IF c = 92 THEN Scan(s, i + 2, open, best, TRUE)
                      ELSE Scan(s, i + 1, open, best, c # 34))
  ELSE IF c = 34 THEN Scan(s, i + 1, open, best, TRUE)
  ELSE IF c = 91 \/ c = 123 THEN Scan(s, i + 1, open + 1, Max(best, open + 1), FALSE)
  ELSE IF c = 93 \/ c = 125 THEN Scan(s, i + 1, open - 1, best, FALSE)
  ELSE Scan(s, i + 1, open, best, FALSE)
BracketDepth(s) == Scan(s, 1, 0, 0, FALSE)

(***************************************************************************)
(* Part 2.  parser.rs                                                      *)
(***************************************************************************)
\* as in Part 1, a failure carries `at`: the character the code stopped at (beyond the end = UnexpectedEOF-like:
\* more input might still be accepted)
IFailAt(p) == [ok |-> FALSE, i |-> 0, v |-> VNull, at |-> p]
IR(i, v) == [ok |-> TRUE, i |-> i, v |-> v, at |-> 0]

\* fn is_literal
IsLiteralChar(c) == c # -1 /\ ~IsWs(c) /\ c # 44 /\ c # 125 /\ c # 93
RECURSIVE LitEnd(_, _)
LitEnd(s, i) == IF IsLiteralChar(At(s, i)) THEN LitEnd(s, i + 1) ELSE i

Lower(c) == IF c >= 65 /\ c <= 90 THEN c + 32 ELSE c
\* <f64 as FromStr>: [+-]? ( inf | infinity | nan | (D+ | D+ . D* | D* . D+) ([eE] [+-]? D+)? ), words case-insensitive
RustFloat(x) ==
  LET a  == IF At(x, 1) = 43 \/ At(x, 1) = 45 THEN 2 ELSE 1
      lw == [k \in 1..(Len(x) - a + 1) |-> Lower(x[a + k - 1])]
      b  == SkipDigits(x, a)
      c  == IF At(x, b) = 46 THEN SkipDigits(x, b + 1) ELSE b
      nd == (b - a) + (IF c > b THEN c - b - 1 ELSE 0)                   \* digits in the mantissa
      e  == IF At(x, c) = 101 \/ At(x, c) = 69
            THEN LET f == IF At(x, c + 1) = 43 \/ At(x, c + 1) = 45 THEN c + 2 ELSE c + 1
                 IN  IF IsDigit(At(x, f)) THEN SkipDigits(x, f + 1) ELSE 0
            ELSE c
  IN  \/ lw = <<105, 110, 102>> \/ lw = <<105, 110, 102, 105, 110, 105, 116, 121>> \/ lw = <<110, 97, 110>>
      \/ (nd >= 1 /\ e = Len(x) + 1)

\* the four characters after \u, as converted by the code
IHex4(s, i) ==
  IF "PlusInUnicodeEscape" \in Dev /\ At(s, i) = 43 /\ IsHex(At(s, i + 1)) /\ IsHex(At(s, i + 2)) /\ IsHex(At(s, i + 3))
  THEN HexVal(s[i + 1]) * 256 + HexVal(s[i + 2]) * 16 + HexVal(s[i + 3])
  ELSE Hex4(s, i)
IHexMis(s, i) ==
  IF "PlusInUnicodeEscape" \in Dev /\ At(s, i) = 43
  THEN CHOOSE k \in (i + 1)..(i + 3) : ~IsHex(At(s, k)) /\ \A j \in (i + 1)..(k - 1) : IsHex(At(s, j))
  ELSE HexMis(s, i)

ISFailAt(p) == [ok |-> FALSE, i |-> 0, cps |-> <<>>, at |-> p]
\* fn parse_string: one call per loop iteration
RECURSIVE IString(_, _, _)
IString(s, i, acc) ==
  LET c == At(s, i) IN
  IF c = -1 THEN ISFailAt(i)                                             \* self.next()? at end of input
  ELSE IF c = 92 THEN
    LET e == At(s, i + 1) IN
    IF e \in DOMAIN SimpleEsc THEN IString(s, i + 2, Append(acc, SimpleEsc[e]))
    ELSE IF e = 117 THEN
      LET u == IHex4(s, i + 2) IN
      IF u < 0 THEN ISFailAt(IHexMis(s, i + 2))
      ELSE IF ~(IsHighSur(u) \/ IsLowSur(u)) THEN IString(s, i + 6, Append(acc, u))     \* char::from_u32 is Some
      ELSE IF At(s, i + 6) # 92 THEN ISFailAt(i + 6)
      ELSE IF At(s, i + 7) # 117 THEN ISFailAt(i + 7)
      ELSE LET u2 == IHex4(s, i + 8) IN
           IF u2 < 0 THEN ISFailAt(IHexMis(s, i + 8))
           ELSE IF IsHighSur(u) /\ IsLowSur(u2)                                                   \* decode_utf16
                THEN IString(s, i + 12, Append(acc, IF "BugPairNoOffset" \in Dev THEN Pair(u, u2) - 65536 ELSE Pair(u, u2)))
           ELSE ISFailAt(i + 11)
    ELSE ISFailAt(i + 1)
  ELSE IF c = 34 THEN [ok |-> TRUE, i |-> i + 1, cps |-> acc, at |-> 0]
  ELSE IF (c >= 32 \/ "BugControlInString" \in Dev) THEN IString(s, i + 1, Append(acc, c))
  ELSE ISFailAt(i)

\* Can a literal that is not (yet) valid become valid when more characters arrive?  Only a proper prefix of a
\* word or of a number can.  (Under the deviations that widen the set of literals: assume yes.)
IsProperPrefix(x, w) == Len(x) < Len(w) /\ \A k \in 1..Len(x) : x[k] = w[k]
LiteralMayGrow(x) ==
  \/ "LenientNumber" \in Dev \/ "BugLiteralPrefix" \in Dev
  \/ IsProperPrefix(x, W_NULL) \/ IsProperPrefix(x, W_TRUE) \/ IsProperPrefix(x, W_FALSE)
  \/ LET e == NumEnd(x, 1) IN e < 0 /\ (0 - e) > Len(x)
\* fn parse_literal: s[i] is the character already consumed by parse_value
ILiteral(s, i) ==
  LET j == LitEnd(s, i + 1)
      x == SubSeq(s, i, j - 1)
  IN  IF x = W_NULL THEN IR(j, VNull)
      ELSE IF x = W_TRUE THEN IR(j, VBool(TRUE))
      ELSE IF x = W_FALSE THEN IR(j, VBool(FALSE))
      ELSE IF "BugLiteralPrefix" \in Dev /\ Word(x, 1, W_TRUE) THEN IR(j, VBool(TRUE))
      ELSE IF (IF "LenientNumber" \in Dev THEN RustFloat(x) ELSE IsNumberText(x)) THEN IR(j, VNum(x))
      ELSE IF j > Len(s) /\ LiteralMayGrow(x) THEN IFailAt(j)            \* the literal runs to the end of the input
      ELSE IFailAt(i)

\* fn inc_depth
DepthExceeded(dep, mx) == IF "BugDepthOffByOne" \in Dev THEN dep > mx ELSE dep = mx

RECURSIVE IValue(_, _, _, _), IArray(_, _, _, _, _), IObject(_, _, _, _, _, _, _)
\* fn parse_value; i = next character to be read, dep = self.depth
IValue(s, i0, dep, mx) ==
  LET i == SkipWs(s, i0)
      c == At(s, i)
  IN  IF c = -1 THEN IFailAt(i)
      ELSE IF c = 34 THEN LET r == IString(s, i + 1, <<>>) IN IF r.ok THEN IR(r.i, VStr(r.cps)) ELSE IFailAt(r.at)
      ELSE IF c = 91 THEN (IF DepthExceeded(dep, mx) THEN IFailAt(i) ELSE IArray(s, i + 1, <<>>, dep + 1, mx))
      ELSE IF c = 123 THEN (IF DepthExceeded(dep, mx) THEN IFailAt(i) ELSE IObject(s, i + 1, <<>>, <<>>, FALSE, dep + 1, mx))
      ELSE ILiteral(s, i)

\* fn parse_array, one call per iteration of its loop
IArray(s, i0, acc, dep, mx) ==
  LET i == SkipWs(s, i0)
      c == At(s, i)
  IN  IF c = -1 THEN IFailAt(i)
      ELSE IF c = 93 THEN (IF acc = <<>> \/ "BugArrayTrailingComma" \in Dev THEN IR(i + 1, VArr(acc)) ELSE IFailAt(i))
      ELSE LET r == IValue(s, i, dep, mx) IN
           IF ~r.ok THEN r
           ELSE LET j == SkipWs(s, r.i)
                    acc2 == Append(acc, r.v)
                IN  IF At(s, j) = 44 THEN IArray(s, j + 1, acc2, dep, mx)
                    ELSE IF At(s, j) = 93 THEN IR(j + 1, VArr(acc2))
                    ELSE IFailAt(j)

\* fn parse_object, one call per iteration of its loop; tc = trailing_comma
IObject(s, i0, ks, vs, tc, dep, mx) ==
  LET i == SkipWs(s, i0)
      c == At(s, i)
  IN  IF c = -1 THEN IFailAt(i)
      ELSE IF c = 125 THEN (IF tc THEN IFailAt(i) ELSE IR(i + 1, VObj(ks, vs)))
      ELSE IF c = 44 THEN (IF tc \/ ks = <<>> THEN IFailAt(i) ELSE IObject(s, i + 1, ks, vs, TRUE, dep, mx))
      ELSE IF ks # <<>> /\ ~tc /\ "MissingComma" \notin Dev THEN IFailAt(i)  \* the repair: a member needs its comma
      ELSE IF c # 34 THEN IFailAt(i)
      ELSE LET k == IString(s, i + 1, <<>>) IN
           IF ~k.ok THEN IFailAt(k.at)
           ELSE LET j == SkipWs(s, k.i) IN
                IF At(s, j) # 58 THEN IFailAt(j)
                ELSE LET r == IValue(s, j + 1, dep, mx) IN
                     IF ~r.ok THEN r
                     ELSE IF "BugMemberOrder" \in Dev
                          THEN IObject(s, r.i, <<k.cps>> \o ks, <<r.v>> \o vs, FALSE, dep, mx)
                          ELSE IObject(s, r.i, Append(ks, k.cps), Append(vs, r.v), FALSE, dep, mx)

\* Value::parse_max_depth(s, mx): parse_value then expect_eof
Impl(s, mx) == LET r == IValue(s, 1, 0, mx) IN
               IF r.ok THEN (IF SkipWs(s, r.i) = Len(s) + 1 THEN r ELSE IFailAt(SkipWs(s, r.i))) ELSE r

(***************************************************************************)
(* Part 3.  serialize.rs                                                   *)
(***************************************************************************)
RECURSIVE Concat(_)
Concat(ss) == IF ss = <<>> THEN <<>> ELSE Head(ss) \o Concat(Tail(ss))
Spaces(n) == [k \in 1..n |-> 32]
HexDigit(n) == IF n < 10 THEN 48 + n ELSE 87 + n

\* fn string_to_string, per character
SerChar(c) ==
  IF c = 34 THEN (IF "BugSerNoQuoteEscape" \in Dev THEN <<34>> ELSE <<92, 34>>)
  ELSE IF c = 92 THEN <<92, 92>>
  ELSE IF c = 47 THEN <<92, 47>>
  ELSE IF c = 8 THEN <<92, 98>>
  ELSE IF c = 12 THEN <<92, 102>>
  ELSE IF c = 10 THEN <<92, 110>>
  ELSE IF c = 13 THEN <<92, 114>>
  ELSE IF c = 9 THEN <<92, 116>>
  ELSE IF c >= 32 \/ "BugSerRawControl" \in Dev \/ (c = 31 /\ "BugSerBoundary1F" \in Dev) THEN <<c>>
  ELSE <<92, 117, 48, 48, HexDigit(c \div 16), HexDigit(c % 16)>>
SerString(cps) == <<34>> \o Concat([k \in 1..Len(cps) |-> SerChar(cps[k])]) \o <<34>>

\* ind = -1: Value::serialize; otherwise serialize_pretty_indent(ind, size).  Numbers: f64's Display
\* is represented by the literal the value carries.
RECURSIVE Ser(_, _, _)
Ser(v, ind, size) ==
  IF v.t = "null" THEN W_NULL
  ELSE IF v.t = "bool" THEN (IF v.b THEN W_TRUE ELSE W_FALSE)
  ELSE IF v.t = "num" THEN v.n
  ELSE IF v.t = "str" THEN SerString(v.s)
  ELSE LET n     == Len(v.a)
           open  == IF v.t = "arr" THEN 91 ELSE 123
           close == IF v.t = "arr" THEN 93 ELSE 125
           inner == IF ind < 0 THEN -1 ELSE ind + size
           item(k) == IF v.t = "arr" THEN Ser(v.a[k], inner, size)
                      ELSE SerString(v.k[k]) \o (IF ind < 0 THEN <<58>> ELSE <<58, 32>>) \o Ser(v.a[k], inner, size)
           sep(k) == IF k = n /\ "BugSerPrettyComma" \notin Dev THEN <<>> ELSE <<44>>   \* the last comma is popped
       IN  IF n = 0 THEN (IF ind >= 0 /\ "BugSerPrettyEmptyPop" \in Dev THEN <<10>> \o Spaces(ind) \o <<close>>   \* pop() took the bracket
                          ELSE <<open, close>>)
           ELSE IF ind < 0 THEN <<open>> \o Concat([k \in 1..n |-> item(k) \o (IF k = n THEN <<>> ELSE <<44>>)]) \o <<close>>
           ELSE <<open>> \o Concat([k \in 1..n |-> <<10>> \o Spaces(inner) \o item(k) \o sep(k)])
                \o <<10>> \o Spaces(ind) \o <<close>>
Serialize(v)          == Ser(v, -1, 0)
SerializePretty(v, n) == Ser(v, 0, n)

(***************************************************************************)
(* Part 5.  indexing.rs (Value::get / get_mut / Index / IndexMut).  Beyond   *)
(* the text of C13 (DESIGN section 6): checked, reported, never a violation. *)
(***************************************************************************)
None    == [some |-> FALSE, v |-> VNull]
Some(v) == [some |-> TRUE, v |-> v]
HasKey(o, key)   == \E k \in 1..Len(o.k) : o.k[k] = key
\* o.iter().find / position: the first member with that name
FirstKey(o, key) == IF "BugIndexLastMatch" \in Dev
                    THEN CHOOSE k \in 1..Len(o.k) : o.k[k] = key /\ \A j \in (k + 1)..Len(o.k) : o.k[j] # key
                    ELSE CHOOSE k \in 1..Len(o.k) : o.k[k] = key /\ \A j \in 1..(k - 1) : o.k[j] # key
\* <&str as Index>::json_index and <usize as Index>::json_index (0-based)
GetKey(v, key) == IF v.t = "obj" THEN (IF HasKey(v, key) THEN Some(v.a[FirstKey(v, key)]) ELSE None) ELSE None
GetIdx(v, n)   == IF v.t = "arr" THEN (IF n < Len(v.a) THEN Some(v.a[n + 1]) ELSE None) ELSE None
\* json_index_mut: the reference handed out and the container afterwards ("creates a new null value at
\* the given index if it does not exist in an object")
GetMutKey(v, key) ==
  IF v.t # "obj" THEN [ref |-> None, after |-> v]
  ELSE IF HasKey(v, key) THEN [ref |-> Some(v.a[FirstKey(v, key)]), after |-> v]
  ELSE IF "BugGetMutNoInsert" \in Dev THEN [ref |-> None, after |-> v]
  ELSE [ref |-> Some(VNull), after |-> VObj(Append(v.k, key), Append(v.a, VNull))]
GetMutIdx(v, n) == [ref |-> GetIdx(v, n), after |-> v]
\* ops::Index: a missing member reads as null; ops::IndexMut panics when json_index_mut gives None
IndexKey(v, key) == LET r == GetKey(v, key) IN IF r.some THEN r.v ELSE VNull
IndexIdx(v, n)   == LET r == GetIdx(v, n) IN IF r.some THEN r.v ELSE VNull
\* `v[key] = x`
AssignKey(v, key, x) ==
  LET m == GetMutKey(v, key) IN
  IF ~m.ref.some THEN [panic |-> TRUE, after |-> v]
  ELSE [panic |-> FALSE, after |-> VObj(m.after.k, [m.after.a EXCEPT ![FirstKey(m.after, key)] = x])]

ProbeKeys == {<<97>>, <<98>>, <<>>}
\* laws of the indexing model on a value: get_mut makes the key present, is idempotent, keeps the existing
\* members and their order, and what it leaves still serialises to JSON denoting it
IndexLaws(v) ==
  \A key \in ProbeKeys :
    LET m == GetMutKey(v, key) IN
    /\ (v.t = "obj") <=> m.ref.some
    /\ m.ref.some => /\ GetKey(m.after, key).some
                      /\ IndexKey(m.after, key) = m.ref.v
                      /\ GetMutKey(m.after, key).after = m.after
                      /\ SubSeq(m.after.k, 1, Len(v.k)) = v.k /\ SubSeq(m.after.a, 1, Len(v.a)) = v.a
                      /\ LET q == Parse(Serialize(m.after)) IN q.ok /\ q.v = m.after
                      /\ AssignKey(v, key, VBool(TRUE)).after.k = m.after.k
    /\ ~GetKey(v, key).some => IndexKey(v, key) = VNull

(***************************************************************************)
(* Part 4.  Enumeration of the bounded input space as states               *)
(***************************************************************************)
VARIABLES toks,   \* token indices (into Alphabet) of the string
          txt     \* its code points
vars == <<toks, txt>>

\* A text is viable when it is accepted or was rejected only because it ended (by the RFC definition or by the
\* model of the code for some probed depth): only then can an extension of it be accepted by either.
\* With Prune = TRUE only viable texts are extended, which removes most of the space (everything after the
\* first offending character); Inv_DeadStaysDead, checked in the configurations with Prune = FALSE, is the
\* lemma that justifies it.  The harness always enumerates the whole space.
Viable(x) == LET p == Parse(x) IN
             \/ p.ok \/ p.at > Len(x)
             \/ \E d \in DepthProbe : LET m == Impl(x, d) IN m.ok \/ m.at > Len(x)
Init == toks = <<>> /\ txt = <<>>
Extend == /\ Len(toks) < MaxLen
          /\ (Prune => Viable(txt)) = TRUE        \* (as a value: a disjunction inside an action would branch)
          /\ \E k \in 1..Len(Alphabet) : toks' = Append(toks, k) /\ txt' = txt \o Alphabet[k]
Next == Extend
Spec == Init /\ [][Next]_vars

\* The properties, as predicates of p = Parse(x) (so that one evaluation of Parse serves all of them).

\* C13, parser half, on the model of the code: for every depth limit d probed,
\*   parse_max_depth(x, d) accepts  <=>  IsJson(x) /\ Depth(x) <= d
\* (texts with an unpaired surrogate escape: accepting or rejecting are both allowed, accepting only
\* if it is JSON within the limit), and the value is the denoted one, members in document order.
AcceptIffJson(x, p) ==
  \A d \in DepthProbe :
    LET m == Impl(x, d) IN
    /\ m.ok => (p.ok /\ p.d <= d)
    /\ (p.ok /\ p.d <= d /\ ~p.lone) => m.ok
ValueDenoted(x, p) ==
  \A d \in DepthProbe : LET m == Impl(x, d) IN (m.ok /\ p.ok /\ ~p.lone) => m.v = p.v
ParserCorrect(x, p) ==          \* the conjunction of the two, sharing the evaluation of Impl
  \A d \in DepthProbe :
    LET m == Impl(x, d) IN
    /\ m.ok => (p.ok /\ p.d <= d)
    /\ (p.ok /\ p.d <= d /\ ~p.lone) => (m.ok /\ m.v = p.v)
\* the two definitions of depth agree on every JSON text
DepthScanAgrees(x, p) == p.ok => p.d = BracketDepth(x)
\* C13, serialiser half, on the model of serialize.rs: every denotable value (of the enumerated texts)
\* is emitted as JSON that denotes the same value, compact and pretty with indent 0, 1, 2 and 8
SerRoundTrip(p) ==
  (p.ok /\ ~p.lone) =>
     \A size \in {-1, 0, 1, 2, 8} :
        LET out == IF size < 0 THEN Serialize(p.v) ELSE SerializePretty(p.v, size)
            q == Parse(out)
        IN  q.ok /\ q.v = p.v /\ q.d = p.d

Inv_AcceptIffJson == AcceptIffJson(txt, Parse(txt))
Inv_Value         == ValueDenoted(txt, Parse(txt))
Inv_DepthScan     == DepthScanAgrees(txt, Parse(txt))
Inv_SerRoundTrip  == SerRoundTrip(Parse(txt))
Inv_IndexLaws     == LET p == Parse(txt) IN (p.ok /\ ~p.lone) => IndexLaws(p.v)
\* the pruning lemma: a text whose parent (the text without its last token) is not viable is not viable either -
\* in particular it is neither JSON nor accepted by the model of the code
TextOf(ts) == Concat([k \in 1..Len(ts) |-> Alphabet[ts[k]]])
Inv_DeadStaysDead == (toks # <<>>) => (~Viable(TextOf(SubSeq(toks, 1, Len(toks) - 1))) => ~Viable(txt))
\* all of them (used by the large configurations)
Inv_C13 == LET p == Parse(txt) IN
           /\ ParserCorrect(txt, p) /\ DepthScanAgrees(txt, p) /\ SerRoundTrip(p)
           /\ (p.ok /\ ~p.lone) => IndexLaws(p.v)
=============================================================================
