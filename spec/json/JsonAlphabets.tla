--------------------------- MODULE JsonAlphabets ---------------------------
(* The token alphabets of the bounded input spaces (each token = a sequence of code points). *)
EXTENDS Naturals, Sequences

\* { } [ ] : , " \ 0 1 - . e a u SPACE  true null
AlphaTok == << <<123>>, <<125>>, <<91>>, <<93>>, <<58>>, <<44>>, <<34>>, <<92>>, <<48>>, <<49>>, <<45>>, <<46>>,
               <<101>>, <<97>>, <<117>>, <<32>>, <<116, 114, 117, 101>>, <<110, 117, 108, 108>> >>
\* + - . 0 1 9 e E
AlphaNum == << <<43>>, <<45>>, <<46>>, <<48>>, <<49>>, <<57>>, <<101>>, <<69>> >>
\* { } [ ] , "a": "b": "b" 0 SPACE      (members: keys with their colon as one token, so that two members fit)
AlphaObj == << <<123>>, <<125>>, <<91>>, <<93>>, <<44>>, <<34, 97, 34, 58>>, <<34, 98, 34, 58>>, <<34, 98, 34>>, <<48>>, <<32>> >>
\* { } , "a":"b"          (smallest space in which a member can follow a member without a comma)
AlphaMem == << <<123>>, <<125>>, <<44>>, <<34, 97, 34, 58, 34, 98, 34>> >>
\* { } , "a":0 "b":0      (member order)
AlphaOrd == << <<123>>, <<125>>, <<44>>, <<34, 97, 34, 58, 48>>, <<34, 98, 34, 58, 48>> >>
\* " \ \ud83d \ude00 \u0041 \u+041 \u004 n 0 LF    (escapes as tokens so that surrogate pairs fit; LF = a raw control character)
AlphaEsc == << <<34>>, <<92>>, <<92, 117, 100, 56, 51, 100>>, <<92, 117, 100, 101, 48, 48>>, <<92, 117, 48, 48, 52, 49>>,
               <<92, 117, 43, 48, 52, 49>>, <<92, 117, 48, 48, 52>>, <<110>>, <<48>>, <<10>> >>
\* " \ud800 \udbff \udc00 \udfff \ud83d \ude00 \u0041 a   (surrogate escapes at the edges of both ranges: U+10000,
\* U+103FF, U+10FC00, U+10FFFF (plane 16), U+1F600; every unpaired / reversed combination)
AlphaSur == << <<34>>, <<92, 117, 100, 56, 48, 48>>, <<92, 117, 100, 98, 102, 102>>, <<92, 117, 100, 99, 48, 48>>,
               <<92, 117, 100, 102, 102, 102>>, <<92, 117, 100, 56, 51, 100>>, <<92, 117, 100, 101, 48, 48>>,
               <<92, 117, 48, 48, 52, 49>>, <<97>> >>
\* atoms for the serialiser model: [ ] { } , : and strings / numbers / words exercising every escaping rule
AlphaSer == << <<91>>, <<93>>, <<123>>, <<125>>, <<44>>, <<58>>,
               <<34, 92, 117, 48, 48, 48, 48, 92, 110, 47, 34>>,          \* "\u0000\n/"
               <<34, 92, 34, 92, 92, 92, 117, 48, 48, 49, 102, 34>>,      \* "\"\\\u001f"
               <<34, 92, 117, 100, 56, 51, 100, 92, 117, 100, 101, 48, 48, 127, 32, 34>>,  \* U+1F600 DEL SPACE
               <<34, 92, 98, 92, 102, 92, 114, 92, 116, 233, 8232, 34>>,  \* "\b\f\r\t" e-acute U+2028
               <<34, 92, 117, 48, 48, 49, 102, 32, 127, 128, 159, 160, 34>>,  \* "\u001f" SPACE DEL U+0080 U+009F U+00A0 (raw)
               <<45, 48>>, <<49, 101, 45, 55>>, <<102, 97, 108, 115, 101>> >>
\* { } [ ] , : " 0 SPACE    (small alphabet for the coverage run of the state machine)
AlphaCov == << <<123>>, <<125>>, <<91>>, <<93>>, <<44>>, <<58>>, <<34>>, <<48>>, <<32>> >>
=============================================================================
