CONSTANTS
  Dev = {"BugDepthOffByOne"}
  Alphabet <- AlphaTok
  MaxLen = 2
  Prune = FALSE
  DepthProbe = {0, 1}
INIT MInit
NEXT MNext
INVARIANTS M_DepthCounter
CHECK_DEADLOCK FALSE
