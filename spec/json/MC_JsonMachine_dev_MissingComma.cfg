CONSTANTS
  Dev = {"MissingComma"}
  Alphabet <- AlphaMem
  MaxLen = 4
  Prune = FALSE
  DepthProbe = {256}
INIT MInit
NEXT MNext
INVARIANTS M_AcceptIffJson
CHECK_DEADLOCK FALSE
