CONSTANTS
  Dev = {"BugMemberOrder"}
  Alphabet <- AlphaOrd
  MaxLen = 5
  DepthProbe = {256}
INIT Init
NEXT Next
INVARIANTS Inv_Value
CHECK_DEADLOCK FALSE
