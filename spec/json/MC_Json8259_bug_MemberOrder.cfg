CONSTANTS
  Dev = {"BugMemberOrder"}
  Alphabet <- AlphaOrd
  MaxLen = 5
  Prune = TRUE
  DepthProbe = {256}
INIT Init
NEXT Next
INVARIANTS Inv_Value
CHECK_DEADLOCK FALSE
