---------------------------- MODULE MC_Json8259 ----------------------------
(* TLC-only definitions for Json8259: the alphabets of the bounded input spaces and the generation
   invariant that prints the ACCEPTED strings (token indices) with their denotation. The harness
   enumerates the same space from the printed header and holds Value::parse against the printed set. *)
EXTENDS Json8259, Json, JsonAlphabets

GenHeader == PrintT(ToJson([header |-> TRUE, alphabet |-> Alphabet, maxlen |-> MaxLen]))
ASSUME GenHeader

\* printed for every accepted string: tokens, denotation, depth, lone-surrogate flag
Emit(p) == p.ok => PrintT(ToJson([t |-> toks, v |-> p.v, d |-> p.d, lone |-> p.lone]))
GenInv == Emit(Parse(txt))
\* model checking and generation in one pass over the space
Inv_C13_Gen == LET p == Parse(txt) IN
               /\ ParserCorrect(txt, p) /\ DepthScanAgrees(txt, p) /\ SerRoundTrip(p)
               /\ ((p.ok /\ ~p.lone) => IndexLaws(p.v))
               /\ Emit(p)
=============================================================================
