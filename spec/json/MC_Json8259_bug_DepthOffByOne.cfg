CONSTANTS
  Dev = {"BugDepthOffByOne"}
  Alphabet <- AlphaTok
  MaxLen = 4
  Prune = TRUE
  DepthProbe = {0, 1}
INIT Init
NEXT Next
INVARIANTS Inv_AcceptIffJson
CHECK_DEADLOCK FALSE
