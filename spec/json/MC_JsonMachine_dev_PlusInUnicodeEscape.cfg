CONSTANTS
  Dev = {"PlusInUnicodeEscape"}
  Alphabet <- AlphaEsc
  MaxLen = 3
  Prune = FALSE
  DepthProbe = {256}
INIT MInit
NEXT MNext
INVARIANTS M_AcceptIffJson
CHECK_DEADLOCK FALSE
