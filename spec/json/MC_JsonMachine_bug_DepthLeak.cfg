CONSTANTS
  Dev = {"BugDepthLeak"}
  Alphabet <- AlphaCov
  MaxLen = 3
  Prune = FALSE
  DepthProbe = {1, 2}
INIT MInit
NEXT MNext
INVARIANTS M_DepthCounter
CHECK_DEADLOCK FALSE
