CONSTANTS
  Dev = {"LenientNumber"}
  Alphabet <- AlphaTok
  MaxLen = 2
  Prune = FALSE
  DepthProbe = {256}
INIT MInit
NEXT MNext
INVARIANTS M_AcceptIffJson
CHECK_DEADLOCK FALSE
