CONSTANTS
  Dev = {}
  Alphabet <- AlphaSur
  MaxLen = 4
  Prune = FALSE
  DepthProbe = {0, 256}
INIT Init
NEXT Next
INVARIANTS Inv_AcceptIffJson Inv_Value Inv_DepthScan Inv_SerRoundTrip Inv_IndexLaws Inv_DeadStaysDead
CHECK_DEADLOCK FALSE
