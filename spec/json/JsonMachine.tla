----------------------------- MODULE JsonMachine -----------------------------
(* The parser of humphrey-json/src/parser.rs as a state machine: one action per function entry / loop
   iteration of the Rust code, the Rust call stack made explicit.  (Json8259 Part 2 is the same code as
   recursive operators and also builds the value; this module does not build values - it decides
   accept / reject, the depth counter and termination.)

   Rust                                        here
   ------------------------------------------  ---------------------------------------------------------
   Parser.chars (Peekable<Chars>)              i      index of the next character of txt
   Parser.depth, Parser.max_depth              dep, mx
   the call stack parse_value -> parse_array   stk    one frame per active parse_array / parse_object:
      -> parse_value -> parse_object ...              [kind, n = elements pushed so far, tc = trailing_comma]
   where the code is                           pc     "value"      parse_value entry
                                                      "str"        top of parse_string's loop
                                                      "lit"        parse_literal
                                                      "arr"        top of parse_array's loop
                                                      "arr_after"  parse_array after array.push(value)
                                                      "obj"        top of parse_object's loop
                                                      "obj_colon"  parse_object after the key string
                                                      "ret"        a value was produced: return to the caller
                                                      "eof"        expect_eof
   Result<Value, _> of Value::parse_max_depth  res    "run" / "ok" / "err"

   The input is built first (phase "input": the enumerator of Json8259 appends tokens), then Start picks
   max_depth from DepthProbe and the machine runs.  Dev: the same deviations as Json8259 Part 2. *)
EXTENDS Json8259

VARIABLES phase, pc, i, dep, mx, stk, strfor, res
mvars == <<toks, txt, phase, pc, i, dep, mx, stk, strfor, res>>
mstate == <<pc, i, dep, stk, strfor, res>>

MInit == /\ Init
         /\ phase = "input" /\ pc = "idle" /\ i = 1 /\ dep = 0 /\ mx = 0 /\ stk = <<>> /\ strfor = "value" /\ res = "run"

M_Extend == /\ phase = "input" /\ Extend
            /\ UNCHANGED <<phase, pc, i, dep, mx, stk, strfor, res>>

\* Value::parse_max_depth(txt, d): Parser::new, then parse_value
M_Start == /\ phase = "input"
           /\ \E d \in DepthProbe : mx' = d
           /\ phase' = "parse" /\ pc' = "value"
           /\ UNCHANGED <<toks, txt, i, dep, stk, strfor, res>>

Running == phase = "parse" /\ res = "run"
Err == /\ res' = "err" /\ UNCHANGED <<toks, txt, phase, pc, i, dep, mx, stk, strfor>>
Top == stk[Len(stk)]
Pop == SubSeq(stk, 1, Len(stk) - 1)
SetTop(f) == [stk EXCEPT ![Len(stk)] = f]

\* fn parse_value: flush_whitespace, next(), dispatch
PV_Enter ==
  /\ Running /\ pc = "value"
  /\ LET j == SkipWs(txt, i)
         c == At(txt, j)
     IN  IF c = -1 THEN Err
         ELSE IF c = 34 THEN /\ pc' = "str" /\ i' = j + 1 /\ strfor' = "value"
                             /\ UNCHANGED <<toks, txt, phase, dep, mx, stk, res>>
         ELSE IF c = 91 \/ c = 123 THEN
              IF DepthExceeded(dep, mx) THEN Err                              \* inc_depth
              ELSE /\ dep' = dep + 1
                   /\ stk' = Append(stk, [kind |-> IF c = 91 THEN "arr" ELSE "obj", n |-> 0, tc |-> FALSE])
                   /\ pc' = IF c = 91 THEN "arr" ELSE "obj"
                   /\ i' = j + 1
                   /\ UNCHANGED <<toks, txt, phase, mx, strfor, res>>
         ELSE /\ pc' = "lit" /\ i' = j                                          \* parse_literal(c)
              /\ UNCHANGED <<toks, txt, phase, dep, mx, stk, strfor, res>>

StrDone(j) == /\ i' = j
              /\ pc' = IF strfor = "value" THEN "ret" ELSE "obj_colon"
              /\ UNCHANGED <<toks, txt, phase, dep, mx, stk, strfor, res>>
StrMore(j) == /\ i' = j /\ UNCHANGED <<toks, txt, phase, pc, dep, mx, stk, strfor, res>>

\* one iteration of parse_string's loop
Str_Step ==
  /\ Running /\ pc = "str"
  /\ LET c == At(txt, i) IN
     IF c = -1 THEN Err
     ELSE IF c = 92 THEN
       LET e == At(txt, i + 1) IN
       IF e \in DOMAIN SimpleEsc THEN StrMore(i + 2)
       ELSE IF e = 117 THEN
         LET u == IHex4(txt, i + 2) IN
         IF u < 0 THEN Err
         ELSE IF ~(IsHighSur(u) \/ IsLowSur(u)) THEN StrMore(i + 6)
         ELSE IF At(txt, i + 6) # 92 \/ At(txt, i + 7) # 117 THEN Err
         ELSE LET u2 == IHex4(txt, i + 8) IN
              IF u2 >= 0 /\ IsHighSur(u) /\ IsLowSur(u2) THEN StrMore(i + 12) ELSE Err
       ELSE Err
     ELSE IF c = 34 THEN StrDone(i + 1)
     ELSE IF c >= 32 \/ "BugControlInString" \in Dev THEN StrMore(i + 1)
     ELSE Err

\* fn parse_literal
Lit_Scan ==
  /\ Running /\ pc = "lit"
  /\ LET r == ILiteral(txt, i) IN
     IF r.ok THEN /\ i' = r.i /\ pc' = "ret" /\ UNCHANGED <<toks, txt, phase, dep, mx, stk, strfor, res>>
     ELSE Err

\* a value has been produced: back in the caller
Ret ==
  /\ Running /\ pc = "ret"
  /\ IF stk = <<>> THEN /\ pc' = "eof" /\ UNCHANGED <<toks, txt, phase, i, dep, mx, stk, strfor, res>>
     ELSE /\ stk' = SetTop([Top EXCEPT !.n = @ + 1])                            \* array.push / object.push
          /\ pc' = IF Top.kind = "arr" THEN "arr_after" ELSE "obj"
          /\ UNCHANGED <<toks, txt, phase, i, dep, mx, strfor, res>>

\* next(); dec_depth(); Ok(container)
Close(j) == /\ i' = j + 1 /\ stk' = Pop /\ pc' = "ret"
            /\ dep' = IF "BugDepthLeak" \in Dev /\ Top.kind = "arr" THEN dep ELSE dep - 1       \* a forgotten dec_depth
            /\ UNCHANGED <<toks, txt, phase, mx, strfor, res>>

\* top of parse_array's loop
Arr_Loop ==
  /\ Running /\ pc = "arr"
  /\ LET j == SkipWs(txt, i)
         c == At(txt, j)
     IN  IF c = -1 THEN Err
         ELSE IF c = 93 THEN (IF Top.n = 0 \/ "BugArrayTrailingComma" \in Dev THEN Close(j) ELSE Err)
         ELSE /\ pc' = "value" /\ i' = j /\ UNCHANGED <<toks, txt, phase, dep, mx, stk, strfor, res>>

\* parse_array after the push
Arr_After ==
  /\ Running /\ pc = "arr_after"
  /\ LET j == SkipWs(txt, i)
         c == At(txt, j)
     IN  IF c = 44 THEN /\ i' = j + 1 /\ pc' = "arr" /\ UNCHANGED <<toks, txt, phase, dep, mx, stk, strfor, res>>
         ELSE IF c = 93 THEN Close(j)
         ELSE Err

\* top of parse_object's loop
Obj_Loop ==
  /\ Running /\ pc = "obj"
  /\ LET j == SkipWs(txt, i)
         c == At(txt, j)
     IN  IF c = -1 THEN Err
         ELSE IF c = 125 THEN (IF Top.tc THEN Err ELSE Close(j))
         ELSE IF c = 44 THEN
              IF Top.tc \/ Top.n = 0 THEN Err
              ELSE /\ stk' = SetTop([Top EXCEPT !.tc = TRUE]) /\ i' = j + 1
                   /\ UNCHANGED <<toks, txt, phase, pc, dep, mx, strfor, res>>
         ELSE IF Top.n > 0 /\ ~Top.tc /\ "MissingComma" \notin Dev THEN Err
         ELSE IF c # 34 THEN Err
         ELSE /\ stk' = SetTop([Top EXCEPT !.tc = FALSE])
              /\ pc' = "str" /\ strfor' = "key" /\ i' = j + 1
              /\ UNCHANGED <<toks, txt, phase, dep, mx, res>>

\* parse_object after the key
Obj_Colon ==
  /\ Running /\ pc = "obj_colon"
  /\ LET j == SkipWs(txt, i) IN
     IF At(txt, j) = 58 THEN /\ i' = j + 1 /\ pc' = "value" /\ UNCHANGED <<toks, txt, phase, dep, mx, stk, strfor, res>>
     ELSE Err

\* fn expect_eof
Eof ==
  /\ Running /\ pc = "eof"
  /\ res' = IF SkipWs(txt, i) = Len(txt) + 1 THEN "ok" ELSE "err"
  /\ UNCHANGED <<toks, txt, phase, pc, i, dep, mx, stk, strfor>>

MStep == PV_Enter \/ Str_Step \/ Lit_Scan \/ Ret \/ Arr_Loop \/ Arr_After \/ Obj_Loop \/ Obj_Colon \/ Eof
MNext == M_Extend \/ M_Start \/ MStep
MSpec == MInit /\ [][MNext]_mvars /\ WF_mvars(M_Start) /\ WF_mvars(MStep)

\* the machine stops with the answer of the functional transcription, and with the RFC's answer
M_AgreesWithImpl == (res # "run") => ((res = "ok") <=> Impl(txt, mx).ok)
M_AcceptIffJson ==
  (res # "run") =>
     LET p == Parse(txt) IN
     /\ (res = "ok") => (p.ok /\ p.d <= mx)
     /\ (p.ok /\ p.d <= mx /\ ~p.lone) => (res = "ok")
\* self.depth counts the open containers, never exceeds max_depth and never underflows in dec_depth
M_DepthCounter == dep = Len(stk) /\ dep >= 0 /\ (phase = "parse" => dep <= mx)
\* the cursor stays inside the text; with pc it is a progress measure
M_Cursor == i >= 1 /\ i <= Len(txt) + 1
\* accepted => nothing is left open
M_Balanced == (res = "ok") => (stk = <<>> /\ dep = 0)
\* every parse terminates
M_Terminates == <>(res # "run")
=============================================================================
