CONSTANTS
  Dev = {}
  Alphabet <- NoAlphabet
  MaxLen = 0
  DepthProbe = {}
SPECIFICATION TSpec
INVARIANTS AllExplained
CHECK_DEADLOCK FALSE
