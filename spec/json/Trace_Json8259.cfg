CONSTANTS
  Dev = {}
  Alphabet <- NoAlphabet
  MaxLen = 0
  Prune = FALSE
  DepthProbe = {}
SPECIFICATION TSpec
INVARIANTS AllExplained
CHECK_DEADLOCK FALSE
