CONSTANTS
  Dev = {"BugGetMutNoInsert"}
  Alphabet <- AlphaOrd
  MaxLen = 3
  Prune = FALSE
  DepthProbe = {256}
INIT Init
NEXT Next
INVARIANTS Inv_IndexLaws
CHECK_DEADLOCK FALSE
