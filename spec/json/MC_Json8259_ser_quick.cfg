CONSTANTS
  Dev = {}
  Alphabet <- AlphaSer
  MaxLen = 5
  Prune = TRUE
  DepthProbe = {0, 1, 2, 256}
INIT Init
NEXT Next
INVARIANTS Inv_C13_Gen
CHECK_DEADLOCK FALSE
