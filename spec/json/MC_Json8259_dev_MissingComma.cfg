CONSTANTS
  Dev = {"MissingComma"}
  Alphabet <- AlphaObj
  MaxLen = 6
  DepthProbe = {256}
INIT Init
NEXT Next
INVARIANTS Inv_AcceptIffJson
CHECK_DEADLOCK FALSE
