CONSTANTS
  Dev = {"MissingComma"}
  Alphabet <- AlphaMem
  MaxLen = 4
  Prune = FALSE
  DepthProbe = {256}
INIT Init
NEXT Next
INVARIANTS Inv_AcceptIffJson
CHECK_DEADLOCK FALSE
