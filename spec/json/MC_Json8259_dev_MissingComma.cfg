CONSTANTS
  Dev = {"MissingComma"}
  Alphabet <- AlphaMem
  MaxLen = 4
  DepthProbe = {256}
INIT Init
NEXT Next
INVARIANTS Inv_AcceptIffJson
CHECK_DEADLOCK FALSE
