CONSTANTS
  Dev = {}
  Alphabet <- AlphaCov
  MaxLen = 3
  Prune = FALSE
  DepthProbe = {1, 256}
SPECIFICATION MSpec
INVARIANTS M_DepthCounter M_Cursor M_Balanced
PROPERTY M_Terminates
CHECK_DEADLOCK FALSE
