CONSTANTS
  Dev = {"LenientNumber"}
  Alphabet <- AlphaTok
  MaxLen = 2
  Prune = FALSE
  DepthProbe = {256}
INIT Init
NEXT Next
INVARIANTS Inv_AcceptIffJson
CHECK_DEADLOCK FALSE
