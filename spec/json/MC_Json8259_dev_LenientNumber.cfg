CONSTANTS
  Dev = {"LenientNumber"}
  Alphabet <- AlphaTok
  MaxLen = 2
  DepthProbe = {256}
INIT Init
NEXT Next
INVARIANTS Inv_AcceptIffJson
CHECK_DEADLOCK FALSE
