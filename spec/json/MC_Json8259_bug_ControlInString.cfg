CONSTANTS
  Dev = {"BugControlInString"}
  Alphabet <- AlphaEsc
  MaxLen = 3
  Prune = FALSE
  DepthProbe = {256}
INIT Init
NEXT Next
INVARIANTS Inv_AcceptIffJson
CHECK_DEADLOCK FALSE
