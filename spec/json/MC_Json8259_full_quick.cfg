CONSTANTS
  Dev = {}
  Alphabet <- AlphaTok
  MaxLen = 4
  Prune = FALSE
  DepthProbe = {0, 1, 2, 256}
INIT Init
NEXT Next
INVARIANTS Inv_C13 Inv_DeadStaysDead
CHECK_DEADLOCK FALSE
