CONSTANTS
  Dev = {}
  Alphabet <- AlphaSur
  MaxLen = 6
  Prune = TRUE
  DepthProbe = {0, 256}
INIT Init
NEXT Next
INVARIANTS Inv_C13_Gen
CHECK_DEADLOCK FALSE
