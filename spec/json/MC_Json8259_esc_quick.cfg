CONSTANTS
  Dev = {}
  Alphabet <- AlphaEsc
  MaxLen = 5
  DepthProbe = {0, 256}
INIT Init
NEXT Next
INVARIANTS Inv_C13_Gen
CHECK_DEADLOCK FALSE
