---------------------------- MODULE MC_JsonMachine ----------------------------
EXTENDS JsonMachine, JsonAlphabets
\* TLC-only: the alphabets for the configurations of JsonMachine (MC_JsonMachine_*.cfg)
=============================================================================
