---------------------------- MODULE MC_JsonMachine ----------------------------
EXTENDS JsonMachine, JsonAlphabets
\* the input phase only matters through txt: two ways of spelling the same text are the same parse
=============================================================================
