CONSTANTS
  Dev = {}
  Alphabet <- AlphaTok
  MaxLen = 5
  Prune = FALSE
  DepthProbe = {1, 256}
INIT MInit
NEXT MNext
INVARIANTS M_AgreesWithImpl M_AcceptIffJson M_DepthCounter M_Cursor M_Balanced
CHECK_DEADLOCK FALSE
