CONSTANTS
  Dev = {"BugSerBoundary1F"}
  Alphabet <- AlphaSer
  MaxLen = 1
  Prune = FALSE
  DepthProbe = {256}
INIT Init
NEXT Next
INVARIANTS Inv_SerRoundTrip
CHECK_DEADLOCK FALSE
