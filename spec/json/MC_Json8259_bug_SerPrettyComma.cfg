CONSTANTS
  Dev = {"BugSerPrettyComma"}
  Alphabet <- AlphaSer
  MaxLen = 3
  Prune = FALSE
  DepthProbe = {256}
INIT Init
NEXT Next
INVARIANTS Inv_SerRoundTrip
CHECK_DEADLOCK FALSE
