CONSTANTS
  Dev = {"BugSerPrettyComma"}
  Alphabet <- AlphaSer
  MaxLen = 3
  DepthProbe = {256}
INIT Init
NEXT Next
INVARIANTS Inv_SerRoundTrip
CHECK_DEADLOCK FALSE
