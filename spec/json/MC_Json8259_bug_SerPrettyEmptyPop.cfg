CONSTANTS
  Dev = {"BugSerPrettyEmptyPop"}
  Alphabet <- AlphaSer
  MaxLen = 2
  Prune = FALSE
  DepthProbe = {256}
INIT Init
NEXT Next
INVARIANTS Inv_SerRoundTrip
CHECK_DEADLOCK FALSE
