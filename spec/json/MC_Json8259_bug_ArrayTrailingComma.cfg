CONSTANTS
  Dev = {"BugArrayTrailingComma"}
  Alphabet <- AlphaTok
  MaxLen = 4
  Prune = TRUE
  DepthProbe = {256}
INIT Init
NEXT Next
INVARIANTS Inv_AcceptIffJson
CHECK_DEADLOCK FALSE
