--------------------------- MODULE Trace_Json8259 ---------------------------
(* Code -> spec direction of C13.  The harness (harness/src/bin/json.rs) records what the real code did
   and TLC holds every record against Part 1 of Json8259 (the RFC definition):

   {"k":"doc", "in":[code points], "ok":b, "L":n, "pm":[{"d":n,"ok":b},..], "same":b, "nx":s, "v":tree}
        Value::parse(in) returned Ok (ok) / Err; L = the depth limit of Value::parse as probed;
        parse_max_depth(in, d) for several d; same = every successful call returned the same value;
        v = that value (or []).
        Expected:  ok <=> IsJson(in) /\ Depth(in) <= L,  each pm.ok <=> IsJson(in) /\ Depth(in) <= d,
        v = Denote(in) (members in document order).  Either outcome is allowed for texts with an
        unpaired surrogate escape or a number literal beyond the f64 range; a leading byte order mark may be
        ignored or rejected (section 8.1).  Repeated names in an object: all members, in order, compared.
   {"k":"ser", "v":tree, "ind":n, "out":[code points], "re":b}
        out = v.serialize() (ind = -1) or v.serialize_pretty(ind); re = Value::parse(out) == v.
        Expected:  IsJson(out), Denote(out) = v, re.
   {"k":"idx", "in":[code points], "op":s, "key":[cp..], "n":i, "some":b, "panic":b, "res":tree, "after":tree}
        extension beyond C13: an indexing operation on Value::parse(in), checked against Json8259 Part 5.

   tree: the nodes of the value in preorder (flat, because the JSON reader refuses nesting > 255):
         {"t":"null"} {"t":"bool","b":b} {"t":"str","s":[cp..]} {"t":"arr","n":size}
         {"t":"obj","n":size,"k":[[cp..]..]}
         {"t":"num","neg":b,"dg":[d..],"ex":n,"inf":b}: the f64 as its shortest round-trip decimal
         dg * 10^ex (no leading / trailing zeros in dg; zero: dg = []).  A literal of at most 15
         significant digits inside the normal range converts to the f64 whose shortest decimal is the
         literal itself (DBL_DIG), so TLC compares exactly; longer / extreme literals are compared by
         the harness with f64::from_str (field nx), which is in the trusted base. *)
EXTENDS Json8259, Json, IOUtils

Rec == ndJsonDeserialize(IOEnv.TRACE)
NoAlphabet == <<>>      \* the enumerator of Json8259 is not used here

(* the number a literal denotes, as digits * 10^ex *)
RECURSIVE LeadZ(_, _), TrailZ(_, _), DigVal(_, _, _)
LeadZ(x, i)  == IF i <= Len(x) /\ At(x, i) = 48 THEN LeadZ(x, i + 1) ELSE i - 1          \* number of leading zeros
TrailZ(x, i) == IF i >= 1 /\ At(x, i) = 48 THEN TrailZ(x, i - 1) ELSE Len(x) - i        \* number of trailing zeros
DigVal(x, i, acc) == IF ~IsDigit(At(x, i)) THEN acc
                     ELSE DigVal(x, i + 1, IF acc > 100000000 THEN acc ELSE acc * 10 + (x[i] - 48))   \* saturates: 32-bit integers
NormNum(lit) ==
  LET neg  == At(lit, 1) = 45
      a    == IF neg THEN 2 ELSE 1
      b    == SkipDigits(lit, a)
      c    == IF At(lit, b) = 46 THEN SkipDigits(lit, b + 1) ELSE b
      frac == IF c > b THEN SubSeq(lit, b + 1, c - 1) ELSE <<>>
      all  == SubSeq(lit, a, b - 1) \o frac
      hasE == At(lit, c) = 101 \/ At(lit, c) = 69
      eneg == hasE /\ At(lit, c + 1) = 45
      e0   == IF hasE THEN (IF At(lit, c + 1) = 43 \/ At(lit, c + 1) = 45 THEN c + 2 ELSE c + 1) ELSE 0
      x    == IF hasE THEN (IF eneg THEN 0 - DigVal(lit, e0, 0) ELSE DigVal(lit, e0, 0)) ELSE 0
      lz   == LeadZ(all, 1)
      tz   == IF lz = Len(all) THEN 0 ELSE TrailZ(all, Len(all))
      dg   == [k \in 1..(Len(all) - lz - tz) |-> all[lz + k] - 48]
  IN  IF lz = Len(all) THEN [neg |-> neg, dg |-> <<>>, ex |-> 0]
      ELSE [neg |-> neg, dg |-> dg, ex |-> x - Len(frac) + tz]

Magnitude(n) == Len(n.dg) + n.ex            \* value in [10^(Magnitude-1), 10^Magnitude)
TlcComparable(n) == Len(n.dg) <= 15 /\ Magnitude(n) <= 300 /\ Magnitude(n) >= -300
MayOverflow(n) == n.dg # <<>> /\ Magnitude(n) >= 309

\* l = the logged f64
NumSame(lit, l) ==
  LET n == NormNum(lit) IN
  IF l.inf THEN MayOverflow(n) /\ n.neg = l.neg
  ELSE IF n.dg = <<>> THEN l.dg = <<>>                                 \* zero; the sign of zero is not compared
  ELSE IF TlcComparable(n) THEN n.neg = l.neg /\ n.dg = l.dg /\ n.ex = l.ex
  ELSE n.neg = l.neg \/ l.dg = <<>>                                    \* value left to the harness (nx)

\* the nodes of a value tree in preorder; containers carry their size (and keys)
RECURSIVE Flat(_)
Flat(d) == IF d.t = "arr" THEN <<[t |-> "arr", n |-> Len(d.a)]>> \o Concat([k \in 1..Len(d.a) |-> Flat(d.a[k])])
           ELSE IF d.t = "obj" THEN <<[t |-> "obj", n |-> Len(d.a), k |-> d.k]>> \o Concat([k \in 1..Len(d.a) |-> Flat(d.a[k])])
           ELSE <<d>>
NodeSame(d, l) ==
  IF d.t # l.t THEN FALSE
  ELSE IF d.t = "null" THEN TRUE
  ELSE IF d.t = "bool" THEN d.b = l.b
  ELSE IF d.t = "num" THEN NumSame(d.n, l)
  ELSE IF d.t = "str" THEN d.s = l.s
  ELSE IF d.t = "arr" THEN d.n = l.n
  ELSE d.n = l.n /\ d.k = l.k
\* d = a denotation (tree), l = the logged preorder list
Same(d, l) == LET f == Flat(d) IN Len(f) = Len(l) /\ \A k \in 1..Len(f) : NodeSame(f[k], l[k])

RECURSIVE HasBigNum(_)
HasBigNum(d) == IF d.t = "num" THEN MayOverflow(NormNum(d.n))
                ELSE IF d.t = "arr" \/ d.t = "obj" THEN \E k \in 1..Len(d.a) : HasBigNum(d.a[k])
                ELSE FALSE

\* Objects with repeated names.  Denote keeps every member, in document order, and that is what is compared first
\* (it is what the code does).  RFC 8259 section 4 however leaves the receiver's behaviour open ("many implementations
\* report the last name/value pair only ... some report all"), and the property does not choose: a value that is
\* the denotation under one of the one-pair-per-name policies is reported as DRIFT (prefix "DRIFT: "), not as a
\* violation.  Rejecting such a text is not among the freedoms ("accepts iff JSON text").
RECURSIVE KeepIdx(_, _, _)
\* indices of the members kept, in order: pol = "first" (first pair of each name) / "last" (last pair of each name)
KeepIdx(ks, pol, i) ==
  IF i > Len(ks) THEN <<>>
  ELSE LET keep == IF pol = "last" THEN \A j \in (i + 1)..Len(ks) : ks[j] # ks[i] ELSE \A j \in 1..(i - 1) : ks[j] # ks[i]
       IN  (IF keep THEN <<i>> ELSE <<>>) \o KeepIdx(ks, pol, i + 1)
LastOf(ks, key) == CHOOSE j \in 1..Len(ks) : ks[j] = key /\ \A m \in (j + 1)..Len(ks) : ks[m] # key
RECURSIVE Policy(_, _)
\* pol: "first", "last" (surviving pair stays where the last one was), "lastAtFirst" (value of the last pair at the
\* position of the first, as insertion-ordered maps do)
Policy(d, pol) ==
  IF d.t = "arr" THEN VArr([k \in 1..Len(d.a) |-> Policy(d.a[k], pol)])
  ELSE IF d.t = "obj" THEN
    LET idx == KeepIdx(d.k, IF pol = "last" THEN "last" ELSE "first", 1)
        src(i) == IF pol = "lastAtFirst" THEN LastOf(d.k, d.k[i]) ELSE i
    IN  VObj([k \in 1..Len(idx) |-> d.k[idx[k]]], [k \in 1..Len(idx) |-> Policy(d.a[src(idx[k])], pol)])
  ELSE d
OnePairPerName(d, l) == \E pol \in {"first", "last", "lastAtFirst"} : Same(Policy(d, pol), l)
RECURSIVE HasDupKeys(_)
HasDupKeys(d) == IF d.t = "obj" THEN (\E i, j \in 1..Len(d.k) : i < j /\ d.k[i] = d.k[j]) \/ (\E k \in 1..Len(d.a) : HasDupKeys(d.a[k]))
                 ELSE IF d.t = "arr" THEN \E k \in 1..Len(d.a) : HasDupKeys(d.a[k])
                 ELSE FALSE

AcceptOk(p, got, d, either) == IF either THEN got => (p.ok /\ p.d <= d)
                               ELSE got <=> (p.ok /\ p.d <= d)

\* "" when the record is explained by the specification, otherwise which expectation failed
\* RFC 8259 section 8.1: a parser MAY ignore a leading byte order mark (U+FEFF) instead of treating it as an
\* error: for such a text both outcomes are allowed, accepting only if the rest is JSON (value not compared).
WhyBom(r) ==
  LET p == Parse(Tail(r.in))
      anyok == r.ok \/ \E k \in 1..Len(r.pm) : r.pm[k].ok
  IN  IF anyok /\ ~p.ok THEN "accepted a byte order mark followed by something that is not JSON" ELSE ""
WhyDoc1(r) ==
  LET p == Parse(r.in)
      either == p.ok /\ (p.lone \/ HasBigNum(p.v))
      anyok == r.ok \/ \E k \in 1..Len(r.pm) : r.pm[k].ok
      valbad == anyok /\ ~p.lone /\ ~Same(p.v, r.v)
  IN  \* demanded by the property (Value::parse: accept iff JSON within the limit; the value denoted)
      IF ~AcceptOk(p, r.ok, r.L, either) THEN "parse: accept/reject"
      ELSE IF r.ok /\ valbad /\ ~(HasDupKeys(p.v) /\ OnePairPerName(p.v, r.v)) THEN "value differs from the denotation"
      ELSE IF r.nx = "bad" THEN "number differs from f64::from_str of the literal"
      \* not named by the property: reported as drift, never a violation
      ELSE IF r.ok /\ valbad THEN "DRIFT: repeated names: the value keeps one pair per name (RFC 8259 section 4 allows it; the code used to keep all)"
      ELSE IF \E k \in 1..Len(r.pm) : ~AcceptOk(p, r.pm[k].ok, r.pm[k].d, either)
           THEN "DRIFT: parse_max_depth(s, d) does not accept exactly IsJson(s) /\\ Depth(s) <= d (the property names Value::parse only)"
      ELSE IF ~r.same \/ valbad THEN "DRIFT: parse_max_depth returned a different value than parse / than the denotation"
      ELSE ""
WhySer(r) ==
  LET p == Parse(r.out) IN
  IF ~p.ok THEN "serialiser output is not JSON"
  ELSE IF p.lone \/ ~Same(p.v, r.v) THEN "serialiser output denotes a different value"
  ELSE IF ~r.re /\ HasDupKeys(p.v) THEN "DRIFT: a value with repeated names does not survive serialise + parse (the parser keeps one pair per name)"
  ELSE IF ~r.re THEN "parse(serialised) differs from the value"
  ELSE ""
\* extension (Json8259 Part 5): indexing on a parsed document
OptSame(e, some, res) == e.some = some /\ (e.some => Same(e.v, res))
WhyIdx(r) ==
  LET p == Parse(r.in)
      v == p.v
  IN  IF ~p.ok THEN "indexed document is not JSON"
      ELSE IF r.op = "get_key" THEN (IF OptSame(GetKey(v, r.key), r.some, r.res) /\ Same(v, r.after) THEN "" ELSE "get(key)")
      ELSE IF r.op = "get_idx" THEN (IF OptSame(GetIdx(v, r.n), r.some, r.res) /\ Same(v, r.after) THEN "" ELSE "get(index)")
      ELSE IF r.op = "index_key" THEN (IF Same(IndexKey(v, r.key), r.res) /\ Same(v, r.after) THEN "" ELSE "value[key]")
      ELSE IF r.op = "index_idx" THEN (IF Same(IndexIdx(v, r.n), r.res) /\ Same(v, r.after) THEN "" ELSE "value[index]")
      ELSE IF r.op = "get_mut_key" THEN
           LET m == GetMutKey(v, r.key) IN IF OptSame(m.ref, r.some, r.res) /\ Same(m.after, r.after) THEN "" ELSE "get_mut(key)"
      ELSE IF r.op = "get_mut_idx" THEN
           LET m == GetMutIdx(v, r.n) IN IF OptSame(m.ref, r.some, r.res) /\ Same(m.after, r.after) THEN "" ELSE "get_mut(index)"
      ELSE LET m == AssignKey(v, r.key, VBool(TRUE)) IN
           IF m.panic = r.panic /\ Same(m.after, r.after) THEN "" ELSE "value[key] = true"
WhyDoc(r) == IF Len(r.in) >= 1 /\ At(r.in, 1) = 65279 THEN WhyBom(r) ELSE WhyDoc1(r)
Why(r) == IF r.k = "doc" THEN WhyDoc(r) ELSE IF r.k = "ser" THEN WhySer(r)
          ELSE LET w == WhyIdx(r) IN IF w = "" THEN "" ELSE "DRIFT: indexing.rs (beyond the property): " \o w

\* Attribution of a mismatch: is the doc record exactly what Part 2 of Json8259 (the model of parser.rs)
\* predicts under the deviations of this configuration's Dev?  (Trace_Json8259_dev_*.cfg)
ModelExplains(r) ==
  LET top == Impl(r.in, r.L)
      anyok == r.ok \/ \E k \in 1..Len(r.pm) : r.pm[k].ok
      some == IF r.ok THEN top
              ELSE Impl(r.in, r.pm[CHOOSE k \in 1..Len(r.pm) : r.pm[k].ok].d)
  IN  /\ top.ok = r.ok
      /\ \A k \in 1..Len(r.pm) : Impl(r.in, r.pm[k].d).ok = r.pm[k].ok
      /\ anyok => Same(some.v, r.v)

IsDrift(w) == Len(w) >= 6 /\ SubSeq(w, 1, 6) = "DRIFT:"
NDrift(b) == Len(SelectSeq(b, LAMBDA x : IsDrift(x.why)))
VARIABLES l, bad
TInit == toks = <<>> /\ txt = <<>> /\ l = 1 /\ bad = <<>>
TNext == /\ l <= Len(Rec)
         /\ l' = l + 1
         /\ LET w == IF Dev = {} THEN Why(Rec[l])
                     ELSE IF ModelExplains(Rec[l]) THEN "" ELSE "not what the model of parser.rs predicts under Dev" IN
            bad' = IF w = "" THEN bad
                   ELSE IF IsDrift(w) THEN (IF NDrift(bad) >= 20 THEN bad ELSE Append(bad, [i |-> l, why |-> w]))
                   ELSE IF Len(bad) - NDrift(bad) >= 50 THEN bad ELSE Append(bad, [i |-> l, why |-> w])
         /\ UNCHANGED <<toks, txt>>
TSpec == TInit /\ [][TNext]_<<l, bad, toks, txt>>

\* checked at the last state: every record consumed, none inexplicable (the first 50 violations and 20 drifts are
\* printed for the driver; reasons starting with "DRIFT:" concern behaviour the property does not state)
AllExplained == (l = Len(Rec) + 1) => (bad = <<>> \/ (PrintT(ToJson([rejected |-> bad])) /\ FALSE))
=============================================================================
