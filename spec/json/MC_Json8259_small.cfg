CONSTANTS
  Dev = {}
  Alphabet <- AlphaTok
  MaxLen = 3
  DepthProbe = {0, 1, 2, 256}
INIT Init
NEXT Next
INVARIANTS Inv_AcceptIffJson Inv_Value Inv_DepthScan Inv_SerRoundTrip Inv_IndexLaws
CHECK_DEADLOCK FALSE
