CONSTANTS
  Dev = {"Timeout408Plain"}
  BufCap = 3
  HasTimeout = TRUE
  Runtime = "threaded"
  Workers = 2
  ForceHttps = FALSE
  TIds = {1, 2}
  PIds = {}
  StallsGiveUp = FALSE
  Restarts = 0
  FocusCat = "none"
  FocusMax = 0
  TKindSet = {"probe", "plain", "garbage", "closemid", "stall"}
  PCat = "none"
  MaxReq = 1
  Catalogue = "loop"
SPECIFICATION TlsMCSafety
INVARIANTS Inv_NoPlaintext Inv_EncryptedOnly Inv_Flushed Inv_AcceptorAlive Inv_PoolBound Inv_WorkersReturn
CHECK_DEADLOCK FALSE
