CONSTANTS
  Dev = {}
  BufCap = 3
  HasTimeout = FALSE
  Runtime = "threaded"
  Workers = 2
  ForceHttps = FALSE
  TIds = {1, 2, 3}
  PIds = {}
  StallsGiveUp = FALSE
  Restarts = 0
  FocusCat = "none"
  FocusMax = 0
  TKindSet = {"probe", "plain", "garbage", "closemid", "stall"}
  PCat = "none"
  MaxReq = 1
  Catalogue = "loop"
SPECIFICATION TlsMCSpec
INVARIANTS Inv_NoPlaintext Inv_EncryptedOnly Inv_Flushed Inv_AcceptorAlive Inv_PoolBound Inv_WorkersReturn
PROPERTIES Live_GoodServed
CHECK_DEADLOCK FALSE
