CONSTANTS
  Dev = {}
  BufCap = 3
  HasTimeout = FALSE
  Runtime = "threaded"
  Workers = 2
  ForceHttps = TRUE
  TIds = {}
  PIds = {1}
  StallsGiveUp = FALSE
  Restarts = 0
  FocusCat = "none"
  FocusMax = 0
  TKindSet = {"probe", "plain", "garbage", "closemid", "stall"}
  PCat = "fields"
  MaxReq = 1
  Catalogue = "loop"
SPECIFICATION TlsMCSpec
INVARIANTS Inv_RedirectExact Inv_NoAppPlain Inv_RedirectAlive Inv_BadGetsNoRedirect
PROPERTIES Live_RedirectAll
CHECK_DEADLOCK FALSE
