----------------------------- MODULE MC_TlsApp -----------------------------
(* Exhaustive configurations of TlsApp: the focus connection's script comes from the catalogue of MC_HttpConn
   (spec/conn, found through -DTLA-Library), the other TLS-port clients from TKindSet, the port-80 clients from PCat. *)
EXTENDS TlsApp, MC_HttpConn

CONSTANTS FocusCat,   \* "none" | "small" | "loop": catalogue of the focus connection's script elements
          FocusMax,   \* longest focus script
          TKindSet,   \* kinds the other TLS-port clients are drawn from
          PCat        \* "none" | "loop" | "fields": catalogue of port-80 clients

SmallKinds == { Rq("GET", "plain", "ka", "1.1", 0), Rq("POST", "echo", "close", "1.0", 2), Rq("GET", "panic", "ka", "1.1", 0),
                Bad(2), Idle }
FocusKinds == IF FocusCat = "loop" THEN LoopKinds ELSE IF FocusCat = "small" THEN SmallKinds ELSE {}
FocusScripts == {<<>>} \cup UNION { [1..n -> FocusKinds] : n \in 1..FocusMax }

PK(h, t, w, b, n) == [host |-> h, tform |-> t, wf |-> w, beh |-> b, nreq |-> n]
PLoop == { PK("name", "query", TRUE, "send", 1), PK("name", "origin", TRUE, "send", 2), PK("none", "origin", TRUE, "send", 1),
           PK("name", "origin", FALSE, "send", 1), PK("name", "origin", TRUE, "silent", 1), PK("name", "origin", TRUE, "closes", 1) }
PFields == { PK(h, t, w, "send", n) : h \in {"none", "name", "port", "empty"}, t \in {"origin", "query", "star", "abs"},
                                      w \in BOOLEAN, n \in {1, 2} }
PKindSet == IF PCat = "loop" THEN PLoop ELSE IF PCat = "fields" THEN PFields ELSE {}

TlsMCInit == \E s \in FocusScripts : \E tk \in [TIds -> TKindSet] : \E pk \in [PIds -> PKindSet] :
               Init0(s) /\ TlsInit(tk, pk)
TlsMCSpec == TlsMCInit /\ [][AppNext]_allvars /\ Fairness
TlsMCSafety == TlsMCInit /\ [][AppNext]_allvars

\* ---- generation for the conformance harness: one line per combination of client kinds ----
TlsGenInv == PrintT(ToJson([tk |-> tkind, pk |-> pkind]))
TlsGenNext == FALSE /\ UNCHANGED allvars
=============================================================================
