CONSTANTS
  Dev = {}
  BufCap = 3
  HasTimeout = FALSE
  Runtime = "threaded"
  Workers = 3
  ForceHttps = TRUE
  TIds = {1, 2}
  PIds = {1, 2}
  StallsGiveUp = TRUE
  Restarts = 0
  FocusCat = "none"
  FocusMax = 0
  TKindSet = {"probe", "plain", "garbage", "closemid", "stall"}
  PCat = "loop"
  MaxReq = 1
  Catalogue = "loop"
SPECIFICATION TlsMCSpec
INVARIANTS Inv_NoPlaintext Inv_EncryptedOnly Inv_Flushed Inv_AcceptorAlive Inv_PoolBound Inv_WorkersReturn Inv_RedirectExact Inv_NoAppPlain Inv_RedirectAlive Inv_BadGetsNoRedirect
PROPERTIES Live_GoodServed Live_RedirectAll
CHECK_DEADLOCK FALSE
