CONSTANTS
  Dev = {}
  BufCap = 3
  HasTimeout = TRUE
  Runtime = "threaded"
  Workers = 2
  ForceHttps = FALSE
  TIds = {1}
  PIds = {}
  StallsGiveUp = FALSE
  Restarts = 0
  FocusCat = "loop"
  FocusMax = 2
  TKindSet = {"probe", "plain", "garbage", "closemid", "stall"}
  PCat = "none"
  MaxReq = 1
  Catalogue = "loop"
SPECIFICATION TlsMCSpec
INVARIANTS Inv_NoPlaintext Inv_EncryptedOnly Inv_Flushed Inv_AcceptorAlive Inv_PoolBound Inv_WorkersReturn Inv_OutPrefix Inv_InSync Inv_CloseWhenDue Inv_OpenWhileKept Inv_Sane
PROPERTIES Live_GoodServed
CHECK_DEADLOCK FALSE
