---------------------------- MODULE MC_TlsClient ----------------------------
EXTENDS TlsClient, Json
TFinals == { [code |-> 200, framing |-> "cl",      loc |-> FALSE],
             [code |-> 200, framing |-> "chunked", loc |-> FALSE],
             [code |-> 404, framing |-> "cl",      loc |-> FALSE],
             [code |-> 303, framing |-> "cl",      loc |-> TRUE] }
TFinalsSmall == { [code |-> 200, framing |-> "cl", loc |-> FALSE], [code |-> 303, framing |-> "cl", loc |-> TRUE] }

\* generation: one line per complete behaviour - the chain the server played, the requests it must have seen and how
\* they must have travelled, and what send() must return
TPath(i) == "/h" \o Dec(i)
TLocString(l) == IF l.kind = "none" THEN "" ELSE IF l.kind = "rel" THEN TPath(l.path) ELSE EndpointName(l.host) \o TPath(l.path)
TWire(r) == [at |-> EndpointName(r.at.host), path |-> TPath(r.at.path), code |-> r.code,
             location |-> TLocString(r.loc), framing |-> r.framing, id |-> r.id]
TGenInv == (cpc \in {"done", "error"}) =>
             PrintT(ToJson([k |-> "tlsclient", follow |-> follow, start |-> EndpointName(host0),
                            script |-> [i \in 1..Len(sent) |-> TWire(sent[i])],
                            reqs |-> [i \in 1..Len(reqs) |-> [at |-> EndpointName(reqs[i].host), path |-> TPath(reqs[i].path), wire |-> wire[i]]],
                            outcome |-> cpc, exp |-> TWire(got)]))
=============================================================================
