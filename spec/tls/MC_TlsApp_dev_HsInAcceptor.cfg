CONSTANTS
  Dev = {"HsInAcceptor"}
  BufCap = 3
  HasTimeout = FALSE
  Runtime = "threaded"
  Workers = 3
  ForceHttps = FALSE
  TIds = {1, 2}
  PIds = {}
  StallsGiveUp = FALSE
  Restarts = 0
  FocusCat = "none"
  FocusMax = 0
  TKindSet = {"probe", "plain", "garbage", "closemid", "stall"}
  PCat = "none"
  MaxReq = 1
  Catalogue = "loop"
SPECIFICATION TlsMCSpec
INVARIANTS Inv_NoPlaintext Inv_AcceptorAlive
PROPERTIES Live_GoodServed
CHECK_DEADLOCK FALSE
