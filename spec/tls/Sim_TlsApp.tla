----------------------------- MODULE Sim_TlsApp -----------------------------
(* Behaviour generation for the TLS scenario harness: TLC -simulate walks random behaviours of TlsApp; the CLIENT
   actions (connect, give up) and the life-cycle actions are kept, in order, in a history variable and printed with the
   client kinds at the step that completes the scenario (every client has connected, every stalling client has given
   up).  The harness plays the actions in that order against a real App; what the server does in between is for
   Trace_TlsApp to explain. *)
EXTENDS MC_TlsApp
VARIABLE hist
svars == <<allvars, hist>>
SimInit == TlsMCInit /\ hist = <<>>
Act(a, id) == hist' = Append(hist, [a |-> a, id |-> id])
Complete == /\ \A c \in TIds : ts[c] # "new" /\ (tkind[c] = "stall" => gone[c] \/ ts[c] \in {"closed", "refused"})
            /\ \A p \in PIds : ps[p] # "new" /\ (pkind[p].beh = "silent" => pgone[p] \/ ps[p] \in {"done", "refused"})
            /\ acc # "stopped"
Emit == IF Complete' /\ ~Complete
        THEN PrintT(ToJson([tk |-> tkind, pk |-> pkind, acts |-> hist']))
        ELSE TRUE
SimClient == \/ \E c \in TIds : (T_Connect(c) \/ T_Refused(c)) /\ ts[c] = "new" /\ Act("t", c)
             \/ \E c \in TIds : T_GiveUp(c) /\ Act("giveup", c)
             \/ \E p \in PIds : (P_Connect(p) \/ P_Refused(p)) /\ ps[p] = "new" /\ Act("p", p)
             \/ \E p \in PIds : P_GiveUp(p) /\ Act("pgiveup", p)
             \/ App_Stop /\ Act("stop", 0)
             \/ App_Start /\ Act("start", 0)
SimServer == /\ \/ \E c \in TIds : \/ Acc_Accept(c) \/ Wrk_Start(c) \/ Hs_Complete(c) \/ Hs_Reject(c) \/ Hs_PeerClosed(c)
                                   \/ Hs_Timeout(c) \/ Probe_Serve(c)
                \/ Red_Accept \/ Red_Respond \/ Red_Bad \/ Red_Gone \/ Red_ReadTimeout
             /\ UNCHANGED hist
SimNext == (SimClient \/ SimServer) /\ Emit
SimSpec == SimInit /\ [][SimNext]_svars
=============================================================================
