CONSTANTS
  Dev = {}
  BufCap = 3
  HasTimeout = FALSE
  Runtime = "threaded"
  Workers = 2
  ForceHttps = FALSE
  TIds = {1, 2, 3}
  PIds = {}
  StallsGiveUp = FALSE
  Restarts = 0
  FocusCat = "none"
  FocusMax = 0
  TKindSet = {"probe", "plain", "garbage", "closemid", "stall"}
  PCat = "none"
  MaxReq = 1
  Catalogue = "loop"
INIT TlsMCInit
NEXT TlsGenNext
INVARIANT TlsGenInv
CHECK_DEADLOCK FALSE
