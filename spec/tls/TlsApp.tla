------------------------------- MODULE TlsApp -------------------------------
(* The TLS side of a Humphrey App (feature "tls"), growth item attached to property C01.

   Code modelled
     threaded  humphrey/src/app.rs      App::run_tls, with_cert, with_forced_https, force_https_thread;
               humphrey/src/stream.rs   Stream::Tls (rustls::StreamOwned<ServerConnection, TcpStream>)
     tokio     humphrey/src/tokio/app.rs run_tls (tokio_rustls::TlsAcceptor::accept in the spawned task),
               force_https_thread (a spawned task); tokio/stream.rs Stream::Tls

   (a) The TLS port.  One action per step of the code:
         T_Connect      a client's TCP connection is established (kernel backlog)
         Acc_Accept     run_tls: `socket.incoming()` / `socket.accept()` yields the socket; connection condition;
                        ConnectionSuccess; thread_pool.execute / tokio::spawn            (the acceptor never touches TLS)
         Wrk_Start      a free pool worker takes the task: ServerConnection::new, StreamOwned::new, client_handler
                        (tokio: the task starts, acceptor.accept(sock).await) - the handshake runs INSIDE the handler's
                        first read (threaded) resp. before client_handler (tokio)
         Hs_Complete    the client completes the handshake
         Hs_Reject      the client's bytes are not TLS (plain HTTP, garbage, an unsupported version): the read fails,
                        rustls queues a fatal alert and tries one last write; the handler returns (threaded:
                        RequestError::Disconnected; tokio: ConnectionError event), the socket is dropped
         Hs_PeerClosed  the client closed during the handshake: EOF, the handler returns
         Hs_Timeout     threaded, with_connection_timeout: the stalled handshake runs into the first-byte timeout;
                        the 408 page is written INTO the TLS stream, whose handshake is incomplete, so nothing reaches
                        the client; the handler returns
         Probe_Serve    a well-behaved client's request is answered over the established connection
         App_Stop       with_shutdown: the signal arrives, the accept loop ends, run_tls returns and the listening
                        socket is closed (connections already dispatched are still served by their workers)
         App_Start      the application is started again on the same address
         T_Refused      a client connects while nobody listens
       and for ONE established connection (id 0, "the focus") the complete per-connection loop of HttpConn.tla over
       the decrypted byte stream: this module EXTENDS HttpConn and gates its Next by "the handshake is done".
       What a client "send" means under TLS: Cli_Send(n) = n more plaintext bytes have been written as complete TLS
       records.  The server's reads see decrypted bytes only record-wise, but a read may still take any smaller amount
       (the BufReader's capacity), so Srv_Fill(k) for any k <= sent - taken remains the right over-approximation.
       The connection ends with the server dropping the stream (no close_notify is sent: observed, not demanded) or
       with the client's close_notify / FIN (Cli_Shut).

       Demanded:  Inv_NoPlaintext      nothing but TLS records ever leaves the TLS port; in particular a failed or stalled
                                       handshake never produces an HTTP answer in the clear
                  Inv_AcceptorAlive    no handshake outcome stops the accept loop
                  Inv_WorkersReturn    every worker that took a connection is free again once that connection is over
                  Live_GoodServed      good connections that arrive later are served - within the pool's limits
                                       (PoolSuffices: a stalled handshake without a connection timeout holds its worker
                                       for as long as the client stays, exactly like an idle plain connection)
                  Inv_Flushed          a response that has been written has left the TLS layer (nothing is held back
                                       while the server waits for the next request or closes)
                  every HttpConn invariant and Live_AllAnswered on the focus connection's plaintext

   (b) The force-HTTPS listener (with_forced_https): a single loop on 0.0.0.0:80 that the pool runs as ONE task
       (threaded: it occupies a worker for good - RedirectShare) or as one tokio task.
         P_Connect      a plaintext client connects to port 80
         Red_Accept     `socket.incoming()` yields the next connection
         Red_Respond    Request::from_stream; 301 with Location = "https://" + Host + request-target
                        (no Host header: a 200 notice page); Connection: Close; the stream is dropped
         Red_Bad        the request is malformed: nothing is answered, the connection is dropped, the loop goes on
         Red_Gone       the client closed before a request was complete: likewise
         Red_ReadTimeout the client sends nothing: the read times out, the connection is dropped, the loop goes on
       Demanded:  Inv_RedirectExact    a well-formed request with a Host header is answered 301 with exactly
                                       "https://" + Host + target, the target INCLUDING its query string
                  Inv_NoAppPlain       application content (a handler's response) is never served on port 80
                  Inv_RedirectAlive / Live_RedirectAll   the loop survives the first connection, a bad request, a
                                       client that closes early and a client that sends nothing: every later
                                       well-formed request still gets its answer
       Observed (what the code does, accepted as it is): at most one response per connection, then close, also when
       the client asked for keep-alive or pipelined a second request; without a Host header a 200 notice instead of a
       redirect; an empty Host, target "*" and absolute-form targets are pasted into the formula unchanged; a
       malformed request gets no answer at all (not a 400).

   Named deviations (Dev, shared with HttpConn; the first group are defects the code had and that were repaired, the
   second group plausible bugs used for sensitivity only):
     RedirectDropsQuery    Location built from Request.uri alone: "/p?x=1" is redirected to "/p"
     RedirectExitsOnError  `?` inside the accept loop: the first malformed request or early close ends the thread
     RedirectSilentWedge   no read timeout: a client that connects and sends nothing blocks the only loop for ever
     ----
     RedirectOnlyFirst     the loop ends after the first connection
     PlainServesApp        port 80 is served by the ordinary client_handler (application content in the clear)
     HsFailKillsAcceptor   the handshake error propagates out of the accept loop
     HsInAcceptor          the acceptor performs the handshake itself: a stalling client blocks every later connection
     PlainAnsweredOnTls    plain HTTP on the TLS port is answered with a plaintext 400
     Timeout408Plain       the 408 of a stalled handshake is written to the raw socket
     HsFailLeaksWorker     a failed handshake never returns its worker
   and two more defects the code had (repaired), both violating Inv_Flushed:
     NagleHoldsResponse    accepted sockets kept Nagle's algorithm on: a response shorter than a segment waited in the
                           kernel for the acknowledgement of earlier data (over TLS 1.3: of the session tickets), and
                           a close with request bytes still unread reset the connection and discarded it
     TlsNoFlush            client_handler did not flush the TLS stream after write_all: with a full send buffer the last
                           records of a large response stayed in tokio-rustls' buffer - a truncated body on
                           Connection: close, a response that never completes on keep-alive *)
EXTENDS HttpConn

CONSTANTS Runtime,       \* "threaded" | "tokio"
          Workers,       \* threads of the pool (threaded runtime)
          ForceHttps,    \* with_forced_https(true)
          TIds,          \* ids of the other connections to the TLS port (the focus connection is id 0)
          PIds,          \* ids of the connections to port 80
          StallsGiveUp,  \* TRUE: clients that send nothing eventually close their connection
          Restarts       \* how many times the application may be shut down and started again

VARIABLES acc,      \* the acceptor: "listening" | "busy" (handshaking, only with HsInAcceptor) | "dead" | "stopped"
          stops,    \* shutdowns so far
          accCur,   \* connection the acceptor is busy with
          tkind,    \* [TIds -> kind of client]
          ts,       \* [TAll -> "new" | "conn" | "queued" | "hs" | "est" | "closed"]
          raw,      \* [TAll -> what the client received outside an established connection: "alert" | "hs" | "plain"]
          gone,     \* [TAll -> the client has closed its socket]
          served,   \* [TIds -> the probe's request was answered as demanded]
          leak,     \* workers lost for good (HsFailLeaksWorker)
          pend,     \* 1: the tail of the focus connection's last response is still in the TLS layer's buffer
          rpc,      \* the redirect loop: "off" | "accept" | "read" | "dead"
          rcur,     \* connection the redirect loop is reading from
          pkind,    \* [PIds -> kind of plaintext client]
          ps,       \* [PIds -> "new" | "conn" | "cur" | "done" | "refused"]
          pgone,    \* [PIds -> the client has closed its socket]
          pout      \* [PIds -> responses written to that connection]
tlsvars == <<acc, stops, accCur, tkind, ts, raw, gone, served, leak, pend>>
redvars == <<rpc, rcur, pkind, ps, pgone, pout>>
allvars == <<vars, tlsvars, redvars>>

TAll == TIds \cup {0}
TKinds == {"probe", "plain", "garbage", "closemid", "stall"}
\* plaintext client kinds: host  "none" | "name" | "port" | "empty"      (the Host header)
\*                         tform "origin" | "query" | "star" | "abs"     (the request-target)
\*                         wf    well-formed request;   beh "send" | "silent" | "closes";   nreq 1 | 2 requests written
KindOf(c) == IF c = 0 THEN (IF Len(script) > 0 THEN "good" ELSE "absent") ELSE tkind[c]
\* the focus connection is over, as far as the server is concerned, once HttpConn's `open` is FALSE
St(c) == IF c = 0 /\ ts[0] = "est" /\ ~open THEN "closed" ELSE ts[c]

RedirectShare == IF ForceHttps /\ Runtime = "threaded" /\ rpc # "dead" THEN 1 ELSE 0
Capacity == IF Runtime = "threaded" THEN Workers ELSE Cardinality(TAll) + 2
Busy == Cardinality({ c \in TAll : St(c) \in {"hs", "est"} /\ ~(acc = "busy" /\ accCur = c) }) + leak + RedirectShare

NoLoc == [host |-> "none", tform |-> "none", query |-> FALSE]
LocOf(D, k) == [host |-> k.host, tform |-> k.tform, query |-> (k.tform = "query" /\ "RedirectDropsQuery" \notin D)]
PResp(D, k) == IF "PlainServesApp" \in D THEN [st |-> 200, loc |-> NoLoc, body |-> "app"]
               ELSE IF k.host = "none" THEN [st |-> 200, loc |-> NoLoc, body |-> "notice"]
               ELSE [st |-> 301, loc |-> LocOf(D, k), body |-> "none"]
\* the request a probe sends (a route with an empty body: the open finding CrlfAfterBody does not touch it), and what C01 demands for it
ProbeReq == [k |-> "req", hl |-> 3, dl |-> 3, bl |-> 0, wf |-> TRUE, m |-> "GET", tgt |-> "empty", conn |-> "close", ver |-> "1.1"]
ProbeDemanded == Demanded(ProbeReq, 1)

TlsInit(tk, pk) ==
  /\ acc = "listening" /\ stops = 0 /\ accCur = 0 /\ tkind = tk
  /\ ts = [c \in TAll |-> "new"] /\ raw = [c \in TAll |-> <<>>] /\ gone = [c \in TAll |-> FALSE]
  /\ served = [c \in TIds |-> FALSE] /\ leak = 0 /\ pend = 0
  /\ rpc = (IF ForceHttps THEN "accept" ELSE "off") /\ rcur = 0 /\ pkind = pk
  /\ ps = [p \in PIds |-> "new"] /\ pgone = [p \in PIds |-> FALSE] /\ pout = [p \in PIds |-> <<>>]

-----------------------------------------------------------------------------
(********************************* (a) the TLS port *********************************)
T_Connect(c) ==
  /\ ts[c] = "new" /\ KindOf(c) \notin {"absent", "unused"} /\ acc # "stopped"
  /\ ts' = [ts EXCEPT ![c] = "conn"]
  /\ UNCHANGED <<vars, acc, stops, accCur, tkind, raw, gone, served, leak, pend, redvars>>

Acc_Accept(c) ==
  /\ acc = "listening" /\ ts[c] = "conn"
  /\ IF "HsInAcceptor" \in Dev
     THEN acc' = "busy" /\ accCur' = c /\ ts' = [ts EXCEPT ![c] = "hs"]
     ELSE ts' = [ts EXCEPT ![c] = "queued"] /\ UNCHANGED <<acc, accCur>>
  /\ UNCHANGED <<vars, stops, tkind, raw, gone, served, leak, pend, redvars>>

Wrk_Start(c) ==
  /\ ts[c] = "queued" /\ Busy < Capacity
  /\ ts' = [ts EXCEPT ![c] = "hs"]
  /\ UNCHANGED <<vars, acc, stops, accCur, tkind, raw, gone, served, leak, pend, redvars>>

\* the acceptor's state after the handshake of c ended with `outcome` ("ok" | "fail")
AccAfter(c, outcome) ==
  IF outcome = "fail" /\ "HsFailKillsAcceptor" \in Dev THEN "dead"
  ELSE IF acc = "busy" /\ accCur = c THEN "listening" ELSE acc
LeakAfter == IF "HsFailLeaksWorker" \in Dev THEN leak + 1 ELSE leak

Hs_Complete(c) ==
  /\ ts[c] = "hs" /\ KindOf(c) \in {"good", "probe"} /\ ~gone[c]
  /\ ts' = [ts EXCEPT ![c] = "est"] /\ acc' = AccAfter(c, "ok")
  /\ UNCHANGED <<vars, stops, accCur, tkind, raw, gone, served, leak, pend, redvars>>

Hs_Reject(c) ==
  /\ ts[c] = "hs" /\ KindOf(c) \in {"plain", "garbage"}
  /\ \E a \in {<<>>, <<"alert">>} :      \* the alert is a last-gasp write: it may or may not reach the client
       raw' = [raw EXCEPT ![c] = raw[c] \o a \o (IF "PlainAnsweredOnTls" \in Dev /\ KindOf(c) = "plain" THEN <<"plain">> ELSE <<>>)]
  /\ ts' = [ts EXCEPT ![c] = "closed"] /\ acc' = AccAfter(c, "fail") /\ leak' = LeakAfter
  /\ UNCHANGED <<vars, stops, accCur, tkind, gone, served, pend, redvars>>

Hs_PeerClosed(c) ==
  /\ ts[c] = "hs" /\ (KindOf(c) = "closemid" \/ gone[c])
  /\ \E a \in {<<>>, <<"hs">>, <<"hs", "alert">>, <<"alert">>} :   \* a complete ClientHello gets the server's flight before the EOF is seen
       raw' = [raw EXCEPT ![c] = raw[c] \o a]
  /\ ts' = [ts EXCEPT ![c] = "closed"] /\ acc' = AccAfter(c, "fail") /\ leak' = LeakAfter
  /\ UNCHANGED <<vars, stops, accCur, tkind, gone, served, pend, redvars>>

Hs_Timeout(c) ==
  /\ ts[c] = "hs" /\ KindOf(c) = "stall" /\ ~gone[c] /\ HasTimeout /\ Runtime = "threaded"
  /\ raw' = [raw EXCEPT ![c] = raw[c] \o (IF "Timeout408Plain" \in Dev THEN <<"plain">> ELSE <<>>)]
  /\ ts' = [ts EXCEPT ![c] = "closed"] /\ acc' = AccAfter(c, "fail") /\ leak' = LeakAfter
  /\ UNCHANGED <<vars, stops, accCur, tkind, gone, served, pend, redvars>>

T_GiveUp(c) ==
  /\ c # 0 /\ tkind[c] = "stall" /\ StallsGiveUp /\ ~gone[c] /\ ts[c] \in {"conn", "queued", "hs"}
  /\ gone' = [gone EXCEPT ![c] = TRUE]
  /\ UNCHANGED <<vars, acc, stops, accCur, tkind, ts, raw, served, leak, pend, redvars>>

Probe_Serve(c) ==
  /\ c # 0 /\ ts[c] = "est" /\ tkind[c] = "probe"
  /\ served' = [served EXCEPT ![c] = TRUE] /\ ts' = [ts EXCEPT ![c] = "closed"]
  /\ UNCHANGED <<vars, acc, stops, accCur, tkind, raw, gone, leak, pend, redvars>>

T_Refused(c) ==
  /\ ts[c] \in {"new", "conn"} /\ KindOf(c) \notin {"absent", "unused"} /\ acc = "stopped"
  /\ ts' = [ts EXCEPT ![c] = "refused"]
  /\ UNCHANGED <<vars, acc, stops, accCur, tkind, raw, gone, served, leak, pend, redvars>>

App_Stop ==
  /\ acc = "listening" /\ stops < Restarts
  /\ acc' = "stopped" /\ stops' = stops + 1
  /\ UNCHANGED <<vars, accCur, tkind, ts, raw, gone, served, leak, pend, redvars>>

App_Start ==
  /\ acc = "stopped"
  /\ acc' = "listening"
  /\ UNCHANGED <<vars, stops, accCur, tkind, ts, raw, gone, served, leak, pend, redvars>>

\* the per-connection loop of HttpConn over the decrypted stream of the focus connection
FocusClient == ts[0] = "est" /\ ClientStep /\ UNCHANGED <<tlsvars, redvars>>
\* A response is written INTO the TLS layer, which hands the socket what it takes at once and keeps the rest (tokio-rustls:
\* up to 64 KiB) until it is flushed; the socket in turn sends at once only with TCP_NODELAY.  The code flushes after every
\* response and sets TCP_NODELAY on every accepted socket: writing a response and its leaving the machine are one step.
FocusServer ==
  /\ ts[0] = "est" /\ ServerStep
  /\ IF Len(out') > Len(out) /\ (("TlsNoFlush" \in Dev /\ Runtime = "tokio") \/ "NagleHoldsResponse" \in Dev)
     THEN pend' \in {0, 1}          \* the socket took everything, or it did not
     ELSE pend' = 0
  /\ UNCHANGED <<acc, stops, accCur, tkind, ts, raw, gone, served, leak, redvars>>

TlsStep == \E c \in TAll : \/ T_Connect(c) \/ Acc_Accept(c) \/ Wrk_Start(c) \/ Hs_Complete(c) \/ Hs_Reject(c)
                           \/ Hs_PeerClosed(c) \/ Hs_Timeout(c) \/ T_GiveUp(c) \/ Probe_Serve(c) \/ T_Refused(c)
LifeStep == App_Stop \/ App_Start

-----------------------------------------------------------------------------
(****************************** (b) the force-HTTPS listener ******************************)
P_Connect(p) ==
  /\ ps[p] = "new" /\ rpc \in {"accept", "read"}
  /\ ps' = [ps EXCEPT ![p] = "conn"]
  /\ UNCHANGED <<vars, tlsvars, rpc, rcur, pkind, pgone, pout>>

\* nobody listens on port 80 (any more): the connection is refused, or was in the backlog when the listener went away
P_Refused(p) ==
  /\ ps[p] \in {"new", "conn"} /\ rpc \in {"dead", "off"}
  /\ ps' = [ps EXCEPT ![p] = "refused"]
  /\ UNCHANGED <<vars, tlsvars, rpc, rcur, pkind, pgone, pout>>

Red_AcceptOf(p) ==
  /\ rpc = "accept" /\ ps[p] = "conn"
  /\ rcur' = p /\ ps' = [ps EXCEPT ![p] = "cur"] /\ rpc' = "read"
  /\ UNCHANGED <<vars, tlsvars, pkind, pgone, pout>>
Red_Accept == \E p \in PIds : Red_AcceptOf(p)

RedNext(ok) == IF ok THEN (IF "RedirectOnlyFirst" \in Dev THEN "dead" ELSE "accept")
               ELSE (IF "RedirectExitsOnError" \in Dev THEN "dead" ELSE "accept")

Red_Respond ==
  /\ rpc = "read" /\ pkind[rcur].beh = "send" /\ pkind[rcur].wf /\ ~pgone[rcur]
  /\ pout' = [pout EXCEPT ![rcur] = Append(pout[rcur], PResp(Dev, pkind[rcur]))]
  /\ ps' = [ps EXCEPT ![rcur] = "done"] /\ rpc' = RedNext(TRUE)
  /\ UNCHANGED <<vars, tlsvars, rcur, pkind, pgone>>

Red_Bad ==
  /\ rpc = "read" /\ pkind[rcur].beh = "send" /\ ~pkind[rcur].wf
  /\ ps' = [ps EXCEPT ![rcur] = "done"] /\ rpc' = RedNext(FALSE)
  /\ UNCHANGED <<vars, tlsvars, rcur, pkind, pgone, pout>>

Red_Gone ==
  /\ rpc = "read" /\ (pkind[rcur].beh = "closes" \/ pgone[rcur])
  /\ ps' = [ps EXCEPT ![rcur] = "done"] /\ rpc' = RedNext(FALSE)
  /\ UNCHANGED <<vars, tlsvars, rcur, pkind, pgone, pout>>

Red_ReadTimeout ==
  /\ rpc = "read" /\ pkind[rcur].beh = "silent" /\ ~pgone[rcur] /\ "RedirectSilentWedge" \notin Dev
  /\ ps' = [ps EXCEPT ![rcur] = "done"] /\ rpc' = RedNext(FALSE)
  /\ UNCHANGED <<vars, tlsvars, rcur, pkind, pgone, pout>>

P_GiveUp(p) ==
  /\ pkind[p].beh = "silent" /\ StallsGiveUp /\ ~pgone[p] /\ ps[p] \in {"conn", "cur"}
  /\ pgone' = [pgone EXCEPT ![p] = TRUE]
  /\ UNCHANGED <<vars, tlsvars, rpc, rcur, pkind, ps, pout>>

RedStep == \/ \E p \in PIds : P_Connect(p) \/ P_Refused(p) \/ P_GiveUp(p)
           \/ Red_Accept \/ Red_Respond \/ Red_Bad \/ Red_Gone \/ Red_ReadTimeout

AppNext == FocusClient \/ FocusServer \/ TlsStep \/ LifeStep \/ RedStep

Fairness ==
  /\ WF_allvars(FocusClient) /\ WF_allvars(FocusServer)
  /\ WF_allvars(\E c \in TAll : T_Connect(c)) /\ WF_allvars(\E c \in TAll : Acc_Accept(c))
  /\ \A c \in TAll : WF_allvars(Wrk_Start(c))
  /\ WF_allvars(\E c \in TAll : Hs_Complete(c)) /\ WF_allvars(\E c \in TAll : Hs_Reject(c))
  /\ WF_allvars(\E c \in TAll : Hs_PeerClosed(c)) /\ WF_allvars(\E c \in TAll : Hs_Timeout(c))
  /\ WF_allvars(\E c \in TAll : T_GiveUp(c)) /\ WF_allvars(\E c \in TAll : Probe_Serve(c))
  /\ WF_allvars(\E p \in PIds : P_Connect(p)) /\ WF_allvars(\E p \in PIds : P_GiveUp(p))
  /\ WF_allvars(Red_Accept) /\ WF_allvars(Red_Respond) /\ WF_allvars(Red_Bad) /\ WF_allvars(Red_Gone)
  /\ WF_allvars(Red_ReadTimeout) /\ WF_allvars(App_Start)

-----------------------------------------------------------------------------
(* Properties *)
Inv_NoPlaintext == \A c \in TAll : \A i \in 1..Len(raw[c]) : raw[c][i] # "plain"
Inv_EncryptedOnly == (Len(out) > 0) => ts[0] = "est"
\* whenever the server waits for the next request, or is done with the connection, every response it wrote has left the TLS layer
Inv_Flushed == pend = 0
Inv_AcceptorAlive == acc # "dead"
Inv_PoolBound == ("HsInAcceptor" \notin Dev) => Busy <= Capacity
Inv_WorkersReturn == (\A c \in TAll : St(c) \in {"new", "conn", "queued", "closed", "refused"}) => Busy = RedirectShare
\* a connection is only ever taken up by an application that is running
Act_StoppedAcceptsNothing == [][acc = "stopped" => \A c \in TAll : (ts[c] = "conn" => ts'[c] # "queued")]_allvars

Inv_RedirectExact == \A p \in PIds : Len(pout[p]) > 0 => pout[p] = <<PResp({}, pkind[p])>>
Inv_NoAppPlain == \A p \in PIds : \A i \in 1..Len(pout[p]) : pout[p][i].body # "app"
Inv_RedirectAlive == rpc # "dead"
Inv_BadGetsNoRedirect == \A p \in PIds : (~pkind[p].wf \/ pkind[p].beh # "send") => pout[p] = <<>>

\* the pool cannot be exhausted for good by clients that merely stall
Stallers == { c \in TIds : tkind[c] = "stall" }
PoolSuffices == \/ Runtime = "tokio" \/ HasTimeout \/ StallsGiveUp
                \/ Cardinality(Stallers) + (IF ForceHttps THEN 1 ELSE 0) < Workers
GoodServed == /\ \A c \in TIds : tkind[c] = "probe" => ((ts[c] = "closed" /\ served[c]) \/ ts[c] = "refused")
              /\ acc # "stopped"
              /\ SameResponses(out, Expected(script))
Live_GoodServed == PoolSuffices => <>[]GoodServed
Live_GoodServedAlways == <>[]GoodServed               \* must be violated: the pool limit is real
Live_RedirectAll == (ForceHttps) => <>[](\A p \in PIds : (pkind[p].beh = "send" /\ pkind[p].wf) => Len(pout[p]) > 0)
\* can-happen checks (their negations must be violated)
Not_AllWorkersBusy == ~(Runtime = "threaded" /\ Busy = Workers /\ \E c \in TAll : ts[c] = "queued")
Not_AlertSeen == \A c \in TAll : raw[c] = <<>>
=============================================================================
