---------------------------- MODULE Trace_TlsConn ----------------------------
(* Code -> spec direction for C01 over TLS: the connection records produced by the TLS harness (harness-tls, mode
   conn: the job families of checks/c01.py played through a rustls client against App::run_tls on both runtimes)
   are validated by the trace specification of C01 itself, spec/conn/Trace_HttpConn.tla, which this module extends
   without changing an action; one silent step is added (TlsDesyncEofClose, below).  What the client events mean under TLS:

     Send(n)    n more PLAINTEXT bytes have been written as complete TLS records (ceil(n / 16384) of them, rustls'
                fragment limit) and flushed to the socket before the client does anything else.  TLS record
                boundaries take the place of TCP segment boundaries: the server's record layer hands a record's
                plaintext to the request parser only when the whole record has arrived, and the parser's BufReader
                may then take any part of it - which is Cli_Send(n) followed by Srv_Fill(k) for any k, exactly the
                over-approximation HttpConn already makes for TCP.  For one connection in three the harness also
                cuts the CIPHERTEXT at random TCP offsets (inside record headers and bodies); that must not be
                observable, so it is not an event.
     Recv(r)    the next response parsed from the DECRYPTED stream (fields as for C01).
     Eof        end of the decrypted stream, by close_notify or by a bare TCP FIN / reset.  Humphrey drops the stream
                without sending close_notify (observed; recorded per connection in `tls.eof`); the model does not
                distinguish the two.  Bytes that cannot be decrypted are reported as an unparsable response (st = -1),
                which no behaviour explains.
     Shut       the client ends its sending side: close_notify followed by a TCP FIN (two connections in three) or
                the FIN alone; either way the server's next read ends and Srv_Eof applies.
     Quiet, IdleBegin, IdleEnd   as for C01.
   The TLS handshake precedes the first event; it is modelled in TlsApp.tla (Hs_Complete), not here.  A handshake that
   a well-behaved client cannot complete is reported by the harness as `hs_failed` and is a violation by itself. *)
EXTENDS Trace_HttpConn

(* The one difference the TLS transport makes to the server machine, reachable only under the open deviation
   ReadAheadLost: a parser that has lost its place (spc = "desync") and meets the end of the client's stream.  Over
   plain TCP the read returns 0, the half-read line is rejected and a 400 is written (Srv_Desync400).  Over TLS a bare
   TCP FIN without close_notify makes the record layer's read FAIL (UnexpectedEof), which request.rs maps to
   RequestError::Stream: client_handler returns at once - no 400, no ConnectionClosed event.  (With close_notify the
   read returns 0 as over TCP and the 400 is written.)  Observed, not demanded: the state is itself a defect. *)
TlsDesyncEofClose ==
  /\ ~ClientOnlyNext
  /\ open /\ spc = "desync" /\ cliShut
  /\ open' = FALSE /\ spc' = "eofclose"
  /\ UNCHANGED <<script, sent, idling, idles, cliShut, taken, pos, cur, out>>
  /\ UNCHANGED tvars
TlsTraceNext == TraceNext \/ TlsDesyncEofClose
TlsTraceSpec == TraceInit /\ [][TlsTraceNext]_<<vars, tvars>>
=============================================================================
