CONSTANTS
  Dev = {}
  BufCap = 3
  HasTimeout = FALSE
  Runtime = "threaded"
  Workers = 2
  ForceHttps = FALSE
  TIds = {1, 2, 3, 4}
  PIds = {}
  StallsGiveUp = TRUE
  Restarts = 0
  FocusCat = "none"
  FocusMax = 0
  TKindSet = {"probe", "plain", "garbage", "closemid", "stall"}
  PCat = "none"
  MaxReq = 1
  Catalogue = "loop"
SPECIFICATION SimSpec
CHECK_DEADLOCK FALSE
