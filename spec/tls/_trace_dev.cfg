CONSTANTS
  Dev = {}
  BufCap = 8192
  HasTimeout = FALSE
  Runtime = "threaded"
  Workers = 1
  ForceHttps = FALSE
  TIds = {1, 2, 3}
  PIds = {1}
  StallsGiveUp = TRUE
  Restarts = 3
SPECIFICATION TraceSpec
INVARIANTS Report Inv_NoPlaintext Inv_AcceptorAlive Inv_PoolBound Inv_WorkersReturn Inv_RedirectExact Inv_NoAppPlain Inv_RedirectAlive
CHECK_DEADLOCK FALSE
