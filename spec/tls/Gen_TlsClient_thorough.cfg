CONSTANTS
  Dev = {}
  MaxHops = 3
  RedirCodes = {301, 302, 307}
  Kinds = {"rel", "abs"}
  Finals <- TFinals
  FollowModes = {TRUE, FALSE}
SPECIFICATION TSpec
INVARIANTS TGenInv Inv_SchemeOnWire Inv_NeverUntrusted Inv_ErrorOnlyUntrusted T_EndsAtFinal T_OneRequestPerHop NoFollowReturnsFirst NeverLost
CHECK_DEADLOCK FALSE
