CONSTANTS
  Dev = {"NagleHoldsResponse"}
  BufCap = 3
  HasTimeout = FALSE
  Runtime = "threaded"
  Workers = 2
  ForceHttps = FALSE
  TIds = {}
  PIds = {}
  StallsGiveUp = FALSE
  Restarts = 0
  FocusCat = "small"
  FocusMax = 1
  TKindSet = {"probe", "plain", "garbage", "closemid", "stall"}
  PCat = "none"
  MaxReq = 1
  Catalogue = "loop"
SPECIFICATION TlsMCSafety
INVARIANTS Inv_NoPlaintext Inv_EncryptedOnly Inv_Flushed Inv_AcceptorAlive Inv_PoolBound Inv_WorkersReturn Inv_OutPrefix Inv_InSync Inv_CloseWhenDue Inv_OpenWhileKept Inv_Sane
CHECK_DEADLOCK FALSE
