----------------------------- MODULE TlsClient -----------------------------
(* The https side of humphrey::Client (client.rs under feature "tls"): the redirect machine of spec/http/Client.tla
   crossing http <-> https.  This module EXTENDS Client and re-reads its two "hosts" as ENDPOINTS of one machine:

       1 = http://A    (port 80, plain TCP:  Client::request)
       2 = https://A   (port 443, TLS with a certificate the client trusts:  Client::request_tls)
       3 = https://B   (port 443, TLS with a certificate the client does NOT trust)

   so that an absolute Location of Client.tla (AbsHost alternates 1, 2, 1, ...) is an upgrade http -> https or a
   downgrade https -> http, and a relative Location stays on the scheme of the request it answers.  Added steps:
     T_Send        Cl_Send plus what client.rs decides per request: plain TCP or TLS (ClientRequest.protocol), and for
                   TLS the handshake with certificate verification against the Host header's name
     T_TlsReject   the certificate of endpoint 3 is not trusted: request_tls fails, send() returns the error, no
                   request is written
     Srv_ToUntrusted  the scripted server's extra move: a hop whose absolute Location points at endpoint 3
   Demanded (beyond Client.tla's EndsAtFinal / OneRequestPerHop / NoFollowReturnsFirst, which are checked unchanged):
     Inv_SchemeOnWire      every request travels the way its URL says: plain to an http endpoint, TLS to an https one
     Inv_NeverUntrusted    nothing is ever sent to, and nothing returned from, an endpoint whose certificate fails
     Inv_ErrorOnlyUntrusted send() fails only when the chain led to the untrusted endpoint (or carried no Location)
   Dev (sensitivity only):
     KeepsScheme   an absolute redirect changes the address but not the protocol (https Location fetched in the clear)
     SkipVerify    the certificate is not verified
     UpgradeLosesPath  an upgrade to https requests "/" instead of the Location's path
   plus the deviations of Client.tla. *)
EXTENDS Client

VARIABLES wire,      \* how each request was sent: "plain" | "tls" (history, parallel to reqs)
          proto      \* ClientRequest.protocol: "http" | "https"
tvars == <<vars, wire, proto>>

SchemeOf(h) == IF h = 1 THEN "http" ELSE "https"
Trusted(h) == h # 3
EndpointName(h) == IF h = 1 THEN "http://A" ELSE IF h = 2 THEN "https://A" ELSE "https://B"

TlsInit(h0) ==
  /\ pmode = "distinct"
  /\ cpc = "send" /\ follow \in FollowModes /\ followNow = follow
  /\ target = [host |-> h0, path |-> 0] /\ host0 = h0
  /\ expect = [host |-> h0, path |-> 0] /\ ended = FALSE
  /\ sent = <<>> /\ reqs = <<>> /\ inflight = NoResp /\ resp = NoResp /\ got = NoResp
  /\ wire = <<>> /\ proto = SchemeOf(h0)

\* the connection the client makes for the current request: by its protocol field, to the current address
OnWire == IF proto = "https" THEN "tls" ELSE "plain"
\* a request can only be delivered when the transport matches what the endpoint speaks
Deliverable == OnWire = (IF SchemeOf(target.host) = "https" THEN "tls" ELSE "plain")

T_Send ==
  /\ Deliverable /\ (OnWire = "tls" => (Trusted(target.host) \/ "SkipVerify" \in Dev))
  /\ Cl_Send
  /\ wire' = Append(wire, OnWire) /\ UNCHANGED proto

\* the TLS handshake fails (untrusted certificate), or TLS is spoken to a plain port / plain to a TLS port
T_ConnFail ==
  /\ cpc = "send"
  /\ \/ ~Deliverable
     \/ (OnWire = "tls" /\ ~Trusted(target.host) /\ "SkipVerify" \notin Dev)
  /\ cpc' = "error"
  /\ UNCHANGED <<pmode, follow, followNow, target, host0, expect, ended, sent, reqs, inflight, resp, got, wire, proto>>

T_Respond == Srv_Respond /\ UNCHANGED <<wire, proto>>

\* one more hop, to the endpoint with the untrusted certificate
Srv_ToUntrusted ==
  /\ cpc = "await" /\ target = expect /\ ~ended /\ Len(sent) < MaxHops
  /\ \E code \in RedirCodes :
       LET i == Len(sent)
           loc == [kind |-> "abs", host |-> 3, path |-> i + 1]
       IN /\ inflight' = RespRec(code, loc, "cl", i, target)
          /\ sent' = Append(sent, inflight')
          /\ expect' = [host |-> 3, path |-> i + 1]
  /\ cpc' = "read"
  /\ UNCHANGED <<pmode, follow, followNow, target, host0, ended, reqs, resp, got, wire, proto>>

T_Read == Cl_Read /\ UNCHANGED <<wire, proto>>

\* client.rs: an absolute Location replaces request, address AND protocol; a relative one only the uri
T_Redirect ==
  /\ Cl_Redirect
  /\ proto' = IF resp.loc.kind = "abs" /\ "KeepsScheme" \notin Dev THEN SchemeOf(resp.loc.host) ELSE proto
  /\ UNCHANGED wire
T_Return == Cl_Return /\ UNCHANGED <<wire, proto>>

TNext == T_Send \/ T_ConnFail \/ T_Respond \/ Srv_ToUntrusted \/ T_Read \/ T_Redirect \/ T_Return
TSpec == (\E h0 \in {1, 2} : TlsInit(h0)) /\ [][TNext]_tvars /\ WF_tvars(TNext)

-----------------------------------------------------------------------------
Inv_SchemeOnWire == \A i \in 1..Len(reqs) : wire[i] = (IF SchemeOf(reqs[i].host) = "https" THEN "tls" ELSE "plain")
Inv_NeverUntrusted == /\ \A i \in 1..Len(reqs) : Trusted(reqs[i].host)
                      /\ (cpc = "done" => Trusted(got.at.host) \/ got = NoResp)
LedToUntrusted == \E i \in 1..Len(sent) : sent[i].loc.kind = "abs" /\ sent[i].loc.host = 3
Inv_ErrorOnlyUntrusted == (cpc = "error") => (follow /\ LedToUntrusted)
\* Client.tla's properties, for chains that stay on trusted endpoints
T_EndsAtFinal == ~LedToUntrusted => EndsAtFinal
T_OneRequestPerHop == ~LedToUntrusted => OneRequestPerHop
T_Terminates == <>(cpc \in {"done", "error"})
\* can-happen (negations must be violated): an upgrade and a downgrade are actually followed
Not_Upgrade == ~(cpc = "done" /\ \E i \in 1..(Len(wire) - 1) : wire[i] = "plain" /\ wire[i + 1] = "tls")
Not_Downgrade == ~(cpc = "done" /\ \E i \in 1..(Len(wire) - 1) : wire[i] = "tls" /\ wire[i + 1] = "plain")
=============================================================================
