CONSTANTS
  Dev = {}
  BufCap = 3
  HasTimeout = FALSE
  Runtime = "threaded"
  Workers = 2
  ForceHttps = FALSE
  TIds = {1, 2, 3, 4}
  PIds = {}
  StallsGiveUp = TRUE
  Restarts = 2
  FocusCat = "none"
  FocusMax = 0
  TKindSet = {"probe", "plain", "stall"}
  PCat = "none"
  MaxReq = 1
  Catalogue = "loop"
SPECIFICATION SimSpec
CHECK_DEADLOCK FALSE
