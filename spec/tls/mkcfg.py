import os
D = os.path.dirname(os.path.abspath(__file__))
BASE = dict(Dev="{}", BufCap=3, HasTimeout="FALSE", Runtime='"threaded"', Workers=2, ForceHttps="FALSE", TIds="{1, 2}", PIds="{}",
            StallsGiveUp="FALSE", Restarts=0, FocusCat='"small"', FocusMax=1, TKindSet='{"probe", "plain", "garbage", "closemid", "stall"}',
            PCat='"none"', MaxReq=1, Catalogue='"loop"')
TINV = "Inv_NoPlaintext Inv_EncryptedOnly Inv_Flushed Inv_AcceptorAlive Inv_PoolBound Inv_WorkersReturn"
HINV = "Inv_OutPrefix Inv_InSync Inv_CloseWhenDue Inv_OpenWhileKept Inv_Sane"
RINV = "Inv_RedirectExact Inv_NoAppPlain Inv_RedirectAlive Inv_BadGetsNoRedirect"
def w(name, over, invs, props="", spec="TlsMCSpec"):
    c = dict(BASE); c.update(over)
    s = "CONSTANTS\n" + "".join("  %s = %s\n" % kv for kv in c.items())
    if spec == "GEN":
        s += "INIT TlsMCInit\nNEXT TlsGenNext\nINVARIANT TlsGenInv\nCHECK_DEADLOCK FALSE\n"
        open(os.path.join(D, name + ".cfg"), "w").write(s)
        return
    if spec == "SIM":
        s += "SPECIFICATION SimSpec\nCHECK_DEADLOCK FALSE\n"
        open(os.path.join(D, name + ".cfg"), "w").write(s)
        return
    s += "SPECIFICATION %s\nINVARIANTS %s\n" % (spec, invs)
    if props: s += "PROPERTIES %s\n" % props
    s += "CHECK_DEADLOCK FALSE\n"
    open(os.path.join(D, name + ".cfg"), "w").write(s)
RED = dict(ForceHttps="TRUE", TIds="{}", FocusCat='"none"', FocusMax=0, PCat='"loop"', PIds="{1, 2, 3}")
# exhaustive, Dev = {}
NOF = dict(FocusCat='"none"', FocusMax=0)
w("MC_TlsApp_accept_quick", dict(NOF, TIds="{1, 2, 3}"), TINV, "Live_GoodServed")
w("MC_TlsApp_accept_t_quick", dict(NOF, TIds="{1, 2, 3}", HasTimeout="TRUE"), TINV, "Live_GoodServed")
w("MC_TlsApp_accept_tokio_quick", dict(NOF, TIds="{1, 2, 3}", Runtime='"tokio"'), TINV, "Live_GoodServed")
w("MC_TlsApp_focus_quick", dict(TIds="{1}", HasTimeout="TRUE"), TINV + " " + HINV, "Live_GoodServed")
w("MC_TlsApp_redirect_quick", RED, RINV, "Live_RedirectAll")
w("MC_TlsApp_redirect_fields", dict(RED, PCat='"fields"', PIds="{1}"), RINV, "Live_RedirectAll")
w("MC_TlsApp_both_quick", dict(NOF, ForceHttps="TRUE", Workers=2, TIds="{1, 2}", TKindSet='{"probe", "stall", "plain"}', PIds="{1}", PCat='"loop"', StallsGiveUp="TRUE"), TINV + " " + RINV, "Live_GoodServed Live_RedirectAll")
w("MC_TlsApp_accept_thorough", dict(TIds="{1, 2}", Workers=2, FocusCat='"loop"'), TINV + " " + HINV, "Live_GoodServed")
w("MC_TlsApp_accept_t_thorough", dict(TIds="{1, 2}", Workers=2, FocusCat='"loop"', HasTimeout="TRUE"), TINV + " " + HINV, "Live_GoodServed")
w("MC_TlsApp_accept_tokio_thorough", dict(TIds="{1, 2}", FocusCat='"loop"', Runtime='"tokio"'), TINV + " " + HINV, "Live_GoodServed")
w("MC_TlsApp_accept4_thorough", dict(NOF, TIds="{1, 2, 3, 4}", Workers=3, StallsGiveUp="TRUE"), TINV, "Live_GoodServed")
w("MC_TlsApp_focus2_thorough", dict(TIds="{1}", Workers=2, FocusCat='"loop"', FocusMax=2, HasTimeout="TRUE"), TINV + " " + HINV, "Live_GoodServed")
w("MC_TlsApp_redirect_thorough", dict(RED, PIds="{1, 2, 3, 4}", StallsGiveUp="TRUE"), RINV, "Live_RedirectAll")
w("MC_TlsApp_both_thorough", dict(NOF, ForceHttps="TRUE", Workers=3, TIds="{1, 2}", PIds="{1, 2}", PCat='"loop"', StallsGiveUp="TRUE"), TINV + " " + RINV, "Live_GoodServed Live_RedirectAll")
w("MC_TlsApp_life_quick", dict(NOF, TIds="{1, 2}", Restarts=1, StallsGiveUp="TRUE"), TINV, "Live_GoodServed Act_StoppedAcceptsNothing")
w("MC_TlsApp_life_thorough", dict(NOF, TIds="{1, 2, 3}", Restarts=2, StallsGiveUp="TRUE", Workers=3), TINV, "Live_GoodServed Act_StoppedAcceptsNothing")
# can-happen (negations must be violated)
w("MC_TlsApp_reach_PoolLimit", dict(NOF, TIds="{1, 2, 3}"), TINV, "Live_GoodServedAlways")
w("MC_TlsApp_reach_AllWorkersBusy", {}, "Not_AllWorkersBusy", spec="TlsMCSafety")
w("MC_TlsApp_reach_AlertSeen", {}, "Not_AlertSeen", spec="TlsMCSafety")
# sensitivity: each deviation must violate
SMALL = dict(FocusCat='"none"', FocusMax=0, TIds="{1, 2}")
w("MC_TlsApp_dev_HsFailKillsAcceptor", dict(SMALL, Dev='{"HsFailKillsAcceptor"}'), TINV, spec="TlsMCSafety")
w("MC_TlsApp_dev_HsInAcceptor", dict(SMALL, Dev='{"HsInAcceptor"}', Workers=3), "Inv_NoPlaintext Inv_AcceptorAlive", "Live_GoodServed")
w("MC_TlsApp_dev_PlainAnsweredOnTls", dict(SMALL, Dev='{"PlainAnsweredOnTls"}'), TINV, spec="TlsMCSafety")
w("MC_TlsApp_dev_Timeout408Plain", dict(SMALL, Dev='{"Timeout408Plain"}', HasTimeout="TRUE"), TINV, spec="TlsMCSafety")
w("MC_TlsApp_dev_HsFailLeaksWorker", dict(SMALL, Dev='{"HsFailLeaksWorker"}'), TINV, spec="TlsMCSafety")
w("MC_TlsApp_dev_ReadAheadLost", dict(Dev='{"ReadAheadLost"}', TIds="{}", FocusCat='"loop"', FocusMax=2), TINV + " " + HINV, spec="TlsMCSafety")
w("MC_TlsApp_dev_CrlfAfterBody", dict(Dev='{"CrlfAfterBody"}', TIds="{1}"), TINV + " " + HINV, spec="TlsMCSafety")
w("MC_TlsApp_dev_TlsNoFlush", dict(Dev='{"TlsNoFlush"}', TIds="{}", Runtime='"tokio"'), TINV + " " + HINV, spec="TlsMCSafety")
w("MC_TlsApp_dev_NagleHoldsResponse", dict(Dev='{"NagleHoldsResponse"}', TIds="{}"), TINV + " " + HINV, spec="TlsMCSafety")
w("MC_TlsApp_focus_tokio_quick", dict(TIds="{1}", Runtime='"tokio"'), TINV + " " + HINV, "Live_GoodServed")
w("MC_TlsApp_dev_RedirectDropsQuery", dict(RED, Dev='{"RedirectDropsQuery"}'), RINV, spec="TlsMCSafety")
w("MC_TlsApp_dev_RedirectExitsOnError", dict(RED, Dev='{"RedirectExitsOnError"}'), RINV, spec="TlsMCSafety")
w("MC_TlsApp_dev_RedirectSilentWedge", dict(RED, Dev='{"RedirectSilentWedge"}'), RINV, "Live_RedirectAll")
w("MC_TlsApp_dev_RedirectOnlyFirst", dict(RED, Dev='{"RedirectOnlyFirst"}'), RINV, spec="TlsMCSafety")
w("MC_TlsApp_dev_PlainServesApp", dict(RED, Dev='{"PlainServesApp"}'), "Inv_NoAppPlain", spec="TlsMCSafety")

# generation (client-kind combinations) and simulation (orders of client actions)
w("Gen_TlsApp_accept", dict(NOF, TIds="{1, 2, 3}"), "", spec="GEN")
w("Gen_TlsApp_redirect", RED, "", spec="GEN")
w("Gen_TlsApp_redirect_fields", dict(RED, PCat='"fields"', PIds="{1}"), "", spec="GEN")
w("Sim_TlsApp_accept", dict(NOF, TIds="{1, 2, 3, 4}", StallsGiveUp="TRUE"), "", spec="SIM")
w("Sim_TlsApp_life", dict(NOF, TIds="{1, 2, 3, 4}", StallsGiveUp="TRUE", Restarts=2, TKindSet='{"probe", "plain", "stall"}'), "", spec="SIM")
w("Sim_TlsApp_both", dict(NOF, ForceHttps="TRUE", Workers=3, TIds="{1, 2}", PIds="{1, 2, 3}", PCat='"loop"', StallsGiveUp="TRUE", HasTimeout="TRUE"), "", spec="SIM")
