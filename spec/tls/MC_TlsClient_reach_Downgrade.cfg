CONSTANTS
  Dev = {}
  MaxHops = 2
  RedirCodes = {301, 302, 307}
  Kinds = {"rel", "abs"}
  Finals <- TFinalsSmall
  FollowModes = {TRUE, FALSE}
SPECIFICATION TSpec
INVARIANTS Not_Downgrade
CHECK_DEADLOCK FALSE
