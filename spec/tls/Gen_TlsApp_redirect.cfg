CONSTANTS
  Dev = {}
  BufCap = 3
  HasTimeout = FALSE
  Runtime = "threaded"
  Workers = 2
  ForceHttps = TRUE
  TIds = {}
  PIds = {1, 2, 3}
  StallsGiveUp = FALSE
  Restarts = 0
  FocusCat = "none"
  FocusMax = 0
  TKindSet = {"probe", "plain", "garbage", "closemid", "stall"}
  PCat = "loop"
  MaxReq = 1
  Catalogue = "loop"
INIT TlsMCInit
NEXT TlsGenNext
INVARIANT TlsGenInv
CHECK_DEADLOCK FALSE
