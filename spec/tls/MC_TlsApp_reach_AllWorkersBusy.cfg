CONSTANTS
  Dev = {}
  BufCap = 3
  HasTimeout = FALSE
  Runtime = "threaded"
  Workers = 2
  ForceHttps = FALSE
  TIds = {1, 2}
  PIds = {}
  StallsGiveUp = FALSE
  Restarts = 0
  FocusCat = "small"
  FocusMax = 1
  TKindSet = {"probe", "plain", "garbage", "closemid", "stall"}
  PCat = "none"
  MaxReq = 1
  Catalogue = "loop"
SPECIFICATION TlsMCSafety
INVARIANTS Not_AllWorkersBusy
CHECK_DEADLOCK FALSE
