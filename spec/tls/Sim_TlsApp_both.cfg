CONSTANTS
  Dev = {}
  BufCap = 3
  HasTimeout = TRUE
  Runtime = "threaded"
  Workers = 3
  ForceHttps = TRUE
  TIds = {1, 2}
  PIds = {1, 2, 3}
  StallsGiveUp = TRUE
  Restarts = 0
  FocusCat = "none"
  FocusMax = 0
  TKindSet = {"probe", "plain", "garbage", "closemid", "stall"}
  PCat = "loop"
  MaxReq = 1
  Catalogue = "loop"
SPECIFICATION SimSpec
CHECK_DEADLOCK FALSE
