---------------------------- MODULE Trace_TlsApp ----------------------------
(* Code -> spec direction for TlsApp: every line of the ndjson file is one SCENARIO recorded by the TLS harness
   (harness-tls, mode scen) against a real App started with with_cert / with_forced_https / with_connection_timeout /
   with_shutdown and run by App::run_tls:

     tk[c]   kind of the client that made TLS-port connection c     pk[p]  kind of the plaintext client p (with the
     events  the observations of all clients in one global order           concrete Host value `hs` and target `tgs`)

   TLS-port events (side "t"):
     TConnect c      the TCP connection was made (x = "ok" | "refused")
     TEof c xs       the client saw the end of the connection; xs = what it had received outside an established TLS
                     connection, classified by the harness: "hs" (handshake records), "alert", "plain" (anything
                     that is not a TLS record - an HTTP answer in the clear)
     TEst c          the client completed the handshake
     TServed c r     the probe's response, parsed from the decrypted stream
     TQuiet c        the probe waited the full (escalated) patience and is still not served
     TOpen c         a client that is owed the end of its connection (plain HTTP, garbage, early half-close) waited the
                     full patience and the connection is still open
     TGiveUp c       a stalling client closes (xs = what it had received)
   port-80 events (side "p"):
     PConnect p      x = "ok" | "refused"
     PResp p n ...   the n-th response on that connection: status, Location string, body class
     PEof p n        end of the connection after n responses        PQuiet p   nothing (more) arrived within the patience
     PGiveUp p       a silent client closes
   life cycle:  AppStop (x = "returned": run_tls returned after the shutdown signal) / AppStart (x = "ok")

   A scenario is ACCEPTED when some behaviour of TlsApp, the server's steps taken silently between the events,
   consumes the whole log.  Concrete strings are checked here, by TLC: the Location of a redirect must be
   "https://" \o Host \o request-target, character for character.

   Search-space reduction: a silent server step of connection d is only tried when the next event is about d, or
   when the next event's connection waits for a worker that d could release (the pool is the only coupling between
   connections); the redirect loop only accepts the connection the next event is about (its accept order is not
   observable).  Time is not modelled: Hs_Timeout / Red_ReadTimeout may fire whenever they are enabled, and TQuiet /
   PQuiet are only explainable in states in which the model says the client can wait for ever. *)
EXTENDS TlsApp, Json, IOUtils

Scens == ndJsonDeserialize(IOEnv.TRACE)

VARIABLES sc, l
tvars == <<sc, l>>

Evs == Scens[sc].events
Ev  == Evs[l]
More == l <= Len(Evs)
Is(e) == More /\ Ev.e = e
Step == l' = l + 1 /\ sc' = sc

UnusedP == [host |-> "none", tform |-> "none", wf |-> FALSE, beh |-> "unused", nreq |-> 0, hs |-> "", tgs |-> ""]
TKOf(i) == [c \in TIds |-> IF c <= Len(Scens[i].tk) THEN Scens[i].tk[c] ELSE "unused"]
PKOf(i) == [p \in PIds |-> IF p <= Len(Scens[i].pk) THEN Scens[i].pk[p] ELSE UnusedP]

TraceInit == \E i \in 1..Len(Scens) : sc = i /\ l = 1 /\ Init0(<<>>) /\ TlsInit(TKOf(i), PKOf(i))

NextT == More /\ Ev.side = "t"
NextP == More /\ Ev.side = "p"

(***************** silent server steps, restricted to what the next event can depend on *****************)
HoldsWorker(d) == ts[d] \in {"hs", "est"}
WaitsForWorker(d) == ts[d] \in {"conn", "queued"} /\ Busy >= Capacity
Relevant(d) ==
  /\ NextT /\ Ev.c \in TIds
  /\ \/ Ev.c = d
     \/ (WaitsForWorker(Ev.c) /\ HoldsWorker(d))
     \/ (Ev.e \in {"TQuiet", "TOpen"} /\ tkind[d] = "stall")    \* stallers taking the workers explain the wait
SilentT == \E d \in TIds :
             /\ Relevant(d)
             /\ \/ Acc_Accept(d) \/ Wrk_Start(d) \/ Hs_Complete(d) \/ Hs_Reject(d) \/ Hs_PeerClosed(d)
                \/ Hs_Timeout(d) \/ Probe_Serve(d)
             /\ UNCHANGED tvars
SilentP == /\ NextP /\ Ev.c \in PIds
           /\ \/ Red_AcceptOf(Ev.c) \/ Red_Respond \/ Red_Bad \/ Red_Gone \/ Red_ReadTimeout
           /\ UNCHANGED tvars

(***************** TLS-port events *****************)
TConnect == /\ Is("TConnect") /\ Step
            /\ IF Ev.x = "ok" THEN T_Connect(Ev.c) ELSE T_Refused(Ev.c)
TEof ==     /\ Is("TEof") /\ Step
            /\ ts[Ev.c] = "closed" /\ raw[Ev.c] = Ev.xs
            /\ UNCHANGED allvars
TEst ==     /\ Is("TEst") /\ Step
            /\ ts[Ev.c] \in {"est", "closed"} /\ tkind[Ev.c] = "probe" /\ raw[Ev.c] = <<>>
            /\ UNCHANGED allvars
TServed ==  /\ Is("TServed") /\ Step
            /\ served[Ev.c] /\ Matches(Ev.r, ProbeDemanded)
            /\ UNCHANGED allvars
\* a probe may wait for ever only while every worker is held by a client that may legitimately hold it for ever:
\* a stalled handshake when no connection timeout is configured
HeldForGood(d) == tkind[d] = "stall" /\ ~gone[d] /\ ts[d] = "hs" /\ ~(HasTimeout /\ Runtime = "threaded")
TQuiet ==   /\ Is("TQuiet") /\ Step
            /\ ts[Ev.c] \in {"conn", "queued"} /\ acc = "listening" /\ Runtime = "threaded"
            /\ Cardinality({ d \in TIds : HeldForGood(d) }) + RedirectShare >= Workers
            /\ gone' = [gone EXCEPT ![Ev.c] = TRUE]        \* the probe gives up and closes
            /\ UNCHANGED <<vars, acc, stops, accCur, tkind, ts, raw, served, leak, pend, redvars>>
\* likewise a client whose connection nobody has looked at yet
TOpen ==    /\ Is("TOpen") /\ Step
            /\ ts[Ev.c] \in {"conn", "queued"} /\ acc = "listening" /\ Runtime = "threaded" /\ Ev.xs = <<>>
            /\ Cardinality({ d \in TIds : HeldForGood(d) }) + RedirectShare >= Workers
            /\ gone' = [gone EXCEPT ![Ev.c] = TRUE]
            /\ UNCHANGED <<vars, acc, stops, accCur, tkind, ts, raw, served, leak, pend, redvars>>
\* what a stalling client has received when it gives up must be nothing (or whatever the model wrote to it)
TGiveUp ==  /\ Is("TGiveUp") /\ Step
            /\ raw[Ev.c] = Ev.xs
            /\ IF ts[Ev.c] \in {"conn", "queued", "hs"} /\ ~gone[Ev.c]
               THEN gone' = [gone EXCEPT ![Ev.c] = TRUE]
               ELSE gone' = gone
            /\ UNCHANGED <<vars, acc, stops, accCur, tkind, ts, raw, served, leak, pend, redvars>>

(***************** port-80 events *****************)
PK == pkind[Ev.c]
PConnect == /\ Is("PConnect") /\ Step
            /\ IF Ev.x = "ok" THEN P_Connect(Ev.c) ELSE P_Refused(Ev.c)
ExpLoc(k) == "https://" \o k.hs \o k.tgs
PRespEv ==  /\ Is("PResp") /\ Step
            /\ Ev.n >= 1 /\ Ev.n <= Len(pout[Ev.c])
            /\ LET w == pout[Ev.c][Ev.n] IN
                 /\ Ev.st = w.st /\ Ev.x = w.body
                 /\ Ev.loc = (IF w.st = 301 THEN ExpLoc(PK) ELSE "")
            /\ UNCHANGED allvars
PEof ==     /\ Is("PEof") /\ Step
            /\ ps[Ev.c] = "done" /\ Ev.n = Len(pout[Ev.c])
            /\ UNCHANGED allvars
\* only a client that sends nothing may see nothing
PQuiet ==   /\ Is("PQuiet") /\ Step
            /\ PK.beh = "silent" /\ ps[Ev.c] \in {"conn", "cur"} /\ Ev.n = 0
            /\ UNCHANGED allvars
PGiveUp ==  /\ Is("PGiveUp") /\ Step
            /\ IF ps[Ev.c] \in {"conn", "cur"} /\ ~pgone[Ev.c]
               THEN pgone' = [pgone EXCEPT ![Ev.c] = TRUE]
               ELSE pgone' = pgone
            /\ UNCHANGED <<vars, tlsvars, rpc, rcur, pkind, ps, pout>>

(***************** life cycle *****************)
\* the harness has observed run_tls return: the accept loop has ended, the listener is closed
AppStopEv  == /\ Is("AppStop") /\ Step /\ Ev.x = "returned"
              /\ acc = "listening" /\ acc' = "stopped" /\ stops' = stops + 1
              /\ UNCHANGED <<vars, accCur, tkind, ts, raw, gone, served, leak, pend, redvars>>
AppStartEv == Is("AppStart") /\ Step /\ Ev.x = "ok" /\ App_Start

TraceNext == \/ TConnect \/ TEof \/ TEst \/ TServed \/ TQuiet \/ TOpen \/ TGiveUp
             \/ PConnect \/ PRespEv \/ PEof \/ PQuiet \/ PGiveUp
             \/ AppStopEv \/ AppStartEv
             \/ SilentT \/ SilentP
TraceSpec == TraceInit /\ [][TraceNext]_<<allvars, tvars>>

Done == l = Len(Evs) + 1
Report == Done => PrintT(<<"ACC", Scens[sc].id>>)
\* diagnosis of a rejected scenario (single scenario, one worker): the furthest event reached
ASSUME TLCSet(1, 0)
Furthest == IF l > TLCGet(1) THEN TLCSet(1, l) ELSE TRUE
Post == PrintT(<<"FURTHEST", TLCGet(1)>>)
=============================================================================
