------------------------------- MODULE WsAccept -------------------------------
(* Handshake clause of C11 with TLC as the oracle: Sec-WebSocket-Accept = Base64(SHA-1(key ++ GUID)),
   computed with the executable RFC definitions of spec/codec (Sha1.tla, Base64.tla; property C18 checks
   humphrey-ws' own SHA-1/Base64 against the same modules).

   IOEnv.ACCEPTS is an ndjson file written by checks/c11.py from the harness' output, one line per key:
     {"kb": [key bytes], "acc": [bytes of the Sec-WebSocket-Accept value the server answered],
      "want": [bytes of the value the harness' independent implementation wanted]}
   Both must equal the value computed here.  Lines that do not are printed and fail AllAgree. *)
EXTENDS Naturals, Sequences, TLC, Json, IOUtils

S == INSTANCE Sha1 WITH Lens <- {}, Kinds <- {}, Mut <- {}, len <- 0, kind <- 0, g <- 0, rem <- 0, h <- 0, phase <- 0
B == INSTANCE Base64 WITH Dev <- {}, text <- 0, gi <- 0, out <- 0, res <- 0

\* "258EAFA5-E914-47DA-95CA-C5AB0DC85B11" (RFC 6455 section 1.3)
Guid == <<50, 53, 56, 69, 65, 70, 65, 53, 45, 69, 57, 49, 52, 45, 52, 55, 68, 65, 45, 57, 53, 67, 65, 45,
          67, 53, 65, 66, 48, 68, 67, 56, 53, 66, 49, 49>>
AcceptOf(kb) == B!Enc(S!Sha1(kb \o Guid))

\* the example of RFC 6455 1.3: key "dGhlIHNhbXBsZSBub25jZQ==" -> "s3pPLMBiTxaQ9kYGzzhZRbK+xOo="
RfcKey    == <<100, 71, 104, 108, 73, 72, 78, 104, 98, 88, 66, 115, 90, 83, 66, 117, 98, 50, 53, 106, 90, 81, 61, 61>>
RfcAccept == <<115, 51, 112, 80, 76, 77, 66, 105, 84, 120, 97, 81, 57, 107, 89, 71, 122, 122, 104, 90, 82, 98, 75,
               43, 120, 79, 111, 61>>
ASSUME AcceptOf(RfcKey) = RfcAccept

Rec == ndJsonDeserialize(IOEnv.ACCEPTS)

VARIABLES l, bad
Init == l = 1 /\ bad = <<>>
Next == /\ l <= Len(Rec)
        /\ l' = l + 1
        /\ LET a == AcceptOf(Rec[l].kb) IN
           bad' = IF a = Rec[l].acc /\ a = Rec[l].want THEN bad ELSE Append(bad, [line |-> l, tlc |-> a])
Spec == Init /\ [][Next]_<<l, bad>>

AllAgree == (l = Len(Rec) + 1) =>
              \/ bad = <<>>
              \/ PrintT(ToJson([rejected |-> bad])) /\ FALSE
=============================================================================
