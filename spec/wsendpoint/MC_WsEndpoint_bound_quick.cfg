CONSTANTS
  Dev = {}
  NoKey = "<nokey>"
  NoAccept = ""
  AcceptOf <- MCAcceptOf
  Keys = {"k16"}
  ScriptKey = "k16"
  Modes = {"blocking", "nonblocking"}
  Echoes = {TRUE}
  Plans = {"whole", "ext"}
  Frames <- FramesBoundary
  MaxFrames = 2
  Spellings <- SpellCanon
  Pres = {"none"}
  PushPays <- PushNone
INIT MCInit
NEXT MCNext
INVARIANTS TypeOK Inv_Handshake Inv_WellFormedOut Inv_Delivered Inv_PingPong Inv_Close Inv_SockRestored Inv_Pushed GenInv
PROPERTIES NoneOnlyWhenNothing MsgIsNext ErrorOnlyAtEof
CHECK_DEADLOCK FALSE
