CONSTANTS
  Dev = {}
  NoKey = "<nokey>"
  NoAccept = ""
  AcceptOf <- MCAcceptOf
  Keys = {"k16"}
  ScriptKey = "k16"
  Modes = {"blocking", "nonblocking"}
  Echoes = {TRUE, FALSE}
  Plans = {"whole", "hdr"}
  Frames <- FramesTiny
  MaxFrames = 1
  Spellings <- SpellCanon
  Pres = {"poll", "pollpush"}
  PushPays <- PushSmallBig
INIT MCInit
NEXT MCNext
INVARIANTS TypeOK Inv_Handshake Inv_WellFormedOut Inv_Delivered Inv_PingPong Inv_Close Inv_SockRestored Inv_Pushed GenInv
PROPERTIES NoneOnlyWhenNothing MsgIsNext ErrorOnlyAtEof
CHECK_DEADLOCK FALSE
