CONSTANTS
  Dev = {}
  NoKey = "<nokey>"
  NoAccept = ""
  AcceptOf <- TraceAcceptOf
  OutLevel = "frames"
INIT TInit
NEXT TNext
CONSTRAINT Track
INVARIANTS Inv_Handshake Inv_WellFormedOut Inv_Delivered Inv_PingPong Inv_Close Inv_SockRestored Inv_Pushed
POSTCONDITION Accepted
CHECK_DEADLOCK FALSE
