CONSTANTS
  Dev = {}
  NoKey = "<nokey>"
  NoAccept = ""
  AcceptOf <- MCAcceptOf
  Keys = {"k16"}
  ScriptKey = "k16"
  Modes = {"blocking", "nonblocking"}
  Echoes = {TRUE, FALSE}
  Plans = {"whole", "hdr", "key", "pay"}
  Frames <- FramesQuick
  MaxFrames = 3
INIT MCInit
NEXT MCNext
INVARIANTS GenInv
CHECK_DEADLOCK FALSE
