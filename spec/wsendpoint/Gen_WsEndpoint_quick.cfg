CONSTANTS
  Dev = {}
  NoKey = "<nokey>"
  NoAccept = ""
  AcceptOf <- MCAcceptOf
  Keys <- KeysAll
  ScriptKey = "k16"
  Modes = {"blocking", "nonblocking"}
  Echoes = {TRUE, FALSE}
  Plans = {"whole", "hdr", "ext", "key", "pay", "each", "bytes"}
  Frames <- FramesThorough
  MaxFrames = 2
  Spellings <- SpellAll
  Pres = {"none"}
  PushPays <- PushNone
INIT MCInit
NEXT MCNext
INVARIANTS TypeOK Inv_Handshake Inv_WellFormedOut Inv_Delivered Inv_PingPong Inv_Close Inv_SockRestored Inv_Pushed GenInv
CHECK_DEADLOCK FALSE
