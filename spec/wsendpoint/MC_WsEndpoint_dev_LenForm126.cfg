CONSTANTS
  Dev = {"LenForm126"}
  NoKey = "<nokey>"
  NoAccept = ""
  AcceptOf <- MCAcceptOf
  Keys = {"k16"}
  ScriptKey = "k16"
  Modes = {"blocking", "nonblocking"}
  Echoes = {TRUE}
  Plans = {"whole"}
  Frames <- FramesBoundary
  MaxFrames = 1
  Spellings <- SpellCanon
  Pres = {"none"}
  PushPays <- PushNone
INIT MCInit
NEXT MCNext
INVARIANTS Inv_WellFormedOut
CHECK_DEADLOCK FALSE
