--------------------------- MODULE Trace_WsEndpoint ---------------------------
(* Code -> spec direction for C11.  Every line of the ndjson file IOEnv.TRACE is one connection run
   by the harness (bin wsendpoint) against a real humphrey App + humphrey_ws::websocket_handler:
     {"c": n, "mode": "blocking"|"nonblocking", "echo": bool, "pre": "none"|"poll"|"pollpush", "push": payload,
      "ev": [event, ...]}
   with the events in the order in which they were appended to the connection's log (one mutex):
     hs      key/haskey, hsv (spelling of the request), status, accept (from the 101 answer), want (Base64(SHA-1(key ++ GUID)),
             computed by an independent implementation in the harness)
     cframe  the client is about to write a frame (op, fin, pay, cuts) - logged BEFORE its first piece
     cpiece  the client is about to write the next piece, up to stream offset `upto`
     cshut   the client is about to shut down its sending side
     call    the handler is about to call recv (nb false) / recv_nonblocking (nb true); avail = FIONREAD just before
     ret     what the call returned: kind msg (text, pay) | none | closed | error
     send    the handler sent a message (text, pay) with WebsocketStream::send
     push    the handler's preamble sent its own binary message (pay) right after its empty poll; ok = send returned Ok
     drop    the handler is about to return (the stream is dropped)
     out     everything the reference client read after the 101 answer, parsed as frames, and how the
             stream ended (logged last)
   A connection is accepted when its events can be matched, in order, by steps of WsEndpoint
   (Dev = {}); frames the server consumes inside a call without returning (Ping, Pong, non-final
   fragments) are unlogged and are interposed as silent Srv_Frame steps, so the search branches.
   The furthest event reached per connection is kept in a TLC register; the postcondition lists the
   connections that could not be matched to the end. *)
EXTENDS WsEndpoint, Json, IOUtils

CONSTANT OutLevel   \* "frames": the server's output must be the model's frames one by one (today's code: one final frame
                    \*           per message) and end with a clean end of stream;
                    \* "messages": the statement itself - a well-formed frame sequence carrying the same messages, Pongs
                    \*           and Close in the same order, however the messages are cut into frames

Rec == ndJsonDeserialize(IOEnv.TRACE)

VARIABLES case, l
tvars == <<vars, case, l>>

Ev == Rec[case].ev
E  == Ev[l]

\* accept value wanted for a key: the independent computation logged with this connection's handshake
TraceAcceptOf(k) == IF Ev[1].haskey /\ Ev[1].key = k THEN Ev[1].want ELSE NoAccept

ToSet(s) == { s[i] : i \in 1..Len(s) }

\* the payload of a Close reply is not prescribed by the property: compare Close frames up to their payload
NormClose(e) == IF e.op = "close" /\ WellFormedFrame(e) THEN [e EXCEPT !.pay = <<>>, !.len = 0] ELSE e

\* a frame sequence as what it carries: data messages (fragments joined, placed where they complete), Pings/Pongs with
\* their payload, Close; a message left open at the end is kept as such
RECURSIVE Items(_, _, _)
Items(fs, cur, acc) ==
  IF fs = <<>> THEN (IF cur = <<>> THEN acc ELSE Append(acc, [op |-> "unfinished", pay |-> cur[1].pay]))
  ELSE LET f == fs[1] IN
       IF f.op \in CtlOps
       THEN Items(Tail(fs), cur, Append(acc, [op |-> f.op, pay |-> IF f.op = "close" THEN <<>> ELSE f.pay]))
       ELSE LET m == IF cur = <<>> THEN [op |-> f.op, pay |-> f.pay]
                     ELSE [op |-> cur[1].op, pay |-> Cat(cur[1].pay, f.pay)]
            IN IF f.fin THEN Items(Tail(fs), <<>>, Append(acc, m)) ELSE Items(Tail(fs), <<m>>, acc)

OutMatches ==
  /\ E.end # "timeout"
  /\ WellFormedOut(E.frames)
  /\ IF OutLevel = "frames"
     THEN /\ E.end = "eof"
          /\ Len(E.frames) = Len(srvOut)
          /\ \A i \in 1..Len(srvOut) : NormClose(E.frames[i]) = NormClose(srvOut[i])
     ELSE Items(E.frames, <<>>, <<>>) = Items(srvOut, <<>>, <<>>)
  /\ hs = "open" => dropped

RetStep ==
  IF E.kind = "msg" THEN
       /\ Srv_Frame /\ call' = "idle" /\ last' = "msg"
       /\ delivered'[Len(delivered')] = [text |-> E.text, pay |-> E.pay]
  ELSE IF E.kind = "closed" THEN Srv_Frame /\ call' = "idle" /\ last' = "closed"
  ELSE IF E.kind = "none" THEN Srv_None
  ELSE IF E.kind = "error" THEN Srv_Eof
  ELSE FALSE

Logged ==
  /\ l <= Len(Ev)
  /\ l' = l + 1 /\ UNCHANGED case
  /\ IF E.e = "hs" THEN
          /\ Cli_Handshake(IF E.haskey THEN E.key ELSE NoKey, E.hsv)
          /\ IF E.status = 101 THEN hs' = "open" /\ E.accept = accept' ELSE hs' = "refused"
     ELSE IF E.e = "cframe" THEN Cli_StartFrame([op |-> E.op, fin |-> E.fin, pay |-> E.pay], ToSet(E.cuts))
     ELSE IF E.e = "cpiece" THEN Cli_Piece /\ sentB' = E.upto
     ELSE IF E.e = "cshut" THEN Cli_Shut
     ELSE IF E.e = "call" THEN Srv_CallRecvObs(E.avail) /\ cm' = (IF E.nb THEN "nonblocking" ELSE "blocking")
     ELSE IF E.e = "ret" THEN RetStep
     ELSE IF E.e = "send" THEN
          /\ E.ok /\ echoq # <<>> /\ echoq[1] = [text |-> E.text, pay |-> E.pay]
          /\ Srv_Send
     ELSE IF E.e = "push" THEN E.ok /\ E.pay = pushpay /\ Srv_Push
     ELSE IF E.e = "drop" THEN Srv_Drop
     ELSE IF E.e = "out" THEN OutMatches /\ UNCHANGED vars
     ELSE FALSE

Silent ==
  /\ l <= Len(Ev) /\ E.e = "ret"
  /\ Srv_Frame /\ call' = "recv"
  /\ UNCHANGED <<case, l>>

TInit == \E c \in 1..Len(Rec) :
            /\ case = c /\ l = 1 /\ TLCSet(c, 1)
            /\ InitWith(Rec[c].mode, Rec[c].echo, Rec[c].pre, Rec[c].push)
TNext == Logged \/ Silent

\* CONSTRAINT with a side effect: remember how far each connection got
Track == TLCSet(case, IF TLCGet(case) > l THEN TLCGet(case) ELSE l)

Rejected == { c \in 1..Len(Rec) : TLCGet(c) # Len(Rec[c].ev) + 1 }
Accepted ==
  \/ Rejected = {}
  \/ /\ PrintT(ToJson([rejected |-> { [c |-> Rec[c].c, at |-> TLCGet(c),
                                         ev |-> IF TLCGet(c) <= Len(Rec[c].ev) THEN ToJson(Rec[c].ev[TLCGet(c)]) ELSE "end"]
                                        : c \in Rejected }]))
     /\ FALSE
=============================================================================
