----------------------------- MODULE WsEndpoint -----------------------------
(* Property C11 - the synchronous WebSocket endpoint of humphrey-ws:
     humphrey/src/app.rs            client_handler -> call_websocket_handler (Upgrade: websocket)
     humphrey-ws/src/handler.rs     handshake(): Sec-WebSocket-Key ++ GUID -> SHA-1 -> Base64 -> 101
     humphrey-ws/src/stream.rs      WebsocketStream::{recv, recv_nonblocking, send}, Drop
     humphrey-ws/src/message.rs     Message::from_stream / from_stream_nonblocking (the frame loop)
     humphrey-ws/src/frame.rs       Frame::from_stream / from_stream_nonblocking (header, length, key, payload)

   One connection.  A *client* (RFC 6455 reference client) performs the opening handshake and then
   puts masked frames on the wire, each frame possibly written in several pieces; the *network*
   delivers any amount of what has been written (the kernel may coalesce or split pieces); the
   *server handler* repeatedly calls recv (blocking) or recv_nonblocking, optionally echoes what it
   received with send, and finally returns, which drops the stream.  A handler may also MIX the two
   calls on one stream: with pre = "poll" it first polls with recv_nonblocking while nothing is
   pending (the client holds its frames back until that poll has returned `nothing yet'), with
   pre = "pollpush" it then pushes a message of its own (of any size, to a client that may be slow
   to read) before it goes on receiving in its mode.  sock is the O_NONBLOCK state of the socket as
   the last receive call left it: frame.rs from_stream_nonblocking switches the socket to
   non-blocking for ONE header read and must switch it back whatever that read returned, because
   every other read and every write of the crate assumes a blocking socket.

   Payloads are run-length encoded byte strings: a sequence of records [b |-> byte, n |-> count]
   without empty or mergeable runs.  This keeps a 70 KiB payload a handful of runs, is lossless, and
   concatenation (Cat) is exact, so `delivered = the messages sent' is an equality on contents.

   Byte positions: client frame i occupies CWire(wire[i]) bytes (2 header + 0/2/8 extended length +
   4 masking key + payload); sentB / arrB / ConsumedB count bytes of the client's frame stream that
   were written / are known to have arrived at the server's socket / have been consumed by the server.

   Dev: named deviations of the code as it was written (KNOWN_FINDINGS.txt) and plausible bugs
   (mutants) used to show that the invariants are not vacuous.  Dev = {} satisfies every property.
     ReplyPayloadOnly  Pong, Close echo and drop-time Close are written with frame.as_ref(), i.e. the bare
                       payload bytes instead of the serialised frame (message.rs x4, stream.rs Drop)
     OneByteHeader     the non-blocking header read is ONE read() of up to 2 bytes; when only the first
                       header byte has arrived the second is taken to be 0 (unmasked, length 0) and the
                       byte stream is out of step from then on (frame.rs from_stream_nonblocking)
     NonblockingLeftOn blocking mode is restored only when the non-blocking header read found a frame; a poll that
                       reports `nothing yet' leaves the socket non-blocking: a later send that does not fit
                       into the socket buffers stops after a partial write (truncated frame on the wire) and
                       a later blocking read fails with WouldBlock instead of waiting (seeded mutant)
     PongTruncated, ControlAsData, TypeFromLast, CloseNoReply, DropCloseTwice, NoneWhilePartial,
     LenForm126, LenForm65536 (the server's encoder picks the length form with <= instead of < at 126 / 65536)
                       (mutants = plausible bugs, see the actions) *)
EXTENDS Naturals, Sequences, FiniteSets, TLC

CONSTANTS Dev,            \* set of deviation / mutant names
          NoKey,          \* "the request carries no Sec-WebSocket-Key header"
          NoAccept,       \* accept value of a connection that was not upgraded
          AcceptOf(_)     \* key |-> Base64(SHA-1(key ++ GUID))

-----------------------------------------------------------------------------
(* Payloads *)
RECURSIVE PLen(_)
PLen(p) == IF p = <<>> THEN 0 ELSE p[1].n + PLen(Tail(p))

Normal(p) == \A i \in 1..Len(p) : p[i].n > 0 /\ (i < Len(p) => p[i].b # p[i + 1].b)

Cat(p, q) ==
  IF p = <<>> THEN q
  ELSE IF q = <<>> THEN p
  ELSE IF p[Len(p)].b = q[1].b
       THEN SubSeq(p, 1, Len(p) - 1) \o <<[b |-> q[1].b, n |-> p[Len(p)].n + q[1].n]>> \o Tail(q)
       ELSE p \o q

\* a payload without its last byte (mutant PongTruncated)
Trunc(p) == IF p = <<>> THEN p
            ELSE IF p[Len(p)].n = 1 THEN SubSeq(p, 1, Len(p) - 1)
            ELSE [p EXCEPT ![Len(p)].n = @ - 1]

-----------------------------------------------------------------------------
(* Frames.  A client frame is [op, fin, pay]; it is always masked on the wire. *)
DataOps == {"text", "binary", "cont"}
CtlOps  == {"ping", "pong", "close"}
Ops     == DataOps \cup CtlOps

Ext(n)   == IF n < 126 THEN 0 ELSE IF n < 65536 THEN 2 ELSE 8
Form(n)  == IF n < 126 THEN 7 ELSE IF n < 65536 THEN 16 ELSE 64      \* minimal length form (RFC 6455 5.2)
CWire(f) == 6 + Ext(PLen(f.pay)) + PLen(f.pay)

RECURSIVE SumWire(_)
SumWire(fs) == IF fs = <<>> THEN 0 ELSE CWire(fs[1]) + SumWire(Tail(fs))

\* fragmentation state after a sequence of frames: is a fragmented message open?
RECURSIVE OpenAfter(_)
OpenAfter(fs) ==
  IF fs = <<>> THEN FALSE
  ELSE LET f == fs[Len(fs)] IN
       IF f.op \in DataOps THEN ~f.fin ELSE OpenAfter(SubSeq(fs, 1, Len(fs) - 1))

HasClose(fs) == \E i \in 1..Len(fs) : fs[i].op = "close"

\* may a conforming client send f after fs?  (RFC 6455 5.4, 5.5)
LegalNext(fs, f) ==
  /\ ~HasClose(fs)
  /\ Normal(f.pay)
  /\ f.op \in {"text", "binary"} => ~OpenAfter(fs)
  /\ f.op = "cont" => OpenAfter(fs)
  /\ f.op \in CtlOps => f.fin /\ PLen(f.pay) <= 125
  /\ f.op = "close" => PLen(f.pay) # 1

(* The denotation of a frame sequence: the complete messages in it up to the first Close.
   Fragments are concatenated in order, the type is that of the first fragment, control frames
   between fragments are skipped. *)
RECURSIVE MsgsR(_, _, _)
MsgsR(fs, cur, acc) ==
  IF fs = <<>> THEN acc
  ELSE LET f == fs[1] IN
       IF f.op = "close" THEN acc
       ELSE IF f.op \in CtlOps THEN MsgsR(Tail(fs), cur, acc)
       ELSE LET m == IF cur = <<>> THEN [text |-> f.op = "text", pay |-> f.pay]
                     ELSE [text |-> cur[1].text, pay |-> Cat(cur[1].pay, f.pay)]
            IN IF f.fin THEN MsgsR(Tail(fs), <<>>, Append(acc, m))
               ELSE MsgsR(Tail(fs), <<m>>, acc)
Msgs(fs) == MsgsR(fs, <<>>, <<>>)

\* payloads of the Pings before the first Close
RECURSIVE PingPays(_)
PingPays(fs) ==
  IF fs = <<>> THEN <<>>
  ELSE IF fs[1].op = "close" THEN <<>>
  ELSE IF fs[1].op = "ping" THEN <<fs[1].pay>> \o PingPays(Tail(fs))
  ELSE PingPays(Tail(fs))

(* What the server puts on the wire, as the reference client's frame parser reports it:
   fin, rsv (0..7), op (name, or "op<n>" for an unknown opcode, "raw" in the model for bytes that are
   no frame at all), mask bit, lf = length form used (7/16/64), len = announced length,
   pay = payload bytes actually read, trunc = the stream ended inside this frame. *)
\* length form chosen by the server's encoder (frame.rs From<Frame> for Vec<u8>: `< 126', `< 65536')
SrvForm(n) == IF "LenForm126" \in Dev THEN (IF n <= 126 THEN 7 ELSE IF n < 65536 THEN 16 ELSE 64)
              ELSE IF "LenForm65536" \in Dev THEN (IF n < 126 THEN 7 ELSE IF n <= 65536 THEN 16 ELSE 64)
              ELSE Form(n)
SrvFrame(op, pay) == [fin |-> TRUE, rsv |-> 0, op |-> op, mask |-> FALSE, lf |-> SrvForm(PLen(pay)),
                      len |-> PLen(pay), pay |-> pay, trunc |-> FALSE]
RawBytes(pay)     == [fin |-> FALSE, rsv |-> 0, op |-> "raw", mask |-> FALSE, lf |-> 7,
                      len |-> PLen(pay), pay |-> pay, trunc |-> TRUE]

WellFormedFrame(e) ==
  /\ e.op \in Ops /\ e.rsv = 0 /\ ~e.mask /\ ~e.trunc
  /\ e.len = PLen(e.pay) /\ e.lf = Form(e.len) /\ Normal(e.pay)
  /\ e.op \in CtlOps => e.fin /\ e.len <= 125
  /\ e.op = "close" => e.len # 1

\* ... and as a sequence: continuation only inside a fragmented message, nothing after a Close
WellFormedOut(out) ==
  /\ \A i \in 1..Len(out) : WellFormedFrame(out[i])
  /\ \A i \in 1..Len(out) :
       LET before == SubSeq(out, 1, i - 1) IN
       /\ ~HasClose(before)
       /\ out[i].op \in {"text", "binary"} => ~OpenAfter(before)
       /\ out[i].op = "cont" => OpenAfter(before)

PongPays(out) == LET s == SelectSeq(out, LAMBDA e : e.op = "pong") IN [i \in 1..Len(s) |-> s[i].pay]
NumClose(out) == Len(SelectSeq(out, LAMBDA e : e.op = "close"))

-----------------------------------------------------------------------------
VARIABLES
  hs,        \* "init" | "open" (101 sent) | "refused" (not upgraded, connection closed)
  key,       \* key offered by the client (NoKey: none); "-" before the handshake
  hsv,       \* spelling of the upgrade request: "canon" (the header names and tokens exactly as in RFC 6455 4.1's
             \* example) or the name of a variant in other letter case; "-" before the handshake
  status,    \* status code of the handshake answer (0: connection closed without an answer)
  accept,    \* Sec-WebSocket-Accept of the answer
  mode,      \* "blocking" | "nonblocking": which receive call the handler uses (after its preamble)
  echo,      \* TRUE: the handler sends every received message back
  pre,       \* handler preamble: "none" | "poll" (one empty recv_nonblocking first) | "pollpush" (... then a push)
  pushpay,   \* payload of the binary message pushed by the preamble
  wire,      \* frames the client has started to write, in order
  cuts,      \* cuts[i]: set of offsets inside frame i after which the client pauses
  sentB,     \* bytes of the frame stream written so far
  arrB,      \* bytes the server side has observed to have arrived (a lower bound, see `Network')
  cst,       \* "run" | "shut" (client has shut down its sending side: EOF after sentB bytes)
  ci,        \* number of client frames the server has consumed
  call,      \* "idle" | "recv": is the handler inside a receive call?
  frags,     \* data frames collected by the current receive call (message.rs `frames`)
  last,      \* result of the last receive call: "-" | "msg" | "none" | "closed" | "error"
  srvOut,    \* everything the server has written after the 101 answer, as frames
  delivered, \* messages returned by recv / recv_nonblocking, in order
  echoq,     \* message the handler is about to send back (<<>> or <<m>>)
  closed,    \* a receive call reported ConnectionClosed (WebsocketStream.closed)
  failed,    \* a receive call reported an error other than ConnectionClosed
  dropped,   \* the handler has returned and the stream was dropped
  desync,    \* OneByteHeader happened: server and client disagree about frame boundaries
  sock,      \* "blocking" | "nonblocking": O_NONBLOCK of the socket as the server's last fcntl left it
  cm,        \* which call the current / last receive call is: "blocking" (recv) | "nonblocking" (recv_nonblocking)
  polled,    \* the preamble's empty poll has returned
  pushed     \* the preamble's push has been written

cvars == <<wire, cuts, sentB, cst>>
svars == <<ci, call, frags, last, srvOut, delivered, echoq, closed, failed, dropped, desync, sock, cm, polled, pushed>>
hvars == <<hs, key, hsv, status, accept, mode, echo, pre, pushpay>>
vars  == <<hvars, cvars, arrB, svars>>

Consumed  == SubSeq(wire, 1, ci)
ConsumedB == SumWire(Consumed)
TotalB    == SumWire(wire)                        \* bytes of all frames started
StartB(i) == SumWire(SubSeq(wire, 1, i - 1))      \* offset of frame i in the stream
NB        == cm = "nonblocking" /\ frags = <<>>    \* message.rs `is_first_frame`: the next header read does not block

InitWith(m, e, p, pp) ==
  /\ hs = "init" /\ key = "-" /\ hsv = "-" /\ status = 0 /\ accept = NoAccept /\ mode = m /\ echo = e /\ pre = p /\ pushpay = pp
  /\ sock = "blocking" /\ cm = m /\ polled = FALSE /\ pushed = FALSE
  /\ wire = <<>> /\ cuts = <<>> /\ sentB = 0 /\ arrB = 0 /\ cst = "run"
  /\ ci = 0 /\ call = "idle" /\ frags = <<>> /\ last = "-" /\ srvOut = <<>> /\ delivered = <<>>
  /\ echoq = <<>> /\ closed = FALSE /\ failed = FALSE /\ dropped = FALSE /\ desync = FALSE

-----------------------------------------------------------------------------
(* Handshake (app.rs: `Upgrade: websocket` -> call_websocket_handler -> handler.rs handshake).
   One step: request and answer.  Without a key the handler returns, the stream is dropped and the
   client sees the connection close without a 101.  The property says what a 101 must carry and that
   a request without a key is not upgraded; it does not say that a request whose header names or
   tokens are spelled in another letter case (upgrade:, SEC-WEBSOCKET-KEY:, Upgrade: WebSocket, ...)
   must be upgraded, so for those both outcomes are allowed - but a 101 always carries the right
   accept value. *)
Cli_Handshake(k, v) ==
  /\ hs = "init"
  /\ key' = k /\ hsv' = v
  /\ \/ /\ k # NoKey
        /\ hs' = "open" /\ status' = 101 /\ accept' = AcceptOf(k)
     \/ /\ k = NoKey \/ v # "canon"
        /\ hs' = "refused" /\ status' = 0 /\ accept' = NoAccept
  /\ UNCHANGED <<mode, echo, pre, pushpay, cvars, arrB, svars>>

(* Client.  A frame is started by writing its first piece (up to the first cut, or all of it). *)
NextStop(i, from) ==      \* where the current piece of frame i ends, given `from` bytes of the stream are out
  LET s == StartB(i)
      c == { s + o : o \in cuts[i] } \cup { s + CWire(wire[i]) }
  IN  CHOOSE x \in c : x > from /\ \A y \in c : y > from => x <= y

Cli_StartFrame(f, cs) ==
  /\ hs = "open" /\ cst = "run" /\ sentB = TotalB
  /\ pre = "none" \/ polled          \* the client holds its frames back until the handler's empty poll has returned
  /\ LegalNext(wire, f)
  /\ cs \subseteq 1..(CWire(f) - 1)
  /\ wire' = Append(wire, f) /\ cuts' = Append(cuts, cs)
  /\ sentB' = sentB + (IF cs = {} THEN CWire(f) ELSE CHOOSE x \in cs : \A y \in cs : x <= y)
  /\ UNCHANGED <<hvars, cst, arrB, svars>>

Cli_Piece ==
  /\ cst = "run" /\ sentB < TotalB
  /\ sentB' = NextStop(Len(wire), sentB)
  /\ UNCHANGED <<hvars, wire, cuts, cst, arrB, svars>>

\* the client shuts down its sending side (possibly in the middle of a frame); it keeps reading
Cli_Shut ==
  /\ hs = "open" /\ cst = "run"
  /\ cst' = "shut"
  /\ UNCHANGED <<hvars, wire, cuts, sentB, arrB, svars>>

(* Network.  Any amount of what the client has written may have arrived when the server reads (the
   kernel may coalesce pieces or deliver a prefix of one), and arrival is monotone.  The network is
   therefore not a separate process here: arrB is the number of bytes the SERVER SIDE HAS OBSERVED to
   have arrived (a lower bound of what has arrived), every read observes some amount between arrB
   and sentB, and the guards below say which observation each outcome needs.  Because every guard
   is a threshold on the amount arrived, this has exactly the behaviours of a model with an explicit
   delivery action, without its interleavings. *)
Max(a, b) == IF a >= b THEN a ELSE b
Observe(n) ==        \* the server learns that (at least) n bytes have arrived
  /\ n <= sentB
  /\ arrB' = Max(arrB, n)

-----------------------------------------------------------------------------
(* Server handler *)
\* the handler enters recv / recv_nonblocking; n = bytes it could see waiting in the socket just before
\* (0 when it did not look): a lower bound on what has arrived
Srv_CallRecvObs(n) ==
  /\ hs = "open" /\ call = "idle" /\ ~closed /\ ~failed /\ ~dropped /\ echoq = <<>>
  /\ (pre = "pollpush" /\ polled) => pushed
  /\ Observe(ConsumedB + n)
  /\ call' = "recv" /\ frags' = <<>>
  /\ cm' = IF pre # "none" /\ ~polled THEN "nonblocking" ELSE mode      \* the preamble's poll, then the handler's mode
  /\ UNCHANGED <<hvars, cvars, ci, last, srvOut, delivered, echoq, closed, failed, dropped, desync, sock, polled, pushed>>
Srv_CallRecv == Srv_CallRecvObs(0)

\* bytes the server writes for a reply frame
Reply(op, pay) ==
  IF "ReplyPayloadOnly" \in Dev
  THEN (IF pay = <<>> THEN <<>> ELSE <<RawBytes(pay)>>)
  ELSE <<SrvFrame(op, pay)>>

RECURSIVE CatAll(_)
CatAll(fs) == IF fs = <<>> THEN <<>> ELSE Cat(fs[1].pay, CatAll(Tail(fs)))
MsgOf(fr) == [text |-> (IF "TypeFromLast" \in Dev THEN fr[Len(fr)] ELSE fr[1]).op = "text",
              pay  |-> CatAll(fr)]

\* message.rs loop body for one decoded frame f
DataStep(f) ==
  LET fr == Append(frags, f) IN
  IF f.fin
  THEN LET m == MsgOf(fr) IN
       /\ delivered' = Append(delivered, m) /\ frags' = <<>> /\ call' = "idle" /\ last' = "msg"
       /\ echoq' = IF echo THEN <<m>> ELSE <<>>
       /\ UNCHANGED <<srvOut, closed>>
  ELSE /\ frags' = fr
       /\ UNCHANGED <<delivered, call, last, echoq, srvOut, closed>>

Process(f) ==
  IF f.op = "ping" THEN
       IF "ControlAsData" \in Dev
       THEN DataStep(f)
       ELSE /\ srvOut' = srvOut \o Reply("pong", IF "PongTruncated" \in Dev THEN Trunc(f.pay) ELSE f.pay)
            /\ UNCHANGED <<frags, delivered, call, last, echoq, closed>>
  ELSE IF f.op = "pong" THEN       \* last_pong = now
       UNCHANGED <<frags, delivered, call, last, echoq, closed, srvOut>>
  ELSE IF f.op = "close" THEN
       /\ srvOut' = IF "CloseNoReply" \in Dev THEN srvOut ELSE srvOut \o Reply("close", f.pay)
       /\ closed' = TRUE /\ call' = "idle" /\ last' = "closed" /\ frags' = <<>>
       /\ UNCHANGED <<delivered, echoq>>
  ELSE DataStep(f)

\* Frame::from_stream*: the header read and the read_exact calls complete once the whole frame has arrived
\* (a partially arrived frame blocks the call - also the non-blocking one, after its first byte)
Srv_Frame ==
  /\ call = "recv" /\ ~desync /\ ci < Len(wire)
  /\ Observe(ConsumedB + CWire(wire[ci + 1]))
  /\ ci' = ci + 1
  /\ Process(wire[ci + 1])
  /\ sock' = IF NB THEN "blocking" ELSE sock     \* set_nonblocking; read -> Ok(n); set_blocking
  /\ UNCHANGED <<hvars, cvars, failed, dropped, desync, cm, polled, pushed>>

\* deviation: exactly one byte of the next frame is there when the non-blocking header read runs
Srv_OneByte ==
  /\ "OneByteHeader" \in Dev
  /\ call = "recv" /\ ~desync /\ NB /\ ci < Len(wire)
  /\ arrB <= ConsumedB + 1 /\ Observe(ConsumedB + 1)
  /\ desync' = TRUE
  /\ Process([op |-> wire[ci + 1].op, fin |-> wire[ci + 1].fin, pay |-> <<>>])
  /\ sock' = "blocking"
  /\ UNCHANGED <<hvars, cvars, ci, failed, dropped, cm, polled, pushed>>
\* ... after which the rest of the byte stream is read as garbage (approximated by an error)
Srv_Garbage ==
  /\ call = "recv" /\ desync
  /\ call' = "idle" /\ last' = "error" /\ failed' = TRUE /\ frags' = <<>>
  /\ UNCHANGED <<hvars, cvars, arrB, ci, srvOut, delivered, echoq, closed, dropped, desync, sock, cm, polled, pushed>>

\* recv_nonblocking: `nothing yet' - WouldBlock (or Ok(0) at end of stream) on the header read
Srv_None ==
  /\ call = "recv" /\ ~desync /\ NB
  /\ \/ arrB = ConsumedB /\ UNCHANGED arrB          \* nothing beyond what was consumed is there
     \/ /\ "NoneWhilePartial" \in Dev /\ ci < Len(wire) /\ Observe(ConsumedB + 1)
  /\ call' = "idle" /\ last' = "none"
  /\ sock' = IF "NonblockingLeftOn" \in Dev THEN "nonblocking" ELSE "blocking"    \* set_blocking also after WouldBlock / Ok(0)
  /\ polled' = TRUE
  /\ UNCHANGED <<hvars, cvars, ci, frags, srvOut, delivered, echoq, closed, failed, dropped, desync, cm, pushed>>

\* end of stream inside (blocking: also before) a frame: read_exact fails -> ReadError.
\* Leniency EofPollEither: a poll at the end of the stream with nothing pending returns `nothing yet' today (Ok(0) on
\* the header read, Srv_None); the statement only restricts WHEN `nothing yet' may be reported, so reporting the end of
\* the stream as an error there is accepted as well.
Srv_Eof ==
  /\ call = "recv" /\ ~desync
  /\ cst = "shut" /\ Observe(sentB)
  /\ IF ci = Len(wire) THEN TRUE ELSE sentB < ConsumedB + CWire(wire[ci + 1])
  /\ call' = "idle" /\ last' = "error" /\ failed' = TRUE /\ frags' = <<>>
  /\ sock' = IF NB THEN "blocking" ELSE sock
  /\ UNCHANGED <<hvars, cvars, ci, srvOut, delivered, echoq, closed, dropped, desync, cm, polled, pushed>>

\* a blocking read on a socket that was left non-blocking: WouldBlock -> ReadError unless everything needed is there
\* (reachable only under NonblockingLeftOn: Inv_SockRestored says sock = "blocking" between calls)
Srv_WouldBlock ==
  /\ call = "recv" /\ ~desync /\ ~NB /\ sock = "nonblocking"
  /\ IF ci = Len(wire) THEN TRUE ELSE arrB < ConsumedB + CWire(wire[ci + 1])
  /\ call' = "idle" /\ last' = "error" /\ failed' = TRUE /\ frags' = <<>>
  /\ UNCHANGED <<hvars, cvars, arrB, ci, srvOut, delivered, echoq, closed, dropped, desync, sock, cm, polled, pushed>>

\* WebsocketStream::send of the message just received (Message::to_frame: one unmasked final frame)
\* write_all of one frame.  On a blocking socket it completes whatever the size (it waits for the client to read).
\* On a socket left non-blocking a frame that is not certain to fit into the socket buffers may stop after a
\* partial write: the client sees a truncated frame.  (4096 bytes always fit into an idle connection's buffers.)
Written(op, pay) ==
  IF sock = "nonblocking" /\ PLen(pay) > 4096
  THEN { SrvFrame(op, pay), [SrvFrame(op, pay) EXCEPT !.trunc = TRUE] }
  ELSE { SrvFrame(op, pay) }

Srv_Send ==
  /\ call = "idle" /\ echoq # <<>> /\ ~dropped
  /\ \E w \in Written(IF echoq[1].text THEN "text" ELSE "binary", echoq[1].pay) : srvOut' = Append(srvOut, w)
  /\ echoq' = <<>>
  /\ UNCHANGED <<hvars, cvars, arrB, ci, call, frags, last, delivered, closed, failed, dropped, desync, sock, cm, polled, pushed>>

\* the preamble's push: WebsocketStream::send(Message::new_binary(pushpay)) right after the empty poll
Srv_Push ==
  /\ hs = "open" /\ call = "idle" /\ ~dropped /\ pre = "pollpush" /\ polled /\ ~pushed
  /\ \E w \in Written("binary", pushpay) : srvOut' = Append(srvOut, w)
  /\ pushed' = TRUE
  /\ UNCHANGED <<hvars, cvars, arrB, ci, call, frags, last, delivered, echoq, closed, failed, dropped, desync, sock, cm, polled>>

\* the handler returns: Drop for WebsocketStream sends a Close unless one was already exchanged
Srv_Drop ==
  /\ hs = "open" /\ call = "idle" /\ ~dropped /\ echoq = <<>>
  /\ dropped' = TRUE
  /\ srvOut' = IF closed /\ "DropCloseTwice" \notin Dev THEN srvOut ELSE srvOut \o Reply("close", <<>>)
  /\ UNCHANGED <<hvars, cvars, arrB, ci, call, frags, last, delivered, echoq, closed, failed, desync, sock, cm, polled, pushed>>

SrvNext == Srv_CallRecv \/ Srv_Frame \/ Srv_OneByte \/ Srv_Garbage \/ Srv_None \/ Srv_Eof \/ Srv_WouldBlock
           \/ Srv_Send \/ Srv_Push \/ Srv_Drop

-----------------------------------------------------------------------------
(* Properties *)
TypeOK ==
  /\ hs \in {"init", "open", "refused"} /\ mode \in {"blocking", "nonblocking"} /\ echo \in BOOLEAN
  /\ cst \in {"run", "shut"} /\ call \in {"idle", "recv"} /\ last \in {"-", "msg", "none", "closed", "error"}
  /\ pre \in {"none", "poll", "pollpush"} /\ sock \in {"blocking", "nonblocking"} /\ cm \in {"blocking", "nonblocking"}
  /\ Len(cuts) = Len(wire) /\ ci <= Len(wire)
  /\ ConsumedB <= arrB /\ arrB <= sentB /\ sentB <= TotalB
  /\ \A i \in 1..Len(wire) : LegalNext(SubSeq(wire, 1, i - 1), wire[i])
  /\ \A i \in 1..Len(delivered) : Normal(delivered[i].pay)

\* 101 with the right accept value iff a key was offered; nothing is written on a connection that was not upgraded
Inv_Handshake ==
  /\ hs = "open"    => key # NoKey /\ status = 101 /\ accept = AcceptOf(key)
  /\ hs = "refused" => (key = NoKey \/ hsv # "canon") /\ status # 101
  /\ hs # "open"    => srvOut = <<>> /\ delivered = <<>>

\* everything the server writes is a sequence of well-formed unmasked frames
Inv_WellFormedOut == WellFormedOut(srvOut)

\* receiving delivers exactly the messages sent - in particular the same in both modes (Msgs does not mention mode)
Inv_Delivered == ~desync /\ delivered = Msgs(Consumed)

\* each Ping is answered by a Pong with the same payload, in order
Inv_PingPong == PongPays(srvOut) = PingPays(Consumed)

\* a Close is answered by a Close and reported as connection-closed; dropping the stream sends a Close;
\* there is never more than one Close and nothing follows it
Inv_Close ==
  /\ closed <=> HasClose(Consumed)
  /\ closed => last = "closed"
  /\ NumClose(srvOut) = (IF closed \/ dropped THEN 1 ELSE 0)
  /\ closed \/ dropped => Len(srvOut) > 0 /\ srvOut[Len(srvOut)].op = "close"

\* every receive call - also one that reports `nothing yet' - leaves the socket in blocking mode ...
Inv_SockRestored == call = "idle" => sock = "blocking"
\* ... so a message the handler sends is written completely whatever its size (the pushed frame is in srvOut, whole)
Inv_Pushed == pushed => \E i \in 1..Len(srvOut) : srvOut[i] = SrvFrame("binary", pushpay)
\* ... and a receive call fails only at the end of the client's stream: a blocking receive after an empty poll waits
ErrorOnlyAtEof == [][(failed' /\ ~failed) => (cst = "shut" /\ arrB' = sentB)]_vars

\* `nothing yet' only when no frame has started to arrive
NoneOnlyWhenNothing == [][(call = "recv" /\ call' = "idle" /\ last' = "none") => arrB' = ConsumedB]_vars

\* a receive call that returns a message returns exactly the next message of the stream
MsgIsNext == [][(last' = "msg" /\ Len(delivered') = Len(delivered) + 1)
                  => delivered' = SubSeq(Msgs(wire), 1, Len(delivered'))]_vars

(* Progress, for a handler that keeps receiving (no fairness on Srv_Drop, Srv_None, Cli_Shut, Cli_StartFrame):
   a Close that was sent completely is eventually answered and reported (or the handler gave up / failed);
   every complete message that was sent completely is eventually delivered. *)
SentFrames == IF sentB = TotalB THEN wire ELSE SubSeq(wire, 1, Len(wire) - 1)
\* The network eventually delivers what was written: since delivery is folded into the reads, this is STRONG
\* fairness of the reads that need an arrival (a polling handler may see `nothing yet' any number of times,
\* but not forever once the frame has been written).
Fairness ==
  /\ WF_vars(Cli_Piece)
  /\ WF_vars(Srv_CallRecv) /\ SF_vars(Srv_Frame) /\ SF_vars(Srv_Eof) /\ WF_vars(Srv_Send) /\ WF_vars(Srv_Push) /\ WF_vars(Srv_Garbage)
CloseAnswered == HasClose(SentFrames) ~> (closed \/ dropped \/ failed)
AllDeliveredUpTo(K) == \A k \in 1..K : (Len(Msgs(SentFrames)) >= k) ~> (Len(delivered) >= k \/ dropped \/ failed)
=============================================================================
