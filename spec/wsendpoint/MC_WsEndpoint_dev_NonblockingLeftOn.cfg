CONSTANTS
  Dev = {"NonblockingLeftOn"}
  NoKey = "<nokey>"
  NoAccept = ""
  AcceptOf <- MCAcceptOf
  Keys = {"k16"}
  ScriptKey = "k16"
  Modes = {"blocking", "nonblocking"}
  Echoes = {FALSE}
  Plans = {"whole", "hdr"}
  Frames <- FramesTiny
  MaxFrames = 1
  Spellings <- SpellCanon
  Pres = {"poll", "pollpush"}
  PushPays <- PushSmallBig
INIT MCInit
NEXT MCNext
INVARIANTS Inv_SockRestored
CHECK_DEADLOCK FALSE
