CONSTANTS
  Dev = {"TypeFromLast"}
  NoKey = "<nokey>"
  NoAccept = ""
  AcceptOf <- MCAcceptOf
  Keys = {"k16"}
  ScriptKey = "k16"
  Modes = {"blocking", "nonblocking"}
  Echoes = {FALSE}
  Plans = {"whole", "hdr"}
  Frames <- FramesTiny
  MaxFrames = 2
  Spellings <- SpellCanon
  Pres = {"none"}
  PushPays <- PushNone
INIT MCInit
NEXT MCNext
INVARIANTS Inv_Delivered
CHECK_DEADLOCK FALSE
