CONSTANTS
  Dev = {}
  NoKey = "<nokey>"
  NoAccept = ""
  AcceptOf <- MCAcceptOf
  Keys = {"k16"}
  ScriptKey = "k16"
  Modes = {"blocking", "nonblocking"}
  Echoes = {FALSE}
  Plans = {"whole"}
  Frames <- FramesTiny
  MaxFrames = 3
  Spellings <- SpellCanon
  Pres = {"none"}
  PushPays <- PushNone
INIT MCInit
NEXT MCNext
INVARIANTS NeverFragmentedWithPing
CHECK_DEADLOCK FALSE
