CONSTANTS
  Dev = {}
  NoKey = "<nokey>"
  NoAccept = ""
  AcceptOf <- MCAcceptOf
  Keys = {"k16"}
  ScriptKey = "k16"
  Modes = {"blocking", "nonblocking"}
  Echoes = {TRUE, FALSE}
  Plans = {"whole", "hdr", "pay"}
  Frames <- FramesQuick
  MaxFrames = 3
  Spellings <- SpellCanon
  Pres = {"none"}
  PushPays <- PushNone
INIT MCInit
NEXT MCNext
INVARIANTS TypeOK Inv_Handshake Inv_WellFormedOut Inv_Delivered Inv_PingPong Inv_Close Inv_SockRestored Inv_Pushed GenInv
PROPERTIES NoneOnlyWhenNothing MsgIsNext ErrorOnlyAtEof
CHECK_DEADLOCK FALSE
