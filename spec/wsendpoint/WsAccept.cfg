INIT Init
NEXT Next
INVARIANTS AllAgree
CHECK_DEADLOCK FALSE
