---------------------------- MODULE MC_WsEndpoint ----------------------------
(* TLC-only part of C11: the bounded client (frame catalogue, delivery split classes), named
   wrappers of the actions (for the coverage / vacuity guard) and the emission of behaviours
   for replay on the real endpoint. *)
EXTENDS WsEndpoint, Json

CONSTANTS Keys,        \* abstract key names offered in the handshake (the harness maps them to strings)
          ScriptKey,   \* frames are only explored on the connection opened with this key
          Modes, Echoes,
          Plans,       \* delivery split classes
          Frames,      \* catalogue of client frames
          MaxFrames,
          Spellings,   \* spellings of the upgrade request; other than "canon" only with ScriptKey / without a key
          Pres,        \* handler preambles: subset of {"none", "poll", "pollpush"}
          PushPays     \* payloads pushed by the "pollpush" preamble

VARIABLE plan          \* split class used by the client on this connection

MCAcceptOf(k) == k     \* abstract: the concrete value is checked by the harness and by Trace_WsEndpoint

-----------------------------------------------------------------------------
(* payload and frame catalogue *)
R(b, n) == [b |-> b, n |-> n]
PE    == <<>>
PA    == <<R(97, 1), R(98, 1), R(99, 1)>>                 \* "abc"
PB    == <<R(98, 2)>>                                     \* "bb"  (merges with itself and with the end of "ab")
PAB   == <<R(97, 1), R(98, 1)>>                           \* "ab"
P125  == <<R(112, 125)>>                                  \* largest control payload
P126  == <<R(120, 100), R(121, 26)>>                      \* smallest 16-bit length
P64K  == <<R(122, 65536)>>                                \* smallest 64-bit length
PC    == <<R(3, 1), R(232, 1), R(111, 1), R(107, 1)>>     \* close code 1000 + "ok"
P1    == <<R(65, 1)>>
P125D == <<R(66, 100), R(67, 25)>>                        \* data payloads at the length-form boundaries of the encoder
P127  == <<R(68, 127)>>
P65535 == <<R(69, 60000), R(70, 5535)>>
P65537 == <<R(71, 65537)>>
P1M   == <<R(72, 1048576)>>                               \* 2^20
P2M   == <<R(73, 2097152)>>
PC2   == <<R(3, 1), R(232, 1)>>                           \* close code 1000 alone
PC3   == <<R(3, 1), R(233, 1), R(120, 1)>>                \* close code 1001 + "x"
PBIG  == <<R(200, 3145728), R(201, 3145728)>>             \* 6 MiB: more than the socket buffers hold while the client does not read
PushSmallBig == {PA, PBIG}
PushNone     == {PE}
F(op, fin, pay) == [op |-> op, fin |-> fin, pay |-> pay]

FramesTiny ==
  { F("text", TRUE, PA), F("text", FALSE, PAB), F("cont", TRUE, PB), F("ping", TRUE, PA), F("close", TRUE, PE) }
FramesQuick ==
  { F("text", TRUE, PA), F("text", FALSE, PAB), F("binary", TRUE, PE), F("binary", TRUE, P126),
    F("cont", TRUE, PB), F("cont", FALSE, PB),
    F("ping", TRUE, PE), F("ping", TRUE, PA), F("pong", TRUE, PA),
    F("close", TRUE, PE), F("close", TRUE, PC) }
FramesThorough ==
  FramesQuick \cup
  { F("text", TRUE, PE), F("text", FALSE, PE), F("binary", TRUE, PA), F("binary", FALSE, PB), F("binary", FALSE, PE),
    F("binary", TRUE, P64K),
    F("cont", TRUE, PE), F("cont", TRUE, P126), F("ping", TRUE, P125), F("pong", TRUE, PE) }

\* the server's ENCODER at its boundaries (every message is echoed): 0, 1, 125, 126, 127, 65535, 65536, 65537, 2^20
\* bytes in one frame, and fragmented messages whose SUM crosses 125|126 and 65535|65536; Close with 0, 2, 3, 4 bytes
FramesBoundary ==
  { F("binary", TRUE, PE), F("text", TRUE, P1), F("binary", TRUE, P125D), F("binary", TRUE, P126), F("text", TRUE, P127),
    F("binary", TRUE, P65535), F("binary", TRUE, P64K), F("text", TRUE, P65537), F("binary", TRUE, P1M),
    F("binary", FALSE, P125D), F("binary", FALSE, P65535), F("text", FALSE, PE), F("cont", TRUE, P1),
    F("ping", TRUE, P125), F("close", TRUE, PE), F("close", TRUE, PC2), F("close", TRUE, PC3), F("close", TRUE, PC) }
\* server -> client bursts: up to three 2 MiB messages echoed to a client that starts reading late
FramesBurst == { F("binary", TRUE, P2M), F("close", TRUE, PE) }

Keys12   == {"k16", "kEmpty", "k1", "k200", "kColon", "kSpace", "kPunct", "k24", "kDigits", "kEq", "kUtf8", "k1000"}
\* keys of every length 0..130: key ++ GUID runs through every SHA-1 padding class (length mod 64) twice
KeysLen  == { "kLen" \o ToString(n) : n \in 0..130 }
KeysAll  == Keys12 \cup KeysLen \cup {"kUni", "kUniEdge"}
SpellAll == {"canon", "lower", "upper", "mixed", "tokenUpper", "tokenMixed", "connLower"}
SpellCanon == {"canon"}

(* delivery split classes: offsets inside one frame after which the client pauses *)
CutsOf(f, p) ==
  LET n == PLen(f.pay)
      e == Ext(n)
      L == CWire(f)
  IN  IF p = "whole" THEN {}
      ELSE IF p = "hdr" THEN {1}
      ELSE IF p = "ext" THEN (IF e = 0 THEN {} ELSE {2 + e \div 2})
      ELSE IF p = "key" THEN {4 + e}
      ELSE IF p = "pay" THEN (IF n = 0 THEN {} ELSE {6 + e + n \div 2})
      ELSE IF p = "each" THEN {1, 4 + e} \cup (IF e = 0 THEN {} ELSE {2 + e \div 2}) \cup (IF n = 0 THEN {} ELSE {6 + e + n \div 2})
      ELSE IF p = "bytes" THEN (IF L <= 24 THEN 1..(L - 1) ELSE (1..(6 + e)) \cup {L - 1})
      ELSE {}

-----------------------------------------------------------------------------
MCInit == \E m \in Modes, e \in Echoes, p \in Plans, pr \in Pres :
            \E pp \in (IF pr = "pollpush" THEN PushPays ELSE {PE}) : InitWith(m, e, pr, pp) /\ plan = p

A_Handshake  == /\ \E k \in Keys \cup {NoKey}, v \in Spellings :
                      /\ v # "canon" => k \in {ScriptKey, NoKey}
                      \* connections that only shake hands do not vary with the split class or the echo option
                      /\ (v # "canon" \/ k \notin {ScriptKey, NoKey}) => (plan = "whole" /\ (~echo \/ FALSE \notin Echoes))
                      /\ Cli_Handshake(k, v)
                /\ UNCHANGED plan
A_StartFrame == /\ key = ScriptKey /\ hsv = "canon" /\ Len(wire) < MaxFrames
                /\ \E f \in Frames : Cli_StartFrame(f, CutsOf(f, plan))
                /\ UNCHANGED plan
A_Piece      == Cli_Piece /\ UNCHANGED plan
A_Shut       == Cli_Shut /\ UNCHANGED plan
A_CallRecv   == Srv_CallRecv /\ UNCHANGED plan
A_Frame      == Srv_Frame /\ UNCHANGED plan
A_OneByte    == Srv_OneByte /\ UNCHANGED plan
A_Garbage    == Srv_Garbage /\ UNCHANGED plan
A_None       == Srv_None /\ UNCHANGED plan
A_Eof        == Srv_Eof /\ UNCHANGED plan
A_Send       == Srv_Send /\ UNCHANGED plan
A_Push       == Srv_Push /\ UNCHANGED plan
A_WouldBlock == Srv_WouldBlock /\ UNCHANGED plan
A_Drop       == Srv_Drop /\ UNCHANGED plan

MCNext == A_Handshake \/ A_StartFrame \/ A_Piece \/ A_Shut
          \/ A_CallRecv \/ A_Frame \/ A_OneByte \/ A_Garbage \/ A_None \/ A_Eof \/ A_WouldBlock \/ A_Send \/ A_Push \/ A_Drop

mcvars == <<vars, plan>>
\* liveness: a handler that keeps receiving
MCFair ==
  /\ WF_mcvars(A_Piece) /\ WF_mcvars(A_CallRecv) /\ SF_mcvars(A_Frame) /\ SF_mcvars(A_Eof)
  /\ WF_mcvars(A_Send) /\ WF_mcvars(A_Push) /\ WF_mcvars(A_Garbage)
MCSpec == MCInit /\ [][MCNext]_mcvars /\ MCFair
AllDelivered == AllDeliveredUpTo(MaxFrames)

\* "can happen" witnesses, checked by REQUIRING a violation of the negation
NeverFragmentedWithPing ==   \* a fragmented message with a Ping between its fragments is delivered in one piece
  ~(\E i \in 1..Len(delivered) : delivered[i].pay = Cat(PAB, PB) /\ Len(srvOut) > 0 /\ srvOut[1].op = "pong")
NeverNoneThenMsg == ~(mode = "nonblocking" /\ last = "none" /\ Len(delivered) > 0)

-----------------------------------------------------------------------------
(* Emission of behaviours for replay: one line per finished connection in which the server has read
   everything the client wrote (so that closing the socket cannot reset it).  The record is the
   client's script (key, frames, cuts, how far it wrote, how it ends) and what the spec says the
   reference client and the server-side handler must have observed. *)
GenEnding == IF closed THEN "close" ELSE IF cst = "shut" THEN "shut" ELSE "stay"
GenOK ==
  \/ hs = "refused"
  \/ /\ dropped
     /\ failed \/ ConsumedB = sentB
     /\ (mode = "nonblocking" /\ ~closed /\ ~failed) => last = "none"   \* the polling handler stops after a `nothing yet'
     /\ (mode = "blocking" /\ cst = "shut" /\ ~closed) => failed           \* the blocking handler receives until an error
     /\ closed => cst = "run"
     /\ pre # "none" => polled                  \* the handler always runs its preamble
     /\ pre = "pollpush" => pushed
GenRec ==
  [key |-> key, hsv |-> hsv, mode |-> mode, echo |-> echo, plan |-> plan, pre |-> pre, push |-> pushpay,
   frames |-> [i \in 1..Len(wire) |-> [op |-> wire[i].op, fin |-> wire[i].fin, pay |-> wire[i].pay, cuts |-> cuts[i]]],
   sent |-> sentB, end |-> GenEnding,
   exp |-> [status |-> status, delivered |-> delivered, out |-> srvOut, closed |-> closed, failed |-> failed]]
GenInv == GenOK => PrintT(ToJson(GenRec))
=============================================================================
