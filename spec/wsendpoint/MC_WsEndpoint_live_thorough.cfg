CONSTANTS
  Dev = {}
  NoKey = "<nokey>"
  NoAccept = ""
  AcceptOf <- MCAcceptOf
  Keys = {"k16"}
  ScriptKey = "k16"
  Modes = {"blocking", "nonblocking"}
  Echoes = {TRUE, FALSE}
  Plans = {"whole", "hdr"}
  Frames <- FramesTiny
  MaxFrames = 3
  Spellings <- SpellCanon
  Pres = {"none"}
  PushPays <- PushNone
SPECIFICATION MCSpec
PROPERTIES CloseAnswered AllDelivered
CHECK_DEADLOCK FALSE
