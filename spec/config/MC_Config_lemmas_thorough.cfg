CONSTANTS
  Dev = {}
  AstOf <- MCAstOf
  FilesOf <- MCFilesOf
  Tier = "thorough"
INIT GenInit
NEXT GenNext
INVARIANT LemmaInv
CHECK_DEADLOCK FALSE
