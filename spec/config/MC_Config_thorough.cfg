CONSTANTS
  Dev = {}
  AstOf <- MCAstOf
  FilesOf <- MCFilesOf
  Tier = "thorough"
INIT MCInit
NEXT Next
INVARIANTS Conforms NoCrash TypeOK
CHECK_DEADLOCK FALSE
