CONSTANTS
  Dev = {}
  AstOf <- MCAstOf
  FilesOf <- MCFilesOf
  Tier = "quick"
INIT GenInit
NEXT GenNext
INVARIANT GenInv
CHECK_DEADLOCK FALSE
