CONSTANTS
  Dev = {}
  AstOf <- TrAstOf
  FilesOf <- TrFilesOf
SPECIFICATION TrSpec
INVARIANTS AllExplained
CHECK_DEADLOCK FALSE
