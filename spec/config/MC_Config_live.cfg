CONSTANTS
  Dev = {}
  AstOf <- MCAstOf
  FilesOf <- MCFilesOf
  Tier = "sens"
SPECIFICATION MCSpec
INVARIANTS Conforms NoCrash TypeOK
PROPERTY Terminates
CHECK_DEADLOCK FALSE
