CONSTANTS
  Dev = {}
  AstOf <- MCAstOf
  FilesOf <- MCFilesOf
  Tier = "dev"
SPECIFICATION MCSpec
INVARIANTS Conforms NoCrash TypeOK
PROPERTY Terminates
CHECK_DEADLOCK FALSE
