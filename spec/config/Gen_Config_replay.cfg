CONSTANTS
  Dev = {}
  AstOf <- MCAstOf
  FilesOf <- MCFilesOf
  Tier = "replay"
INIT GenInit
NEXT GenNext
INVARIANT GenInv
CHECK_DEADLOCK FALSE
