CONSTANTS
  Dev = {}
  AstOf <- MCAstOf
  FilesOf <- MCFilesOf
  Tier = "quick"
INIT GenInit
NEXT GenNext
INVARIANTS LemPermute LemSplit LemUnknown LemDefaults LemFaults
CHECK_DEADLOCK FALSE
