CONSTANTS
  Dev = {}
  AstOf <- MCAstOf
  FilesOf <- MCFilesOf
  Tier = "quick"
INIT GenInit
NEXT GenNext
INVARIANT LemmaInv
CHECK_DEADLOCK FALSE
