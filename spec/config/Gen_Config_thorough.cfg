CONSTANTS
  Dev = {}
  AstOf <- MCAstOf
  FilesOf <- MCFilesOf
  Tier = "thorough"
INIT GenInit
NEXT GenNext
INVARIANT GenInv
CHECK_DEADLOCK FALSE
