------------------------------- MODULE Config -------------------------------
(* Humphrey server configuration files (property C15).

   Part 1  LEXICAL LAYER      strings as TLC strings (Len / SubSeq / \o work on them), unbounded naturals as
                              little-endian digit sequences (TLC integers are 32 bit, `128G` is not)
   Part 2  ABSTRACT SYNTAX    what a configuration file *describes*: a tree of entries
                                Key(k, token) | Sec(name, entries) | Host(pattern, entries)
                                | Route(patternList, entries) | Include(file)
                              a value token is written Str `"..."`, Int, Bool or Size(n, unit)
   Part 3  Meaning(ast)       the configuration a well-formed file describes (every omitted key at the default
                              that Config::from_tree applies, hosts/routes in file order, comma lists expanded)
                              or the rejection it must get: syntax error AT a token / validation error
   Part 4  Faults(ast)        the single-fault mutants of the property, each hitting one token
   Part 5  THE CODE           a transcription of tree.rs parse_conf / parse_section / include / parse_size and
                              config.rs from_tree / parse_host / parse_route, one action per loop iteration /
                              per block, running on the *text* lines of a rendering of the AST.
                              Dev switches the deviations of the code as it was found (KNOWN_FINDINGS) and a few
                              plausible bugs (sensitivity).  Dev = {} is the repaired code and satisfies Conforms.

   The three deviations were confirmed on the real code and repaired there (KNOWN_FINDINGS `fixed:` C15); they stay
   in the model so that TLC keeps showing that Conforms / NoCrash notice them (MC_Config_dev_*.cfg).

   Reading of the property (DESIGN 5a): unknown keys and unknown sections are ignored; the default table is the
   one of from_tree (log level `warn`), not Config::default(); only class (accepted / syntax error / validation
   error), file and line of an error are compared, never the message text.
   Lexical choices of every generator (TLC families here, the harness' random generator): `server {` is written
   exactly so; one or more blanks (never a tab) separate key and value, so values may be aligned in a column; a
   string contains no `"` and no `#` but may contain anything else between its quotation marks - runs of blanks,
   a blank right after the opening or before the closing quote, a tab - and means exactly that text; units are upper
   case; integers are canonical (no `+`, no leading zeros, no `-0`); host patterns are quoted; proxy targets are
   separated by `,` without blanks; a `"` occurs nowhere but around a string (where one does - `"""`, `route "/a" {` -
   the spec takes it literally AND accepts a rejection: Result.lenient); no key occurs twice in a section; a route has at most one of
   file|directory|proxy|redirect; known keys carry a token of their documented type unless a fault says otherwise.
   Outside these choices Meaning still returns something (what the code does today) but nothing is generated there. *)
EXTENDS Integers, Sequences, FiniteSets, TLC

CONSTANTS Dev,         \* set of deviation names; {} = the ideal (= repaired) code
          AstOf(_),    \* the table of cases explored: case id -> abstract configuration
          FilesOf(_)   \* case id -> the text files of one rendering of it (RenderFiles below)

DevNames == {"ParseSizePanic",    \* parse_size slices the last *byte* off an unquoted value (panic on a multi-byte
                                  \* last character) and multiplies unchecked (`9999999999G` overflows)
             "TrailingIgnored",   \* whatever follows the `}` that closes `server` (or an included file's content)
                                  \* is silently dropped: `host "x"` without `{` is accepted as a key and the
                                  \* rest of the file is lost
             "HostQuoteLax"}      \* `host "x {` keeps the stray quote in the pattern; `host " {` panics
BugNames == {"ReverseRoutes", "FirstPatternOnly", "Threads0Accepted", "LineMinus1", "DefaultLogInfo",
             "ErrFileMain", "LastTargetOnly",
             "LoneQuoteSlice",       \* a value that is one lone `"` "starts and ends with a quote": value[1..len-1] panics
             "CollapseWhitespace"}   \* key/value split with split_whitespace() and re-joined by single blanks:
                                     \* white space inside a quoted string is collapsed   \* plausible bugs, only used by sensitivity configs

(***************************************************************************)
(* Part 1: strings and numbers                                             *)
(***************************************************************************)
Ch(s, i)   == SubSeq(s, i, i)
LastCh(s)  == Ch(s, Len(s))
From(s, i) == SubSeq(s, i, Len(s))
MaxOf(S)   == CHOOSE x \in S : \A y \in S : y <= x
MinOf(S)   == CHOOSE x \in S : \A y \in S : x <= y
WSX        == "`"    \* stands for `a white-space character outside ASCII` (U+00A0, U+0085, U+1680, U+2028, U+3000):
                     \* Rust's str::trim / split_whitespace treat it as white space, the integer and bool parsers do not
WS         == {" ", "\t", WSX}
QUOTE      == "\""
NA         == "~"    \* stands for `a character that is neither an ASCII digit, letter, quote, blank, # nor brace`: the harness
                     \* writes e-acute, an emoji, `~`, DEL, a C1 control, a private-use character, a combining mark, digits
                     \* and numerics outside ASCII (U+0663, U+FF11, U+1D7D9, superscript 2, 1/2, roman VIII), the Kelvin
                     \* sign and fullwidth K (not units), sharp s, dotted capital I, the fi ligature
DigitCh    == {"0", "1", "2", "3", "4", "5", "6", "7", "8", "9"}
DigitVal(c) == CASE c = "0" -> 0 [] c = "1" -> 1 [] c = "2" -> 2 [] c = "3" -> 3 [] c = "4" -> 4
                 [] c = "5" -> 5 [] c = "6" -> 6 [] c = "7" -> 7 [] c = "8" -> 8 [] c = "9" -> 9

RECURSIVE SkipL(_, _)
SkipL(s, i) == IF i > Len(s) THEN i ELSE IF Ch(s, i) \in WS THEN SkipL(s, i + 1) ELSE i
RECURSIVE SkipR(_, _)
SkipR(s, i) == IF i < 1 THEN i ELSE IF Ch(s, i) \in WS THEN SkipR(s, i - 1) ELSE i
Trim(s) == SubSeq(s, SkipL(s, 1), SkipR(s, Len(s)))          \* str::trim (blanks and tabs)
RECURSIVE IdxFrom(_, _, _)
IdxFrom(s, c, i) == IF i > Len(s) THEN 0 ELSE IF Ch(s, i) = c THEN i ELSE IdxFrom(s, c, i + 1)
IndexOf(s, c) == IdxFrom(s, c, 1)                            \* 0 = not found
StartsWith(s, p) == Len(s) >= Len(p) /\ SubSeq(s, 1, Len(p)) = p
EndsWith(s, p)   == Len(s) >= Len(p) /\ SubSeq(s, Len(s) - Len(p) + 1, Len(s)) = p
RECURSIVE Split(_, _)
Split(s, c) == LET i == IndexOf(s, c)
               IN  IF i = 0 THEN <<s>> ELSE <<SubSeq(s, 1, i - 1)>> \o Split(From(s, i + 1), c)
RECURSIVE Join(_, _)
Join(ss, sep) == IF Len(ss) = 0 THEN ""
                 ELSE IF Len(ss) = 1 THEN ss[1] ELSE ss[1] \o sep \o Join(Tail(ss), sep)
Subst(v, name) == Join(Split(v, "@"), name)        \* `@` in a token is the place of a file path

\* naturals: little-endian decimal digits, no high zeros, <<>> = 0
IsDigits(s) == Len(s) >= 1 /\ \A i \in 1..Len(s) : Ch(s, i) \in DigitCh
RECURSIVE Norm(_)
Norm(d) == IF d # <<>> /\ d[Len(d)] = 0 THEN Norm(SubSeq(d, 1, Len(d) - 1)) ELSE d
NatOf(s) == Norm([i \in 1..Len(s) |-> DigitVal(Ch(s, Len(s) + 1 - i))])
RECURSIVE MulC(_, _, _)
MulC(d, m, c) == IF d = <<>> THEN (IF c = 0 THEN <<>> ELSE <<c % 10>> \o MulC(<<>>, m, c \div 10))
                 ELSE LET x == d[1] * m + c IN <<x % 10>> \o MulC(Tail(d), m, x \div 10)
Mul(d, m) == Norm(MulC(d, m, 0))
Less(a, b) == IF Len(a) # Len(b) THEN Len(a) < Len(b)
              ELSE \E i \in 1..Len(a) : a[i] < b[i] /\ \A j \in (i + 1)..Len(a) : a[j] = b[j]
Leq(a, b) == a = b \/ Less(a, b)
RECURSIVE Dec1(_)
Dec1(d) == IF d = <<>> THEN "" ELSE Dec1(Tail(d)) \o ToString(d[1])
DecStr(d) == IF d = <<>> THEN "0" ELSE Dec1(d)
Two63  == NatOf("9223372036854775808")
MaxU16 == NatOf("65535")
MaxU64 == NatOf("18446744073709551615")

(***************************************************************************)
(* Value tokens as documented: "string", integer, true/false, <int><K|M|G> *)
(***************************************************************************)
IsStrLit(t)  == Len(t) >= 2 /\ Ch(t, 1) = QUOTE /\ LastCh(t) = QUOTE
StrBody(t)   == SubSeq(t, 2, Len(t) - 1)
SignOf(t)    == IF Len(t) >= 1 /\ Ch(t, 1) \in {"-", "+"} THEN Ch(t, 1) ELSE ""
Unsigned(t)  == IF SignOf(t) = "" THEN t ELSE From(t, 2)
IsIntLit(t)  == IsDigits(Unsigned(t))
UnitExp(c)   == CASE c \in {"K", "k"} -> 1 [] c \in {"M", "m"} -> 2 [] c \in {"G", "g"} -> 3 [] OTHER -> 0
IsSizeLit(t) == Len(t) >= 2 /\ UnitExp(LastCh(t)) > 0 /\ IsIntLit(SubSeq(t, 1, Len(t) - 1))
UPPER == "ABCDEFGHIJKLMNOPQRSTUVWXYZ"
LOWER == "abcdefghijklmnopqrstuvwxyz"
LowerCh(c) == LET i == IndexOf(UPPER, c) IN IF i = 0 THEN c ELSE Ch(LOWER, i)
UpperCh(c) == LET i == IndexOf(LOWER, c) IN IF i = 0 THEN c ELSE Ch(UPPER, i)
UpperSet == {"A", "B", "C", "D", "E", "F", "G", "H", "I", "J", "K", "L", "M", "N", "O", "P", "Q", "R", "S", "T", "U", "V", "W",
             "X", "Y", "Z"}
RECURSIVE LowerSlow(_)
LowerSlow(t) == IF t = "" THEN "" ELSE LowerCh(Ch(t, 1)) \o LowerSlow(From(t, 2))
Lower(t) == IF \E i \in 1..Len(t) : Ch(t, i) \in UpperSet THEN LowerSlow(t) ELSE t     \* str::to_ascii_lowercase
RECURSIVE Upper(_)
Upper(t) == IF t = "" THEN "" ELSE UpperCh(Ch(t, 1)) \o Upper(From(t, 2))
\* The documentation writes keywords, booleans and enumeration values in lower case and units in upper case and says
\* nothing about other cases.  Keywords (server, route, host, include) are only generated as documented.  A boolean,
\* an enumeration value or a unit in another case means what its documented spelling means - or is rejected
\* (Result.lenient); it never means anything else.
IsBoolLit(t) == Len(t) \in {4, 5} /\ Lower(t) \in {"true", "false"}
RECURSIVE MulK(_, _)
MulK(d, n) == IF n = 0 THEN d ELSE MulK(Mul(d, 1024), n - 1)
\* magnitude and sign of a numeric token (IsIntLit or IsSizeLit)
Magnitude(t) == IF IsIntLit(t) THEN NatOf(Unsigned(t))
                ELSE MulK(NatOf(Unsigned(SubSeq(t, 1, Len(t) - 1))), UnitExp(LastCh(t)))
IsNeg(t)     == SignOf(t) = "-" /\ Magnitude(t) # <<>>
Fits64(t)    == IF IsNeg(t) THEN Leq(Magnitude(t), Two63) ELSE Less(Magnitude(t), Two63)   \* a signed 64-bit value
TokKind(t) == IF IsStrLit(t) THEN "str"
              ELSE IF IsBoolLit(t) THEN "bool"
              ELSE IF IsIntLit(t) THEN (IF Fits64(t) THEN "int" ELSE "toobig")
              ELSE IF IsSizeLit(t) THEN (IF Fits64(t) THEN "size" ELSE "toobig")
              ELSE "bad"
NumStr(t)  == (IF IsNeg(t) THEN "-" ELSE "") \o DecStr(Magnitude(t))
\* the text a value stands for when a string is wanted
AsString(t) == IF IsStrLit(t) THEN StrBody(t) ELSE IF TokKind(t) \in {"int", "size"} THEN NumStr(t) ELSE t
\* a natural number wanted: numeric token (or a string holding an integer), not negative, at most max
NumTok(t)    == IF IsStrLit(t) THEN StrBody(t) ELSE t
IsNatUpTo(t, max) == LET u == NumTok(t) IN
                     /\ (IF IsStrLit(t) THEN IsIntLit(u) ELSE TokKind(t) \in {"int", "size"})
                     /\ SignOf(u) # "-" /\ Leq(Magnitude(u), max)
NatStr(t)    == DecStr(Magnitude(NumTok(t)))

(***************************************************************************)
(* Part 2: abstract syntax.  One record shape for every entry.             *)
(*   t  "key" | "sec" | "host" | "route" | "inc" | "raw" (a stray line k,  *)
(*      only ever produced by the ValueOnNextLine fault, right after a key)*)
(*   k  key / section name            v  value token as written ("" = the  *)
(*   ps patterns (host: one quoted     value is missing); for "inc" and    *)
(*      token; route: bare words)      for blacklist `file` the path is `@`*)
(*   ob/cb the braces as written ("{" "}"; "" = missing; "{~" = damaged)   *)
(*   es children                      f  included file (index into files;  *)
(*                                       0 = a file that does not exist)   *)
(* ast = [srv: the `server` section, files: Seq(entries of an include      *)
(*        file), bl: [exists, ips] the blacklist file a `file "@"` names,  *)
(*        fault: a label [cls, f, p] saying which fault (if any) a         *)
(*        generator injected; Meaning does not read it]                    *)
(***************************************************************************)
K(k, v)    == [t |-> "key", k |-> k, v |-> v, ps |-> <<>>, ob |-> "", cb |-> "", es |-> <<>>, f |-> 0]
S(k, es)   == [t |-> "sec", k |-> k, v |-> "", ps |-> <<>>, ob |-> "{", cb |-> "}", es |-> es, f |-> 0]
Q(s)       == QUOTE \o s \o QUOTE
H(pat, es) == [t |-> "host", k |-> "", v |-> "", ps |-> <<Q(pat)>>, ob |-> "{", cb |-> "}", es |-> es, f |-> 0]
R(ps, es)  == [t |-> "route", k |-> "", v |-> "", ps |-> ps, ob |-> "{", cb |-> "}", es |-> es, f |-> 0]
I(f)       == [t |-> "inc", k |-> "", v |-> Q("@"), ps |-> <<>>, ob |-> "", cb |-> "", es |-> <<>>, f |-> f]
NoBl       == [exists |-> TRUE, ips |-> <<>>]
NoFault    == [cls |-> "", f |-> 0, p |-> <<>>]
Ast(root, files, bl) == [srv |-> S("server", root), files |-> files, bl |-> bl, fault |-> NoFault]

IsSection(e) == e.t \in {"sec", "host", "route"}

RECURSIVE Expand(_, _)      \* splice every include in place
Expand(es, files) ==
  IF es = <<>> THEN <<>>
  ELSE LET e == Head(es) IN
       (IF e.t = "inc" THEN (IF e.f = 0 THEN <<>> ELSE Expand(files[e.f], files))
        ELSE <<[e EXCEPT !.es = Expand(e.es, files)]>>) \o Expand(Tail(es), files)

KeyIdx(es, k)  == {i \in 1..Len(es) : es[i].t = "key" /\ es[i].k = k}
HasKey(es, k)  == KeyIdx(es, k) # {}
KeyTok(es, k)  == IF HasKey(es, k) THEN es[MaxOf(KeyIdx(es, k))].v ELSE ""     \* "" = omitted
RECURSIVE SubEntries(_, _)  \* entries of the plain section `name`
SubEntries(es, name) == IF es = <<>> THEN <<>>
                        ELSE (IF Head(es).t = "sec" /\ Head(es).k = name THEN Head(es).es ELSE <<>>)
                             \o SubEntries(Tail(es), name)
Opt(tok) == IF tok = "" THEN <<>> ELSE <<AsString(tok)>>      \* Option<String> as a sequence of length <= 1

\* IP addresses are not modelled beyond a catalogue
GoodIps == {"127.0.0.1", "10.0.0.7", "192.168.1.255", "::1", "2001:db8::7"}
BadIps  == {"localhost", "256.1.1.1", "1.2.3"}

(***************************************************************************)
(* Part 3: Meaning                                                         *)
(***************************************************************************)
NoLoc == [some |-> FALSE, f |-> 0, p |-> <<>>, part |-> "", rule |-> "", cls |-> ""]
Loc(f, p, part, rule, cls) == [some |-> TRUE, f |-> f, p |-> p, part |-> part, rule |-> rule, cls |-> cls]
\*  part: "line" (a key / include line), "open" (the header line of a section), "close" (its `}` line)
\*  rule: "at"    the error names exactly that line
\*        "from"  (a missing brace: where, and which section is the unclosed one, cannot be known) any line of that file
\*        "none"  (the `server {` line itself is damaged: the file has no server section; no line is required)
\*        "any"   (a number no 64-bit integer holds; an included file that does not exist) rejected, by the parser or by
\*                validation, no line required

HostPatOK(p) == IsStrLit(p) \/ IndexOf(p, QUOTE) = 0

RECURSIVE FirstFault(_, _, _, _, _)   \* first damaged token of es[i..] in reading order (file f, path prefix pre)
FirstFault(f, es, i, pre, files) ==
  IF i > Len(es) THEN NoLoc
  ELSE LET e == es[i]
           p == Append(pre, i)
           here ==
             IF e.t = "key" THEN
                (IF e.v = "" THEN Loc(f, p, "line", "at", "missing-value")
                 ELSE IF TokKind(e.v) = "bad" THEN Loc(f, p, "line", "at", "bad-value")
                 ELSE IF TokKind(e.v) = "toobig" THEN Loc(f, p, "line", "any", "too-big")
                 ELSE NoLoc)
             ELSE IF e.t = "raw" THEN Loc(f, p, "line", "at", "stray-line")
             ELSE IF e.t = "inc" THEN
                (IF e.v = "" THEN Loc(f, p, "line", "at", "missing-value")
                 ELSE IF ~IsStrLit(e.v) THEN Loc(f, p, "line", "at", "bad-include")
                 ELSE IF e.f = 0 \/ StrBody(e.v) # "@" THEN Loc(f, p, "line", "any", "no-such-file")   \* not a syntax error: rejected, somehow   \* `include ""`, `include """`
                 ELSE FirstFault(e.f, files[e.f], 1, <<>>, files))
             ELSE
                (IF e.ob # "{" THEN Loc(f, p, "open", IF e.ob = "" THEN "from" ELSE "at", "open-brace")
                 ELSE IF e.t = "host" /\ ~HostPatOK(e.ps[1]) THEN Loc(f, p, "open", "at", "host-quote")
                 ELSE LET inner == FirstFault(f, e.es, 1, p, files) IN
                      IF inner.some THEN inner
                      ELSE IF e.cb = "" THEN Loc(f, p, "open", "from", "close-brace")
                      ELSE IF e.cb # "}" THEN Loc(f, p, "close", "at", "close-brace")
                      ELSE NoLoc)
       IN IF here.some THEN here ELSE FirstFault(f, es, i + 1, pre, files)

SyntaxFault(ast) ==
  LET s == ast.srv IN
  IF s.ob # "{" THEN Loc(0, <<>>, "open", "none", "no-server")
  ELSE LET inner == FirstFault(0, s.es, 1, <<>>, ast.files) IN
       IF inner.some THEN inner
       ELSE IF s.cb = "" THEN Loc(0, <<>>, "open", "from", "close-brace")
       ELSE IF s.cb # "}" THEN Loc(0, <<>>, "close", "at", "close-brace")
       ELSE NoLoc

\* ---- the configuration record ----
NullCfg == [address |-> "", port |-> "", threads |-> "", websocket |-> <<>>, timeout |-> <<>>,
            bl_list |-> <<>>, bl_mode |-> "", log_level |-> "", log_console |-> FALSE, log_file |-> <<>>,
            cache_size |-> "", cache_time |-> "", default_routes |-> <<>>, hosts |-> <<>>]

RouteType(es) == IF HasKey(es, "file") THEN "file" ELSE IF HasKey(es, "directory") THEN "directory"
                 ELSE IF HasKey(es, "proxy") THEN "proxy" ELSE IF HasKey(es, "redirect") THEN "redirect"
                 ELSE IF HasKey(es, "websocket") THEN "websocket" ELSE "none"
BalancerMode(es) == IF HasKey(es, "load_balancer_mode") THEN Lower(AsString(KeyTok(es, "load_balancer_mode")))
                    ELSE "round-robin"
RouteOf(pat, es) ==
  LET ty == RouteType(es) IN
  [type |-> ty, matches |-> pat,
   path |-> IF ty \in {"file", "directory", "redirect"} THEN <<AsString(KeyTok(es, ty))>> ELSE <<>>,
   targets |-> IF ty = "proxy" THEN Split(AsString(KeyTok(es, "proxy")), ",") ELSE <<>>,
   mode |-> IF ty = "proxy" THEN BalancerMode(es) ELSE "",
   websocket |-> Opt(KeyTok(es, "websocket"))]
RouteBad(es) == \/ RouteType(es) = "none"
                \/ RouteType(es) = "proxy" /\ BalancerMode(es) \notin {"round-robin", "random"}
RECURSIVE Routes(_)         \* the routes of a host, in file order, one per pattern
Routes(es) == IF es = <<>> THEN <<>>
              ELSE LET e == Head(es) IN
                   (IF e.t = "route" THEN [j \in 1..Len(e.ps) |-> RouteOf(e.ps[j], e.es)] ELSE <<>>)
                   \o Routes(Tail(es))
RECURSIVE AnyRouteBad(_)
AnyRouteBad(es) == es # <<>> /\ ((Head(es).t = "route" /\ RouteBad(Head(es).es)) \/ AnyRouteBad(Tail(es)))
HostName(tok) == IF IsStrLit(tok) THEN StrBody(tok) ELSE tok
RECURSIVE Hosts(_)
Hosts(es) == IF es = <<>> THEN <<>>
             ELSE (IF Head(es).t = "host"
                   THEN <<[matches |-> HostName(Head(es).ps[1]), routes |-> Routes(Head(es).es)]>> ELSE <<>>)
                  \o Hosts(Tail(es))
RECURSIVE AnyHostBad(_)
AnyHostBad(es) == es # <<>> /\ ((Head(es).t = "host" /\ AnyRouteBad(Head(es).es)) \/ AnyHostBad(Tail(es)))

LogLevels == {"error", "warn", "info", "debug"}
Enum(tok)   == Lower(AsString(tok))                \* an enumeration value, in its documented spelling
BoolOf(tok) == Lower(AsString(tok)) = "true"
IsBoolTok(tok) == Lower(AsString(tok)) \in {"true", "false"}

\* validation rules that a syntactically sound file violates (names are informative only)
Violations(root, bl) ==
  LET b == SubEntries(root, "blacklist")  l == SubEntries(root, "log")  c == SubEntries(root, "cache")
      Chk(n, bad) == IF bad THEN {n} ELSE {} IN
       Chk("port", HasKey(root, "port") /\ ~IsNatUpTo(KeyTok(root, "port"), MaxU16))
  \cup Chk("threads", HasKey(root, "threads") /\ (~IsNatUpTo(KeyTok(root, "threads"), MaxU64)
                                                  \/ NatStr(KeyTok(root, "threads")) = "0"))
  \cup Chk("timeout", HasKey(root, "timeout") /\ ~IsNatUpTo(KeyTok(root, "timeout"), MaxU64))
  \cup Chk("blacklist-file", HasKey(b, "file") /\ (AsString(KeyTok(b, "file")) # "@" \/ ~bl.exists \/ \E i \in 1..Len(bl.ips) : bl.ips[i] \notin GoodIps))
  \cup Chk("blacklist-mode", HasKey(b, "mode") /\ Enum(KeyTok(b, "mode")) \notin {"block", "forbidden"})
  \cup Chk("log-level", HasKey(l, "level") /\ Enum(KeyTok(l, "level")) \notin LogLevels)
  \cup Chk("log-console", HasKey(l, "console") /\ ~IsBoolTok(KeyTok(l, "console")))
  \cup Chk("cache-size", HasKey(c, "size") /\ ~IsNatUpTo(KeyTok(c, "size"), MaxU64))
  \cup Chk("cache-time", HasKey(c, "time") /\ ~IsNatUpTo(KeyTok(c, "time"), MaxU64))
  \cup Chk("route", AnyRouteBad(root) \/ AnyHostBad(root))

\* the configuration described; the defaults are those Config::from_tree applies
Described(root, bl) ==
  LET b == SubEntries(root, "blacklist")  l == SubEntries(root, "log")  c == SubEntries(root, "cache")
      NatD(es, k, dflt) == IF HasKey(es, k) THEN NatStr(KeyTok(es, k)) ELSE dflt
      StrD(es, k, dflt) == IF HasKey(es, k) THEN AsString(KeyTok(es, k)) ELSE dflt
      tmo == NatD(root, "timeout", "0") IN
  [address        |-> StrD(root, "address", "0.0.0.0"),
   port           |-> NatD(root, "port", "80"),
   threads        |-> NatD(root, "threads", "32"),
   websocket      |-> Opt(KeyTok(root, "websocket")),
   timeout        |-> IF tmo = "0" THEN <<>> ELSE <<tmo>>,
   bl_list        |-> IF HasKey(b, "file") THEN bl.ips ELSE <<>>,
   bl_mode        |-> Lower(StrD(b, "mode", "block")),
   log_level      |-> Lower(StrD(l, "level", "warn")),
   log_console    |-> IF HasKey(l, "console") THEN BoolOf(KeyTok(l, "console")) ELSE TRUE,
   log_file       |-> Opt(KeyTok(l, "file")),
   cache_size     |-> NatD(c, "size", "0"),
   cache_time     |-> NatD(c, "time", "0"),
   default_routes |-> Routes(root),
   hosts          |-> Hosts(root)]

\* a quotation mark inside a string or in a route pattern: the documentation has no escapes and does not say; the
\* literal reading (what the code does today) and a rejection are both accepted - a crash or any other meaning is not
RECURSIVE OddQuotes(_)
OddQuotes(es) == \E i \in 1..Len(es) :
   LET e == es[i] IN
   \/ e.t = "key" /\ IsStrLit(e.v) /\ IndexOf(StrBody(e.v), QUOTE) # 0
   \/ e.t = "route" /\ \E j \in 1..Len(e.ps) : IndexOf(e.ps[j], QUOTE) # 0
   \/ e.t = "host" /\ IsStrLit(e.ps[1]) /\ IndexOf(StrBody(e.ps[1]), QUOTE) # 0
   \/ OddQuotes(e.es)
Result(kind, cfg, loc, why) == [ok |-> kind = "ok", kind |-> kind, cfg |-> cfg, loc |-> loc, why |-> why, lenient |-> FALSE]

\* white space outside ASCII at the edge of a value or after a brace: the documentation only knows blanks.  It is white
\* space to str::trim; a loader that trims ASCII only would reject the line.  Both are accepted: the file means what it
\* means without those characters, or is rejected (lenient).  Inside a string or a number it is an ordinary character.
RECURSIVE UTrim(_)
UTrim(t) == IF t # "" /\ Ch(t, 1) = WSX THEN UTrim(From(t, 2))
            ELSE IF t # "" /\ LastCh(t) = WSX THEN UTrim(SubSeq(t, 1, Len(t) - 1)) ELSE t
RECURSIVE NormEs(_)
NormEs(es) == [i \in 1..Len(es) |->
                 [es[i] EXCEPT !.v = UTrim(@), !.ob = UTrim(@), !.cb = UTrim(@), !.es = NormEs(@)]]
NormAst(ast) == [ast EXCEPT !.srv = [@ EXCEPT !.ob = UTrim(@), !.cb = UTrim(@), !.es = NormEs(@)],
                         !.files = [f \in 1..Len(@) |-> NormEs(@[f])]]
RECURSIVE OddCase(_)       \* a boolean, an enumeration value or a unit not spelt as documented
OddCase(es) == \E i \in 1..Len(es) :
   LET e == es[i] IN
   \/ e.t = "key" /\ e.k \in {"mode", "level", "load_balancer_mode"} /\ IsStrLit(e.v) /\ Lower(StrBody(e.v)) # StrBody(e.v)
   \/ e.t = "key" /\ ~IsStrLit(e.v) /\ IsBoolLit(e.v) /\ Lower(e.v) # e.v
   \/ e.t = "key" /\ IsSizeLit(e.v) /\ LastCh(e.v) \in {"k", "m", "g"}
   \/ OddCase(e.es)
RECURSIVE EmptyPattern(_)  \* `route /a,,/b {`, `route /a, {`: an empty pattern, or rejected
EmptyPattern(es) == \E i \in 1..Len(es) :
   \/ es[i].t = "route" /\ \E j \in 1..Len(es[i].ps) : es[i].ps[j] = ""
   \/ EmptyPattern(es[i].es)

Meaning(ast0) ==
  LET ast == NormAst(ast0)
      sf  == SyntaxFault(ast) IN
  IF sf.some THEN Result(IF sf.rule = "any" THEN "reject" ELSE "syntax", NullCfg, sf, sf.cls)
  ELSE LET root == Expand(ast.srv.es, ast.files)
           v == Violations(root, ast.bl) IN
       IF v # {} THEN Result("validation", NullCfg, NoLoc, CHOOSE x \in v : TRUE)
       ELSE [Result("ok", Described(root, ast.bl), NoLoc, "") EXCEPT
               !.lenient = OddQuotes(root) \/ OddCase(root) \/ EmptyPattern(root) \/ ast # ast0]

(***************************************************************************)
(* Part 4: single-fault mutants.  A fault = [cls, f, p, ast] : class, the  *)
(* token it hits (file, path; <<>> in file 0 is `server` itself) and the   *)
(* damaged AST.  Meaning(damaged) is what the property demands of it.      *)
(***************************************************************************)
RECURSIVE PathsOf(_, _)
PathsOf(es, pre) == UNION { {Append(pre, i)} \cup PathsOf(es[i].es, Append(pre, i)) : i \in 1..Len(es) }
RECURSIVE EntryAt(_, _)
EntryAt(es, p) == IF Len(p) = 1 THEN es[p[1]] ELSE EntryAt(es[p[1]].es, Tail(p))
RECURSIVE PutAt(_, _, _)
PutAt(es, p, e) == IF Len(p) = 1 THEN [es EXCEPT ![p[1]] = e]
                   ELSE [es EXCEPT ![p[1]].es = PutAt(@, Tail(p), e)]
RECURSIVE DropAt(_, _)
DropAt(es, p) == IF Len(p) = 1 THEN SubSeq(es, 1, p[1] - 1) \o SubSeq(es, p[1] + 1, Len(es))
                 ELSE [es EXCEPT ![p[1]].es = DropAt(@, Tail(p))]

TopOf(ast, f)        == IF f = 0 THEN ast.srv.es ELSE ast.files[f]
WithTop(ast, f, es)  == IF f = 0 THEN [ast EXCEPT !.srv.es = es] ELSE [ast EXCEPT !.files[f] = es]
Tokens(ast)          == UNION { { <<f, p>> : p \in PathsOf(TopOf(ast, f), <<>>) } : f \in 0..Len(ast.files) }
                        \* only the files reachable by an include matter; the families include every file they have
Damage(ast, f, p, e) == WithTop(ast, f, PutAt(TopOf(ast, f), p, e))

InsStr(s, i, c) == SubSeq(s, 1, i) \o c \o From(s, i + 1)          \* c after the first i characters
Digs(t) == IF IsSizeLit(t) THEN SubSeq(t, 1, Len(t) - 1) ELSE t      \* the integer part of a numeric token

EnumKeys == {"mode", "level", "load_balancer_mode"}
\* a path token (`"@"`) is only damaged outside its quotes: inside, the harness owns the text
NAPositions(v) == IF IndexOf(v, "@") # 0 THEN {0, Len(v)} ELSE 0..Len(v)

\* the damaged variants of one entry, by class
Variants(e) ==
  (IF IsSection(e) THEN
     { <<"MissingCloseBrace", [e EXCEPT !.cb = ""]>>, <<"MissingOpenBrace", [e EXCEPT !.ob = ""]>>,
       <<"UnicodeSpace", [e EXCEPT !.ob = "{" \o WSX]>>, <<"UnicodeSpace", [e EXCEPT !.cb = "}" \o WSX]>>,
       <<"NonAscii", [e EXCEPT !.ob = "{" \o NA]>>, <<"NonAscii", [e EXCEPT !.cb = "}" \o NA]>> }
     \cup (IF e.t = "host" THEN { <<"UnterminatedQuote", [e EXCEPT !.ps = <<SubSeq(@[1], 1, Len(@[1]) - 1)>>]>>,
                                  <<"UnterminatedQuote", [e EXCEPT !.ps = <<From(@[1], 2)>>]>>,
                                  <<"NonAscii", [e EXCEPT !.ps = <<InsStr(@[1], Len(@[1]) - 1, NA)>>]>>,
                                  <<"LoneQuote", [e EXCEPT !.ps = <<QUOTE>>]>>,               \* `""` that lost a quote
                                  <<"UnterminatedQuote", [e EXCEPT !.ps = <<QUOTE \o "x">>]>>,
                                  <<"UnterminatedQuote", [e EXCEPT !.ps = <<"x" \o QUOTE>>]>>,
                                  <<"EmptyString", [e EXCEPT !.ps = <<Q("")>>]>>,
                                  <<"TripleQuote", [e EXCEPT !.ps = <<Q(QUOTE)>>]>> }
           ELSE {})
     \cup (IF e.t = "route" THEN { <<"NonAscii", [e EXCEPT !.ps = [@ EXCEPT ![Len(@)] = @ \o NA]]>>,
                                   <<"EmptyPattern", [e EXCEPT !.ps = @ \o <<"">>]>>,          \* `route /a, {`
                                   <<"EmptyPattern", [e EXCEPT !.ps = <<"">> \o @]>>,          \* `route ,/a {`
                                   <<"EmptyPattern", [e EXCEPT !.ps = <<@[1], "">> \o @]>>,    \* `route /a,,/a.. {`
                                   <<"QuoteInPattern", [e EXCEPT !.ps = <<QUOTE>>]>>,
                                   <<"QuoteInPattern", [e EXCEPT !.ps = [@ EXCEPT ![1] = QUOTE \o @]]>>,
                                   <<"QuoteInPattern", [e EXCEPT !.ps = [@ EXCEPT ![Len(@)] = Q(@)]]>> } ELSE {})
   ELSE
     { <<"MissingValue", [e EXCEPT !.v = ""]>>,
       <<"BlankValue", [e EXCEPT !.v = "   "]>>,                 \* nothing but blanks after the key
       <<"LoneQuote", [e EXCEPT !.v = QUOTE]>>,                  \* an empty string that lost one quotation mark
       <<"UnterminatedQuote", [e EXCEPT !.v = QUOTE \o "x"]>>,   \* a string of length 1 that lost one
       <<"UnterminatedQuote", [e EXCEPT !.v = "x" \o QUOTE]>>,
       <<"EmptyString", [e EXCEPT !.v = Q("")]>>,                \* `""`: the empty string (or, for include, no file)
       <<"TripleQuote", [e EXCEPT !.v = Q(QUOTE)]>>,             \* `"""`: lenient, see OddQuotes
       <<"UnicodeSpace", [e EXCEPT !.v = @ \o WSX]>>, <<"UnicodeSpace", [e EXCEPT !.v = WSX \o @]>>,
       <<"UnicodeSpace", [e EXCEPT !.v = WSX]>> }
     \cup (IF IndexOf(e.v, "@") = 0 /\ Len(e.v) >= 2
           THEN { <<"UnicodeSpace", [e EXCEPT !.v = InsStr(@, i, WSX)]>> : i \in {1, Len(e.v) - 1} } ELSE {})
     \cup (IF e.t = "key" /\ e.k \in EnumKeys /\ IsStrLit(e.v)
           THEN { <<"OtherCase", [e EXCEPT !.v = Upper(@)]>>, <<"OtherCase", [e EXCEPT !.v = InsStr(From(@, 3), 0, QUOTE \o UpperCh(Ch(e.v, 2)))]>> }
           ELSE {})
     \cup (IF e.t = "key" /\ e.v \in {"true", "false"} THEN { <<"OtherCase", [e EXCEPT !.v = Upper(@)]>>,
                                                               <<"OtherCase", [e EXCEPT !.v = UpperCh(Ch(@, 1)) \o From(@, 2)]>> } ELSE {})
     \cup (IF e.t = "key" /\ IsSizeLit(e.v) THEN { <<"OtherCase", [e EXCEPT !.v = Lower(@)]>> } ELSE {})
     \cup { <<"NonAscii", [e EXCEPT !.v = InsStr(@, i, NA)]>> : i \in NAPositions(e.v) }
     \cup (IF e.t = "key" THEN { <<"NonAscii", [e EXCEPT !.k = InsStr(@, i, NA)]>> : i \in {0, Len(e.k)} } ELSE {})
     \cup (IF IsStrLit(e.v) THEN { <<"UnterminatedQuote", [e EXCEPT !.v = SubSeq(@, 1, Len(@) - 1)]>>,
                                   <<"UnterminatedQuote", [e EXCEPT !.v = From(@, 2)]>> } ELSE {})
     \cup (IF e.t = "inc" THEN { <<"NoSuchInclude", [e EXCEPT !.f = 0]>> } ELSE {})
     \cup (IF e.t = "key" /\ TokKind(e.v) \in {"int", "size"} THEN
             { <<"BadNumber", [e EXCEPT !.v = x]>> : x \in {e.v \o "x", "1.5", "--1", "0x10", "1e3", "1_000"} }
             \cup { <<"UnknownUnit", [e EXCEPT !.v = Digs(e.v) \o u]>> : u \in {"T", "KB", "B", " M", "KK"} }
             \cup { <<"TooBig", [e EXCEPT !.v = x]>> :
                       x \in {"9999999999G", "8589934592G", "9007199254740992K", "99999999999999999999",
                               "17179869184G", "17179869185G",      \* 0 and 1G modulo 2^64
                               "18014398509481984K", "36028797018963969K", "17592186044416M", "17592186044417M",
                               "8796093022208M", "9223372036854775808", "-9223372036854775809"} }
             \cup { <<"OutOfRange", [e EXCEPT !.v = x]>> : x \in {"-1", "-1K", "-9223372036854775808"} }
           ELSE {})
     \cup (IF e.t = "key" /\ e.k = "port" THEN { <<"OutOfRange", [e EXCEPT !.v = "65536"]>>,
                                                 <<"OutOfRange", [e EXCEPT !.v = "64K"]>> } ELSE {})
     \cup (IF e.t = "key" /\ e.k = "threads" THEN { <<"OutOfRange", [e EXCEPT !.v = "0"]>> } ELSE {})
     \cup (IF e.t = "key" /\ e.k \in EnumKeys THEN { <<"BadEnum", [e EXCEPT !.v = Q("bogus")]>>,
                                                      <<"BadEnum", [e EXCEPT !.v = Q("")]>> } ELSE {})
     \cup (IF e.t = "key" /\ e.k = "console" THEN { <<"BadEnum", [e EXCEPT !.v = Q("yes")]>>,
                                                    <<"BadBool", [e EXCEPT !.v = "maybe"]>> } ELSE {}))


RECURSIVE InsAfter(_, _, _)
InsAfter(es, p, e) == IF Len(p) = 1 THEN SubSeq(es, 1, p[1]) \o <<e>> \o SubSeq(es, p[1] + 1, Len(es))
                      ELSE [es EXCEPT ![p[1]].es = InsAfter(@, Tail(p), e)]
RouteTypeKeys == {"file", "directory", "proxy", "redirect", "websocket"}
Untyped(es) == SelectSeq(es, LAMBDA x : ~(x.t = "key" /\ x.k \in RouteTypeKeys))
Fault(cls, f, p, a) == [a EXCEPT !.fault = [cls |-> cls, f |-> f, p |-> p]]

Faults(ast) ==
  UNION { { Fault(v[1], tk[1], tk[2], Damage(ast, tk[1], tk[2], v[2])) :
              v \in Variants(EntryAt(TopOf(ast, tk[1]), tk[2])) } : tk \in Tokens(ast) }
  \cup { Fault(v[1], 0, <<>>, [ast EXCEPT !.srv = v[2]]) : v \in Variants(ast.srv) }
  \cup UNION { (IF EntryAt(TopOf(ast, tk[1]), tk[2]).t = "route"
                THEN { Fault("RouteWithoutType", tk[1], tk[2],
                             Damage(ast, tk[1], tk[2], [EntryAt(TopOf(ast, tk[1]), tk[2]) EXCEPT !.es = Untyped(@)])) }
                ELSE {}) : tk \in Tokens(ast) }
  \* the key stands alone and what should be its value (or a lone quote) follows on the next line
  \cup UNION { (LET e == EntryAt(TopOf(ast, tk[1]), tk[2]) IN
                IF e.t = "key" THEN
                   { Fault("ValueOnNextLine", tk[1], tk[2],
                           WithTop(ast, tk[1], InsAfter(PutAt(TopOf(ast, tk[1]), tk[2], [e EXCEPT !.v = ""]), tk[2], [K(x, "") EXCEPT !.t = "raw"]))) :
                        x \in {QUOTE, e.v} }
                ELSE {}) : tk \in Tokens(ast) }
  \cup (IF HasKey(SubEntries(Expand(ast.srv.es, ast.files), "blacklist"), "file")
        THEN { Fault("NoBlacklistFile", 0, <<>>, [ast EXCEPT !.bl.exists = FALSE]) }
             \cup { Fault("BadIp", 0, <<>>, [ast EXCEPT !.bl.ips = Append(@, x)]) : x \in BadIps }
        ELSE {})

\* the classes whose mutants violate the *syntax*: Meaning must point at the damaged token
SyntaxClasses == {"MissingCloseBrace", "MissingOpenBrace", "MissingValue", "BadNumber", "UnknownUnit",
                  "UnterminatedQuote", "BadBool", "LoneQuote", "BlankValue", "ValueOnNextLine"}
\* the classes whose mutants break a validation rule
RuleClasses == {"OutOfRange", "BadEnum", "RouteWithoutType", "NoBlacklistFile", "BadIp"}

(***************************************************************************)
(* Part 5: THE CODE.                                                       *)
(* 5a. a rendering of the AST as text lines (the parser model reads only   *)
(*     .txt; .p/.part remember which token a line carries so that the      *)
(*     invariant can turn Meaning's token into a line number)              *)
(***************************************************************************)
RECURSIVE Rep(_, _)
Rep(s, n) == IF n = 0 THEN "" ELSE s \o Rep(s, n - 1)
CleanUp(raw) == LET i == IndexOf(raw, "#") IN Trim(IF i = 0 THEN raw ELSE SubSeq(raw, 1, i - 1))    \* tree.rs clean_up
\* an annotated line; .cl memoises clean_up(.txt) (TLC would otherwise recompute it in every guard)
AL(txt, p, part) == [txt |-> txt, cl |-> CleanUp(txt), p |-> p, part |-> part]
FileName(f) == "F  " \o ToString(f)      \* (paths are strings too: two blanks inside)
BlName      == "B \t L"
Header(e, L) == IF e.t = "sec" THEN e.k
                ELSE IF e.t = "route" THEN "route " \o Join(e.ps, L.psep) ELSE "host " \o e.ps[1]
\* L = [ind, sep, cmt, psep: strings; blank, pre: BOOLEAN]
RECURSIVE RenderEs(_, _, _, _, _)
RenderEs(es, i, pre, d, L) ==
  IF i > Len(es) THEN <<>>
  ELSE LET e == es[i]  p == Append(pre, i)  ind == Rep(L.ind, d) IN
   (IF e.t \in {"key", "raw"} THEN
      <<AL(ind \o e.k \o (IF e.v = "" THEN "" ELSE L.sep \o Subst(e.v, BlName)) \o L.cmt, p, "line")>>
    ELSE IF e.t = "inc" THEN
      <<AL(ind \o "include" \o (IF e.v = "" THEN "" ELSE L.sep \o Subst(e.v, FileName(e.f))) \o L.cmt, p, "line")>>
    ELSE
      <<AL(ind \o Header(e, L) \o (IF e.ob = "" THEN "" ELSE " " \o e.ob) \o L.cmt, p, "open")>>
      \o (IF L.blank THEN <<AL("", p, "blank"), AL(ind \o "# c } {", p, "blank")>> ELSE <<>>)
      \o RenderEs(e.es, 1, p, d + 1, L)
      \o (IF e.cb = "" THEN <<>> ELSE <<AL(ind \o e.cb \o L.cmt, p, "close")>>))
   \o RenderEs(es, i + 1, pre, d, L)
RenderMain(ast, L) ==
  (IF L.pre THEN <<AL("# server {", <<>>, "blank"), AL("", <<>>, "blank")>> ELSE <<>>)
  \o <<AL("server" \o (IF ast.srv.ob = "" THEN "" ELSE " " \o ast.srv.ob) \o L.cmt, <<>>, "open")>>
  \o RenderEs(ast.srv.es, 1, <<>>, 1, L)
  \o (IF ast.srv.cb = "" THEN <<>> ELSE <<AL(ast.srv.cb \o L.cmt, <<>>, "close")>>)
  \o (IF L.pre THEN <<AL("", <<>>, "blank"), AL("  # end }", <<>>, "blank")>> ELSE <<>>)
\* include() appends "\n}" to what it read: the last line of an included file, as the parser sees it, is `}`
RenderFiles(ast, L) ==
  [f \in 0..Len(ast.files) |->
      IF f = 0 THEN RenderMain(ast, L)
      ELSE RenderEs(ast.files[f], 1, <<>>, 0, L) \o <<AL("}", <<>>, "appended")>>]
LineOf(fl, f, p, part) == LET J == {i \in 1..Len(fl[f]) : fl[f][i].p = p /\ fl[f][i].part = part}
                          IN  IF J = {} THEN 0 ELSE MinOf(J)

(***************************************************************************)
(* 5b. tree.rs: parse_conf, parse_section, include, clean_up, parse_size   *)
(***************************************************************************)
VARIABLES cid,     \* the case under test (constant along a behaviour)
          phase,   \* "find" | "sect" | "trail" | "t1".."t5" | "done"
          pstk,    \* stack of line iterators [f, ln]: ln = TracebackIterator.current_line
          sstk,    \* stack of open parse_section calls [kind, name, vals]
          tree,    \* the ConfigNode of `server` once parsed
          acc,     \* the Config being assembled by from_tree
          res      \* the outcome
vars == <<cid, phase, pstk, sstk, tree, acc, res>>
ast   == AstOf(cid)      \* the configuration under test
files == FilesOf(cid)    \* file id -> annotated text lines, as the parser reads them

N(n, k, s, ch) == [n |-> n, k |-> k, s |-> s, ch |-> ch]          \* ConfigNode
Running   == [kind |-> "run", f |-> 0, line |-> 0, msg |-> "", cfg |-> NullCfg]
ErrP(msg, f, line) == [kind |-> "parse-error",                      \* a ConfigError {message, file, line}
                       f |-> IF "ErrFileMain" \in Dev THEN 0 ELSE f,
                       line |-> IF "LineMinus1" \in Dev /\ msg = "value" THEN line - 1 ELSE line,
                       msg |-> msg, cfg |-> NullCfg]
ErrT(msg)  == [kind |-> "tree-error", f |-> 0, line |-> 0, msg |-> msg, cfg |-> NullCfg]   \* from_tree's Err(&str)
PanicR(msg) == [kind |-> "panic", f |-> 0, line |-> 0, msg |-> msg, cfg |-> NullCfg]
OkR(cfg)   == [kind |-> "ok", f |-> 0, line |-> 0, msg |-> "", cfg |-> cfg]

Cur      == pstk[Len(pstk)]
CurLns   == files[Cur.f]
HasLine  == Cur.ln < Len(CurLns)
Line     == CurLns[Cur.ln + 1].cl              \* = clean_up(line)
LineNo   == Cur.ln + 1
Advance(stk)  == [stk EXCEPT ![Len(stk)].ln = @ + 1]
Pop(stk)      == SubSeq(stk, 1, Len(stk) - 1)
Top           == sstk[Len(sstk)]
Frame(kind, name)    == [kind |-> kind, name |-> name, vals |-> <<>>]
PushVal(stk, node)   == [stk EXCEPT ![Len(stk)].vals = Append(@, node)]
PushVals(stk, nodes) == [stk EXCEPT ![Len(stk)].vals = @ \o nodes]
Finish(r) == res' = r /\ phase' = "done" /\ UNCHANGED <<cid, pstk, sstk, tree, acc>>

\* i64::from_str
RustI64(s) == IsIntLit(s) /\ Fits64(s)
Sz(st, num) == [st |-> st, num |-> num]
ParseSize(s) ==
  IF Len(s) = 0 THEN Sz("err", "")
  ELSE IF Len(s) = 1 THEN (IF RustI64(s) THEN Sz("ok", s) ELSE Sz("err", ""))
  ELSE IF LastCh(s) = NA /\ "ParseSizePanic" \in Dev THEN Sz("panic", "")     \* size[0..len-1] inside a character
  ELSE LET num == SubSeq(s, 1, Len(s) - 1)  u == UnitExp(LastCh(s)) IN
       IF ~RustI64(num) THEN Sz("err", "")
       ELSE IF u > 0 THEN (IF Fits64(s) THEN Sz("ok", NumStr(s))
                           ELSE IF "ParseSizePanic" \in Dev THEN Sz("panic", "") ELSE Sz("err", ""))
       ELSE IF LastCh(s) \in DigitCh THEN (IF RustI64(s) THEN Sz("ok", s) ELSE Sz("err", ""))
       ELSE Sz("err", "")
Classify(key, value) ==
  IF "LoneQuoteSlice" \in Dev /\ value = QUOTE THEN [st |-> "panic", node |-> N("String", key, "", <<>>)]
  ELSE IF IsStrLit(value) THEN [st |-> "ok", node |-> N("String", key, StrBody(value), <<>>)]   \* wildcard_match("\"*\"", value)
  ELSE IF RustI64(value) THEN [st |-> "ok", node |-> N("Number", key, value, <<>>)]
  ELSE IF value \in {"true", "false"} THEN [st |-> "ok", node |-> N("Boolean", key, value, <<>>)]   \* bool::from_str
  ELSE LET z == ParseSize(value) IN [st |-> z.st, node |-> N("Number", key, z.num, <<>>)]

FileIds == 1..Len(ast.files)
FileOfPath(path) == IF \E f \in FileIds : FileName(f) = path THEN CHOOSE f \in FileIds : FileName(f) = path ELSE 0

Init0(c) ==
  /\ cid = c
  /\ phase = "find" /\ pstk = <<[f |-> 0, ln |-> 0]>> /\ sstk = <<>>
  /\ tree = N("Section", "", "", <<>>) /\ acc = NullCfg /\ res = Running

\* parse_conf: skip lines until one is exactly `server {`
P_FindSkip == /\ phase = "find" /\ HasLine /\ Line # "server {"
              /\ pstk' = Advance(pstk) /\ UNCHANGED <<cid, phase, sstk, tree, acc, res>>
P_FindHit  == /\ phase = "find" /\ HasLine /\ Line = "server {"
              /\ pstk' = Advance(pstk) /\ phase' = "sect" /\ sstk' = <<Frame("Section", "server")>>
              /\ UNCHANGED <<cid, tree, acc, res>>
P_FindEof  == /\ phase = "find" /\ ~HasLine /\ Finish(ErrP("noserver", 0, 0))

\* parse_section, one loop iteration each
P_Eof   == /\ phase = "sect" /\ ~HasLine /\ Finish(ErrP("eof", Cur.f, LineNo))
P_Blank == /\ phase = "sect" /\ HasLine /\ Line = ""
           /\ pstk' = Advance(pstk) /\ UNCHANGED <<cid, phase, sstk, tree, acc, res>>
P_Open  ==
  /\ phase = "sect" /\ HasLine /\ EndsWith(Line, "{")
  /\ LET name0 == Trim(SubSeq(Line, 1, Len(Line) - 1)) IN
     IF StartsWith(name0, "route ") THEN
        /\ sstk' = Append(sstk, Frame("Route", Trim(From(name0, 7)))) /\ pstk' = Advance(pstk)
        /\ UNCHANGED <<cid, phase, tree, acc, res>>
     ELSE IF StartsWith(name0, "host ") THEN
        LET raw  == Trim(From(name0, 6))
            both == StartsWith(raw, QUOTE) /\ EndsWith(raw, QUOTE) IN
        IF "HostQuoteLax" \in Dev /\ both /\ Len(raw) = 1 THEN Finish(PanicR("raw[1..0]"))
        ELSE IF "HostQuoteLax" \notin Dev /\ ~(both /\ Len(raw) >= 2) /\ IndexOf(raw, QUOTE) # 0
             THEN Finish(ErrP("hostquote", Cur.f, LineNo))
        ELSE /\ sstk' = Append(sstk, Frame("Host", IF both THEN StrBody(raw) ELSE raw)) /\ pstk' = Advance(pstk)
             /\ UNCHANGED <<cid, phase, tree, acc, res>>
     ELSE /\ sstk' = Append(sstk, Frame("Section", name0)) /\ pstk' = Advance(pstk)
          /\ UNCHANGED <<cid, phase, tree, acc, res>>
P_Close ==
  /\ phase = "sect" /\ HasLine /\ Line = "}"
  /\ IF Top.kind = "Inc" THEN
        \* include(): the included file's temporary section ends, its children go into the caller's section
        IF "TrailingIgnored" \notin Dev /\ Cur.ln + 1 < Len(CurLns)
        THEN Finish(ErrP("trailing", Cur.f, LineNo))         \* the `}` that closed a section the file never opened
        ELSE /\ pstk' = Pop(pstk) /\ sstk' = PushVals(Pop(sstk), Top.vals)
             /\ UNCHANGED <<cid, phase, tree, acc, res>>
     ELSE IF Len(sstk) = 1 THEN
        \* parse_conf returns the server section
        /\ tree' = N("Section", Top.name, "", Top.vals) /\ sstk' = <<>> /\ pstk' = Advance(pstk)
        /\ phase' = IF "TrailingIgnored" \in Dev THEN "t1" ELSE "trail"
        /\ UNCHANGED <<cid, acc, res>>
     ELSE /\ sstk' = PushVal(Pop(sstk), N(Top.kind, Top.name, "", Top.vals)) /\ pstk' = Advance(pstk)
          /\ UNCHANGED <<cid, phase, tree, acc, res>>
IsKV == phase = "sect" /\ HasLine /\ Line # "" /\ Line # "}" /\ ~EndsWith(Line, "{")
RECURSIVE Words(_)          \* str::split_whitespace
Words(l) == LET t == Trim(l)
                J == {i \in 1..Len(t) : Ch(t, i) \in WS} IN
            IF t = "" THEN <<>> ELSE IF J = {} THEN <<t>>
            ELSE <<SubSeq(t, 1, MinOf(J) - 1)>> \o Words(From(t, MinOf(J) + 1))
KeyOf(l)   == IF IndexOf(l, " ") = 0 THEN l ELSE SubSeq(l, 1, IndexOf(l, " ") - 1)
\* the value is everything after the first blank, trimmed at both ends and otherwise untouched: what stands between
\* the quotation marks of a string is taken byte for byte
ValueOf(l) == IF "CollapseWhitespace" \in Dev THEN Join(Tail(Words(l)), " ")
              ELSE Trim(From(l, IndexOf(l, " ") + 1))
P_NoValue == /\ IsKV /\ IndexOf(Line, " ") = 0 /\ Finish(ErrP("syntax", Cur.f, LineNo))
P_Value ==
  /\ IsKV /\ IndexOf(Line, " ") # 0 /\ KeyOf(Line) # "include"
  /\ LET c == Classify(KeyOf(Line), ValueOf(Line)) IN
     IF c.st = "panic" THEN Finish(PanicR("parse_size"))
     ELSE IF c.st = "err" THEN Finish(ErrP("value", Cur.f, LineNo))
     ELSE /\ sstk' = PushVal(sstk, c.node) /\ pstk' = Advance(pstk)
          /\ UNCHANGED <<cid, phase, tree, acc, res>>
P_Include ==
  /\ IsKV /\ IndexOf(Line, " ") # 0 /\ KeyOf(Line) = "include"
  /\ LET v == ValueOf(Line) IN
     IF "LoneQuoteSlice" \in Dev /\ v = QUOTE THEN Finish(PanicR("value[1..0]"))
     ELSE IF ~IsStrLit(v) THEN Finish(ErrP("incvalue", Cur.f, LineNo))
     ELSE IF FileOfPath(StrBody(v)) = 0 THEN Finish(ErrP("incopen", Cur.f, LineNo))
     ELSE /\ pstk' = Append(Advance(pstk), [f |-> FileOfPath(StrBody(v)), ln |-> 0])
          /\ sstk' = Append(sstk, Frame("Inc", "temp_included_section"))
          /\ UNCHANGED <<cid, phase, tree, acc, res>>
\* (repaired code) nothing but blank lines and comments may follow the `}` of `server`
P_TrailBlank == /\ phase = "trail" /\ HasLine /\ Line = ""
                /\ pstk' = Advance(pstk) /\ UNCHANGED <<cid, phase, sstk, tree, acc, res>>
P_TrailJunk  == /\ phase = "trail" /\ HasLine /\ Line # "" /\ Finish(ErrP("trailing", 0, LineNo))
P_TrailEof   == /\ phase = "trail" /\ ~HasLine /\ phase' = "t1"
                /\ UNCHANGED <<cid, pstk, sstk, tree, acc, res>>

(***************************************************************************)
(* 5c. config.rs: from_tree, parse_host, parse_route; extended_hashmap.rs  *)
(***************************************************************************)
RECURSIVE Flat(_, _)     \* ConfigNode::flatten of a list of nodes: (dotted key, node) in insertion order
Flat(ns, pre) ==
  IF ns = <<>> THEN <<>>
  ELSE LET x == Head(ns) IN
       (IF x.n = "Section" THEN (IF x.k = "plugins" THEN <<>> ELSE Flat(x.ch, pre \o x.k \o "."))
        ELSE IF x.n \in {"String", "Number", "Boolean"} THEN <<[key |-> pre \o x.k, node |-> x]>>
        ELSE <<>>) \o Flat(Tail(ns), pre)
MIdx(m, k)   == {i \in 1..Len(m) : m[i].key = k}
MHas(m, k)   == MIdx(m, k) # {}
MStr(m, k)   == m[MaxOf(MIdx(m, k))].node.s                 \* HashMap::insert: the last one stays
GetOwned(m, k)       == IF MHas(m, k) THEN <<MStr(m, k)>> ELSE <<>>
GetOptional(m, k, d) == IF MHas(m, k) THEN MStr(m, k) ELSE d
UBody(s)        == IF StartsWith(s, "+") THEN From(s, 2) ELSE s
ParsesU(s, max) == IsDigits(UBody(s)) /\ Leq(NatOf(UBody(s)), max)       \* u16 / usize / u64 ::from_str
UStr(s)         == DecStr(NatOf(UBody(s)))
ServerMap == Flat(tree.ch, "server.")

T1 ==  \* address, port, threads, websocket, timeout
  /\ phase = "t1"
  /\ LET m == ServerMap
         pOK == ~MHas(m, "server.port") \/ ParsesU(MStr(m, "server.port"), MaxU16)
         tOK == ~MHas(m, "server.threads") \/ ParsesU(MStr(m, "server.threads"), MaxU64)
         oOK == ~MHas(m, "server.timeout") \/ ParsesU(MStr(m, "server.timeout"), MaxU64)
         thr == IF MHas(m, "server.threads") THEN UStr(MStr(m, "server.threads")) ELSE "32"
         tmo == IF MHas(m, "server.timeout") THEN UStr(MStr(m, "server.timeout")) ELSE "0" IN
     IF ~pOK THEN Finish(ErrT("Invalid port"))
     ELSE IF ~tOK THEN Finish(ErrT("Invalid number of threads"))
     ELSE IF ~oOK THEN Finish(ErrT("Invalid connection timeout"))
     ELSE IF thr = "0" /\ "Threads0Accepted" \notin Dev THEN Finish(ErrT("less than 1 thread"))
     ELSE /\ acc' = [acc EXCEPT !.address = GetOptional(m, "server.address", "0.0.0.0"),
                                !.port = IF MHas(m, "server.port") THEN UStr(MStr(m, "server.port")) ELSE "80",
                                !.threads = thr,
                                !.websocket = GetOwned(m, "server.websocket"),
                                !.timeout = IF tmo = "0" THEN <<>> ELSE <<tmo>>]
          /\ phase' = "t2" /\ UNCHANGED <<cid, pstk, sstk, tree, res>>
T2 ==  \* blacklist: load_list_file, IpAddr::from_str, mode
  /\ phase = "t2"
  /\ LET m == ServerMap
         hasF == MHas(m, "server.blacklist.file")
         mode == GetOptional(m, "server.blacklist.mode", "block") IN
     IF hasF /\ ~(MStr(m, "server.blacklist.file") = BlName /\ ast.bl.exists) THEN Finish(ErrT("List file could not be opened"))
     ELSE IF hasF /\ \E i \in 1..Len(ast.bl.ips) : ast.bl.ips[i] \notin GoodIps THEN Finish(ErrT("Could not parse IP address"))
     ELSE IF mode \notin {"block", "forbidden"} THEN Finish(ErrT("Invalid blacklist mode"))
     ELSE /\ acc' = [acc EXCEPT !.bl_list = IF hasF THEN ast.bl.ips ELSE <<>>, !.bl_mode = mode]
          /\ phase' = "t3" /\ UNCHANGED <<cid, pstk, sstk, tree, res>>
T3 ==  \* logging
  /\ phase = "t3"
  /\ LET m == ServerMap
         lvl == Lower(GetOptional(m, "server.log.level", IF "DefaultLogInfo" \in Dev THEN "info" ELSE "warn"))   \* to_ascii_lowercase
         con == GetOptional(m, "server.log.console", "true") IN
     IF lvl \notin LogLevels THEN Finish(ErrT("Invalid log level"))
     ELSE IF con \notin {"true", "false"} THEN Finish(ErrT("server.log.console must be a boolean"))
     ELSE /\ acc' = [acc EXCEPT !.log_level = lvl, !.log_console = (con = "true"),
                                !.log_file = GetOwned(m, "server.log.file")]
          /\ phase' = "t4" /\ UNCHANGED <<cid, pstk, sstk, tree, res>>
T4 ==  \* cache
  /\ phase = "t4"
  /\ LET m == ServerMap
         sOK == ~MHas(m, "server.cache.size") \/ ParsesU(MStr(m, "server.cache.size"), MaxU64)
         tOK == ~MHas(m, "server.cache.time") \/ ParsesU(MStr(m, "server.cache.time"), MaxU64) IN
     IF ~sOK THEN Finish(ErrT("Invalid cache size"))
     ELSE IF ~tOK THEN Finish(ErrT("Invalid cache time"))
     ELSE /\ acc' = [acc EXCEPT !.cache_size = IF MHas(m, "server.cache.size") THEN UStr(MStr(m, "server.cache.size")) ELSE "0",
                                !.cache_time = IF MHas(m, "server.cache.time") THEN UStr(MStr(m, "server.cache.time")) ELSE "0"]
          /\ phase' = "t5" /\ UNCHANGED <<cid, pstk, sstk, tree, res>>

\* parse_route: one RouteConfig per comma-separated pattern; "" in .type marks Err
Pieces(wild) == LET ps == Split(wild, ",") IN
                IF "FirstPatternOnly" \in Dev THEN <<Trim(ps[1])>> ELSE [j \in 1..Len(ps) |-> Trim(ps[j])]
ParseRoute(wild, m) ==
  LET ws == GetOwned(m, "websocket")
      mk(ty, path, targets, mode) == [j \in 1..Len(Pieces(wild)) |->
            [type |-> ty, matches |-> Pieces(wild)[j], path |-> path, targets |-> targets, mode |-> mode, websocket |-> ws]]
      tg == Split(MStr(m, "proxy"), ",")
      md == GetOptional(m, "load_balancer_mode", "round-robin") IN
  IF MHas(m, "file") THEN mk("file", <<MStr(m, "file")>>, <<>>, "")
  ELSE IF MHas(m, "directory") THEN mk("directory", <<MStr(m, "directory")>>, <<>>, "")
  ELSE IF MHas(m, "proxy") THEN
       (IF md \notin {"round-robin", "random"} THEN mk("", <<>>, <<>>, "")
        ELSE mk("proxy", <<>>, IF "LastTargetOnly" \in Dev THEN <<tg[Len(tg)]>> ELSE tg, md))
  ELSE IF MHas(m, "redirect") THEN mk("redirect", <<MStr(m, "redirect")>>, <<>>, "")
  ELSE IF ~MHas(m, "websocket") THEN mk("", <<>>, <<>>, "")
  ELSE mk("websocket", <<>>, <<>>, "")
RECURSIVE NodeRoutes(_)      \* get_routes + parse_host over the children of a Section / Host node
NodeRoutes(ch) == IF ch = <<>> THEN <<>>
                  ELSE (IF Head(ch).n = "Route" THEN ParseRoute(Head(ch).k, Flat(Head(ch).ch, "")) ELSE <<>>)
                       \o NodeRoutes(Tail(ch))
RECURSIVE RevSeq(_)
RevSeq(s) == IF s = <<>> THEN <<>> ELSE Append(RevSeq(Tail(s)), Head(s))
HostRoutes(ch) == IF "ReverseRoutes" \in Dev THEN RevSeq(NodeRoutes(ch)) ELSE NodeRoutes(ch)
RECURSIVE NodeHosts(_)
NodeHosts(ch) == IF ch = <<>> THEN <<>>
                 ELSE (IF Head(ch).n = "Host" THEN <<[matches |-> Head(ch).k, routes |-> HostRoutes(Head(ch).ch)]>> ELSE <<>>)
                      \o NodeHosts(Tail(ch))
BadRoutes(rs) == \E j \in 1..Len(rs) : rs[j].type = ""
T5 ==  \* default host, hosts
  /\ phase = "t5"
  /\ LET d == HostRoutes(tree.ch)  hs == NodeHosts(tree.ch) IN
     IF BadRoutes(d) \/ \E j \in 1..Len(hs) : BadRoutes(hs[j].routes) THEN Finish(ErrT("Invalid route configuration"))
     ELSE Finish(OkR([acc EXCEPT !.default_routes = d, !.hosts = hs]))

Next == \/ P_FindSkip \/ P_FindHit \/ P_FindEof \/ P_Eof \/ P_Blank \/ P_Open \/ P_Close
        \/ P_NoValue \/ P_Value \/ P_Include \/ P_TrailBlank \/ P_TrailJunk \/ P_TrailEof
        \/ T1 \/ T2 \/ T3 \/ T4 \/ T5
Spec == [][Next]_vars /\ WF_vars(Next)

(***************************************************************************)
(* C15 on the model of the code                                            *)
(***************************************************************************)
Agree(r, m, fl) ==
  IF m.kind = "ok" THEN \/ r.kind = "ok" /\ r.cfg = m.cfg
                        \/ m.lenient /\ r.kind \in {"parse-error", "tree-error"}
  ELSE IF m.kind \in {"validation", "reject"} THEN r.kind \in {"parse-error", "tree-error"}
  ELSE /\ r.kind = "parse-error"                \* a syntax error names file and line
       /\ \/ m.loc.rule = "none"
          \/ /\ r.f = m.loc.f
             /\ LET at == LineOf(fl, m.loc.f, m.loc.p, m.loc.part) IN
                IF m.loc.rule = "at" THEN r.line = at
                ELSE r.line >= 1 /\ r.line <= Len(fl[m.loc.f]) + 2
\* loads into exactly what the file describes, or is rejected where it is wrong ...
Conforms == (phase = "done") => Agree(res, Meaning(ast), files)
\* ... never by crashing ...
NoCrash  == res.kind # "panic"
\* ... and the loader always comes to an end
Terminates == <>(phase = "done")
TypeOK == /\ phase \in {"find", "sect", "trail", "t1", "t2", "t3", "t4", "t5", "done"}
          /\ Len(pstk) >= 1 /\ Len(pstk) <= Len(ast.files) + 1
          /\ (phase = "done") = (res.kind # "run")
=============================================================================
