CONSTANTS
  Dev = {"LoneQuoteSlice"}
  AstOf <- MCAstOf
  FilesOf <- MCFilesOf
  Tier = "sens"
INIT MCInit
NEXT Next
INVARIANTS NoCrash Conforms
CHECK_DEADLOCK FALSE
