CONSTANTS
  Dev = {"CollapseWhitespace"}
  AstOf <- MCAstOf
  FilesOf <- MCFilesOf
  Tier = "sens"
INIT MCInit
NEXT Next
INVARIANTS Conforms NoCrash
CHECK_DEADLOCK FALSE
