---------------------------- MODULE Trace_Config ----------------------------
(* Code -> spec direction for C15.  The harness generates random configurations at the property's full width
   (0..4 hosts, 0..8 routes per host, every scalar key, some with one injected fault), writes each one down under a
   random layout (indentation, comments, blank lines, key order, include splitting, non-ASCII mapping), loads it
   with the real parse_conf + Config::from_tree and logs one record per configuration:
       ast  the abstract configuration (same shape as Config.tla's; ast.fault = the token the generator damaged)
       obs  [kind: "ok" | "parse-error" | "tree-error" | "panic", cfg: the loaded Config projected on the spec's
             record, nums: the numbers the error text contains besides file names - the line it names is one of them]
       tok  where the harness wrote the damaged token: [same_file: the error names the file that holds it,
             open / close / line: the line of its header, `}` or key line (0 = no such line), nlines of that file]
   TLC evaluates the same Meaning as everywhere else on every record. *)
EXTENDS Config, Json, IOUtils

Rec == ndJsonDeserialize(IOEnv.TRACE)
TrAstOf(c)   == Rec[c].ast
TrFilesOf(c) == <<>>

VARIABLE bad
trvars == <<vars, bad>>

Explains(r) ==
  LET m == Meaning(r.ast)  o == r.obs  t == r.tok IN
  IF m.kind = "ok" THEN \/ o.kind = "ok" /\ o.cfg = m.cfg
                        \/ m.lenient /\ o.kind \in {"parse-error", "tree-error"}
  ELSE IF m.kind \in {"validation", "reject"} THEN o.kind \in {"parse-error", "tree-error"}
  ELSE /\ o.kind = "parse-error"
       /\ \/ m.loc.rule = "none"
          \/ /\ m.loc.f = r.ast.fault.f /\ m.loc.p = r.ast.fault.p   \* the spec blames the token the generator damaged
             /\ t.same_file
             /\ LET at == IF m.loc.part = "open" THEN t.open ELSE IF m.loc.part = "close" THEN t.close ELSE t.line IN
                /\ at > 0
                /\ \E i \in 1..Len(o.nums) :            \* the numbers found in the error text, whatever its wording
                      IF m.loc.rule = "at" THEN o.nums[i] = at ELSE o.nums[i] >= 1 /\ o.nums[i] <= t.nlines + 3

TrInit == /\ cid = 1 /\ bad = <<>>
          /\ phase = "trace" /\ pstk = <<>> /\ sstk = <<>> /\ tree = N("Section", "", "", <<>>) /\ acc = NullCfg /\ res = Running
TrNext == /\ cid <= Len(Rec)
          /\ cid' = cid + 1
          /\ bad' = IF Len(bad) >= 10 \/ Explains(Rec[cid]) THEN bad ELSE Append(bad, cid)
          /\ UNCHANGED <<phase, pstk, sstk, tree, acc, res>>
TrSpec == TrInit /\ [][TrNext]_trvars

\* checked at the last state: every record was consumed and explained (the first 10 inexplicable ones are printed
\* with what the spec demands of them; the driver stores them as the replay file)
AllExplained == (cid = Len(Rec) + 1) =>
                  \/ bad = <<>>
                  \/ PrintT(ToJson([rejected |-> [i \in 1..Len(bad) |->
                                       [index |-> bad[i], ast |-> Rec[bad[i]].ast, obs |-> Rec[bad[i]].obs,
                                        tok |-> Rec[bad[i]].tok, demanded |-> Meaning(Rec[bad[i]].ast)]]])) /\ FALSE
=============================================================================
