----------------------------- MODULE MC_Config -----------------------------
(* TLC-only definitions for Config.tla: the bounded families of abstract configurations, the layouts the model of
   the code reads them in, generation of vectors for the harness, and the lemmas about Meaning.
   Tier: "quick" | "thorough" | "dev" (the small family used by the sensitivity configs). *)
EXTENDS Config, Json, SequencesExt, IOUtils

CONSTANT Tier

Plain(a) == a

SeqsUpTo(A, n) == UNION { [1..k -> A] : k \in 0..n }
SeqsOf(A, n)   == [1..n -> A]

(***************************************************************************)
(* scalar keys: 12 known ones, `tls` and `plugins` sections (unknown to a  *)
(* build without those features, as the harness links it) + an unknown key*)
(***************************************************************************)
NScal == 14
Top5  == <<"address", "port", "threads", "timeout", "websocket">>
BaseVal == <<Q("127.0.0.1"), "8080", "8", "5", Q("localhost:1234"), Q("@"), Q("forbidden"), Q("debug"),
             "false", Q("humphrey.log"), "128M", "60">>
\* (L1) boundary values: 0, 1, limits, powers of two +-1 around 2^8, 2^16, 2^24, 2^31, 2^32, 2^53, 2^63
Sizes == { n \o u : n \in {"0", "1", "1023", "128"}, u \in {"", "K", "M", "G"} }
         \cup {"8589934591G", "8796093022207M", "9007199254740991K", "255", "256", "65535", "65536", "16777217", "2147483647",
               "2147483648", "4294967295", "4294967296", "9007199254740993", "9223372036854775807", "4194304K", "4095M"}
BigNats == {"255", "256", "65536", "2147483648", "4294967297", "9007199254740993", "9223372036854775807"}
\* strings with runs of blanks, a blank next to a quotation mark and a tab between the quotation marks: byte-exact
AltVals == << {Q("0.0.0.0"), Q("::1"), Q("my host {x}"), Q(" my   host ")}, {"0", "1", "80", "255", "256", "443", "65534", "65535", "63K"}, {"1", "2", "32", "1000"} \cup BigNats,
              {"0", "1", "3600"} \cup BigNats, {Q("ws.example.com:80"), Q("ws  host:80")}, {}, {Q("block")}, {Q("error"), Q("warn"), Q("info")},
              {"true"}, {Q("/var/log/h u.log"), Q("/var/log/h  u.log"), Q(" \tlogs\t \tx.log ")}, Sizes, {"0", "1", "86400"} \cup BigNats >>

ScalarRoot(P, val) ==
  LET T[i \in 0..5] == IF i = 0 THEN <<>> ELSE T[i - 1] \o (IF i \in P THEN <<K(Top5[i], val[i])>> ELSE <<>>)
      opt(i, k) == IF i \in P THEN <<K(k, val[i])>> ELSE <<>>
      sec(name, es) == IF es = <<>> THEN <<>> ELSE <<S(name, es)>> IN
  T[5]
  \o sec("blacklist", opt(6, "file") \o opt(7, "mode"))
  \o sec("log", opt(8, "level") \o opt(9, "console") \o opt(10, "file"))
  \o sec("cache", opt(11, "size") \o opt(12, "time"))
  \o (IF 13 \in P THEN <<S("tls", <<K("cert_file", Q("cert.pem")), K("key_file", Q("key.pem")), K("force", "false")>>)>>
      ELSE <<>>)
  \o (IF 14 \in P THEN <<S("plugins", <<S("php", <<K("library", Q("php.so")), K("port", "9000"), K("threads", "8")>>)>>),
                         K("colour", Q("red"))>>
      ELSE <<>>)
BlFor(P) == IF 6 \in P THEN [exists |-> TRUE, ips |-> <<"127.0.0.1", "::1", "10.0.0.7">>] ELSE NoBl
AllScal  == 1..NScal
Small(n) == IF n = 0 THEN {{}} ELSE IF n = 1 THEN {{}} \cup { {i} : i \in AllScal }
            ELSE {{}} \cup { {i, j} : i \in AllScal, j \in AllScal }          \* all subsets with at most n <= 2 elements
\* present-sets with at most lo or at least NScal - lo keys: every pair of keys is seen present/present,
\* present/absent, absent/absent
PSets(lo, hi) == Small(lo) \cup { AllScal \ P : P \in Small(NScal - hi) }

(***************************************************************************)
(* routes: 9 kinds x pattern-list arity                                    *)
(***************************************************************************)
RKind(i) ==
  CASE i = 1 -> <<K("file", Q("/var/www/index.html"))>>
    [] i = 2 -> <<K("directory", Q("/var/www"))>>
    [] i = 3 -> <<K("proxy", Q("127.0.0.1:8000"))>>
    [] i = 4 -> <<K("proxy", Q("127.0.0.1:8080,127.0.0.1:8000")), K("load_balancer_mode", Q("round-robin"))>>
    [] i = 5 -> <<K("load_balancer_mode", Q("random")), K("proxy", Q("b:2,c:3,a:1"))>>
    [] i = 6 -> <<K("redirect", Q("http://localhost/a  b"))>>
    [] i = 7 -> <<K("websocket", Q("localhost:1234"))>>
    [] i = 8 -> <<K("file", Q(" /srv/my  app.html ")), K("websocket", Q("localhost:9999"))>>
    [] i = 9 -> <<K("colour", Q("blue")), K("directory", Q("/srv/my\tfiles   x")), K("load_balancer_mode", Q("random"))>>
\* pattern names are chosen so that file order is neither the ascending nor the descending order of the names
\* (routes of the default host: q c x, of a host: d w k; patterns of one route: /w/* /b /t): a loader that sorts is noticed
RTag(h, j) == IF h = 0 THEN <<"q", "c", "x">>[j] ELSE <<"d", "w", "k">>[j]
PSuf == <<"/w/*", "/b", "/t">>
Pats(h, j, a) == [x \in 1..a |-> "/h" \o ToString(h) \o RTag(h, j) \o PSuf[x]]
MkRoutes(h, shapes) == [j \in 1..Len(shapes) |-> R(Pats(h, j, shapes[j][2]), RKind(shapes[j][1]))]
Shapes13 == { <<k, 1>> : k \in 1..9 } \cup { <<2, 2>>, <<5, 3>>, <<6, 2>>, <<7, 2>> }
Shapes4  == { <<2, 1>>, <<4, 1>>, <<7, 2>>, <<1, 1>> }
HostPat  == <<"localhost", "*.my  site.com", "127.0.0.1", "*">>
MkHosts(hs) == [h \in 1..Len(hs) |-> H(HostPat[h], MkRoutes(h, hs[h]))]
RECURSIVE Alternate(_, _)
Alternate(a, b) == IF a = <<>> THEN b ELSE IF b = <<>> THEN a ELSE <<Head(a), Head(b)>> \o Alternate(Tail(a), Tail(b))
\* order of the server section: 1 = keys, hosts, routes; 2 = routes, hosts, keys; 3 = routes and hosts alternating, keys
RootOf(order, scal, d, hs) ==
  CASE order = 1 -> scal \o MkHosts(hs) \o MkRoutes(0, d)
    [] order = 2 -> MkRoutes(0, d) \o MkHosts(hs) \o scal
    [] order = 3 -> Alternate(MkRoutes(0, d), MkHosts(hs)) \o scal

Base12 == [i \in 1..12 |-> BaseVal[i]]
Dflt   == <<<<2, 1>>>>          \* one plain directory route

FamPresence(lo, hi) == { Plain(Ast(RootOf(1, ScalarRoot(P, Base12), Dflt, <<>>), <<>>, BlFor(P))) : P \in PSets(lo, hi) }
\* the quick tier takes a sample of the boundary values, the thorough tier all of them
QuickVals == << AltVals[1], {"0", "1", "255", "256", "65535", "63K"}, {"1", "4294967297"}, {"0", "1", "4294967297", "9223372036854775807"},
                AltVals[5], {}, AltVals[7], AltVals[8], AltVals[9], AltVals[10],
                { n \o u : n \in {"0", "1023", "128"}, u \in {"", "K", "M", "G"} }
                  \cup {"8589934591G", "8796093022207M", "65536", "2147483648", "4294967295", "9007199254740993", "9223372036854775807"},
                {"0", "1", "9007199254740993"} >>
ValsOf(i) == IF Tier = "thorough" THEN AltVals[i] ELSE QuickVals[i]
FamValues == UNION { { Plain(Ast(RootOf(2, ScalarRoot(AllScal, [Base12 EXCEPT ![i] = x]), <<>>, <<>>), <<>>, BlFor(AllScal))) :
                         x \in ValsOf(i) } : i \in 1..12 }
FamDefault(A, n) == { Plain(Ast(RootOf(1, <<>>, d, <<>>), <<>>, NoBl)) : d \in SeqsUpTo(A, n) }
FamDefault3(A)   == { Plain(Ast(RootOf(1, <<>>, d, <<>>), <<>>, NoBl)) : d \in SeqsOf(A, 3) }
FamOneHost(A, n, B) == { Plain(Ast(RootOf(1, <<K("port", "81")>>, d, <<r>>), <<>>, NoBl)) : r \in SeqsUpTo(A, n), d \in SeqsUpTo(B, 1) }
FamTwoHosts(T, orders) == { Plain(Ast(RootOf(o, <<K("threads", "2")>>, d, <<r1, r2>>), <<>>, NoBl)) :
                               r1 \in SeqsUpTo(T, 1), r2 \in SeqsUpTo(T, 1), d \in {<<>>, Dflt}, o \in orders }
FullRoot(o) == RootOf(o, ScalarRoot(AllScal, Base12), <<<<2, 2>>, <<5, 3>>, <<8, 1>>>>,
                      << <<<<6, 1>>, <<1, 1>>, <<7, 2>>>>, <<<<4, 1>>, <<9, 1>>, <<3, 1>>>>, <<<<2, 1>>>> >>)
FamFull == { Plain(Ast(FullRoot(o), <<>>, BlFor(AllScal))) : o \in 1..3 }

\* include splitting: a run i..j of a sequence of entries moves to a new file
SplitRun(es, i, j, fid) == SubSeq(es, 1, i - 1) \o <<I(fid)>> \o SubSeq(es, j + 1, Len(es))
SplitRoot(a, i, j) == [a EXCEPT !.srv.es = SplitRun(@, i, j, Len(a.files) + 1),
                                !.files = Append(@, SubSeq(a.srv.es, i, j))]
SplitIn(a, k, i, j) == [a EXCEPT !.srv.es[k].es = SplitRun(@, i, j, Len(a.files) + 1),     \* inside the k-th entry
                                 !.files = Append(@, SubSeq(a.srv.es[k].es, i, j))]
SplitFile(a, f, i, j) == [a EXCEPT !.files[f] = SplitRun(@, i, j, Len(a.files) + 1),        \* inside include file f
                                   !.files = Append(@, SubSeq(a.files[f], i, j))]
Runs(n) == { r \in (1..n) \X (1..n) : r[1] <= r[2] }
SmallAst == Ast(RootOf(1, ScalarRoot({2, 3, 8, 9, 11}, Base12), <<<<2, 2>>, <<5, 1>>>>, << <<<<6, 1>>, <<8, 1>>>> >>), <<>>, NoBl)
FamIncludes(a) ==
  { Plain(SplitRoot(a, r[1], r[2])) : r \in Runs(Len(a.srv.es)) }
  \cup UNION { { Plain(SplitIn(a, k, r[1], r[2])) : r \in Runs(Len(a.srv.es[k].es)) } :
                 k \in { k \in 1..Len(a.srv.es) : IsSection(a.srv.es[k]) } }
  \cup { Plain(SplitFile(SplitRoot(a, 1, Len(a.srv.es)), 1, r[1], r[2])) : r \in Runs(Len(a.srv.es)) }   \* nested
\* the base configurations the faults are injected into: one flat, one that includes a file holding a route, a host
\* and a section
FaultBase1 == SmallAst
FaultBase2 == SplitFile(SplitRoot(SmallAst, 2, Len(SmallAst.srv.es)), 1, 2, 3)
FaultBase3 == Ast(FullRoot(3), <<>>, BlFor(AllScal))
FamFaults(a) == Faults(a)
\* (L8) sections whose keys interact: `mode` without `file`, `file` without `mode`, `size` without `time`
OnlyKeys(P) == Ast(RootOf(1, ScalarRoot(P, Base12), <<>>, <<>>), <<>>, BlFor(P))
BraceFaults(a) == { x \in Faults(a) : x.fault.cls \in {"MissingOpenBrace", "MissingCloseBrace"} }

ReplayRecs(x) == ndJsonDeserialize(IOEnv.TRACE)     \* (a parameter keeps TLC from evaluating it when there is no file)
Cases ==
  CASE Tier = "dev" ->
         FamPresence(0, 14) \cup FamDefault(Shapes4, 1) \cup FamTwoHosts({<<2, 1>>, <<7, 2>>}, {3})
         \cup { Plain(FaultBase2) } \cup FamFaults(FaultBase2) \cup BraceFaults(FaultBase1)
    [] Tier = "sens" ->        \* the small family of the sensitivity, liveness and vacuity-guard runs: one witness class per deviation
         FamPresence(0, 14) \cup FamDefault(Shapes4, 1) \cup FamTwoHosts({<<2, 1>>, <<7, 2>>}, {3}) \cup { Plain(FaultBase2) }
         \cup { x \in FamFaults(FaultBase2) \cup BraceFaults(FaultBase1) :
                  x.fault.cls \in {"LoneQuote", "TooBig", "MissingOpenBrace", "MissingCloseBrace", "UnterminatedQuote", "OutOfRange",
                                   "BadNumber", "MissingValue", "NoSuchInclude"} }
    [] Tier = "replay" ->      \* the cases of a replay file (bin/check C15 --replay): Meaning is recomputed, not trusted
         { ReplayRecs(0)[i].ast : i \in 1..Len(ReplayRecs(0)) }
    [] Tier = "quick" ->
         FamPresence(1, 13) \cup FamValues \cup FamDefault(Shapes13, 1) \cup FamDefault(Shapes4, 2)
         \cup FamOneHost(Shapes13, 1, Shapes4) \cup FamTwoHosts(Shapes4, {3}) \cup FamFull
         \cup FamIncludes(SmallAst) \cup FamFaults(FaultBase2) \cup BraceFaults(FaultBase1)
         \cup { x \in FamFaults(OnlyKeys({7})) : x.fault.cls \in {"BadEnum", "OtherCase", "EmptyString", "MissingValue", "LoneQuote"} }
    [] Tier = "thorough" ->
         FamPresence(2, 12) \cup FamValues \cup FamDefault(Shapes13, 2) \cup FamDefault3(Shapes4 \cup {<<5, 3>>, <<9, 1>>})
         \cup FamOneHost(Shapes13, 2, Shapes4) \cup FamTwoHosts(Shapes4 \cup {<<8, 1>>}, {1, 2, 3}) \cup FamFull
         \cup FamIncludes(SmallAst) \cup FamIncludes(Ast(FullRoot(1), <<>>, BlFor(AllScal)))
         \cup FamFaults(FaultBase1) \cup FamFaults(FaultBase2) \cup FamFaults(FaultBase3)
         \cup FamFaults(OnlyKeys({7})) \cup FamFaults(OnlyKeys({6})) \cup FamFaults(OnlyKeys({11})) \cup FamFaults(OnlyKeys({12}))

(***************************************************************************)
(* layouts read by the model of the code                                   *)
(***************************************************************************)
L0 == [ind |-> "", sep |-> " ", cmt |-> "", psep |-> ",", blank |-> FALSE, pre |-> FALSE]
L1 == [ind |-> "    ", sep |-> "    ", cmt |-> " # note \"q\" { }", psep |-> ", ", blank |-> TRUE, pre |-> TRUE]
L2 == [ind |-> "\t", sep |-> " ", cmt |-> "#x", psep |-> " , ", blank |-> FALSE, pre |-> TRUE]
LayoutSeq == IF Tier = "thorough" THEN <<L0, L1, L2>> ELSE IF Tier = "quick" THEN <<L0, L1>> ELSE <<L1>>
\* include splittings tried by LemSplit: every run in the thorough tier; runs of length <= 2 and the whole list otherwise
SplitRuns(n) == IF Tier = "thorough" THEN Runs(n) ELSE { r \in Runs(n) : r[2] - r[1] <= 1 \/ (r[1] = 1 /\ r[2] = n) }

\* the case table (constant: computed once)
CaseTab == SetToSeq(Cases)
NL      == Len(LayoutSeq)
NCases  == Len(CaseTab) * NL
MCAstOf(c)   == CaseTab[((c - 1) \div NL) + 1]
FilesTab     == [c \in 1..NCases |-> RenderFiles(MCAstOf(c), LayoutSeq[((c - 1) % NL) + 1])]
MCFilesOf(c) == FilesTab[c]

MCInit == \E c \in 1..NCases : Init0(c)
MCSpec == MCInit /\ [][Next]_vars /\ WF_vars(Next)

(***************************************************************************)
(* generation: one JSON line per case                                      *)
(***************************************************************************)
GenInit == \E c \in { 1 + NL * (k - 1) : k \in 1..Len(CaseTab) } : Init0(c)
GenNext == FALSE /\ UNCHANGED vars
GenInv  == PrintT(ToJson([ast |-> ast, exp |-> Meaning(ast)]))

(***************************************************************************)
(* lemmas about Meaning (evaluated on the initial states = the cases)      *)
(***************************************************************************)
IsScalarEntry(e) == e.t = "key" \/ e.t = "sec"
MoveToEnd(es, i)   == SubSeq(es, 1, i - 1) \o SubSeq(es, i + 1, Len(es)) \o <<es[i]>>
MoveToFront(es, i) == <<es[i]>> \o SubSeq(es, 1, i - 1) \o SubSeq(es, i + 1, Len(es))
Clean == ast.fault.cls = "" /\ Meaning(ast).ok
\* the structural lemmas are not repeated for the value variations of one and the same structure
Structural == Clean /\ ast \notin FamValues
\* the position of a key or plain section among the entries of `server` (and of a key inside a section) is irrelevant
LemPermute ==
  Structural => LET m == Meaning(ast)  es == ast.srv.es IN
           /\ \A i \in { i \in 1..Len(es) : IsScalarEntry(es[i]) } :
                 /\ Meaning([ast EXCEPT !.srv.es = MoveToEnd(es, i)]) = m
                 /\ Meaning([ast EXCEPT !.srv.es = MoveToFront(es, i)]) = m
           /\ \A k \in { k \in 1..Len(es) : IsSection(es[k]) /\ es[k].es # <<>> } :
                 \/ ~IsScalarEntry(es[k].es[1])        \* routes, hosts and includes (which may hold routes) keep their place
                 \/ Meaning([ast EXCEPT !.srv.es[k].es = MoveToEnd(@, 1)]) = m
\* moving any run of entries into an included file is irrelevant
LemSplit ==
  Structural => LET m == Meaning(ast)  es == ast.srv.es IN
           /\ \A r \in SplitRuns(Len(es)) : Meaning(SplitRoot(ast, r[1], r[2])) = m
           /\ \A k \in { k \in 1..Len(es) : IsSection(es[k]) } :
                 \A r \in SplitRuns(Len(es[k].es)) : Meaning(SplitIn(ast, k, r[1], r[2])) = m
\* an unknown key or an unknown section anywhere is ignored
LemUnknown ==
  Structural => LET m == Meaning(ast)  es == ast.srv.es
               junk == <<K("colour", Q("red")), S("extras", <<K("port", "1"), K("file", Q("x"))>>)>> IN
           /\ Meaning([ast EXCEPT !.srv.es = junk \o @]) = m
           /\ Meaning([ast EXCEPT !.srv.es = @ \o junk]) = m
           /\ \A k \in { k \in 1..Len(es) : IsSection(es[k]) } : Meaning([ast EXCEPT !.srv.es[k].es = junk \o @]) = m
\* omitting a key changes its field, to the fixed default, and nothing else
DefaultOf == [address |-> "0.0.0.0", port |-> "80", threads |-> "32", websocket |-> <<>>, timeout |-> <<>>,
              bl_list |-> <<>>, bl_mode |-> "block", log_level |-> "warn", log_console |-> TRUE, log_file |-> <<>>,
              cache_size |-> "0", cache_time |-> "0"]
FieldOf(sec, k) == CASE sec = "" -> k
                     [] sec = "blacklist" -> (IF k = "file" THEN "bl_list" ELSE "bl_mode")
                     [] sec = "log" -> "log_" \o k
                     [] sec = "cache" -> "cache_" \o k
LemDefaults ==
  Clean => LET m == Meaning(ast)  es == ast.srv.es IN
           /\ \A i \in { i \in 1..Len(es) : es[i].t = "key" /\ es[i].k \in {"address", "port", "threads", "websocket", "timeout"} } :
                 LET m2 == Meaning([ast EXCEPT !.srv.es = DropAt(@, <<i>>)]) IN
                 m2.ok /\ m2.cfg = [m.cfg EXCEPT ![es[i].k] = DefaultOf[es[i].k]]
           /\ \A k \in { k \in 1..Len(es) : es[k].t = "sec" /\ es[k].k \in {"blacklist", "log", "cache"} } :
                 \A i \in { i \in 1..Len(es[k].es) : es[k].es[i].t = "key" } :
                    LET m2 == Meaning([ast EXCEPT !.srv.es = DropAt(@, <<k, i>>)])
                        fld == FieldOf(es[k].k, es[k].es[i].k) IN
                    m2.ok /\ m2.cfg = [m.cfg EXCEPT ![fld] = DefaultOf[fld]]
\* Meaning points at the token a syntax fault hit; a broken rule is a validation error; an oversized number is rejected
LemFaults ==
  LET m == Meaning(ast)  fault == ast.fault IN
  /\ fault.cls \in SyntaxClasses => m.kind = "syntax" /\ m.loc.f = fault.f /\ m.loc.p = fault.p
  /\ fault.cls \in RuleClasses   => m.kind \in {"validation", "ok"}     \* "ok": the key sits in an ignored section
  /\ fault.cls \in {"TooBig", "NoSuchInclude"} => m.kind = "reject"
  /\ fault.cls = ""              => m.kind \in {"ok"} /\ ~m.lenient
  /\ fault.cls \in {"TripleQuote", "QuoteInPattern", "OtherCase", "EmptyPattern"} => m.kind # "ok" \/ m.lenient
LemmaInv == LemPermute /\ LemSplit /\ LemUnknown /\ LemDefaults /\ LemFaults

\* the arithmetic of the lexical layer, against literal values
ASSUME /\ NumStr("128M") = "134217728" /\ NumStr("1023G") = "1098437885952" /\ NumStr("1K") = "1024"
       /\ NumStr("8589934591G") = "9223372035781033984" /\ TokKind("8589934591G") = "size"
       /\ TokKind("8589934592G") = "toobig" /\ TokKind("9223372036854775807") = "int"
       /\ TokKind("9223372036854775808") = "toobig" /\ TokKind("-9223372036854775808") = "int"
       /\ TokKind("-8589934592G") = "size" /\ NumStr("-1K") = "-1024" /\ NumStr("0G") = "0"
       /\ TokKind("12x") = "bad" /\ TokKind("1.5") = "bad" /\ TokKind("\"a") = "bad" /\ TokKind("\"") = "bad"
       /\ TokKind("\"\"") = "str" /\ TokKind("true") = "bool" /\ TokKind("128" \o NA) = "bad" /\ TokKind("K") = "bad"
       /\ IsNatUpTo("65535", MaxU16) /\ ~IsNatUpTo("65536", MaxU16) /\ ~IsNatUpTo("-1", MaxU16) /\ IsNatUpTo("64K", MaxU64)
       /\ Words("  a \t b  \"c  d\" ") = <<"a", "b", "\"c", "d\"">> /\ StrBody(Trim("  \" x  y\t \"  ")) = " x  y\t "
       /\ Lower("BlOck-9") = "block-9" /\ Upper("\"round-robin\"") = "\"ROUND-ROBIN\"" /\ UTrim("``\"a`\"`") = "\"a`\""
       /\ TokKind("17179869184G") = "toobig" /\ TokKind("36028797018963969K") = "toobig" /\ TokKind("8796093022207M") = "size"
       /\ NumStr("8796093022207M") = "9223372036853727232" /\ NumStr("9007199254740991K") = "9223372036854774784"
       /\ TokKind("TRUE") = "bool" /\ TokKind("128" \o WSX) = "bad" /\ IsNatUpTo("63K", MaxU16) /\ NatStr("63K") = "64512"
       /\ Split("a,b,,c", ",") = <<"a", "b", "", "c">> /\ Trim(" \t x y \t") = "x y" /\ Subst("\"@\"", "F1") = "\"F1\""
=============================================================================
