CONSTANTS
  Dev = {}
  AstOf <- MCAstOf
  FilesOf <- MCFilesOf
  Tier = "dev"
INIT MCInit
NEXT Next
INVARIANTS Conforms NoCrash TypeOK
CHECK_DEADLOCK FALSE
