CONSTANTS
  Dev = {}
  Mut = {"Len64Low32"}
  RsvSet <- Rsv2
  OpSet = {2}
  PayBytes = {165}
  MaxPay = 2
  Boundary = {}
INIT Init
NEXT Next
INVARIANTS DecoderCorrect
CHECK_DEADLOCK FALSE
