----------------------------- MODULE MC_WsFrame -----------------------------
(* TLC-only definitions for WsFrame: bounded frame / wire spaces, lemma state spaces, emission. *)
EXTENDS WsFrame, Json

CONSTANTS RsvSet,      \* rsv triples used in the concrete (decoder) space
          OpSet,       \* opcodes used there (incl. reserved ones)
          PayBytes,    \* payload byte values used there
          MaxPay,      \* maximal concrete payload length
          Boundary     \* concrete payload lengths around the 125/126 boundary (whole frames only)

Rsv2 == { <<0, 0, 0>>, <<1, 0, 1>> }
Rsv3 == Rsv2 \cup { <<0, 1, 0>> }
Rsv4 == Rsv3 \cup { <<1, 1, 1>> }
Keys == { <<0, 0, 0, 0>>, <<255, 255, 255, 255>>, <<1, 2, 3, 4>>, <<165, 90, 60, 195>>, <<0, 0, 0, 128>> }
MaskKeys == { <<0, <<0, 0, 0, 0>> >> } \cup { <<1, k>> : k \in Keys }
SeqsUpTo(S, n) == UNION { [1..k -> S] : k \in 0..n }
Mk(fi, rs, o, mk, pl) == [fin |-> fi, rsv |-> rs, op |-> o, mask |-> mk[1], key |-> mk[2], len |-> Len(pl), payload |-> pl]
Ramp(n) == [i \in 1..n |-> (i * 7 + n) % 256]

SmallFrames == { Mk(fi, rs, o, mk, pl) : fi \in {0, 1}, rs \in RsvSet, o \in OpSet, mk \in MaskKeys,
                                         pl \in SeqsUpTo(PayBytes, MaxPay) }
BoundaryFrames == { Mk(1, <<0, 0, 0>>, 2, mk, Ramp(n)) : mk \in { <<0, <<0, 0, 0, 0>> >>, <<1, <<165, 90, 60, 195>> >> }, n \in Boundary }

\* the same frame with a longer-than-necessary length form (a decoder need not reject it, DESIGN 5a)
NonMin16(f) == <<Byte0(f), f.mask * 128 + 126>> \o BE2(f.len) \o (IF f.mask = 1 THEN f.key ELSE <<>>) \o f.payload
NonMin64(f) == <<Byte0(f), f.mask * 128 + 127>> \o BE8(f.len) \o (IF f.mask = 1 THEN f.key ELSE <<>>) \o f.payload
Prefixes(s) == { SubSeq(s, 1, k) : k \in 0..Len(s) }
\* 64-bit length fields at the numeric boundaries (lessons L1): 2^31-1, 2^31, 2^32-1, 2^32, 2^53, 2^63-1, 2^63,
\* 2^64-4 .. 2^64-1, and 2^24 (representable, but far more than follows)
BigLens8 == { <<0, 0, 0, 0, 127, 255, 255, 255>>, <<0, 0, 0, 0, 128, 0, 0, 0>>, <<0, 0, 0, 0, 255, 255, 255, 255>>,
              <<0, 0, 0, 1, 0, 0, 0, 0>>, <<0, 32, 0, 0, 0, 0, 0, 0>>, <<127, 255, 255, 255, 255, 255, 255, 255>>,
              <<128, 0, 0, 0, 0, 0, 0, 0>>, <<255, 255, 255, 255, 255, 255, 255, 252>>, <<255, 255, 255, 255, 255, 255, 255, 253>>,
              <<255, 255, 255, 255, 255, 255, 255, 254>>, <<255, 255, 255, 255, 255, 255, 255, 255>>, <<0, 0, 0, 0, 1, 0, 0, 0>> }
HugeHeaders == { <<130, mb * 128 + 127>> \o e \o (IF mb = 1 THEN <<165, 90, 60, 195>> ELSE <<>>) : mb \in {0, 1}, e \in BigLens8 }
HugeTails == { <<>>, <<9>>, <<1, 2, 3, 4>>, <<1, 2, 3, 4, 5, 6, 7, 8, 9>> }
HugeWires == { h \o t : h \in HugeHeaders, t \in HugeTails }
             \cup { SubSeq(h, 1, k) : h \in HugeHeaders, k \in {3, 9} } \cup { SubSeq(h, 1, Len(h) - 1) : h \in HugeHeaders }
             \cup { <<131, 127, 255, 255, 255, 255, 255, 255, 255, 255>>, <<136, 255, 0, 0, 0, 1, 0, 0, 0, 0, 1, 2, 3, 4, 7>> }
\* whatever follows such a header, the frame cannot be completed by any input a test can hold
HugeLemma == \A w \in HugeWires : Decode(w).r \in {"ReadError", "EitherError"}
ASSUME HugeLemma

\* (an operator with parameters on purpose: TLC evaluates parameterless constant definitions at start-up in every
\*  configuration, also in those that never use them)
WiresOf(SF, BF) == UNION { Prefixes(Encode(f) \o <<129>>) \cup Prefixes(NonMin16(f)) \cup Prefixes(NonMin64(f)) : f \in SF }
         \cup { Encode(f) : f \in BF }
         \cup { SubSeq(Encode(f), 1, Len(Encode(f)) - 1) : f \in BF }
         \cup HugeWires

\* ---- 1. the decoder under every delivery schedule
Init == InitOn(WiresOf(SmallFrames, BoundaryFrames))
Spec == Init /\ [][Next]_vars /\ WF_vars(Next)

\* ---- 2. encoder model = denotation, and the round trip, on concrete frames (a state space of frames)
FrInit == /\ fr \in SmallFrames \cup BoundaryFrames
          /\ wire = <<>> /\ sent = 0 /\ eof = FALSE /\ cons = 0 /\ phase = "frame" /\ res = "lemma"
FrNext == FALSE /\ UNCHANGED vars
EncLemma == EncAlgo(fr) = Encode(fr)
RoundTripLemma == (fr.op \in Opcodes) => RoundTrip(fr)
ReservedLemma == (fr.op \notin Opcodes) => Decode(Encode(fr)).r = "InvalidOpcode"

\* ---- 3. abstract frames [len, seed]: every header bit, the property's length classes (and 2^31 - 1)
GenLens == {0, 1, 124, 125, 126, 127, 128, 65534, 65535, 65536, 65537}
AllRsv == { <<a, b, c>> : a \in {0, 1}, b \in {0, 1}, c \in {0, 1} }
AbsFrames(Ls) == { [fin |-> fi, rsv |-> rs, op |-> o, mask |-> mk[1], key |-> mk[2], len |-> n, payload |-> <<>>] :
                   fi \in {0, 1}, rs \in AllRsv, o \in Opcodes, mk \in MaskKeys, n \in Ls }
AbsInit == /\ fr \in AbsFrames(GenLens \cup {2147483647})
           /\ wire = <<>> /\ sent = 0 /\ eof = FALSE /\ cons = 0 /\ phase = "abs" /\ res = "lemma"
AbsLemma == HeaderRoundTrip(fr) /\ EncAlgo(fr) = Header(fr)
Seed(f) == (f.len * 31 + f.op * 7 + f.fin + f.mask * 3 + f.rsv[1] + f.rsv[2] * 2 + f.rsv[3] * 4 + f.key[2]) % 65537
\* payloads of several MiB and lengths around the 4 KiB block size (lessons L2): decoded by the harness under
\* readers that return 1, 3, 7, 4093, 4096, 4099 ... bytes per read
BigLens == {4095, 4096, 4097, 3145729, 4194307, 5242881}
BigFrames == { [fin |-> 1, rsv |-> <<0, 0, 0>>, op |-> 2, mask |-> mk[1], key |-> mk[2], len |-> n, payload |-> <<>>] :
               mk \in { <<0, <<0, 0, 0, 0>> >>, <<1, <<165, 90, 60, 195>> >>, <<1, <<1, 2, 3, 4>> >> }, n \in BigLens }
BigInit == /\ fr \in BigFrames
           /\ wire = <<>> /\ sent = 0 /\ eof = FALSE /\ cons = 0 /\ phase = "big" /\ res = "lemma"
GenBig == phase = "big" =>
  /\ AbsLemma
  /\ PrintT(ToJson([k |-> "bigframe", fin |-> fr.fin, rsv |-> fr.rsv, op |-> fr.op, mask |-> fr.mask, key |-> fr.key,
                    len |-> fr.len, seed |-> Seed(fr), hdr |-> Header(fr)]))
HugeInit == /\ wire \in HugeHeaders /\ fr = NoFrame
            /\ sent = 0 /\ eof = FALSE /\ cons = 0 /\ phase = "huge" /\ res = "lemma"
GenHuge == phase = "huge" =>
  /\ \A t \in HugeTails : Decode(wire \o t).r = "ReadError"
  /\ PrintT(ToJson([k |-> "huge", h |-> wire, exp |-> Decode(wire).r]))
GenFrame == (phase = "abs" /\ fr.len < 2147483647) =>
  PrintT(ToJson([k |-> "frame", fin |-> fr.fin, rsv |-> fr.rsv, op |-> fr.op, mask |-> fr.mask, key |-> fr.key,
                 len |-> fr.len, seed |-> Seed(fr), hdr |-> Header(fr)]))

\* ---- 4. every two-byte header: one line per first byte
HdrInit == /\ wire \in { <<b0>> : b0 \in 0..255 } /\ fr = NoFrame
           /\ sent = 0 /\ eof = FALSE /\ cons = 0 /\ phase = "hdr2" /\ res = "lemma"
GenHdr == phase = "hdr2" =>
  LET b0 == wire[1] IN
  PrintT(ToJson([k |-> "hdr2", b0 |-> b0, fin |-> Bit(b0, 128), rsv |-> <<Bit(b0, 64), Bit(b0, 32), Bit(b0, 16)>>, op |-> b0 % 16,
                 b1s |-> [i \in 1..256 |-> [need |-> Need(b0, i - 1), mask |-> Bit(i - 1, 128), len7 |-> (i - 1) % 128, minlen |-> MinLenFor(i - 1),
                                            two |-> Decode(<<b0, i - 1>>).r]]]))
\* consistency of Need with Decode on bare headers: a bare header decodes iff nothing is needed and len7 = 0
HdrLemma == phase = "hdr2" =>
  \A b1 \in 0..255 : LET dr == Decode(<<wire[1], b1>>).r IN
     /\ (dr = "ok") <=> (Need(wire[1], b1) = 0 /\ b1 % 128 = 0)
     /\ (Need(wire[1], b1) = 99) <=> (dr \in {"InvalidOpcode", "EitherError"})

\* ---- 5. XOR table for the harness-side unmasking of long payloads, and the small concrete wires
XorInit == /\ wire \in { <<a>> : a \in 0..255 } /\ fr = NoFrame
           /\ sent = 0 /\ eof = FALSE /\ cons = 0 /\ phase = "xor" /\ res = "lemma"
GenXor == phase = "xor" => PrintT(ToJson([k |-> "xor", a |-> wire[1], row |-> [b \in 1..256 |-> wire[1] ^^ (b - 1)]]))
WireInit == /\ wire \in WiresOf(SmallFrames, BoundaryFrames) /\ fr = NoFrame
            /\ sent = 0 /\ eof = FALSE /\ cons = 0 /\ phase = "wire" /\ res = "lemma"
GenWire == phase = "wire" => PrintT(ToJson([k |-> "wire", w |-> wire, exp |-> Decode(wire), nonmin |-> NonMinimal(wire)]))

GenAllInit == AbsInit \/ HdrInit \/ XorInit \/ WireInit \/ BigInit \/ HugeInit
GenAllInv == GenFrame /\ GenHdr /\ GenXor /\ GenWire /\ GenBig /\ GenHuge /\ (phase = "abs" => AbsLemma) /\ HdrLemma
=============================================================================
