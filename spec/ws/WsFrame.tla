------------------------------- MODULE WsFrame -------------------------------
(* WebSocket base framing (RFC 6455 section 5.2) - property C10.

   A frame is a record [fin, rsv, op, mask, key, len, payload]: fin, mask and the three rsv entries are 0/1,
   op is the 4-bit opcode, key four bytes, payload a byte sequence of length len.  Following DESIGN 5a a
   masked frame's `payload` is the payload as it travels on the wire; Encode lays it out as is and
   Decode returns it unmasked.

   Denotation (written from the RFC):
     Header(f), Encode(f)    bit layout, shortest of the 7 / 7+16 / 7+64 bit length forms, key iff MASK
     Unmask(p, key)          octet i of the result is octet i of p XOR octet (i mod 4) of the key (5.3)
     Decode(bytes)           parse one frame from the front of `bytes`
   Algorithm models (what humphrey-ws/src/frame.rs does, step by step):
     EncAlgo(f)              `impl From<Frame> for Vec<u8>`
     the decoder             Frame::from_stream / from_stream_inner as a state machine: one action per
                             read_exact, fed by a network that delivers the bytes in arbitrary pieces
                             (Net_Deliver) and may end early (Net_Close).
   C10 is: EncAlgo = Encode, the decoder's result = Decode(everything sent) whatever the delivery schedule,
   Decode(Encode(f)) = f with the payload unmasked.  Mut switches plausible bugs into the algorithm models
   (sensitivity configs); the code as it stands needs no deviation (Dev is kept for uniformity). *)
EXTENDS Naturals, Sequences, Bitwise, TLC

CONSTANTS Dev, Mut

Opcodes == {0, 1, 2, 8, 9, 10}      \* continuation, text, binary, close, ping, pong; the rest is reserved

BE2(n) == <<n \div 256, n % 256>>
BE4(n) == <<n \div 16777216, (n \div 65536) % 256, (n \div 256) % 256, n % 256>>
BE8(n) == <<0, 0, 0, 0>> \o BE4(n)                       \* TLC integers: n < 2^31
Val2(b) == b[1] * 256 + b[2]
\* an 8-byte length that does not fit a TLC integer (>= 2^31): no test input is that long
Huge8(b) == b[1] # 0 \/ b[2] # 0 \/ b[3] # 0 \/ b[4] # 0 \/ b[5] >= 128
Val8(b) == ((b[5] * 256 + b[6]) * 256 + b[7]) * 256 + b[8]

--------------------------------------------------------------------------------
(* Encoding *)
Byte0(f) == f.fin * 128 + f.rsv[1] * 64 + f.rsv[2] * 32 + f.rsv[3] * 16 + f.op
LenBytes(mask, n) ==
  IF n <= 125 THEN <<mask * 128 + n>>
  ELSE IF n <= 65535 THEN <<mask * 128 + 126>> \o BE2(n)
  ELSE <<mask * 128 + 127>> \o BE8(n)
Header(f) == <<Byte0(f)>> \o LenBytes(f.mask, f.len) \o (IF f.mask = 1 THEN f.key ELSE <<>>)
Encode(f) == Header(f) \o f.payload

Unmask(p, key) == [i \in 1..Len(p) |-> p[i] ^^ key[((i - 1) % 4) + 1]]

--------------------------------------------------------------------------------
(* Decoding one frame from the front of a byte sequence.
   Result: [r, f, used].  r = "ok": f is the frame (payload unmasked), used = bytes consumed.
           r = "ReadError": the bytes end before the frame does.   r = "InvalidOpcode": reserved opcode.
           r = "EitherError": both apply (reserved opcode AND truncated) - the statement does not rank them. *)
NoFrame == [fin |-> 0, rsv |-> <<0, 0, 0>>, op |-> 0, mask |-> 0, key |-> <<0, 0, 0, 0>>, len |-> 0, payload |-> <<>>]
Fail(r) == [r |-> r, f |-> NoFrame, used |-> 0]

Bit(b, v) == (b \div v) % 2
\* how many bytes follow the two header bytes before the payload starts
ExtLen(b1)   == IF b1 % 128 = 126 THEN 2 ELSE IF b1 % 128 = 127 THEN 8 ELSE 0
KeyLen(b1)   == IF b1 >= 128 THEN 4 ELSE 0
Need(b0, b1) == IF (b0 % 16) \in Opcodes THEN ExtLen(b1) + KeyLen(b1) ELSE 99     \* 99 = rejected

\* parse ignoring the opcode's validity: [complete, f, used]
Parse(bytes) ==
  IF Len(bytes) < 2 THEN [complete |-> FALSE, f |-> NoFrame, used |-> 0]
  ELSE LET b0 == bytes[1]
           b1 == bytes[2]
           hl == 2 + ExtLen(b1) + KeyLen(b1)
       IN IF Len(bytes) < hl THEN [complete |-> FALSE, f |-> NoFrame, used |-> 0]
          ELSE LET ext == SubSeq(bytes, 3, 2 + ExtLen(b1))
                   huge == ExtLen(b1) = 8 /\ Huge8(ext)
                   n == IF ExtLen(b1) = 0 THEN b1 % 128 ELSE IF ExtLen(b1) = 2 THEN Val2(ext) ELSE IF huge THEN 0 ELSE Val8(ext)
                   k == IF b1 >= 128 THEN SubSeq(bytes, hl - 3, hl) ELSE <<0, 0, 0, 0>>
               IN IF huge \/ Len(bytes) - hl < n THEN [complete |-> FALSE, f |-> NoFrame, used |-> 0]
                  ELSE [complete |-> TRUE, used |-> hl + n,
                        f |-> [fin |-> Bit(b0, 128), rsv |-> <<Bit(b0, 64), Bit(b0, 32), Bit(b0, 16)>>, op |-> b0 % 16,
                               mask |-> Bit(b1, 128), key |-> k, len |-> n,
                               payload |-> Unmask(SubSeq(bytes, hl + 1, hl + n), k)]]
Decode(bytes) ==
  LET p == Parse(bytes)
      reserved == Len(bytes) >= 1 /\ (bytes[1] % 16) \notin Opcodes
  IN IF p.complete THEN (IF reserved THEN Fail("InvalidOpcode") ELSE [r |-> "ok", f |-> p.f, used |-> p.used])
     ELSE IF reserved THEN Fail("EitherError")
     ELSE Fail("ReadError")

\* Judging an observed outcome `got` against the denotation `exp`.
\* StrictMatches is what the decoder MODEL must satisfy.  Matches is what the STATEMENT of C10 demands of the real decoder
\* (false-alarm audit): "reserved opcodes are rejected" does not name the error, so any error rejects; the key field of an
\* unmasked frame carries no information; how many bytes the reader was asked for beyond the frame (`used`) is not part
\* of "returns the same frame" and is reported separately (ConsumesExactly) as specification drift, not as a violation.
NormKey(f) == [f EXCEPT !.key = IF f.mask = 1 THEN f.key ELSE <<0, 0, 0, 0>>]
IsError(r) == r \notin {"ok", "panic"}
StrictMatches(got, exp) ==
  \/ got = exp
  \/ exp.r = "EitherError" /\ got.r \in {"ReadError", "InvalidOpcode"} /\ got.f = NoFrame /\ got.used = 0
Matches(got, exp) ==
  \/ exp.r = "ok" /\ got.r = "ok" /\ NormKey(got.f) = NormKey(exp.f)
  \/ exp.r = "ReadError" /\ got.r = "ReadError"
  \/ exp.r \in {"InvalidOpcode", "EitherError"} /\ IsError(got.r)
\* Named leniency NonMinimalMayBeRefused: the statement's decoding clause is about the encoder's output, which always uses
\* the shortest length form (RFC 6455 5.2 even says the minimal number of bytes MUST be used).  A COMPLETE frame whose
\* length is written in a longer form than needed may therefore be decoded (as Decode says) or refused with an error -
\* never a panic, never another frame.  MinLenFor(b1) is the least length for which the form announced by b1 is minimal.
MinLenFor(b1) == IF b1 % 128 = 126 THEN 126 ELSE IF b1 % 128 = 127 THEN 65536 ELSE 0
NonMinimal(bytes) == LET p == Parse(bytes) IN p.complete /\ p.f.len < MinLenFor(bytes[2])
MatchesWire(got, bytes) ==
  \/ Matches(got, Decode(bytes))
  \/ NonMinimal(bytes) /\ Decode(bytes).r = "ok" /\ IsError(got.r)
RefusedNonMinimal(got, bytes) == NonMinimal(bytes) /\ Decode(bytes).r = "ok" /\ got.r # "ok"
ConsumesExactly(got, exp) == got.r = "ok" => got.used = exp.used
SameErrorKind(got, exp) == exp.r = "InvalidOpcode" => got.r = "InvalidOpcode"

\* the round trip of the statement
Unmasked(f) == [f EXCEPT !.payload = IF f.mask = 1 THEN Unmask(f.payload, f.key) ELSE f.payload,
                         !.key = IF f.mask = 1 THEN f.key ELSE <<0, 0, 0, 0>>]
RoundTrip(f) == Decode(Encode(f)) = [r |-> "ok", f |-> Unmasked(f), used |-> Len(Encode(f))]
\* header-only round trip, for lengths whose payload TLC does not build
HeaderFields(h) == [fin |-> Bit(h[1], 128), rsv |-> <<Bit(h[1], 64), Bit(h[1], 32), Bit(h[1], 16)>>, op |-> h[1] % 16,
                    mask |-> Bit(h[2], 128),
                    len |-> IF ExtLen(h[2]) = 0 THEN h[2] % 128 ELSE IF ExtLen(h[2]) = 2 THEN Val2(SubSeq(h, 3, 4)) ELSE Val8(SubSeq(h, 3, 10)),
                    key |-> IF h[2] >= 128 THEN SubSeq(h, Len(h) - 3, Len(h)) ELSE <<0, 0, 0, 0>>]
HeaderRoundTrip(f) ==
  LET h == Header(f) IN
  /\ Len(h) = 2 + ExtLen(h[2]) + KeyLen(h[2])
  /\ HeaderFields(h) = [fin |-> f.fin, rsv |-> f.rsv, op |-> f.op, mask |-> f.mask, len |-> f.len,
                        key |-> IF f.mask = 1 THEN f.key ELSE <<0, 0, 0, 0>>]
  \* shortest form (5.2: "the minimal number of bytes MUST be used")
  /\ (ExtLen(h[2]) = 2 => f.len > 125) /\ (ExtLen(h[2]) = 8 => f.len > 65535)

--------------------------------------------------------------------------------
(* frame.rs, `impl From<Frame> for Vec<u8>` *)
EncAlgo(f) ==
  LET b0 == Byte0(f)
      lim7  == IF "Len7UpTo126" \in Mut THEN 127 ELSE 126
      lim16 == IF "Len16UpTo65536" \in Mut THEN 65537 ELSE 65536
      lenb == IF f.len < lim7 THEN <<f.mask * 128 + f.len>>
              ELSE IF f.len < lim16 THEN <<f.mask * 128 + 126>> \o BE2(f.len % 65536)
              ELSE <<(IF "Mask64Dropped" \in Mut THEN 0 ELSE f.mask * 128) + 127>> \o BE8(f.len)
      keyb == IF f.mask = 1 \/ "KeyAlways" \in Mut THEN f.key ELSE <<>>
  IN <<b0>> \o lenb \o keyb \o f.payload

(* frame.rs, from_stream + from_stream_inner over a stream that delivers `wire` piecemeal. *)
VARIABLES wire,     \* all bytes the peer will ever send on this connection
          sent,     \* how many of them have reached the reader
          eof,      \* the peer has closed after sending everything
          cons,     \* how many the decoder has consumed
          phase,    \* "hdr", "len16", "len64", "key", "payload", "done"
          fr,       \* the frame being assembled
          res       \* "run", "ok", "ReadError", "InvalidOpcode"
vars == <<wire, sent, eof, cons, phase, fr, res>>

InitOn(Wires) == /\ wire \in Wires /\ sent = 0 /\ eof = FALSE /\ cons = 0
                 /\ phase = "hdr" /\ fr = NoFrame /\ res = "run"

Avail == sent - cons
Take(n) == SubSeq(wire, cons + 1, cons + n)
Wants == IF phase = "hdr" THEN 2 ELSE IF phase = "len16" THEN 2 ELSE IF phase = "len64" THEN 8
         ELSE IF phase = "key" THEN 4 ELSE IF phase = "payload" THEN fr.len ELSE 0

\* the network: any number of further bytes arrives; or the peer closes
Net_Deliver == /\ res = "run" /\ sent < Len(wire)
               /\ \E k \in 1..(Len(wire) - sent) : sent' = sent + k
               /\ UNCHANGED <<wire, eof, cons, phase, fr, res>>
Net_Close == /\ res = "run" /\ sent = Len(wire) /\ ~eof
             /\ eof' = TRUE
             /\ UNCHANGED <<wire, sent, cons, phase, fr, res>>

AfterLen(b1mask) == IF b1mask = 1 THEN "key" ELSE "payload"
Dec_Header ==
  /\ res = "run" /\ phase = "hdr" /\ Avail >= 2
  /\ LET b0 == wire[cons + 1]
         b1 == wire[cons + 2]
     IN /\ cons' = cons + 2
        /\ IF (b0 % 16) \notin Opcodes
           THEN res' = "InvalidOpcode" /\ phase' = "done" /\ fr' = NoFrame
           ELSE /\ fr' = [NoFrame EXCEPT !.fin = Bit(b0, 128), !.rsv = <<Bit(b0, 64), Bit(b0, 32), Bit(b0, 16)>>,
                                         !.op = b0 % 16, !.mask = Bit(b1, 128), !.len = b1 % 128]
                /\ phase' = IF b1 % 128 = 126 THEN "len16" ELSE IF b1 % 128 = 127 THEN "len64" ELSE AfterLen(Bit(b1, 128))
                /\ res' = res
  /\ UNCHANGED <<wire, sent, eof>>
Dec_Len16 ==
  /\ res = "run" /\ phase = "len16" /\ Avail >= 2
  /\ fr' = [fr EXCEPT !.len = Val2(Take(2))] /\ cons' = cons + 2 /\ phase' = AfterLen(fr.mask)
  /\ UNCHANGED <<wire, sent, eof, res>>
Dec_Len64 ==
  /\ res = "run" /\ phase = "len64" /\ Avail >= 8
  /\ cons' = cons + 8
  /\ IF "Len64Low32" \in Mut       \* plausible bug: the 64-bit length narrowed to its low 32 (here 31) bits
     THEN LET b == Take(8) IN
          fr' = [fr EXCEPT !.len = Val8(<<0, 0, 0, 0, b[5] % 128, b[6], b[7], b[8]>>)] /\ phase' = AfterLen(fr.mask) /\ res' = res
     ELSE IF Huge8(Take(8))        \* more than any stream holds: the payload read can only fail
     THEN fr' = NoFrame /\ phase' = "done" /\ res' = "ReadError"
     ELSE fr' = [fr EXCEPT !.len = Val8(Take(8))] /\ phase' = AfterLen(fr.mask) /\ res' = res
  /\ UNCHANGED <<wire, sent, eof>>
Dec_Key ==
  /\ res = "run" /\ phase = "key" /\ Avail >= 4
  /\ fr' = [fr EXCEPT !.key = Take(4)] /\ cons' = cons + 4 /\ phase' = "payload"
  /\ UNCHANGED <<wire, sent, eof, res>>
KeyIdx(i) == IF "UnmaskShifted" \in Mut THEN (i % 4) + 1 ELSE ((i - 1) % 4) + 1
Dec_Payload ==
  /\ res = "run" /\ phase = "payload" /\ Avail >= fr.len
  /\ fr' = [fr EXCEPT !.payload = [i \in 1..fr.len |-> wire[cons + i] ^^ fr.key[KeyIdx(i)]]]
  /\ cons' = cons + fr.len /\ phase' = "done" /\ res' = "ok"
  /\ UNCHANGED <<wire, sent, eof>>
\* read_exact hits end of stream
Dec_Eof ==
  /\ res = "run" /\ phase # "done" /\ eof /\ Avail < Wants
  /\ res' = "ReadError" /\ phase' = "done" /\ fr' = NoFrame
  /\ UNCHANGED <<wire, sent, eof, cons>>

Next == Net_Deliver \/ Net_Close \/ Dec_Header \/ Dec_Len16 \/ Dec_Len64 \/ Dec_Key \/ Dec_Payload \/ Dec_Eof

Outcome == [r |-> res, f |-> fr, used |-> IF res = "ok" THEN cons ELSE 0]
\* whatever the delivery schedule, the decoder ends with what Decode says about everything that was sent,
\* and never looks at bytes that have not arrived
DecoderCorrect == res # "run" => StrictMatches(Outcome, Decode(wire))
NoReadAhead == cons <= sent /\ sent <= Len(wire)
\* a complete frame is returned without waiting for more input or for the peer to close
Prompt == (res = "run" /\ Decode(SubSeq(wire, 1, sent)).r = "ok") => ENABLED (Dec_Header \/ Dec_Len16 \/ Dec_Len64 \/ Dec_Key \/ Dec_Payload)
Terminates == <>(res # "run")
=============================================================================
