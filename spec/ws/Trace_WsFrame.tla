---------------------------- MODULE Trace_WsFrame ----------------------------
(* Code -> spec direction for C10: `wsframe random` logs what the real encoder and decoder did on random
   frames (payloads up to 1 MiB, reduced to length, header bytes and sampled octets) and on arbitrary short
   byte strings.  Every record must be explained by WsFrame's operators.
   Record (every field always present):
     k = "frame": f = frame fields given to the encoder, hdr = the bytes it put before the payload,
                  plen = number of bytes after them, same = those bytes equal the payload given,
                  small = the payload when len <= 16, else <<>>;
                  dr / d / dplen / dused = result of decoding the encoder's output under a random read
                  segmentation, dsmall = decoded payload when len <= 16,
                  samples = <<i, wire octet i, decoded octet i>> (0-based i) for some positions
     k = "bytes": w = an arbitrary byte string, dr / d / dsmall / dused = what the decoder made of it *)
EXTENDS Naturals, Sequences, TLC, Json, IOUtils, Bitwise

W == INSTANCE WsFrame WITH Dev <- {}, Mut <- {}, wire <- <<>>, sent <- 0, eof <- FALSE, cons <- 0, phase <- "", fr <- 0, res <- ""

Rec == ndJsonDeserialize(IOEnv.TRACE)

Fr(x, pl) == [fin |-> x.fin, rsv |-> x.rsv, op |-> x.op, mask |-> x.mask, key |-> x.key, len |-> x.len, payload |-> pl]
GoodFrame(r) ==
  LET f == Fr(r.f, r.small)
      hf == [f EXCEPT !.payload = <<>>]
  IN /\ r.hdr = W!Header(hf) /\ r.hdr = W!EncAlgo(hf)               \* exact header bytes, shortest length form
     /\ r.plen = r.f.len /\ r.same                                  \* followed by the payload as given
     /\ r.dr = "ok" /\ r.dused = Len(r.hdr) + r.f.len               \* decodes, consuming exactly the frame
     /\ Fr(r.d, <<>>) = [W!Unmasked(hf) EXCEPT !.payload = <<>>]    \* same fields (key zero when unmasked)
     /\ r.dplen = r.f.len
     /\ \A i \in 1..Len(r.samples) :
          LET s == r.samples[i] IN
          s[3] = IF r.f.mask = 1 THEN s[2] ^^ r.f.key[(s[1] % 4) + 1] ELSE s[2]
     /\ r.f.len <= 16 => /\ W!Decode(r.hdr \o r.small) = [r |-> "ok", f |-> Fr(r.d, r.dsmall), used |-> r.dused]
                         /\ W!RoundTrip(f)
GoodBytes(r) ==
  LET got == [r |-> r.dr, f |-> IF r.dr = "ok" THEN Fr(r.d, r.dsmall) ELSE W!NoFrame, used |-> r.dused]
  IN W!Matches(got, W!Decode(r.w))
Good(r) == IF r.k = "frame" THEN GoodFrame(r) ELSE IF r.k = "bytes" THEN GoodBytes(r) ELSE FALSE

VARIABLES l, bad
Init == l = 1 /\ bad = <<>>
Next == /\ l <= Len(Rec)
        /\ l' = l + 1
        /\ bad' = IF Good(Rec[l]) \/ Len(bad) >= 20 THEN bad ELSE Append(bad, l)
Spec == Init /\ [][Next]_<<l, bad>>
AllAgree == (l = Len(Rec) + 1) =>
              \/ bad = <<>>
              \/ PrintT(ToJson([rejected |-> [i \in 1..Len(bad) |-> Rec[bad[i]]]])) /\ FALSE
=============================================================================
