---------------------------- MODULE Trace_WsFrame ----------------------------
(* Code -> spec direction for C10: `wsframe random` logs what the real encoder and decoder did on random
   frames (payloads up to 1 MiB, reduced to length, header bytes and sampled octets) and on arbitrary short
   byte strings.  Every record must be explained by WsFrame's operators.
   Record (every field always present):
     k = "frame": f = frame fields given to the encoder, hdr = the bytes it put before the payload,
                  plen = number of bytes after them, same = those bytes equal the payload given,
                  small = the payload when len <= 16, else <<>>;
                  dr / d / dplen / dused = result of decoding the encoder's output under a random read
                  segmentation, dsmall = decoded payload when len <= 16,
                  samples = <<i, wire octet i, decoded octet i>> (0-based i) for some positions
     k = "bytes": w = an arbitrary byte string, dr / d / dsmall / dused = what the decoder made of it *)
EXTENDS Naturals, Sequences, TLC, Json, IOUtils, Bitwise

W == INSTANCE WsFrame WITH Dev <- {}, Mut <- {}, wire <- <<>>, sent <- 0, eof <- FALSE, cons <- 0, phase <- "", fr <- 0, res <- ""

Rec == ndJsonDeserialize(IOEnv.TRACE)

Fr(x, pl) == [fin |-> x.fin, rsv |-> x.rsv, op |-> x.op, mask |-> x.mask, key |-> x.key, len |-> x.len, payload |-> pl]
\* `small`, and the second entry of a sample, are octets of the encoder's OUTPUT (the wire), so unmasking is judged
\* relative to what travelled; `same` says whether the output's payload part equals the payload handed to the encoder.
GoodFrame(r) ==
  LET f == Fr(r.f, r.small)
      hf == [f EXCEPT !.payload = <<>>]
  IN /\ r.hdr = W!Header(hf) /\ r.hdr = W!EncAlgo(hf)               \* exact header bytes, shortest length form
     /\ r.plen = r.f.len /\ (r.f.mask = 0 => r.same)                 \* followed by a payload of that length (as given, when unmasked)
     /\ r.dr = "ok"                                                  \* decodes
     /\ W!NormKey(Fr(r.d, <<>>)) = [W!Unmasked(hf) EXCEPT !.payload = <<>>]    \* same fields
     /\ r.dplen = r.f.len
     /\ \A i \in 1..Len(r.samples) :
          LET s == r.samples[i] IN
          s[3] = IF r.f.mask = 1 THEN s[2] ^^ r.f.key[(s[1] % 4) + 1] ELSE s[2]
     /\ r.f.len <= 16 => /\ W!Matches([r |-> "ok", f |-> Fr(r.d, r.dsmall), used |-> r.dused], W!Decode(r.hdr \o r.small))
                         /\ W!RoundTrip(f)
\* beyond the statement (reported as drift): the reader is left exactly after the frame; a masked frame's payload is laid out as given
StrictFrame(r) == r.dused = Len(r.hdr) + r.f.len /\ r.same
Got(r) == [r |-> r.dr, f |-> IF r.dr = "ok" THEN Fr(r.d, r.dsmall) ELSE W!NoFrame, used |-> r.dused]
GoodBytes(r) == W!MatchesWire(Got(r), r.w)
StrictBytes(r) == /\ W!ConsumesExactly(Got(r), W!Decode(r.w)) /\ W!SameErrorKind(Got(r), W!Decode(r.w))
                  /\ ~W!RefusedNonMinimal(Got(r), r.w)
Good(r) == IF r.k = "frame" THEN GoodFrame(r) ELSE IF r.k = "bytes" THEN GoodBytes(r) ELSE FALSE
Strict(r) == IF r.k = "frame" THEN StrictFrame(r) ELSE StrictBytes(r)

VARIABLES l, bad, odd
Init == l = 1 /\ bad = <<>> /\ odd = <<>>
Next == /\ l <= Len(Rec)
        /\ l' = l + 1
        /\ bad' = IF Good(Rec[l]) \/ Len(bad) >= 20 THEN bad ELSE Append(bad, l)
        /\ odd' = IF ~Good(Rec[l]) \/ Strict(Rec[l]) \/ Len(odd) >= 20 THEN odd ELSE Append(odd, l)
Spec == Init /\ [][Next]_<<l, bad, odd>>
AllAgree == (l = Len(Rec) + 1) =>
              /\ (odd # <<>> => PrintT(ToJson([drift |-> [i \in 1..Len(odd) |-> Rec[odd[i]]]])))
              /\ \/ bad = <<>>
                 \/ PrintT(ToJson([rejected |-> [i \in 1..Len(bad) |-> Rec[bad[i]]]])) /\ FALSE
=============================================================================
