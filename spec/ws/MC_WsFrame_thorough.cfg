CONSTANTS
  Dev = {}
  Mut = {}
  RsvSet <- Rsv3
  OpSet = {0, 1, 2, 8, 9, 10, 3, 7, 11, 15}
  PayBytes = {0, 165}
  MaxPay = 3
  Boundary = {125, 126, 127}
SPECIFICATION Spec
INVARIANTS DecoderCorrect NoReadAhead Prompt
PROPERTY Terminates
CHECK_DEADLOCK FALSE
