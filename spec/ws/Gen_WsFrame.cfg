CONSTANTS
  Dev = {}
  Mut = {}
  RsvSet <- Rsv2
  OpSet = {0, 1, 2, 8, 9, 10, 3, 11, 15}
  PayBytes = {165}
  MaxPay = 2
  Boundary = {126}
INIT GenAllInit
NEXT FrNext
INVARIANTS GenAllInv
CHECK_DEADLOCK FALSE
