CONSTANTS
  Dev = {}
  Mut = {}
  RsvSet <- Rsv4
  OpSet = {0, 1, 2, 8, 9, 10, 3, 7, 11, 15}
  PayBytes = {0, 165, 255}
  MaxPay = 4
  Boundary = {124, 125, 126, 127, 128, 300}
INIT FrInit
NEXT FrNext
INVARIANTS EncLemma RoundTripLemma ReservedLemma
CHECK_DEADLOCK FALSE
