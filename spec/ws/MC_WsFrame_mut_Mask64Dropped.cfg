CONSTANTS
  Dev = {}
  Mut = {"Mask64Dropped"}
  RsvSet <- Rsv2
  OpSet = {1}
  PayBytes = {165}
  MaxPay = 1
  Boundary = {}
INIT AbsInit
NEXT FrNext
INVARIANTS AbsLemma
CHECK_DEADLOCK FALSE
