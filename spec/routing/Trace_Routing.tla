--------------------------- MODULE Trace_Routing ---------------------------
(* Code -> spec direction for C04. The harness builds random REAL apps at the property's full width
   (0..4 host sub-apps x 0..6 routes of each kind, default app likewise) through the public registration API
   in a random interleaving, runs them on loopback and logs
       {"t":"app", "ops":[..registration calls in the order they were made..], ...}
       {"t":"req", "kind", "hostp", "host", "target", "got":{hit,sub,idx}}         (one per request sent)
   This module replays the log with Routing's own operators and actions:
     TrRegister  folds the registration calls with NewApp / WithRoute / WithWsRoute / WithHost / SubWith* /
                 WithDefaultSubapp / WithWebsocketHandler;
     TrRequest   hands the logged request to the dispatcher;
     HostAbsent / HostStep / RouteStep / DefaultStep (Routing!Next) run get_handler / call_websocket_handler;
     TrCompare   compares the handler the real app used with the dispatcher's result AND with the property's
                 definition Expected (Route / WsRoute).
   Records that disagree are collected in `bad` (with the handler the property names); AllAgree fails at the end
   and prints them. The driver reports a rejected record as a violation when app and request lie inside the
   property's quantifier, and as drift of the specification when they lie outside it (see checks/c04.py). *)
EXTENDS Routing, Json, IOUtils

Rec == ndJsonDeserialize(IOEnv.TRACE)
TrFold(c) == c      \* no deviation is active in trace validation

VARIABLES l, bad, stats     \* stats: how many requests of each class the log contained (measured by TLC)
tvars == <<l, bad, stats>>

RECURSIVE FoldSub(_, _)
FoldSub(s, ops) ==
  IF ops = <<>> THEN s
  ELSE FoldSub(IF Head(ops).op = "route" THEN SubWithRoute(s, Head(ops).p) ELSE SubWithWsRoute(s, Head(ops).p), Tail(ops))
RECURSIVE FoldApp(_, _)
FoldApp(a, ops) ==
  IF ops = <<>> THEN a
  ELSE LET o == Head(ops) IN
       FoldApp(IF o.op = "route" THEN WithRoute(a, o.p)
               ELSE IF o.op = "ws" THEN WithWsRoute(a, o.p)
               ELSE IF o.op = "defsub" THEN WithDefaultSubapp(a, FoldSub(NewSubApp, o.sub))
               ELSE IF o.op = "wsall" THEN WithWebsocketHandler(a)
               ELSE WithHost(a, o.h, FoldSub(NewSubApp, o.sub)), Tail(ops))

\* class of a request as in MC_Routing!ExpVec: <<class 0..4, shadowed (a later route of the list matches too),
\* a later host sub-app matches the Host value too>>
Class(a, r) ==
  LET e == Expected(a, r)
      sel == HostSel(a, r.hostp, r.host)
      cls == IF e.hit THEN (IF e.sub # 0 THEN 4 ELSE IF sel # 0 THEN 3 ELSE 2) ELSE (IF sel # 0 THEN 1 ELSE 0)
      rs == Routes(SubOf(a, e.sub), r.kind)
      sh == IF e.hit /\ \E j \in (e.idx + 1)..Len(rs) : Match(rs[j], PathOf(r.target)) THEN 1 ELSE 0
      sk == IF sel # 0 /\ \E i \in (sel + 1)..Len(a.hosts) : Match(a.hosts[i].host, r.host) THEN 1 ELSE 0
  IN <<cls, sh, sk>>

NoReq == [kind |-> "http", hostp |-> FALSE, host |-> <<>>, target |-> <<>>, other |-> 0]

TrInit == /\ app = NewApp /\ req = NoReq /\ pc = "idle" /\ hi = 0 /\ ri = 0 /\ res = Miss
          /\ l = 1 /\ bad = <<>> /\ stats = [i \in 1..7 |-> 0]
          /\ TLCSet(1, <<[line |-> 0, exp |-> Miss]>>) /\ TLCSet(2, <<>>)    \* "log not consumed" until TrFinish overwrites it

TrRegister == /\ pc = "idle" /\ l <= Len(Rec) /\ Rec[l].t = "app"
              /\ app' = FoldApp(NewApp, Rec[l].ops)
              /\ l' = l + 1
              /\ UNCHANGED <<req, pc, hi, ri, res, bad, stats>>

TrRequest == /\ pc = "idle" /\ l <= Len(Rec) /\ Rec[l].t = "req"
             /\ req' = [kind |-> Rec[l].kind, hostp |-> Rec[l].hostp, host |-> Rec[l].host,
                        target |-> Rec[l].target, other |-> 0]
             /\ pc' = "host" /\ hi' = Start(Len(app.hosts), LastH) /\ ri' = 0 /\ res' = Miss
             /\ UNCHANGED <<app, l, bad, stats>>

TrDispatch == Next /\ UNCHANGED tvars

TrCompare == /\ pc = "done"
             /\ bad' = IF (Rec[l].got = res /\ res = Expected(app, req)) \/ Len(bad) >= 300 THEN bad
                        ELSE Append(bad, [line |-> l, exp |-> Expected(app, req)])
             /\ stats' = LET c == Class(app, req) IN
                          [i \in 1..7 |-> stats[i] + (IF i = c[1] + 1 \/ (i = 6 /\ c[2] = 1) \/ (i = 7 /\ c[3] = 1) THEN 1 ELSE 0)]
             /\ l' = l + 1 /\ pc' = "idle"
             /\ UNCHANGED <<app, req, hi, ri, res>>

\* end of the log: hand the collected disagreements to the POSTCONDITION (no 10^5-state counterexample is printed)
TrFinish == /\ pc = "idle" /\ l = Len(Rec) + 1
            /\ TLCSet(1, bad) /\ TLCSet(2, stats)
            /\ l' = l + 1
            /\ UNCHANGED <<vars, bad, stats>>

TrNext == TrRegister \/ TrRequest \/ TrDispatch \/ TrCompare \/ TrFinish
TrSpec == TrInit /\ [][TrNext]_<<vars, tvars>>

\* POSTCONDITION: the whole log was consumed and no record disagreed
AllAgree == LET b == TLCGet(1) IN
              \/ b = <<>> /\ PrintT(ToJson([classes |-> TLCGet(2)]))
              \/ PrintT(ToJson([rejected |-> [i \in 1..Len(b) |->
                        [line |-> b[i].line, exp |-> b[i].exp, rec |-> IF b[i].line = 0 THEN Rec[1] ELSE Rec[b[i].line]]]])) /\ FALSE
Consumed == l <= Len(Rec) + 2

=============================================================================
