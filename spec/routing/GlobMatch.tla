----------------------------- MODULE GlobMatch -----------------------------
(* Constant-level copy of the pattern semantics of spec/glob (property C05), for modules that use
   patterns without the matcher's state machine (TLC resolves modules relative to the spec directory).
   The definition of Match below is, character for character, the one in spec/glob/Glob.tla; checks/c04.py
   refuses to run when the two texts differ.

   Match      - the denotation: t is obtained from p by replacing each STAR by a (possibly empty) sequence.
   KraussOld  - the algorithm of humphrey/src/krauss.rs as it was BEFORE the repair 6b88842 (deviation
                NoSavedTextPos of spec/glob/Glob.tla, transcribed as a recursion over (wi, ti, aw)):
                used only to show what routing did with the unrepaired matcher. *)
EXTENDS Naturals, Sequences

CONSTANT STAR        \* the wildcard symbol

RECURSIVE Match(_, _)
Match(p, t) ==
  IF p = <<>> THEN t = <<>>
  ELSE IF Head(p) = STAR
       THEN Match(Tail(p), t) \/ (t # <<>> /\ Match(p, Tail(t)))
       ELSE t # <<>> /\ Head(t) = Head(p) /\ Match(Tail(p), Tail(t))

RECURSIVE KraussOldRun(_, _, _, _, _)
KraussOldRun(p, t, wi, ti, aw) ==
  IF ti > Len(t)
  THEN IF wi > Len(p) THEN TRUE
       ELSE IF p[wi] = STAR THEN KraussOldRun(p, t, wi + 1, ti, aw) ELSE FALSE
  ELSE IF wi <= Len(p) /\ p[wi] = STAR THEN KraussOldRun(p, t, wi + 1, ti, wi + 1)
  ELSE IF wi <= Len(p) /\ p[wi] = t[ti] THEN KraussOldRun(p, t, wi + 1, ti + 1, aw)
  ELSE IF aw = 0 THEN FALSE
  ELSE IF aw > Len(p) THEN TRUE
  ELSE KraussOldRun(p, t, IF p[aw] = t[ti] THEN aw + 1 ELSE aw, ti + 1, aw)
KraussOld(p, t) == KraussOldRun(p, t, 1, 1, 0)
=============================================================================
