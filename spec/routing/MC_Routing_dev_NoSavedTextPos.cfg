CONSTANTS
  STAR = "*"
  QM = "?"
  COLON = ":"
  Fold <- MCFold
  Dev = {"NoSavedTextPos"}
  Apps <- MCApps
  Reqs <- MCReqs
  RoutePats <- RPK
  HostPats <- HP2
  MaxHosts = 1
  MaxRoutes = 1
  MaxDef = 1
  NHostVals = 2
  NPaths = 11
  NQueries = 1
  Others = {0}
  GenLists <- GenListsQuick
  GenHostSeqs <- GenHostSeqsQuick
INIT Init
NEXT Next
INVARIANTS DevPrint AlgoCorrect
CHECK_DEADLOCK FALSE
