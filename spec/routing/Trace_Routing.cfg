CONSTANTS
  STAR = "*"
  QM = "?"
  COLON = ":"
  Fold <- TrFold
  Dev = {}
  Apps = {}
  Reqs = {}
INIT TrInit
NEXT TrNext
INVARIANTS Consumed AlgoCorrect
POSTCONDITION AllAgree
CHECK_DEADLOCK FALSE
