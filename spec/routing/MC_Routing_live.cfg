CONSTANTS
  STAR = "*"
  QM = "?"
  COLON = ":"
  Dev = {}
  Apps <- MCApps
  Reqs <- MCReqs
  RoutePats <- RP2
  HostPats <- HP2
  MaxHosts = 1
  MaxRoutes = 2
  MaxDef = 1
  NHostVals = 4
  NPaths = 4
  NQueries = 3
  Others = {0, 1}
  GenLists <- GenListsQuick
  GenHostSeqs <- GenHostSeqsQuick
SPECIFICATION Spec
INVARIANTS AlgoCorrect Bounded Independence
PROPERTY Terminates
CHECK_DEADLOCK FALSE
