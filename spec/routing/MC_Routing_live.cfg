CONSTANTS
  STAR = "*"
  QM = "?"
  COLON = ":"
  Fold <- MCFold
  Dev = {}
  Apps <- MCApps
  Reqs <- MCReqs
  RoutePats <- RPE
  HostPats <- HPS
  MaxHosts = 1
  MaxRoutes = 2
  MaxDef = 1
  NHostVals = 7
  NPaths = 7
  NQueries = 2
  Others = {0}
  GenLists <- GenListsQuick
  GenHostSeqs <- GenHostSeqsQuick
SPECIFICATION Spec
INVARIANTS AlgoCorrect Bounded Independence
PROPERTY Terminates
CHECK_DEADLOCK FALSE
