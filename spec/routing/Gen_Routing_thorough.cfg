CONSTANTS
  STAR = "*"
  QM = "?"
  COLON = ":"
  Fold <- MCFold
  Dev = {}
  Apps <- MCApps
  Reqs <- MCReqs
  RoutePats <- RP2
  HostPats <- HP2
  MaxHosts = 0
  MaxRoutes = 0
  MaxDef = 0
  NHostVals = 7
  NPaths = 10
  NQueries = 4
  Others = {0}
  GenLists <- GenListsThorough
  GenHostSeqs <- GenHostSeqsThorough
INIT GenInit
NEXT GenNext
INVARIANT GenInv
CHECK_DEADLOCK FALSE
