CONSTANTS
  STAR = "*"
  QM = "?"
  COLON = ":"
  Fold <- MCFold
  Dev = {}
  Apps <- MCApps
  Reqs <- MCReqs
  RoutePats <- RP2
  HostPats <- HP2
  MaxHosts = 2
  MaxRoutes = 1
  MaxDef = 1
  NHostVals = 3
  NPaths = 3
  NQueries = 1
  Others = {0}
  GenLists <- GenListsQuick
  GenHostSeqs <- GenHostSeqsQuick
INIT Init
NEXT Next
INVARIANTS NoSecondHostSkipped
CHECK_DEADLOCK FALSE
