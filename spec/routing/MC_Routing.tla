----------------------------- MODULE MC_Routing -----------------------------
(* TLC-only definitions for Routing: the pattern / host / path catalogues, the bounded app and request
   spaces of the exhaustive configurations, and the vector generator (Gen_Routing_*.cfg). *)
EXTENDS Routing, Json

(***************************************************************************)
(* Catalogue. Every entry is a sequence of one-character symbols.          *)
(***************************************************************************)
S == "/"
\* route patterns: literal, prefix, suffix, infix, adjacent and multiple stars, overlapping / shadowing pairs
R_a    == <<S, "a">>                        \* /a       literal
R_ab   == <<S, "a", S, "b">>                \* /a/b     literal, shadowed by R_aS and R_abS when they come first
R_aS   == <<S, "a", S, STAR>>               \* /a/*     prefix
R_S    == <<S, STAR>>                       \* /*       prefix of everything with a leading slash
R_Sb   == <<STAR, S, "b">>                  \* */b      suffix
R_aSb  == <<S, "a", STAR, "b">>             \* /a*b     infix
R_aSS  == <<S, "a", S, STAR, STAR>>         \* /a/**    adjacent stars
R_SsS  == <<S, STAR, S, STAR>>              \* /*/*     multiple stars
R_all  == <<STAR>>                          \* *        catch-all
R_abS  == <<S, "a", S, "b", STAR>>          \* /a/b*    overlaps R_ab and R_aS
R_SabS == <<STAR, "a", "b", STAR>>          \* *ab*     infix literal between stars
R_empty == <<>>                            \* the empty pattern: matches the empty path only
RouteCat == {R_a, R_ab, R_aS, R_S, R_Sb, R_aSb, R_aSS, R_SsS, R_all, R_abS}

\* host patterns
H_ax   == <<"a", ".", "x">>                 \* a.x      exact
H_Sx   == <<STAR, ".", "x">>                \* *.x      wildcard
H_aS   == <<"a", ".", STAR>>                \* a.*      wildcard (also matches a.x:8)
H_ax8  == <<"a", ".", "x", COLON, "8">>     \* a.x:8    exact with port
H_S8   == <<STAR, COLON, "8">>              \* *:8      any host on port 8
H_empty == <<>>                            \* matches the empty Host value only
H_SS   == <<STAR, STAR>>                   \* **       every Host value, the empty one too (`*` itself is refused by with_host)
H_AX   == <<"A", ".", "X">>                \* A.X      upper case: not the pattern a.x
HostCat == {H_ax, H_Sx, H_aS, H_ax8, H_S8, H_empty, H_SS, H_AX}

\* case folding used by the *CaseFolded deviations
MCFold(c) == IF c = "A" THEN "a" ELSE IF c = "X" THEN "x" ELSE IF c = "B" THEN "b" ELSE c

\* Host header values: absent, exact, wildcard-matching, with port, non-matching
NoHost == [hostp |-> FALSE, host |-> <<>>]
HV(h)  == [hostp |-> TRUE, host |-> h]
V_ax   == <<"a", ".", "x">>
V_bx   == <<"b", ".", "x">>
V_ax8  == <<"a", ".", "x", COLON, "8">>
V_cy   == <<"c", ".", "y">>
V_AX   == <<"A", ".", "X">>                 \* the exact host in upper case: a different value
V_none == <<>>                              \* `Host:` with an empty value: present, empty
HostVals == <<NoHost, HV(V_ax), HV(V_bx), HV(V_ax8), HV(V_cy), HV(V_AX), HV(V_none)>>

\* paths: matching several, one or no catalogue routes
\* 6th: /a/b in another case; 7th: the EMPTY path (request target `` or `?query`)
Paths == << <<S>>, <<S, "a">>, <<S, "a", S, "b">>, <<S, "a", S, "c">>, <<S, "b">>,
            <<S, "A", S, "b">>, <<>>, <<S, "a", "b">>,
            <<S, "a", S, "b", S, "c">>, <<S, "c", S, "b">>,
            <<S, "a", "a", "a", "b">> >>      \* 11th: only for the inherited matcher deviation (NPaths = 11)
\* queries: none; one whose text would change the match if it were part of the path (`/a?x/b` ends in /b);
\* the empty query `/a?`
\* 4th: a return URL inside the query (`?u=x://h/a/b`): a parser that looks for `://` anywhere would route /a/b
Queries == << <<>>, <<QM, "x", S, "b">>, <<QM>>, <<QM, "u", "=", "x", COLON, S, S, "h", S, "a", S, "b">> >>

SeqsUpTo(X, n) == UNION {[1..k -> X] : k \in 0..n}
Range(f) == {f[i] : i \in DOMAIN f}
RECURSIVE Rev(_)
Rev(s) == IF s = <<>> THEN <<>> ELSE Append(Rev(Tail(s)), Head(s))

(***************************************************************************)
(* Building apps through the registration operators. A sub-app is given by *)
(* its HTTP route list l; its WebSocket routes are the same patterns        *)
(* registered in the opposite order (so that, wherever order matters, the   *)
(* two kinds of request are answered by different positions).               *)
(***************************************************************************)
RECURSIVE AddRoutes(_, _), AddWs(_, _)
AddRoutes(sub, l) == IF l = <<>> THEN sub ELSE AddRoutes(SubWithRoute(sub, Head(l)), Tail(l))
AddWs(sub, l) == IF l = <<>> THEN sub ELSE AddWs(SubWithWsRoute(sub, Head(l)), Tail(l))
MkSub(l) == AddWs(AddRoutes(NewSubApp, l), Rev(l))
RECURSIVE AddHosts(_, _)
\* hs: sequence of <<host pattern, route list>>
AddHosts(a, hs) == IF hs = <<>> THEN a ELSE AddHosts(WithHost(a, Head(hs)[1], MkSub(Head(hs)[2])), Tail(hs))
RECURSIVE AddDef(_, _), AddDefWs(_, _)
AddDef(a, l) == IF l = <<>> THEN a ELSE AddDef(WithRoute(a, Head(l)), Tail(l))
AddDefWs(a, l) == IF l = <<>> THEN a ELSE AddDefWs(WithWsRoute(a, Head(l)), Tail(l))
MkApp(hs, d) == AddDefWs(AddDef(AddHosts(NewApp, hs), d), Rev(d))

(***************************************************************************)
(* Exhaustive configurations: constants chosen in the .cfg files.          *)
(***************************************************************************)
CONSTANTS RoutePats, HostPats, MaxHosts, MaxRoutes, MaxDef, NHostVals, NPaths, NQueries, Others

MCLists(n) == SeqsUpTo(RoutePats, n)
MCApps == {MkApp(hs, d) : hs \in SeqsUpTo(HostPats \X MCLists(MaxRoutes), MaxHosts), d \in MCLists(MaxDef)}
MCReqs == {[kind |-> k, hostp |-> HostVals[h].hostp, host |-> HostVals[h].host,
            target |-> Paths[p] \o Queries[q], other |-> o] :
              k \in Kinds, h \in 1..NHostVals, p \in 1..NPaths, q \in 1..NQueries, o \in Others}

\* catalogue subsets named for the .cfg files
RP2 == {R_aS, R_Sb}
RP3 == {R_a, R_aS, R_Sb}
RP4 == {R_ab, R_aS, R_Sb, R_all}
RP5 == {R_a, R_ab, R_aS, R_Sb, R_aSb}
RPK == {<<S, STAR, "a", "a", "b">>, R_Sb}      \* /*aab: for the inherited matcher deviation
HP2 == {H_ax, H_Sx}
HP3 == {H_ax, H_Sx, H_aS}
RPE == {R_aS, R_empty}                \* live configuration: the empty pattern and the empty path
HPS == {H_Sx, H_SS}                   \* live configuration: `**` also matches the empty Host value
HPC == {H_ax, H_AX}                  \* for HostCaseFolded
HPE == {H_SS, H_Sx}                   \* for EmptyHostIsAbsent

(***************************************************************************)
(* Witnesses: the explored space contains the interesting cases. TLC must  *)
(* VIOLATE each of these (MC_Routing_wit_*.cfg).                            *)
(***************************************************************************)
Sel == HostSel(app, req.hostp, req.host)
LaterAlsoMatches == res.hit /\ \E j \in (res.idx + 1)..Len(Routes(SubOf(app, res.sub), req.kind)) :
                                   Match(Routes(SubOf(app, res.sub), req.kind)[j], PathOf(req.target))
NoFallThroughHit == ~(Done /\ Sel # 0 /\ res.hit /\ res.sub = 0)     \* host matched, no route there, default answers
NoShadowing      == ~(Done /\ LaterAlsoMatches)                       \* registration order decided
NoSecondHostSkipped == ~(Done /\ Sel # 0 /\ ~res.hit /\
                          \E i \in (Sel + 1)..Len(app.hosts) : Match(app.hosts[i].host, req.host) /\
                             \E j \in 1..Len(Routes(app.hosts[i], req.kind)) :
                                Match(Routes(app.hosts[i], req.kind)[j], PathOf(req.target)))
NoQueryMatters   == ~(Done /\ res # Route(app, req.kind, req.hostp, req.host, req.target))

(***************************************************************************)
(* Sensitivity configurations list DevPrint before AlgoCorrect: the state  *)
(* that refutes a deviation is printed, and the harness then shows on the   *)
(* REAL app that it answers as Expected and not as the deviating model.     *)
(***************************************************************************)
DevPrint == (Done /\ res # Expected(app, req)) =>
              PrintT(ToJson([dev_case |-> [app |-> app, req |-> req, model |-> <<res.sub, res.idx>>,
                                           exp |-> <<Expected(app, req).sub, Expected(app, req).idx>>]]))

(***************************************************************************)
(* Vector generation. One JSON line for the request catalogue, then one per *)
(* app: the app as registered and, per request index, <<sub, idx, class,    *)
(* shadow, qm, skip>>: sub/idx = expected handler (0,0 = miss);                       *)
(* class 0 miss without host match, 1 miss although a host sub-app matched, *)
(*       2 default hit without host match, 3 default hit after fall-through,*)
(*       4 hit inside the host sub-app;                                     *)
(* shadow 1 when a later route of the same list matches too;               *)
(* qm 1 when matching the target WITH its query would choose differently;  *)
(* skip 1 when a later host sub-app also matches the Host value.           *)
(***************************************************************************)
CONSTANTS GenLists, GenHostSeqs   \* route lists and host-pattern sequences of the generated family
GenReqs == [i \in 1..(2 * NHostVals * NPaths * NQueries) |->
              LET n == i - 1
                  k == n % 2
                  h == (n \div 2) % NHostVals
                  p == (n \div (2 * NHostVals)) % NPaths
                  q == n \div (2 * NHostVals * NPaths)
              IN [kind |-> IF k = 0 THEN "http" ELSE "ws", hostp |-> HostVals[h + 1].hostp,
                  host |-> HostVals[h + 1].host, target |-> Paths[p + 1] \o Queries[q + 1], other |-> 0]]

ExpVec(a, r) ==
  LET e == Expected(a, r)
      sel == HostSel(a, r.hostp, r.host)
      cls == IF e.hit THEN (IF e.sub # 0 THEN 4 ELSE IF sel # 0 THEN 3 ELSE 2) ELSE (IF sel # 0 THEN 1 ELSE 0)
      rs == Routes(SubOf(a, e.sub), r.kind)
      sh == IF e.hit /\ \E j \in (e.idx + 1)..Len(rs) : Match(rs[j], PathOf(r.target)) THEN 1 ELSE 0
      qm == IF Route(a, r.kind, r.hostp, r.host, r.target) # e THEN 1 ELSE 0
      sk == IF sel # 0 /\ \E i \in (sel + 1)..Len(a.hosts) : Match(a.hosts[i].host, r.host) THEN 1 ELSE 0
  IN <<e.sub, e.idx, cls, sh, qm, sk>>

\* all assignments of a list from GenLists to each host of a host sequence
GenHostCfgs == UNION {{[i \in 1..Len(hseq) |-> <<hseq[i], ls[i]>>] : ls \in [1..Len(hseq) -> GenLists]} : hseq \in GenHostSeqs}
GenApps == {MkApp(hs, d) : hs \in GenHostCfgs, d \in GenLists}

GenInit == /\ PrintT(ToJson([reqs |-> GenReqs]))
           /\ app \in GenApps /\ req = GenReqs[1] /\ pc = "gen0" /\ hi = 0 /\ ri = 0 /\ res = Miss
\* one step, so that the vectors are computed by the worker threads rather than while enumerating Init
GenNext == pc = "gen0" /\ pc' = "gen" /\ UNCHANGED <<app, req, hi, ri, res>>
GenInv == pc = "gen" => PrintT(ToJson([app |-> app, exp |-> [i \in DOMAIN GenReqs |-> ExpVec(app, GenReqs[i])]]))

\* the curated route lists (<= 3 routes) and host sequences (<= 2 hosts) of the generated family
L0 == <<>>
L1 == <<R_a>>
L2 == <<R_aS, R_ab>>            \* prefix registered before the literal it covers
L3 == <<R_ab, R_aS>>            \* ... and after it
L4 == <<R_Sb, R_aSb, R_SsS>>    \* suffix, infix, multiple
L5 == <<R_aSS, R_all>>          \* adjacent stars, then catch-all
L6 == <<R_abS, R_S>>            \* overlapping prefix, then /*
L7 == <<R_all, R_a, R_ab>>      \* catch-all first: shadows everything behind it
L8 == <<R_a, R_a, R_S>>         \* the same pattern twice
L9 == <<R_empty, R_abS, R_S>>   \* the empty pattern first: skipped by every path but the empty one
GenListsQuick == {L0, L2, L4, L9}
GenListsThorough == {L0, L2, L3, L4, L5, L7, L9}
GenListsWide == {L0, L1, L2, L3, L4, L5, L6, L7, L8, L9}
\* <<H_Sx, H_Sx>>: with_host twice with the same pattern; <<H_empty, H_SS>>: the empty Host value;
\* <<H_AX, H_ax>>: a pattern in upper case before its lower-case twin
GenHostSeqsQuick == {<<>>, <<H_ax>>, <<H_Sx, H_Sx>>, <<H_ax, H_Sx>>, <<H_aS, H_S8>>, <<H_empty, H_SS>>}
GenHostSeqsThorough == {<<>>, <<H_ax>>, <<H_Sx>>, <<H_S8>>, <<H_ax, H_Sx>>, <<H_Sx, H_ax>>, <<H_aS, H_S8>>,
                        <<H_ax8, H_aS>>, <<H_Sx, H_Sx>>, <<H_empty, H_SS>>, <<H_AX, H_ax>>}
=============================================================================
