CONSTANTS
  STAR = "*"
  QM = "?"
  COLON = ":"
  Fold <- MCFold
  Dev = {"AbsoluteFormInQuery"}
  Apps <- MCApps
  Reqs <- MCReqs
  RoutePats <- RP2
  HostPats <- HP2
  MaxHosts = 1
  MaxRoutes = 1
  MaxDef = 1
  NHostVals = 3
  NPaths = 3
  NQueries = 4
  Others = {0}
  GenLists <- GenListsQuick
  GenHostSeqs <- GenHostSeqsQuick
INIT Init
NEXT Next
INVARIANTS DevPrint AlgoCorrect
CHECK_DEADLOCK FALSE
