------------------------------ MODULE Routing ------------------------------
(* Property C04 - which handler answers a request.

   Abstract state of the code (humphrey/src/app.rs, route.rs; the tokio twin tokio/app.rs has the same text):
     an App owns   subapps        : Vec<SubApp>   in registration order (App::with_host pushes)
                   default_subapp : SubApp        host "*"
     a SubApp owns host : String, routes : Vec<RouteHandler>, websocket_routes : Vec<WebsocketRouteHandler>,
                   both in registration order (SubApp::with_route / with_websocket_route push).
   Patterns, Host values and request targets are sequences of one-character symbols so that Match (module
   GlobMatch = spec/glob) applies; STAR is `*`, QM is `?`.
   What the property says about spelling: patterns match LITERALLY. A symbol matches only itself, so `A.X` is
   not matched by the pattern `a.x` and `/A/b` not by `/a/*` (no case folding of Host values or paths), a port
   is part of the Host value, an EMPTY Host value (`Host:` with nothing behind it) is a value like any other
   (matched by `**` and by the empty pattern, not by `*.x`) and is not the same as an absent header, and the
   empty pattern matches exactly the empty text. The NAME of the header is not part of the value: `host:`,
   `HOST:` and `hOsT:` carry the same Host value (the harness spells it in every case).

   Two descriptions of dispatch:
   1. Route / WsRoute - the property's sentence as a definition (first matching host sub-app, first matching
      route in it, else first matching default route, else NotFound / Closed). It receives ONLY the
      registration-ordered app, the Host value and the path without query.
   2. The state machine HostAbsent / HostStep / RouteStep / DefaultStep - get_handler and
      call_websocket_handler as written: one action per iterator step of the three `find` loops, reading a
      whole request (kind, Host header, complete target, other parts).
   AlgoCorrect says that 2. ends with the value of 1.; because Route is a function of (app, Host, path
   without query) only, this is also the statement that nothing else of the request influences the choice.

   Dev names deviations (none is present in the code today; each one is a plausible mistake that the
   invariants must notice - sensitivity configurations MC_Routing_dev_*.cfg):
     LastRoute               routes are searched from the end (`rfind`): the LAST matching route wins
     LastHost                the LAST matching host sub-app wins
     NextHostOnMiss          a matching host sub-app without matching route passes on to the NEXT matching
                             host sub-app instead of the default app
     NoDefaultAfterHostMatch a matching host sub-app without matching route answers 404 / closes
     MatchWithQuery          patterns are matched against the target including `?query`
     HostEquality            host patterns are compared for equality (no wildcard)
     HostIgnoresPort         the Host value is cut at `:` before matching (DESIGN 5a: it is matched literally)
     WsUsesHttpRoutes        WebSocket upgrades are dispatched over the HTTP routes
     HostCaseFolded          Host value and host pattern are compared after case folding
     PathCaseFolded          path and route pattern are compared after case folding
     EmptyHostIsAbsent       an empty Host value is treated like a missing Host header
     AbsoluteFormInQuery     a target that contains `://` ANYWHERE (also inside the query: a return URL, an Origin) is
                             taken for an absolute-form target: scheme and authority are dropped and the rest is routed
     NoSavedTextPos          the matcher before its repair (spec/glob deviation, inherited) *)
EXTENDS GlobMatch, FiniteSets, TLC

CONSTANTS QM,          \* the symbol `?`
          COLON,       \* the symbol `:`
          Fold(_),     \* case folding of one symbol (only the *CaseFolded deviations use it)
          Dev,
          Apps,        \* set of apps explored (MC: built by MC_Routing with the registration operators below)
          Reqs         \* set of requests explored

Kinds == {"http", "ws"}

(***************************************************************************)
(* Registration API (App::new, with_route, with_websocket_route, with_host; *)
(* SubApp::new, with_route, with_websocket_route): every call appends.      *)
(***************************************************************************)
NewSubApp == [host |-> <<STAR>>, http |-> <<>>, ws |-> <<>>]
SubWithRoute(s, p) == [s EXCEPT !.http = Append(@, p)]
SubWithWsRoute(s, p) == [s EXCEPT !.ws = Append(@, p)]
NewApp == [hosts |-> <<>>, def |-> NewSubApp]
WithRoute(a, p) == [a EXCEPT !.def = SubWithRoute(@, p)]
WithWsRoute(a, p) == [a EXCEPT !.def = SubWithWsRoute(@, p)]
\* with_host panics for h = "*"; it overwrites the sub-app's host field
WithHost(a, h, s) == [a EXCEPT !.hosts = Append(@, [s EXCEPT !.host = h])]
\* with_default_subapp REPLACES the default sub-app: routes registered on the app before are gone, later
\* with_route / with_websocket_route calls append to the new one (threaded App only)
WithDefaultSubapp(a, s) == [a EXCEPT !.def = s]
\* deprecated with_websocket_handler(h) = with_websocket_route("*", h) (threaded App only)
WithWebsocketHandler(a) == WithWsRoute(a, <<STAR>>)

Routes(s, kind) == IF kind = "ws" THEN s.ws ELSE s.http
SubOf(a, s) == IF s = 0 THEN a.def ELSE a.hosts[s]

(***************************************************************************)
(* 1. The property as a definition.                                        *)
(***************************************************************************)
Hit(s, j) == [hit |-> TRUE, sub |-> s, idx |-> j]      \* handler idx-th route of sub-app s (0 = default app)
Miss == [hit |-> FALSE, sub |-> 0, idx |-> 0]          \* HTTP: NotFound (404); WebSocket: Closed (no upgrade)
NotFound == Miss
Closed == Miss

\* least i in 1..n with P(i), 0 when there is none
FirstIdx(n, P(_)) == IF \E i \in 1..n : P(i)
                     THEN CHOOSE i \in 1..n : P(i) /\ \A j \in 1..(i - 1) : ~P(j)
                     ELSE 0

\* the part of the request target before the first `?`
PathOf(target) == LET q == FirstIdx(Len(target), LAMBDA i : target[i] = QM)
                  IN IF q = 0 THEN target ELSE SubSeq(target, 1, q - 1)

\* index of the first registered host sub-app whose pattern matches the Host value (0: none / no Host header)
HostSel(a, hostp, host) == IF hostp THEN FirstIdx(Len(a.hosts), LAMBDA i : Match(a.hosts[i].host, host)) ELSE 0

Route(a, kind, hostp, host, path) ==
  LET hs == HostSel(a, hostp, host)
      hr == IF hs = 0 THEN 0
            ELSE FirstIdx(Len(Routes(a.hosts[hs], kind)), LAMBDA j : Match(Routes(a.hosts[hs], kind)[j], path))
      dr == FirstIdx(Len(Routes(a.def, kind)), LAMBDA j : Match(Routes(a.def, kind)[j], path))
  IN IF hr # 0 THEN Hit(hs, hr) ELSE IF dr # 0 THEN Hit(0, dr) ELSE Miss

HttpRoute(a, hostp, host, path) == Route(a, "http", hostp, host, path)   \* Miss = NotFound
WsRoute(a, hostp, host, path) == Route(a, "ws", hostp, host, path)       \* Miss = Closed

\* what the property predicts for a whole request r = [kind, hostp, host, target, other]
Expected(a, r) == Route(a, r.kind, r.hostp, r.host, PathOf(r.target))

(***************************************************************************)
(* 2. get_handler / call_websocket_handler, step by step.                  *)
(***************************************************************************)
VARIABLES app,     \* the registered configuration (frozen by App::run)
          req,     \* the parsed request being dispatched
          pc,      \* "host" | "routes" | "default" | "done"
          hi,      \* cursor of subapps.iter().find(..)
          ri,      \* cursor of routes.iter().find(..) (host sub-app or default, by pc)
          res      \* the handler chosen
vars == <<app, req, pc, hi, ri, res>>

M(p, t) == IF "NoSavedTextPos" \in Dev THEN KraussOld(p, t) ELSE Match(p, t)

\* Request parsing splits the target at the first `?` (request.uri); routes are matched against request.uri
\* Dev AbsoluteFormInQuery: what is left of a target after `scheme://authority` (the first `://` wherever it stands)
SchemeAt(t) == FirstIdx(Len(t) - 2, LAMBDA i : t[i] = COLON /\ t[i + 1] = "/" /\ t[i + 2] = "/")
OriginForm(t) == IF Len(t) < 3 \/ SchemeAt(t) = 0 THEN t
                 ELSE LET rest == SubSeq(t, SchemeAt(t) + 3, Len(t))
                          sl == FirstIdx(Len(rest), LAMBDA i : rest[i] = "/")
                      IN IF sl = 0 THEN <<"/">> ELSE SubSeq(rest, sl, Len(rest))
Uri == IF "MatchWithQuery" \in Dev THEN req.target
       ELSE IF "AbsoluteFormInQuery" \in Dev THEN PathOf(OriginForm(req.target))
       ELSE PathOf(req.target)
HostValue == IF "HostIgnoresPort" \in Dev
             THEN LET c == FirstIdx(Len(req.host), LAMBDA i : req.host[i] = COLON)
                  IN IF c = 0 THEN req.host ELSE SubSeq(req.host, 1, c - 1)
             ELSE req.host
FoldSeq(t) == [i \in DOMAIN t |-> Fold(t[i])]
HostMatches(i) == IF "HostEquality" \in Dev THEN app.hosts[i].host = HostValue
                  ELSE IF "HostCaseFolded" \in Dev THEN M(FoldSeq(app.hosts[i].host), FoldSeq(HostValue))
                  ELSE M(app.hosts[i].host, HostValue)
RouteMatches(p) == IF "PathCaseFolded" \in Dev THEN M(FoldSeq(p), FoldSeq(Uri)) ELSE M(p, Uri)
HostPresent == IF "EmptyHostIsAbsent" \in Dev THEN req.hostp /\ req.host # <<>> ELSE req.hostp
RoutesOf(s) == IF "WsUsesHttpRoutes" \in Dev THEN s.http ELSE Routes(s, req.kind)

\* cursors of `find` (`rfind` under the Last* deviations)
Start(n, last) == IF last THEN n ELSE 1
Exhausted(i, n, last) == IF last THEN i = 0 ELSE i > n
Advance(i, last) == IF last THEN i - 1 ELSE i + 1
LastH == "LastHost" \in Dev
LastR == "LastRoute" \in Dev

Init == /\ app \in Apps /\ req \in Reqs
        /\ pc = "host" /\ hi = Start(Len(app.hosts), LastH) /\ ri = 0 /\ res = Miss

GotoDefault == /\ pc' = "default" /\ ri' = Start(Len(RoutesOf(app.def)), LastR)
               /\ UNCHANGED <<app, req, hi, res>>
Finish(r) == /\ pc' = "done" /\ res' = r /\ UNCHANGED <<app, req, hi, ri>>

\* `if let Some(host) = request.headers.get(Host)` fails: straight to the default sub-app
HostAbsent == /\ pc = "host" /\ ~HostPresent
              /\ GotoDefault

\* one step of subapps.iter().find(|s| wildcard_match(&s.host, host))
HostStep ==
  /\ pc = "host" /\ HostPresent
  /\ IF Exhausted(hi, Len(app.hosts), LastH) THEN GotoDefault
     ELSE IF HostMatches(hi)
          THEN /\ pc' = "routes" /\ ri' = Start(Len(RoutesOf(app.hosts[hi])), LastR)
               /\ UNCHANGED <<app, req, hi, res>>
          ELSE /\ hi' = Advance(hi, LastH) /\ UNCHANGED <<app, req, pc, ri, res>>

\* one step of subapp.routes.iter().find(|r| r.route.route_matches(&request.uri))
RouteStep ==
  /\ pc = "routes"
  /\ LET rs == RoutesOf(app.hosts[hi]) IN
     IF Exhausted(ri, Len(rs), LastR)
     THEN \* the host sub-app has no route for this request: fall through to the default sub-app
          IF "NextHostOnMiss" \in Dev
          THEN /\ pc' = "host" /\ hi' = Advance(hi, LastH) /\ UNCHANGED <<app, req, ri, res>>
          ELSE IF "NoDefaultAfterHostMatch" \in Dev THEN Finish(Miss)
          ELSE GotoDefault
     ELSE IF RouteMatches(rs[ri]) THEN Finish(Hit(hi, ri))
     ELSE /\ ri' = Advance(ri, LastR) /\ UNCHANGED <<app, req, pc, hi, res>>

\* one step of default_subapp.routes.iter().find(..); exhausted: 404 / the stream is dropped
DefaultStep ==
  /\ pc = "default"
  /\ LET rs == RoutesOf(app.def) IN
     IF Exhausted(ri, Len(rs), LastR) THEN Finish(Miss)
     ELSE IF RouteMatches(rs[ri]) THEN Finish(Hit(0, ri))
     ELSE /\ ri' = Advance(ri, LastR) /\ UNCHANGED <<app, req, pc, hi, res>>

Next == HostAbsent \/ HostStep \/ RouteStep \/ DefaultStep
Spec == Init /\ [][Next]_vars /\ WF_vars(Next)

(***************************************************************************)
(* Properties.                                                             *)
(***************************************************************************)
Done == pc = "done"

\* C04: the dispatcher ends with the handler the property names
AlgoCorrect == Done => res = Expected(app, req)
\* ... and it ends
Terminates == <>Done
\* progress measure for the large configurations (no liveness run there)
MaxLen == LET L == {Len(app.def.http), Len(app.def.ws)} \cup
                   UNION {{Len(app.hosts[i].http), Len(app.hosts[i].ws)} : i \in 1..Len(app.hosts)}
          IN CHOOSE m \in L : \A x \in L : x <= m
Bounded == /\ pc \in {"host", "routes", "default", "done"}
           /\ hi \in 0..(Len(app.hosts) + 1) /\ ri \in 0..(MaxLen + 1)
           /\ (pc = "routes" => hi \in 1..Len(app.hosts))
           /\ (res.hit => Done)

\* Independence facts (checked where the dispatcher has chosen) ---------------------------------------------
DropAt(seq, j) == SubSeq(seq, 1, j - 1) \o SubSeq(seq, j + 1, Len(seq))
SubDrop(s, k, j) == IF k = "ws" THEN [s EXCEPT !.ws = DropAt(@, j)] ELSE [s EXCEPT !.http = DropAt(@, j)]
RemoveRoute(a, s, k, j) == IF s = 0 THEN [a EXCEPT !.def = SubDrop(@, k, j)]
                           ELSE [a EXCEPT !.hosts[s] = SubDrop(@, k, j)]
RemoveHost(a, s) == [a EXCEPT !.hosts = DropAt(@, s)]
SubAppend(s, k, p) == IF k = "ws" THEN SubWithWsRoute(s, p) ELSE SubWithRoute(s, p)
AppendRoute(a, s, k, p) == IF s = 0 THEN [a EXCEPT !.def = SubAppend(@, k, p)]
                           ELSE [a EXCEPT !.hosts[s] = SubAppend(@, k, p)]
PatsOf(a) == {<<STAR>>} \cup
             UNION {{Routes(SubOf(a, s), k)[j] : j \in 1..Len(Routes(SubOf(a, s), k))} : s \in 0..Len(a.hosts), k \in Kinds}

\* removing any route other than the chosen one never changes which handler answers
RemoveNonChosen ==
  Done => \A s \in 0..Len(app.hosts) : \A k \in Kinds : \A j \in 1..Len(Routes(SubOf(app, s), k)) :
            ~(res.hit /\ k = req.kind /\ s = res.sub /\ j = res.idx) =>
               Expected(RemoveRoute(app, s, k, j), req) =
                  (IF res.hit /\ k = req.kind /\ s = res.sub /\ j < res.idx THEN Hit(s, res.idx - 1) ELSE res)

\* removing a host sub-app other than the selected one never changes which handler answers
RemoveOtherHost ==
  Done => \A s \in 1..Len(app.hosts) :
            s # HostSel(app, req.hostp, req.host) =>
               Expected(RemoveHost(app, s), req) =
                  (IF res.hit /\ res.sub > s THEN Hit(res.sub - 1, res.idx) ELSE res)

\* a route registered LATER (appended) never takes a request over from the chosen handler, except in the one
\* case the property allows: it is added to the selected host sub-app that had no matching route so far
AppendStable ==
  (Done /\ res.hit) =>
     \A p \in PatsOf(app) : \A s \in 0..Len(app.hosts) : \A k \in Kinds :
        (s # HostSel(app, req.hostp, req.host) \/ res.sub = s \/ k # req.kind) =>
           Expected(AppendRoute(app, s, k, p), req) = res

\* a host sub-app registered later never changes the choice once an earlier one matches the Host value
CatchAllSub == [host |-> <<STAR, STAR>>, http |-> <<<<STAR>>>>, ws |-> <<<<STAR>>>>]
AppendHostStable ==
  (Done /\ HostSel(app, req.hostp, req.host) # 0) =>
     Expected(WithHost(app, <<STAR, STAR>>, CatchAllSub), req) = res

\* WebSocket upgrades see only WebSocket routes and vice versa
KindsSeparate ==
  Done => \A p \in PatsOf(app) : \A s \in 0..Len(app.hosts) :
             Expected(AppendRoute(app, s, IF req.kind = "ws" THEN "http" ELSE "ws", p), req) = res

\* with_default_subapp replaces the default sub-app: whatever was registered on the app before (here a catch-all
\* of each kind) has no influence any more
DefaultReplaced ==
  Done => Expected(WithDefaultSubapp(WithWebsocketHandler(WithRoute(app, <<STAR>>)), app.def), req) = res

Independence == RemoveNonChosen /\ RemoveOtherHost /\ AppendStable /\ AppendHostStable /\ KindsSeparate /\ DefaultReplaced
=============================================================================
