CONSTANTS
  STAR = "*"
  QM = "?"
  COLON = ":"
  Fold <- MCFold
  Dev = {}
  Apps <- MCApps
  Reqs <- MCReqs
  RoutePats <- RP2
  HostPats <- HP2
  MaxHosts = 2
  MaxRoutes = 2
  MaxDef = 1
  NHostVals = 5
  NPaths = 4
  NQueries = 1
  Others = {0}
  GenLists <- GenListsQuick
  GenHostSeqs <- GenHostSeqsQuick
INIT Init
NEXT Next
INVARIANTS AlgoCorrect Bounded
CHECK_DEADLOCK FALSE
