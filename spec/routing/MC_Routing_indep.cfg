CONSTANTS
  STAR = "*"
  QM = "?"
  COLON = ":"
  Fold <- MCFold
  Dev = {}
  Apps <- MCApps
  Reqs <- MCReqs
  RoutePats <- RP3
  HostPats <- HP2
  MaxHosts = 2
  MaxRoutes = 2
  MaxDef = 1
  NHostVals = 5
  NPaths = 5
  NQueries = 2
  Others = {0}
  GenLists <- GenListsQuick
  GenHostSeqs <- GenHostSeqsQuick
INIT Init
NEXT Next
INVARIANTS AlgoCorrect Bounded Independence
CHECK_DEADLOCK FALSE
