CONSTANTS
  STAR = "*"
  QM = "?"
  COLON = ":"
  Fold <- MCFold
  Dev = {"EmptyHostIsAbsent"}
  Apps <- MCApps
  Reqs <- MCReqs
  RoutePats <- RP2
  HostPats <- HPE
  MaxHosts = 1
  MaxRoutes = 1
  MaxDef = 1
  NHostVals = 7
  NPaths = 3
  NQueries = 1
  Others = {0}
  GenLists <- GenListsQuick
  GenHostSeqs <- GenHostSeqsQuick
INIT Init
NEXT Next
INVARIANTS DevPrint AlgoCorrect
CHECK_DEADLOCK FALSE
