\* vector generation: every history of 1..4 calls over a narrower alphabet
CONSTANTS
  Pats = {"/a", "/*"}
  HKinds = {"ownAll"}
  HostPats = {"*.test"}
  CorsCat <- Cat2
  MaxCalls = 4
  MaxRoutes = 16
  MaxHosts = 16
  MaxCorsCalls = 1000000
  FullApi = TRUE
  ReqMethods = {"GET"}
  ReqHosts = {""}
  ReqPaths = {"/a"}
  ReqOrigins = {""}
  GenMinCalls = 1
  Dev = {}
INIT GenInit
NEXT Next
INVARIANT GenInv
CHECK_DEADLOCK FALSE
