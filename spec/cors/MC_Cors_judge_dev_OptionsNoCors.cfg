\* judge sensitivity: Dev = {OptionsNoCors} MUST violate Inv_Judge (the statement itself rejects it)
CONSTANTS
  Pats = {"/a"}
  HKinds = {"plain", "ownO", "ownM", "ownH", "ownAll", "cred", "dupO"}
  HostPats = {"one.test"}
  CorsCat <- Cat6
  MaxCalls = 2
  MaxRoutes = 1
  MaxHosts = 0
  MaxCorsCalls = 1
  FullApi = TRUE
  ReqMethods = {"GET", "POST", "OPTIONS"}
  ReqHosts = {""}
  ReqPaths = {"/a", "/c"}
  ReqOrigins = {"", "http://a.test"}
  GenMinCalls = 0
  Dev = {"OptionsNoCors"}
SPECIFICATION Spec
INVARIANTS Inv_Judge
CHECK_DEADLOCK FALSE
