CONSTANTS
  Pats = {"/a", "/a/*", "/*"}
  HKinds = {"plain", "ownO", "ownM", "ownH", "ownAll", "cred", "dupO"}
  HostPats = {"one.test", "*.test", "one.*"}
  CorsCat <- Cat6
  MaxCalls = 9
  MaxRoutes = 16
  MaxHosts = 16
  MaxCorsCalls = 1000000
  FullApi = TRUE
  ReqMethods = {"GET"}
  ReqHosts = {""}
  ReqPaths = {"/a"}
  GenMinCalls = 9
  Dev = {}
INIT GenInit
NEXT Next
INVARIANT GenInv
CHECK_DEADLOCK FALSE
