\* run with -simulate: random histories of exactly 9 calls over the wide alphabet (3 patterns, 7 handler kinds, 3 host patterns, 6 Cors values)
CONSTANTS
  Pats = {"/a", "/a/*", "/*"}
  HKinds = {"plain", "ownO", "ownM", "ownH", "ownAll", "cred", "dupO"}
  HostPats = {"one.test", "*.test", "one.*"}
  CorsCat <- Cat6
  MaxCalls = 9
  MaxRoutes = 16
  MaxHosts = 16
  MaxCorsCalls = 1000000
  FullApi = TRUE
  ReqMethods = {"GET"}
  ReqHosts = {""}
  ReqPaths = {"/a"}
  ReqOrigins = {""}
  GenMinCalls = 9
  Dev = {}
INIT GenInit
NEXT Next
INVARIANT GenInv
CHECK_DEADLOCK FALSE
