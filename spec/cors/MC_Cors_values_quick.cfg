\* header computation: every Cors builder chain of <= 3 calls x 7 handler kinds, one route registered before / after with_cors / with_cors_config
CONSTANTS
  Pats = {"/a"}
  HKinds = {"plain", "ownO", "ownM", "ownH", "ownAll", "cred", "dupO"}
  HostPats = {"one.test"}
  CorsCat <- Chains2
  MaxCalls = 2
  MaxRoutes = 1
  MaxHosts = 0
  MaxCorsCalls = 1
  FullApi = TRUE
  ReqMethods = {"GET", "POST", "OPTIONS"}
  ReqHosts = {""}
  ReqPaths = {"/a", "/c"}
  ReqOrigins = {"", "http://a.test", "http://evil.test"}
  GenMinCalls = 0
  Dev = {}
SPECIFICATION Spec
INVARIANTS TypeOK Inv_RouteCorsIntent Inv_Response Inv_Unmatched Inv_HandlerWins Inv_OptionsRouteOnly Inv_CorsValues Inv_Judge
CHECK_DEADLOCK FALSE

