\* vector generation: every history of 1..3 calls with Expected for the 36 requests of GenReqs
CONSTANTS
  Pats = {"/a", "/*"}
  HKinds = {"plain", "ownAll"}
  HostPats = {"one.test", "*.test"}
  CorsCat <- Cat3
  MaxCalls = 3
  MaxRoutes = 16
  MaxHosts = 16
  MaxCorsCalls = 1000000
  FullApi = TRUE
  ReqMethods = {"GET"}
  ReqHosts = {""}
  ReqPaths = {"/a"}
  ReqOrigins = {""}
  GenMinCalls = 1
  Dev = {}
INIT GenInit
NEXT Next
INVARIANT GenInv
CHECK_DEADLOCK FALSE
