\* history-free (VIEW StateView): builder sequences of ANY length, <= 1 route per sub-app, 1 host sub-app, 2 Cors values, 1 handler kind
CONSTANTS
  Pats = {"/a", "/*"}
  HKinds = {"ownO"}
  HostPats = {"*.test"}
  CorsCat <- Cat2
  MaxCalls = 1000000
  MaxRoutes = 1
  MaxHosts = 1
  MaxCorsCalls = 1000000
  FullApi = TRUE
  ReqMethods = {"GET", "OPTIONS"}
  ReqHosts = {"", "one.test"}
  ReqPaths = {"/a", "/c"}
  ReqOrigins = {""}
  GenMinCalls = 0
  Dev = {}
SPECIFICATION Spec
INVARIANTS Inv_ResponseState Inv_Unmatched Inv_HandlerWins Inv_OptionsRouteOnly
CHECK_DEADLOCK FALSE
VIEW StateView
