\* history-free (VIEW StateView): builder sequences of ANY length, <= 2 routes per sub-app, 1 host sub-app, 1 Cors value
CONSTANTS
  Pats = {"/a", "/*"}
  HKinds = {"ownO"}
  HostPats = {"*.test"}
  CorsCat <- Cat1
  MaxCalls = 1000000
  MaxRoutes = 2
  MaxHosts = 1
  MaxCorsCalls = 1000000
  FullApi = TRUE
  ReqMethods = {"GET", "OPTIONS"}
  ReqHosts = {"", "one.test"}
  ReqPaths = {"/a", "/c"}
  ReqOrigins = {""}
  GenMinCalls = 0
  Dev = {}
SPECIFICATION Spec
INVARIANTS Inv_ResponseState Inv_Unmatched Inv_HandlerWins Inv_OptionsRouteOnly
CHECK_DEADLOCK FALSE
VIEW StateView
