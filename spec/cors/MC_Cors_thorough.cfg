\* every builder sequence of <= 5 calls, all invariants
CONSTANTS
  Pats = {"/a", "/*"}
  HKinds = {"plain", "ownO"}
  HostPats = {"one.test", "*.test"}
  CorsCat <- Cat2
  MaxCalls = 5
  MaxRoutes = 5
  MaxHosts = 5
  MaxCorsCalls = 1000000
  FullApi = TRUE
  ReqMethods = {"GET", "OPTIONS"}
  ReqHosts = {"", "one.test", "three.test"}
  ReqPaths = {"/a", "/c"}
  ReqOrigins = {""}
  GenMinCalls = 0
  Dev = {}
SPECIFICATION Spec
INVARIANTS TypeOK Inv_RouteCorsIntent Inv_Response Inv_Unmatched Inv_HandlerWins Inv_OptionsRouteOnly Inv_CorsValues Inv_Judge
CHECK_DEADLOCK FALSE

