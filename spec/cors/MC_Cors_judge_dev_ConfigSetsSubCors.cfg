\* judge sensitivity: Dev = {ConfigSetsSubCors} MUST violate Inv_Judge (the statement itself rejects it)
CONSTANTS
  Pats = {"/a", "/*"}
  HKinds = {"plain"}
  HostPats = {"one.test"}
  CorsCat <- Cat1
  MaxCalls = 4
  MaxRoutes = 2
  MaxHosts = 1
  MaxCorsCalls = 2
  FullApi = TRUE
  ReqMethods = {"GET", "OPTIONS"}
  ReqHosts = {"", "one.test"}
  ReqPaths = {"/a", "/c"}
  ReqOrigins = {"", "http://a.test"}
  GenMinCalls = 0
  Dev = {"ConfigSetsSubCors"}
SPECIFICATION Spec
INVARIANTS Inv_Judge
CHECK_DEADLOCK FALSE
