\* sensitivity: the plausible bug Dev = {ConfigSetsSubCors} MUST violate an invariant
CONSTANTS
  Pats = {"/a", "/*"}
  HKinds = {"plain"}
  HostPats = {"one.test"}
  CorsCat <- Cat1
  MaxCalls = 4
  MaxRoutes = 2
  MaxHosts = 1
  MaxCorsCalls = 2
  FullApi = TRUE
  ReqMethods = {"GET", "OPTIONS"}
  ReqHosts = {"", "one.test"}
  ReqPaths = {"/a", "/c"}
  ReqOrigins = {""}
  GenMinCalls = 0
  Dev = {"ConfigSetsSubCors"}
SPECIFICATION Spec
INVARIANTS Inv_Response
CHECK_DEADLOCK FALSE
