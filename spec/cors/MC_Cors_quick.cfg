\* every builder sequence of <= 4 calls (2 patterns x 2 handler kinds x 2 Cors values x 2 host patterns), all invariants; run with -coverage (vacuity guard)
CONSTANTS
  Pats = {"/a", "/*"}
  HKinds = {"plain", "ownO"}
  HostPats = {"one.test", "*.test"}
  CorsCat <- Cat2
  MaxCalls = 4
  MaxRoutes = 4
  MaxHosts = 4
  MaxCorsCalls = 1000000
  FullApi = TRUE
  ReqMethods = {"GET", "OPTIONS"}
  ReqHosts = {"", "one.test", "three.test"}
  ReqPaths = {"/a", "/c"}
  ReqOrigins = {""}
  GenMinCalls = 0
  Dev = {}
SPECIFICATION Spec
INVARIANTS TypeOK Inv_RouteCorsIntent Inv_Response Inv_Unmatched Inv_HandlerWins Inv_OptionsRouteOnly Inv_CorsValues Inv_Judge
CHECK_DEADLOCK FALSE
