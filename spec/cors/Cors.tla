------------------------------- MODULE Cors -------------------------------
(* C01, CORS part: "every response carries the matched route's CORS headers".

   The abstract state is a Humphrey `App` as far as CORS can see it: the default sub-app, the host
   sub-apps attached with `with_host` (in registration order) and at most one `SubApp` value still under
   construction (`pend`); every sub-app has an optional sub-app-wide `cors` and an ordered route list, every
   route carries a pattern, the kind of its handler (which Access-Control-* headers the handler sets itself),
   its own `cors` value and the index `at` of the builder call that created it (the handler of the real app
   answers with that index, so the matched route is observable).

   ACTIONS = the public builder calls, in any order:
       App::with_route / with_cors / with_cors_config / with_host / with_default_subapp,
       SubApp::new / with_route / with_cors / with_cors_config
   transcribed from humphrey/src/route.rs and app.rs (tokio/app.rs delegates to the same SubApp code and has no
   with_default_subapp: FullApi = FALSE).  A `Cors` value is the fold (BuildCors) of the builder calls of
   humphrey/src/http/cors.rs: new | wildcard, with_wildcard_origin/methods/headers, with_origin/method/header.

   PROPERTY.  Respond(app, rq) is the transcription of the dispatch in client_handler (get_handler, the OPTIONS
   branch building 204 + CORS without running the handler, the general branch calling
   `handler.cors.set_headers(&mut response.headers)` on the handler's response, 404 otherwise) with
   SetHeadersImpl working on the header *list* exactly like Cors::set_headers (Headers::get = first entry of
   that name, Headers::add = push).  ExpectedCorsHeaders is the documented intent:
     - which CORS configuration a route has is a function of the *call history* (IntendedCors): the last call,
       among `with_cors` on the route's sub-app (doc: "overrides the CORS configuration for existing and future
       individual routes") and `with_cors_config(<its pattern>)` on that sub-app made after the route existed
       (doc: "Sets the CORS configuration for a given route"), else `Cors::default()` = no header at all;
     - which headers a configuration stands for (IntentHeaders) follows the crate documentation of `Cors`
       (wildcard(): "Access-Control-Allow-Origin: *, Access-Control-Allow-Headers: *, Access-Control-Allow-Methods:
       * (although this is implied)" => wildcard methods are NOT sent; new(): "no allowed origins" => nothing;
       lists are sent comma-separated in insertion order) with, per header name, "a header the handler set
       itself is kept as it is: not overridden, not duplicated";
     - an OPTIONS request to a matched route gets the route's headers (the handler does not run), a request
       that matches no route gets no Access-Control-* header.

   Matching of route and host patterns is NOT the subject here (C04/C05): patterns and request values come
   from a small vocabulary whose match relation is tabulated (RouteMatches / HostMatches).

   Dev switches *plausible bugs* (none of them is in the code): they exist to show that the invariants are
   not vacuous (MC_Cors_dev_*.cfg must each violate).  Dev = {} is the code as read.

   Observations that the property text does not cover (modelled as the code behaves, see the report):
     - several origins are sent as ONE header `a, b` (MDN: a single origin or `*` only);
     - with_wildcard_methods()/wildcard() send no Access-Control-Allow-Methods at all ("implied" per the crate
       docs; browsers then allow only the CORS-safelisted methods);
     - App::with_cors / with_cors_config reach the default sub-app only, never a host sub-app;
     - with_cors_config on a pattern that is not registered (yet) is silently without effect;
     - with_header(x) stores `x.to_header().to_string()`: known names in canonical case, custom ones lowercased. *)
EXTENDS Naturals, Sequences, FiniteSets, TLC

CONSTANTS Pats,        \* route patterns usable in builder calls
          HKinds,      \* handler kinds
          HostPats,    \* host patterns for with_host
          CorsCat,     \* catalogue of Cors values, each given as its sequence of builder ops [f, a]
          MaxCalls,    \* bound on the number of builder calls
          MaxRoutes,   \* bound on the routes of one sub-app
          MaxHosts,    \* bound on attached host sub-apps
          MaxCorsCalls,\* bound on the calls that carry a Cors value (with_cors / with_cors_config)
          FullApi,     \* TRUE: threaded App (has with_default_subapp)
          ReqMethods, ReqHosts, ReqPaths,   \* request space evaluated by the invariants ("" = no Host header)
          ReqOrigins,  \* values of the request's Origin header ("" = none); the code never looks at it
          Dev

(***************************************************************************)
(* Vocabulary with tabulated matching (krauss::wildcard_match, see C05).   *)
(***************************************************************************)
RouteMatchTable == { <<"/a", "/a">>, <<"/b", "/b">>, <<"/a/*", "/a/x">>, <<"/a/*", "/a/">>,
                     <<"/*", "/a">>, <<"/*", "/b">>, <<"/*", "/a/x">>, <<"/*", "/a/">>, <<"/*", "/c">>, <<"/*", "/">>,
                     <<"*", "/a">>, <<"*", "/b">>, <<"*", "/a/x">>, <<"*", "/a/">>, <<"*", "/c">>, <<"*", "/">> }
RouteMatches(p, x) == <<p, x>> \in RouteMatchTable
HostMatchTable == { <<"one.test", "one.test">>, <<"two.test", "two.test">>,
                    <<"*.test", "one.test">>, <<"*.test", "two.test">>, <<"*.test", "three.test">>,
                    <<"one.*", "one.test">>, <<"one.*", "one.example">> }
HostMatches(hp, h) == <<hp, h>> \in HostMatchTable

(***************************************************************************)
(* Cors values (humphrey/src/http/cors.rs).                                *)
(* A value is [ow, ol, mw, ml, hw, hl]: per dimension Wildcard (w = TRUE,  *)
(* the list is gone) or Value(list).                                       *)
(***************************************************************************)
EmptyCors == [ow |-> FALSE, ol |-> <<>>, mw |-> FALSE, ml |-> <<>>, hw |-> FALSE, hl |-> <<>>]   \* Cors::new() = default()
WildCors  == [ow |-> TRUE,  ol |-> <<>>, mw |-> TRUE,  ml |-> <<>>, hw |-> TRUE,  hl |-> <<>>]   \* Cors::wildcard()

\* HeaderLike::to_header().to_string(): known names canonical, custom names lowercased (HeaderType::from)
CanonTable == [s \in {"Content-Type", "content-type", "CONTENT-TYPE"} |-> "Content-Type"]
           @@ [s \in {"Authorization", "authorization"} |-> "Authorization"]
           @@ [s \in {"X-Token", "x-token", "X-TOKEN"} |-> "x-token"]
           @@ [s \in {"X-Api-Key", "x-api-key"} |-> "x-api-key"]
CanonHeader(s) == IF s \in DOMAIN CanonTable THEN CanonTable[s] ELSE s

Ctor == {"new", "wildcard"}
CorsStep(c, o) ==
  CASE o.f = "new"          -> EmptyCors
    [] o.f = "wildcard"     -> WildCors
    [] o.f = "wild_origin"  -> [c EXCEPT !.ow = TRUE, !.ol = <<>>]
    [] o.f = "wild_methods" -> [c EXCEPT !.mw = TRUE, !.ml = <<>>]
    [] o.f = "wild_headers" -> [c EXCEPT !.hw = TRUE, !.hl = <<>>]
    [] o.f = "origin"       -> IF c.ow /\ "OriginAfterWildcardResets" \notin Dev THEN c
                               ELSE [c EXCEPT !.ow = FALSE, !.ol = Append(@, o.a)]
    [] o.f = "method"       -> IF c.mw THEN c ELSE [c EXCEPT !.ml = Append(@, o.a)]
    [] o.f = "header"       -> IF c.hw THEN c ELSE [c EXCEPT !.hl = Append(@, CanonHeader(o.a))]
RECURSIVE FoldCors(_, _)
FoldCors(c, ops) == IF ops = <<>> THEN c ELSE FoldCors(CorsStep(c, Head(ops)), Tail(ops))
BuildCors(ops) == FoldCors(EmptyCors, ops)
WellFormedCorsOps(ops) == /\ Len(ops) >= 1 /\ ops[1].f \in Ctor
                          /\ \A i \in 2..Len(ops) : ops[i].f \in {"wild_origin", "wild_methods", "wild_headers", "origin", "method", "header"}

\* the documented meaning of a builder chain, stated over the whole chain (not step by step)
ArgsOf(ops, f) == LET sel == SelectSeq(ops, LAMBDA o : o.f = f) IN [i \in 1..Len(sel) |-> sel[i].a]
MeaningOf(ops) ==
  LET wo == \E i \in DOMAIN ops : ops[i].f \in {"wildcard", "wild_origin"}
      wm == \E i \in DOMAIN ops : ops[i].f \in {"wildcard", "wild_methods"}
      wh == \E i \in DOMAIN ops : ops[i].f \in {"wildcard", "wild_headers"}
      hs == ArgsOf(ops, "header")
  IN [ow |-> wo, ol |-> IF wo THEN <<>> ELSE ArgsOf(ops, "origin"),
      mw |-> wm, ml |-> IF wm THEN <<>> ELSE ArgsOf(ops, "method"),
      hw |-> wh, hl |-> IF wh THEN <<>> ELSE [i \in 1..Len(hs) |-> CanonHeader(hs[i])]]
\* ... which is only right when every add precedes the wildcard switch of its dimension or follows none;
\* an add *after* the switch is dropped, an add *before* it is forgotten: both give "wildcard", as stated.

(***************************************************************************)
(* Header lists (http/headers.rs: Vec<Header>, get = first, add = push).   *)
(***************************************************************************)
ACO == "Access-Control-Allow-Origin"
ACM == "Access-Control-Allow-Methods"
ACH == "Access-Control-Allow-Headers"
ACC == "access-control-allow-credentials"      \* not a HeaderType of its own: Custom, lowercased
RECURSIVE Join(_)
Join(s) == IF Len(s) = 0 THEN "" ELSE IF Len(s) = 1 THEN s[1] ELSE s[1] \o ", " \o Join(Tail(s))
H(n, v) == [n |-> n, v |-> v]       \* v: sequence of tokens
HHas(hs, n) == \E i \in DOMAIN hs : hs[i].n = n
HAdd(hs, n, v) == Append(hs, H(n, v))
HReplace(hs, n, v) == Append(SelectSeq(hs, LAMBDA e : e.n # n), H(n, v))
\* a header value is kept as its sequence of tokens; on the wire it is the tokens joined with ", " (Join)
ValuesOf(hs, n) == LET sel == SelectSeq(hs, LAMBDA e : e.n = n) IN [i \in 1..Len(sel) |-> Join(sel[i].v)]
\* the observable: per Access-Control-* name the values in wire order (same-name headers keep insertion
\* order: Headers::iter sorts stably by name); z = any other access-control-* header (never expected)
AC(hs) == [o |-> ValuesOf(hs, ACO), m |-> ValuesOf(hs, ACM), h |-> ValuesOf(hs, ACH), c |-> ValuesOf(hs, ACC), z |-> <<>>]
NoAC == [o |-> <<>>, m |-> <<>>, h |-> <<>>, c |-> <<>>, z |-> <<>>]

\* what the handler of kind k puts on its response itself (in this order)
HandlerHeaders(k) ==
  CASE k = "plain"  -> << H("Content-Type", <<"text/plain">>) >>
    [] k = "ownO"   -> << H(ACO, <<"http://own.test">>), H("Content-Type", <<"text/plain">>) >>
    [] k = "ownM"   -> << H(ACM, <<"PATCH">>) >>
    [] k = "ownH"   -> << H("Content-Type", <<"text/plain">>), H(ACH, <<"x-own">>) >>
    [] k = "ownAll" -> << H(ACH, <<"x-own">>), H(ACO, <<"http://own.test">>), H(ACC, <<"true">>), H(ACM, <<"PATCH">>) >>
    [] k = "cred"   -> << H(ACC, <<"true">>) >>
    [] k = "dupO"   -> << H(ACO, <<"http://own1.test">>), H("Content-Type", <<"text/plain">>), H(ACO, <<"http://own2.test">>) >>
AllHKinds == {"plain", "ownO", "ownM", "ownH", "ownAll", "cred", "dupO"}

\* Cors::set_headers, statement by statement
AddOrReplace(hs, n, v) ==
  IF "OverrideHandler" \in Dev THEN HReplace(hs, n, v) ELSE HAdd(hs, n, v)
Absent(hs, n) == "DuplicateHandler" \in Dev \/ "OverrideHandler" \in Dev \/ ~HHas(hs, n)
SetHeadersImpl(c, hs) ==
  LET h1 == IF Absent(hs, ACO)
            THEN (IF c.ow THEN AddOrReplace(hs, ACO, <<"*">>)
                  ELSE IF c.ol # <<>> THEN AddOrReplace(hs, ACO, IF "OriginsLastOnly" \in Dev THEN <<c.ol[Len(c.ol)]>> ELSE c.ol)
                  ELSE hs)
            ELSE hs
      h2 == IF Absent(h1, ACM)
            THEN (IF ~c.mw /\ c.ml # <<>> THEN AddOrReplace(h1, ACM, c.ml)
                  ELSE IF c.mw /\ "MethodsWildcardStar" \in Dev THEN AddOrReplace(h1, ACM, <<"*">>)
                  ELSE h1)
            ELSE h1
      h3 == IF Absent(h2, IF "HeadersGuardChecksMethods" \in Dev THEN ACM ELSE ACH)
            THEN (IF c.hw THEN AddOrReplace(h2, ACH, <<"*">>)
                  ELSE IF c.hl # <<>> THEN AddOrReplace(h2, ACH, c.hl)
                  ELSE h2)
            ELSE h2
  IN h3

\* the documented intent, per header name; own = AC(...) of what the handler set itself
IntentHeaders(c, own) ==
  [o |-> IF own.o # <<>> THEN own.o ELSE IF c.ow THEN <<"*">> ELSE IF c.ol # <<>> THEN <<Join(c.ol)>> ELSE <<>>,
   m |-> IF own.m # <<>> THEN own.m ELSE IF c.mw THEN <<>> ELSE IF c.ml # <<>> THEN <<Join(c.ml)>> ELSE <<>>,
   h |-> IF own.h # <<>> THEN own.h ELSE IF c.hw THEN <<"*">> ELSE IF c.hl # <<>> THEN <<Join(c.hl)>> ELSE <<>>,
   c |-> own.c, z |-> <<>>]

(***************************************************************************)
(* Apps and builder calls.                                                 *)
(***************************************************************************)
NewSub(sid) == [sid |-> sid, host |-> "*", cset |-> FALSE, cors |-> EmptyCors, routes |-> <<>>]
NoSub == NewSub(0)
NewApp == [def |-> NewSub(0), hosts |-> <<>>, pon |-> FALSE, pend |-> NoSub]

\* SubApp::with_route / with_stateless_route / with_path_aware_route (n = index of this call)
SubWithRoute(sa, p, k, n) ==
  [sa EXCEPT !.routes = Append(@, [pat |-> p, hk |-> k, at |-> n,
                                   cors |-> IF sa.cset /\ "NewRouteIgnoresSubCors" \notin Dev THEN sa.cors ELSE EmptyCors])]
\* SubApp::with_cors
SubWithCors(sa, c) ==
  LET rs == sa.routes IN
  [sa EXCEPT !.cset = IF "CorsOnlyExisting" \in Dev THEN @ ELSE TRUE,
             !.cors = IF "CorsOnlyExisting" \in Dev THEN @ ELSE c,
             !.routes = IF "CorsOnlyFuture" \in Dev THEN rs
                        ELSE [i \in DOMAIN rs |-> [rs[i] EXCEPT !.cors = c]]]
\* SubApp::with_cors_config
SubWithCorsConfig(sa, p, c) ==
  LET rs == sa.routes
      hit(i) == \/ rs[i].pat = p
                \/ "ConfigByMatch" \in Dev /\ RouteMatches(rs[i].pat, p)
      first(i) == \A j \in 1..(i - 1) : ~hit(j)
  IN [sa EXCEPT !.routes = [i \in DOMAIN rs |-> IF hit(i) /\ ("ConfigFirstOnly" \in Dev => first(i))
                                                 THEN [rs[i] EXCEPT !.cors = c] ELSE rs[i]],
                !.cset = IF "ConfigSetsSubCors" \in Dev THEN TRUE ELSE @,
                !.cors = IF "ConfigSetsSubCors" \in Dev THEN c ELSE @]

Ops == {"route", "cors", "config", "subnew", "subroute", "subcors", "subconfig", "host", "defsub"}
\* a call as the builder sees it; unused fields are "" / <<>>
Call(op, pat, hk, hp, cors) == [op |-> op, pat |-> pat, hk |-> hk, hp |-> hp, cors |-> cors]

Enabled(a, cl) ==
  CASE cl.op \in {"route", "cors", "config"}          -> TRUE
    [] cl.op = "subnew"                                -> ~a.pon /\ MaxHosts > 0   \* MaxHosts = 0: default sub-app only
    [] cl.op \in {"subroute", "subcors", "subconfig"}  -> a.pon
    [] cl.op = "host"                                  -> a.pon /\ cl.hp # "*"     \* with_host("*") panics
    [] cl.op = "defsub"                                -> a.pon /\ FullApi
    [] OTHER                                           -> FALSE

\* the sub-app a call works on (0 = the App's own default sub-app), recorded with the call
TargetSid(a, cl) == IF cl.op \in {"route", "cors", "config"} THEN a.def.sid ELSE IF cl.op = "subnew" THEN 0 ELSE a.pend.sid

\* n = index of the call in the history
Apply(a, cl, n) ==
  CASE cl.op = "route"     -> [a EXCEPT !.def = SubWithRoute(@, cl.pat, cl.hk, n)]
    [] cl.op = "cors"      -> [a EXCEPT !.def = SubWithCors(@, BuildCors(cl.cors)),
                                        !.hosts = IF "AppCorsAllHosts" \in Dev
                                                  THEN [i \in DOMAIN a.hosts |-> SubWithCors(a.hosts[i], BuildCors(cl.cors))]
                                                  ELSE @]
    [] cl.op = "config"    -> [a EXCEPT !.def = SubWithCorsConfig(@, cl.pat, BuildCors(cl.cors)),
                                        !.hosts = IF "AppConfigAllHosts" \in Dev
                                                  THEN [i \in DOMAIN a.hosts |-> SubWithCorsConfig(a.hosts[i], cl.pat, BuildCors(cl.cors))]
                                                  ELSE @]
    [] cl.op = "subnew"    -> [a EXCEPT !.pon = TRUE, !.pend = NewSub(n)]
    [] cl.op = "subroute"  -> [a EXCEPT !.pend = SubWithRoute(@, cl.pat, cl.hk, n)]
    [] cl.op = "subcors"   -> [a EXCEPT !.pend = SubWithCors(@, BuildCors(cl.cors))]
    [] cl.op = "subconfig" -> [a EXCEPT !.pend = SubWithCorsConfig(@, cl.pat, BuildCors(cl.cors))]
    [] cl.op = "host"      -> [a EXCEPT !.hosts = Append(@, [a.pend EXCEPT !.host = cl.hp]),
                                        !.pon = FALSE, !.pend = NoSub]
    [] cl.op = "defsub"    -> [a EXCEPT !.def = IF "DefSubKeepsOldCors" \in Dev
                                                 THEN [a.pend EXCEPT !.cset = a.def.cset, !.cors = a.def.cors]
                                                 ELSE a.pend,
                                        !.pon = FALSE, !.pend = NoSub]

VARIABLES app, calls      \* calls: the history, each call stamped with the sid of the sub-app it worked on
vars == <<app, calls>>

Init == app = NewApp /\ calls = <<>>

WithinBounds(a) == /\ Len(a.def.routes) <= MaxRoutes /\ Len(a.pend.routes) <= MaxRoutes
                   /\ Len(a.hosts) <= MaxHosts
\* state-level pieces of one builder step (kept primeless so that TLC attributes coverage to the named actions)
After(cl)   == Apply(app, cl, Len(calls) + 1)
CorsCalls   == Cardinality({k \in DOMAIN calls : calls[k].cors # <<>>})
CanDo(cl)   == /\ Len(calls) < MaxCalls
               /\ cl.cors # <<>> => CorsCalls < MaxCorsCalls
               /\ Enabled(app, cl) /\ WithinBounds(After(cl))
Stamped(cl) == Append(calls, [op |-> cl.op, pat |-> cl.pat, hk |-> cl.hk, hp |-> cl.hp, cors |-> cl.cors,
                              sid |-> TargetSid(app, cl)])

WithRoute         == \E p \in Pats, k \in HKinds : LET cl == Call("route", p, k, "", <<>>) IN
                       CanDo(cl) /\ app' = After(cl) /\ calls' = Stamped(cl)
WithCors          == \E c \in CorsCat : LET cl == Call("cors", "", "", "", c) IN
                       CanDo(cl) /\ app' = After(cl) /\ calls' = Stamped(cl)
WithCorsConfig    == \E p \in Pats, c \in CorsCat : LET cl == Call("config", p, "", "", c) IN
                       CanDo(cl) /\ app' = After(cl) /\ calls' = Stamped(cl)
SubNew            == LET cl == Call("subnew", "", "", "", <<>>) IN
                       CanDo(cl) /\ app' = After(cl) /\ calls' = Stamped(cl)
SubRoute          == \E p \in Pats, k \in HKinds : LET cl == Call("subroute", p, k, "", <<>>) IN
                       CanDo(cl) /\ app' = After(cl) /\ calls' = Stamped(cl)
SubCors           == \E c \in CorsCat : LET cl == Call("subcors", "", "", "", c) IN
                       CanDo(cl) /\ app' = After(cl) /\ calls' = Stamped(cl)
SubCorsConfig     == \E p \in Pats, c \in CorsCat : LET cl == Call("subconfig", p, "", "", c) IN
                       CanDo(cl) /\ app' = After(cl) /\ calls' = Stamped(cl)
WithHost          == \E hp \in HostPats : LET cl == Call("host", "", "", hp, <<>>) IN
                       CanDo(cl) /\ app' = After(cl) /\ calls' = Stamped(cl)
WithDefaultSubapp == LET cl == Call("defsub", "", "", "", <<>>) IN
                       CanDo(cl) /\ app' = After(cl) /\ calls' = Stamped(cl)

Next == \/ WithRoute \/ WithCors \/ WithCorsConfig \/ SubNew \/ SubRoute \/ SubCors \/ SubCorsConfig
        \/ WithHost \/ WithDefaultSubapp
Spec == Init /\ [][Next]_vars

(***************************************************************************)
(* The server side: get_handler and the two dispatch branches.             *)
(***************************************************************************)
MinOf(S) == CHOOSE i \in S : \A j \in S : i <= j
FindRoute(rs, x) == LET S == {i \in DOMAIN rs : RouteMatches(rs[i].pat, x)} IN IF S = {} THEN 0 ELSE MinOf(S)
FindHost(a, h)   == LET S == {i \in DOMAIN a.hosts : HostMatches(a.hosts[i].host, h)} IN IF S = {} THEN 0 ELSE MinOf(S)
Miss == [hit |-> FALSE, sub |-> 0, idx |-> 0]
GetHandler(a, rq) ==
  LET hi == IF rq.host = "" THEN 0 ELSE FindHost(a, rq.host)          \* only the FIRST matching sub-app is asked
      ri == IF hi = 0 THEN 0 ELSE FindRoute(a.hosts[hi].routes, rq.path)
      di == FindRoute(a.def.routes, rq.path)
  IN IF ri # 0 THEN [hit |-> TRUE, sub |-> hi, idx |-> ri]
     ELSE IF di # 0 THEN [hit |-> TRUE, sub |-> 0, idx |-> di]
     ELSE Miss
SubOf(a, s) == IF s = 0 THEN a.def ELSE a.hosts[s]
RouteOf(a, g) == SubOf(a, g.sub).routes[g.idx]

\* the header list of the answer (only its Access-Control-* entries matter here)
RespondHs(a, rq) ==
  LET g == GetHandler(a, rq) IN
  IF ~g.hit THEN (IF "ErrorGetsCors" \in Dev /\ a.def.cset THEN SetHeadersImpl(a.def.cors, <<>>) ELSE <<>>)
  ELSE LET r == RouteOf(a, g) IN
       IF rq.m = "OPTIONS"
       THEN (IF "OptionsNoCors" \in Dev THEN <<>>
             ELSE SetHeadersImpl(r.cors, IF "OptionsRunsHandler" \in Dev THEN HandlerHeaders(r.hk) ELSE <<>>))
       ELSE SetHeadersImpl(r.cors, HandlerHeaders(r.hk))
Respond(a, rq) ==
  LET g == GetHandler(a, rq) IN
  [status |-> IF ~g.hit THEN 404 ELSE IF rq.m = "OPTIONS" THEN 204 ELSE 200,
   ac |-> AC(RespondHs(a, rq)),
   at |-> IF g.hit /\ rq.m # "OPTIONS" THEN RouteOf(a, g).at ELSE 0]

(***************************************************************************)
(* The property.                                                           *)
(***************************************************************************)
MaxOf(S) == CHOOSE i \in S : \A j \in S : i >= j
\* the configuration the documentation promises for route r of the sub-app with id s, from the history alone
IntendedCors(cs, s, r) ==
  LET cand == { k \in DOMAIN cs : /\ cs[k].sid = s
                                  /\ \/ cs[k].op \in {"cors", "subcors"}
                                     \/ cs[k].op \in {"config", "subconfig"} /\ cs[k].pat = r.pat /\ k > r.at }
  IN IF cand = {} THEN EmptyCors ELSE MeaningOf(cs[MaxOf(cand)].cors)

ExpectedCorsHeaders(a, cs, rq) ==
  LET g == GetHandler(a, rq) IN
  IF ~g.hit THEN NoAC
  ELSE LET r == RouteOf(a, g)
           c == IntendedCors(cs, SubOf(a, g.sub).sid, r)
       IN IntentHeaders(c, IF rq.m = "OPTIONS" THEN NoAC ELSE AC(HandlerHeaders(r.hk)))
ExpectedStatus(a, rq) == IF ~GetHandler(a, rq).hit THEN 404 ELSE IF rq.m = "OPTIONS" THEN 204 ELSE 200
Expected(a, cs, rq) == [status |-> ExpectedStatus(a, rq), ac |-> ExpectedCorsHeaders(a, cs, rq),
                        at |-> IF GetHandler(a, rq).hit /\ rq.m # "OPTIONS" THEN RouteOf(a, GetHandler(a, rq)).at ELSE 0]

Requests == { [m |-> m, host |-> h, path |-> x, origin |-> o] : m \in ReqMethods, h \in ReqHosts, x \in ReqPaths, o \in ReqOrigins }

AllSubs(a) == {a.def} \cup {a.hosts[i] : i \in DOMAIN a.hosts} \cup (IF a.pon THEN {a.pend} ELSE {})

\* every route of every sub-app (served or still pending) carries the configuration the history promises
Inv_RouteCorsIntent ==
  \A sa \in AllSubs(app) : \A i \in DOMAIN sa.routes : sa.routes[i].cors = IntendedCors(calls, sa.sid, sa.routes[i])

\* the response to every request carries exactly the expected Access-Control-* headers (and status)
Inv_Response == \A rq \in Requests : Respond(app, rq) = Expected(app, calls, rq)

\* an unmatched request gets none
Inv_Unmatched == \A rq \in Requests : ~GetHandler(app, rq).hit => Respond(app, rq).ac = NoAC

\* a header the handler set itself is neither overridden nor duplicated; every other one appears at most once
Inv_HandlerWins ==
  \A rq \in Requests :
    LET g == GetHandler(app, rq) IN
    (g.hit /\ rq.m # "OPTIONS") =>
      LET own == AC(HandlerHeaders(RouteOf(app, g).hk))
          got == Respond(app, rq).ac
      IN /\ own.o # <<>> => got.o = own.o
         /\ own.m # <<>> => got.m = own.m
         /\ own.h # <<>> => got.h = own.h
         /\ got.c = own.c
         /\ own.o = <<>> => Len(got.o) <= 1
         /\ own.m = <<>> => Len(got.m) <= 1
         /\ own.h = <<>> => Len(got.h) <= 1

\* OPTIONS never runs the handler: the answer depends on the route's configuration only
Inv_OptionsRouteOnly ==
  \A rq \in Requests :
    LET g == GetHandler(app, rq) IN
    (g.hit /\ rq.m = "OPTIONS") => Respond(app, rq).ac = IntentHeaders(RouteOf(app, g).cors, NoAC)

(***************************************************************************)
(* THE STATEMENT ITSELF, policy-free (second level of judging).            *)
(* C01 says only: the response carries "the matched route's CORS headers". *)
(* Everything above is today's code and the crate docs, and is stricter.   *)
(* An observation that the model above cannot explain is judged here; what *)
(* is accepted here is spec drift, not a violation.  Named leniencies:     *)
(*   L-Status     status of the answer (204 / 200 for a preflight, ...) and *)
(*                which handler ran (`at`): not compared (C04 / HttpConn)  *)
(*   L-Unmatched  a request that matches no route: nothing is demanded     *)
(*   L-Tokens     a list value is compared as the SET of its tokens: lines *)
(*                of one name merged, split at ",", trimmed; separator,    *)
(*                order, repetition, one line or several are free; header  *)
(*                names inside Access-Control-Allow-Headers ignore case    *)
(*   L-Names      case / order of the header lines, any other header (incl.*)
(*                Access-Control-Allow-Credentials, Max-Age, Vary) free    *)
(*   L-MethodsAny wildcard methods: no header ("implied") or "*"           *)
(*   L-Echo       origins: the configured set, or (MDN's way) the request's*)
(*                Origin echoed when it is allowed / nothing when it is not*)
(*                or when the request has no Origin; "*" may be answered   *)
(*                by echoing the request's Origin                          *)
(*   L-Own        a name the route's handler sets itself may carry the     *)
(*                handler's value, the route's, or both (also on OPTIONS)  *)
(* What stays demanded: on a matched route the tokens of Allow-Origin /    *)
(* -Methods / -Headers are the route's configured ones (history-derived    *)
(* IntendedCors) - none missing, none that is not configured.              *)
(***************************************************************************)
Range(q) == {q[i] : i \in DOMAIN q}
LowerTable == [x \in {"Content-Type"} |-> "content-type"] @@ [x \in {"Authorization"} |-> "authorization"]
Lower(x) == IF x \in DOMAIN LowerTable THEN LowerTable[x] ELSE x
TokensOf(hs, n) == UNION {Range(hs[i].v) : i \in {j \in DOMAIN hs : hs[j].n = n}}
TokAC(hs) == [o |-> TokensOf(hs, ACO), m |-> TokensOf(hs, ACM), h |-> {Lower(t) : t \in TokensOf(hs, ACH)}]

RouteAltO(c, origin) ==
  IF c.ow THEN {{"*"}} \cup (IF origin # "" THEN {{origin}} ELSE {})
  ELSE IF c.ol # <<>> THEN {Range(c.ol)} \cup {IF origin # "" /\ origin \in Range(c.ol) THEN {origin} ELSE {}}
  ELSE {{}}
RouteAltM(c) == IF c.mw THEN {{}, {"*"}} ELSE {Range(c.ml)}
RouteAltH(c) == IF c.hw THEN {{"*"}} ELSE {{Lower(t) : t \in Range(c.hl)}}
WithOwn(alts, own) == IF own = {} THEN alts ELSE alts \cup {own} \cup {x \cup own : x \in alts}
AcceptSets(a, cs, rq) ==
  LET g == GetHandler(a, rq) IN
  IF ~g.hit THEN [free |-> TRUE, o |-> {}, m |-> {}, h |-> {}]
  ELSE LET r == RouteOf(a, g)
           c == IntendedCors(cs, SubOf(a, g.sub).sid, r)
           own == TokAC(HandlerHeaders(r.hk))
       IN [free |-> FALSE, o |-> WithOwn(RouteAltO(c, rq.origin), own.o), m |-> WithOwn(RouteAltM(c), own.m),
           h |-> WithOwn(RouteAltH(c), own.h)]
\* tok = [o, m, h]: the token sets observed
Acceptable(a, cs, rq, tok) ==
  LET A == AcceptSets(a, cs, rq) IN A.free \/ (tok.o \in A.o /\ tok.m \in A.m /\ tok.h \in A.h)

\* the code model is one of the behaviours the statement allows
Inv_Judge == \A rq \in Requests : Acceptable(app, calls, rq, TokAC(RespondHs(app, rq)))

\* the fold of the Cors builder equals the documented meaning of the chain (evaluated once, on the catalogue)
Inv_CorsValues == calls = <<>> => \A c \in CorsCat : WellFormedCorsOps(c) /\ BuildCors(c) = MeaningOf(c)

\* state-only form of Inv_Response for the history-free (VIEW) configuration: any number of calls
Inv_ResponseState ==
  \A rq \in Requests :
    LET g == GetHandler(app, rq) IN
    Respond(app, rq).ac = IF ~g.hit THEN NoAC
                          ELSE IntentHeaders(RouteOf(app, g).cors,
                                             IF rq.m = "OPTIONS" THEN NoAC ELSE AC(HandlerHeaders(RouteOf(app, g).hk)))
StripSub(sa) == [host |-> sa.host, cset |-> sa.cset, cors |-> sa.cors,
                 routes |-> [i \in DOMAIN sa.routes |-> [pat |-> sa.routes[i].pat, hk |-> sa.routes[i].hk, cors |-> sa.routes[i].cors]]]
StateView == <<StripSub(app.def), [i \in DOMAIN app.hosts |-> StripSub(app.hosts[i])], app.pon, StripSub(app.pend)>>

TypeOK == /\ app.pon \in BOOLEAN
          /\ Len(calls) <= MaxCalls
          /\ \A sa \in AllSubs(app) : \A i \in DOMAIN sa.routes : sa.routes[i].at \in 1..Len(calls)
          /\ ~app.pon => app.pend = NoSub
=============================================================================
