\* sensitivity: the plausible bug Dev = {OverrideHandler} MUST violate an invariant
CONSTANTS
  Pats = {"/a"}
  HKinds = {"plain", "ownO", "ownM", "ownH", "ownAll", "cred", "dupO"}
  HostPats = {"one.test"}
  CorsCat <- Cat6
  MaxCalls = 2
  MaxRoutes = 1
  MaxHosts = 0
  MaxCorsCalls = 1
  FullApi = TRUE
  ReqMethods = {"GET", "POST", "OPTIONS"}
  ReqHosts = {""}
  ReqPaths = {"/a", "/c"}
  ReqOrigins = {""}
  GenMinCalls = 0
  Dev = {"OverrideHandler"}
SPECIFICATION Spec
INVARIANTS TypeOK Inv_RouteCorsIntent Inv_Response Inv_Unmatched Inv_HandlerWins Inv_OptionsRouteOnly Inv_CorsValues
CHECK_DEADLOCK FALSE
