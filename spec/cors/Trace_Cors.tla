----------------------------- MODULE Trace_Cors -----------------------------
(* Code -> spec direction for the CORS part of C01. The harness builds random REAL apps (2..16 builder calls
   in a random interleaving, random Cors chains, 7 handler kinds, 5 route and 4 host patterns), runs them on
   loopback (threaded and tokio) and logs
       {"t":"app", "calls":[..builder calls in the order they were made..], ...}
       {"t":"req", "m", "host", "path", "got":{"status", "ac":{o,m,h,c,z}, "at"}}      (one per request sent)
   (every record carries every field). This module replays the log with Cors.tla's own operators:
     TrApp   folds the logged calls with Enabled / Apply / TargetSid (a call that the builder machine does not
             allow at that point makes the whole app record inexplicable);
     TrReq   compares the observation with Respond (the transcription of the dispatch) AND with Expected (the
             documented intent computed from the call history).
   Records that disagree are collected in `bad`; AllAgree fails at the end of the log and prints them. *)
EXTENDS Cors, Json, IOUtils

Rec == ndJsonDeserialize(IOEnv.TRACE)

VARIABLES l, bad, stats, okapp   \* stats: <<requests, with >=1 expected Access-Control header, OPTIONS hits, handler-set kept, misses>>
tvars == <<l, bad, stats, okapp>>

Bare(c) == Call(c.op, c.pat, c.hk, c.hp, c.cors)
RECURSIVE Fold(_, _, _, _)
\* returns [a, cs, ok]
Fold(a, cs, rest, ok) ==
  IF rest = <<>> \/ ~ok THEN [a |-> a, cs |-> cs, ok |-> ok]
  ELSE LET cl == Bare(Head(rest))
           fine == /\ cl.op \in Ops /\ Enabled(a, cl)
                   /\ (cl.op \in {"cors", "config", "subcors", "subconfig"}) => WellFormedCorsOps(cl.cors)
       IN IF ~fine THEN [a |-> a, cs |-> cs, ok |-> FALSE]
          ELSE Fold(Apply(a, cl, Len(cs) + 1),
                    Append(cs, [op |-> cl.op, pat |-> cl.pat, hk |-> cl.hk, hp |-> cl.hp, cors |-> cl.cors, sid |-> TargetSid(a, cl)]),
                    Tail(rest), TRUE)

TrInit == /\ app = NewApp /\ calls = <<>>
          /\ l = 1 /\ bad = <<>> /\ stats = <<0, 0, 0, 0, 0>> /\ okapp = FALSE
          /\ TLCSet(1, <<0>>) /\ TLCSet(2, <<>>)

TrApp == /\ l <= Len(Rec) /\ Rec[l].t = "app"
         /\ LET f == Fold(NewApp, <<>>, Rec[l].calls, TRUE) IN
            /\ app' = f.a /\ calls' = f.cs /\ okapp' = f.ok
            /\ bad' = IF f.ok \/ Len(bad) >= 20 THEN bad ELSE Append(bad, l)
         /\ l' = l + 1 /\ UNCHANGED stats

TrReq == /\ l <= Len(Rec) /\ Rec[l].t = "req"
         /\ LET rq == [m |-> Rec[l].m, host |-> Rec[l].host, path |-> Rec[l].path]
                e == Expected(app, calls, rq)
                g == GetHandler(app, rq)
                agree == okapp /\ Rec[l].got = Respond(app, rq) /\ Rec[l].got = e
                own == IF g.hit /\ rq.m # "OPTIONS" THEN AC(HandlerHeaders(RouteOf(app, g).hk)) ELSE NoAC
            IN /\ bad' = IF agree \/ Len(bad) >= 20 THEN bad ELSE Append(bad, l)
               /\ stats' = <<stats[1] + 1,
                             stats[2] + (IF e.ac # NoAC THEN 1 ELSE 0),
                             stats[3] + (IF g.hit /\ rq.m = "OPTIONS" THEN 1 ELSE 0),
                             stats[4] + (IF own.o # <<>> \/ own.m # <<>> \/ own.h # <<>> THEN 1 ELSE 0),
                             stats[5] + (IF g.hit THEN 0 ELSE 1)>>
         /\ l' = l + 1 /\ UNCHANGED <<app, calls, okapp>>

TrFinish == /\ l = Len(Rec) + 1
            /\ TLCSet(1, bad) /\ TLCSet(2, stats)
            /\ l' = l + 1 /\ UNCHANGED <<app, calls, bad, stats, okapp>>

TrNext == TrApp \/ TrReq \/ TrFinish
TrSpec == TrInit /\ [][TrNext]_<<vars, tvars>>

\* POSTCONDITION: the whole log was consumed and no record disagreed
AllAgree == LET b == TLCGet(1) IN
              \/ b = <<>> /\ PrintT(ToJson([stats |-> TLCGet(2)]))
              \/ PrintT(ToJson([rejected |-> [i \in 1..Len(b) |->
                     [line |-> b[i], rec |-> IF b[i] = 0 THEN Rec[1] ELSE Rec[b[i]]]]])) /\ FALSE
Consumed == l <= Len(Rec) + 2
=============================================================================
