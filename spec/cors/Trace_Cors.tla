----------------------------- MODULE Trace_Cors -----------------------------
(* Code -> spec direction for the CORS part of C01. The harness builds random REAL apps (2..16 builder calls
   in a random interleaving, random Cors chains, 7 handler kinds, 5 route and 4 host patterns), runs them on
   loopback (threaded and tokio) and logs
       {"t":"app", "calls":[..builder calls in the order they were made..], ...}
       {"t":"req", "m", "host", "path", "got":{"status", "ac":{o,m,h,c,z}, "at"}}      (one per request sent)
   (every record carries every field). This module replays the log with Cors.tla's own operators:
     TrApp   folds the logged calls with Enabled / Apply / TargetSid (a call that the builder machine does not
             allow at that point makes the whole app record inexplicable);
     TrReq   level 1: compares the observation (status, raw Access-Control-* lines, handler identity) with Respond
             (the transcription of the dispatch) AND with Expected (the documented intent from the call history);
             level 2, only when level 1 disagrees: judges the observed token sets against the statement alone
             (Cors!Acceptable, with its named leniencies). Accepted there = `drift` (the code no longer behaves as
             the code model says, but still carries the matched route's CORS headers); rejected = `bad`.
   An app record whose calls the builder machine cannot fold is a harness problem (`unfold`), not a verdict.
   AllAgree fails at the end of the log when `bad` or `unfold` is not empty and prints all three lists. *)
EXTENDS Cors, Json, IOUtils

Rec == ndJsonDeserialize(IOEnv.TRACE)

VARIABLES l, bad, drift, unfold, stats, okapp   \* stats: <<requests, with >=1 expected Access-Control header, OPTIONS hits, handler-set kept, misses>>
tvars == <<l, bad, drift, unfold, stats, okapp>>

Bare(c) == Call(c.op, c.pat, c.hk, c.hp, c.cors)
RECURSIVE Fold(_, _, _, _)
\* returns [a, cs, ok]
Fold(a, cs, rest, ok) ==
  IF rest = <<>> \/ ~ok THEN [a |-> a, cs |-> cs, ok |-> ok]
  ELSE LET cl == Bare(Head(rest))
           fine == /\ cl.op \in Ops /\ Enabled(a, cl)
                   /\ (cl.op \in {"cors", "config", "subcors", "subconfig"}) => WellFormedCorsOps(cl.cors)
       IN IF ~fine THEN [a |-> a, cs |-> cs, ok |-> FALSE]
          ELSE Fold(Apply(a, cl, Len(cs) + 1),
                    Append(cs, [op |-> cl.op, pat |-> cl.pat, hk |-> cl.hk, hp |-> cl.hp, cors |-> cl.cors, sid |-> TargetSid(a, cl)]),
                    Tail(rest), TRUE)

TrInit == /\ app = NewApp /\ calls = <<>>
          /\ l = 1 /\ bad = <<>> /\ drift = <<>> /\ unfold = <<>> /\ stats = <<0, 0, 0, 0, 0>> /\ okapp = FALSE
          /\ TLCSet(1, <<0>>) /\ TLCSet(2, <<>>) /\ TLCSet(3, <<>>) /\ TLCSet(4, <<>>)

TrApp == /\ l <= Len(Rec) /\ Rec[l].t = "app"
         /\ LET f == Fold(NewApp, <<>>, Rec[l].calls, TRUE) IN
            /\ app' = f.a /\ calls' = f.cs /\ okapp' = f.ok
            /\ unfold' = IF f.ok \/ Len(unfold) >= 20 THEN unfold ELSE Append(unfold, l)
         /\ l' = l + 1 /\ UNCHANGED <<stats, bad, drift>>

TrReq == /\ l <= Len(Rec) /\ Rec[l].t = "req"
         /\ LET rq == [m |-> Rec[l].m, host |-> Rec[l].host, path |-> Rec[l].path, origin |-> Rec[l].origin]
                e == Expected(app, calls, rq)
                g == GetHandler(app, rq)
                got == [status |-> Rec[l].got.status, ac |-> Rec[l].got.ac, at |-> Rec[l].got.at]
                tok == [o |-> Range(Rec[l].got.tok.o), m |-> Range(Rec[l].got.tok.m), h |-> Range(Rec[l].got.tok.h)]
                agree == got = Respond(app, rq) /\ got = e
                accepted == agree \/ Acceptable(app, calls, rq, tok)
                own == IF g.hit /\ rq.m # "OPTIONS" THEN AC(HandlerHeaders(RouteOf(app, g).hk)) ELSE NoAC
            IN /\ bad' = IF ~okapp \/ accepted \/ Len(bad) >= 20 THEN bad ELSE Append(bad, l)
               /\ drift' = IF ~okapp \/ agree \/ ~accepted \/ Len(drift) >= 20 THEN drift ELSE Append(drift, l)
               /\ stats' = <<stats[1] + 1,
                             stats[2] + (IF e.ac # NoAC THEN 1 ELSE 0),
                             stats[3] + (IF g.hit /\ rq.m = "OPTIONS" THEN 1 ELSE 0),
                             stats[4] + (IF own.o # <<>> \/ own.m # <<>> \/ own.h # <<>> THEN 1 ELSE 0),
                             stats[5] + (IF g.hit THEN 0 ELSE 1)>>
         /\ l' = l + 1 /\ UNCHANGED <<app, calls, okapp, unfold>>

TrFinish == /\ l = Len(Rec) + 1
            /\ TLCSet(1, bad) /\ TLCSet(2, stats) /\ TLCSet(3, drift) /\ TLCSet(4, unfold)
            /\ l' = l + 1 /\ UNCHANGED <<app, calls, bad, drift, unfold, stats, okapp>>

TrNext == TrApp \/ TrReq \/ TrFinish
TrSpec == TrInit /\ [][TrNext]_<<vars, tvars>>

\* POSTCONDITION: the whole log was consumed, every app record could be folded and no record was rejected by
\* the statement; records that only the code model rejects are printed as drift and do not fail it
Lines(b) == [i \in 1..Len(b) |-> [line |-> b[i], rec |-> IF b[i] = 0 THEN Rec[1] ELSE Rec[b[i]]]]
AllAgree == LET b == TLCGet(1) IN
              /\ PrintT(ToJson([drifted |-> Lines(TLCGet(3))]))
              /\ \/ b = <<>> /\ TLCGet(4) = <<>> /\ PrintT(ToJson([stats |-> TLCGet(2)]))
                 \/ PrintT(ToJson([rejected |-> Lines(b), unfoldable |-> Lines(TLCGet(4))])) /\ FALSE
Consumed == l <= Len(Rec) + 2
=============================================================================
