\* trace validation: TRACE=<ndjson log of cors random>
CONSTANTS
  Pats = {}
  HKinds = {}
  HostPats = {}
  CorsCat = {}
  MaxCalls = 1000000
  MaxRoutes = 1000000
  MaxHosts = 1000000
  MaxCorsCalls = 1000000
  FullApi = TRUE
  ReqMethods = {}
  ReqHosts = {}
  ReqPaths = {}
  ReqOrigins = {}
  Dev = {}
INIT TrInit
NEXT TrNext
INVARIANTS Consumed
POSTCONDITION AllAgree
CHECK_DEADLOCK FALSE
