------------------------------ MODULE MC_Cors ------------------------------
(* TLC-only definitions for Cors.tla: the Cors catalogues of the exhaustive configurations, the request
   vector and the vector generator (Gen_Cors*.cfg). *)
EXTENDS Cors, Json

O(f, a) == [f |-> f, a |-> a]
OA == "http://a.test"
OB == "https://b.test:8443"

\* a handful of Cors values that differ in every dimension (identity is what the builder machine needs)
K_new   == << O("new", "") >>                                               \* no header at all
K_wild  == << O("wildcard", "") >>                                          \* origin *, headers *, methods implied
K_list  == << O("new", ""), O("origin", OA), O("origin", OB), O("method", "GET"), O("method", "PUT"),
              O("header", "Content-Type"), O("header", "X-Token") >>        \* lists everywhere
K_one   == << O("new", ""), O("origin", OB), O("header", "authorization") >>  \* single origin, no methods
K_mix   == << O("new", ""), O("method", "DELETE"), O("wild_origin", ""), O("origin", OA), O("wild_methods", "") >>
K_wadd  == << O("wildcard", ""), O("origin", OA), O("method", "POST"), O("header", "x-api-key") >>   \* adds after wildcard: ignored
Cat1 == {K_list}
Cat2 == {K_list, K_wild}
Cat3 == {K_list, K_wild, K_new}
Cat4 == {K_list, K_one, K_mix, K_new}
Cat6 == {K_new, K_wild, K_list, K_one, K_mix, K_wadd}

\* every builder chain: a constructor followed by at most n further calls
CorsTail == { O("wild_origin", ""), O("wild_methods", ""), O("wild_headers", ""),
              O("origin", OA), O("origin", OB), O("method", "GET"), O("method", "PUT"),
              O("header", "Content-Type"), O("header", "X-Token") }
ChainsUpTo(n) == { <<c>> \o t : c \in {O("new", ""), O("wildcard", "")}, t \in UNION { [1..k -> CorsTail] : k \in 0..n } }
Chains2 == ChainsUpTo(2)
Chains3 == ChainsUpTo(3)

(***************************************************************************)
(* Generation: one JSON line per reachable builder history with the        *)
(* expected observation of every request of GenReqs (printed once first).  *)
(***************************************************************************)
CONSTANTS GenMinCalls      \* print only histories of at least this length (simulation mode prints full-length ones)
GenMethods == <<"GET", "OPTIONS", "POST">>
GenHosts   == <<"", "one.test", "three.test", "other.example">>
GenPaths   == <<"/a", "/a/x", "/c">>
GenOrigins == <<"", OA, "http://evil.test">>     \* the Origin header the harness sends with the request ("" = none)
GenReqs == [i \in 1..(Len(GenMethods) * Len(GenHosts) * Len(GenPaths)) |->
              LET n == i - 1 IN
              [m |-> GenMethods[(n % Len(GenMethods)) + 1],
               host |-> GenHosts[((n \div Len(GenMethods)) % Len(GenHosts)) + 1],
               path |-> GenPaths[(n \div (Len(GenMethods) * Len(GenHosts))) + 1],
               origin |-> GenOrigins[((n + (n \div Len(GenMethods))) % Len(GenOrigins)) + 1]]]

BareCalls == [i \in DOMAIN calls |-> [op |-> calls[i].op, pat |-> calls[i].pat, hk |-> calls[i].hk,
                                      hp |-> calls[i].hp, cors |-> calls[i].cors]]
\* exp: what today's code answers (strict); acc: what the statement alone accepts (AcceptSets, sets of token sets)
GenVector == [calls |-> BareCalls, exp |-> [i \in DOMAIN GenReqs |-> Expected(app, calls, GenReqs[i])],
              acc |-> [i \in DOMAIN GenReqs |-> AcceptSets(app, calls, GenReqs[i])]]
GenInit == Init /\ PrintT(ToJson([reqs |-> GenReqs]))
GenInv == Len(calls) >= GenMinCalls => PrintT(ToJson(GenVector))
=============================================================================
