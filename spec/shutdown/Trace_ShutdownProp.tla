------------------------- MODULE Trace_ShutdownProp -------------------------
(* The property C20 by itself, as a judge of a recorded scenario - independent of HOW run() is implemented.
   Shutdown.tla models this implementation (flag + wake-up connection + pool stop; tokio select!); a log that
   Shutdown.tla / Trace_Shutdown.tla cannot explain is re-examined here, so that an implementation that
   changes the order or the nature of its internal steps but keeps the property is reported as SPEC-DRIFT and
   not as a violation of C20, while everything the statement forbids still is a violation.  Same log format as
   Trace_Shutdown.tla; hook records are ignored, except that an Accept_Return(c) followed by a Dispatch record,
   both logged before the signal, is taken as evidence that connection c had been accepted and handed to a
   worker / task before the signal (a connection that is merely in the accept loop's hand when the signal
   arrives may be dropped: DESIGN 5a).

   A scenario satisfies C20 iff
     Returns      after the signal was sent, run returns within the harness's 1 s + 4 s + 15 s, whatever the
                  connections and handlers are doing: no Return_Timeout record (written before the harness lets
                  blocked handlers finish), the End record finds a Run_Return; run does not panic;
     PortFree     the address can be bound again at once after run returned (Rebind = 1; no record when another
                  process took the port), and a second run on the same address comes up (no Restart_Failed);
     ServingUntil until the signal is sent the server keeps serving normally: before the signal no connect is
                  refused, no connection with a complete unanswered request is ended by the server, no awaited
                  service fails to happen (Cli_Timeout / Await_Failed before the signal);
     NoTruncation a request received before the signal is answered completely: "received" = its handler was
                  entered before the signal, or it was complete on the wire before the signal on a connection
                  that had been taken on before the signal (Accept_Return + Dispatch hooks, or an earlier response on it; not
                  applied when the signal was sent concurrently from another thread).  For those requests the
                  client must not see the end of the connection, a truncated or corrupt response, or silence.
   Everything else is left open by the statement (DESIGN 5a): connections that arrive or are accepted after the
   signal may be dropped, idle connections may be closed, requests received after the signal may go unanswered.
   The replay is one deterministic forward pass per scenario (independent initial states). *)
EXTENDS Integers, Sequences, FiniteSets, TLC, Json, IOUtils

Rec == ndJsonDeserialize(IOEnv.TRACE)
N == Len(Rec)
CMax == 64
Cs == 0..CMax

VARIABLES l, sc, last, sent, async, returned, held, accB4, sentN, respN, mustN, bad
vars == <<l, sc, last, sent, async, returned, held, accB4, sentN, respN, mustN, bad>>

Init == \E i \in {k \in 1..N : Rec[k].ev = "Reset"} :
          /\ l = i + 1 /\ sc = Rec[i].sc /\ last = Rec[i].end
          /\ sent = FALSE /\ async = FALSE /\ returned = FALSE /\ held = 0
          /\ accB4 = [c \in Cs |-> FALSE]
          /\ sentN = [c \in Cs |-> 0] /\ respN = [c \in Cs |-> 0] /\ mustN = [c \in Cs |-> 0]
          /\ bad = <<>>

Max(a, b) == IF a > b THEN a ELSE b
Note(why) == IF Len(bad) >= 5 THEN bad ELSE Append(bad, [at |-> l, why |-> why])
C(e) == IF e.c \in Cs THEN e.c ELSE CMax

Step ==
  /\ l <= last
  /\ l' = l + 1 /\ UNCHANGED <<sc, last>>
  /\ LET e == Rec[l]
         c == C(e)
         first == e.ev = "Sig_Send" /\ ~sent
     IN
     /\ sent' = (sent \/ e.ev = "Sig_Send")
     /\ async' = (async \/ (first /\ e.k = "async"))
     /\ returned' = (returned \/ e.ev = "Run_Return")
     /\ held' = IF e.ev = "Accept_Return" THEN c ELSE IF e.ev = "Dispatch" THEN 0 ELSE held
     /\ accB4' = IF ~sent /\ e.ev \in {"Cli_Resp", "H_Read"} /\ e.c \in 1..CMax
                   THEN [accB4 EXCEPT ![c] = TRUE]
                   ELSE IF ~sent /\ e.ev = "Dispatch" /\ held \in 1..CMax
                     THEN [accB4 EXCEPT ![held] = TRUE] ELSE accB4
     /\ sentN' = IF e.ev = "Cli_SendRest" /\ e.k # "ws" THEN [sentN EXCEPT ![c] = @ + 1] ELSE sentN
     /\ respN' = IF e.ev = "Cli_Resp" THEN [respN EXCEPT ![c] = @ + 1] ELSE respN
     /\ mustN' = IF first /\ e.k # "async"
                   THEN [d \in Cs |-> IF accB4[d] THEN Max(mustN[d], sentN[d]) ELSE mustN[d]]
                   ELSE IF e.ev = "H_Read" /\ e.k # "ws" /\ ~sent
                     THEN [mustN EXCEPT ![c] = Max(@, sentN[c])]
                     ELSE mustN
     /\ bad' =
          IF e.ev = "Cli_Eof" /\ e.v = 0 /\ ~sent /\ respN[c] < sentN[c]
            THEN Note("ServingUntil: the server ended a connection with an unanswered complete request before the signal")
          ELSE IF e.ev = "Cli_Eof" /\ e.v = 0 /\ sent /\ respN[c] < mustN[c]
            THEN Note("NoTruncation: a request received before the signal got no response (connection ended)")
          ELSE IF e.ev = "Cli_Eof" /\ e.v # 0 /\ (~sent \/ respN[c] + 1 <= mustN[c])
            THEN Note("NoTruncation: the response to a request received before the signal is truncated or corrupt")
          ELSE IF e.ev = "Cli_Timeout" /\ (~sent \/ respN[c] < mustN[c])
            THEN Note("a response that had to come (served before the signal / request received before the signal) never came")
          ELSE IF e.ev = "Await_Failed" /\ ~sent
            THEN Note("ServingUntil: a request was not taken up by a free worker before the signal")
          ELSE IF e.ev = "Cli_Connect" /\ e.v = 0 /\ ~sent
            THEN Note("ServingUntil: a connect was refused before the signal")
          ELSE IF e.ev = "Run_Return" /\ e.v = 0
            THEN Note("Returns: run panicked or failed")
          ELSE IF e.ev = "Rebind" /\ e.v = 0
            THEN Note("PortFree: the address could not be bound again right after run returned")
          ELSE IF e.ev = "Restart_Failed"
            THEN Note("PortFree: a second run on the same address did not come up")
          ELSE IF e.ev = "Return_Timeout"
            THEN Note("Returns: run had not returned 1 s + 4 s + 15 s after the signal (handlers still blocked, connections still open)")
          ELSE IF e.ev = "End" /\ sent /\ ~returned
            THEN Note("Returns: run did not return after the signal (waited 1 s + 4 s + 15 s)")
          ELSE bad

Spec == Init /\ [][Step]_vars

Done == l = last + 1
Report == Done => IF bad = <<>> THEN PrintT(<<"ACC", sc>>)
                  ELSE PrintT(ToJson([judge |-> sc, bad |-> bad]))
=============================================================================
