INIT Init
NEXT Step
INVARIANT Report
CHECK_DEADLOCK FALSE
