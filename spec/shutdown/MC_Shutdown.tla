---------------------------- MODULE MC_Shutdown ----------------------------
(* Model-checking entry point for Shutdown (constants are given in the MC_Shutdown_*.cfg files). *)
EXTENDS Shutdown
=============================================================================
