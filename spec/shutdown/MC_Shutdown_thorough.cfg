CONSTANTS
  Clients = {1, 2, 3}
  MaxWorkers = 2
  Runtimes = {"threaded", "tokio"}
  MaxReq = 1
  Kinds = {"close", "keep"}
  SigTwice = FALSE
  Dev = {}
  Faults = {}
SPECIFICATION Spec
INVARIANTS TypeOK Inv_PortFree Inv_ServingBefore Inv_NoTruncation Inv_Owned Inv_DispatchedKept Inv_WakeUnserved
PROPERTIES Live_RunReturns Live_Accepts
CHECK_DEADLOCK FALSE
