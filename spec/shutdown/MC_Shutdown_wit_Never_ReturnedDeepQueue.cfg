CONSTANTS
  Clients = {1, 2, 3}
  MaxWorkers = 1
  Runtimes = {"threaded"}
  MaxReq = 1
  Kinds = {"keep"}
  SigTwice = FALSE
  Dev = {}
  Faults = {}
SPECIFICATION Spec
INVARIANTS Never_ReturnedDeepQueue
CHECK_DEADLOCK FALSE
