CONSTANTS
  Clients = {1, 2, 3}
  MaxWorkers = 1
  Runtimes = {"threaded"}
  MaxReq = 1
  Kinds = {"keep"}
  SigTwice = FALSE
  Dev = {"BoundedQueueCap"}
  Faults = {}
SPECIFICATION Spec
PROPERTIES Live_RunReturns
CHECK_DEADLOCK FALSE
