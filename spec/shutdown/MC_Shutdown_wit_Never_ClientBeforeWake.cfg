CONSTANTS
  Clients = {1, 2}
  MaxWorkers = 1
  Runtimes = {"threaded", "tokio"}
  MaxReq = 1
  Kinds = {"close", "keep", "ws"}
  SigTwice = FALSE
  Dev = {}
  Faults = {}
SPECIFICATION Spec
INVARIANTS Never_ClientBeforeWake
CHECK_DEADLOCK FALSE
