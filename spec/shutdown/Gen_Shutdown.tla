--------------------------- MODULE Gen_Shutdown ----------------------------
(* TLC-only helpers for Shutdown: behaviour generation (spec -> code, method D).  GenNext is Next with a
   history variable that records the label of every step; a behaviour ends when run has returned or
   MaxLen steps were taken, and is printed as one JSON line.  Run with -simulate (seeded by VERIF_SEED). *)
EXTENDS Shutdown, Json

CONSTANTS MaxLen, SigAfter
VARIABLE hist

Lab(a, c, k) == [a |-> a, c |-> c, k |-> k]
GenInit == Init /\ hist = <<>>
GenStop == spc = "returned" \/ Len(hist) >= MaxLen

GenNext ==
  /\ ~GenStop
  /\ \/ Len(hist) >= SigAfter /\ Sig_Send /\ hist' = Append(hist, Lab("Sig_Send", -1, ""))
     \/ Sig_Again /\ hist' = Append(hist, Lab("Sig_Again", -1, ""))
     \/ \E c \in Clients :
          \/ Cli_Connect(c) /\ hist' = Append(hist, Lab("Cli_Connect", c, ""))
          \/ Cli_SendHalf(c) /\ hist' = Append(hist, Lab("Cli_SendHalf", c, ""))
          \/ Cli_Close(c) /\ hist' = Append(hist, Lab("Cli_Close", c, ""))
          \/ \E k \in Kinds : Cli_SendRest(c, k) /\ hist' = Append(hist, Lab("Cli_SendRest", c, k))
     \/ Worker_Take /\ hist' = Append(hist, Lab("Worker_Take", -1, ""))
     \/ Worker_Disc /\ hist' = Append(hist, Lab("Worker_Disc", -1, ""))
     \/ \E c \in Conns :
          \/ H_Read(c) /\ hist' = Append(hist, Lab("H_Read", c, ""))
          \/ H_Finish(c) /\ hist' = Append(hist, Lab("H_Finish", c, ""))
          \/ H_Write(c) /\ hist' = Append(hist, Lab("H_Write", c, ""))
          \/ H_Eof(c) /\ hist' = Append(hist, Lab("H_Eof", c, ""))
     \/ Accept_Return /\ hist' = Append(hist, Lab("Accept_Return", cur', ""))
     \/ Flag_Read /\ hist' = Append(hist, Lab("Flag_Read", IF flag THEN 1 ELSE 0, ""))
     \/ Dispatch /\ hist' = Append(hist, Lab("Dispatch", -1, ""))
     \/ Loop_Exit /\ hist' = Append(hist, Lab("Loop_Exit", -1, ""))
     \/ Pool_Stop /\ hist' = Append(hist, Lab("Pool_Stop", -1, ""))
     \/ Closure_Drop /\ hist' = Append(hist, Lab("Closure_Drop", -1, ""))
     \/ Sig_Recv /\ hist' = Append(hist, Lab("Sig_Recv", -1, ""))
     \/ Flag_Set /\ hist' = Append(hist, Lab("Flag_Set", -1, ""))
     \/ Wake_Connect /\ hist' = Append(hist, Lab("Wake_Connect", -1, ""))
     \/ Join_Return /\ hist' = Append(hist, Lab("Join_Return", -1, ""))

\* printed once per behaviour, at its last state
GenInv == GenStop =>
  PrintT(ToJson([rt |-> rt, nw |-> nw, steps |-> hist,
                 final |-> [cs |-> [c \in Clients |-> cs[c]], served |-> [c \in Clients |-> served[c]],
                            spc |-> spc, sent |-> sent]]))
=============================================================================
