CONSTANTS
  Clients = {1, 2}
  MaxWorkers = 1
  Runtimes = {"threaded"}
  MaxReq = 1
  Kinds = {"close", "keep", "ws"}
  SigTwice = FALSE
  Dev = {"AbortOnStop"}
SPECIFICATION Spec
INVARIANTS Inv_NoTruncation
CHECK_DEADLOCK FALSE
