CONSTANTS
  Clients = {1, 2}
  MaxWorkers = 2
  Runtimes = {"threaded", "tokio"}
  MaxReq = 1
  Kinds = {"close", "keep"}
  SigTwice = FALSE
  Dev = {}
  Faults = {"nofd"}
SPECIFICATION Spec
INVARIANTS TypeOK Inv_PortFree Inv_ServingBefore Inv_NoTruncation Inv_Owned Inv_DispatchedKept Inv_WakeUnserved
PROPERTIES Live_RunReturns
CHECK_DEADLOCK FALSE
