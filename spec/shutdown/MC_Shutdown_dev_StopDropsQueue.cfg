CONSTANTS
  Clients = {1, 2}
  MaxWorkers = 1
  Runtimes = {"threaded"}
  MaxReq = 1
  Dev = {"StopDropsQueue"}
SPECIFICATION Spec
INVARIANTS Inv_DispatchedKept
CHECK_DEADLOCK FALSE
