CONSTANTS
  Clients = {1, 2}
  MaxWorkers = 1
  Runtimes = {"threaded"}
  MaxReq = 1
  Kinds = {"close", "keep", "ws"}
  SigTwice = FALSE
  Dev = {"StopDropsQueue"}
  Faults = {}
SPECIFICATION Spec
INVARIANTS Inv_DispatchedKept
CHECK_DEADLOCK FALSE
