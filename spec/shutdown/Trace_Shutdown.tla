--------------------------- MODULE Trace_Shutdown ---------------------------
(* Code -> spec direction for C20 (method C).  The harness (harness/src/bin/shutdown, harness-tokio/src/bin/
   shutdown.rs) runs the real App::run, and records
     - the hook points of `run` (Accept_Return, Flag_Read, Dispatch, Loop_Exit, Pool_Stop on the accept
       thread; Sig_Recv, Flag_Set, Wake_Connect on the thread that called run) and Run_Return,
     - what its own clients and route handlers do and see (Cli_*, H_Read, H_Finish),
     - its observations of the port (Obs_Closed: no LISTEN socket; Rebind(v)) and the final End,
   each under one mutex, in one sequence per scenario.  The file holds many scenarios (a Reset record starts
   each one).  EVERY SCENARIO IS AN INDEPENDENT INITIAL STATE: TLC explores, per scenario, the ways the log can
   be explained as a behaviour of Shutdown.tla and prints <<"ACC", sc>> when one explanation consumes the
   whole log.  The driver subtracts the accepted scenarios from the scenarios in the file; an inexplicable log
   cannot disturb the validation of the others.

   * every record is mapped to the action of Shutdown with the logged arguments bound;
   * steps of the code without a hook behind them are composed as silent actions: the pool / handler
     steps Worker_Take, Worker_Disc, H_Write, H_Eof are taken eagerly and deterministically (they only ever
     enable later events, so taking them as early as possible loses no behaviour); Closure_Drop and tokio's
     Loop_Exit happen once per scenario, at any point;
   * a hook reports an operation AFTER it happened (an atomic store, a connect, an accept), so another
     thread may log a consequence first.  The action of a record may therefore be executed early, before the
     log reaches it (set E = records executed early; when the log reaches them they are skipped).  Partial-order
     reduction: early execution is only tried immediately before a record that DEPENDS on it (same FIFO, same
     flag, dispatch before the handler runs, drop before the client sees the end) - independent records
     commute, so nothing is lost - and at most MaxEarly records are ahead of the log at any time.
   * Cli_Timeout (an expected response never came), a truncated response (Cli_Eof with v # 0) and unknown
     records have no action: they are inexplicable.  End demands that the accept loop and the run thread are
     not able to move any more (the harness waited 1 s + 4 s + 15 s) and that a signalled run has returned.

   The postcondition prints, per scenario, the furthest record reached (for the diagnosis of the rejected
   ones).  All invariants of Shutdown are evaluated in every visited state. *)
EXTENDS Shutdown, Json, IOUtils

Rec == ndJsonDeserialize(IOEnv.TRACE)
N == Len(Rec)
NS == Rec[N].sc                  \* scenarios are numbered 1..NS

VARIABLES l, E, got, sc, last
tvars == <<vars, l, E, got, sc, last>>

Window == 100000   \* the whole rest of the scenario: how long a thread is descheduled before its hook logs is not bounded
MaxEarly == 3

\* a executed before b although b is logged first: only worth trying when the two do not commute
Dep(a, b) ==
  \* FIFO of the backlog: the harness connects its clients one after the other (their connects are ordered as
  \* logged); only the wake-up connection of the run thread can overtake or be overtaken, and an accept can be
  \* logged before the connect it accepted
  \/ a.ev = "Cli_Connect" /\ b.ev = "Accept_Return" /\ a.c = b.c
  \/ a.ev = "Cli_Connect" /\ b.ev = "Wake_Connect"
  \* a connect that succeeded just before the listener was closed (silent Closure_Drop) but is logged after run returned
  \/ a.ev = "Cli_Connect" /\ b.ev = "Run_Return"
  \/ a.ev \in {"Sig_Recv", "Flag_Set", "Wake_Connect"} /\ b.ev = "Cli_Connect"
  \/ a.ev \in {"Sig_Recv", "Flag_Set", "Wake_Connect"} /\ b.ev = "Accept_Return" /\ b.c = WAKE
  \* the flag: store and load race
  \/ a.ev \in {"Sig_Recv", "Flag_Set"} /\ b.ev = "Flag_Read"
  \/ a.ev = "Flag_Read" /\ b.ev = "Flag_Set"
  \* execute()/spawn() is reported after the job may already be running; the drop after the client saw it
  \/ a.ev = "Dispatch" /\ b.ev = "H_Read"
  \/ a.ev = "Loop_Exit" /\ b.ev = "Cli_Eof"
  \* descriptor exhaustion: accept() fails as soon as the table is full; the harness logs its own observation of the
  \* full table (Fd_Exhaust) afterwards
  \/ a.ev = "Fd_Exhaust" /\ b.ev = "Accept_Error"

InitWith(r, n) ==
  /\ rt = r /\ nw = n
  /\ apc = "accept" /\ cur = NONE
  /\ spc = IF r = "threaded" THEN "recv" ELSE "join"
  /\ chan = FALSE /\ sent = FALSE /\ flag = FALSE
  /\ listener = "open" /\ backlog = <<>> /\ nofd = FALSE
  /\ queue = <<>> /\ alive = n /\ busy = {} /\ pooldrop = FALSE
  /\ cs = [c \in Conns |-> "none"]
  /\ inbuf = [c \in Conns |-> "empty"]
  /\ kind = [c \in Conns |-> "close"]
  /\ wr = [c \in Conns |-> 0]
  /\ ceof = [c \in Conns |-> FALSE]
  /\ nreq = [c \in Conns |-> 0]
  /\ reqB4 = [c \in Conns |-> FALSE]
  /\ served = [c \in Conns |-> 0]
  /\ trunc = {}
  /\ got = [c \in Conns |-> 0]

TInit == \E i \in {k \in 1..N : Rec[k].ev = "Reset"} :
           /\ InitWith(Rec[i].k, Rec[i].v)
           /\ l = i + 1 /\ E = {} /\ sc = Rec[i].sc /\ last = Rec[i].end

(* ----------------------------------------------------------------- silent steps *)
G_Take == rt = "threaded" /\ queue # <<>> /\ Idle
G_Disc == rt = "threaded" /\ pooldrop /\ queue = <<>> /\ Idle /\ alive > 0
G_Write(c) == cs[c] = "write"
G_Eof(c) == cs[c] \in {"read", "ws"} /\ ceof[c] /\ inbuf[c] # "full"
EagerEnabled == G_Take \/ G_Disc \/ (\E c \in Conns : G_Write(c) \/ G_Eof(c))
EagerStep ==
  IF G_Take THEN Worker_Take
  ELSE IF G_Disc THEN Worker_Disc
  ELSE IF \E c \in Conns : G_Write(c) THEN H_Write(CHOOSE c \in Conns : G_Write(c))
  ELSE H_Eof(CHOOSE c \in Conns : G_Eof(c))

FreeSilent == Closure_Drop \/ (rt = "tokio" /\ Loop_Exit)

(* ----------------------------------------------------------------- records -> actions *)
\* the server side has already ended this connection: a client may still write into it or close it
Gone(c) == cs[c] \in Unserved \cup {"closed"}

\* a real client may close at any time (the model's Cli_Close excludes "while its own complete request is
\* unanswered" only to keep the state space small)
Trace_Close(c) == /\ ceof' = [ceof EXCEPT ![c] = TRUE]
                  /\ UNCHANGED <<cfgVars, aVars, sVars, kVars, pVars, cs, inbuf, kind, wr, nreq, hVars>>

Act(e) ==
  \/ e.ev = "Sig_Send" /\ e.k # "again" /\ Sig_Send /\ UNCHANGED got
  \* the second signal: logged before it is sent, so the run thread may or may not have taken the first one yet
  \/ e.ev = "Sig_Send" /\ e.k = "again" /\ sent /\ UNCHANGED got
       /\ IF rt = "threaded" /\ ~chan /\ spc # "recv" THEN Sig_Again ELSE UNCHANGED vars
  \/ e.ev = "Sig_Recv" /\ Sig_Recv /\ UNCHANGED got
  \/ e.ev = "Flag_Set" /\ Flag_Set /\ UNCHANGED got
  \/ e.ev = "Wake_Connect" /\ Wake_Connect /\ UNCHANGED got
  \/ e.ev = "Run_Return" /\ e.v = 1 /\ Join_Return /\ UNCHANGED got
  \/ e.ev = "Accept_Return" /\ e.c \in Conns /\ Accept_Return /\ cur' = e.c /\ UNCHANGED got
  \* the harness logs the first failed accept of a scenario and the one whose Flag_Read saw the flag set; the
  \* (Accept_Error, Flag_Read = 0) rounds in between - millions, the loop spins - are counted, not logged
  \/ e.ev = "Accept_Error" /\ Accept_Error /\ UNCHANGED got
  \/ e.ev = "Fd_Exhaust" /\ Fd_Exhaust /\ UNCHANGED got
  \* (the harness ends the fault when run has returned, or when it gave up waiting for that)
  \/ e.ev = "Fd_Recover" /\ UNCHANGED got /\ Fd_End
  \/ e.ev = "Flag_Read" /\ Flag_Read /\ ((apc' = "exit") <=> (e.v = 1)) /\ UNCHANGED got
  \/ e.ev = "Dispatch" /\ Dispatch /\ UNCHANGED got
  \/ e.ev = "Loop_Exit" /\ rt = "threaded" /\ Loop_Exit /\ UNCHANGED got
  \/ e.ev = "Pool_Stop" /\ Pool_Stop /\ UNCHANGED got
  \/ e.ev = "Cli_Connect" /\ e.c \in Clients /\ Cli_Connect(e.c) /\ ((cs'[e.c] = "backlog") <=> (e.v = 1)) /\ UNCHANGED got
  \/ e.ev = "Cli_SendHalf" /\ e.c \in Clients /\ UNCHANGED got
       /\ IF Connected(e.c) THEN Cli_SendHalf(e.c) ELSE Gone(e.c) /\ UNCHANGED vars
  \/ e.ev = "Cli_SendRest" /\ e.c \in Clients /\ UNCHANGED got
       /\ IF Connected(e.c) THEN Cli_SendRest(e.c, e.k) ELSE Gone(e.c) /\ UNCHANGED vars
  \/ e.ev = "Cli_Close" /\ e.c \in Clients /\ UNCHANGED got
       /\ IF (Connected(e.c) \/ cs[e.c] \in {"ws", "run", "write"}) /\ ~ceof[e.c]
            THEN Trace_Close(e.c) ELSE UNCHANGED vars
  \/ e.ev = "H_Read" /\ e.c \in Clients /\ ((e.k = "ws") <=> (kind[e.c] = "ws")) /\ H_Read(e.c) /\ UNCHANGED got
  \/ e.ev = "H_Finish" /\ e.c \in Clients /\ H_Finish(e.c) /\ UNCHANGED got
  \/ e.ev = "Cli_Resp" /\ e.c \in Clients /\ got[e.c] < served[e.c]
       /\ got' = [got EXCEPT ![e.c] = @ + 1] /\ UNCHANGED vars
  \/ e.ev = "Cli_Eof" /\ e.c \in Clients /\ e.v = 0 /\ cs[e.c] \in {"closed", "dropped", "reset"}
       /\ got[e.c] = served[e.c] /\ UNCHANGED <<vars, got>>
  \/ e.ev = "Rebind" /\ spc = "returned" /\ ((e.v = 1) <=> (listener = "closed")) /\ UNCHANGED <<vars, got>>
  \/ e.ev = "Obs_Closed" /\ listener = "closed" /\ UNCHANGED <<vars, got>>
  \/ e.ev = "End" /\ ~FairEnabled /\ (sent => spc = "returned") /\ UNCHANGED <<vars, got>>

EarlyOK(j) ==
  /\ l \notin E /\ j \notin E /\ Cardinality(E) < MaxEarly
  /\ Dep(Rec[j], Rec[l])
  /\ Rec[j].pv < l \/ Rec[j].pv \in E
  \* the harness connects its clients one after the other: their connects happen in the order they are logged
  \* (pc = the previous Cli_Connect record), so only the next connect(s) in that order can be ahead of the log
  /\ Rec[j].pc < l \/ Rec[j].pc \in E

Consume ==
  IF l \in E
    THEN UNCHANGED <<vars, got>> /\ E' = E \ {l} /\ l' = l + 1
    ELSE Act(Rec[l]) /\ l' = l + 1 /\ E' = E

TNext ==
  /\ l <= last
  /\ UNCHANGED <<sc, last>>
  /\ IF EagerEnabled
       THEN EagerStep /\ UNCHANGED <<l, E, got>>
       ELSE \/ FreeSilent /\ UNCHANGED <<l, E, got>>
            \/ \E j \in (l + 1)..(IF l + Window < last THEN l + Window ELSE last) :
                  EarlyOK(j) /\ Act(Rec[j]) /\ E' = E \cup {j} /\ l' = l
            \/ Consume

TSpec == TInit /\ [][TNext]_tvars

\* furthest record reached per scenario, for the diagnosis
ASSUME \A i \in 1..NS : TLCSet(100 + i, 0)
Track == TLCSet(100 + sc, IF l > TLCGet(100 + sc) THEN l ELSE TLCGet(100 + sc))

\* an explanation consumed the whole log of scenario sc
Done == l = last + 1
Report == Done => PrintT(<<"ACC", sc>>)

Post == PrintT(ToJson([far |-> [i \in 1..NS |-> TLCGet(100 + i)]]))
=============================================================================
