--------------------------- MODULE Trace_Shutdown ---------------------------
(* Code -> spec direction for C20 (method C).  The harness (harness/src/bin/shutdown, harness-tokio/src/bin/
   shutdown.rs) runs the real App::run, and records
     - the hook points of `run` (Accept_Return, Flag_Read, Dispatch, Loop_Exit, Pool_Stop on the accept
       thread; Sig_Recv, Flag_Set, Wake_Connect on the thread that called run) and Run_Return,
     - what its own clients and route handlers do and see (Cli_*, H_Read, H_Finish),
     - its observations of the port (Obs_Closed: no LISTEN socket; Rebind(v)) and the final End,
   each under one mutex, in one sequence.  TLC checks that the sequence is a behaviour of Shutdown.tla:

   * every record is mapped to the action of Shutdown with the logged arguments bound;
   * steps of the code without a hook behind them are composed as silent actions: the pool / handler
     steps Worker_Take, Worker_Disc, H_Write, H_Eof are taken eagerly (they only ever enable later
     events, so taking them as early as possible loses no behaviour), Closure_Drop and tokio's
     Loop_Exit are taken at any point;
   * a hook reports an operation AFTER it happened (an atomic store, a connect, an accept), so another
     thread may log a consequence first.  The action of a record may therefore be executed early: at any
     point after the previous record of the same thread has been consumed (set E = records executed
     early; when the log reaches them they are skipped).
   * Cli_Timeout (an expected response never came) and unknown records have no action: they are
     inexplicable.  End demands that the accept loop and the run thread are not able to move any more
     (the harness waited 1 s + 4 s + 15 s) and that a signalled run has returned.

   Acceptance: some path consumes the whole file (invariant NotAccepted is VIOLATED = accepted).  When TLC
   finishes without that, the postcondition prints the furthest record reached and the record that could
   not be explained.  All invariants of Shutdown are evaluated in every visited state. *)
EXTENDS Shutdown, Json, IOUtils

Rec == ndJsonDeserialize(IOEnv.TRACE)
N == Len(Rec)

VARIABLES l, E, got
tvars == <<vars, l, E, got>>

EarlyEvents == {"Accept_Return", "Flag_Read", "Dispatch", "Loop_Exit", "Pool_Stop",
                "Sig_Recv", "Flag_Set", "Wake_Connect", "Cli_Connect"}
Window == 40
MaxEarly == 3

ResetTo(r, n) ==
  /\ rt' = r /\ nw' = n
  /\ apc' = "accept" /\ cur' = NONE
  /\ spc' = IF r = "threaded" THEN "recv" ELSE "join"
  /\ chan' = FALSE /\ sent' = FALSE /\ flag' = FALSE
  /\ listener' = "open" /\ backlog' = <<>>
  /\ queue' = <<>> /\ alive' = n /\ busy' = {} /\ pooldrop' = FALSE
  /\ cs' = [c \in Conns |-> "none"]
  /\ inbuf' = [c \in Conns |-> "empty"]
  /\ kind' = [c \in Conns |-> "close"]
  /\ wr' = [c \in Conns |-> 0]
  /\ ceof' = [c \in Conns |-> FALSE]
  /\ nreq' = [c \in Conns |-> 0]
  /\ reqB4' = [c \in Conns |-> FALSE]
  /\ served' = [c \in Conns |-> 0]
  /\ trunc' = {}
  /\ got' = [c \in Conns |-> 0]

TInit ==
  /\ rt = "threaded" /\ nw = 1 /\ apc = "accept" /\ cur = NONE /\ spc = "recv"
  /\ chan = FALSE /\ sent = FALSE /\ flag = FALSE /\ listener = "open" /\ backlog = <<>>
  /\ queue = <<>> /\ alive = 1 /\ busy = {} /\ pooldrop = FALSE
  /\ cs = [c \in Conns |-> "none"] /\ inbuf = [c \in Conns |-> "empty"] /\ kind = [c \in Conns |-> "close"]
  /\ wr = [c \in Conns |-> 0] /\ ceof = [c \in Conns |-> FALSE] /\ nreq = [c \in Conns |-> 0]
  /\ reqB4 = [c \in Conns |-> FALSE] /\ served = [c \in Conns |-> 0] /\ trunc = {}
  /\ l = 1 /\ E = {} /\ got = [c \in Conns |-> 0]

(* ----------------------------------------------------------------- silent steps *)
G_Take == rt = "threaded" /\ queue # <<>> /\ Idle
G_Disc == rt = "threaded" /\ pooldrop /\ queue = <<>> /\ Idle /\ alive > 0
G_Write(c) == cs[c] = "write"
G_Eof(c) == cs[c] \in {"read", "ws"} /\ ceof[c] /\ inbuf[c] # "full"
EagerEnabled == G_Take \/ G_Disc \/ (\E c \in Conns : G_Write(c) \/ G_Eof(c))
EagerStep ==
  IF G_Take THEN Worker_Take
  ELSE IF G_Disc THEN Worker_Disc
  ELSE IF \E c \in Conns : G_Write(c) THEN H_Write(CHOOSE c \in Conns : G_Write(c))
  ELSE H_Eof(CHOOSE c \in Conns : G_Eof(c))

FreeSilent == Closure_Drop \/ (rt = "tokio" /\ Loop_Exit)

(* ----------------------------------------------------------------- records -> actions *)
\* the server side has already ended this connection: a client may still write into it or close it
Gone(c) == cs[c] \in Unserved \cup {"closed"}

\* a real client may close at any time (the model's Cli_Close excludes "while its own complete request is
\* unanswered" only to keep the state space small)
Trace_Close(c) == /\ ceof' = [ceof EXCEPT ![c] = TRUE]
                  /\ UNCHANGED <<cfgVars, aVars, sVars, kVars, pVars, cs, inbuf, kind, wr, nreq, hVars>>

Act(e) ==
  \/ e.ev = "Sig_Send" /\ Sig_Send /\ UNCHANGED got
  \/ e.ev = "Sig_Recv" /\ Sig_Recv /\ UNCHANGED got
  \/ e.ev = "Flag_Set" /\ Flag_Set /\ UNCHANGED got
  \/ e.ev = "Wake_Connect" /\ Wake_Connect /\ UNCHANGED got
  \/ e.ev = "Run_Return" /\ e.v = 1 /\ Join_Return /\ UNCHANGED got
  \/ e.ev = "Accept_Return" /\ e.c \in Conns /\ Accept_Return /\ cur' = e.c /\ UNCHANGED got
  \/ e.ev = "Flag_Read" /\ Flag_Read /\ ((apc' = "exit") <=> (e.v = 1)) /\ UNCHANGED got
  \/ e.ev = "Dispatch" /\ Dispatch /\ UNCHANGED got
  \/ e.ev = "Loop_Exit" /\ rt = "threaded" /\ Loop_Exit /\ UNCHANGED got
  \/ e.ev = "Pool_Stop" /\ Pool_Stop /\ UNCHANGED got
  \/ e.ev = "Cli_Connect" /\ e.c \in Clients /\ Cli_Connect(e.c) /\ ((cs'[e.c] = "backlog") <=> (e.v = 1)) /\ UNCHANGED got
  \/ e.ev = "Cli_SendHalf" /\ e.c \in Clients /\ UNCHANGED got
       /\ IF Connected(e.c) THEN Cli_SendHalf(e.c) ELSE Gone(e.c) /\ UNCHANGED vars
  \/ e.ev = "Cli_SendRest" /\ e.c \in Clients /\ UNCHANGED got
       /\ IF Connected(e.c) THEN Cli_SendRest(e.c, e.k) ELSE Gone(e.c) /\ UNCHANGED vars
  \/ e.ev = "Cli_Close" /\ e.c \in Clients /\ UNCHANGED got
       /\ IF (Connected(e.c) \/ cs[e.c] \in {"ws", "run", "write"}) /\ ~ceof[e.c]
            THEN Trace_Close(e.c) ELSE UNCHANGED vars
  \/ e.ev = "H_Read" /\ e.c \in Clients /\ ((e.k = "ws") <=> (kind[e.c] = "ws")) /\ H_Read(e.c) /\ UNCHANGED got
  \/ e.ev = "H_Finish" /\ e.c \in Clients /\ H_Finish(e.c) /\ UNCHANGED got
  \/ e.ev = "Cli_Resp" /\ e.c \in Clients /\ got[e.c] < served[e.c]
       /\ got' = [got EXCEPT ![e.c] = @ + 1] /\ UNCHANGED vars
  \/ e.ev = "Cli_Eof" /\ e.c \in Clients /\ e.v = 0 /\ cs[e.c] \in {"closed", "dropped", "reset"}
       /\ got[e.c] = served[e.c] /\ UNCHANGED <<vars, got>>
  \/ e.ev = "Rebind" /\ spc = "returned" /\ ((e.v = 1) <=> (listener = "closed")) /\ UNCHANGED <<vars, got>>
  \/ e.ev = "Obs_Closed" /\ listener = "closed" /\ UNCHANGED <<vars, got>>
  \/ e.ev = "End" /\ ~FairEnabled /\ (sent => spc = "returned") /\ UNCHANGED <<vars, got>>

EarlyOK(j) ==
  /\ j \notin E /\ Cardinality(E) < MaxEarly
  /\ Rec[j].ev \in EarlyEvents
  /\ Rec[j].sc = Rec[l].sc
  /\ Rec[j].pv < l

Consume ==
  LET e == Rec[l] IN
  IF e.ev = "Reset"
    THEN E = {} /\ ResetTo(e.k, e.v) /\ l' = l + 1 /\ E' = E
    ELSE IF l \in E
      THEN UNCHANGED <<vars, got>> /\ E' = E \ {l} /\ l' = l + 1
      ELSE Act(e) /\ l' = l + 1 /\ E' = E

TNext ==
  IF EagerEnabled
    THEN EagerStep /\ UNCHANGED <<l, E, got>>
    ELSE \/ FreeSilent /\ UNCHANGED <<l, E, got>>
         \/ l <= N /\ Rec[l].ev # "Reset"
              /\ \E j \in (l + 1)..(IF l + Window < N THEN l + Window ELSE N) :
                    EarlyOK(j) /\ Act(Rec[j]) /\ E' = E \cup {j} /\ l' = l
         \/ l <= N /\ Consume

TSpec == TInit /\ [][TNext]_tvars

\* furthest record reached, for the diagnosis
Track == TLCSet(1, IF l > TLCGet(1) THEN l ELSE TLCGet(1))
ASSUME TLCSet(1, 0)

\* VIOLATED means: the whole log was explained
NotAccepted == l <= N

Post == LET f == TLCGet(1) IN
        PrintT(ToJson([rejected_at |-> f, event |-> IF f >= 1 /\ f <= N THEN Rec[f] ELSE Rec[1]])) /\ FALSE
=============================================================================
