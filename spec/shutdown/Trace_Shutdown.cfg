CONSTANTS
  Clients = {1, 2, 3, 4, 5, 6, 7, 8, 9, 10, 11, 12, 13, 14, 15, 16, 17, 18, 19, 20, 21, 22, 23, 24, 25, 26, 27, 28, 29, 30, 31, 32, 33, 34, 35, 36, 37, 38, 39, 40, 41, 42, 43, 44, 45, 46, 47, 48}
  MaxWorkers = 8
  Runtimes = {"threaded", "tokio"}
  MaxReq = 8
  Kinds = {"close", "keep", "ws"}
  SigTwice = TRUE
  Dev = {}
  Faults = {"nofd"}
INIT TInit
NEXT TNext
CONSTRAINT Track
INVARIANTS Report TypeOK Inv_PortFree Inv_ServingBefore Inv_NoTruncation Inv_Owned Inv_DispatchedKept Inv_WakeUnserved
POSTCONDITION Post
CHECK_DEADLOCK FALSE
