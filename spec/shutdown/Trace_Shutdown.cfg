CONSTANTS
  Clients = {1, 2, 3, 4, 5, 6, 7, 8, 9, 10, 11, 12, 13, 14, 15, 16}
  MaxWorkers = 8
  Runtimes = {"threaded", "tokio"}
  MaxReq = 8
  Kinds = {"close", "keep", "ws"}
  Dev = {}
INIT TInit
NEXT TNext
CONSTRAINT Track
INVARIANTS Report TypeOK Inv_PortFree Inv_ServingBefore Inv_NoTruncation Inv_Owned Inv_DispatchedKept Inv_WakeUnserved
POSTCONDITION Post
CHECK_DEADLOCK FALSE
