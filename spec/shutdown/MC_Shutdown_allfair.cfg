CONSTANTS
  Clients = {1, 2}
  MaxWorkers = 1
  Runtimes = {"threaded", "tokio"}
  MaxReq = 1
  Kinds = {"close", "keep", "ws"}
  SigTwice = FALSE
  Dev = {}
  Faults = {}
SPECIFICATION SpecAllFair
INVARIANTS TypeOK
PROPERTIES Live_RunReturns Live_Drains Live_Answered
CHECK_DEADLOCK FALSE
