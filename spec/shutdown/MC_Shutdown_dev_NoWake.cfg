CONSTANTS
  Clients = {1}
  MaxWorkers = 1
  Runtimes = {"threaded"}
  MaxReq = 1
  Kinds = {"close", "keep", "ws"}
  SigTwice = FALSE
  Dev = {"NoWake"}
  Faults = {}
SPECIFICATION Spec
PROPERTIES Live_RunReturns
CHECK_DEADLOCK FALSE
