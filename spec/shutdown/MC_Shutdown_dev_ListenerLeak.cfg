CONSTANTS
  Clients = {1, 2}
  MaxWorkers = 1
  Runtimes = {"threaded"}
  MaxReq = 1
  Kinds = {"close", "keep", "ws"}
  SigTwice = FALSE
  Dev = {"ListenerLeak"}
  Faults = {}
SPECIFICATION Spec
INVARIANTS Inv_PortFree
CHECK_DEADLOCK FALSE
