CONSTANTS
  Clients = {1, 2}
  MaxWorkers = 2
  Runtimes = {"threaded", "tokio"}
  MaxReq = 2
  Kinds = {"close", "keep", "ws"}
  SigTwice = FALSE
  Dev = {}
  Faults = {}
SPECIFICATION SpecAllFair
INVARIANTS TypeOK
PROPERTIES Live_RunReturns Live_Drains Live_Answered
CHECK_DEADLOCK FALSE
