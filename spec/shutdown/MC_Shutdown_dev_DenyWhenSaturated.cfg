CONSTANTS
  Clients = {1, 2}
  MaxWorkers = 1
  Runtimes = {"threaded"}
  MaxReq = 1
  Kinds = {"close", "keep", "ws"}
  SigTwice = FALSE
  Dev = {"DenyWhenSaturated"}
  Faults = {}
SPECIFICATION Spec
INVARIANTS Inv_ServingBefore
CHECK_DEADLOCK FALSE
