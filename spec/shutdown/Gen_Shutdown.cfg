CONSTANTS
  Clients = {1, 2, 3}
  MaxWorkers = 2
  Runtimes = {"threaded", "tokio"}
  MaxReq = 2
  Kinds = {"close", "keep", "ws"}
  SigTwice = TRUE
  Dev = {}
  Faults = {}
  SigAfter = 0
  MaxLen = 60
INIT GenInit
NEXT GenNext
INVARIANT GenInv
CHECK_DEADLOCK FALSE
