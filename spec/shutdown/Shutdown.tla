------------------------------ MODULE Shutdown ------------------------------
(* C20 - a shutdown signal always ends `run`, promptly, and frees the port.

   Model of humphrey/src/app.rs `App::run` (threaded runtime: accept thread + the thread that called
   run, which waits for the shutdown receiver, sets an AtomicBool and wakes accept() by connecting to
   the listener) and of humphrey/src/tokio/app.rs `App::run` (tokio runtime: one task that select!s
   between CancellationToken::cancelled() and accept()), together with an abstract thread pool
   (humphrey/src/thread/pool.rs: unbounded FIFO of jobs, `nw` workers, stop = ONE Shutdown message,
   drop = detach the workers and disconnect the channel), the kernel accept backlog (FIFO) and
   clients that may connect / send half a request / complete it / close at any time.

   One action per linearization point of the code, named after the hook points in the code:
     acceptor   Accept_Return, Accept_Error, Flag_Read, Dispatch, Loop_Exit, Pool_Stop, Closure_Drop
     run thread Sig_Recv, Flag_Set, Wake_Connect, Join_Return        (tokio: only Join_Return)
     pool       Worker_Take, Worker_Disc        handler  H_Read, H_Finish, H_Write, H_Eof
     clients    Cli_Connect, Cli_SendHalf, Cli_SendRest, Cli_Close   environment  Sig_Send

   `rt` (runtime) and `nw` (pool size) are chosen in Init and never change: one TLC run covers every
   pool size and both runtimes, and the trace spec can switch them between recorded scenarios.

   Dev = {} is the code as written (the property is expected to hold).  The named deviations are
   plausible defects used as sensitivity checks: each must make TLC violate the stated property. *)
EXTENDS Integers, Sequences, FiniteSets, TLC

CONSTANTS Clients,      \* client connection ids (positive integers)
          MaxWorkers,   \* pool sizes 1..MaxWorkers
          Runtimes,     \* subset of {"threaded", "tokio"}
          MaxReq,       \* requests a client may start on one connection
          Kinds,        \* kinds of request: subset of {"close", "keep", "ws"}
          SigTwice,     \* BOOLEAN: the signal may be sent a second time
          Faults,       \* environment faults explored: subset of {"nofd"} (the process runs out of file descriptors)
          Dev           \* subset of DevNames

WAKE == 0                \* the wake-up connection made by the run thread
NONE == -1
STOP == -2               \* Message::Shutdown in the pool queue
Conns == Clients \cup {WAKE}
RespChunks == 2          \* a response is written in two pieces ("response being written" = 1 piece out)

DevNames == { "NoWake",             \* no wake-up connection (e.g. connect to the unmapped 0.0.0.0 fails)     -> Live_RunReturns
              "JoinWorkers",        \* closure waits for the handlers before returning                       -> Live_RunReturns
              "BoundedQueue",       \* execute blocks until a worker is idle (rendezvous channel, saturated pool) -> Live_RunReturns
              "BoundedQueueCap",    \* bounded job channel (one slot per worker): execute AND stop block while it is full -> Live_RunReturns
              "ReturnBeforeJoin",   \* run returns without joining the accept thread                          -> Inv_PortFree
              "ListenerLeak",       \* listener not closed when the closure ends                              -> Inv_PortFree
              "DenyWhenSaturated",  \* acceptor drops a connection when no worker is idle                     -> Inv_ServingBefore
              "FlagBeforeRecv",     \* flag initialised true / set before the signal is received             -> Inv_ServingBefore
              "AbortOnStop",        \* stop() kills the connections being handled                             -> Inv_NoTruncation
              "StopDropsQueue",     \* stop() discards jobs that were dispatched but not started              -> Inv_DispatchedKept
              "AcceptErrorsRetriedInside" } \* a failed accept() is retried inside a helper: the flag is only looked at after a SUCCESSFUL accept -> Live_RunReturns
ASSUME Dev \subseteq DevNames /\ Kinds \subseteq {"close", "keep", "ws"} /\ Faults \subseteq {"nofd"}

VARIABLES rt, nw,
          apc, cur,                       \* acceptor: program counter, connection in hand
          spc,                            \* the thread that called run
          chan, sent, flag,               \* shutdown channel non-empty; signal was sent (history); AtomicBool / token
          listener, backlog,              \* kernel: listening socket, accept queue
          nofd,                           \* kernel: the process has no free file descriptor (accept() and the wake-up connect fail with EMFILE)
          queue, alive, busy, pooldrop,   \* pool: FIFO of jobs, workers not exited, connections owned by a worker/task, Sender dropped
          cs, inbuf, kind, wr, ceof, nreq,\* per connection: server-side state, unread request bytes, kind of request, response pieces written, client closed, requests started
          reqB4, served, trunc            \* history: request was read by the server before the signal; full responses; truncated responses

vars == <<rt, nw, apc, cur, spc, chan, sent, flag, listener, backlog, nofd, queue, alive, busy, pooldrop,
          cs, inbuf, kind, wr, ceof, nreq, reqB4, served, trunc>>

aVars == <<apc, cur>>
sVars == <<spc, chan, sent, flag>>
kVars == <<listener, backlog, nofd>>
pVars == <<queue, alive, busy, pooldrop>>
cVars == <<inbuf, kind, wr, ceof, nreq>>
hVars == <<reqB4, served, trunc>>
cfgVars == <<rt, nw>>

CStates == {"none", "backlog", "held", "queued", "read", "run", "write", "ws", "closed",
            "dropped", "reset", "refused", "aborted", "discarded"}
Unserved == {"dropped", "reset", "refused"}      \* ended by the server side without any service
Connected(c) == cs[c] \in {"backlog", "held", "queued", "read"}

TypeOK ==
  /\ rt \in {"threaded", "tokio"} /\ nw \in 1..MaxWorkers
  /\ apc \in {"accept", "accepted", "dispatch", "exit", "stop", "drop", "done"}
  /\ cur \in Conns \cup {NONE}
  /\ spc \in {"recv", "set", "wake", "join", "returned"}
  /\ chan \in BOOLEAN /\ sent \in BOOLEAN /\ flag \in BOOLEAN /\ pooldrop \in BOOLEAN
  /\ listener \in {"open", "closed"} /\ nofd \in BOOLEAN
  /\ backlog \in Seq(Conns) /\ queue \in Seq(Conns \cup {STOP})
  /\ alive \in 0..MaxWorkers /\ busy \subseteq Conns
  /\ cs \in [Conns -> CStates]
  /\ inbuf \in [Conns -> {"empty", "half", "full"}]
  /\ kind \in [Conns -> {"close", "keep", "ws"}]
  /\ wr \in [Conns -> 0..RespChunks]
  /\ ceof \in [Conns -> BOOLEAN]
  /\ nreq \in [Conns -> 0..MaxReq]
  /\ reqB4 \in [Conns -> BOOLEAN]
  /\ served \in [Conns -> 0..MaxReq]
  /\ trunc \subseteq Conns

Init ==
  /\ rt \in Runtimes
  /\ nw \in (IF rt = "tokio" THEN {1} ELSE 1..MaxWorkers)
  /\ apc = "accept" /\ cur = NONE
  /\ spc = IF rt = "threaded" THEN "recv" ELSE "join"
  /\ chan = FALSE /\ sent = FALSE /\ flag = ("FlagBeforeRecv" \in Dev)
  /\ listener = "open" /\ backlog = <<>> /\ nofd = FALSE
  /\ queue = <<>> /\ alive = nw /\ busy = {} /\ pooldrop = FALSE
  /\ cs = [c \in Conns |-> "none"]
  /\ inbuf = [c \in Conns |-> "empty"]
  /\ kind = [c \in Conns |-> "close"]
  /\ wr = [c \in Conns |-> 0]
  /\ ceof = [c \in Conns |-> FALSE]
  /\ nreq = [c \in Conns |-> 0]
  /\ reqB4 = [c \in Conns |-> FALSE]
  /\ served = [c \in Conns |-> 0]
  /\ trunc = {}

(* ------------------------------------------------------------------ environment: the signal *)
\* threaded: Sender::send on the channel given to with_shutdown; tokio: CancellationToken::cancel()
Sig_Send ==
  /\ ~sent
  /\ sent' = TRUE
  /\ IF rt = "threaded" THEN chan' = TRUE /\ flag' = flag ELSE flag' = TRUE /\ chan' = chan
  /\ UNCHANGED <<cfgVars, aVars, spc, kVars, pVars, cs, cVars, hVars>>

\* the signal is sent a second time.  tokio: cancel() is idempotent (nothing changes).  threaded: another message
\* is put into the channel; once Sig_Recv has taken the first one nobody ever reads the channel again.
Sig_Again ==
  /\ SigTwice /\ sent /\ rt = "threaded" /\ ~chan /\ spc # "recv"
  /\ chan' = TRUE
  /\ UNCHANGED <<cfgVars, aVars, spc, sent, flag, kVars, pVars, cs, cVars, hVars>>

(* ------------------------------------------------------------------ clients *)
Cli_Connect(c) ==
  /\ cs[c] = "none"
  /\ IF listener = "open"
       THEN /\ backlog' = Append(backlog, c)
            /\ cs' = [cs EXCEPT ![c] = "backlog"]
       ELSE /\ backlog' = backlog
            /\ cs' = [cs EXCEPT ![c] = "refused"]
  /\ UNCHANGED <<cfgVars, aVars, sVars, listener, nofd, pVars, cVars, hVars>>

\* the first part of a request; only one request is outstanding per connection
Cli_SendHalf(c) ==
  /\ Connected(c) /\ ~ceof[c] /\ inbuf[c] = "empty" /\ nreq[c] < MaxReq
  /\ inbuf' = [inbuf EXCEPT ![c] = "half"]
  /\ nreq' = [nreq EXCEPT ![c] = @ + 1]
  /\ UNCHANGED <<cfgVars, aVars, sVars, kVars, pVars, cs, kind, wr, ceof, hVars>>

\* the rest of the request: Connection: close, Connection: keep-alive, or a WebSocket upgrade
Cli_SendRest(c, k) ==
  /\ Connected(c) /\ ~ceof[c] /\ inbuf[c] = "half"
  /\ inbuf' = [inbuf EXCEPT ![c] = "full"]
  /\ kind' = [kind EXCEPT ![c] = k]
  /\ UNCHANGED <<cfgVars, aVars, sVars, kVars, pVars, cs, wr, ceof, nreq, hVars>>

\* the client closes (never while a complete request of its own is waiting for the answer)
Cli_Close(c) ==
  /\ (Connected(c) \/ cs[c] = "ws") /\ ~ceof[c] /\ inbuf[c] # "full"
  /\ ceof' = [ceof EXCEPT ![c] = TRUE]
  /\ UNCHANGED <<cfgVars, aVars, sVars, kVars, pVars, cs, inbuf, kind, wr, nreq, hVars>>

(* ------------------------------------------------------------------ pool workers (threaded) *)
Idle == Cardinality(busy) < alive

\* an idle worker receives the next message: a job (it now owns that connection) or Shutdown (it exits)
Worker_Take ==
  /\ rt = "threaded" /\ queue # <<>> /\ Idle
  /\ queue' = Tail(queue)
  /\ IF Head(queue) = STOP
       THEN alive' = alive - 1 /\ busy' = busy /\ cs' = cs
       ELSE alive' = alive /\ busy' = busy \cup {Head(queue)} /\ cs' = [cs EXCEPT ![Head(queue)] = "read"]
  /\ UNCHANGED <<cfgVars, aVars, sVars, kVars, pooldrop, cVars, hVars>>

\* the Sender was dropped with the pool and the queue is empty: recv() fails, an idle worker exits
Worker_Disc ==
  /\ rt = "threaded" /\ pooldrop /\ queue = <<>> /\ Idle /\ alive > 0
  /\ alive' = alive - 1
  /\ UNCHANGED <<cfgVars, aVars, sVars, kVars, queue, busy, pooldrop, cs, cVars, hVars>>

(* ------------------------------------------------------------------ connection handler *)
Release(c, st) == /\ cs' = [cs EXCEPT ![c] = st]
                  /\ busy' = busy \ {c}

\* the request is complete and is read: the handler (or the WebSocket handler) starts
H_Read(c) ==
  /\ cs[c] = "read" /\ inbuf[c] = "full"
  /\ cs' = [cs EXCEPT ![c] = IF kind[c] = "ws" THEN "ws" ELSE "run"]
  /\ inbuf' = [inbuf EXCEPT ![c] = "empty"]
  /\ wr' = [wr EXCEPT ![c] = 0]
  /\ reqB4' = [reqB4 EXCEPT ![c] = ~sent]
  /\ UNCHANGED <<cfgVars, aVars, sVars, kVars, pVars, kind, ceof, nreq, served, trunc>>

\* the handler returns its response (no fairness: a handler may run forever)
H_Finish(c) ==
  /\ cs[c] = "run"
  /\ cs' = [cs EXCEPT ![c] = "write"]
  /\ UNCHANGED <<cfgVars, aVars, sVars, kVars, pVars, cVars, hVars>>

\* one piece of the response reaches the client; after the last one keep-alive waits for the next request
H_Write(c) ==
  /\ cs[c] = "write"
  /\ wr' = [wr EXCEPT ![c] = @ + 1]
  /\ IF wr[c] + 1 = RespChunks
       THEN /\ served' = [served EXCEPT ![c] = @ + 1]
            /\ IF kind[c] = "keep" THEN cs' = [cs EXCEPT ![c] = "read"] /\ busy' = busy
                                   ELSE Release(c, "closed")
       ELSE served' = served /\ cs' = cs /\ busy' = busy
  /\ UNCHANGED <<cfgVars, aVars, sVars, kVars, queue, alive, pooldrop, inbuf, kind, ceof, nreq, reqB4, trunc>>

\* the handler sees the client's EOF while waiting for a request (or in the WebSocket loop)
H_Eof(c) ==
  /\ cs[c] \in {"read", "ws"} /\ ceof[c] /\ inbuf[c] # "full"
  /\ Release(c, "closed")
  /\ UNCHANGED <<cfgVars, aVars, sVars, kVars, queue, alive, pooldrop, cVars, hVars>>

(* ------------------------------------------------------------------ acceptor *)
\* accept() returns the head of the backlog.  tokio: the accept arm of select! wins (also possible when
\* the token is already cancelled: select! picks among ready arms at random)
\* (also possible while the descriptor table is full: Linux reserves the descriptor BEFORE accept() starts to wait,
\* so an accept() that was already waiting when the table filled up still delivers one connection)
Accept_Return ==
  /\ apc = "accept" /\ backlog # <<>>
  /\ cur' = Head(backlog)
  /\ backlog' = Tail(backlog)
  /\ cs' = [cs EXCEPT ![Head(backlog)] = "held"]
  /\ apc' = IF rt = "tokio" THEN "dispatch" ELSE "accepted"
  /\ UNCHANGED <<cfgVars, sVars, listener, nofd, pVars, cVars, hVars>>

\* accept() fails (EMFILE: the process has no descriptor left; whether or not a connection is pending - the descriptor
\* is reserved first) and returns WITHOUT a connection.  threaded: the loop body runs with Err in hand - the flag is looked at next (Flag_Read with
\* cur = NONE), then the error goes to the monitor and accept() is called again.  tokio: the error goes to the
\* monitor and the loop goes back to select! (nothing changes: the cancelled() arm is looked at every time round).
\* Dev "AcceptErrorsRetriedInside": the retry happens inside a helper that only returns a connection, so nothing
\* changes in the threaded loop either - the flag is not looked at.
Accept_Error ==
  /\ apc = "accept" /\ nofd
  /\ apc' = IF rt = "threaded" /\ "AcceptErrorsRetriedInside" \notin Dev THEN "accepted" ELSE apc
  /\ UNCHANGED <<cfgVars, cur, sVars, kVars, pVars, cs, cVars, hVars>>

\* threaded only: shutdown_clone.load(SeqCst) at the top of the loop body
Flag_Read ==
  /\ rt = "threaded" /\ apc = "accepted"
  \* (cur = NONE: accept() had failed; `Err(e) => monitor.send(..)` and round again)
  /\ apc' = IF flag THEN "exit" ELSE IF cur = NONE THEN "accept" ELSE "dispatch"
  /\ UNCHANGED <<cfgVars, cur, sVars, kVars, pVars, cs, cVars, hVars>>

\* thread_pool.execute (unbounded channel: never blocks) / tokio::spawn
Dispatch ==
  /\ apc = "dispatch"
  /\ ("BoundedQueue" \in Dev /\ rt = "threaded") => Idle
  /\ ("BoundedQueueCap" \in Dev /\ rt = "threaded") => Len(queue) < nw
  /\ IF rt = "tokio"
       THEN /\ cs' = [cs EXCEPT ![cur] = "read"] /\ busy' = busy \cup {cur} /\ queue' = queue
       ELSE IF "DenyWhenSaturated" \in Dev /\ ~Idle
              THEN cs' = [cs EXCEPT ![cur] = "dropped"] /\ busy' = busy /\ queue' = queue
              ELSE cs' = [cs EXCEPT ![cur] = "queued"] /\ busy' = busy /\ queue' = Append(queue, cur)
  /\ cur' = NONE /\ apc' = "accept"
  /\ UNCHANGED <<cfgVars, sVars, kVars, alive, pooldrop, cVars, hVars>>

\* threaded: `break` with the flag set - the connection in hand is dropped unserved.
\* tokio: the cancelled() arm of select! wins - nothing is in hand.
Loop_Exit ==
  \/ /\ rt = "threaded" /\ apc = "exit"
     /\ cs' = IF cur = NONE THEN cs ELSE [cs EXCEPT ![cur] = "dropped"]
     /\ cur' = NONE /\ apc' = "stop"
     /\ UNCHANGED <<cfgVars, sVars, kVars, pVars, cVars, hVars>>
  \/ /\ rt = "tokio" /\ apc = "accept" /\ flag
     /\ apc' = "drop"
     /\ UNCHANGED <<cfgVars, cur, sVars, kVars, pVars, cs, cVars, hVars>>

\* thread_pool.stop(): ONE Shutdown message behind every job already dispatched; recovery thread detached
Pool_Stop ==
  /\ apc = "stop"
  /\ "BoundedQueueCap" \in Dev => Len(queue) < nw
  /\ apc' = "drop"
  /\ IF "StopDropsQueue" \in Dev
       THEN /\ queue' = <<STOP>>
            /\ cs' = [c \in Conns |-> IF cs[c] = "queued" THEN "discarded" ELSE cs[c]]
            /\ trunc' = trunc /\ busy' = busy
       ELSE IF "AbortOnStop" \in Dev
       THEN /\ queue' = Append(queue, STOP)
            /\ cs' = [c \in Conns |-> IF c \in busy THEN "aborted" ELSE cs[c]]
            /\ trunc' = trunc \cup {c \in busy : reqB4[c] /\ cs[c] \in {"run", "write"}}
            /\ busy' = {}
       ELSE /\ queue' = Append(queue, STOP) /\ cs' = cs /\ trunc' = trunc /\ busy' = busy
  /\ UNCHANGED <<cfgVars, cur, sVars, kVars, alive, pooldrop, cVars, reqB4, served>>

\* the closure (threaded) / the run future (tokio) ends: the listener and the pool are dropped.
\* Closing the listener resets whatever is still in the backlog. Dropping the pool detaches the workers
\* (no join) and drops the Sender.
Closure_Drop ==
  /\ apc = "drop"
  /\ "JoinWorkers" \in Dev => busy = {}
  /\ apc' = "done"
  /\ listener' = IF "ListenerLeak" \in Dev THEN listener ELSE "closed"
  /\ backlog' = <<>>
  /\ cs' = [c \in Conns |-> IF cs[c] = "backlog" THEN "reset" ELSE cs[c]]
  /\ pooldrop' = TRUE
  /\ UNCHANGED <<cfgVars, cur, sVars, nofd, queue, alive, busy, cVars, hVars>>

(* ------------------------------------------------------------------ the thread that called run *)
Sig_Recv ==
  /\ rt = "threaded" /\ spc = "recv" /\ chan
  /\ chan' = FALSE /\ spc' = "set"
  /\ UNCHANGED <<cfgVars, aVars, sent, flag, kVars, pVars, cs, cVars, hVars>>

Flag_Set ==
  /\ spc = "set"
  /\ flag' = TRUE /\ spc' = "wake"
  /\ UNCHANGED <<cfgVars, aVars, chan, sent, kVars, pVars, cs, cVars, hVars>>

\* TcpStream::connect(loopback form of the bind address); the stream is dropped at once
Wake_Connect ==
  /\ spc = "wake"
  /\ spc' = "join"
  /\ IF "NoWake" \in Dev \/ nofd      \* no descriptor for the socket: connect fails, `let _ =` ignores it
       THEN UNCHANGED <<backlog, cs, ceof>>
       ELSE IF listener = "open"
              THEN /\ backlog' = Append(backlog, WAKE)
                   /\ cs' = [cs EXCEPT ![WAKE] = "backlog"]
                   /\ ceof' = [ceof EXCEPT ![WAKE] = TRUE]
              ELSE /\ backlog' = backlog
                   /\ cs' = [cs EXCEPT ![WAKE] = "refused"]
                   /\ ceof' = ceof
  /\ UNCHANGED <<cfgVars, aVars, chan, sent, flag, listener, nofd, pVars, inbuf, kind, wr, nreq, hVars>>

\* threaded: main_app_thread.join() returns; tokio: the future completes
Join_Return ==
  /\ spc = "join"
  /\ apc = "done" \/ ("ReturnBeforeJoin" \in Dev /\ flag)
  /\ spc' = "returned"
  /\ UNCHANGED <<cfgVars, aVars, chan, sent, flag, kVars, pVars, cs, cVars, hVars>>

(* ------------------------------------------------------------------ environment fault: descriptor exhaustion *)
\* The process runs out of file descriptors at any time while run is running (idle connections, open files ...).
\* ASSUMPTION (stated in the check's output): once begun the fault lasts until run has returned.  A fault that ends
\* in the few instructions between the accept loop's flag check and its next accept(), after the wake-up connect has
\* failed inside it, leaves the unchanged code waiting in accept() with the flag set until the next connection arrives;
\* that transient is not explored here (and cannot be provoked by the harness).
Fd_Exhaust ==
  /\ "nofd" \in Faults /\ ~nofd /\ spc # "returned"
  /\ nofd' = TRUE
  /\ UNCHANGED <<cfgVars, aVars, sVars, listener, backlog, pVars, cs, cVars, hVars>>
Fd_End ==
  /\ nofd' = FALSE
  /\ UNCHANGED <<cfgVars, aVars, sVars, listener, backlog, pVars, cs, cVars, hVars>>
Fd_Recover == nofd /\ spc = "returned" /\ Fd_End

(* ------------------------------------------------------------------ processes *)
Acceptor == Accept_Return \/ Accept_Error \/ Flag_Read \/ Dispatch \/ Loop_Exit \/ Pool_Stop \/ Closure_Drop
RunThread == Sig_Recv \/ Flag_Set \/ Wake_Connect \/ Join_Return
Pool == Worker_Take \/ Worker_Disc
Handler == \E c \in Conns : H_Read(c) \/ H_Finish(c) \/ H_Write(c) \/ H_Eof(c)
Client == \E c \in Clients : \/ Cli_Connect(c) \/ Cli_SendHalf(c) \/ Cli_Close(c)
                             \/ \E k \in Kinds : Cli_SendRest(c, k)

Next == Sig_Send \/ Sig_Again \/ Fd_Exhaust \/ Fd_Recover \/ Acceptor \/ RunThread \/ Pool \/ Handler \/ Client

\* Fairness ONLY for the accept loop and the thread that called run.  No assumption on clients, on
\* the signal, on workers or on handlers: a handler may block forever.  (tokio's Loop_Exit is enabled
\* only at the select!; with finitely many connections weak fairness is enough - with an unbounded
\* stream of connections the random choice of select! would be a strong-fairness assumption.)
Spec == Init /\ [][Next]_vars /\ WF_vars(Acceptor) /\ WF_vars(RunThread)

\* everything fair, every client eventually closes: used only for Live_Drains
SpecAllFair == Init /\ [][Next]_vars /\ WF_vars(Acceptor) /\ WF_vars(RunThread) /\ WF_vars(Pool)
               \* the handler actions of one connection are mutually exclusive: one WF per connection
               /\ (\A c \in Conns : WF_vars(H_Read(c) \/ H_Finish(c) \/ H_Write(c) \/ H_Eof(c)))
               /\ (\A d \in Clients : WF_vars(Cli_Close(d) \/ \E k \in Kinds : Cli_SendRest(d, k)))

\* guard of the fair processes: used by the trace spec to decide that a recorded quiescent state is a
\* legitimate one (the real accept loop / run thread stopped where the model says it may stop)
FairEnabled == \/ (apc = "accept" /\ backlog # <<>>)
               \/ apc \in {"accepted", "dispatch", "exit", "stop", "drop"}
               \/ (rt = "tokio" /\ apc = "accept" /\ flag)
               \/ (rt = "threaded" /\ spc = "recv" /\ chan)
               \/ spc \in {"set", "wake"}
               \/ (spc = "join" /\ apc = "done")

(* ------------------------------------------------------------------ properties *)
\* a shutdown signal always ends run
Live_RunReturns == sent ~> (spc = "returned")

\* ... and frees the port: when run has returned the listening socket is closed
Inv_PortFree == (spc = "returned") => (listener = "closed")

\* until the signal is sent the server keeps serving normally: nothing is dropped, reset or refused
\* before the signal (DESIGN 5a: a connection that is accepted after the signal may be dropped).
Inv_ServingBefore == \A c \in Clients : cs[c] \in Unserved => sent
\* ... and a waiting connection is eventually picked up (or the server has been told to stop)
Live_Accepts == \A c \in Clients : (cs[c] = "backlog") ~> (cs[c] # "backlog")

\* responses to requests received (read by the server) before the signal are not truncated
Inv_NoTruncation == trunc = {}
\* structural form of the same: a connection the server has taken on is only ever ended by its own
\* handler, never by the shutdown path
Inv_Owned == /\ \A c \in Conns : cs[c] \in {"read", "run", "write", "ws"} <=> c \in busy
             /\ \A c \in Conns : cs[c] # "aborted"
             /\ rt = "threaded" => Cardinality(busy) <= alive
\* jobs dispatched before the stop stay in front of the Shutdown message
Inv_DispatchedKept ==
  /\ \A c \in Conns : (cs[c] = "queued") <=> (\E i \in 1..Len(queue) : queue[i] = c)
  /\ \A c \in Conns : cs[c] # "discarded"

\* the wake-up connection is never handed to a handler (the flag is set before it is made)
Inv_WakeUnserved == rt = "threaded" => cs[WAKE] \in {"none", "backlog", "held", "dropped", "reset", "refused"}

\* with every process fair and clients that eventually close, everything dispatched is drained even
\* though run has long returned: the pool keeps working behind the Shutdown message
Live_Drains == \A c \in Clients : (cs[c] = "queued") ~> (cs[c] # "queued")
Live_Answered == \A c \in Clients : (cs[c] \in {"run", "write"}) ~> (cs[c] \in {"read", "closed"})

(* ------------------------------------------------------------------ reachability witnesses (negations must be violated) *)
\* "flag set, a client connects and is accepted before the wake-up connection"
Never_ClientBeforeWake == ~(rt = "threaded" /\ spc = "wake" /\ apc = "exit" /\ cur \in Clients)
\* "the wake-up connection arrives while a Dispatch is in progress"
Never_WakeDuringDispatch == ~(rt = "threaded" /\ apc = "dispatch" /\ Len(backlog) > 0 /\ backlog[Len(backlog)] = WAKE)
\* "all workers busy, a job waiting, and run has returned"
Never_ReturnedSaturated == ~(rt = "threaded" /\ spc = "returned" /\ Cardinality(busy) = nw /\ \E c \in Clients : cs[c] = "queued")
\* "3 x pool connections": run has returned while the pool is fully occupied and 2 x pool jobs are waiting
Never_ReturnedDeepQueue == ~(rt = "threaded" /\ spc = "returned" /\ Cardinality(busy) = nw
                             /\ Cardinality({c \in Clients : cs[c] = "queued"}) >= 2 * nw)
\* tokio: a connection is accepted although the token is already cancelled
Never_AcceptAfterCancel == ~(rt = "tokio" /\ flag /\ apc = "dispatch")
=============================================================================
