------------------------------- MODULE Proxy -------------------------------
(* Property C09: proxying a request always yields a response within the configured timeout - the
   upstream's status, headers and body when the upstream answers with a valid HTTP/1.x response,
   502 Bad Gateway otherwise - and the upstream receives the client's request with the route prefix
   stripped and one added X-Forwarded-For.

   Three processes:
     upstream  a scripted but otherwise free peer (NO fairness: it may stop at any point): refuses
               the connection, never completes the handshake ("blackhole"), or accepts and sends the
               segments of its script one by one, closing or stalling after any of them;
     proxy     humphrey_server::proxy::proxy_handler (P_Strip) followed by
               humphrey::http::proxy::proxy_request (P_Connect, P_Write, P_Read*, P_Map), one action
               per blocking call / per line or chunk read by Response::from_stream;
     timer     explicit discrete time (Tick). The proxy is urgent (time passes only while it is
               blocked); the deadline is the ONLY progress guarantee: weak fairness is assumed for
               the proxy and the clock, never for the upstream.

   Two descriptions of the answer are compared:
     * Acceptable(segs, term) - the property's reading of "valid HTTP/1.x response" as a predicate
                               over the segments the upstream delivered (denotational, ProxyMsg.tla);
     * PStep(D, p, in)       - the parser of Response::from_stream, step by step, with the named
                               deviations D of the code.
   Inv_Faithful says that the step model with Dev = {} produces the expected answer.

   A wire segment is a record [k, v, n, m]:
     status  n = status code                      hdr    v = "name: value" (any non-framing header)
     cl      n = declared Content-Length (bytes)   te     Transfer-Encoding: chunked
     blank   the empty line                        data   v = hex of body bytes
     chunk   v = hex of one complete chunk's data  last   0 CRLF CRLF
     garbage / badhdr (no colon) / badcl (non-numeric length) / badchunk (non-hex size): not HTTP
     part    (traces only) a structural segment of kind v of which only n bytes arrived;
             m = position of the first ':' in those bytes (0 = none)
   Bodies are hex strings so that \o is concatenation of bytes. *)
EXTENDS ProxyMsg

CONSTANTS Codes,      \* status codes the upstream may use
          HdrSets,    \* set of header sequences (strings "name: value", canonical: lower-case name)
          UnitSeq,    \* sequence of distinct hex strings: the body units
          MaxBody,    \* bodies have 0..MaxBody units
          Framings,   \* subset of {"cl", "chunked", "close"}
          Kinds,      \* upstream fault kinds, subset of AllKinds
          CutCodes,   \* codes for which the upstream may stop early / the clock may run (generation bound)
          UpModes,    \* timing disciplines of the upstream: "free" (MC) | "fast" | "pause" | "trickle" (generation)
          Requests,   \* client requests [m, uri, q, ver, hdrs, xff, body, pad, peer] (see ProxyMsg.tla)
          Routes,     \* route patterns (strings, `*` = wildcard)
          Entries,    \* subset of {"core", "handler"}: proxy_request directly / through proxy_handler
          Timeout,    \* deadline in ticks
          Record,     \* TRUE: keep the upstream's event history (generation)
          Dev

AllKinds == {"ok", "refuse", "blackhole", "noread", "lateread", "garbage", "badhdr", "badcl", "shortcl", "badchunk", "tecase"}

(***************************************************************************)
(* What the upstream can say                                               *)
(***************************************************************************)
BodyOf(n) == [i \in 1..n |-> UnitSeq[i]]
Resps == { r \in [code : Codes, hdrs : HdrSets, fr : Framings \cup {"none"}, body : { BodyOf(n) : n \in 0..MaxBody }] :
             IF NoBody(r.code) THEN r.fr = "none" /\ r.body = <<>> ELSE r.fr # "none" }

Wire(r) ==
  <<S("status", "", r.code, 0)>>
  \o [i \in 1..Len(r.hdrs) |-> S("hdr", r.hdrs[i], 0, 0)]
  \o (CASE r.fr = "cl" -> <<S("cl", "", Bytes(Cat(r.body)), 0)>>
        [] r.fr = "chunked" -> <<S("te", "", 0, 0)>>
        [] OTHER -> <<>>)
  \o <<S("blank", "", 0, 0)>>
  \o (IF r.fr = "chunked"
      THEN [i \in 1..Len(r.body) |-> S("chunk", r.body[i], 0, 0)] \o <<S("last", "", 0, 0)>>
      ELSE [i \in 1..Len(r.body) |-> S("data", r.body[i], 0, 0)])

InsertAt(s, i, x) == SubSeq(s, 1, i - 1) \o <<x>> \o SubSeq(s, i, Len(s))
ReplaceFirst(s, k, x) ==
  LET I == { i \in DOMAIN s : s[i].k = k } IN
  IF I = {} THEN s ELSE LET j == CHOOSE i \in I : \A i2 \in I : i <= i2 IN [s EXCEPT ![j] = x]

\* malformed / over-long lengths do not depend on the status code: one code (the smallest that may carry a body)
LenResps == { x \in Resps : x.fr = "cl" /\ \A y \in Resps : y.fr = "cl" => (x.code <= y.code /\ Len(x.hdrs) <= Len(y.hdrs)) }
GarbageForms == {"binary", "badcode", "nospace", "empty-line",
                 \* status codes outside 100..599 / not a u16 / not a number of a defined class
                 "code0", "code99", "code600", "code1000", "code65536"}
BadClForms   == {"abc", "2^64", "-1", "empty"}
\* Content-Length claims more than is ever sent: by 1, by a lot, and lengths that are no TLC integers
ShortClForms == {"+1", "2^31-1", "2^32", "2^63-1", "2^64-1"}
Scenarios ==
  { [kind |-> "ok", g |-> "", resp |-> r] : r \in IF "ok" \in Kinds THEN Resps ELSE {} }
  \cup { [kind |-> "refuse", g |-> "", resp |-> r] : r \in IF "refuse" \in Kinds THEN { CHOOSE x \in Resps : TRUE } ELSE {} }
  \cup { [kind |-> "blackhole", g |-> "", resp |-> r] : r \in IF "blackhole" \in Kinds THEN { CHOOSE x \in Resps : TRUE } ELSE {} }
  \cup { [kind |-> "noread", g |-> "", resp |-> r] : r \in IF "noread" \in Kinds THEN { CHOOSE x \in Resps : TRUE } ELSE {} }
  \cup { [kind |-> "garbage", g |-> g, resp |-> r] : g \in GarbageForms, r \in IF "garbage" \in Kinds THEN { CHOOSE x \in Resps : TRUE } ELSE {} }
  \cup { [kind |-> "badhdr", g |-> "", resp |-> r] : r \in IF "badhdr" \in Kinds THEN Resps ELSE {} }
  \cup { [kind |-> "badcl", g |-> g, resp |-> r] : g \in BadClForms, r \in IF "badcl" \in Kinds THEN LenResps ELSE {} }
  \cup { [kind |-> "shortcl", g |-> g, resp |-> r] : g \in ShortClForms, r \in IF "shortcl" \in Kinds THEN LenResps ELSE {} }
  \cup { [kind |-> "tecase", g |-> g, resp |-> r] : g \in {"Chunked", "CHUNKED"}, r \in IF "tecase" \in Kinds THEN { x \in Resps : x.fr = "chunked" } ELSE {} }
  \cup { [kind |-> "lateread", g |-> "", resp |-> r] : r \in IF "lateread" \in Kinds THEN Resps ELSE {} }
  \cup { [kind |-> "badchunk", g |-> "", resp |-> r] : r \in IF "badchunk" \in Kinds THEN { x \in Resps : x.fr = "chunked" } ELSE {} }

ScnWire(sc) ==
  CASE sc.kind = "ok"       -> Wire(sc.resp)
    [] sc.kind = "refuse"   -> <<>>
    [] sc.kind = "blackhole" -> <<>>
    [] sc.kind = "noread"   -> <<>>        \* accepts, never reads the request, never answers
    [] sc.kind = "garbage"  -> <<S("garbage", sc.g, 0, 0)>>
    [] sc.kind = "badhdr"   -> InsertAt(Wire(sc.resp), 2, S("badhdr", "", 0, 0))
    [] sc.kind = "tecase"   -> ReplaceFirst(Wire(sc.resp), "te", S("te", sc.g, 0, 0))   \* valid: Transfer-Encoding: Chunked
    [] sc.kind = "lateread" -> Wire(sc.resp)   \* a valid answer from a target that starts reading the request late
    [] sc.kind = "badcl"    -> ReplaceFirst(Wire(sc.resp), "cl", S("badcl", sc.g, 0, 0))
    [] sc.kind = "shortcl"  -> LET n == Bytes(Cat(sc.resp.body)) IN
                               ReplaceFirst(Wire(sc.resp), "cl",
                                 CASE sc.g = "+1"     -> S("cl", "", n + 1, 0)
                                   [] sc.g = "2^31-1" -> S("cl", "", 2147483647, 0)
                                   [] OTHER           -> S("hugecl", sc.g, 0, 0))
    [] sc.kind = "badchunk" -> ReplaceFirst(Wire(sc.resp), IF sc.resp.body = <<>> THEN "last" ELSE "chunk", S("badchunk", "", 0, 0))

(***************************************************************************)
(* State                                                                   *)
(***************************************************************************)
VARIABLES scn, umode,         \* the upstream's script and timing discipline
          uwire, upos, ust,   \* segments of the script, number sent, "listening"|"refusing"|"open"|"closed"
          lastsend,           \* tick of the last send (trickle discipline)
          entry, req, route,  \* the client's request and how it entered
          puri,               \* the uri proxy_handler passes on
          pc, ps, rpos, lastin, fwd, answer,
          now, armed,         \* clock, and the tick the running timeout was started
          hist                \* upstream events [e, i, t] when Record
vars == <<scn, umode, uwire, upos, ust, lastsend, entry, req, route, puri, pc, ps, rpos, lastin, fwd, answer, now, armed, hist>>
uvars == <<scn, umode, uwire>>
cvars == <<entry, req, route>>     \* never change

MaxNow == 2 * Timeout + 2

Init ==
  /\ scn \in Scenarios /\ umode \in UpModes
  /\ uwire = ScnWire(scn) /\ upos = 0
  /\ ust = (CASE scn.kind = "refuse" -> "refusing" [] scn.kind = "blackhole" -> "blackhole" [] OTHER -> "listening")
  /\ lastsend = 0
  /\ entry \in Entries /\ req \in Requests /\ route \in Routes
  /\ (entry = "handler") => RouteMatches(route, req.uri)
  /\ pc = (IF entry = "handler" THEN "strip" ELSE "connect")
  /\ puri = req.uri
  /\ ps = PS0 /\ rpos = 0 /\ lastin = "none" /\ fwd = NoFwd /\ answer = Hang
  /\ now = 0 /\ armed = 0
  /\ hist = <<>>

Avail    == rpos < upos
Eof      == ust = "closed" /\ rpos = upos
TimerOn  == CASE "NoReadTimeout" \in Dev        -> pc = "connect"
              [] "WriteWithoutDeadline" \in Dev -> pc # "write"
              [] OTHER                          -> TRUE
TimedOut == TimerOn /\ now - armed >= Timeout
CanRead  == Avail \/ Eof \/ TimedOut \/ ("GiveUpOnEmptyRead" \in Dev)
CanConnect == ust # "blackhole" \/ TimedOut          \* the handshake of a black-holed target never completes
\* write_all blocks when the target does not read and the request exceeds what the socket buffers take (pad > 0);
\* it returns with an error at the deadline or when the target closes
\* ("deaf": the target has accepted but is not reading; "noread" stays deaf, "lateread" starts reading later)
WriteBlocks == ust = "deaf" /\ req.pad > 0
CanWrite == ~WriteBlocks \/ TimedOut \/ ust = "closed"
ProxyCanStep == pc \in {"strip", "map"} \/ (pc = "connect" /\ CanConnect) \/ (pc = "write" /\ CanWrite) \/ (pc = "read" /\ CanRead)
Blocked  == (pc = "read" /\ ~CanRead) \/ (pc = "connect" /\ ~CanConnect) \/ (pc = "write" /\ ~CanWrite)

(***************************************************************************)
(* Proxy                                                                   *)
(***************************************************************************)
\* proxy_handler: strip the route prefix (the blacklist test and select_target are C19 / LoadBalancer)
P_Strip ==
  /\ pc = "strip"
  /\ puri' = IF "ForwardUnstripped" \in Dev THEN req.uri ELSE Slash(StripLoop(req.uri, route))
  /\ pc' = "connect"
  /\ UNCHANGED <<uvars, upos, ust, lastsend, cvars, ps, rpos, lastin, fwd, answer, now, armed, hist>>

\* TcpStream::connect_timeout: a refused connection is an error, a listening peer accepts at once, a target
\* that never answers the handshake makes the call wait for the timeout
P_Connect ==
  /\ pc = "connect" /\ CanConnect
  /\ lastin' = IF ust = "blackhole" THEN "timeout" ELSE lastin
  /\ IF ust \in {"refusing", "blackhole"}
     THEN /\ ps' = Fail(ps, "err") /\ pc' = "map" /\ ust' = ust /\ hist' = hist
     ELSE /\ ust' = (IF scn.kind \in {"noread", "lateread"} THEN "deaf" ELSE "open") /\ pc' = "write" /\ ps' = ps
          /\ hist' = IF Record THEN Append(hist, [e |-> "accept", i |-> 0, t |-> now]) ELSE hist
  /\ UNCHANGED <<uvars, upos, lastsend, cvars, puri, rpos, fwd, answer, now, armed>>

\* clone the request, add X-Forwarded-For, write_all
P_Write ==
  /\ pc = "write" /\ CanWrite
  /\ LET a == AddrOf(req)
         \* request.address.origin_addr.to_string(); Address's Display adds " (proxied)" when there are proxies
         v == IF "XffProxyAddr" \in Dev THEN "proxy"
              ELSE IF "XffDisplaySuffix" \in Dev /\ a.proxies # <<>> THEN a.origin \o " (proxied)" ELSE a.origin IN
     fwd' = [m |-> req.m, uri |-> puri, q |-> req.q, ver |-> req.ver, body |-> req.body, pad |-> req.pad,
             hdrs |-> IF "NoXff" \in Dev THEN ReqHdrs(req) ELSE Append(ReqHdrs(req), XffOf(v))]
  /\ IF WriteBlocks
     THEN /\ ps' = Fail(ps, "err") /\ pc' = "map"
          /\ lastin' = IF TimedOut THEN "timeout" ELSE "eof"
     ELSE /\ ps' = ps /\ pc' = "read" /\ lastin' = lastin
  /\ armed' = IF "PerOpTimeout" \in Dev THEN now ELSE armed
  /\ UNCHANGED <<uvars, upos, ust, lastsend, cvars, puri, rpos, answer, now, hist>>

\* one read_until / read_exact of Response::from_stream
P_Read ==
  /\ pc = "read" /\ CanRead
  /\ LET in == IF TimedOut THEN TOIN
               ELSE IF Avail THEN uwire[rpos + 1]
               ELSE IF Eof THEN EOFIN
               ELSE EOFIN      \* GiveUpOnEmptyRead: an empty read is taken for the end
         p2 == PStep(Dev, ps, in) IN
     /\ ps' = p2
     /\ rpos' = IF in.k \in {"EOF", "TIMEOUT"} THEN rpos ELSE rpos + 1
     /\ lastin' = IF in.k = "EOF" THEN "eof" ELSE IF in.k = "TIMEOUT" THEN "timeout" ELSE lastin
     /\ pc' = IF Final(p2) THEN "map" ELSE "read"
     /\ armed' = IF "PerOpTimeout" \in Dev /\ in.k \notin {"EOF", "TIMEOUT"} THEN now ELSE armed
  /\ UNCHANGED <<uvars, upos, ust, lastsend, cvars, puri, fwd, answer, now, hist>>

\* proxy_request: Ok(response) is returned, Err becomes the 502 page
P_Map ==
  /\ pc = "map"
  /\ answer' = AnswerOf(Dev, ps)
  /\ pc' = "done"
  /\ UNCHANGED <<uvars, upos, ust, lastsend, cvars, puri, ps, rpos, lastin, fwd, now, armed, hist>>

ProxyStep == P_Strip \/ P_Connect \/ P_Write \/ P_Read \/ P_Map

(***************************************************************************)
(* Upstream (no fairness) and clock                                        *)
(***************************************************************************)
MayCut == scn.kind # "ok" \/ scn.resp.code \in CutCodes
UpTurn == \* generation disciplines let the upstream act only while the proxy waits, at chosen ticks
  CASE umode = "free"    -> TRUE
    [] umode = "fast"    -> ~ProxyCanStep /\ now = 0
    [] umode = "pause"   -> ~ProxyCanStep /\ now <= 1
    [] umode = "trickle" -> ~ProxyCanStep /\ now < Timeout
Up_Send ==
  /\ ust = "open" /\ upos < Len(uwire) /\ pc # "done" /\ UpTurn
  /\ (umode = "trickle") => (upos = 0 \/ lastsend # now)
  /\ upos' = upos + 1 /\ lastsend' = now
  /\ hist' = IF Record THEN Append(hist, [e |-> "send", i |-> upos + 1, t |-> now]) ELSE hist
  /\ UNCHANGED <<uvars, ust, cvars, puri, pc, ps, rpos, lastin, fwd, answer, now, armed>>
\* the late reader starts to read the request
Up_StartRead ==
  /\ ust = "deaf" /\ scn.kind = "lateread" /\ pc # "done" /\ UpTurn
  /\ ust' = "open"
  /\ hist' = IF Record THEN Append(hist, [e |-> "read", i |-> 0, t |-> now]) ELSE hist
  /\ UNCHANGED <<uvars, upos, lastsend, cvars, puri, pc, ps, rpos, lastin, fwd, answer, now, armed>>
Up_Close ==
  /\ ust \in {"open", "deaf"} /\ pc # "done" /\ UpTurn
  /\ MayCut \/ upos = Len(uwire)
  /\ ust' = "closed"
  /\ hist' = IF Record THEN Append(hist, [e |-> "close", i |-> upos, t |-> now]) ELSE hist
  /\ UNCHANGED <<uvars, upos, lastsend, cvars, puri, pc, ps, rpos, lastin, fwd, answer, now, armed>>

\* time passes only while the proxy is blocked in a read
Tick ==
  /\ Blocked /\ now < MaxNow
  /\ MayCut \/ upos = Len(uwire)
  /\ now' = now + 1
  /\ UNCHANGED <<uvars, upos, ust, lastsend, cvars, puri, pc, ps, rpos, lastin, fwd, answer, armed, hist>>

Next == ProxyStep \/ Up_Send \/ Up_StartRead \/ Up_Close \/ Tick
Spec == Init /\ [][Next]_vars /\ WF_vars(ProxyStep) /\ WF_vars(Tick)

(***************************************************************************)
(* Properties                                                              *)
(***************************************************************************)
Consumed == SubSeq(uwire, 1, rpos)
TermSeen == IF lastin = "eof" THEN "eof" ELSE "stall"

\* answer = the upstream's (status, headers, body) when its bytes are a valid response, else 502; never a panic
Inv_Faithful ==
  pc = "done" =>
    /\ \E a \in Acceptable(Consumed, TermSeen) : AnsEq(answer, a)
    \* a 502 is not given prematurely: only after a refusal, invalid data, the close or the deadline
    /\ (answer.kind = "502" /\ lastin = "none") => (scn.kind = "refuse" \/ Invalid(Consumed))
    /\ (scn.kind \in {"refuse", "blackhole"}) => answer.kind = "502"
    /\ (lastin = "eof") => (ust = "closed" /\ rpos = upos)
    /\ (lastin = "timeout") => now >= Timeout
Inv_NoPanic == answer.kind # "panic"

\* the upstream received the client's request, prefix stripped, X-Forwarded-For = client
Inv_Forwarded ==
  (pc \in {"read", "map", "done"} /\ scn.kind \notin {"refuse", "blackhole", "noread"}) => FwdEq(fwd, Forward(req, route, entry))

\* within the configured timeout (scheduling slack = 0 in the model: the proxy is urgent)
Inv_Timely == pc # "done" => now <= Timeout

\* the proxy always answers; the deadline is the only progress guarantee
Live_Responds == <>(pc = "done")

TypeOK ==
  /\ pc \in {"strip", "connect", "write", "read", "map", "done"}
  /\ rpos <= upos /\ upos <= Len(uwire)
  /\ ust \in {"listening", "refusing", "blackhole", "open", "deaf", "closed"}
  /\ now \in 0..MaxNow
=============================================================================
