CONSTANTS
  Codes <- RegisteredCodes
  HdrSets <- Hdrs_small
  UnitSeq <- Units
  MaxBody = 3
  Framings = {"cl", "chunked", "close"}
  Kinds = {"ok", "refuse", "blackhole", "noread", "garbage", "badhdr", "badcl", "shortcl", "badchunk", "tecase"}
  CutCodes <- RegisteredCodes
  UpModes = {"free"}
  Requests <- Req_one
  Routes <- Routes_one
  Entries = {"core", "handler"}
  Timeout = 2
  Record = FALSE
  Dev = {}
INIT Init
NEXT Next
INVARIANTS TypeOK Inv_Faithful Inv_NoPanic Inv_Forwarded Inv_Timely Inv_FoldAgrees
CHECK_DEADLOCK FALSE
