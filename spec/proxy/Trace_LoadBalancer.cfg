SPECIFICATION Spec
INVARIANTS NotAccepted
CHECK_DEADLOCK FALSE
