CONSTANTS
  Codes <- Codes_one
  HdrSets <- Hdrs_none
  UnitSeq <- Units
  MaxBody = 1
  Framings = {"cl", "chunked", "close"}
  Kinds = {"noread", "lateread", "ok"}
  CutCodes <- Codes_one
  UpModes = {"free"}
  Requests <- Req_pad
  Routes <- Routes_one
  Entries = {"handler"}
  Timeout = 2
  Record = FALSE
  Dev = {"WriteWithoutDeadline"}
SPECIFICATION Spec
PROPERTY Live_Responds
CHECK_DEADLOCK FALSE
