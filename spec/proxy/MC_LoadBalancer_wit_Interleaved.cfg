CONSTANTS
  MaxNT = 3
  MaxThreads = 2
  MaxCalls = 2
  Modes = {"RoundRobin"}
  Record = TRUE
  Dev = {}
INIT Init
NEXT Next
INVARIANTS Never_Interleaved Inv_RotationLog
CHECK_DEADLOCK FALSE
