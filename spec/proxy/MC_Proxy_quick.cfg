CONSTANTS
  Codes <- Codes_mc
  HdrSets <- Hdrs_small
  UnitSeq <- Units
  MaxBody = 1
  Framings = {"cl", "chunked", "close"}
  Kinds = {"ok", "refuse", "blackhole", "noread", "garbage", "badhdr", "badcl", "shortcl", "badchunk", "tecase"}
  CutCodes <- Codes_mc
  UpModes = {"free"}
  Requests <- Req_one
  Routes <- Routes_one
  Entries = {"handler"}
  Timeout = 2
  Record = FALSE
  Dev = {}
SPECIFICATION Spec
INVARIANTS TypeOK Inv_Faithful Inv_NoPanic Inv_Forwarded Inv_Timely Inv_FoldAgrees
PROPERTY Live_Responds
CHECK_DEADLOCK FALSE
