CONSTANTS
  Codes <- Codes_one
  HdrSets <- Hdrs_none
  UnitSeq <- Units_sizes
  MaxBody = 6
  Framings = {"cl", "chunked", "close"}
  Kinds = {"ok", "tecase"}
  CutCodes <- Codes_one
  UpModes = {"fast"}
  Requests <- Req_one
  Routes <- Routes_one
  Entries = {"core"}
  Timeout = 3
  Record = TRUE
  Dev = {}
INIT Init
NEXT Next
INVARIANT GenInv
CHECK_DEADLOCK FALSE
