CONSTANTS
  Codes <- Codes_gen
  HdrSets <- Hdrs_small
  UnitSeq <- Units
  MaxBody = 2
  Framings = {"cl", "chunked", "close"}
  Kinds = {"ok", "refuse", "blackhole", "garbage", "badhdr", "badcl", "badchunk"}
  CutCodes <- Codes_gen
  UpModes = {"fast"}
  Requests <- Req_one
  Routes <- Routes_one
  Entries = {"core", "handler"}
  Timeout = 3
  Record = TRUE
  Dev = {}
INIT Init
NEXT Next
INVARIANT GenInv
CHECK_DEADLOCK FALSE
