CONSTANTS
  MaxNT = 3
  MaxThreads = 2
  MaxCalls = 2
  Modes = {"RoundRobin", "Random"}
  Record = FALSE
  Dev = {"SelectOnCloneWriteBack"}
INIT Init
NEXT Next
INVARIANTS Inv_Rotation
CHECK_DEADLOCK FALSE
