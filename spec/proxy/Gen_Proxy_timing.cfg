CONSTANTS
  Codes <- Codes_one
  HdrSets <- Hdrs_one
  UnitSeq <- Units
  MaxBody = 2
  Framings = {"cl", "chunked", "close"}
  Kinds = {"ok", "badhdr"}
  CutCodes <- Codes_one
  UpModes = {"pause", "trickle"}
  Requests <- Req_one
  Routes <- Routes_one
  Entries = {"core"}
  Timeout = 3
  Record = TRUE
  Dev = {}
INIT Init
NEXT Next
INVARIANT GenInv
CHECK_DEADLOCK FALSE
