CONSTANTS
  Codes <- Codes_cut
  HdrSets <- Hdrs_more
  UnitSeq <- Units
  MaxBody = 6
  Framings = {"cl", "chunked", "close"}
  Kinds = {"ok", "refuse", "blackhole", "garbage", "badhdr", "badcl", "badchunk"}
  CutCodes <- Codes_cut
  UpModes = {"fast"}
  Requests <- Req_one
  Routes <- Routes_one
  Entries = {"core", "handler"}
  Timeout = 3
  Record = TRUE
  Dev = {}
INIT Init
NEXT Next
INVARIANT GenInv
CHECK_DEADLOCK FALSE
