CONSTANTS
  Codes <- Codes_one
  HdrSets <- Hdrs_none
  UnitSeq <- Units
  MaxBody = 1
  Framings = {"cl", "chunked", "close"}
  Kinds = {"ok"}
  CutCodes <- Codes_one
  UpModes = {"free"}
  Requests <- Req_one
  Routes <- Routes_one
  Entries = {"core"}
  Timeout = 2
  Record = FALSE
  Dev = {"NoReadTimeout"}
SPECIFICATION Spec
PROPERTY Live_Responds
CHECK_DEADLOCK FALSE
