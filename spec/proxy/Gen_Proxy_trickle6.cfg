CONSTANTS
  Codes <- Codes_one
  HdrSets <- Hdrs_none
  UnitSeq <- Units
  MaxBody = 2
  Framings = {"cl", "chunked", "close"}
  Kinds = {"ok"}
  CutCodes <- Codes_one
  UpModes = {"trickle"}
  Requests <- Req_one
  Routes <- Routes_one
  Entries = {"core"}
  Timeout = 6
  Record = TRUE
  Dev = {}
INIT Init
NEXT Next
INVARIANT GenInv
CHECK_DEADLOCK FALSE
