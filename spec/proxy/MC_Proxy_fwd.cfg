CONSTANTS
  Codes <- Codes_one
  HdrSets <- Hdrs_none
  UnitSeq <- Units
  MaxBody = 0
  Framings = {"cl"}
  Kinds = {"ok", "refuse"}
  CutCodes <- Codes_one
  UpModes = {"fast"}
  Requests <- Req_full
  Routes <- Routes_all
  Entries = {"core", "handler"}
  Timeout = 2
  Record = FALSE
  Dev = {}
INIT Init
NEXT Next
INVARIANTS TypeOK Inv_Forwarded Inv_Faithful
CHECK_DEADLOCK FALSE
