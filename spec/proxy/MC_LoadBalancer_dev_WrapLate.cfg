CONSTANTS
  MaxNT = 3
  MaxThreads = 2
  MaxCalls = 2
  Modes = {"RoundRobin", "Random"}
  Record = FALSE
  Dev = {"WrapLate"}
INIT Init
NEXT Next
INVARIANTS Inv_Index Inv_InSet
CHECK_DEADLOCK FALSE
