---------------------------- MODULE Trace_Proxy ----------------------------
(* Code -> spec direction for C09.  The harness runs humphrey::http::proxy::proxy_request and
   humphrey_server::proxy::proxy_handler against a scripted loopback upstream and records, per call,
     segs, term   what the upstream delivered (tokenised into the segments of ProxyMsg; a structural
                  segment cut by the byte offset is a `part`) and whether it then closed or stalled,
     got, late    the projected answer (or "panic" / "hang") and whether it came after timeout + slack,
     seen         the request the upstream received, projected like the model's `fwd`.
   Every record is checked with the operators of the specification:
     got is one of Acceptable(segs, term)   (Inv_Faithful, Inv_NoPanic)
     not late, not hanging                  (Inv_Timely / Live_Responds observed with escalating waits)
     seen = Forward(req, route, entry)      (Inv_Forwarded)
   A record that fails is compared with what each single deviation of the code predicts
   (Predict({d}, segs, term)); the names that explain it are printed for the driver. *)
EXTENDS ProxyMsg, Json, IOUtils

Rec == ndJsonDeserialize(IOEnv.TRACE)

AnsOk(r)  == \E a \in (IF r.connected THEN Acceptable(r.segs, r.term) ELSE {Bad502}) : AnsEq(r.got, a)
\* (a target that never reads the request has, by construction, not received it: nothing to compare)
FwdOk(r)  == (r.connected /\ ~r.noread) => (r.seenok /\ FwdEq(r.seen, Forward(r.req, r.route, r.entry)))
\* "within the configured timeout": for proxy_request the harness configures the timeout, so lateness gates; the
\* timeout proxy_handler passes (5 s today) is not part of the property, so for that entry only a hang gates
LateGates(r) == r.late /\ (r.entry = "core" \/ r.got.kind = "hang")
Ok(r)     == AnsOk(r) /\ ~LateGates(r) /\ FwdOk(r)
\* deviations that predict exactly this observation (lateness is explained only by a predicted hang)
Ideal(r)  == IF r.connected THEN Acceptable(r.segs, r.term) ELSE {Bad502}
\* a deviation explains the record iff it predicts exactly this observation AND that prediction is itself not acceptable
Explains(r) == IF FwdOk(r) /\ r.connected /\ (LateGates(r) => r.got.kind = "hang")
               THEN { d \in RealDevs : LET p == Predict({d}, r.segs, r.term) IN
                                         AnsEq(r.got, p) /\ ~\E a \in Ideal(r) : AnsEq(p, a) }
               ELSE {}
SetToSeq(X) == LET RECURSIVE F(_) F(Y) == IF Y = {} THEN <<>> ELSE LET x == CHOOSE x \in Y : TRUE IN <<x>> \o F(Y \ {x}) IN F(X)

VARIABLES l, bad, nontrivial
Init == l = 1 /\ bad = <<>> /\ nontrivial = 0
Next == /\ l <= Len(Rec)
        /\ l' = l + 1
        /\ bad' = IF Ok(Rec[l]) THEN bad
                  ELSE Append(bad, [id |-> Rec[l].id, devs |-> SetToSeq(Explains(Rec[l])),
                                    ans |-> AnsOk(Rec[l]), late |-> LateGates(Rec[l]), fwd |-> FwdOk(Rec[l])])
        /\ nontrivial' = nontrivial + (IF Rec[l].connected /\ Acceptable(Rec[l].segs, Rec[l].term) # {Bad502} THEN 1 ELSE 0)
Spec == Init /\ [][Next]_<<l, bad, nontrivial>>

\* evaluated at the last state: every record consumed; the verdict (the list of failing records) is printed for the
\* driver.  The invariant itself stays TRUE so that TLC does not print a behaviour of Len(Rec) states.
AllAgree == (l = Len(Rec) + 1) =>
              PrintT(ToJson([checked |-> Len(Rec), nontrivial |-> nontrivial, rejected |-> bad]))
=============================================================================
