------------------------------ MODULE MC_Proxy ------------------------------
(* TLC-only definitions for Proxy.tla: the catalogues substituted for the constants (config files can
   only hold simple values) and the generation invariant. *)
EXTENDS Proxy, Json

\* registered status codes other than the interim 1xx ones (IANA registry; 418 is named by the property)
RegisteredCodes == (200..208) \cup {226} \cup (300..305) \cup {307, 308} \cup (400..418) \cup (421..426)
                   \cup {428, 429, 431, 451} \cup (500..508) \cup {510, 511}
Codes_quick == {200, 204, 304, 404, 308, 429, 500, 502}
Codes_mc    == {200, 204, 308, 502}
Codes_gen   == {200, 204, 404, 308}
Codes_none  == {}
\* the first and last code of every class the proxy may see as a final answer (1xx interim answers are not generated)
Codes_bound == {200, 299, 300, 399, 400, 499, 500, 599}
Codes_one   == {200}
Codes_cut   == {200, 308}

Hdrs_none  == { <<>> }
Hdrs_one   == { <<"content-type: text/plain">> }
Hdrs_small == { <<>>, <<"content-type: text/plain", "set-cookie: a=1", "set-cookie: b=2">> }
\* degenerate values (empty, blanks inside), a value with ':' and the same name three times in non-sorted order
Hdrs_edge  == { <<"x-empty: ", "set-cookie: z=1", "etag: \"a:b\"", "set-cookie: a=2", "x-two: two  words, and a tab\tinside", "set-cookie: m=3">> }
\* 36 headers: the same name six times among thirty others (sort stability thresholds at 20 and 32 elements)
Hdrs_many  == { [i \in 1..36 |-> IF i % 6 = 0 THEN "set-cookie: c" \o ToString(40 - i) \o "=v"
                                  ELSE "x-h" \o ToString(50 - i) \o ": " \o ToString(i)] }
Hdrs_edgemany == Hdrs_edge \cup Hdrs_many
Hdrs_bounds == Hdrs_none \cup Hdrs_edgemany
Hdrs_more  == Hdrs_small \cup { <<"x-up: v w", "location: /x?y=1">>, <<"connection: close">> }

Units == <<"61", "6263", "0d0a", "ff00", "30", "7a7a7a">>
\* chunk / body sizes around the hex digit boundaries: 15, 16, 26 (1a / 1A), 255, 256, 4096 bytes
RECURSIVE Rep(_, _)
Rep(h, n) == IF n = 0 THEN "" ELSE h \o Rep(h, n - 1)
Units_sizes_quick == <<Rep("6f", 15), Rep("70", 16), Rep("7a", 26), Rep("ff", 255), Rep("00", 256)>>
Units_sizes == <<Rep("6f", 15), Rep("70", 16), Rep("7a", 26), Rep("ff", 255), Rep("00", 256), Rep("0a", 4096)>>

R(m, uri, q, hdrs, xff, body, peer) == [m |-> m, uri |-> uri, q |-> q, ver |-> "HTTP/1.1", hdrs |-> hdrs, xff |-> xff, body |-> body, pad |-> 0, peer |-> peer]
Req_one == { R("GET", "/api/x", "", <<"host: h.example:8080">>, <<>>, "-", "127.0.0.1") }
\* incoming X-Forwarded-For lists: none, 1, 2, 3 entries (IPv4 and IPv6)
Xffs == { <<>>, <<"203.0.113.7">>, <<"203.0.113.7", "10.0.0.2">>, <<"2001:db8::1", "10.0.0.2", "192.0.2.33">> }
\* client requests "as in C02": methods x uris x queries x header sets x incoming X-Forwarded-For x bodies, two peers
Req_c02 ==
  { R(m, u, q, h, x, "-", c) : m \in {"GET", "POST", "PUT", "DELETE", "OPTIONS"},
                            u \in {"/api/x", "/api/", "/api", "/api/a/b.html", "/apix"}, q \in {"", "k=v&z=%20"},
                            h \in { <<>>, <<"host: h.example", "cookie: a=1; b=2">> }, x \in Xffs,
                            c \in {"127.0.0.1", "127.0.0.9"} }
  \cup { R(m, "/api/post", "", <<"content-length: 3", "content-type: text/plain">>, x, "616263", "127.0.0.1") : m \in {"POST", "PUT"}, x \in Xffs }
\* requests with many header lines among which names repeat (x-trace every 5th, via every 7th, values descending so that
\* no sort by value restores them): the forwarded request must keep same-named lines in the client's order however many
\* lines there are - counts around the thresholds at which library sorts change algorithm (20, 32) and beyond.  Added after
\* a seeded sort_unstable_by in Headers::iter was missed (round 7): the forwarding family had at most three lines.
ReqHdrsMany(n) == [i \in 1..n |-> IF i % 5 = 0 THEN "x-trace: span-" \o ToString(n - i)
                                  ELSE IF i % 7 = 0 THEN "via: 1.1 hop" \o ToString(100 - i)
                                  ELSE "x-h" \o ToString(i) \o ": v" \o ToString(i)]
Req_many == { R("GET", "/api/x", "", ReqHdrsMany(n), x, "-", "127.0.0.1") : n \in {19, 20, 31, 32, 33, 40, 47, 64}, x \in { <<>>, <<"203.0.113.7">> } }
Req_quick == { r \in Req_c02 : r.m \in {"GET", "POST"} /\ r.peer = "127.0.0.1" /\ r.uri \in {"/api/x", "/api", "/api/post"} } \cup Req_many
Req_full == Req_c02 \cup Req_many
\* requests whose body is followed by `pad` MiB of filler (the harness adds the Content-Length): 0 fits the socket
\* buffers, 8 and 32 do not when the target never reads
ReqPad(p, x) == [R("POST", "/api/up", "", <<"host: h.example", "content-length: " \o ToString(2 + p * 1048576)>>, x, "6162", "127.0.0.1") EXCEPT !.pad = p]
Req_pad == { ReqPad(p, x) : p \in {0, 8, 32}, x \in { <<>>, <<"203.0.113.7">> } }
Req_pad8 == { ReqPad(p, <<>>) : p \in {0, 8} }
Routes_one == {"/api/*"}
Routes_all == {"/api/*", "/api*", "/*", "*", "/api/x", "/a*/x"}

\* one JSON line per finished behaviour: the script, what the upstream did and when, the answer and the
\* forwarded request the model arrives at, and what each single deviation of the code would answer instead
Delivered == SubSeq(uwire, 1, upos)
TermNow   == IF ust = "closed" THEN "eof" ELSE "stall"
GenInv ==
  pc # "done" \/
  PrintT(ToJson([kind |-> scn.kind, g |-> scn.g, mode |-> umode, wire |-> uwire, entry |-> entry, req |-> req, route |-> route,
                 ev |-> hist, lastin |-> lastin, took |-> now, connected |-> (scn.kind \notin {"refuse", "blackhole"}), noread |-> (scn.kind \in {"noread", "lateread"} /\ \A i \in DOMAIN hist : hist[i].e # "read"),
                 segs |-> Delivered, term |-> TermNow,
                 exp |-> answer, base |-> Predict({}, Delivered, TermNow), fwd |-> fwd,
                 alt |-> [d \in RealDevs |-> Predict({d}, Delivered, TermNow)]]))

\* the step model agrees with the fold used by the trace spec and for the predictions
Inv_FoldAgrees == pc = "done" /\ scn.kind \notin {"refuse", "blackhole"} => AnsEq(answer, Predict(Dev, Consumed, TermSeen))
=============================================================================
