CONSTANTS
  Codes <- Codes_one
  HdrSets <- Hdrs_edgemany
  UnitSeq <- Units
  MaxBody = 1
  Framings = {"cl", "chunked", "close"}
  Kinds = {"ok"}
  CutCodes <- Codes_none
  UpModes = {"fast"}
  Requests <- Req_one
  Routes <- Routes_one
  Entries = {"core", "handler"}
  Timeout = 3
  Record = TRUE
  Dev = {}
INIT Init
NEXT Next
INVARIANT GenInv
CHECK_DEADLOCK FALSE
