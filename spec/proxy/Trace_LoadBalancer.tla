------------------------- MODULE Trace_LoadBalancer -------------------------
(* Code -> spec direction for the balancer half of C09.  The harness runs K real threads against one
   EqMutex<LoadBalancer> and records, per selection, [t, r, inv, ret]: the thread, the target it got
   (1-based position in `targets`, 0 = none/panic) and two values of one global atomic counter taken
   before and after the operation.
     * "locked" groups: the thread takes the same mutex proxy_handler takes, calls select_target and
       draws ONE counter value while still holding the guard (inv = ret): the log order is the order
       of the critical sections, so the check is deterministic;
     * "handler" groups: the threads call proxy_handler itself (which locks internally) against
       NT loopback upstreams; inv/ret bracket the whole call, and TLC searches for a linearisation:
       an order that respects real time (ret(a) < inv(b) => a before b) in which every selection is
       the one LoadBalancer.tla's Sel_Read/Sel_Write produce from the current index.
   The search keeps one cursor per thread (a thread's calls are sequential, the file is ordered by `inv`): the next
   call of thread t may be linearised when no other thread still has an un-linearised call that RETURNED before it
   was invoked.  Groups of hundreds of overlapping handler calls (8 threads x 300) are linearised this way in
   seconds; a lost update (two overlapping calls served from the same index) leaves no linearisation.
   Independently of the search, BadCounts lists the round-robin groups in which some target was not chosen
   floor(T/n) or ceil(T/n) times (T completed calls, n targets): a strict rotation cannot produce that.
   A file holds many groups, each introduced by a "cfg" record (nt, mode, start index).  The trace is
   accepted iff all groups can be linearised: the invariant NotAccepted is then VIOLATED (that is the
   success signal); if TLC finishes without a violation, no linearisation exists and the last printed
   group number tells where it stopped. *)
EXTENDS Naturals, Sequences, FiniteSets, TLC, Json, IOUtils

\* ---- the pure operators of LoadBalancer.tla (kept textually identical) -------------------------
TargetAt(i, n) == IF i < n THEN i + 1 ELSE 0
Advance(i, n, D) == IF "WrapLate" \in D THEN (IF i + 1 > n THEN 0 ELSE i + 1)
                    ELSE (IF i + 1 = n THEN 0 ELSE i + 1)
RandomChoices(n, D) == IF "RandomOffByOne" \in D THEN 0..n ELSE 1..n

Rec == ndJsonDeserialize(IOEnv.TRACE)
CfgIdx == { i \in 1..Len(Rec) : Rec[i].k = "cfg" }
NG == Cardinality(CfgIdx)
\* constant-level definitions are evaluated once by TLC
StartSeq == [x \in 1..NG |-> CHOOSE i \in CfgIdx : Cardinality({ j \in CfgIdx : j < i }) = x - 1]
GroupStart(x) == StartSeq[x]
GroupEnd(x) == IF x = NG THEN Len(Rec) ELSE GroupStart(x + 1) - 1
Calls(x) == (GroupStart(x) + 1)..GroupEnd(x)
NThreads(x) == Rec[GroupStart(x)].t
\* per group and thread: the record indices of that thread's calls, in file (= invocation) order
ByThread == [x \in 1..NG |-> [t \in 1..NThreads(x) |->
               SelectSeq([i \in 1..(GroupEnd(x) - GroupStart(x)) |-> GroupStart(x) + i], LAMBDA i : Rec[i].t = t)]]

\* strict rotation => every target chosen floor(T/n) or ceil(T/n) times
CountOf(x, r) == Cardinality({ c \in Calls(x) : Rec[c].r = r })
BadCounts == { x \in 1..NG : LET cf == Rec[GroupStart(x)]  T == Cardinality(Calls(x)) IN
                 cf.mode = "RoundRobin" /\
                 \/ \E c \in Calls(x) : Rec[c].r \notin 1..cf.nt
                 \/ \E r \in 1..cf.nt : CountOf(x, r) < T \div cf.nt \/ CountOf(x, r) > (T + cf.nt - 1) \div cf.nt }

VARIABLES g, ptr, idx          \* current group, per-thread cursor into ByThread[g][t], balancer index
vars == <<g, ptr, idx>>
MaxT == IF NG = 0 THEN 1 ELSE CHOOSE m \in { NThreads(x) : x \in 1..NG } : \A x \in 1..NG : NThreads(x) <= m
Ptr0 == [t \in 1..MaxT |-> 1]
\* "strictly in rotation" does not say with which target the rotation begins (nor does the property fix how the
\* `index` field is used): the first selection of a group may be any target, every later one is the next in the list.
\* (The logged `start` is what the harness put into LoadBalancer.index; it is not used for the verdict.)
Init == /\ g = 1 /\ ptr = Ptr0 /\ idx \in 0..(IF NG = 0 THEN 0 ELSE Rec[GroupStart(1)].nt - 1)
        /\ PrintT(ToJson([badcounts |-> BadCounts, groups |-> NG]))

Pending(t) == ptr[t] <= Len(ByThread[g][t])
NextOf(t)  == ByThread[g][t][ptr[t]]

Lin(t) ==
  LET cf == Rec[GroupStart(g)]
      c  == NextOf(t) IN
  /\ Pending(t)
  /\ \A u \in 1..NThreads(g) : (u # t /\ Pending(u)) => ~(Rec[NextOf(u)].ret < Rec[c].inv)
  /\ IF cf.mode = "RoundRobin"
     THEN Rec[c].r = TargetAt(idx, cf.nt) /\ idx' = Advance(idx, cf.nt, {})
     ELSE Rec[c].r \in RandomChoices(cf.nt, {}) /\ idx' = idx
  /\ ptr' = [ptr EXCEPT ![t] = ptr[t] + 1] /\ g' = g

NextGroup ==
  /\ g <= NG /\ \A t \in 1..NThreads(g) : ~Pending(t)
  /\ PrintT(ToJson([group |-> g, calls |-> Cardinality(Calls(g))]))
  /\ g' = g + 1 /\ ptr' = Ptr0
  /\ idx' \in 0..(IF g + 1 <= NG THEN Rec[GroupStart(g + 1)].nt - 1 ELSE 0)

Next == (g <= NG /\ \E t \in 1..NThreads(g) : Lin(t)) \/ NextGroup
Spec == Init /\ [][Next]_vars

NotAccepted == g <= NG
=============================================================================
