------------------------- MODULE Trace_LoadBalancer -------------------------
(* Code -> spec direction for the balancer half of C09.  The harness runs K real threads against one
   EqMutex<LoadBalancer> and records, per selection, [t, r, inv, ret]: the thread, the target it got
   (1-based position in `targets`, 0 = none/panic) and two values of one global atomic counter taken
   before and after the operation.
     * "locked" groups: the thread takes the same mutex proxy_handler takes, calls select_target and
       draws ONE counter value while still holding the guard (inv = ret): the log order is the order
       of the critical sections, so the check is deterministic;
     * "handler" groups: the threads call proxy_handler itself (which locks internally) against
       NT loopback upstreams; inv/ret bracket the whole call, and TLC searches for a linearisation:
       an order that respects real time (ret(a) < inv(b) => a before b) in which every selection is
       the one LoadBalancer.tla's Sel_Read/Sel_Write produce from the current index.
   A file holds many groups, each introduced by a "cfg" record (nt, mode, start index).  The trace is
   accepted iff all groups can be linearised: the invariant NotAccepted is then VIOLATED (that is the
   success signal); if TLC finishes without a violation, no linearisation exists and the last printed
   group number tells where it stopped. *)
EXTENDS Naturals, Sequences, FiniteSets, TLC, Json, IOUtils

\* ---- the pure operators of LoadBalancer.tla (kept textually identical) -------------------------
TargetAt(i, n) == IF i < n THEN i + 1 ELSE 0
Advance(i, n, D) == IF "WrapLate" \in D THEN (IF i + 1 > n THEN 0 ELSE i + 1)
                    ELSE (IF i + 1 = n THEN 0 ELSE i + 1)
RandomChoices(n, D) == IF "RandomOffByOne" \in D THEN 0..n ELSE 1..n

Rec == ndJsonDeserialize(IOEnv.TRACE)
CfgIdx == { i \in 1..Len(Rec) : Rec[i].k = "cfg" }
NG == Cardinality(CfgIdx)
\* constant-level definitions are evaluated once by TLC
StartSeq == [x \in 1..NG |-> CHOOSE i \in CfgIdx : Cardinality({ j \in CfgIdx : j < i }) = x - 1]
GroupStart(x) == StartSeq[x]
GroupEnd(g) == IF g = NG THEN Len(Rec) ELSE GroupStart(g + 1) - 1
Calls(g) == (GroupStart(g) + 1)..GroupEnd(g)

VARIABLES g, done, idx
vars == <<g, done, idx>>
Init == g = 1 /\ done = {} /\ idx = (IF NG = 0 THEN 0 ELSE Rec[GroupStart(1)].start)

Lin(c) ==
  LET cf == Rec[GroupStart(g)] IN
  /\ c \notin done
  /\ \A d \in Calls(g) : Rec[d].ret < Rec[c].inv => d \in done
  /\ IF cf.mode = "RoundRobin"
     THEN Rec[c].r = TargetAt(idx, cf.nt) /\ idx' = Advance(idx, cf.nt, {})
     ELSE Rec[c].r \in RandomChoices(cf.nt, {}) /\ idx' = idx
  /\ done' = done \cup {c} /\ g' = g

NextGroup ==
  /\ g <= NG /\ done = Calls(g)
  /\ PrintT(ToJson([group |-> g, calls |-> Cardinality(Calls(g))]))
  /\ g' = g + 1 /\ done' = {}
  /\ idx' = IF g + 1 <= NG THEN Rec[GroupStart(g + 1)].start ELSE 0

Next == (g <= NG /\ \E c \in Calls(g) : Lin(c)) \/ NextGroup
Spec == Init /\ [][Next]_vars

NotAccepted == g <= NG
=============================================================================
