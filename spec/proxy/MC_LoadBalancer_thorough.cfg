CONSTANTS
  MaxNT = 4
  MaxThreads = 4
  MaxCalls = 3
  Modes = {"RoundRobin", "Random"}
  Record = FALSE
  Dev = {}
SPECIFICATION Spec
INVARIANTS Inv_Rotation Inv_InSet Inv_Index Inv_Mutex
PROPERTY Live_AllSelected
CHECK_DEADLOCK FALSE
