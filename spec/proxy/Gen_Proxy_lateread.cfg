CONSTANTS
  Codes <- Codes_one
  HdrSets <- Hdrs_none
  UnitSeq <- Units
  MaxBody = 1
  Framings = {"cl"}
  Kinds = {"lateread"}
  CutCodes <- Codes_none
  UpModes = {"pause"}
  Requests <- Req_pad8
  Routes <- Routes_one
  Entries = {"core"}
  Timeout = 3
  Record = TRUE
  Dev = {}
INIT Init
NEXT Next
INVARIANT GenInv
CHECK_DEADLOCK FALSE
