CONSTANTS
  Codes <- Codes_one
  HdrSets <- Hdrs_none
  UnitSeq <- Units
  MaxBody = 0
  Framings = {"cl"}
  Kinds = {"noread"}
  CutCodes <- Codes_none
  UpModes = {"fast"}
  Requests <- Req_pad
  Routes <- Routes_one
  Entries = {"core", "handler"}
  Timeout = 3
  Record = TRUE
  Dev = {}
INIT Init
NEXT Next
INVARIANT GenInv
CHECK_DEADLOCK FALSE
