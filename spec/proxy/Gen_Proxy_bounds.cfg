CONSTANTS
  Codes <- Codes_bound
  HdrSets <- Hdrs_bounds
  UnitSeq <- Units
  MaxBody = 1
  Framings = {"cl"}
  Kinds = {"ok", "garbage", "badcl", "shortcl"}
  CutCodes <- Codes_none
  UpModes = {"fast"}
  Requests <- Req_one
  Routes <- Routes_one
  Entries = {"core"}
  Timeout = 3
  Record = TRUE
  Dev = {}
INIT Init
NEXT Next
INVARIANTS GenInv Inv_Faithful Inv_Timely Inv_NoPanic
CHECK_DEADLOCK FALSE
