CONSTANTS
  Codes <- Codes_one
  HdrSets <- Hdrs_none
  UnitSeq <- Units
  MaxBody = 6
  Framings = {"cl", "chunked", "close"}
  Kinds = {"ok", "badchunk"}
  CutCodes <- Codes_one
  UpModes = {"free"}
  Requests <- Req_one
  Routes <- Routes_one
  Entries = {"core"}
  Timeout = 2
  Record = FALSE
  Dev = {}
SPECIFICATION Spec
INVARIANTS TypeOK Inv_Faithful Inv_NoPanic Inv_Forwarded Inv_Timely Inv_FoldAgrees
PROPERTY Live_Responds
CHECK_DEADLOCK FALSE
