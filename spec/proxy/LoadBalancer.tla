---------------------------- MODULE LoadBalancer ----------------------------
(* Property C09, second half: "targets are chosen strictly in rotation (round-robin) or from the
   configured set (random), also under concurrent requests".

   humphrey_server::proxy::proxy_handler does, per request,
        let mut guard = load_balancer.lock().unwrap();     Lock(t)
        let target = guard.select_target();                 Sel_Read(t); Sel_Write(t)
        drop(guard);                                        Unlock(t)
   and select_target (RoundRobin) is  target_index = self.index; self.index += 1;
   if self.index == self.targets.len() { self.index = 0 }; self.targets[target_index].
   The read and the write of `index` are modelled as separate steps so that the model shows what
   the mutex is for.  Targets are 1..NT; `index` is 0-based as in the code; `log` is the sequence
   of selections in the order of the critical sections (the linearisation). *)
EXTENDS Naturals, Sequences, FiniteSets, TLC

CONSTANTS MaxNT,      \* 1..MaxNT targets
          MaxThreads, \* 1..MaxThreads concurrent requests
          MaxCalls,   \* selections per thread
          Modes,      \* subset of {"RoundRobin", "Random"}
          Record,     \* TRUE: keep the whole log (otherwise only the last selection is kept)
          Dev         \* {} or sensitivity bugs: "NoLock", "IncrementOutsideLock", "SelectOnCloneWriteBack",
                      \* "WrapLate", "RandomOffByOne"

\* ---- pure part, shared with Trace_LoadBalancer -------------------------------------------------
\* the target selected at index i (0-based) out of n: 0 stands for the out-of-bounds panic
TargetAt(i, n) == IF i < n THEN i + 1 ELSE 0
Advance(i, n, D) == IF "WrapLate" \in D THEN (IF i + 1 > n THEN 0 ELSE i + 1)
                    ELSE (IF i + 1 = n THEN 0 ELSE i + 1)
\* the k-th selection (k = 1, 2, ...) of a balancer that started at index 0
Rotation(k, n) == ((k - 1) % n) + 1
RandomChoices(n, D) == IF "RandomOffByOne" \in D THEN 0..n ELSE 1..n

VARIABLES nt, threads, mode,     \* the configuration, chosen initially
          index, holder, pc, left, loc,
          cnt, last, log           \* number of selections, the last one [t, r], all of them when Record
vars == <<nt, threads, mode, index, holder, pc, left, loc, cnt, last, log>>
cfg == <<nt, threads, mode>>
All == 1..MaxThreads

Init == /\ nt \in 1..MaxNT /\ mode \in Modes
        /\ \E k \in 1..MaxThreads : threads = 1..k
        /\ index = 0 /\ holder = 0
        /\ pc = [t \in All |-> "idle"]
        /\ left = [t \in All |-> MaxCalls]
        /\ loc = [t \in All |-> 0]
        /\ cnt = 0 /\ last = [t |-> 0, r |-> 1] /\ log = <<>>

Holds(t) == holder = t \/ "NoLock" \in Dev
\* SelectOnCloneWriteBack ("hold the mutex only briefly"): the balancer is CLONED under the lock, select_target runs
\* on the clone with the lock released, and the clone is stored back under a second acquisition
CloneDev == "SelectOnCloneWriteBack" \in Dev
Select(t, r) == /\ cnt' = cnt + 1 /\ last' = [t |-> t, r |-> r]
                /\ log' = IF Record THEN Append(log, [t |-> t, r |-> r]) ELSE log

Lock(t) ==
  /\ pc[t] = "idle" /\ left[t] > 0 /\ (holder = 0 \/ "NoLock" \in Dev)
  /\ holder' = t /\ pc' = [pc EXCEPT ![t] = "read"]
  /\ UNCHANGED <<cfg, index, left, loc, cnt, last, log>>

\* let target_index = self.index  (Random: choose through the generator, index untouched)
Sel_Read(t) ==
  /\ pc[t] = "read" /\ Holds(t)
  /\ IF mode = "Random"
     THEN \E r \in RandomChoices(nt, Dev) :
            /\ Select(t, r)
            /\ pc' = [pc EXCEPT ![t] = "unlock"] /\ loc' = loc /\ holder' = holder
     ELSE IF CloneDev
     THEN /\ loc' = [loc EXCEPT ![t] = index]            \* let mut balancer = lock().clone()
          /\ pc' = [pc EXCEPT ![t] = "clone"] /\ holder' = 0
          /\ UNCHANGED <<cnt, last, log>>
     ELSE /\ loc' = [loc EXCEPT ![t] = index]
          /\ Select(t, TargetAt(index, nt))
          /\ pc' = [pc EXCEPT ![t] = IF "IncrementOutsideLock" \in Dev THEN "relock" ELSE "write"]
          /\ holder' = IF "IncrementOutsideLock" \in Dev THEN 0 ELSE holder
  /\ UNCHANGED <<cfg, index, left>>

\* balancer.select_target() on the clone, no lock held
Sel_OnClone(t) ==
  /\ pc[t] = "clone"
  /\ Select(t, TargetAt(loc[t], nt))
  /\ pc' = [pc EXCEPT ![t] = "relock"]
  /\ UNCHANGED <<cfg, index, holder, left, loc>>

Relock(t) ==
  /\ pc[t] = "relock" /\ holder = 0
  /\ holder' = t /\ pc' = [pc EXCEPT ![t] = "write"]
  /\ UNCHANGED <<cfg, index, left, loc, cnt, last, log>>

\* self.index += 1; if self.index == self.targets.len() { self.index = 0 }
Sel_Write(t) ==
  /\ pc[t] = "write" /\ Holds(t)
  /\ index' = Advance(loc[t], nt, Dev)
  /\ pc' = [pc EXCEPT ![t] = "unlock"]
  /\ UNCHANGED <<cfg, holder, left, loc, cnt, last, log>>

\* drop(guard)
Unlock(t) ==
  /\ pc[t] = "unlock"
  /\ holder' = IF holder = t THEN 0 ELSE holder
  /\ pc' = [pc EXCEPT ![t] = "idle"] /\ left' = [left EXCEPT ![t] = left[t] - 1]
  /\ UNCHANGED <<cfg, index, loc, cnt, last, log>>

Step(t) == Lock(t) \/ Sel_Read(t) \/ Sel_OnClone(t) \/ Relock(t) \/ Sel_Write(t) \/ Unlock(t)
A_Lock     == \E t \in threads : Lock(t)
A_SelRead  == \E t \in threads : Sel_Read(t)
A_OnClone  == \E t \in threads : Sel_OnClone(t)
A_Relock   == \E t \in threads : Relock(t)
A_SelWrite == \E t \in threads : Sel_Write(t)
A_Unlock   == \E t \in threads : Unlock(t)
Next == A_Lock \/ A_SelRead \/ A_OnClone \/ A_Relock \/ A_SelWrite \/ A_Unlock
Spec == Init /\ [][Next]_vars /\ \A t \in All : WF_vars(t \in threads /\ Step(t))

\* strictly in rotation, in the order of the critical sections: the k-th selection is target ((k-1) mod nt)+1
Inv_Rotation == (mode = "RoundRobin" /\ cnt > 0) => last.r = Rotation(cnt, nt)
Inv_RotationLog == (mode = "RoundRobin") => \A k \in 1..Len(log) : log[k].r = Rotation(k, nt)
\* from the configured set
Inv_InSet    == last.r \in 1..nt
Inv_Index    == index \in 0..(nt - 1)
Inv_Mutex    == \A t1, t2 \in threads : t1 # t2 => ~(pc[t1] \in {"read", "write"} /\ pc[t2] \in {"read", "write"})
\* every request gets its target (no thread waits for the mutex for ever)
Live_AllSelected == <>(\A t \in threads : left[t] = 0)
\* can-happen witnesses (their negations are expected to be violated): all targets get used, threads interleave
Never_AllTargetsUsed == ~(Record /\ nt = MaxNT /\ { log[k].r : k \in 1..Len(log) } = 1..nt)
Never_Interleaved    == ~(Record /\ \E i, j \in 1..Len(log) : i < j /\ j + 1 <= Len(log) /\ log[i].t = log[j + 1].t /\ log[i].t # log[j].t)
=============================================================================
