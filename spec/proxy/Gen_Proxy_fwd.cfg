CONSTANTS
  Codes <- Codes_one
  HdrSets <- Hdrs_none
  UnitSeq <- Units
  MaxBody = 0
  Framings = {"cl"}
  Kinds = {"ok"}
  CutCodes <- Codes_none
  UpModes = {"fast"}
  Requests <- Req_full
  Routes <- Routes_all
  Entries = {"core", "handler"}
  Timeout = 3
  Record = TRUE
  Dev = {}
INIT Init
NEXT Next
INVARIANT GenInv
CHECK_DEADLOCK FALSE
