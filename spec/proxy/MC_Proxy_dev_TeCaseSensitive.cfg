CONSTANTS
  Codes <- Codes_cut
  HdrSets <- Hdrs_one
  UnitSeq <- Units
  MaxBody = 1
  Framings = {"cl", "chunked", "close"}
  Kinds = {"ok", "tecase"}
  CutCodes <- Codes_cut
  UpModes = {"free"}
  Requests <- Req_one
  Routes <- Routes_one
  Entries = {"handler"}
  Timeout = 2
  Record = FALSE
  Dev = {"TeCaseSensitive"}
INIT Init
NEXT Next
INVARIANTS Inv_Faithful
CHECK_DEADLOCK FALSE
