CONSTANTS
  Codes <- Codes_quick
  HdrSets <- Hdrs_small
  UnitSeq <- Units
  MaxBody = 2
  Framings = {"cl", "chunked", "close"}
  Kinds = {"ok", "refuse", "blackhole", "noread", "garbage", "badhdr", "badcl", "shortcl", "badchunk", "tecase"}
  CutCodes <- Codes_quick
  UpModes = {"free"}
  Requests <- Req_one
  Routes <- Routes_one
  Entries = {"core", "handler"}
  Timeout = 3
  Record = FALSE
  Dev = {}
SPECIFICATION Spec
INVARIANTS TypeOK Inv_Faithful Inv_NoPanic Inv_Forwarded Inv_Timely Inv_FoldAgrees
PROPERTY Live_Responds
CHECK_DEADLOCK FALSE
