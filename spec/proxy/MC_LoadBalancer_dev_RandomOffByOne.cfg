CONSTANTS
  MaxNT = 3
  MaxThreads = 2
  MaxCalls = 2
  Modes = {"RoundRobin", "Random"}
  Record = FALSE
  Dev = {"RandomOffByOne"}
INIT Init
NEXT Next
INVARIANTS Inv_InSet
CHECK_DEADLOCK FALSE
