CONSTANTS
  Dev = {}
  MaxHops = 0
  RedirCodes = {}
  Kinds = {}
  Finals = {}
  FollowModes = {}
INIT TInit
NEXT TNext
INVARIANTS AllExplained ReturnedIsLast FollowedAll
CHECK_DEADLOCK FALSE
