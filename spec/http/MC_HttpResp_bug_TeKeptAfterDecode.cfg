CONSTANTS
  Dev = {"TeKeptAfterDecode"}
  Segmented = FALSE
  Families = {"api", "cl", "chunk", "bigchunk"}
  CodeMode = "few"
  HdrK = 2
  MaxHdrs = 1
  MaxBody = 2
  BodyMode = "len"
  StyleMode = "one"
  PhraseMode = "reg"
  ManyMode = "none"
  MaxBig = 17
INIT MCInit
NEXT Next
INVARIANTS SerValid RoundTrip ParCorrect Bounded LFIndexOk LemmaInv SrvDenotes NeverErr
CHECK_DEADLOCK FALSE
