CONSTANTS
  Dev = {}
  Segmented = FALSE
  Families = {"api", "cl", "chunk", "bigchunk"}
  CodeMode = "all"
  HdrK = 3
  MaxHdrs = 1
  MaxBody = 6
  BodyMode = "len"
  StyleMode = "all"
  PhraseMode = "free"
  ManyMode = "none"
  MaxBig = 48
INIT MCInit
NEXT GenNext
INVARIANT GenInv
CHECK_DEADLOCK FALSE
