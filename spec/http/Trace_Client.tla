---------------------------- MODULE Trace_Client ----------------------------
(* Code -> spec direction for the client half of C07.  The harness (httpresp client-random) plays random
   redirect scripts - chains of 0..5 hops over {301, 302, 307}, Location relative or absolute to either
   of two hosts, ending in a random non-followed status (200, 201, 206, 300, 303, 304, 305, 4xx, 5xx,
   3xx ones sometimes with a Location to a trap), Content-Length or chunked, bodies up to 64 KiB - against
   the real Client and logs, per run, the events seen at the two ends:

     Reset (follow, first target)   Req (host, path)   Resp (code, Location, id)   ...   Done (what send() returned)

   Each event must be a step of Client.tla: Req is Cl_Send with exactly the logged target, Resp is the
   environment's move (any response - the script is the harness's), Done is Cl_Return with exactly the
   logged result; Cl_Read and Cl_Redirect are the silent steps in between.

   Two levels of judging.  Client.tla is the model of the code: it follows exactly 301/302/307 and asks for
   each hop once.  The property only says "with redirect following enabled the client ends at the final
   non-redirect response" (and, without, returns what the server sent).  So
     - T_OptRedirect: a client that also follows a 300/303/305 carrying a Location is explained (the
       statement calls the final response "non-redirect"; such a response is a redirect) and noted as drift;
     - a run the model cannot explain otherwise is judged by PropHolds, the statement itself: the value
       returned is the last response the server sent in that run, it is not a 301/302/307 when following
       is on, it is the first response when following is off, and its payload is intact.  Accepted there:
       drift (reported, never a violation).  Rejected there too: the run is rejected.
   The replay resumes at the next Reset. *)
EXTENDS Client, Json, IOUtils

Rec == ndJsonDeserialize(IOEnv.TRACE)

\* Location string -> [kind, host, path] with host and path as strings
StartsW(s, p) == Len(s) >= Len(p) /\ SubSeq(s, 1, Len(p)) = p
RECURSIVE FindCh(_, _, _)
FindCh(s, c, i) == IF i > Len(s) THEN 0 ELSE IF SubSeq(s, i, i) = c THEN i ELSE FindCh(s, c, i + 1)
ParseLoc(s) ==
  IF s = "" THEN [kind |-> "none", host |-> "", path |-> ""]
  ELSE IF StartsW(s, "/") THEN [kind |-> "rel", host |-> "", path |-> s]
  ELSE IF StartsW(s, "http://")
       THEN LET rest == SubSeq(s, 8, Len(s))
                i    == FindCh(rest, "/", 1)
            IN IF i = 0 THEN [kind |-> "abs", host |-> rest, path |-> "/"]
               ELSE [kind |-> "abs", host |-> SubSeq(rest, 1, i - 1), path |-> SubSeq(rest, i, Len(rest))]
       ELSE [kind |-> "bad", host |-> "", path |-> ""]

VARIABLES l, bad, drift
tvars == <<vars, l, bad, drift>>

TInit == /\ l = 1 /\ bad = <<>> /\ drift = <<>>
         /\ pmode = "distinct"
         /\ cpc = "idle" /\ follow = FALSE /\ followNow = FALSE
         /\ target = [host |-> "", path |-> ""] /\ host0 = ""
         /\ expect = [host |-> "", path |-> ""] /\ ended = FALSE
         /\ sent = <<>> /\ reqs = <<>>
         /\ inflight = RespRec(0, ParseLoc(""), "cl", 0, [host |-> "", path |-> ""])
         /\ resp = inflight /\ got = inflight

E == Rec[l]
More == l <= Len(Rec)

T_Reset ==
  /\ More /\ E.ev = "Reset" /\ cpc \in {"idle", "done"}
  /\ cpc' = "send" /\ follow' = E.follow /\ followNow' = E.follow
  /\ target' = [host |-> E.host, path |-> E.path] /\ host0' = E.host
  /\ sent' = <<>> /\ reqs' = <<>>
  /\ l' = l + 1
  /\ UNCHANGED <<pmode, expect, ended, inflight, resp, got, bad, drift>>

T_Req ==
  /\ More /\ E.ev = "Req"
  /\ target = [host |-> E.host, path |-> E.path]
  /\ Cl_Send
  /\ l' = l + 1 /\ UNCHANGED <<bad, drift>>

T_Resp ==
  /\ More /\ E.ev = "Resp" /\ cpc = "await"
  /\ inflight' = RespRec(E.code, ParseLoc(E.location), "cl", E.id, target)
  /\ sent' = Append(sent, inflight')
  /\ cpc' = "read"
  /\ l' = l + 1
  /\ UNCHANGED <<pmode, follow, followNow, target, host0, expect, ended, reqs, resp, got, bad, drift>>

T_Done ==
  /\ More /\ E.ev = "Done" /\ E.res = "ok" /\ E.body_ok
  /\ Cl_Return
  /\ got'.code = E.code /\ got'.id = E.id /\ got'.loc = ParseLoc(E.location)
  /\ l' = l + 1 /\ UNCHANGED <<bad, drift>>

T_Silent == More /\ (Cl_Read \/ Cl_Redirect) /\ UNCHANGED <<l, bad, drift>>

\* leniency: the client follows a 3xx other than 301/302/307 that carries a Location (the next event is the
\* request for exactly that target)
OptFollow == {300, 303, 305}
T_OptRedirect ==
  /\ More /\ E.ev = "Req" /\ cpc = "decide" /\ followNow /\ resp.code \in OptFollow /\ resp.loc.kind \in {"rel", "abs"}
  /\ target' = IF resp.loc.kind = "rel" THEN [host |-> target.host, path |-> resp.loc.path]
                ELSE [host |-> resp.loc.host, path |-> resp.loc.path]
  /\ target' = [host |-> E.host, path |-> E.path]
  /\ cpc' = "send"
  /\ drift' = IF Len(drift) < 20 THEN Append(drift, [line |-> l, what |-> "followed a 3xx other than 301/302/307", code |-> resp.code]) ELSE drift
  /\ UNCHANGED <<pmode, follow, followNow, host0, expect, ended, sent, reqs, inflight, resp, got, l, bad>>

Regular == T_Reset \/ T_Req \/ T_Resp \/ T_Done \/ T_Silent \/ T_OptRedirect

\* least index > i of a Reset record, or Len(Rec) + 1
RECURSIVE NextReset(_)
NextReset(i) == IF i > Len(Rec) THEN i ELSE IF Rec[i].ev = "Reset" THEN i ELSE NextReset(i + 1)
\* the statement of the property, judged on the events of one run (lines a..b of the log)
RECURSIVE PrevReset(_)
PrevReset(i) == IF i <= 1 THEN 1 ELSE IF Rec[i].ev = "Reset" THEN i ELSE PrevReset(i - 1)
PropHolds(a, b) ==
  LET resps == { i \in a..b : Rec[i].ev = "Resp" }
      dones == { i \in a..b : Rec[i].ev = "Done" }
  IN /\ Rec[a].ev = "Reset" /\ dones = {b} /\ resps # {}
     /\ LET d     == Rec[b]
            lastr == Rec[CHOOSE i \in resps : \A j \in resps : j <= i]
            first == Rec[CHOOSE i \in resps : \A j \in resps : i <= j]
            same(r) == d.code = r.code /\ d.location = r.location /\ d.id = r.id
        IN /\ d.res = "ok" /\ d.body_ok
           /\ same(lastr)
           /\ Rec[a].follow => d.code \notin {301, 302, 307}
           /\ ~Rec[a].follow => same(first)
T_Stuck ==
  /\ More /\ ~ENABLED Regular
  /\ LET a   == IF E.ev = "Reset" THEN PrevReset(l - 1) ELSE PrevReset(l)     \* stuck at a Reset: the run before it is incomplete
         nx  == IF E.ev = "Reset" THEN l ELSE NextReset(l + 1)
         rec == [line |-> l, event |-> E, cpc |-> cpc, target |-> target, last_response |-> resp]
     IN /\ IF PropHolds(a, nx - 1)
           THEN /\ drift' = IF Len(drift) < 20 THEN Append(drift, [line |-> l, what |-> "run not explained by Client.tla but the statement holds on it", code |-> 0]) ELSE drift
                /\ bad' = bad
           ELSE /\ bad' = IF Len(bad) < 20 THEN Append(bad, rec) ELSE bad
                /\ drift' = drift
        /\ l' = nx
  /\ cpc' = "idle"
  /\ UNCHANGED <<pmode, follow, followNow, target, host0, expect, ended, sent, reqs, inflight, resp, got>>

TNext == Regular \/ T_Stuck
TSpec == TInit /\ [][TNext]_tvars

\* the model's invariants, evaluated in every state of the replay
ReturnedIsLast == (cpc = "done") => (got = Last(sent))
FollowedAll == (cpc = "done" /\ follow) => ~IsRedirect(got)
\* at the last state: every run was explained and the last one is complete
AllExplained == (l = Len(Rec) + 1) =>
  /\ PrintT(ToJson([n |-> Len(Rec), rejected |-> bad, drift |-> drift, complete |-> (cpc \in {"idle", "done"})]))
  /\ bad = <<>> /\ cpc \in {"idle", "done"}
=============================================================================
