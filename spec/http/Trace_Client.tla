---------------------------- MODULE Trace_Client ----------------------------
(* Code -> spec direction for the client half of C07.  The harness (httpresp client-random) plays random
   redirect scripts - chains of 0..8 hops over {301, 302, 307}, Location relative or absolute to either
   of two hosts, ending in a random non-followed status (200, 201, 206, 300, 303, 304, 305, 4xx, 5xx,
   3xx ones sometimes with a Location to a trap), Content-Length or chunked, bodies up to 64 KiB - against
   the real Client and logs, per run, the events seen at the two ends:

     Reset (follow, first target)   Req (host, path)   Resp (code, Location, id)   ...   Done (what send() returned)

   Each event must be a step of Client.tla: Req is Cl_Send with exactly the logged target, Resp is the
   environment's move (any response - the script is the harness's), Done is Cl_Return with exactly the
   logged result; Cl_Read and Cl_Redirect are the silent steps in between.  An event no action explains
   is recorded (with its line) and the replay resumes at the next Reset. *)
EXTENDS Client, Json, IOUtils

Rec == ndJsonDeserialize(IOEnv.TRACE)

\* Location string -> [kind, host, path] with host and path as strings
StartsW(s, p) == Len(s) >= Len(p) /\ SubSeq(s, 1, Len(p)) = p
RECURSIVE FindCh(_, _, _)
FindCh(s, c, i) == IF i > Len(s) THEN 0 ELSE IF SubSeq(s, i, i) = c THEN i ELSE FindCh(s, c, i + 1)
ParseLoc(s) ==
  IF s = "" THEN [kind |-> "none", host |-> "", path |-> ""]
  ELSE IF StartsW(s, "/") THEN [kind |-> "rel", host |-> "", path |-> s]
  ELSE IF StartsW(s, "http://")
       THEN LET rest == SubSeq(s, 8, Len(s))
                i    == FindCh(rest, "/", 1)
            IN IF i = 0 THEN [kind |-> "abs", host |-> rest, path |-> "/"]
               ELSE [kind |-> "abs", host |-> SubSeq(rest, 1, i - 1), path |-> SubSeq(rest, i, Len(rest))]
       ELSE [kind |-> "bad", host |-> "", path |-> ""]

VARIABLES l, bad
tvars == <<vars, l, bad>>

TInit == /\ l = 1 /\ bad = <<>>
         /\ cpc = "idle" /\ follow = FALSE /\ followNow = FALSE
         /\ target = [host |-> "", path |-> ""] /\ host0 = ""
         /\ expect = [host |-> "", path |-> ""] /\ ended = FALSE
         /\ sent = <<>> /\ reqs = <<>>
         /\ inflight = RespRec(0, ParseLoc(""), "cl", 0, [host |-> "", path |-> ""])
         /\ resp = inflight /\ got = inflight

E == Rec[l]
More == l <= Len(Rec)

T_Reset ==
  /\ More /\ E.ev = "Reset" /\ cpc \in {"idle", "done"}
  /\ cpc' = "send" /\ follow' = E.follow /\ followNow' = E.follow
  /\ target' = [host |-> E.host, path |-> E.path] /\ host0' = E.host
  /\ sent' = <<>> /\ reqs' = <<>>
  /\ l' = l + 1
  /\ UNCHANGED <<expect, ended, inflight, resp, got, bad>>

T_Req ==
  /\ More /\ E.ev = "Req"
  /\ target = [host |-> E.host, path |-> E.path]
  /\ Cl_Send
  /\ l' = l + 1 /\ UNCHANGED bad

T_Resp ==
  /\ More /\ E.ev = "Resp" /\ cpc = "await"
  /\ inflight' = RespRec(E.code, ParseLoc(E.location), "cl", E.id, target)
  /\ sent' = Append(sent, inflight')
  /\ cpc' = "read"
  /\ l' = l + 1
  /\ UNCHANGED <<follow, followNow, target, host0, expect, ended, reqs, resp, got, bad>>

T_Done ==
  /\ More /\ E.ev = "Done" /\ E.res = "ok" /\ E.body_ok
  /\ Cl_Return
  /\ got'.code = E.code /\ got'.id = E.id /\ got'.loc = ParseLoc(E.location)
  /\ l' = l + 1 /\ UNCHANGED bad

T_Silent == More /\ (Cl_Read \/ Cl_Redirect) /\ UNCHANGED <<l, bad>>

Regular == T_Reset \/ T_Req \/ T_Resp \/ T_Done \/ T_Silent

\* least index > i of a Reset record, or Len(Rec) + 1
RECURSIVE NextReset(_)
NextReset(i) == IF i > Len(Rec) THEN i ELSE IF Rec[i].ev = "Reset" THEN i ELSE NextReset(i + 1)
T_Stuck ==
  /\ More /\ ~ENABLED Regular
  /\ bad' = IF Len(bad) < 20 THEN Append(bad, [line |-> l, event |-> E, cpc |-> cpc, target |-> target, last_response |-> resp]) ELSE bad
  /\ l' = NextReset(l + 1)
  /\ cpc' = "idle"
  /\ UNCHANGED <<follow, followNow, target, host0, expect, ended, sent, reqs, inflight, resp, got>>

TNext == Regular \/ T_Stuck
TSpec == TInit /\ [][TNext]_tvars

\* the model's invariants, evaluated in every state of the replay
ReturnedIsLast == (cpc = "done") => (got = Last(sent))
FollowedAll == (cpc = "done" /\ follow) => ~IsRedirect(got)
\* at the last state: every run was explained and the last one is complete
AllExplained == (l = Len(Rec) + 1) =>
  /\ PrintT(ToJson([n |-> Len(Rec), rejected |-> bad, complete |-> (cpc \in {"idle", "done"})]))
  /\ bad = <<>> /\ cpc \in {"idle", "done"}
=============================================================================
