SPECIFICATION Spec
INVARIANTS AllAgree
CHECK_DEADLOCK FALSE
CONSTANTS
  Dev = {}
