CONSTANTS
  Dev = {"SingleRead"}
  Segmented = TRUE
  Families = {"api", "cl", "chunk", "bigchunk"}
  CodeMode = "one"
  HdrK = 1
  MaxHdrs = 1
  MaxBody = 2
  BodyMode = "len"
  StyleMode = "one"
  PhraseMode = "reg"
  ManyMode = "none"
  MaxBig = 10
INIT MCInit
NEXT Next
INVARIANTS SerValid RoundTrip ParCorrect Bounded LFIndexOk LemmaInv SrvDenotes NeverErr
CHECK_DEADLOCK FALSE
