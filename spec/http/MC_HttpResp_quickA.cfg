CONSTANTS
  Dev = {}
  Segmented = FALSE
  Families = {"api", "cl", "chunk", "bigchunk"}
  CodeMode = "all"
  HdrK = 1
  MaxHdrs = 1
  MaxBody = 2
  BodyMode = "len"
  StyleMode = "one"
  PhraseMode = "free"
  ManyMode = "none"
  MaxBig = 17
INIT MCInit
NEXT Next
INVARIANTS SerValid RoundTrip ParCorrect Bounded LFIndexOk LemmaInv SrvDenotes NeverErr
CHECK_DEADLOCK FALSE
