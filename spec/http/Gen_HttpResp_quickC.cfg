CONSTANTS
  Dev = {}
  Segmented = FALSE
  Families = {"chunk"}
  CodeMode = "one"
  HdrK = 1
  MaxHdrs = 0
  MaxBody = 4
  BodyMode = "all"
  StyleMode = "all"
  PhraseMode = "reg"
  ManyMode = "none"
  MaxBig = 9
INIT MCInit
NEXT GenNext
INVARIANT GenInv
CHECK_DEADLOCK FALSE
