CONSTANTS
  Dev = {"UnstableSameNameOrder"}
  Segmented = FALSE
  Families = {"api"}
  CodeMode = "few"
  HdrK = 3
  MaxHdrs = 2
  MaxBody = 2
  BodyMode = "len"
  StyleMode = "one"
  PhraseMode = "reg"
  ManyMode = "none"
  MaxBig = 17
INIT MCInit
NEXT Next
INVARIANTS SerValid RoundTrip ParCorrect Bounded LFIndexOk LemmaInv SrvDenotes NeverErr
CHECK_DEADLOCK FALSE
