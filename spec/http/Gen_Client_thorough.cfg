CONSTANTS
  Dev = {}
  MaxHops = 5
  RedirCodes = {301, 302, 307}
  Kinds = {"rel", "abs"}
  Finals <- MCFinalsSmall
  FollowModes = {TRUE}
INIT Init
NEXT Next
INVARIANTS GenInv EndsAtFinal NoFollowReturnsFirst
CHECK_DEADLOCK FALSE
