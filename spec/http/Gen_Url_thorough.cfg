CONSTANTS
  Dev = {}
  MaxRest = 5
  Schemes = {"http"}
INIT GenInit
NEXT GenNext
INVARIANT GenInv
CHECK_DEADLOCK FALSE
