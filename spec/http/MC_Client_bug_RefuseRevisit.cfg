CONSTANTS
  Dev = {"RefuseRevisit"}
  MaxHops = 3
  RedirCodes = {301, 302, 307}
  Kinds = {"rel", "abs"}
  Finals <- MCFinals
  PathModes <- MCPathModes
  FollowModes = {TRUE, FALSE}
INIT Init
NEXT Next
INVARIANTS EndsAtFinal OneRequestPerHop NoFollowReturnsFirst NeverLost NoError
CHECK_DEADLOCK FALSE
