CONSTANTS
  Dev = {}
  Segmented = FALSE
  Families = {"chunk"}
  CodeMode = "one"
  HdrK = 1
  MaxHdrs = 0
  MaxBody = 4
  BodyMode = "all"
  StyleMode = "all"
  PhraseMode = "reg"
  ManyMode = "none"
  MaxBig = 9
INIT MCInit
NEXT Next
INVARIANTS SerValid RoundTrip ParCorrect Bounded LFIndexOk LemmaInv SrvDenotes NeverErr
CHECK_DEADLOCK FALSE
