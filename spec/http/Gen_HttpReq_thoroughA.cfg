CONSTANTS
  StartLines <- SL_All
  Cat <- Catalogue
  HdrIdx = {1,6,9,11,14,16,17,19,21,24,26,29,32}
  MaxH = 1
  Bodies <- Bodies6
  Peers <- PeersTwo
  ClNames <- ClThree
  ClPos = {"first","last"}
  Mode = "lemma"
  Cap = 8192
  Dev = {}
INIT InitAT
NEXT Next
INVARIANTS GenInv
CHECK_DEADLOCK FALSE
