CONSTANTS
  StartLines <- SL_All
  Cat <- Catalogue
  HdrIdx = {1,2,3,4,5,6,7,8,9,10,11,12,13,14,15,16,17,18,19,20,21,22}
  MaxH = 1
  Bodies <- Bodies6
  Peers <- PeersTwo
  ClNames <- ClTwo
  ClPos = {"first","last"}
  Mode = "lemma"
  Cap = 8192
  Dev = {}
INIT Init
NEXT Next
INVARIANTS GenInv
CHECK_DEADLOCK FALSE
