--------------------------- MODULE HttpReqSyntax ---------------------------
(* HTTP/1.x requests, written twice (property C02):

     - as a *syntax tree* r (what a client meant to send): method, path, optional query, version,
       header fields [name as spelt, OWS after the colon, structured value], body;
     - as a *byte sequence* b (what is on the wire).

   Render(r) lays a tree out as bytes (RFC 7230 section 3); Denote(b, peer) is the meaning of a byte
   sequence read from the front of a connection whose TCP peer is `peer`, written from RFC 7230
   (request-line, header-field = field-name ":" OWS field-value OWS, message body delimited by
   Content-Length), RFC 6265 section 4.2 (cookie-string) and the de-facto definition of X-Forwarded-For
   (comma separated list with optional whitespace, the last listed address is the origin, the
   earlier ones and the peer are the proxies, as pinned by test_proxied_request_from_stream),
   restricted to what the property states.  Norm(r, peer) is the same meaning read off the tree
   *without* looking at bytes.  The lemmas Denote(Render(r)) = Norm(r) and
   Denote(Render(Inject(Denote(b)))) = Denote(b) are checked by TLC over the bounded grammar
   (HttpReq.tla), so the oracle handed to the harness is self-consistent.

   Bytes are *symbols*: a printable ASCII character other than % " \ is the one-character string,
   every other byte is "%HH" (upper-case hex).  A symbol sequence therefore flattens (Flat) to a
   percent-encoded string that the harness decodes byte for byte; no other mapping is trusted.

   This module has no variables: it is EXTENDed by HttpReq (model) and Trace_HttpReq (trace spec). *)
EXTENDS Integers, Sequences, FiniteSets, TLC
LOCAL INSTANCE SequencesExt          \* FoldLeft only (Java-implemented fold)

SP == " "      HT == "%09"    CR == "%0D"    LF == "%0A"    NUL == "%00"
COLON == ":"   QM == "?"      COMMA == ","   SEMI == ";"    EQS == "="     DOT == "."    SLASH == "/"

IsOWS(c) == c = SP \/ c = HT          \* RFC 7230: OWS = *( SP / HTAB ) - nothing else is optional whitespace

(***************************************************************************)
(* Character tables                                                        *)
(***************************************************************************)
UC == <<"A","B","C","D","E","F","G","H","I","J","K","L","M","N","O","P","Q","R","S","T","U","V","W","X","Y","Z">>
LC == <<"a","b","c","d","e","f","g","h","i","j","k","l","m","n","o","p","q","r","s","t","u","v","w","x","y","z">>
DG == <<"0","1","2","3","4","5","6","7","8","9">>
UCSet == { UC[i] : i \in 1..26 }
LowerFn == [ c \in UCSet |-> LC[CHOOSE i \in 1..26 : UC[i] = c] ]
DigitFn == [ c \in { DG[i] : i \in 1..10 } |-> (CHOOSE i \in 1..10 : DG[i] = c) - 1 ]
HexSet  == DOMAIN DigitFn \cup {"a","b","c","d","e","f","A","B","C","D","E","F"}
\* tchar of RFC 7230 (field names, methods)
TChar == UCSet \cup { LC[i] : i \in 1..26 } \cup DOMAIN DigitFn
           \cup {"!","#","$","&","'","*","+","-",".","^","_","`","|","~"}

Lower(c)    == IF c \in UCSet THEN LowerFn[c] ELSE c
LowerSeq(s) == [ i \in 1..Len(s) |-> Lower(s[i]) ]
LCSet == { LC[i] : i \in 1..26 }
UpperFn == [ c \in LCSet |-> UC[CHOOSE i \in 1..26 : LC[i] = c] ]
UpperSeq(s) == [ i \in 1..Len(s) |-> IF s[i] \in LCSet THEN UpperFn[s[i]] ELSE s[i] ]    \* ASCII only, like Lower
IsDigits(s) == \A i \in 1..Len(s) : s[i] \in DOMAIN DigitFn

RECURSIVE DecVal(_, _, _)
DecVal(s, i, acc) == IF i > Len(s) THEN acc ELSE DecVal(s, i + 1, acc * 10 + DigitFn[s[i]])
\* 1*DIGIT, bounded to 9 digits (TLC integers are 32-bit); -1 = not a number
ParseDec(s) == IF s # <<>> /\ Len(s) <= 9 /\ IsDigits(s) THEN DecVal(s, 1, 0) ELSE -1
RECURSIVE Dec(_)
Dec(n) == IF n < 10 THEN <<DG[n + 1]>> ELSE Dec(n \div 10) \o <<DG[(n % 10) + 1]>>

(***************************************************************************)
(* Sequence helpers.  Scanning is written with set comprehensions rather than recursion on    *)
(* the index: TLC's cost of a recursion of depth n is quadratic in n (context chain), and    *)
(* the trace direction scans heads of 16 000 symbols.                                        *)
(***************************************************************************)
MinOf(S) == CHOOSE x \in S : \A y \in S : x <= y
\* smallest j >= i with s[j] = c, 0 if there is none
IndexFrom(s, i, c) == LET S == { j \in i..Len(s) : s[j] = c } IN IF S = {} THEN 0 ELSE MinOf(S)

RECURSIVE SplitFrom(_, _, _)
SplitFrom(s, i, c) == LET j == IndexFrom(s, i, c)
                      IN IF j = 0 THEN << SubSeq(s, i, Len(s)) >>
                         ELSE << SubSeq(s, i, j - 1) >> \o SplitFrom(s, j + 1, c)
Split(s, c) == SplitFrom(s, 1, c)

RECURSIVE FirstNonOWS(_, _)
FirstNonOWS(s, i) == IF i > Len(s) THEN i ELSE IF IsOWS(s[i]) THEN FirstNonOWS(s, i + 1) ELSE i
RECURSIVE LastNonOWS(_, _)
LastNonOWS(s, i) == IF i < 1 THEN 0 ELSE IF IsOWS(s[i]) THEN LastNonOWS(s, i - 1) ELSE i
TrimL(s) == SubSeq(s, FirstNonOWS(s, 1), Len(s))
Trim(s)  == SubSeq(s, FirstNonOWS(s, 1), LastNonOWS(s, Len(s)))

RECURSIVE Concat(_)
Concat(ss) == IF ss = <<>> THEN <<>> ELSE Head(ss) \o Concat(Tail(ss))
RECURSIVE Join(_, _)
Join(ss, sep) == IF ss = <<>> THEN <<>> ELSE IF Len(ss) = 1 THEN ss[1] ELSE ss[1] \o sep \o Join(Tail(ss), sep)

\* percent-encoded text of a symbol sequence (TLC concatenates strings with \o)
Str(s) == FoldLeft(LAMBDA acc, x : acc \o x, "", s)

(***************************************************************************)
(* Addresses.  An X-Forwarded-For entry counts when, after removing OWS    *)
(* around it, it is an IPv4 dotted quad or an IPv6 address in the          *)
(* hexadecimal notation (RFC 4291 2.2 forms 1 and 2); anything else        *)
(* ("unknown", obfuscated identifiers, host:port) is skipped.  Address     *)
(* values are compared as text, so the grammar below is only ever applied  *)
(* to canonical spellings (no leading zeros, lower-case, shortest ::).     *)
(***************************************************************************)
IsDecOctet(s) == /\ Len(s) \in 1..3 /\ IsDigits(s)
                 /\ (Len(s) = 1 \/ s[1] # "0")
                 /\ DecVal(s, 1, 0) <= 255
IsIPv4(s) == LET p == Split(s, DOT) IN Len(p) = 4 /\ \A i \in 1..4 : IsDecOctet(p[i])
IsH16(s)  == Len(s) \in 1..4 /\ \A i \in 1..Len(s) : s[i] \in HexSet
IsIPv6(s) == LET p == Split(s, COLON)
                 n == Len(p)
                 E == { i \in 1..n : p[i] = <<>> }
             IN /\ n \in 3..9
                /\ \A i \in (1..n) \ E : IsH16(p[i])
                /\ \/ E = {} /\ n = 8                                  \* x:x:x:x:x:x:x:x
                   \/ n <= 8 /\ \E k \in 2..(n - 1) : E = {k}          \* a::b
                   \/ E = {1, 2}                                        \* ::b
                   \/ E = {n - 1, n}                                    \* a::
                   \/ n = 3 /\ E = {1, 2, 3}                            \* ::
IsIp(s) == IsIPv4(s) \/ IsIPv6(s)

(***************************************************************************)
(* Field lists: sequences of <<lower-case name, value>>                    *)
(***************************************************************************)
N_CL     == <<"c","o","n","t","e","n","t","-","l","e","n","g","t","h">>
N_COOKIE == <<"c","o","o","k","i","e">>
N_XFF    == <<"x","-","f","o","r","w","a","r","d","e","d","-","f","o","r">>

NoValue == [has |-> FALSE, v |-> <<>>]
FirstValue(fields, name) ==
  LET I == { i \in 1..Len(fields) : fields[i][1] = name }
  IN IF I = {} THEN NoValue ELSE [has |-> TRUE, v |-> fields[MinOf(I)][2]]
ValuesOf(fields, name) ==
  LET sel == SelectSeq(fields, LAMBDA f : f[1] = name) IN [ i \in 1..Len(sel) |-> sel[i][2] ]
NamesOf(fields) == { fields[i][1] : i \in 1..Len(fields) }

\* peer = [ip |-> symbols, port |-> Nat]
Direct(peer) == [origin |-> peer.ip, proxies |-> <<>>, port |-> peer.port]

(* trim = TRUE and originLast = TRUE is the meaning; the two flags exist so that the model of the
   code (HttpReq.tla) can express the deviations XffUntrimmed and XffFirstIsOrigin with the same text *)
AddrFromList(v, peer, trim, originLast) ==
  LET ents == Split(v, COMMA)
      cand == [ i \in 1..Len(ents) |-> IF trim THEN Trim(ents[i]) ELSE ents[i] ]
      ips  == SelectSeq(cand, IsIp)
      n    == Len(ips)
  IN IF n = 0 THEN Direct(peer)
     ELSE IF originLast
          THEN [origin |-> ips[n], proxies |-> SubSeq(ips, 1, n - 1) \o <<peer.ip>>, port |-> peer.port]
          ELSE [origin |-> ips[1], proxies |-> SubSeq(ips, 2, n) \o <<peer.ip>>, port |-> peer.port]
AddrGen(fields, peer, trim, originLast) ==
  LET x == FirstValue(fields, N_XFF)
  IN IF x.has THEN AddrFromList(x.v, peer, trim, originLast) ELSE Direct(peer)
AddrOf(fields, peer) == AddrGen(fields, peer, TRUE, TRUE)

(* cookie-string = cookie-pair *( ";" SP cookie-pair ), cookie-pair = name "=" value: split on ';',
   then on the first '='; whitespace around names and values is not part of them *)
CookiesOfValue(v) ==
  LET pcs  == Split(v, SEMI)
      prs  == SelectSeq(pcs, LAMBDA p : IndexFrom(p, 1, EQS) # 0)
  IN [ i \in 1..Len(prs) |-> LET e == IndexFrom(prs[i], 1, EQS)
                             IN << Trim(SubSeq(prs[i], 1, e - 1)), Trim(SubSeq(prs[i], e + 1, Len(prs[i]))) >> ]
CookiesOf(fields) ==
  LET c == FirstValue(fields, N_COOKIE) IN IF c.has THEN CookiesOfValue(c.v) ELSE <<>>

(***************************************************************************)
(* Syntax trees                                                            *)
(*   r = [method, path, hasq, query, version, headers, hasBody, body]      *)
(*   header = [name, ows, kind, value, pairs, psep, entries]               *)
(*     kind "plain":  value is the field value                             *)
(*     kind "cookie": pairs = pieces joined with psep; a piece is           *)
(*                    <<name, value>> (written name "=" value) or <<text>> *)
(*                    (no "=": not a cookie-pair, it denotes nothing)      *)
(*     kind "xff":    entries = <<[pre, txt, post, ip], ...>> joined with  *)
(*                    ","; pre/post are OWS runs, ip says whether txt is   *)
(*                    meant as an address                                  *)
(*   every header record has all seven fields (TLC wants one shape).       *)
(***************************************************************************)
Methods == { <<"G","E","T">>, <<"P","O","S","T">>, <<"P","U","T">>, <<"D","E","L","E","T","E">>,
             <<"O","P","T","I","O","N","S">> }

Plain(name, ows, value) ==
  [name |-> name, ows |-> ows, kind |-> "plain", value |-> value, pairs |-> <<>>, psep |-> <<>>, entries |-> <<>>]
CookieH(name, ows, pairs, psep) ==
  [name |-> name, ows |-> ows, kind |-> "cookie", value |-> <<>>, pairs |-> pairs, psep |-> psep, entries |-> <<>>]
XffH(name, ows, entries) ==
  [name |-> name, ows |-> ows, kind |-> "xff", value |-> <<>>, pairs |-> <<>>, psep |-> <<>>, entries |-> entries]
Ent(pre, txt, post, ip) == [pre |-> pre, txt |-> txt, post |-> post, ip |-> ip]

HValue(h) ==
  CASE h.kind = "plain"  -> h.value
    [] h.kind = "cookie" -> Join([ i \in 1..Len(h.pairs) |-> IF Len(h.pairs[i]) = 2 THEN h.pairs[i][1] \o <<EQS>> \o h.pairs[i][2]
                                                              ELSE h.pairs[i][1] ], h.psep)
    [] h.kind = "xff"    -> Join([ i \in 1..Len(h.entries) |-> h.entries[i].pre \o h.entries[i].txt \o h.entries[i].post ],
                                 <<COMMA>>)

NoSym(s, bad) == \A i \in 1..Len(s) : s[i] \notin bad
AllOWS(s) == \A i \in 1..Len(s) : IsOWS(s[i])
EdgeFree(s) == s = <<>> \/ (~IsOWS(s[1]) /\ ~IsOWS(s[Len(s)]))      \* no leading / trailing OWS

WfHeader(h) ==
  /\ h.name # <<>> /\ \A i \in 1..Len(h.name) : h.name[i] \in TChar
  /\ AllOWS(h.ows)
  /\ LET v == HValue(h) IN NoSym(v, {CR, LF, NUL}) /\ EdgeFree(v)
  /\ h.kind \in {"plain", "cookie", "xff"}
  /\ (h.kind = "plain")  => LowerSeq(h.name) \notin {N_COOKIE, N_XFF, N_CL}
  /\ (h.kind = "cookie") => /\ LowerSeq(h.name) = N_COOKIE
                            /\ h.psep \in { <<SEMI>>, <<SEMI, SP>> }
                            /\ \A i \in 1..Len(h.pairs) :
                                 /\ Len(h.pairs[i]) \in {1, 2}
                                 /\ NoSym(h.pairs[i][1], {SEMI, EQS, SP, HT})        \* the name may be empty (a lone "=")
                                 /\ Len(h.pairs[i]) = 2 => NoSym(h.pairs[i][2], {SEMI, SP, HT})
  /\ (h.kind = "xff")    => /\ LowerSeq(h.name) = N_XFF
                            /\ h.entries # <<>>
                            /\ h.entries[1].pre = <<>> /\ h.entries[Len(h.entries)].post = <<>>
                            /\ \A i \in 1..Len(h.entries) :
                                 /\ AllOWS(h.entries[i].pre) /\ AllOWS(h.entries[i].post)
                                 /\ NoSym(h.entries[i].txt, {COMMA, SP, HT})
                                 /\ (h.entries[i].txt = <<>> => h.entries[i].pre = <<>> /\ h.entries[i].post = <<>>)   \* ",," and a lone ","

WfTree(r) ==
  /\ r.method \in Methods
  /\ r.path # <<>> /\ r.path[1] = SLASH /\ NoSym(r.path, {SP, QM, CR, LF, HT, NUL})
  /\ NoSym(r.query, {SP, CR, LF, HT, NUL}) /\ (~r.hasq => r.query = <<>>)
  /\ r.version # <<>> /\ NoSym(r.version, {SP, CR, LF})
  /\ \A i \in 1..Len(r.headers) : WfHeader(r.headers[i])
  /\ Cardinality({ i \in 1..Len(r.headers) : r.headers[i].kind = "cookie" }) <= 1
  /\ Cardinality({ i \in 1..Len(r.headers) : r.headers[i].kind = "xff" }) <= 1
  /\ (~r.hasBody => r.body = <<>>)

(***************************************************************************)
(* Render: tree -> bytes.  A request with a body carries exactly one       *)
(* Content-Length field, inserted after the first clAfter fields.          *)
(***************************************************************************)
RenderHeader(h) == h.name \o <<COLON>> \o h.ows \o HValue(h) \o <<CR, LF>>
ClHeader(r, clName) == Plain(clName, <<SP>>, Dec(Len(r.body)))
\* the list of fields that goes on the wire (Content-Length made explicit)
WireHeaders(r, clName, clAfter) ==
  IF r.hasBody
  THEN SubSeq(r.headers, 1, clAfter) \o << ClHeader(r, clName) >> \o SubSeq(r.headers, clAfter + 1, Len(r.headers))
  ELSE r.headers
RenderWith(r, hs) ==
  r.method \o <<SP>> \o r.path \o (IF r.hasq THEN <<QM>> \o r.query ELSE <<>>) \o <<SP>> \o r.version \o <<CR, LF>>
    \o Concat([ i \in 1..Len(hs) |-> RenderHeader(hs[i]) ]) \o <<CR, LF>> \o r.body
Render(r, clName, clAfter) == RenderWith(r, WireHeaders(r, clName, clAfter))

(***************************************************************************)
(* The abstract request (what parsing must produce)                        *)
(*  [ok, method, path, query, version, headers (<<lower name, value>>),    *)
(*   hasBody, body, addr, cookies, used]                                   *)
(* hasBody distinguishes "no Content-Length" from "Content-Length: 0"; it  *)
(* is reported but is not part of request equality (both denote an empty   *)
(* body).  used = number of bytes that belong to the request.              *)
(***************************************************************************)
NoAddr == [origin |-> <<>>, proxies |-> <<>>, port |-> 0]
Bad == [ok |-> FALSE, method |-> <<>>, path |-> <<>>, query |-> <<>>, version |-> <<>>, headers |-> <<>>,
        hasBody |-> FALSE, body |-> <<>>, addr |-> NoAddr, cookies |-> <<>>, used |-> 0]

(* Norm: meaning of a tree, read off its structure (of the rendered bytes only their number is used) *)
NormFields(hs) == [ i \in 1..Len(hs) |-> << LowerSeq(hs[i].name), HValue(hs[i]) >> ]
Norm(r, clName, clAfter, peer) ==
  LET hs  == WireHeaders(r, clName, clAfter)
      ck  == SelectSeq(hs, LAMBDA h : h.kind = "cookie")
      xf  == SelectSeq(hs, LAMBDA h : h.kind = "xff")
      ips == IF xf = <<>> THEN <<>> ELSE SelectSeq(xf[1].entries, LAMBDA e : e.ip)
      n   == Len(ips)
  IN [ok |-> TRUE, method |-> r.method, path |-> r.path, query |-> r.query, version |-> r.version,
      headers |-> NormFields(hs), hasBody |-> r.hasBody, body |-> r.body,
      addr |-> IF n = 0 THEN Direct(peer)
               ELSE [origin |-> ips[n].txt, proxies |-> [ i \in 1..(n - 1) |-> ips[i].txt ] \o <<peer.ip>>, port |-> peer.port],
      cookies |-> IF ck = <<>> THEN <<>> ELSE SelectSeq(ck[1].pairs, LAMBDA pc : Len(pc) = 2),
      used |-> Len(RenderWith(r, hs))]

(***************************************************************************)
(* Denote: bytes -> abstract request                                       *)
(***************************************************************************)
\* request-line = method SP request-target SP HTTP-version (line given without CRLF);
\* origin-form target = absolute-path [ "?" query ]: the first "?" separates, later ones belong to the query
StartLine(line) ==
  LET s1  == IndexFrom(line, 1, SP)
      s2  == IF s1 = 0 THEN 0 ELSE IndexFrom(line, s1 + 1, SP)
      tgt == SubSeq(line, s1 + 1, s2 - 1)
      q   == IndexFrom(tgt, 1, QM)
  IN [ok |-> /\ s1 > 1 /\ s2 > s1 + 1 /\ s2 < Len(line)
             /\ IndexFrom(line, s2 + 1, SP) = 0
             /\ SubSeq(line, 1, s1 - 1) \in Methods
             /\ tgt[1] = SLASH,
      method  |-> SubSeq(line, 1, s1 - 1),
      path    |-> IF q = 0 THEN tgt ELSE SubSeq(tgt, 1, q - 1),
      query   |-> IF q = 0 THEN <<>> ELSE SubSeq(tgt, q + 1, Len(tgt)),
      version |-> SubSeq(line, s2 + 1, Len(line))]

\* header-field lines from index i up to and including the empty line.
\* field value: everything after the first ":" with leading OWS removed (values in the property's
\* domain have no trailing whitespace, so trailing OWS is not modelled).
RECURSIVE Fields(_, _)
Fields(b, i) ==
  LET e == IndexFrom(b, i, LF)
  IN IF e = 0 \/ e < i + 1 THEN [ok |-> FALSE, fields |-> <<>>, next |-> 0]
     ELSE IF e = i + 1 /\ b[i] = CR THEN [ok |-> TRUE, fields |-> <<>>, next |-> e + 1]
     ELSE LET line == SubSeq(b, i, e - 2)
              c    == IndexFrom(line, 1, COLON)
              rest == Fields(b, e + 1)
          IN [ok     |-> rest.ok /\ b[e - 1] = CR /\ c > 1,
              fields |-> << << LowerSeq(SubSeq(line, 1, c - 1)), TrimL(SubSeq(line, c + 1, Len(line))) >> >> \o rest.fields,
              next   |-> rest.next]

BadHead == [ok |-> FALSE, method |-> <<>>, path |-> <<>>, query |-> <<>>, version |-> <<>>, headers |-> <<>>,
            hasBody |-> FALSE, cl |-> 0, next |-> 0, addr |-> NoAddr, cookies |-> <<>>]

\* everything but the body: usable on a head alone (trace validation of requests with large bodies)
ParseHead(b, peer) ==
  LET e1 == IndexFrom(b, 1, LF)
  IN IF e1 < 3 THEN BadHead
     ELSE IF b[e1 - 1] # CR THEN BadHead
     ELSE LET sl  == StartLine(SubSeq(b, 1, e1 - 2))
              fs  == Fields(b, e1 + 1)
              clv == FirstValue(fs.fields, N_CL)
              cl  == IF clv.has THEN ParseDec(clv.v) ELSE 0
          IN IF ~sl.ok THEN BadHead
             ELSE IF ~fs.ok \/ cl < 0 THEN BadHead
             ELSE [ok |-> TRUE, method |-> sl.method, path |-> sl.path, query |-> sl.query, version |-> sl.version,
                   headers |-> fs.fields, hasBody |-> clv.has, cl |-> cl, next |-> fs.next,
                   addr |-> AddrOf(fs.fields, peer), cookies |-> CookiesOf(fs.fields)]

Denote(b, peer) ==
  LET h == ParseHead(b, peer)
  IN IF ~h.ok THEN Bad
     ELSE IF h.next + h.cl - 1 > Len(b) THEN Bad
     ELSE [ok |-> TRUE, method |-> h.method, path |-> h.path, query |-> h.query, version |-> h.version,
           headers |-> h.headers, hasBody |-> h.hasBody, body |-> SubSeq(b, h.next, h.next + h.cl - 1),
           addr |-> h.addr, cookies |-> h.cookies, used |-> h.next + h.cl - 1]

(***************************************************************************)
(* Back from an abstract request to a tree (canonical spelling: one SP     *)
(* after the colon, "?" only before a non-empty query) and request         *)
(* equality as the property states it.                                     *)
(***************************************************************************)
Inject(a) ==
  [method |-> a.method, path |-> a.path, hasq |-> a.query # <<>>, query |-> a.query, version |-> a.version,
   headers |-> [ i \in 1..Len(a.headers) |-> Plain(a.headers[i][1], <<SP>>, a.headers[i][2]) ],
   hasBody |-> a.hasBody, body |-> a.body]
\* bytes of an abstract request whose field list already contains its Content-Length
RenderAbs(a) == LET t == Inject(a) IN RenderWith(t, t.headers)

(* C02 equality: method, path, query, version, body, address, cookies, and for every field NAME the
   same list of values in the same order.  The relative order of differently named fields is not
   part of it (DESIGN 5a). *)
ReqEq(a, b) ==
  /\ a.ok /\ b.ok
  /\ a.method = b.method /\ a.path = b.path /\ a.query = b.query /\ a.version = b.version
  /\ a.body = b.body /\ a.addr = b.addr /\ a.cookies = b.cookies
  /\ Len(a.headers) = Len(b.headers)
  /\ \A n \in NamesOf(a.headers) \cup NamesOf(b.headers) : ValuesOf(a.headers, n) = ValuesOf(b.headers, n)

(***************************************************************************)
(* Leniencies (false-alarm audit).  The property quantifies over well-formed *)
(* requests: origin-form targets, Cookie fields, X-Forwarded-For lists of  *)
(* addresses with or without spaces after the commas.  The catalogues and  *)
(* the random generator deliberately go further (raw non-ASCII targets,    *)
(* cookie-strings that RFC 6265 does not derive, forwarded-for entries     *)
(* that are no addresses or carry tabs / blanks before the comma).  On     *)
(* those inputs the specification still says what it expects, but the      *)
(* statement leaves the implementation free, so a disagreement in the      *)
(* affected observable is reported as SPEC-DRIFT, never as a violation:    *)
(*   "target"   path or query contain a byte that is not a URI character:  *)
(*              path, query, and rejecting the request, are free           *)
(*   "cookies"  the first Cookie value is not cookie-pair *( ";" SP        *)
(*              cookie-pair ) with token names and cookie-octet values:    *)
(*              the cookie list is free                                    *)
(*   "addr"     the first X-Forwarded-For value is not a list of addresses *)
(*              separated by "," and optional spaces: origin, proxies, and *)
(*              rejecting the request, are free                            *)
(* Header values (byte-exact), names, order of same-named fields, method,  *)
(* version, body and the peer's port are never lenient.                    *)
(***************************************************************************)
UriChar == (TChar \ {"#", "^", "`", "|"}) \cup {"(", ")", ",", ";", "=", ":", "@", "/", "?", "%25"}
AllIn(s, S) == \A i \in 1..Len(s) : s[i] \in S
\* one-character symbols are the printable ASCII characters (and SP); cookie-octet excludes SP , ; (and " \ which are %HH symbols)
CookieOctet(c) == Len(c) = 1 /\ c \notin {SP, COMMA, SEMI}
StrictCookiePiece(p) ==
  LET e == IndexFrom(p, 1, EQS)
  IN /\ e > 1 /\ AllIn(SubSeq(p, 1, e - 1), TChar)
     /\ \A i \in (e + 1)..Len(p) : CookieOctet(p[i])
StrictCookie(v) ==
  LET pcs == Split(v, SEMI)
  IN \A k \in 1..Len(pcs) :
        IF k = 1 THEN StrictCookiePiece(pcs[1])
        ELSE pcs[k] # <<>> /\ pcs[k][1] = SP /\ StrictCookiePiece(Tail(pcs[k]))
RECURSIVE DropSP(_)
DropSP(s) == IF s # <<>> /\ s[1] = SP THEN DropSP(Tail(s)) ELSE s
\* a list every element of which is an address once the optional white space the list syntax allows around the commas
\* (RFC 7230 section 7: OWS "," OWS) is removed.  Until round 7 only SP before an element was allowed here, which made most
\* recorded lists "lenient" (tabs, blanks before the comma) and let a seeded "address:port" reading of the elements through.
StrictXff(v) ==
  LET ents == Split(v, COMMA)
  IN \A k \in 1..Len(ents) : IsIp(Trim(ents[k]))
Lenient(a) ==
  (IF AllIn(a.path, UriChar) /\ AllIn(a.query, UriChar) THEN <<>> ELSE <<"target">>)
  \o (LET c == FirstValue(a.headers, N_COOKIE) IN IF c.has /\ c.v # <<>> /\ ~StrictCookie(c.v) THEN <<"cookies">> ELSE <<>>)
  \o (LET x == FirstValue(a.headers, N_XFF) IN IF x.has /\ ~StrictXff(x.v) THEN <<"addr">> ELSE <<>>)
InSeq(x, L) == \E i \in 1..Len(L) : L[i] = x

\* request equality outside the lenient observables L
ReqEqL(a, b, L) ==
  /\ a.ok /\ b.ok
  /\ a.method = b.method /\ a.version = b.version /\ a.body = b.body /\ a.addr.port = b.addr.port
  /\ InSeq("target", L) \/ (a.path = b.path /\ a.query = b.query)
  /\ InSeq("addr", L) \/ a.addr = b.addr
  /\ InSeq("cookies", L) \/ a.cookies = b.cookies
  /\ Len(a.headers) = Len(b.headers)
  /\ \A n \in NamesOf(a.headers) \cup NamesOf(b.headers) : ValuesOf(a.headers, n) = ValuesOf(b.headers, n)

(***************************************************************************)
(* JSON-friendly (flattened) form of an abstract request                   *)
(***************************************************************************)
StrSeq(ss) == [ i \in 1..Len(ss) |-> Str(ss[i]) ]
StrPairs(ps) == [ i \in 1..Len(ps) |-> << Str(ps[i][1]), Str(ps[i][2]) >> ]
FlatReq(a) ==
  [m |-> Str(a.method), p |-> Str(a.path), q |-> Str(a.query), v |-> Str(a.version), h |-> StrPairs(a.headers),
   hasBody |-> a.hasBody, body |-> Str(a.body), origin |-> Str(a.addr.origin), proxies |-> StrSeq(a.addr.proxies),
   port |-> a.addr.port, cookies |-> StrPairs(a.cookies), used |-> a.used, lenient |-> Lenient(a)]
=============================================================================
