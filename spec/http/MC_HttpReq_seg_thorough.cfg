CONSTANTS
  StartLines <- SL_Two
  Cat <- Catalogue
  HdrIdx = {1,2,6,11,14,21,30,33}
  MaxH = 2
  Bodies <- Bodies3
  Peers <- PeersOne
  ClNames <- ClOne
  ClPos = {"last"}
  Mode = "machine"
  Cap = 8192
  Dev = {}
INIT Init
NEXT Next
INVARIANTS Inv_WellFormed Lemma_DenoteRender Lemma_Canonical Inv_Faithful Inv_NoError Inv_Reads Inv_RoundTrip
CHECK_DEADLOCK FALSE
