------------------------------ MODULE MC_HttpReq ------------------------------
(* Bounded grammar for C02: catalogues of start lines, header fields, bodies and peers, the
   generation invariant (vectors for the harness) and the constant sets the .cfg files select.
   Every literal is preceded by the text it stands for (symbols: see HttpReqSyntax). *)
EXTENDS HttpReq, Json

\* GET POST PUT DELETE OPTIONS
M == << <<"G","E","T">>,
       <<"P","O","S","T">>,
       <<"P","U","T">>,
       <<"D","E","L","E","T","E">>,
       <<"O","P","T","I","O","N","S">> >>
\* targets: root, nested, with query, empty query, percent-escapes, raw non-ASCII, '?' inside the query, Unicode classes
T == <<
  \* /
  [path |-> <<"/">>, hasq |-> FALSE, query |-> <<>>],
  \* /a/b.html
  [path |-> <<"/","a","/","b",".","h","t","m","l">>, hasq |-> FALSE, query |-> <<>>],
  \* /s?q=1&r=2
  [path |-> <<"/","s">>, hasq |-> TRUE, query |-> <<"q","=","1","&","r","=","2">>],
  \* /e?
  [path |-> <<"/","e">>, hasq |-> TRUE, query |-> <<>>],
  \* /p%20q/%C3%A9?x=%2F
  [path |-> <<"/","p","%25","2","0","q","/","%25","C","3","%25","A","9">>, hasq |-> TRUE, query |-> <<"x","=","%25","2","F">>],
  \* /café
  [path |-> <<"/","c","a","f","%C3","%A9">>, hasq |-> FALSE, query |-> <<>>],
  \* /a?b?c=d
  [path |-> <<"/","a">>, hasq |-> TRUE, query |-> <<"b","?","c","=","d">>],
  \* /<U+00A0><U+0663>/İe<U+0301><U+0085>?<U+2028>=½&ß=<U+3000>   (Unicode classes at the start, in the middle and at the end of path and query)
  [path |-> <<"/","%C2","%A0","%D9","%A3","/","%C4","%B0","e","%CC","%81","%C2","%85">>, hasq |-> TRUE, query |-> <<"%E2","%80","%A8","=","%C2","%BD","&","%C3","%9F","=","%E3","%80","%80">>]
>>
V == << <<"H","T","T","P","/","1",".","1">>, <<"H","T","T","P","/","1",".","0">> >>   \* HTTP/1.1 HTTP/1.0
SL(m, t, v) == [method |-> M[m], path |-> T[t].path, hasq |-> T[t].hasq, query |-> T[t].query, version |-> V[v]]
SL_All  == { SL(m, t, v) : m \in 1..5, t \in 1..8, v \in 1..2 }      \* 80 start lines
SL_Six  == { SL(m, t, v) : m \in 1..5, t \in {1, 2, 3, 4, 5, 8}, v \in 1..2 }      \* 60 (quick)
SL_Two  == { SL(1, 1, 1), SL(2, 3, 2) }                               \* GET / HTTP/1.1, POST /s?q=1&r=2 HTTP/1.0
SL_One  == { SL(1, 1, 1) }

Catalogue == <<
  \*  1  Host: localhost
  Plain(<<"H","o","s","t">>, <<" ">>, <<"l","o","c","a","l","h","o","s","t">>),
  \*  2  HOST: a.example:8080      (same name as 1 in another case, ':' in the value)
  Plain(<<"H","O","S","T">>, <<" ">>, <<"a",".","e","x","a","m","p","l","e",":","8","0","8","0">>),
  \*  3  hOsT:b                    (no OWS)
  Plain(<<"h","O","s","T">>, <<>>, <<"b">>),
  \*  4  Accept: text/html, */*;q=0.8   (',' ';' '=' and spaces inside a plain value)
  Plain(<<"A","c","c","e","p","t">>, <<" ">>, <<"t","e","x","t","/","h","t","m","l",","," ","*","/","*",";","q","=","0",".","8">>),
  \*  5  accept:   x               (three spaces)
  Plain(<<"a","c","c","e","p","t">>, <<" "," "," ">>, <<"x">>),
  \*  6  X-Custom:<TAB>é           (custom name, non-ASCII UTF-8 value, tab as OWS)
  Plain(<<"X","-","C","u","s","t","o","m">>, <<"%09">>, <<"%C3","%A9">>),
  \*  7  x-custom: a  b            (inner double space)
  Plain(<<"x","-","c","u","s","t","o","m">>, <<" ">>, <<"a"," "," ","b">>),
  \*  8  X-CUSTOM: <TAB>v3
  Plain(<<"X","-","C","U","S","T","O","M">>, <<" ","%09">>, <<"v","3">>),
  \*  9  Cookie:                   (no pairs, empty value)
  CookieH(<<"C","o","o","k","i","e">>, <<>>, <<  >>, <<";"," ">>),
  \* 10  Cookie: a=1
  CookieH(<<"C","o","o","k","i","e">>, <<" ">>, << << <<"a">>, <<"1">> >> >>, <<";"," ">>),
  \* 11  cookie: a=1; t=x=y        ('=' inside a cookie value)
  CookieH(<<"c","o","o","k","i","e">>, <<" ">>, << << <<"a">>, <<"1">> >>, << <<"t">>, <<"x","=","y">> >> >>, <<";"," ">>),
  \* 12  COOKIE: a=1;b=;c=3        (no space after ';', empty cookie value)
  CookieH(<<"C","O","O","K","I","E">>, <<" ">>, << << <<"a">>, <<"1">> >>, << <<"b">>, <<>> >>, << <<"c">>, <<"3">> >> >>, <<";">>),
  \* 13  X-Forwarded-For: 9.9.9.9
  XffH(<<"X","-","F","o","r","w","a","r","d","e","d","-","F","o","r">>, <<" ">>, << Ent(<<>>, <<"9",".","9",".","9",".","9">>, <<>>, TRUE) >>),
  \* 14  X-Forwarded-For: 9.9.9.9, 8.8.8.8      (space after the comma)
  XffH(<<"X","-","F","o","r","w","a","r","d","e","d","-","F","o","r">>, <<" ">>, << Ent(<<>>, <<"9",".","9",".","9",".","9">>, <<>>, TRUE), Ent(<<" ">>, <<"8",".","8",".","8",".","8">>, <<>>, TRUE) >>),
  \* 15  x-forwarded-for: 9.10.11.12,13.14.15.16 (no space; the pinned test's list)
  XffH(<<"x","-","f","o","r","w","a","r","d","e","d","-","f","o","r">>, <<" ">>, << Ent(<<>>, <<"9",".","1","0",".","1","1",".","1","2">>, <<>>, TRUE), Ent(<<>>, <<"1","3",".","1","4",".","1","5",".","1","6">>, <<>>, TRUE) >>),
  \* 16  X-Forwarded-For: 2001:db8::1, unknown,7.7.7.7   (IPv6, an entry that is no address)
  XffH(<<"X","-","F","o","r","w","a","r","d","e","d","-","F","o","r">>, <<" ">>, << Ent(<<>>, <<"2","0","0","1",":","d","b","8",":",":","1">>, <<>>, TRUE), Ent(<<" ">>, <<"u","n","k","n","o","w","n">>, <<>>, FALSE), Ent(<<>>, <<"7",".","7",".","7",".","7">>, <<>>, TRUE) >>),
  \* 17  X-FORWARDED-FOR:1.1.1.1,<TAB>::1 , 999.1.1.1      (OWS on both sides, no address last)
  XffH(<<"X","-","F","O","R","W","A","R","D","E","D","-","F","O","R">>, <<>>, << Ent(<<>>, <<"1",".","1",".","1",".","1">>, <<>>, TRUE), Ent(<<"%09">>, <<":",":","1">>, <<" ">>, TRUE), Ent(<<" ">>, <<"9","9","9",".","1",".","1",".","1">>, <<>>, FALSE) >>),
  \* 18  X-Forwarded-For: unknown, _x           (no address at all: the peer is the origin)
  XffH(<<"X","-","F","o","r","w","a","r","d","e","d","-","F","o","r">>, <<" ">>, << Ent(<<>>, <<"u","n","k","n","o","w","n">>, <<>>, FALSE), Ent(<<" ">>, <<"_","x">>, <<>>, FALSE) >>),
  \* 19  X-Empty:                  (empty value)
  Plain(<<"X","-","E","m","p","t","y">>, <<>>, <<>>),
  \* 20  Authorization: Basic dXNlcjpwYXNz==   (mixed case value, '=')
  Plain(<<"A","u","t","h","o","r","i","z","a","t","i","o","n">>, <<" ">>, <<"B","a","s","i","c"," ","d","X","N","l","c","j","p","w","Y","X","N","z","=","=">>),
  \* 21  X-Nbsp: <NBSP>x           (value starts with U+00A0: not OWS, belongs to the value)
  Plain(<<"X","-","N","b","s","p">>, <<" ">>, <<"%C2","%A0","x">>),
  \* 22  X-Name: 日本 😀            (3- and 4-byte UTF-8)
  Plain(<<"X","-","N","a","m","e">>, <<" ">>, <<"%E6","%97","%A5","%E6","%9C","%AC"," ","%F0","%9F","%98","%80">>),
  \* 23  X-Blank:<SP><SP>          (only blanks after the colon: the value is empty)
  Plain(<<"X","-","B","l","a","n","k">>, <<" "," ">>, <<>>),
  \* 24  X-U1: <U+2028><U+0663><U+0662><U+FF11>   (starts with non-ASCII white space, non-ASCII digits, ends with a fullwidth digit)
  Plain(<<"X","-","U","1">>, <<" ">>, <<"%E2","%80","%A8","%D9","%A3","%D9","%A2","%EF","%BC","%91">>),
  \* 25  x-u1: ²½Ⅷ<U+00A0><U+0085><U+1680><U+3000><U+1D7D9>   (same name in lower case; other numerics, white-space classes in the middle)
  Plain(<<"x","-","u","1">>, <<" ">>, <<"%C2","%B2","%C2","%BD","%E2","%85","%A7","%C2","%A0","%C2","%85","%E1","%9A","%80","%E3","%80","%80","%F0","%9D","%9F","%99">>),
  \* 26  X-U2: ßİﬁe<U+0301><U+0080><U+009F><U+E000>   (length-changing case mappings, combining mark, C1 controls, private use last)
  Plain(<<"X","-","U","2">>, <<" ">>, <<"%C3","%9F","%C4","%B0","%EF","%AC","%81","e","%CC","%81","%C2","%80","%C2","%9F","%EE","%80","%80">>),
  \* 27  Cookie: ²ß=İ<U+0663>; k<U+00A0>k=v<U+3000>v   (Unicode classes in cookie names and values, white space only inside)
  CookieH(<<"C","o","o","k","i","e">>, <<" ">>, << << <<"%C2","%B2","%C3","%9F">>, <<"%C4","%B0","%D9","%A3">> >>, << <<"k","%C2","%A0","k">>, <<"v","%E3","%80","%80","v">> >> >>, <<";"," ">>),
  \* 28  Cookie: =                 (a lone '=': one pair with empty name and value)
  CookieH(<<"C","o","o","k","i","e">>, <<" ">>, << << <<>>, <<>> >> >>, <<";"," ">>),
  \* 29  Cookie: ;                 (a lone ';': two empty pieces, no pair)
  CookieH(<<"C","o","o","k","i","e">>, <<" ">>, << << <<>> >>, << <<>> >> >>, <<";">>),
  \* 30  cookie: a=1;;b=2;junk     (doubled ';', a piece without '=')
  CookieH(<<"c","o","o","k","i","e">>, <<" ">>, << << <<"a">>, <<"1">> >>, << <<>> >>, << <<"b">>, <<"2">> >>, << <<"j","u","n","k">> >> >>, <<";">>),
  \* 31  X-Forwarded-For: 1.1.1.1, 2.2.2.2,3.3.3.3, 2001:db8::4   (four addresses: three proxies in order, then the peer)
  XffH(<<"X","-","F","o","r","w","a","r","d","e","d","-","F","o","r">>, <<" ">>, << Ent(<<>>, <<"1",".","1",".","1",".","1">>, <<>>, TRUE), Ent(<<" ">>, <<"2",".","2",".","2",".","2">>, <<>>, TRUE), Ent(<<>>, <<"3",".","3",".","3",".","3">>, <<>>, TRUE), Ent(<<" ">>, <<"2","0","0","1",":","d","b","8",":",":","4">>, <<>>, TRUE) >>),
  \* 32  x-forwarded-FOR: ,        (a lone ',': two empty entries, the peer is the origin)
  XffH(<<"x","-","f","o","r","w","a","r","d","e","d","-","F","O","R">>, <<" ">>, << Ent(<<>>, <<>>, <<>>, FALSE), Ent(<<>>, <<>>, <<>>, FALSE) >>),
  \* 33  X-Forwarded-For: 1.1.1.1,,<U+0661>.<U+0662>.<U+0663>.<U+0664>, <U+FF11>.<U+FF12>.<U+FF13>.<U+FF14>,2.2.2.2   (doubled ',', non-ASCII digits are no address)
  XffH(<<"X","-","F","o","r","w","a","r","d","e","d","-","F","o","r">>, <<" ">>, << Ent(<<>>, <<"1",".","1",".","1",".","1">>, <<>>, TRUE), Ent(<<>>, <<>>, <<>>, FALSE), Ent(<<>>, <<"%D9","%A1",".","%D9","%A2",".","%D9","%A3",".","%D9","%A4">>, <<>>, FALSE), Ent(<<" ">>, <<"%EF","%BC","%91",".","%EF","%BC","%92",".","%EF","%BC","%93",".","%EF","%BC","%94">>, <<>>, FALSE), Ent(<<>>, <<"2",".","2",".","2",".","2">>, <<>>, TRUE) >>)
>>

\* bodies: none, empty, one LF, five bytes with CR LF NUL 0xFF, CR LF, something that looks like a field and an empty line
NoBody == [hasBody |-> FALSE, body |-> <<>>]
B(x)   == [hasBody |-> TRUE, body |-> x]
Bodies4 == { NoBody, B(<<>>), B(<<LF>>), B(<<"a", CR, LF, NUL, "%FF">>) }
Bodies6 == Bodies4 \cup { B(<<CR, LF>>), B(<<"X",":"," ","y","%0D","%0A","%0D","%0A">>) }
Bodies3 == { NoBody, B(<<>>), B(<<"a", CR, LF, NUL, "%FF">>) }
Bodies2 == { NoBody, B(<<"a", CR, LF, NUL, "%FF">>) }
Bodies1 == { NoBody }
BodiesF == { B(<<"a", CR, LF, NUL, "%FF">>) }
\* n bytes, an LF every 7th, a CR every 11th, 0xFF every 13th: lengths around 2^8 (Content-Length 255, 256, 257)
BodyN(n) == B([ i \in 1..n |-> IF i % 7 = 0 THEN LF ELSE IF i % 11 = 0 THEN CR ELSE IF i % 13 = 0 THEN "%FF" ELSE "b" ])
BodiesScale == { NoBody, BodyN(255), BodyN(256), BodyN(257) }
BodiesScaleQ == { NoBody, BodyN(256) }

\* 1.2.3.4:5678 and [::1]:80
Peer4 == [ip |-> <<"1",".","2",".","3",".","4">>, port |-> 5678]
Peer6 == [ip |-> <<":",":","1">>, port |-> 80]
PeersOne == { Peer4 }
PeersTwo == { Peer4, Peer6 }

\* Content-Length, content-length
ClOne == { <<"C","o","n","t","e","n","t","-","L","e","n","g","t","h">> }
ClTwo == ClOne \cup { <<"c","o","n","t","e","n","t","-","l","e","n","g","t","h">> }
\* ... CONTENT-length, cONTENT-lENGTH
ClThree == ClTwo \cup { <<"C","O","N","T","E","N","T","-","l","e","n","g","t","h">> }
ClLower == { <<"c","O","N","T","E","N","T","-","l","E","N","G","T","H">> }      \* quick sweep A: only the odd spelling (sweep B has the usual one)
ClMixed == ClOne \cup { <<"c","O","N","T","E","N","T","-","l","E","N","G","T","H">> }

(* Scale family (repetition): n fields drawn from a pool of k names, so every name occurs about n/k times
   among the others; the i-th field is spelt as in the pool, in lower or in UPPER case in turn and its
   value is the decimal i followed by the pool index, so that any reordering of same-named fields or
   any confusion of names shows.  n sits on both sides of 20 and 32 (the run lengths up to which
   Rust's unstable / stable sorts fall back to insertion sort) and goes up to 100. *)
Pool == << <<"H","o","s","t">>, <<"X","-","D","u","p">>, <<"A","c","c","e","p","t">>, <<"V","i","a">>, <<"x","-","a">>, <<"E","T","a","g">>, <<"L","i","n","k">>, <<"D","a","t","e">>, <<"A","l","l","o","w">>, <<"A","g","e">>, <<"O","r","i","g","i","n">> >>
\*        Host, X-Dup, Accept, Via, x-a, ETag, Link, Date, Allow, Age, Origin
ScaleName(i, k) == LET nm == Pool[((i * 7) % k) + 1]
                   IN IF i % 3 = 0 THEN nm ELSE IF i % 3 = 1 THEN LowerSeq(nm) ELSE UpperSeq(nm)
ScaleHeaders(n, k) == [ i \in 1..n |-> Plain(ScaleName(i, k), IF i % 4 = 0 THEN <<>> ELSE <<SP>>, Dec(i) \o <<"-">> \o Dec(((i * 7) % k) + 1)) ]
ScaleN == {19, 20, 21, 22, 31, 32, 33, 34, 64, 100}
ScaleK == {3, 11}
InitScaleWith(bodies) ==
  /\ \E n \in ScaleN, k \in ScaleK, bd \in bodies :
        LET sl == SL(2, 3, 1)
        IN req = [method |-> sl.method, path |-> sl.path, hasq |-> sl.hasq, query |-> sl.query, version |-> sl.version,
                  headers |-> ScaleHeaders(n, k), hasBody |-> bd.hasBody, body |-> bd.body]
  /\ peer \in Peers
  /\ clName = <<>> /\ clAfter = 0 /\ wire = <<>>
  /\ pc = "build"
  /\ pos = 0 /\ cons = 0 /\ line = <<>> /\ acc = EmptyAcc /\ need = 0
  /\ out = <<>> /\ res2 = Bad
\* sweep A starts from the catalogue requests and from the scale family (whose field lists are already complete:
\* MaxH = 1 leaves them only Build_Finish)
InitAQ == Init \/ InitScaleWith(BodiesScaleQ)
InitAT == Init \/ InitScaleWith(BodiesScale)

(* Generation (method A): one JSON line per built request - the bytes, the peer and the abstract
   request the specification expects (Norm; equal to Denote of the bytes by Lemma_DenoteRender,
   which the same run checks). *)
GenInv ==
  (pc = "built") =>
     PrintT(ToJson([b    |-> Str(wire),
                    peer |-> [ip |-> Str(peer.ip), port |-> peer.port],
                    exp  |-> FlatReq(Norm(req, clName, clAfter, peer))]))
=============================================================================
