CONSTANTS
  StartLines <- SL_Two
  Cat <- Catalogue
  HdrIdx = {1,2,3,4,5,6,7,8,9,10,11,12,13,14,15,16,17,18,19,20,21,22,23,24,25,26,27,28,29,30,31,32,33}
  MaxH = 2
  Bodies <- Bodies4
  Peers <- PeersOne
  ClNames <- ClOne
  ClPos = {"last"}
  Mode = "lemma"
  Cap = 8192
  Dev = {}
INIT Init
NEXT Next
INVARIANTS GenInv
CHECK_DEADLOCK FALSE
