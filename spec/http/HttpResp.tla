------------------------------ MODULE HttpResp ------------------------------
(* Property C07, message half: HTTP/1.x *responses* as records and as byte strings.

   Part 1 (module HttpRespSyntax; constant level, written from RFC 7230 section 3 / RFC 7231 section 6.1 /
   RFC 6265 section 4.1, not from the Rust code):
     Phrases(code)        registered reason phrase(s) of a status code
     RenderResp(r, ph)    record -> bytes (status line, one line per header, blank line, body)
     SrvWire(..)          what a conforming *server* may put on the wire for a response: any registered
                          (or free) phrase, header names in any case, optional whitespace after the
                          colon, Content-Length framing or chunked coding under any division into
                          chunks, hex sizes in either case
     DenoteResp(w)        bytes -> record: the meaning of a response message (grammar-directed)
     SetCookieValue(c)    Set-Cookie header value of a cookie with any subset of the 7 attributes
   Part 2 (this module, state machine): transcription of the two code paths of humphrey/src/http/response.rs,
   one action per statement group:
     Ser_*   impl From<Response> for Vec<u8>
     Par_*   Response::from_stream / parse_chunk, reading from a stream that delivers the bytes in
             arbitrary segments (Net_Deliver), with the blocking semantics of BufReader::read_until
             and Read::read_exact
   and the property as invariants relating Part 2 to Part 1 (SerValid, RoundTrip, ParCorrect).

   Bytes are TLC strings (SubSeq / Len / \o work on them); a response body is a string over a small
   symbol alphabet that the harness maps to concrete byte values (NUL, 0xFF, CR, LF ...).

   Dev: named deviations of the code as it stands (KNOWN_FINDINGS.txt)
     CrlfAfterBody    - the serialiser appends CRLF after a non-empty body (two bytes beyond Content-Length)
   and, for sensitivity runs only, plausible bugs (the model with one of them must violate an invariant):
     SplitAllSpaces   - status line split on every space and required to have exactly 3 parts
     DecimalChunkSize - chunk size parsed in base 10
     NoCrlfAfterChunk - the CRLF that ends a chunk's data is not consumed
     SingleRead       - body read with one `read` (whatever is buffered) instead of `read_exact`
     PhraseTypo       - one row of the reason phrase table is wrong (404 "Not found")
     WrongCode        - one row of the code table is wrong (307 emitted as 306)
     NoBlankLine      - only one CRLF between the last header and the body
     TeKeptAfterDecode- Transfer-Encoding left in the headers of a decoded chunked response
     UnstableSameNameOrder - Headers::iter() sorts unstably: fields that share a name may be emitted in any order
     MaxAgeThroughF32 - Max-Age is computed through a 32-bit float (24-bit mantissa): lossy above 2^24 seconds *)
EXTENDS HttpRespSyntax

CONSTANT Dev

-----------------------------------------------------------------------------
(* impl From<SetCookie> for Header (cookie.rs ~L147-189): the pair, then the attributes that are set, in    *)
(* the order Expires, Max-Age, Domain, Path, SameSite, Secure, HttpOnly; Max-Age is Duration::as_secs(),     *)
(* i.e. the whole seconds, the fraction dropped.                                                              *)
RECURSIVE Pow2(_)
Pow2(k) == IF k = 0 THEN 1 ELSE 2 * Pow2(k - 1)
\* nearest 32-bit float (round half to even) of a natural number n < 2^30
F32Round(n) == IF n < Pow2(24) THEN n
               ELSE LET k   == CHOOSE j \in 24..30 : Pow2(j) <= n /\ n < Pow2(j + 1)
                        ulp == Pow2(k - 23)
                        q   == n \div ulp
                        r   == n % ulp
                    IN IF 2 * r > ulp \/ (2 * r = ulp /\ q % 2 = 1) THEN (q + 1) * ulp ELSE q * ulp
RECURSIVE NatOf(_, _)
NatOf(s, acc) == IF s = "" THEN acc ELSE NatOf(Drop(s, 1), acc * 10 + DecMap[At(s, 1)])
Cookie_MaxAge(c) == IF "MaxAgeThroughF32" \in Dev /\ Len(c.maxage) <= 9 THEN Dec(F32Round(NatOf(c.maxage, 0))) ELSE c.maxage
RECURSIVE Cookie_Avs(_, _)
Cookie_Avs(c, i) == IF i > Len(AttrOrder) THEN ""
                    ELSE (IF AttrOrder[i] \in c.attrs THEN "; " \o CookieAvWith(c, AttrOrder[i], Cookie_MaxAge(c)) ELSE "")
                         \o Cookie_Avs(c, i + 1)
Cookie_HeaderValue(c) == c.name \o "=" \o c.value \o Cookie_Avs(c, 1)

-----------------------------------------------------------------------------
(* Part 2: the code paths as a state machine                                                         *)
VARIABLES
  meta,     \* description of the case (srv: head and frames of the wire image); never read by an action
  mode,     \* "api": a Response built through the public API is serialised, sent and parsed back
            \* "srv": a conforming server authored `wire`; r0 is the response it meant
  r0,
  wire,     \* bytes (api: grown by the Ser_ actions)
  spc,      \* serialiser: "status" | "headers" | "blank" | "body" | "done" | "off"
  todo,     \* serialiser: headers not yet written
  avail,    \* transport: number of bytes of `wire` delivered to the reader so far
  eof,      \* transport: the writer is finished (everything delivered; further reads see EOF)
  lfs,      \* derived from `wire` once it is complete: the positions of its LF bytes, ascending (an index
            \* that saves TLC from rescanning the string in every read_until; LFIndexOk ties it to wire)
  ppc,      \* parser: "wait" | "status" | "headers" | "frame" | "chunksize" | "chunkdata" | "clbody" | "done"
  pos,      \* parser: bytes consumed
  pv, pcode, phdrs, pbody, clen,   \* parser: fields parsed so far, pending chunk / body length
  res       \* "run" | "ok" | "err_response" | "err_stream"
vars == <<meta, mode, r0, wire, spc, todo, avail, eof, lfs, ppc, pos, pv, pcode, phdrs, pbody, clen, res>>
parsed == Resp(pv, pcode, phdrs, pbody)

CONSTANT Segmented   \* TRUE: bytes arrive in arbitrary segments; FALSE: all at once

\* --- serialiser: impl From<Response> for Vec<u8> ------------------------------------------------
\* Headers::iter() sorts the fields stably by (category, name) (headers.rs; stable since fix 27df1d6; an
\* unstable sort keeps same-name order only by accident - on rustc 1.95 up to 32 fields - which is the
\* named bug UnstableSameNameOrder and the reason for the 30..100-field family of MC_HttpResp).
\* C07 observes only the relative order of fields with the same name, so the model does not fix the
\* order between different names: the serialiser emits, nondeterministically, any remaining header
\* that has no earlier remaining header of the same name.  Every same-name-order-preserving
\* interleaving is explored; the code's order is one of them.
SerKey(h) == Lower(h.n)
Emittable(hs) == IF "UnstableSameNameOrder" \in Dev THEN 1..Len(hs)      \* an unstable sort: any remaining header
                 ELSE { i \in 1..Len(hs) : \A j \in 1..(i - 1) : SerKey(hs[j]) # SerKey(hs[i]) }
RemoveAt(s, i) == SubSeq(s, 1, i - 1) \o SubSeq(s, i + 1, Len(s))

EmittedPhrase(c) ==       \* what status.rs returns: the RFC 2616 phrase where there is one
  IF "PhraseTypo" \in Dev /\ c = 404 THEN "Not found"
  ELSE IF Row(c).alt # "" THEN Row(c).alt ELSE Row(c).p
EmittedCode(c) == IF "WrongCode" \in Dev /\ c = 307 THEN 306 ELSE c

Ser_StatusLine ==
  /\ spc = "status"
  /\ wire' = StatusLine(r0.version, EmittedCode(r0.code), EmittedPhrase(r0.code))
  /\ spc' = "headers" /\ todo' = r0.headers
  /\ UNCHANGED <<meta, mode, r0, avail, eof, lfs, ppc, pos, pv, pcode, phdrs, pbody, clen, res>>

Ser_Header ==
  /\ spc = "headers" /\ todo # <<>>
  /\ \E i \in Emittable(todo) :
       /\ wire' = wire \o CRLF \o todo[i].n \o ": " \o todo[i].v
       /\ todo' = RemoveAt(todo, i)
  /\ UNCHANGED <<meta, mode, r0, spc, avail, eof, lfs, ppc, pos, pv, pcode, phdrs, pbody, clen, res>>

Ser_Blank ==
  /\ spc = "headers" /\ todo = <<>>
  /\ wire' = wire \o (IF "NoBlankLine" \in Dev THEN CRLF ELSE CRLF \o CRLF)
  /\ spc' = "body"
  /\ UNCHANGED <<meta, mode, r0, todo, avail, eof, lfs, ppc, pos, pv, pcode, phdrs, pbody, clen, res>>

Ser_Body ==
  /\ spc = "body"
  /\ wire' = IF r0.body = "" THEN wire
             ELSE wire \o r0.body \o (IF "CrlfAfterBody" \in Dev THEN CRLF ELSE "")
  /\ spc' = "done" /\ ppc' = "status"
  /\ avail' = IF Segmented THEN 0 ELSE Len(wire')
  /\ eof' = ~Segmented
  /\ lfs' = LFPositions(wire', 1)
  /\ UNCHANGED <<meta, mode, r0, todo, pos, pv, pcode, phdrs, pbody, clen, res>>

\* --- transport ------------------------------------------------------------------------------------
Net_Deliver ==
  /\ ppc # "wait" /\ res = "run" /\ ~eof
  /\ \/ /\ avail < Len(wire)
        /\ \E k \in {1, Len(wire) - avail} : avail' = avail + k    \* one byte or all the rest: every
                                                                    \* value of avail, hence every segmentation, is reached
        /\ eof' = eof
     \/ /\ avail = Len(wire) /\ eof' = TRUE /\ avail' = avail
  /\ UNCHANGED <<meta, mode, r0, wire, spc, todo, lfs, ppc, pos, pv, pcode, phdrs, pbody, clen, res>>

\* BufReader::read_until(b'\n'): returns the line including LF once it has been delivered, or what is
\* left at EOF.  Read::read_exact(n) and take(n).read_to_end + length check: return once n bytes have
\* been delivered, fail (ResponseError::Stream) when the stream ends first.
NextLF     == IF \E i \in 1..Len(lfs) : lfs[i] > pos
              THEN lfs[CHOOSE i \in 1..Len(lfs) : lfs[i] > pos /\ \A j \in 1..(i - 1) : lfs[j] <= pos] ELSE 0
LineReady  == IF NextLF # 0 THEN NextLF <= avail ELSE eof
TheLine    == IF NextLF # 0 THEN SubSeq(wire, pos + 1, NextLF) ELSE SubSeq(wire, pos + 1, Len(wire))
ExactReady(n) == pos + n <= avail \/ eof
ExactOk(n)    == pos + n <= Len(wire)

Finish(r) == /\ res' = r /\ ppc' = "done"

\* splitn(3, ' ')
SplitN3(line) ==
  LET i == Find(line, SP, 1) IN
  IF i = 0 THEN <<line>>
  ELSE LET j == Find(line, SP, i + 1) IN
       IF j = 0 THEN <<Take(line, i - 1), Drop(line, i)>>
       ELSE <<Take(line, i - 1), SubSeq(line, i + 1, j - 1), Drop(line, j)>>
StatusParts(line) == IF "SplitAllSpaces" \in Dev THEN SplitOn(line, SP) ELSE SplitN3(line)

Par_StatusLine ==
  /\ ppc = "status" /\ res = "run" /\ LineReady
  /\ LET line  == TheLine
         parts == StatusParts(line)
         c     == IF Len(parts) = 3 THEN DecVal(parts[2]) ELSE NaN
     IN /\ pos' = pos + Len(line)
        /\ IF Len(parts) # 3 \/ c \notin Codes
           THEN Finish("err_response") /\ UNCHANGED <<pv, pcode>>
           ELSE pv' = parts[1] /\ pcode' = c /\ ppc' = "headers" /\ res' = res
  /\ UNCHANGED <<meta, mode, r0, wire, spc, todo, avail, eof, lfs, phdrs, pbody, clen>>

\* one iteration of the header loop: the line must end in CRLF (strip_suffix) and contain a colon
\* (split_once), otherwise the message is malformed - ResponseError::Response.  A conforming server
\* never sends such a line.
EndsInCRLF(line) == Len(line) >= 2 /\ Drop(line, Len(line) - 2) = CRLF
Par_HeaderLine ==
  /\ ppc = "headers" /\ res = "run" /\ LineReady
  /\ LET line == TheLine IN
     /\ pos' = pos + Len(line)
     /\ IF line = CRLF THEN ppc' = "frame" /\ UNCHANGED <<phdrs, res>>
        ELSE IF ~EndsInCRLF(line) THEN Finish("err_response") /\ UNCHANGED phdrs
        ELSE LET lw == Take(line, Len(line) - 2)
                 c  == Find(lw, ":", 1)
             IN IF c = 0 THEN Finish("err_response") /\ UNCHANGED phdrs
                ELSE /\ phdrs' = Append(phdrs, Hdr(Take(lw, c - 1), TrimStart(Drop(lw, c))))
                     /\ UNCHANGED <<ppc, res>>
  /\ UNCHANGED <<meta, mode, r0, wire, spc, todo, avail, eof, lfs, pv, pcode, pbody, clen>>

\* the framing decision after the blank line
Par_Frame ==
  /\ ppc = "frame" /\ res = "run"
  /\ IF HasHdr(phdrs, "transfer-encoding") /\ FirstVal(phdrs, "transfer-encoding") = "chunked"
     THEN ppc' = "chunksize" /\ UNCHANGED <<clen, res>>
     ELSE IF HasHdr(phdrs, "content-length")
     THEN LET n == DecVal(FirstVal(phdrs, "content-length")) IN
          IF n = NaN THEN Finish("err_response") /\ UNCHANGED clen
          ELSE clen' = n /\ ppc' = "clbody" /\ res' = res
     ELSE Finish("ok") /\ UNCHANGED clen
  /\ UNCHANGED <<meta, mode, r0, wire, spc, todo, avail, eof, lfs, pos, pv, pcode, phdrs, pbody>>

Par_ClBody ==
  /\ ppc = "clbody" /\ res = "run"
  /\ IF "SingleRead" \in Dev
     THEN /\ (avail > pos \/ eof \/ clen = 0)
          /\ LET k == Min(clen, avail - pos) IN
             pbody' = SubSeq(wire, pos + 1, pos + k) /\ pos' = pos + k /\ Finish("ok")
     ELSE /\ ExactReady(clen)
          /\ IF ExactOk(clen)
             THEN pbody' = SubSeq(wire, pos + 1, pos + clen) /\ pos' = pos + clen /\ Finish("ok")
             ELSE Finish("err_stream") /\ UNCHANGED <<pbody, pos>>
  /\ UNCHANGED <<meta, mode, r0, wire, spc, todo, avail, eof, lfs, pv, pcode, phdrs, clen>>

\* end of the chunk loop: Transfer-Encoding removed, Content-Length added
DecodedHeaders == (IF "TeKeptAfterDecode" \in Dev THEN phdrs ELSE Without(phdrs, "transfer-encoding"))
                  \o <<Hdr("Content-Length", Dec(Len(pbody)))>>
\* parse_chunk, first half: the size line.  A size that is not hexadecimal is ResponseError::Response
Par_ChunkSize ==
  /\ ppc = "chunksize" /\ res = "run" /\ LineReady
  /\ LET line == TheLine
         txt  == TrimEndWS(line)                       \* str::trim_end
         n    == IF "DecimalChunkSize" \in Dev THEN DecVal(txt) ELSE HexVal(txt)
     IN /\ pos' = pos + Len(line)
        /\ IF n = NaN THEN Finish("err_response") /\ UNCHANGED <<clen, phdrs>>
           ELSE clen' = n /\ ppc' = "chunkdata" /\ UNCHANGED <<res, phdrs>>
  /\ UNCHANGED <<meta, mode, r0, wire, spc, todo, avail, eof, lfs, pv, pcode, pbody>>

\* parse_chunk, second half: the data (take(n).read_to_end, length checked) and the CRLF after it
\* (read_exact of 2 bytes); a stream that ends early is ResponseError::Stream
Par_ChunkData ==
  /\ ppc = "chunkdata" /\ res = "run"
  /\ LET need == clen + (IF "NoCrlfAfterChunk" \in Dev /\ clen > 0 THEN 0 ELSE 2) IN
     /\ ExactReady(need)
     /\ IF ~ExactOk(need) THEN Finish("err_stream") /\ UNCHANGED <<pos, pbody, phdrs>>
        ELSE /\ pos' = pos + need
             /\ IF clen = 0
                THEN pbody' = pbody /\ phdrs' = DecodedHeaders /\ Finish("ok")
                ELSE pbody' = pbody \o SubSeq(wire, pos + 1, pos + clen) /\ ppc' = "chunksize" /\ UNCHANGED <<res, phdrs>>
  /\ UNCHANGED <<meta, mode, r0, wire, spc, todo, avail, eof, lfs, pv, pcode, clen>>

Next == \/ Ser_StatusLine \/ Ser_Header \/ Ser_Blank \/ Ser_Body
        \/ Net_Deliver
        \/ Par_StatusLine \/ Par_HeaderLine \/ Par_Frame \/ Par_ClBody \/ Par_ChunkSize \/ Par_ChunkData

\* initial states: InitApi(r) / InitSrv(r, w) for r, w from the bounded grammars of MC_HttpResp
InitApi(r) ==
  /\ mode = "api" /\ r0 = r /\ wire = "" /\ spc = "status" /\ todo = <<>> /\ avail = 0 /\ eof = FALSE /\ lfs = <<>>
  /\ ppc = "wait" /\ pos = 0 /\ pv = "" /\ pcode = 0 /\ phdrs = <<>> /\ pbody = "" /\ clen = 0 /\ res = "run"
InitSrv(r, w) ==
  /\ mode = "srv" /\ r0 = r /\ wire = w /\ spc = "off" /\ todo = <<>>
  /\ avail = (IF Segmented THEN 0 ELSE Len(w)) /\ eof = ~Segmented /\ lfs = LFPositions(w, 1)
  /\ ppc = "status" /\ pos = 0 /\ pv = "" /\ pcode = 0 /\ phdrs = <<>> /\ pbody = "" /\ clen = 0 /\ res = "run"

-----------------------------------------------------------------------------
(* The property on the state machine                                                                 *)
\* a response built through the public API serialises to a valid message that means that response
SerValid == (mode = "api" /\ spc = "done" /\ ppc = "status" /\ pos = 0 /\ avail = (IF Segmented THEN 0 ELSE Len(wire))) => IsSerialisationOf(wire, r0)
\* ... and parsing it, when it carries the Content-Length the server adds or has no body, yields the same
RoundTrip == (mode = "api" /\ res # "run" /\ FramedOrEmpty(r0)) => (res = "ok" /\ RespEq(parsed, r0))
\* the parser returns exactly what a conforming server sent: the algorithm agrees with the denotation
\* of the bytes, the whole message is consumed, and that is the response the server meant
ParCorrect == (mode = "srv" /\ res # "run") =>
                 LET d == DenoteResp(wire) IN
                 /\ d.ok /\ d.rest = "" /\ RespEq(d, r0)
                 /\ res = "ok" /\ RespEq(parsed, d) /\ pos = Len(wire)
\* the parser never reads past what the message's framing says (pos is monotone and bounded)
Bounded == pos <= avail /\ avail <= Len(wire)
LFIndexOk == (ppc # "wait") => (\A i \in 1..Len(wire) : (At(wire, i) = LF) <=> (\E k \in 1..Len(lfs) : lfs[k] = i))
Terminates == <>(res # "run")
=============================================================================
