------------------------------- MODULE Client -------------------------------
(* Property C07, client half: humphrey::client::ClientRequest::send with redirect following
   (client.rs ~L290-342), as a state machine

        Send -> Read -> ( Redirect -> Send -> Read )* -> Done

   against a scripted server.  One action per step of the code:
     Cl_Send      Client::request: connect to the current address, write the request
     Srv_Respond  the environment: the server answers the request it received.  It plays a redirect
                  chain - hop i answers 301/302/307 with a Location that is relative ("/h<i+1>", same
                  host) or absolute ("http://<host>/h<i+1>", possibly another host) - and ends it with a
                  final response; a request for anything but the next hop of the chain is answered
                  404 "lost"
     Cl_Read      Response::from_stream on the connection (the message layer is HttpResp.tla)
     Cl_Redirect  follow_redirects /\ status in {301, 302, 307}: take Location, rewrite the request
     Cl_Return    otherwise: hand the response to the caller
   TLC explores every chain the server can play up to MaxHops.

   Property: with redirect following enabled the client ends at the final non-redirect response
   (EndsAtFinal), it gets there (Terminates, NoError), and without following it returns the first
   response.  DESIGN 5a/8a reading: exactly 301, 302 and 307 are followed; a 303 (or 300/304/305) ends
   the chain and is returned as it is.

   Dev (sensitivity only - the code has no known deviation here):
     Follow303        - 303 is followed too
     StopAfterFirst   - only the first redirect is followed
     RelToFirstHost   - a relative Location is sent to the first host instead of the current one
     AbsKeepsHost     - an absolute Location changes the path but not the address
     Skip307          - 307 is not followed
     RefuseRevisit    - a redirect to a (host, path) that was already requested is refused as a loop *)
EXTENDS Naturals, Sequences, TLC

CONSTANTS MaxHops,      \* longest redirect chain
          RedirCodes,   \* codes the server uses for chain hops ({301, 302, 307})
          Kinds,        \* forms of Location ({"rel", "abs"})
          Finals,       \* final responses: records [code, framing, loc]; loc = TRUE: carries a Location
                        \* header pointing at a trap path (only meaningful for 3xx codes that are not followed)
          FollowModes,  \* values of with_redirects(..) to explore
          Dev

Hosts == {1, 2}                                   \* 127.0.0.1 and 127.0.0.2
HostName(h) == IF h = 1 THEN "127.0.0.1" ELSE "127.0.0.2"
AbsHost(i) == 1 + (i % 2)                          \* the host an absolute Location of hop i points to
Digits == <<"0", "1", "2", "3", "4", "5", "6", "7", "8", "9">>
RECURSIVE Dec(_)
Dec(n) == IF n < 10 THEN Digits[n + 1] ELSE Dec(n \div 10) \o Digits[(n % 10) + 1]
PathOf(i) == "/h" \o Dec(i)
TrapPath == 99

\* a Location value: kind "none" | "rel" | "abs"
NoLoc == [kind |-> "none", host |-> 0, path |-> 0]
LocString(l) == IF l.kind = "none" THEN ""
                ELSE IF l.kind = "rel" THEN PathOf(l.path)
                ELSE "http://" \o HostName(l.host) \o PathOf(l.path)
\* a response as the client sees it: status, Location, which body (the index of the response in `sent`)
\* and `at`: the host and path it was served from
RespRec(code, loc, framing, id, at) == [code |-> code, loc |-> loc, framing |-> framing, id |-> id, at |-> at]
NoResp == RespRec(0, NoLoc, "none", 0, [host |-> 0, path |-> 0])

\* How the server names the hops of the chain it plays.  "distinct": hop i lives at /h<i>.  A server with state may send the
\* client back to where it has been - the chain is finite all the same, the server answers differently the second time:
\* "pingpong": hop i lives at /h<i mod 2> (/h0 -> /h1 -> /h0 -> ... -> final), "self": every hop lives at /h0 (redirect to
\* itself until the state has changed).  A client must follow these like any other chain (added after a seeded "redirect loop
\* detector" that refused every revisit was missed, round 7).  MC configs override PathModes.
PathModes == {"distinct"}
PName(m, i) == IF m = "pingpong" THEN i % 2 ELSE IF m = "self" THEN 0 ELSE i

VARIABLES
  pmode,     \* the naming the server uses in this behaviour
  cpc,       \* "send" | "await" | "read" | "decide" | "done" | "error"
  follow,    \* with_redirects(..)
  followNow, \* the flag as the running request sees it (differs from follow only under StopAfterFirst)
  target,    \* [host, path] the request is addressed to
  host0,     \* the first host (only read by the RelToFirstHost deviation)
  expect,    \* server: [host, path] of the next hop of the chain it is playing
  ended,     \* server: the final response of the chain has been sent
  sent,      \* server: all responses sent so far (the chain played; history)
  reqs,      \* server: targets of the requests received (history)
  inflight,  \* the response on the wire
  resp,      \* client: the response parsed last
  got        \* client: the value returned by send()
vars == <<pmode, cpc, follow, followNow, target, host0, expect, ended, sent, reqs, inflight, resp, got>>

Init ==
  /\ pmode \in PathModes
  /\ cpc = "send" /\ follow \in FollowModes /\ followNow = follow
  /\ target = [host |-> 1, path |-> 0] /\ host0 = 1
  /\ expect = [host |-> 1, path |-> 0] /\ ended = FALSE
  /\ sent = <<>> /\ reqs = <<>> /\ inflight = NoResp /\ resp = NoResp /\ got = NoResp

Cl_Send ==
  /\ cpc = "send"
  /\ reqs' = Append(reqs, target)
  /\ cpc' = "await"
  /\ UNCHANGED <<pmode, follow, followNow, target, host0, expect, ended, sent, inflight, resp, got>>

\* the server's move: continue the chain, end it, or (request for something else) answer "lost"
Srv_Respond ==
  /\ cpc = "await"
  /\ LET i == Len(sent) IN
     IF target # expect \/ ended
     THEN /\ inflight' = RespRec(404, NoLoc, "cl", 1000, target)          \* lost
          /\ sent' = Append(sent, inflight')
          /\ UNCHANGED <<expect, ended>>
     ELSE \/ /\ i < MaxHops                                        \* one more hop
             /\ \E code \in RedirCodes, kind \in Kinds :
                  LET nh  == IF kind = "abs" THEN AbsHost(i) ELSE target.host
                      loc == [kind |-> kind, host |-> (IF kind = "abs" THEN nh ELSE 0), path |-> PName(pmode, i + 1)]
                  IN /\ inflight' = RespRec(code, loc, "cl", i, target)
                     /\ sent' = Append(sent, inflight')
                     /\ expect' = [host |-> nh, path |-> PName(pmode, i + 1)]
             /\ UNCHANGED ended
          \/ /\ \E f \in Finals :                                  \* the final response
                  /\ inflight' = RespRec(f.code, IF f.loc THEN [kind |-> "rel", host |-> 0, path |-> TrapPath] ELSE NoLoc,
                                         f.framing, i, target)
                  /\ sent' = Append(sent, inflight')
             /\ ended' = TRUE
             /\ UNCHANGED expect
  /\ cpc' = "read"
  /\ UNCHANGED <<pmode, follow, followNow, target, host0, reqs, resp, got>>

Cl_Read ==
  /\ cpc = "read"
  /\ resp' = inflight /\ cpc' = "decide"
  /\ UNCHANGED <<pmode, follow, followNow, target, host0, expect, ended, sent, reqs, inflight, got>>

Followed(code) == \/ code \in ({301, 302, 307} \ (IF "Skip307" \in Dev THEN {307} ELSE {}))
                  \/ ("Follow303" \in Dev /\ code = 303)

Cl_Redirect ==
  /\ cpc = "decide" /\ followNow /\ Followed(resp.code)
  /\ IF resp.loc.kind = "none" THEN cpc' = "error" /\ UNCHANGED target          \* "No location header"
     ELSE IF "RefuseRevisit" \in Dev /\ \E k \in 1..Len(reqs) :
                 reqs[k] = [host |-> (IF resp.loc.kind = "rel" THEN target.host ELSE resp.loc.host), path |-> resp.loc.path]
          THEN cpc' = "error" /\ UNCHANGED target
     ELSE /\ cpc' = "send"
          /\ target' = IF resp.loc.kind = "rel"
                       THEN [host |-> (IF "RelToFirstHost" \in Dev THEN host0 ELSE target.host), path |-> resp.loc.path]
                       ELSE [host |-> (IF "AbsKeepsHost" \in Dev THEN target.host ELSE resp.loc.host), path |-> resp.loc.path]
  /\ followNow' = (IF "StopAfterFirst" \in Dev THEN FALSE ELSE followNow)
  /\ UNCHANGED <<pmode, follow, host0, expect, ended, sent, reqs, inflight, resp, got>>

Cl_Return ==
  /\ cpc = "decide" /\ ~(followNow /\ Followed(resp.code))
  /\ got' = resp /\ cpc' = "done"
  /\ UNCHANGED <<pmode, follow, followNow, target, host0, expect, ended, sent, reqs, inflight, resp>>

Next == Cl_Send \/ Srv_Respond \/ Cl_Read \/ Cl_Redirect \/ Cl_Return
Spec == Init /\ [][Next]_vars /\ WF_vars(Next)

-----------------------------------------------------------------------------
Last(s) == s[Len(s)]
IsRedirect(r) == r.code \in {301, 302, 307}
\* with following enabled the client ends at the final non-redirect response of the chain ...
EndsAtFinal == (cpc = "done" /\ follow) => (ended /\ got = Last(sent) /\ ~IsRedirect(got) /\ got.id # 1000)
\* ... having asked for every hop exactly once, in order
OneRequestPerHop == (cpc = "done" /\ follow) =>
                       (Len(reqs) = Len(sent) /\ \A i \in 1..Len(reqs) : reqs[i].path = PName(pmode, i - 1))
\* without following it returns the first response, whatever it is
NoFollowReturnsFirst == (cpc = "done" /\ ~follow) => (Len(sent) = 1 /\ got = sent[1])
\* the server never has to answer "lost", the client never fails on a well-formed chain
NeverLost == \A i \in 1..Len(sent) : sent[i].id # 1000
NoError == cpc # "error"
Terminates == <>(cpc = "done")
\* can-happen checks (their negations must be violated): the longest chain is reachable, hosts do change
NotMaxChain == ~(cpc = "done" /\ follow /\ Len(sent) = MaxHops + 1)
NotHostSwitch == ~(cpc = "done" /\ \E i \in 1..Len(reqs) : reqs[i].host = 2)
=============================================================================
