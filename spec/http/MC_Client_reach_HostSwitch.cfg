CONSTANTS
  Dev = {}
  MaxHops = 2
  RedirCodes = {301, 302, 307}
  Kinds = {"rel", "abs"}
  Finals <- MCFinals
  FollowModes = {TRUE, FALSE}
INIT Init
NEXT Next
INVARIANTS NotHostSwitch
CHECK_DEADLOCK FALSE
