CONSTANTS
  Dev = {"MaxAgeThroughF32"}
  Segmented = FALSE
  Families = {}
  CodeMode = "all"
  HdrK = 4
  MaxHdrs = 1
  MaxBody = 3
  BodyMode = "len"
  StyleMode = "one"
  PhraseMode = "reg"
  ManyMode = "none"
  MaxBig = 17
INIT CookieInit
NEXT GenNext
INVARIANT CookieInv
CHECK_DEADLOCK FALSE
