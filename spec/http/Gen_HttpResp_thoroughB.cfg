CONSTANTS
  Dev = {}
  Segmented = FALSE
  Families = {"api", "cl", "chunk"}
  CodeMode = "few"
  HdrK = 4
  MaxHdrs = 3
  MaxBody = 3
  BodyMode = "len"
  StyleMode = "all"
  PhraseMode = "reg"
  ManyMode = "none"
  MaxBig = 9
INIT MCInit
NEXT GenNext
INVARIANT GenInv
CHECK_DEADLOCK FALSE
