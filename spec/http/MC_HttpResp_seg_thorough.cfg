CONSTANTS
  Dev = {}
  Segmented = TRUE
  Families = {"api", "cl", "chunk", "bigchunk"}
  CodeMode = "few"
  HdrK = 1
  MaxHdrs = 1
  MaxBody = 2
  BodyMode = "len"
  StyleMode = "all"
  PhraseMode = "reg"
  ManyMode = "none"
  MaxBig = 11
SPECIFICATION MCSpec
INVARIANTS SerValid RoundTrip ParCorrect Bounded LFIndexOk LemmaInv SrvDenotes NeverErr
CHECK_DEADLOCK FALSE
PROPERTY Terminates
