CONSTANTS
  Dev = {}
  Segmented = TRUE
  Families = {"api", "cl", "chunk", "bigchunk"}
  CodeMode = "few"
  HdrK = 2
  MaxHdrs = 1
  MaxBody = 3
  BodyMode = "len"
  StyleMode = "all"
  PhraseMode = "reg"
  MaxBig = 12
SPECIFICATION MCSpec
INVARIANTS SerValid RoundTrip ParCorrect Bounded LFIndexOk LemmaInv SrvDenotes NeverErr
CHECK_DEADLOCK FALSE
PROPERTY Terminates
