CONSTANTS
  Dev = {}
  MaxRest = 3
  Schemes = {"https"}
INIT GenInit
NEXT GenNext
INVARIANT GenInv
CHECK_DEADLOCK FALSE
