------------------------------ MODULE Trace_Url ------------------------------
(* Code -> spec direction for the URL growth item: the harness logs random token strings (up to 12 tokens after the
   host) with what Client::{get,post,put,delete} built from them; every record must be what Url.tla's code model
   (Dev = AsFound) says.  Records the code model cannot explain are collected in `bad`; records where the code model
   and RFC 3986 (Dev = {}) differ are counted per deviation in `devs` (reported as drift by the driver). *)
EXTENDS Url, Json, IOUtils

Rec == ndJsonDeserialize(IOEnv.TRACE)

Same(got, p) == /\ got.ok = p.ok
                /\ p.ok => (got.host = p.host /\ got.path = p.path /\ got.query = p.query)

VARIABLES l, bad, nrfc
Init == l = 1 /\ bad = <<>> /\ nrfc = 0
Next == /\ l <= Len(Rec)
        /\ l' = l + 1
        /\ bad' = IF Same(Rec[l].got, ParseD(Rec[l].toks, AsFound)) \/ Len(bad) >= 20 THEN bad ELSE Append(bad, l)
        /\ nrfc' = IF Same(Rec[l].got, ParseD(Rec[l].toks, {})) THEN nrfc + 1 ELSE nrfc
Spec == Init /\ [][Next]_<<l, bad, nrfc>>

AllAgree == (l = Len(Rec) + 1) =>
              /\ PrintT(ToJson([records |-> Len(Rec), agree_with_rfc |-> nrfc]))
              /\ \/ bad = <<>>
                 \/ PrintT(ToJson([rejected |-> [i \in 1..Len(bad) |-> [line |-> bad[i], rec |-> Rec[bad[i]],
                                                                        predicted |-> ParseD(Rec[bad[i]].toks, AsFound)]]])) /\ FALSE
=============================================================================
