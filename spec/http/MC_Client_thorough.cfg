CONSTANTS
  Dev = {}
  MaxHops = 5
  RedirCodes = {301, 302, 307}
  Kinds = {"rel", "abs"}
  Finals <- MCFinals
  PathModes <- MCPathModes
  FollowModes = {TRUE, FALSE}
SPECIFICATION Spec
INVARIANTS EndsAtFinal OneRequestPerHop NoFollowReturnsFirst NeverLost NoError
PROPERTY Terminates
CHECK_DEADLOCK FALSE
