CONSTANTS
  Dev = {}
  Segmented = FALSE
  Families = {"api", "cl", "chunk", "bigchunk"}
  CodeMode = "all"
  HdrK = 1
  MaxHdrs = 1
  MaxBody = 2
  BodyMode = "len"
  StyleMode = "one"
  PhraseMode = "free"
  MaxBig = 17
INIT MCInit
NEXT GenNext
INVARIANT GenInv
CHECK_DEADLOCK FALSE
