CONSTANTS
  Dev = {}
  Segmented = FALSE
  Families = {"api", "cl", "chunk", "bigchunk"}
  CodeMode = "all"
  HdrK = 2
  MaxHdrs = 1
  MaxBody = 3
  BodyMode = "len"
  StyleMode = "one"
  PhraseMode = "reg"
  MaxBig = 17
INIT MCInit
NEXT GenNext
INVARIANT GenInv
CHECK_DEADLOCK FALSE
