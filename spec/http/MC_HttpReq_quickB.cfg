CONSTANTS
  StartLines <- SL_Two
  Cat <- Catalogue
  HdrIdx = {1,2,3,4,6,7,9,10,11,12,14,15,16,17,20,21,23,24,25,26,27,28,29,30,31,32,33}
  MaxH = 2
  Bodies <- Bodies2
  Peers <- PeersOne
  ClNames <- ClOne
  ClPos = {"last"}
  Mode = "lemma"
  Cap = 8192
  Dev = {}
INIT Init
NEXT Next
INVARIANTS Inv_WellFormed Lemma_DenoteRender Lemma_Canonical
CHECK_DEADLOCK FALSE
