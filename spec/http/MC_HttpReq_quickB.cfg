CONSTANTS
  StartLines <- SL_Two
  Cat <- Catalogue
  HdrIdx = {1,2,3,4,6,7,9,10,11,12,14,15,16,17,20,21}
  MaxH = 2
  Bodies <- Bodies4
  Peers <- PeersOne
  ClNames <- ClOne
  ClPos = {"last"}
  Mode = "lemma"
  Cap = 8192
  Dev = {}
INIT Init
NEXT Next
INVARIANTS Inv_WellFormed Lemma_DenoteRender Lemma_Canonical
CHECK_DEADLOCK FALSE
