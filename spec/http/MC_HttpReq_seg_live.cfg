CONSTANTS
  StartLines <- SL_One
  Cat <- Catalogue
  HdrIdx = {11}
  MaxH = 1
  Bodies <- Bodies3
  Peers <- PeersOne
  ClNames <- ClOne
  ClPos = {"last"}
  Mode = "machine"
  Cap = 4
  Dev = {}
SPECIFICATION Spec
INVARIANTS Inv_Faithful Inv_NoError Inv_Reads Inv_RoundTrip
PROPERTY Terminates
CHECK_DEADLOCK FALSE
