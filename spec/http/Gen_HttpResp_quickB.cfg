CONSTANTS
  Dev = {}
  Segmented = FALSE
  Families = {"api", "cl", "chunk"}
  CodeMode = "few"
  HdrK = 4
  MaxHdrs = 2
  MaxBody = 1
  BodyMode = "len"
  StyleMode = "all"
  PhraseMode = "free"
  MaxBig = 9
INIT MCInit
NEXT GenNext
INVARIANT GenInv
CHECK_DEADLOCK FALSE
