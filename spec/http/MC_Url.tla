-------------------------------- MODULE MC_Url --------------------------------
(* TLC-only definitions for Url.tla: the compose/parse lemma on a bounded set of component tuples, the
   generator of token strings (one state per URL, printed as JSON for the harness) *)
EXTENDS Url, Json

CONSTANTS MaxRest,      \* number of tokens after the first (host) token
          Schemes       \* {"http", "https"}

(* ---- lemma: for every URL composed from RFC components, Parse gives the components back ---- *)
UiSet    == {NONE, <<>>, <<"a">>, <<"a", ":", "a">>}
PortSet  == {NONE, <<>>, <<"80">>, <<"8080">>, <<"80", "80">>}
PathSet  == {<<>>, <<"/">>, <<"/", "a">>, <<"/", "a", "/", "a">>, <<"/", "a", ":", "@", "a">>, <<"/", "/", "a">>}
QuerySet == {NONE, <<>>, <<"a">>, <<"a", "=", "a">>, <<"/", "?", "@", ":">>}
FragSet  == {NONE, <<>>, <<"a">>, <<"/", "?", "a">>}
Parts == [ui : UiSet, host : HostToks, port : PortSet, path : PathSet, query : QuerySet, frag : FragSet]
ComposeParse == \A c \in Parts : Parse(Compose(c)) = Expected(c)
\* and what the grammar does not produce is refused: an authority without a host, a second "@" in the userinfo,
\* a port that is not a number, a "#" inside the fragment
RefusedSet == { <<"a">>, <<":", "80">>, <<"a", "@", "a", "@", "localhost">>, <<"localhost", ":", "a">>,
                <<"localhost", "80">>, <<"localhost", ":", "80", ":">>, <<"localhost", ":", "8080", "80">>, <<"localhost", "/", "#", "#">>,
                <<"localhost", "@">>, <<"/", "localhost">>, <<>> }
RefusesBad == \A u \in RefusedSet : ~ Parse(u).ok
\* each deviation is visible somewhere (non-vacuity of the names)
EachDevMatters == \A d \in AllDevs : \E c \in Parts : ParseD(Compose(c), {d}) # Expected(c)

VARIABLES u, sch
vars == <<u, sch>>
LemInit == u = <<>> /\ sch = "http"
LemNext == UNCHANGED vars
LemInv  == ComposeParse /\ RefusesBad /\ EachDevMatters

(* ---- generator: all token strings "localhost" ++ rest, Len(rest) <= MaxRest ---- *)
RestToks == {"127.0.0.1", ":", "80", "8080", "/", "?", "#", "a", "@"}
GenInit == u = <<"localhost">> /\ sch \in Schemes
GenNext == /\ Len(u) < MaxRest + 1
           /\ \E t \in RestToks : u' = Append(u, t)
           /\ UNCHANGED sch
GenInv  == PrintT(ToJson([scheme |-> sch, toks |-> u, url |-> sch \o "://" \o Cat(u),
                          ideal |-> ParseD(u, {}), code |-> ParseD(u, AsFound), devs |-> Matters(u)]))
=============================================================================
