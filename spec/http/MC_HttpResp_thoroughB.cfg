CONSTANTS
  Dev = {}
  Segmented = FALSE
  Families = {"api", "cl", "chunk"}
  CodeMode = "few"
  HdrK = 4
  MaxHdrs = 3
  MaxBody = 3
  BodyMode = "len"
  StyleMode = "all"
  PhraseMode = "reg"
  ManyMode = "none"
  MaxBig = 9
INIT MCInit
NEXT Next
INVARIANTS SerValid RoundTrip ParCorrect Bounded LFIndexOk LemmaInv SrvDenotes NeverErr
CHECK_DEADLOCK FALSE
