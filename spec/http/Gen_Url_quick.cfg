CONSTANTS
  Dev = {}
  MaxRest = 4
  Schemes = {"http"}
INIT GenInit
NEXT GenNext
INVARIANT GenInv
CHECK_DEADLOCK FALSE
