------------------------------- MODULE HttpReq -------------------------------
(* Property C02: request parsing is faithful, independent of read segmentation, and round-trips.

   Three layers, all explored by TLC:

   1. Build_*   enumerate the bounded grammar of well-formed requests as states (start line x body x
                peer in Init, one catalogue field appended per step) and lay each out as bytes.
                In every built state the spec-level lemmas are evaluated:
                  Lemma_DenoteRender   Denote(Render(r)) = Norm(r)
                  Lemma_Canonical      Denote(Render(Inject(Denote(b)))) = Denote(b)
   2. P_* / Buf_*  a model of Request::from_stream(_inner) (humphrey/src/http/request.rs; the sync
                and the tokio parser are the same text with .await): read_exact of the first byte on
                the bare stream, then a BufReader of capacity Cap, read_until(LF) for the start line
                and each field line, take(Content-Length).read_to_end for the body.  The stream hands out
                an arbitrary non-empty number of bytes per read (Buf_Fill, P_BodyDirect), so TLC explores
                EVERY segmentation of the bytes.  Inv_Faithful: whatever the segmentation, the parser
                ends with exactly Denote(wire) and has consumed exactly the request's bytes.
   3. Ser_*     the serialiser From<Request> for Vec<u8> with Headers::iter(): the fields are
                written in SOME order that keeps same-named fields in their relative order (a stable
                sort by a key that is a function of the name) and the result is parsed again.
                Inv_RoundTrip: the re-parsed request equals the parsed one (ReqEq).

   Dev: named deviations (defects of the code, past or plausible) - Dev = {} satisfies every property.
     XffUntrimmed       address.rs did not trim X-Forwarded-For entries ("9.9.9.9, 8.8.8.8" -> origin 9.9.9.9)   [repaired, f9a3d33]
     UnstableHeaderSort headers.rs sorted with sort_unstable_by_key: same-named fields may swap           [repaired, 27df1d6]
     UnicodeTrimStart   request.rs trim_start() also removes non-ASCII white space (U+00A0 ...) that
                        belongs to the value                                                               [repaired, f5c6e49]
     ZeroHdrExtraCrlf   the serialiser writes start line CRLF CRLF CRLF for a request without fields; only the
                        auxiliary Inv_SerialExact sees it (request equality, which is what C02 states, holds)
     BodySingleRead, SplitAllColons, ValueLowercased, XffFirstIsOrigin, LineNoAccumulate,
     NameCaseSensitive (field names not lower-cased), CookieLastEq (cookie-pair split at the LAST "="),
     XffStopAtGarbage (entries after the first non-address ignored):
                        plausible regressions (DESIGN 8a) used to show that the invariants are not vacuous

   TLC note: `-coverage 1` does not terminate on this module (cost-model construction over the nested
   recursive operators of HttpReqSyntax); checks/c02.py takes action coverage from the dumped state
   graph (-dump dot,actionlabels) of MC_HttpReq_seg_cap3 / _seg_live instead. *)
EXTENDS HttpReqSyntax

CONSTANTS StartLines,   \* set of [method, path, hasq, query, version]
          Cat,          \* sequence of header records (the catalogue)
          HdrIdx,       \* indices of Cat in use
          MaxH,         \* at most MaxH catalogue fields per request (Content-Length comes on top)
          Bodies,       \* set of [hasBody, body]
          Peers,        \* set of [ip, port]
          ClNames,      \* spellings of Content-Length
          ClPos,        \* subset of {"first", "last"}: where the Content-Length field goes
          Mode,         \* "lemma": stop at built requests; "machine": run parser and serialiser on each
          Cap,          \* BufReader capacity (8192 in the code; small values exercise the direct-read path)
          Dev

VARIABLES req, clName, clAfter, peer, wire,     \* the request under construction / on the wire
          pc,                                   \* "build","built" | "first","start","hdr","body","done","error" | "serialised","end"
          pos, cons,                            \* bytes handed out by the stream / consumed by the parser
          line, acc, need,                      \* partial line, partial result, body bytes still to read
          out, res2                             \* serialised bytes, re-parsed request
bvars == <<req, clName, clAfter, peer, wire>>
mvars == <<pos, cons, line, acc, need>>
svars == <<out, res2>>
vars  == <<bvars, pc, mvars, svars>>

EmptyAcc == [method |-> <<>>, path |-> <<>>, query |-> <<>>, version |-> <<>>, headers |-> <<>>,
             hasBody |-> FALSE, body |-> <<>>, addr |-> NoAddr]

Init ==
  /\ \E sl \in StartLines, bd \in Bodies :
        req = [method |-> sl.method, path |-> sl.path, hasq |-> sl.hasq, query |-> sl.query, version |-> sl.version,
               headers |-> <<>>, hasBody |-> bd.hasBody, body |-> bd.body]
  /\ peer \in Peers
  /\ clName = <<>> /\ clAfter = 0 /\ wire = <<>>
  /\ pc = "build"
  /\ pos = 0 /\ cons = 0 /\ line = <<>> /\ acc = EmptyAcc /\ need = 0
  /\ out = <<>> /\ res2 = Bad

(***************************************************************************)
(* 1. building requests                                                    *)
(***************************************************************************)
Build_AddHeader ==
  /\ pc = "build" /\ Len(req.headers) < MaxH
  /\ \E k \in HdrIdx :
        /\ IF Cat[k].kind = "plain" THEN TRUE      \* at most one Cookie and one X-Forwarded-For field per request
           ELSE \A i \in 1..Len(req.headers) : req.headers[i].kind # Cat[k].kind
        /\ req' = [req EXCEPT !.headers = Append(@, Cat[k])]
  /\ UNCHANGED <<clName, clAfter, peer, wire, pc, mvars, svars>>

Build_Finish ==
  /\ pc = "build"
  /\ \E cn \in (IF req.hasBody THEN ClNames ELSE {CHOOSE c \in ClNames : TRUE}),
        cp \in (IF req.hasBody THEN ClPos ELSE {CHOOSE c \in ClPos : TRUE}) :
        LET after == IF cp = "first" THEN 0 ELSE Len(req.headers)
        IN /\ clName' = cn /\ clAfter' = after
           /\ wire' = Render(req, cn, after)
  /\ pc' = IF Mode = "machine" THEN "first" ELSE "built"
  /\ UNCHANGED <<req, peer, mvars, svars>>

(***************************************************************************)
(* 2. the parser (request.rs from_stream / from_stream_inner)              *)
(***************************************************************************)
Min2(a, b) == IF a < b THEN a ELSE b
Buffered == pos - cons
NextLf == LET j == IndexFrom(wire, cons + 1, LF) IN IF j = 0 \/ j > pos THEN 0 ELSE j
FullLine == line \o SubSeq(wire, cons + 1, NextLf)

\* stream.read_exact(&mut first_buf): one byte taken from the bare stream, before the BufReader exists
P_ReadFirst ==
  /\ pc = "first" /\ pos < Len(wire)
  /\ pos' = 1 /\ cons' = 1 /\ line' = << wire[1] >> /\ pc' = "start"
  /\ UNCHANGED <<bvars, acc, need, svars>>

\* BufReader::fill_buf: buffer empty, one read of at most Cap bytes; the stream returns any n >= 1.
\* (While the body is read the destination offered by read_to_end may be smaller than Cap, in which case
\* the BufReader fills its own buffer; when it is at least Cap bytes P_BodyDirect applies instead.)
Buf_Fill ==
  /\ pc \in {"start", "hdr", "body"}
  /\ Buffered = 0 /\ pos < Len(wire)
  /\ \E n \in 1..Min2(Cap, Len(wire) - pos) : pos' = pos + n
  /\ UNCHANGED <<bvars, pc, cons, line, acc, need, svars>>

\* a read that returns 0: the request is incomplete
P_Eof ==
  /\ pc \in {"first", "start", "hdr", "body"} /\ Buffered = 0 /\ pos = Len(wire)
  /\ pc' = "error"
  /\ UNCHANGED <<bvars, mvars, svars>>

\* read_until: no LF among the buffered bytes - all of them join the line, the buffer is empty again
P_LinePartial ==
  /\ pc \in {"start", "hdr"} /\ Buffered > 0 /\ NextLf = 0
  /\ line' = (IF "LineNoAccumulate" \in Dev THEN <<>> ELSE line) \o SubSeq(wire, cons + 1, pos)
  /\ cons' = pos
  /\ UNCHANGED <<bvars, pc, pos, acc, need, svars>>

\* start line: split(' '), first three parts; target.splitn(2, '?'); version.strip_suffix("\r\n")
Code_StartLine(full) ==
  LET parts == Split(full, SP)
      v     == IF Len(parts) >= 3 THEN parts[3] ELSE <<>>
      tgt   == IF Len(parts) >= 2 THEN parts[2] ELSE <<>>
      q     == IndexFrom(tgt, 1, QM)
  IN [ok |-> /\ Len(parts) >= 3 /\ parts[1] \in Methods
             /\ Len(v) > 2 /\ v[Len(v) - 1] = CR /\ v[Len(v)] = LF,
      method  |-> parts[1],
      path    |-> IF q = 0 THEN tgt ELSE SubSeq(tgt, 1, q - 1),
      query   |-> IF q = 0 THEN <<>> ELSE SubSeq(tgt, q + 1, Len(tgt)),
      version |-> SubSeq(v, 1, Len(v) - 2)]

P_StartLine ==
  /\ pc = "start" /\ Buffered > 0 /\ NextLf # 0
  /\ LET sl == Code_StartLine(FullLine)
     IN IF sl.ok
        THEN /\ acc' = [acc EXCEPT !.method = sl.method, !.path = sl.path, !.query = sl.query, !.version = sl.version]
             /\ pc' = "hdr"
        ELSE /\ acc' = acc /\ pc' = "error"
  /\ cons' = NextLf /\ line' = <<>>
  /\ UNCHANGED <<bvars, pos, need, svars>>

\* str::trim_start as written removed every Unicode White_Space character; U+00A0 (C2 A0) stands for them
RECURSIVE UnicodeTrimL(_)
UnicodeTrimL(s) == IF s # <<>> /\ IsOWS(s[1]) THEN UnicodeTrimL(Tail(s))
                   ELSE IF Len(s) >= 2 /\ s[1] = "%C2" /\ s[2] = "%A0" THEN UnicodeTrimL(SubSeq(s, 3, Len(s)))
                   ELSE s

\* field line: strip_suffix("\r\n"), splitn(2, ':'), HeaderType::from(name) (ASCII lower-casing), trim_start of the value
Code_FieldLine(full) ==
  LET n    == Len(full)
      l    == SubSeq(full, 1, n - 2)
      c    == IndexFrom(l, 1, COLON)
      rawv == SubSeq(l, c + 1, Len(l))
      c2   == IndexFrom(rawv, 1, COLON)
      v0   == IF "SplitAllColons" \in Dev /\ c2 # 0 THEN SubSeq(rawv, 1, c2 - 1) ELSE rawv
      v1   == IF "UnicodeTrimStart" \in Dev THEN UnicodeTrimL(v0) ELSE TrimL(v0)
      v    == IF "ValueLowercased" \in Dev THEN LowerSeq(v1) ELSE v1
      nm   == IF "NameCaseSensitive" \in Dev THEN SubSeq(l, 1, c - 1) ELSE LowerSeq(SubSeq(l, 1, c - 1))
  IN [ok |-> n >= 2 /\ full[n - 1] = CR /\ full[n] = LF /\ c # 0, field |-> << nm, v >>]

P_HeaderLine ==
  /\ pc = "hdr" /\ Buffered > 0 /\ NextLf # 0 /\ FullLine # <<CR, LF>>
  /\ LET f == Code_FieldLine(FullLine)
     IN IF f.ok THEN acc' = [acc EXCEPT !.headers = Append(@, f.field)] /\ pc' = "hdr"
        ELSE acc' = acc /\ pc' = "error"
  /\ cons' = NextLf /\ line' = <<>>
  /\ UNCHANGED <<bvars, pos, need, svars>>

\* Address::from_headers: split(','), trim, keep what parses as an address
Code_Addr(fields) ==
  IF "XffStopAtGarbage" \in Dev
  THEN LET x == FirstValue(fields, N_XFF)
           ents == Split(x.v, COMMA)
           cand == [ i \in 1..Len(ents) |-> Trim(ents[i]) ]
           bad  == { i \in 1..Len(cand) : ~IsIp(cand[i]) }
           ips  == SubSeq(cand, 1, IF bad = {} THEN Len(cand) ELSE MinOf(bad) - 1)
           n    == Len(ips)
       IN IF ~x.has THEN Direct(peer) ELSE IF n = 0 THEN Direct(peer)
          ELSE [origin |-> ips[n], proxies |-> SubSeq(ips, 1, n - 1) \o <<peer.ip>>, port |-> peer.port]
  ELSE AddrGen(fields, peer, "XffUntrimmed" \notin Dev, "XffFirstIsOrigin" \notin Dev)

\* Request::get_cookies: first Cookie field, split(';'), split_once('='), trim
Code_Cookies(fields) ==
  IF "CookieLastEq" \in Dev
  THEN LET c   == FirstValue(fields, N_COOKIE)
           pcs == Split(c.v, SEMI)
           prs == SelectSeq(pcs, LAMBDA p : IndexFrom(p, 1, EQS) # 0)
           LastEq(p) == CHOOSE j \in 1..Len(p) : p[j] = EQS /\ \A k \in (j + 1)..Len(p) : p[k] # EQS
       IN IF ~c.has THEN <<>>
          ELSE [ i \in 1..Len(prs) |-> << Trim(SubSeq(prs[i], 1, LastEq(prs[i]) - 1)),
                                          Trim(SubSeq(prs[i], LastEq(prs[i]) + 1, Len(prs[i]))) >> ]
  ELSE CookiesOf(fields)

\* empty line: Address::from_headers, then Content-Length decides whether a body is read
P_EndOfHeaders ==
  /\ pc = "hdr" /\ Buffered > 0 /\ NextLf # 0 /\ FullLine = <<CR, LF>>
  /\ LET a   == Code_Addr(acc.headers)
         clv == FirstValue(acc.headers, N_CL)
         n   == IF clv.has THEN ParseDec(clv.v) ELSE 0
     IN IF n < 0 THEN acc' = acc /\ need' = 0 /\ pc' = "error"
        ELSE /\ acc' = [acc EXCEPT !.addr = a, !.hasBody = clv.has]
             /\ need' = n
             /\ pc' = IF n = 0 THEN "done" ELSE "body"
  /\ cons' = NextLf /\ line' = <<>>
  /\ UNCHANGED <<bvars, pos, svars>>

\* reader.take(Content-Length).read_to_end(..): bytes already buffered are copied first ...
P_BodyFromBuf ==
  /\ pc = "body" /\ Buffered > 0
  /\ LET k == Min2(need, Buffered)
     IN /\ cons' = cons + k
        /\ acc' = [acc EXCEPT !.body = @ \o SubSeq(wire, cons + 1, cons + k)]
        /\ IF "BodySingleRead" \in Dev
           THEN need' = 0 /\ pc' = "done"        \* one `read`, no length check: a short body is returned
           ELSE need' = need - k /\ pc' = IF need = k THEN "done" ELSE "body"
  /\ UNCHANGED <<bvars, pos, line, svars>>

\* ... and with an empty buffer and a destination of at least Cap bytes the BufReader reads straight into it
\* (never past the Content-Length: Take limits the destination)
P_BodyDirect ==
  /\ pc = "body" /\ Buffered = 0 /\ need >= Cap /\ pos < Len(wire)
  /\ \E n \in 1..Min2(need, Len(wire) - pos) :
        /\ pos' = pos + n /\ cons' = cons + n
        /\ acc' = [acc EXCEPT !.body = @ \o SubSeq(wire, pos + 1, pos + n)]
        /\ need' = need - n
        /\ pc' = IF need = n THEN "done" ELSE "body"
  /\ UNCHANGED <<bvars, line, svars>>

\* the value from_stream returns, in the shape of the abstract request (cookies are computed on demand by get_cookies)
Result == [ok |-> TRUE, method |-> acc.method, path |-> acc.path, query |-> acc.query, version |-> acc.version,
           headers |-> acc.headers, hasBody |-> acc.hasBody, body |-> acc.body, addr |-> acc.addr,
           cookies |-> Code_Cookies(acc.headers), used |-> cons]

(***************************************************************************)
(* 3. the serialiser and the second parse                                  *)
(***************************************************************************)
Perms(n) == { f \in [1..n -> 1..n] : \A i, j \in 1..n : i # j => f[i] # f[j] }
\* f[k] = index of the field written k-th.  Stable: same-named fields keep their relative order.
Stable(f, hs) == \A k1, k2 \in 1..Len(hs) : (k1 < k2 /\ hs[f[k1]][1] = hs[f[k2]][1]) => f[k1] < f[k2]
Orders(hs) == IF "UnstableHeaderSort" \in Dev THEN Perms(Len(hs))
              ELSE { f \in Perms(Len(hs)) : Stable(f, hs) }

Code_Serialise(a, f) ==
  LET start == a.method \o <<SP>> \o a.path \o (IF a.query = <<>> THEN <<>> ELSE <<QM>> \o a.query) \o <<SP>> \o a.version
      hl    == [ k \in 1..Len(a.headers) |-> a.headers[f[k]][1] \o <<COLON, SP>> \o a.headers[f[k]][2] ]
  IN IF a.headers = <<>> /\ "ZeroHdrExtraCrlf" \notin Dev
     THEN start \o <<CR, LF, CR, LF>> \o a.body
     ELSE start \o <<CR, LF>> \o Join(hl, <<CR, LF>>) \o <<CR, LF, CR, LF>> \o a.body

Ser_Serialise ==
  /\ pc = "done"
  /\ \E f \in Orders(acc.headers) : out' = Code_Serialise(Result, f)
  /\ pc' = "serialised"
  /\ UNCHANGED <<bvars, mvars, res2>>

Ser_Reparse ==
  /\ pc = "serialised"
  /\ res2' = Denote(out, peer)
  /\ pc' = "end"
  /\ UNCHANGED <<bvars, mvars, out>>

Next == \/ Build_AddHeader \/ Build_Finish
        \/ P_ReadFirst \/ Buf_Fill \/ P_Eof \/ P_LinePartial \/ P_StartLine \/ P_HeaderLine \/ P_EndOfHeaders
        \/ P_BodyFromBuf \/ P_BodyDirect
        \/ Ser_Serialise \/ Ser_Reparse
Spec == Init /\ [][Next]_vars /\ WF_vars(Next)

(***************************************************************************)
(* Properties                                                              *)
(***************************************************************************)
Built == pc \in {"built", "first"}            \* evaluated once per request (wire is complete, nothing parsed yet)

\* the catalogue only contains well-formed requests (the quantifier of C02)
Inv_WellFormed == Built => WfTree(req)

\* spec-level lemmas: the two definitions of "the request these bytes denote" agree ...
Lemma_DenoteRender == Built => Denote(wire, peer) = Norm(req, clName, clAfter, peer)
\* ... and the denotation is a fixed point of canonical re-rendering
Lemma_Canonical ==
  Built => LET a == Denote(wire, peer)
               b == RenderAbs(a)
           IN a.ok /\ Denote(b, peer) = [a EXCEPT !.used = Len(b)]

\* C02, first sentence: whatever the segmentation, the parser returns the denotation and has consumed
\* exactly the bytes of the request
Inv_Faithful == (pc = "done") => Result = Denote(wire, peer)
Inv_NoError  == pc # "error"
Inv_Reads    == cons <= pos /\ pos <= Len(wire)

\* C02, second sentence: serialise, parse again, equal request
Inv_RoundTrip == (pc = "end") => ReqEq(res2, Result)

\* auxiliary, NOT part of C02: the serialised bytes are exactly one message (nothing trails the body)
Inv_SerialExact == (pc = "end") => res2.used = Len(out)

\* every run ends: requests are built, parsed, serialised and parsed again
Terminates == <>(pc \in {"built", "end"})
=============================================================================
