CONSTANTS
  StartLines <- SL_Six
  Cat <- Catalogue
  HdrIdx = {1,6,11,14,16,21}
  MaxH = 1
  Bodies <- Bodies4
  Peers <- PeersOne
  ClNames <- ClLower
  ClPos = {"last"}
  Mode = "lemma"
  Cap = 8192
  Dev = {}
INIT InitAQ
NEXT Next
INVARIANTS Inv_WellFormed Lemma_DenoteRender Lemma_Canonical
CHECK_DEADLOCK FALSE
