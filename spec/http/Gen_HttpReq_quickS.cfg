CONSTANTS
  StartLines <- SL_One
  Cat <- Catalogue
  HdrIdx = {}
  MaxH = 0
  Bodies <- BodiesScaleQ
  Peers <- PeersOne
  ClNames <- ClMixed
  ClPos = {"first","last"}
  Mode = "lemma"
  Cap = 8192
  Dev = {}
INIT InitScale
NEXT Next
INVARIANTS GenInv
CHECK_DEADLOCK FALSE
