CONSTANTS
  StartLines <- SL_One
  Cat <- Catalogue
  HdrIdx = {}
  MaxH = 0
  Bodies <- BodiesScaleQ
  Peers <- PeersOne
  ClNames <- ClMixed
  ClPos = {"first","last"}
  Mode = "lemma"
  Cap = 8192
  Dev = {}
INIT InitScale
NEXT Next
INVARIANTS Inv_WellFormed Lemma_DenoteRender Lemma_Canonical
CHECK_DEADLOCK FALSE
