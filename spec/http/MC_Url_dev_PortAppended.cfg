CONSTANTS
  Dev = {"PortAppended"}
  MaxRest = 0
  Schemes = {"http"}
INIT LemInit
NEXT LemNext
INVARIANT ComposeParse
CHECK_DEADLOCK FALSE
