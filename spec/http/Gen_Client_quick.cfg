CONSTANTS
  Dev = {}
  MaxHops = 3
  RedirCodes = {301, 302, 307}
  Kinds = {"rel", "abs"}
  Finals <- MCFinals
  PathModes <- MCPathModes
  FollowModes = {TRUE, FALSE}
INIT Init
NEXT Next
INVARIANTS GenInv EndsAtFinal NoFollowReturnsFirst
CHECK_DEADLOCK FALSE
