CONSTANTS
  StartLines <- SL_One
  Cat <- Catalogue
  HdrIdx = {2}
  MaxH = 1
  Bodies <- Bodies1
  Peers <- PeersOne
  ClNames <- ClOne
  ClPos = {"last"}
  Mode = "machine"
  Cap = 8192
  Dev = {"NameCaseSensitive"}
INIT Init
NEXT Next
INVARIANTS Inv_Faithful Inv_NoError Inv_RoundTrip
CHECK_DEADLOCK FALSE
