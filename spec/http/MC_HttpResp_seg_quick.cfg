CONSTANTS
  Dev = {}
  Segmented = TRUE
  Families = {"api", "cl", "chunk", "bigchunk"}
  CodeMode = "one"
  HdrK = 1
  MaxHdrs = 1
  MaxBody = 1
  BodyMode = "len"
  StyleMode = "one"
  PhraseMode = "reg"
  ManyMode = "none"
  MaxBig = 10
SPECIFICATION MCSpec
INVARIANTS SerValid RoundTrip ParCorrect Bounded LFIndexOk LemmaInv SrvDenotes NeverErr
CHECK_DEADLOCK FALSE
PROPERTY Terminates
