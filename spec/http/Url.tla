--------------------------------- MODULE Url ---------------------------------
(* Growth item beyond the 20 properties (wired into C07 as a drift-only part): what request
   humphrey::client::Client::{get, post, put, delete}(url) builds from a URL
   (client.rs parse_url ~L211-257 and the four builders L39-145).

   A URL is a sequence of TOKENS after its scheme; a token is a string that the parser never looks
   inside (a host name, a port number, a letter) or one of the delimiters the RFC 3986 generic syntax
   gives a meaning to:  ":"  "/"  "?"  "#"  "@".   The text of a URL is the concatenation of its tokens.

        URL       = scheme "://" authority path-abempty [ "?" query ] [ "#" fragment ]
        authority = [ userinfo "@" ] host [ ":" [ port ] ]

   Parse(scheme, u) is what the client must put on the wire for it:
        ok      - the URL is accepted
        host    - the value of the Host header: the authority without its userinfo
        port    - the port to connect to ("" = the scheme's default)
        path    - the request target's path ("/" when the URL has none)
        query   - the query without "?" and without the fragment

   Dev = {} is RFC 3986.  The code deviates in four ways, each named and each as narrow as what the code does:
     SplitAtSlashOnly  - the authority ends at the first "/" only, so "http://h?x" and "http://h#f" have the
                         authority "h?x" / "h#f"
     UserinfoInHost    - everything before the first "/" is taken for the host, userinfo included
     PortAppended      - ":80" / ":443" is appended to whatever the authority is before it is resolved, so an
                         authority that already has a port ("h:8080", "h:") does not resolve: the URL is refused
     FragmentKept      - the fragment is not removed: it stays in the query (or in the path when there is no query)
   `Client::get("http://127.0.0.1:8080/")` = Err("Invalid URL") was PortAppended: found by this module, repaired in /repo
   (fix: ... explicit port), so AsFound - the set the code shows today - is the other three. *)
EXTENDS Naturals, Sequences, FiniteSets, TLC

CONSTANTS Dev

HostToks == {"localhost", "127.0.0.1"}
PortToks == {"80", "8080"}
AllDevs  == {"SplitAtSlashOnly", "UserinfoInHost", "PortAppended", "FragmentKept"}
AsFound  == AllDevs \ {"PortAppended"}          \* PortAppended was repaired (KNOWN_FINDINGS.txt); it stays as a sensitivity config

RECURSIVE Cat(_)
Cat(s) == IF s = <<>> THEN "" ELSE Head(s) \o Cat(Tail(s))

\* index of the first element of s that is in S, Len(s)+1 when there is none
RECURSIVE FirstIn(_, _, _)
FirstIn(s, S, i) == IF i > Len(s) THEN Len(s) + 1 ELSE IF s[i] \in S THEN i ELSE FirstIn(s, S, i + 1)
\* index of the last "@" of s, 0 when there is none
RECURSIVE LastAt(_, _)
LastAt(s, i) == IF i = 0 THEN 0 ELSE IF s[i] = "@" THEN i ELSE LastAt(s, i - 1)
From(s, i) == IF i > Len(s) THEN <<>> ELSE SubSeq(s, i, Len(s))
Upto(s, i) == IF i < 1 THEN <<>> ELSE SubSeq(s, 1, i)
Has(s, x) == \E i \in 1..Len(s) : s[i] = x

\* a port is *DIGIT and at most 65535: the tokens are numbers, so "80" "80" is the port 8080 ("8080" "80" is too large); an
\* empty port means the default (RFC 3986 3.2.3).  Everywhere else the model does not look inside concatenated tokens.
PortOk(p) == p \in {<<>>, <<"80">>, <<"8080">>, <<"80", "80">>}

Refused == [ok |-> FALSE, host |-> "", port |-> "", path |-> "", query |-> ""]

ParseD(u, D) ==
  LET cut   == IF "SplitAtSlashOnly" \in D THEN {"/"} ELSE {"/", "?", "#"}
      a     == FirstIn(u, cut, 1)
      auth  == Upto(u, a - 1)
      rest  == From(u, a)                                   \* empty, or starts with a token of cut
      k     == IF "UserinfoInHost" \in D THEN 0 ELSE LastAt(auth, Len(auth))
      ui    == Upto(auth, k - 1)
      hp    == From(auth, k + 1)
      hasPort == Len(hp) >= 2
      hostOk == /\ Len(hp) >= 1 /\ hp[1] \in HostToks
                /\ ~ Has(ui, "@")
                /\ IF "PortAppended" \in D THEN Len(hp) = 1
                   ELSE \/ Len(hp) = 1
                        \/ Len(hp) >= 2 /\ hp[2] = ":" /\ PortOk(From(hp, 3))
      pEnd  == IF "FragmentKept" \in D THEN {"?"} ELSE {"?", "#"}
      p     == FirstIn(rest, pEnd, 1)
      pathT == Upto(rest, p - 1)                            \* empty or starts with "/"
      afterP == From(rest, p)
      hasQ  == afterP # <<>> /\ afterP[1] = "?"
      qAll  == IF hasQ THEN From(afterP, 2) ELSE <<>>
      q     == IF "FragmentKept" \in D THEN Len(qAll) + 1 ELSE FirstIn(qAll, {"#"}, 1)
      queryT == Upto(qAll, q - 1)
      frag  == IF "FragmentKept" \in D THEN <<>>
               ELSE IF hasQ THEN From(qAll, q + 1)
               ELSE From(afterP, 2)                         \* afterP = <<>> or starts with "#"
      fragOk == ~ Has(frag, "#")
  IN IF ~ hostOk \/ ~ fragOk THEN Refused
     ELSE [ok |-> TRUE, host |-> Cat(hp),
           port |-> Cat(From(hp, 3)),
           path |-> IF pathT = <<>> THEN "/" ELSE Cat(pathT),
           query |-> Cat(queryT)]

Parse(u) == ParseD(u, Dev)

\* which of the as-found deviations matter for this URL (removing it from AsFound changes the answer)
Matters(u) == { d \in AsFound : ParseD(u, AsFound \ {d}) # ParseD(u, AsFound) }

(* ---- the independent oracle: compose a URL from its parts, parsing must give the parts back ---- *)
NONE == <<"-">>                                             \* "component absent" (differs from the empty component <<>>)
Compose(c) ==
  (IF c.ui = NONE THEN <<>> ELSE c.ui \o <<"@">>) \o <<c.host>> \o
  (IF c.port = NONE THEN <<>> ELSE <<":">> \o c.port) \o c.path \o
  (IF c.query = NONE THEN <<>> ELSE <<"?">> \o c.query) \o
  (IF c.frag = NONE THEN <<>> ELSE <<"#">> \o c.frag)
Expected(c) == [ok |-> TRUE,
                host |-> c.host \o (IF c.port = NONE THEN "" ELSE ":" \o Cat(c.port)),
                port |-> IF c.port = NONE THEN "" ELSE Cat(c.port),
                path |-> IF c.path = <<>> THEN "/" ELSE Cat(c.path),
                query |-> IF c.query = NONE THEN "" ELSE Cat(c.query)]
=============================================================================
