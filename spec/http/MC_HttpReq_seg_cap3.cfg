CONSTANTS
  StartLines <- SL_One
  Cat <- Catalogue
  HdrIdx = {2,11}
  MaxH = 1
  Bodies <- Bodies3
  Peers <- PeersOne
  ClNames <- ClOne
  ClPos = {"first"}
  Mode = "machine"
  Cap = 3
  Dev = {}
INIT Init
NEXT Next
INVARIANTS Inv_WellFormed Lemma_DenoteRender Lemma_Canonical Inv_Faithful Inv_NoError Inv_Reads Inv_RoundTrip
CHECK_DEADLOCK FALSE
