CONSTANTS
  Dev = {}
  Segmented = FALSE
  Families = {"api", "cl", "chunk"}
  CodeMode = "few"
  HdrK = 4
  MaxHdrs = 2
  MaxBody = 1
  BodyMode = "len"
  StyleMode = "all"
  PhraseMode = "free"
  MaxBig = 9
INIT MCInit
NEXT Next
INVARIANTS SerValid RoundTrip ParCorrect Bounded LFIndexOk LemmaInv SrvDenotes NeverTrunc
CHECK_DEADLOCK FALSE
