--------------------------- MODULE HttpRespSyntax ---------------------------
(* Property C07: HTTP/1.x responses as records and as byte strings - the constant-level half of
   HttpResp.tla (see there), without variables so that MC_HttpResp, Trace_HttpResp and the state
   machine share one definition of "what these bytes mean".

   Written from RFC 7230 section 3 (message format), 3.3.3 (body length), 4.1 (chunked coding),
   RFC 7231 section 6.1 (status codes and reason phrases) and RFC 6265 section 4.1 (Set-Cookie),
   not from the Rust code. *)
EXTENDS Naturals, Sequences, FiniteSets, TLC

-----------------------------------------------------------------------------
(* Strings as byte sequences                                                  *)
CR   == "\r"
LF   == "\n"
CRLF == "\r\n"
SP   == " "
HTAB == "\t"

At(s, i)   == SubSeq(s, i, i)
Take(s, n) == SubSeq(s, 1, n)
Drop(s, n) == SubSeq(s, n + 1, Len(s))
StartsWith(s, p) == Len(s) >= Len(p) /\ Take(s, Len(p)) = p
Min(a, b) == IF a <= b THEN a ELSE b

\* least i >= from such that p occurs in s at i; 0 when there is none.  The string is searched in windows
\* of 32 positions (FindIn) so that the recursion depth stays about Len(s)/32 + 32 for strings of several
\* KiB: TLC's cost per evaluation grows with the depth of the recursion.  (Each parameter is used once per
\* recursive argument on purpose: with -coverage TLC re-evaluates lazy arguments at every use.)
RECURSIVE FindIn(_, _, _, _)
FindIn(s, p, from, to) ==            \* least match position in from..to, else 0
  IF from > to \/ from + Len(p) - 1 > Len(s) THEN 0
  ELSE IF SubSeq(s, from, from + Len(p) - 1) = p THEN from
  ELSE FindIn(s, p, from + 1, to)
RECURSIVE Find(_, _, _)
FindNext(s, p, from, r) == IF r # 0 THEN r ELSE Find(s, p, from + 32)
Find(s, p, from) ==
  IF from + Len(p) - 1 > Len(s) THEN 0 ELSE FindNext(s, p, from, FindIn(s, p, from, from + 31))

RECURSIVE LFPositions(_, _)
LFPositions(s, from) == LET i == Find(s, LF, from) IN IF i = 0 THEN <<>> ELSE <<i>> \o LFPositions(s, i + 1)

RECURSIVE Concat(_)
Concat(ss) == IF ss = <<>> THEN "" ELSE Head(ss) \o Concat(Tail(ss))

LowerAlpha == "abcdefghijklmnopqrstuvwxyz"
UpperAlpha == "ABCDEFGHIJKLMNOPQRSTUVWXYZ"
LowerMap == [c \in {At(UpperAlpha, i) : i \in 1..26} |-> At(LowerAlpha, CHOOSE i \in 1..26 : At(UpperAlpha, i) = c)]
UpperMap == [c \in {At(LowerAlpha, i) : i \in 1..26} |-> At(UpperAlpha, CHOOSE i \in 1..26 : At(LowerAlpha, i) = c)]
RECURSIVE MapChars(_, _)
MapChars(f, s) == IF s = "" THEN ""
                  ELSE (IF At(s, 1) \in DOMAIN f THEN f[At(s, 1)] ELSE At(s, 1)) \o MapChars(f, Drop(s, 1))
Lower(s) == MapChars(LowerMap, s)
Upper(s) == MapChars(UpperMap, s)

IsOWS(c) == c = SP \/ c = HTAB
RECURSIVE TrimStart(_)
TrimStart(s) == IF s # "" /\ IsOWS(At(s, 1)) THEN TrimStart(Drop(s, 1)) ELSE s
RECURSIVE TrimEndOWS(_)
TrimEndOWS(s) == IF s # "" /\ IsOWS(At(s, Len(s))) THEN TrimEndOWS(Take(s, Len(s) - 1)) ELSE s
TrimOWS(s) == TrimEndOWS(TrimStart(s))
RECURSIVE TrimEndWS(_)
TrimEndWS(s) == IF s # "" /\ At(s, Len(s)) \in {SP, HTAB, CR, LF} THEN TrimEndWS(Take(s, Len(s) - 1)) ELSE s

\* numbers.  NaN is the "not a number" result (TLC integers are 32 bit; all values here are < 10^6)
NaN == 99999999
DecDigits == "0123456789"
HexLower  == "0123456789abcdef"
HexUpper  == "0123456789ABCDEF"
DecMap == [c \in {At(DecDigits, i) : i \in 1..10} |-> (CHOOSE i \in 1..10 : At(DecDigits, i) = c) - 1]
HexMap == [c \in {At(HexLower, i) : i \in 1..16} \cup {At(HexUpper, i) : i \in 11..16} |->
             IF \E i \in 1..16 : At(HexLower, i) = c THEN (CHOOSE i \in 1..16 : At(HexLower, i) = c) - 1
             ELSE (CHOOSE i \in 11..16 : At(HexUpper, i) = c) - 1]

RECURSIVE RadixVal(_, _, _, _)
RadixVal(map, base, s, acc) ==
  IF s = "" THEN acc
  ELSE IF At(s, 1) \notin DOMAIN map THEN NaN
  ELSE RadixVal(map, base, Drop(s, 1), acc * base + map[At(s, 1)])
DecVal(s) == IF s = "" \/ Len(s) > 7 THEN NaN ELSE RadixVal(DecMap, 10, s, 0)
HexVal(s) == IF s = "" \/ Len(s) > 7 THEN NaN ELSE RadixVal(HexMap, 16, s, 0)

RECURSIVE Dec(_)
Dec(n) == IF n < 10 THEN At(DecDigits, n + 1) ELSE Dec(n \div 10) \o At(DecDigits, (n % 10) + 1)
RECURSIVE Hex(_, _)
Hex(n, upper) == LET tab == IF upper THEN HexUpper ELSE HexLower IN
                 IF n < 16 THEN At(tab, n + 1) ELSE Hex(n \div 16, upper) \o At(tab, (n % 16) + 1)

-----------------------------------------------------------------------------
(* Status codes.  One row per variant of humphrey::http::StatusCode (status.rs); `p` is the reason  *)
(* phrase registered by RFC 7231 section 6.1 (IANA HTTP Status Code Registry), `alt` the older RFC    *)
(* 2616 phrase where the registry changed it - DESIGN 5a: both are accepted for 413, 414, 416 -, `alt2`    *)
(* the RFC 9110 phrase where that differs again (413).                                                 *)
StatusRows == <<
  [c |-> 100, p |-> "Continue",                       alt |-> "", alt2 |-> ""],
  [c |-> 101, p |-> "Switching Protocols",            alt |-> "", alt2 |-> ""],
  [c |-> 200, p |-> "OK",                             alt |-> "", alt2 |-> ""],
  [c |-> 201, p |-> "Created",                        alt |-> "", alt2 |-> ""],
  [c |-> 202, p |-> "Accepted",                       alt |-> "", alt2 |-> ""],
  [c |-> 203, p |-> "Non-Authoritative Information",  alt |-> "", alt2 |-> ""],
  [c |-> 204, p |-> "No Content",                     alt |-> "", alt2 |-> ""],
  [c |-> 205, p |-> "Reset Content",                  alt |-> "", alt2 |-> ""],
  [c |-> 206, p |-> "Partial Content",                alt |-> "", alt2 |-> ""],
  [c |-> 300, p |-> "Multiple Choices",               alt |-> "", alt2 |-> ""],
  [c |-> 301, p |-> "Moved Permanently",              alt |-> "", alt2 |-> ""],
  [c |-> 302, p |-> "Found",                          alt |-> "", alt2 |-> ""],
  [c |-> 303, p |-> "See Other",                      alt |-> "", alt2 |-> ""],
  [c |-> 304, p |-> "Not Modified",                   alt |-> "", alt2 |-> ""],
  [c |-> 305, p |-> "Use Proxy",                      alt |-> "", alt2 |-> ""],
  [c |-> 307, p |-> "Temporary Redirect",             alt |-> "", alt2 |-> ""],
  [c |-> 400, p |-> "Bad Request",                    alt |-> "", alt2 |-> ""],
  [c |-> 401, p |-> "Unauthorized",                   alt |-> "", alt2 |-> ""],
  [c |-> 403, p |-> "Forbidden",                      alt |-> "", alt2 |-> ""],
  [c |-> 404, p |-> "Not Found",                      alt |-> "", alt2 |-> ""],
  [c |-> 405, p |-> "Method Not Allowed",             alt |-> "", alt2 |-> ""],
  [c |-> 406, p |-> "Not Acceptable",                 alt |-> "", alt2 |-> ""],
  [c |-> 407, p |-> "Proxy Authentication Required",  alt |-> "", alt2 |-> ""],
  [c |-> 408, p |-> "Request Timeout",                alt |-> "", alt2 |-> ""],
  [c |-> 409, p |-> "Conflict",                       alt |-> "", alt2 |-> ""],
  [c |-> 410, p |-> "Gone",                           alt |-> "", alt2 |-> ""],
  [c |-> 411, p |-> "Length Required",                alt |-> "", alt2 |-> ""],
  [c |-> 412, p |-> "Precondition Failed",            alt |-> "", alt2 |-> ""],
  [c |-> 413, p |-> "Payload Too Large",              alt |-> "Request Entity Too Large", alt2 |-> "Content Too Large"],
  [c |-> 414, p |-> "URI Too Long",                   alt |-> "Request-URI Too Long", alt2 |-> ""],
  [c |-> 415, p |-> "Unsupported Media Type",         alt |-> "", alt2 |-> ""],
  [c |-> 416, p |-> "Range Not Satisfiable",          alt |-> "Requested Range Not Satisfiable", alt2 |-> ""],
  [c |-> 417, p |-> "Expectation Failed",             alt |-> "", alt2 |-> ""],
  [c |-> 500, p |-> "Internal Server Error",          alt |-> "", alt2 |-> ""],
  [c |-> 501, p |-> "Not Implemented",                alt |-> "", alt2 |-> ""],
  [c |-> 502, p |-> "Bad Gateway",                    alt |-> "", alt2 |-> ""],
  [c |-> 503, p |-> "Service Unavailable",            alt |-> "", alt2 |-> ""],
  [c |-> 504, p |-> "Gateway Timeout",                alt |-> "", alt2 |-> ""],
  [c |-> 505, p |-> "HTTP Version Not Supported",     alt |-> "", alt2 |-> ""] >>

Codes == { StatusRows[i].c : i \in 1..Len(StatusRows) }
RowOf == [c \in Codes |-> StatusRows[CHOOSE i \in 1..Len(StatusRows) : StatusRows[i].c = c]]
Row(c) == RowOf[c]
\* alt2: the phrase of RFC 9110 15.5.14, which is what the IANA registry lists today for 413
Phrases(c) == ({Row(c).p, Row(c).alt, Row(c).alt2}) \ {""}
\* RFC 7230 3.3.3 rule 1: these never carry a body; RFC 7231 6.3.6: neither does 205
Bodiless(c) == c < 200 \/ c = 204 \/ c = 205 \/ c = 304

-----------------------------------------------------------------------------
(* Responses as records: [version, code, headers (sequence of [n, v]), body]                       *)
Hdr(n, v) == [n |-> n, v |-> v]
Resp(ver, c, h, b) == [version |-> ver, code |-> c, headers |-> h, body |-> b]

\* Equality of header lists in the sense of DESIGN 5a (C02/C07): for every header name, compared
\* case-insensitively, the same list of values in the same order; order between different names is free.
LowerNames(h) == [i \in 1..Len(h) |-> Hdr(Lower(h[i].n), h[i].v)]
ValsOf(lh, nm) == LET s == SelectSeq(lh, LAMBDA x : x.n = nm) IN [i \in 1..Len(s) |-> s[i].v]
SameHeaders(a, b) ==
  LET la == LowerNames(a)
      lb == LowerNames(b)
  IN /\ Len(a) = Len(b)
     /\ \A nm \in {la[i].n : i \in 1..Len(la)} \cup {lb[i].n : i \in 1..Len(lb)} : ValsOf(la, nm) = ValsOf(lb, nm)
HasHdr(h, lname)   == \E i \in 1..Len(h) : Lower(h[i].n) = lname
FirstVal(h, lname) == LET lh == LowerNames(h) IN
                      lh[CHOOSE i \in 1..Len(lh) : lh[i].n = lname /\ \A j \in 1..(i - 1) : lh[j].n # lname].v
Without(h, lname)  == SelectSeq(h, LAMBDA x : Lower(x.n) # lname)

RespEq(a, b) == /\ a.version = b.version /\ a.code = b.code /\ a.body = b.body
                /\ SameHeaders(a.headers, b.headers)

\* "carries the Content-Length the server adds or has no body" (the domain of the round-trip claim)
FramedOrEmpty(r) ==
  IF HasHdr(r.headers, "content-length")
  THEN ValsOf(LowerNames(r.headers), "content-length") = <<Dec(Len(r.body))>>
  ELSE r.body = ""

-----------------------------------------------------------------------------
(* Rendering                                                                                        *)
StatusLine(ver, c, ph) == ver \o SP \o Dec(c) \o SP \o ph
RECURSIVE HeaderBlock(_)
HeaderBlock(h) == IF h = <<>> THEN "" ELSE Head(h).n \o ": " \o Head(h).v \o CRLF \o HeaderBlock(Tail(h))
RenderResp(r, ph) == StatusLine(r.version, r.code, ph) \o CRLF \o HeaderBlock(r.headers) \o CRLF \o r.body

\* Set-Cookie (RFC 6265 4.1): cookie-pair *( "; " cookie-av ).  c.attrs is the set of attributes present.
\* The lifetime of a cookie is a std::time::Duration: c.maxage is its whole seconds as a string of decimal
\* digits (a u64 - far beyond TLC's 32-bit integers, so it is never converted to a number), c.millis its
\* sub-second part 0..999.  Max-Age takes whole seconds (RFC 6265 5.2.2: 1*DIGIT); neither RFC 6265 nor the
\* documentation of SetCookie::with_max_age says what becomes of a fraction, so truncation (what the code
\* does, Duration::as_secs), rounding to the nearest second and rounding up are all accepted: a lifetime
\* with a fraction may come out as its whole seconds or one more (MaxAgeValues).
\* Attribute names are ABNF literals, hence case-insensitive (RFC 5234 2.3; RFC 6265 5.2 compares them
\* case-insensitively), and so is the SameSite value: attributes are compared after NormAv.
AttrNames == {"Expires", "Max-Age", "Domain", "Path", "SameSite", "Secure", "HttpOnly"}
AttrOrder == <<"Expires", "Max-Age", "Domain", "Path", "SameSite", "Secure", "HttpOnly">>
\* successor of a natural number written in decimal
RECURSIVE DecSucc(_)
DecSucc(s) == IF s = "" THEN "1"
              ELSE LET d == DecMap[At(s, Len(s))] IN
                   IF d < 9 THEN Take(s, Len(s) - 1) \o At(DecDigits, d + 2) ELSE DecSucc(Take(s, Len(s) - 1)) \o "0"
IsDecimal(s) == s # "" /\ \A i \in 1..Len(s) : At(s, i) \in DOMAIN DecMap
MaxAgeValues(c) == {c.maxage} \cup (IF c.millis > 0 THEN {DecSucc(c.maxage)} ELSE {})
CookieAvWith(c, a, ma) ==
  CASE a = "Expires"  -> "Expires=" \o c.expires
    [] a = "Max-Age"  -> "Max-Age=" \o ma
    [] a = "Domain"   -> "Domain=" \o c.domain
    [] a = "Path"     -> "Path=" \o c.path
    [] a = "SameSite" -> "SameSite=" \o c.samesite
    [] a = "Secure"   -> "Secure"
    [] a = "HttpOnly" -> "HttpOnly"
CookieAv(c, a) == CookieAvWith(c, a, c.maxage)
CookieAvs(c) == { CookieAv(c, a) : a \in c.attrs }
\* the acceptable attribute sets (one per acceptable Max-Age)
CookieAvSets(c) == { { CookieAvWith(c, a, ma) : a \in c.attrs } : ma \in MaxAgeValues(c) }
RECURSIVE AvString(_, _)
AvString(c, i) == IF i > Len(AttrOrder) THEN ""
                  ELSE (IF AttrOrder[i] \in c.attrs THEN "; " \o CookieAv(c, AttrOrder[i]) ELSE "") \o AvString(c, i + 1)
SetCookieValue(c) == c.name \o "=" \o c.value \o AvString(c, 1)
\* meaning of a Set-Cookie value: the pair and the *set* of attributes (their order is not significant)
RECURSIVE SplitOn(_, _)
SplitOn(s, sep) == LET i == Find(s, sep, 1) IN
                   IF i = 0 THEN <<s>> ELSE <<Take(s, i - 1)>> \o SplitOn(Drop(s, i + Len(sep) - 1), sep)
DenoteSetCookie(s) == LET parts == SplitOn(s, "; ") IN
                      [pair |-> Head(parts), avs |-> {parts[i] : i \in 2..Len(parts)}, n |-> Len(parts) - 1]
\* attribute name in lower case; the value kept as it is, except SameSite's
NormAv(av) == LET i == Find(av, "=", 1) IN
              IF i = 0 THEN Lower(av)
              ELSE IF Lower(Take(av, i - 1)) = "samesite" THEN Lower(av)
              ELSE Lower(Take(av, i - 1)) \o Drop(av, i - 1)
NormAvs(S) == { NormAv(x) : x \in S }
CookieMeans(s, c) == LET d == DenoteSetCookie(s) IN
                     /\ IsDecimal(c.maxage)
                     /\ d.pair = c.name \o "=" \o c.value /\ d.n = Cardinality(c.attrs)
                     /\ NormAvs(d.avs) \in { NormAvs(S) : S \in CookieAvSets(c) }

\* A conforming server's wire image.  style: [case: "asis"|"lower"|"upper", ows: whitespace after the colon].
\* frames: <<text1, data1, text2, data2, ..., textN>> - odd elements are protocol text, even elements are
\* body data (so the harness can substitute arbitrary byte values for the body symbols).
NameIn(n, cs) == IF cs = "lower" THEN Lower(n) ELSE IF cs = "upper" THEN Upper(n) ELSE n
RECURSIVE SrvHeaderBlock(_, _)
SrvHeaderBlock(h, st) ==
  IF h = <<>> THEN ""
  ELSE NameIn(Head(h).n, st.case) \o ":" \o st.ows \o Head(h).v \o CRLF \o SrvHeaderBlock(Tail(h), st)
SrvHead(ver, c, ph, h, st) == StatusLine(ver, c, ph) \o CRLF \o SrvHeaderBlock(h, st) \o CRLF

RECURSIVE Sum(_)
Sum(s) == IF s = <<>> THEN 0 ELSE Head(s) + Sum(Tail(s))
RECURSIVE Zeros(_)
Zeros(k) == IF k = 0 THEN "" ELSE "0" \o Zeros(k - 1)
\* chunked coding (RFC 7230 4.1, no extensions, no trailers) of `body` cut into pieces of the sizes `comp`
RECURSIVE ChunkFrames(_, _, _, _, _)
ChunkFrames(body, comp, upper, pad, first) ==
  IF comp = <<>> THEN << (IF first THEN "" ELSE CRLF) \o Zeros(pad) \o "0" \o CRLF \o CRLF >>
  ELSE << (IF first THEN "" ELSE CRLF) \o Zeros(pad) \o Hex(Head(comp), upper) \o CRLF, Take(body, Head(comp)) >>
       \o ChunkFrames(Drop(body, Head(comp)), Tail(comp), upper, pad, FALSE)

\* all ways of writing n as an ordered sum of positive integers
RECURSIVE Compositions(_)
Compositions(n) == IF n = 0 THEN {<<>>} ELSE UNION { { <<k>> \o c : c \in Compositions(n - k) } : k \in 1..n }

-----------------------------------------------------------------------------
(* Denotation of a response message (RFC 7230: 3.1.2 status-line, 3.2 header fields, 3.3.3 body     *)
(* length rules 1, 3, 5; 4.1 chunked).  Close-delimited bodies (rule 7) are outside C07: a message  *)
(* without framing header denotes an empty body and leaves the rest of the stream untouched.        *)
IsDigit(c) == c \in DOMAIN DecMap
Bad == [ok |-> FALSE, version |-> "", code |-> 0, phrase |-> "", headers |-> <<>>, body |-> "", rest |-> ""]

\* header-field = field-name ":" OWS field-value OWS ; returns <<>> for a malformed line
DenoteHeaderLine(line) ==
  LET c == Find(line, ":", 1) IN
  IF c <= 1 \/ Find(Take(line, c - 1), SP, 1) # 0 THEN <<>>
  ELSE << Hdr(Take(line, c - 1), TrimOWS(Drop(line, c))) >>

RECURSIVE DenoteHeaders(_, _)
\* returns [ok, headers, rest] ; `s` starts at a header line or at the blank line
DenoteHeaders(s, acc) ==
  IF StartsWith(s, CRLF) THEN [ok |-> TRUE, headers |-> acc, rest |-> Drop(s, 2)]
  ELSE LET e == Find(s, CRLF, 1) IN
       IF e = 0 THEN [ok |-> FALSE, headers |-> <<>>, rest |-> ""]
       ELSE LET h == DenoteHeaderLine(Take(s, e - 1)) IN
            IF h = <<>> THEN [ok |-> FALSE, headers |-> <<>>, rest |-> ""]
            ELSE DenoteHeaders(Drop(s, e + 1), acc \o h)

\* status-line = "HTTP/" DIGIT "." DIGIT SP 3DIGIT SP reason-phrase CRLF, then the header block
DenoteHead(w) ==
  LET e == Find(w, CRLF, 1) IN
  IF e = 0 \/ e < 14 THEN Bad
  ELSE LET sl == Take(w, e - 1) IN
       IF ~(/\ Take(sl, 5) = "HTTP/" /\ IsDigit(At(sl, 6)) /\ At(sl, 7) = "." /\ IsDigit(At(sl, 8))
            /\ At(sl, 9) = SP /\ IsDigit(At(sl, 10)) /\ IsDigit(At(sl, 11)) /\ IsDigit(At(sl, 12))
            /\ At(sl, 13) = SP)
       THEN Bad
       ELSE LET hs == DenoteHeaders(Drop(w, e + 1), <<>>) IN
            IF ~hs.ok THEN Bad
            ELSE [ok |-> TRUE, version |-> Take(sl, 8), code |-> DecVal(SubSeq(sl, 10, 12)),
                  phrase |-> Drop(sl, 13), headers |-> hs.headers, body |-> "", rest |-> hs.rest]

RECURSIVE DenoteChunked(_, _)
\* returns [ok, body, rest]
DenoteChunked(s, acc) ==
  LET e == Find(s, CRLF, 1) IN
  IF e <= 1 THEN [ok |-> FALSE, body |-> "", rest |-> ""]
  ELSE LET n == HexVal(Take(s, e - 1)) IN
       IF n = NaN THEN [ok |-> FALSE, body |-> "", rest |-> ""]
       ELSE IF n = 0
            THEN IF SubSeq(s, e + 2, e + 3) = CRLF THEN [ok |-> TRUE, body |-> acc, rest |-> Drop(s, e + 3)]
                 ELSE [ok |-> FALSE, body |-> "", rest |-> ""]
            ELSE IF Len(s) >= e + 1 + n + 2 /\ SubSeq(s, e + 2 + n, e + 3 + n) = CRLF
                 THEN DenoteChunked(Drop(s, e + 3 + n), acc \o SubSeq(s, e + 2, e + 1 + n))
                 ELSE [ok |-> FALSE, body |-> "", rest |-> ""]

\* The response a message denotes.  A chunked message is "reported as a plain body with its length":
\* Transfer-Encoding is replaced by Content-Length.
DenoteResp(w) ==
  LET h == DenoteHead(w) IN
  IF ~h.ok THEN Bad
  ELSE IF Bodiless(h.code) THEN h
  ELSE IF HasHdr(h.headers, "transfer-encoding") /\ Lower(FirstVal(h.headers, "transfer-encoding")) = "chunked"
  THEN LET b == DenoteChunked(h.rest, "") IN
       IF ~b.ok THEN Bad
       ELSE [h EXCEPT !.headers = Without(h.headers, "transfer-encoding") \o <<Hdr("Content-Length", Dec(Len(b.body)))>>,
                      !.body = b.body, !.rest = b.rest]
  ELSE IF HasHdr(h.headers, "content-length")
  THEN LET n == DecVal(FirstVal(h.headers, "content-length")) IN
       IF n = NaN \/ n > Len(h.rest) THEN Bad
       ELSE [h EXCEPT !.body = Take(h.rest, n), !.rest = Drop(h.rest, n)]
  ELSE h

\* w is a serialisation of r in the property's sense: status line with a registered phrase for the
\* code, one line per header (same-name order kept), blank line, body - and nothing else.
IsSerialisationOf(w, r) ==
  LET h == DenoteHead(w) IN
  /\ h.ok /\ h.version = r.version /\ h.code = r.code /\ h.phrase \in Phrases(r.code)
  /\ SameHeaders(h.headers, r.headers) /\ h.rest = r.body

\* constant-level lemma (checked by TLC over the bounded grammar in MC_HttpResp): parsing a rendered
\* response that carries the right Content-Length, or no body, gives the response back
LemmaRoundTrip(r) ==
  (FramedOrEmpty(r) /\ (Bodiless(r.code) => r.body = "")) =>
     \A ph \in Phrases(r.code) :
        LET w == RenderResp(r, ph)
            d == DenoteResp(w)
        IN IsSerialisationOf(w, r) /\ d.ok /\ d.rest = "" /\ RespEq(d, r)

=============================================================================
