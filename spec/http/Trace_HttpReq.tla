---------------------------- MODULE Trace_HttpReq ----------------------------
(* Code -> spec direction for C02.  The harness (httpreq random) generates requests that TLC should not
   enumerate - 0..40 fields, long values, bodies up to 64 KiB - parses them with the real parser under
   several read plans, serialises the result and parses it again, and logs one record per request:

     head   the request up to and including the empty line, as symbols
     body   [length, hash]            (payloads are never logged byte by byte)
     peer   [ip |-> symbols, port]
     agree  all read plans gave the same observation; allFailed: every read plan ended in an error
     got    what Request::from_stream returned, projected on the observables of C02
            (m p q v nh h=[<<name, <<values in order>>>> sorted by name] hasBody body origin proxies port cookies)
     rt     the same projection of parse(serialise(parsed request))

   TLC computes the denotation of `head` with the operators of HttpReqSyntax (the ones the forward
   direction uses) and accepts a record iff the head is well formed, its Content-Length is the
   logged body length, `got` is that denotation with the logged body, and rt equals got in the sense
   of ReqEq.  Indices of inexplicable records are collected and printed at the last state. *)
EXTENDS HttpReqSyntax, Json, IOUtils

\* the log is read once (TLC re-evaluates a definition that reads a file at every use): register 1 holds it
ASSUME TLCSet(1, ndJsonDeserialize(IOEnv.TRACE))
Rec == TLCGet(1)

\* field list <<name, value>>* from the grouped form the harness logs
RECURSIVE Ungroup(_)
Ungroup(g) == IF g = <<>> THEN <<>>
              ELSE [ i \in 1..Len(g[1][2]) |-> << g[1][1], g[1][2][i] >> ] \o Ungroup(Tail(g))

\* an observation as an abstract request (the body stays [len, hash]: equality is all ReqEq needs)
AbsOf(o) == [ok |-> o.ok, method |-> o.m, path |-> o.p, query |-> o.q, version |-> o.v, headers |-> Ungroup(o.h),
             hasBody |-> o.hasBody, body |-> o.body,
             addr |-> [origin |-> o.origin, proxies |-> o.proxies, port |-> o.port], cookies |-> o.cookies, used |-> 0]

\* the denotation of the logged head with the logged body
Expected(r) ==
  LET a == ParseHead(r.head, r.peer)
  IN [ok |-> a.ok /\ a.next = Len(r.head) + 1 /\ a.cl = r.body[1] /\ (a.hasBody \/ r.body[1] = 0),
      method |-> a.method, path |-> a.path, query |-> a.query, version |-> a.version, headers |-> a.headers,
      hasBody |-> a.hasBody, body |-> r.body, addr |-> a.addr, cookies |-> a.cookies, used |-> 0]

(* Two-level judgement.  "ok": the record is exactly what the specification says.  "drift": it differs only
   in an observable that is lenient for this request (HttpReqSyntax, Lenient) - or the parser rejected, under
   every read plan alike, a request whose target or forwarded-for list is outside the property's grammar - and
   everything else, including independence of the read plan and the round trip, holds.  "bad": anything else. *)
Judge(r) ==
  LET e == Expected(r)
      g == AbsOf(r.got)
      L == Lenient(e)
  IN IF ~e.ok THEN "bad"
     ELSE IF /\ r.agree /\ r.got.ok /\ r.rt.ok
             /\ r.got.nh = Len(e.headers)                      \* number of fields, and
             /\ ReqEq(g, e)                                     \* per name the values in order, all other observables
             /\ Len(g.headers) = r.got.nh
             /\ ReqEq(AbsOf(r.rt), g)                           \* the round trip
             /\ r.rt.nh = r.got.nh
          THEN "ok"
     ELSE IF r.allFailed /\ (InSeq("target", L) \/ InSeq("addr", L)) THEN "drift"
     ELSE IF /\ L # <<>> /\ r.agree /\ r.got.ok /\ r.rt.ok
             /\ r.got.nh = Len(e.headers) /\ Len(g.headers) = r.got.nh /\ r.rt.nh = r.got.nh
             /\ ReqEqL(g, e, L) /\ ReqEqL(AbsOf(r.rt), g, L)
          THEN "drift"
     ELSE "bad"

VARIABLES l, bad, dr
Init == l = 1 /\ bad = <<>> /\ dr = <<>>
Next == /\ l <= Len(Rec)
        /\ l' = l + 1
        /\ LET j == IF Len(bad) >= 20 THEN "skip" ELSE Judge(Rec[l])
           IN /\ bad' = IF j = "bad" THEN Append(bad, l) ELSE bad
              /\ dr'  = IF j = "drift" /\ Len(dr) < 20 THEN Append(dr, l) ELSE dr
Spec == Init /\ [][Next]_<<l, bad, dr>>

\* at the last state both lists are printed; only inexplicable records fail the run
AllExplained == (l = Len(Rec) + 1) =>
                  /\ (bad = <<>> /\ dr = <<>>) \/ PrintT(ToJson([rejected |-> bad, drift |-> dr]))
                  /\ bad = <<>>
=============================================================================
