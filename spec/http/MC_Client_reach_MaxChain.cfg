CONSTANTS
  Dev = {}
  MaxHops = 5
  RedirCodes = {301, 302, 307}
  Kinds = {"rel", "abs"}
  Finals <- MCFinals
  FollowModes = {TRUE, FALSE}
INIT Init
NEXT Next
INVARIANTS NotMaxChain
CHECK_DEADLOCK FALSE
