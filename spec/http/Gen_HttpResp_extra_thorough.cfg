CONSTANTS
  Dev = {}
  Segmented = FALSE
  Families = {}
  CodeMode = "all"
  HdrK = 4
  MaxHdrs = 1
  MaxBody = 3
  BodyMode = "len"
  StyleMode = "one"
  PhraseMode = "reg"
  ManyMode = "all"
  MaxBig = 17
INIT ExtraInit
NEXT GenNext
INVARIANT ExtraInv
CHECK_DEADLOCK FALSE
