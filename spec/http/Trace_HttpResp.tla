--------------------------- MODULE Trace_HttpResp ---------------------------
(* Code -> spec direction for the message half of C07.  The harness (httpresp random) runs large random
   cases on the real code and logs one JSON record per case, payloads reduced to [length, fnv64]:

   k = "ser"    a Response built through the public API (0..40 headers incl. repeated names and
                Set-Cookie built by SetCookie, bodies up to 64 KiB), the classes of the bytes
                Vec<u8>::from produced (status line, header lines, blank line, body, what follows),
                and what Response::from_stream made of those bytes
   k = "parse"  a conforming server's message as authored by the harness (phrase, header spelling,
                Content-Length or chunked with the chunk-size lines as written) and what
                Response::from_stream returned for it under a random read segmentation
   Every fourth case is small and pure ASCII and carries the bytes themselves (`wire`), which TLC
   parses with DenoteResp / IsSerialisationOf.

   Each record gets the set of checks it fails; a record that fails nothing is explained by the
   spec, a "ser" record whose only failure is the pair of bytes that Dev = {CrlfAfterBody} predicts
   is attributed to that deviation, everything else is rejected.  The verdicts are printed at the
   last state for the driver. *)
EXTENDS HttpRespSyntax, Json, IOUtils

Rec == ndJsonDeserialize(IOEnv.TRACE)

ToSet(s) == { s[i] : i \in 1..Len(s) }
AsHdrs(js) == [i \in 1..Len(js) |-> Hdr(js[i].n, js[i].v)]

\* ---- k = "ser" ---------------------------------------------------------------------------------
SerFails(x) ==
  LET r     == x.r
      rh    == AsHdrs(r.headers)
      g     == x.got
      lines == [i \in 1..Len(g.hlines) |-> DenoteHeaderLine(g.hlines[i])]
      okl   == \A i \in 1..Len(lines) : lines[i] # <<>>
      gh    == [i \in 1..Len(lines) |-> lines[i][1]]
      p     == x.parsed
      framed == r.withcl \/ r.body[1] = 0
  IN  (IF g.status_line \in { StatusLine(r.version, r.code, ph) : ph \in Phrases(r.code) } THEN {} ELSE {"status line"})
 \cup (IF okl /\ SameHeaders(gh, rh) THEN {} ELSE {"header lines"})
 \cup (IF g.blank THEN {} ELSE {"blank line"})
 \cup (IF g.body = r.body THEN {} ELSE {"body"})
 \cup (IF g.tail = "" THEN {} ELSE {"bytes after the body"})
 \cup (IF \A i \in 1..Len(x.cookies) :
            LET c == x.cookies[i] IN CookieMeans(c.got, [c EXCEPT !.attrs = ToSet(c.attrs)])
       THEN {} ELSE {"Set-Cookie value"})
 \cup (IF framed => (/\ p.res = "ok" /\ p.version = r.version /\ p.code = r.code /\ p.body = r.body /\ ~p.over
                     /\ SameHeaders(AsHdrs(p.headers), rh))
       THEN {} ELSE {"round trip"})
 \cup (IF x.haswire =>
            LET rr == Resp(r.version, r.code, rh, x.rbody)
                w  == Take(x.wire, Len(x.wire) - Len(g.tail))
                d  == DenoteResp(x.wire)
            IN /\ IsSerialisationOf(w, rr)
               /\ (framed /\ (Bodiless(r.code) => x.rbody = "")) => (d.ok /\ d.rest = g.tail /\ RespEq(d, rr))
       THEN {} ELSE {"bytes do not denote the response"})
\* what Dev = {CrlfAfterBody} predicts and nothing else: CRLF after a non-empty body
SerIsCrlfAfterBody(x) == SerFails(x) = {"bytes after the body"} /\ x.got.tail = CRLF /\ x.r.body[1] > 0

\* ---- k = "parse" -------------------------------------------------------------------------------
ParseFails(x) ==
  LET s  == x.sent
      sh == AsHdrs(s.headers)
      g  == x.got
      eh == IF s.framing = "chunked"
            THEN Without(sh, "transfer-encoding") \o <<Hdr("Content-Length", Dec(s.body[1]))>> ELSE sh
      n  == Len(s.sizes)
  IN  \* the harness's message is a conforming one (these would be defects of the harness)
      (IF s.phrase \in Phrases(s.code) THEN {} ELSE {"harness: unregistered phrase"})
 \cup (IF s.framing = "chunked" =>
            /\ n = Len(s.sizelines) /\ n >= 1 /\ s.sizes[n] = 0
            /\ \A i \in 1..n : HexVal(s.sizelines[i]) = s.sizes[i] /\ (i < n => s.sizes[i] > 0)
            /\ Sum(s.sizes) = s.body[1]
       THEN {} ELSE {"harness: chunk sizes"})
 \cup (IF Bodiless(s.code) => (s.framing = "none" /\ s.body[1] = 0) THEN {} ELSE {"harness: body on a bodiless status"})
      \* the parser returned what was sent
 \cup (IF g.res = "ok" THEN {} ELSE {"result"})
 \cup (IF g.version = s.version /\ g.code = s.code THEN {} ELSE {"status line"})
 \cup (IF SameHeaders(AsHdrs(g.headers), eh) THEN {} ELSE {"headers"})
 \cup (IF g.body = s.body THEN {} ELSE {"body"})
 \cup (IF ~g.over THEN {} ELSE {"read past the end of a framed message"})   \* (g.all - whether the last CRLF of the
                                                                                 \* message was consumed too - is not an observable)
 \cup (IF x.haswire =>
            LET d == DenoteResp(x.wire) IN
            /\ d.ok /\ d.rest = "" /\ d.version = g.version /\ d.code = g.code /\ d.body = x.gbody
            /\ SameHeaders(d.headers, AsHdrs(g.headers))
       THEN {} ELSE {"result is not the denotation of the bytes"})

Fails(x) == IF x.k = "ser" THEN SerFails(x) ELSE ParseFails(x)
Verdict(x) == IF Fails(x) = {} THEN "ok"
              ELSE IF x.k = "ser" /\ SerIsCrlfAfterBody(x) THEN "CrlfAfterBody" ELSE "bad"

VARIABLES l, bad, devs, nwire
Init == l = 1 /\ bad = <<>> /\ devs = <<>> /\ nwire = 0
Next == /\ l <= Len(Rec)
        /\ l' = l + 1
        /\ nwire' = nwire + (IF Rec[l].haswire THEN 1 ELSE 0)
        /\ LET v == Verdict(Rec[l]) IN
           /\ bad'  = IF v = "bad" /\ Len(bad) < 20 THEN Append(bad, [line |-> l, k |-> Rec[l].k, fails |-> Fails(Rec[l])]) ELSE bad
           /\ devs' = IF v = "CrlfAfterBody" THEN Append(devs, l) ELSE devs
Spec == Init /\ [][Next]_<<l, bad, devs, nwire>>

\* at the last state: print the verdicts; fail when a record was rejected
AllExplained == (l = Len(Rec) + 1) =>
  /\ PrintT(ToJson([n |-> Len(Rec), rejected |-> bad, CrlfAfterBody |-> Len(devs),
                    first_CrlfAfterBody |-> IF devs = <<>> THEN 0 ELSE devs[1], parsed_bytewise |-> nwire,
                    unconsumed_tail |-> Cardinality({ i \in 1..Len(Rec) : Rec[i].k = "parse" /\ ~Rec[i].got.all })]))
  /\ bad = <<>>
=============================================================================
