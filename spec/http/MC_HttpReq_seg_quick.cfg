CONSTANTS
  StartLines <- SL_One
  Cat <- Catalogue
  HdrIdx = {14,30}
  MaxH = 2
  Bodies <- Bodies3
  Peers <- PeersOne
  ClNames <- ClOne
  ClPos = {"last"}
  Mode = "machine"
  Cap = 8192
  Dev = {}
INIT Init
NEXT Next
INVARIANTS Inv_WellFormed Lemma_DenoteRender Lemma_Canonical Inv_Faithful Inv_NoError Inv_Reads Inv_RoundTrip
CHECK_DEADLOCK FALSE
