CONSTANTS
  Dev = {"FragmentKept"}
  MaxRest = 0
  Schemes = {"http"}
INIT LemInit
NEXT LemNext
INVARIANT ComposeParse
CHECK_DEADLOCK FALSE
