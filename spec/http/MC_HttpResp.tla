---------------------------- MODULE MC_HttpResp ----------------------------
(* Bounded grammars for HttpResp (property C07): the responses and server wire images TLC
   enumerates, as initial states of the serialise / transport / parse state machine, and the same
   spaces printed as vectors for the harness (Gen_* configs).

   Families (constant Families selects which are enumerated):
     api       Response built through the public API: code x version x header list x body x
               {with the Content-Length the server adds, without}
     cl        conforming server, Content-Length framing (or no framing header and no body):
               code x version x phrase x header list x body x spelling style x position of Content-Length
     chunk     conforming server, chunked coding: code x header list x body x EVERY composition of
               the body into chunks x hex spelling x position of Transfer-Encoding
     bigchunk  chunk sizes 10..MaxBig (hex digits a-f / A-F, two-digit sizes): one or two chunks
     many      (generation only, ManyMode) api responses with 30..48, 64, 100 header fields of which k = 2..10
               are Set-Cookie and k share the custom name x-trace (plus a repeated Link), placed among
               differently named fields in three patterns - the sizes at which a sort that is not stable
               starts to permute same-named fields *)
EXTENDS HttpResp, Json

CONSTANTS Families, CodeMode, HdrK, MaxHdrs, MaxBody, BodyMode, StyleMode, PhraseMode, MaxBig,
          ManyMode     \* "none" | "quick" | "all": the many-headers family (generation only)


HdrCat == <<
  Hdr("Content-Type", "text/html; charset=utf-8"),
  Hdr("Set-Cookie", "a=1; Path=/"),
  Hdr("Set-Cookie", "b=2"),
  Hdr("x-dup", "v: 1"),
  Hdr("X-Dup", "v2"),
  Hdr("Location", "http://h/p?q=1"),
  Hdr("Date", "Thu, 01 Jan 1970 00:00:00 GMT") >>
HdrLists == UNION { { [i \in 1..k |-> HdrCat[f[i]]] : f \in [1..k -> 1..HdrK] } : k \in 0..MaxHdrs }

CodeSet == IF CodeMode = "all" THEN Codes
           ELSE IF CodeMode = "one" THEN {200}
           ELSE {101, 200, 204, 307, 404, 413}
Versions == {"HTTP/1.1", "HTTP/1.0"}

\* body symbols: "a" stands for an arbitrary byte (the harness substitutes NUL, 0xFF, CR, '0' ...), LF is itself
BodySyms == {"a", LF}
PatternBase == "a\naa\n\naaa\na\n\n\naaaa\naa\n\na\naaaaa\n"          \* 31 symbols
Pattern == PatternBase \o PatternBase \o PatternBase \o PatternBase
ASSUME MaxBig <= Len(Pattern) /\ MaxBody <= Len(Pattern)
Bodies == IF BodyMode = "all"
          THEN UNION { { Concat(f) : f \in [1..k -> BodySyms] } : k \in 0..MaxBody }
          ELSE { Take(Pattern, k) : k \in 0..MaxBody }

\* spelling of a server's message: case of header names, whitespace after the colon, hex case and zero
\* padding of chunk sizes, framing header before or after the other headers
Spellings == IF StyleMode = "all"
             THEN { [case |-> "asis",  ows |-> " ",    upper |-> FALSE, pad |-> 0, first |-> FALSE],
                    [case |-> "lower", ows |-> "",     upper |-> TRUE,  pad |-> 0, first |-> TRUE],
                    [case |-> "upper", ows |-> " \t ", upper |-> FALSE, pad |-> 2, first |-> FALSE] }
             ELSE { [case |-> "asis",  ows |-> " ",    upper |-> FALSE, pad |-> 0, first |-> FALSE] }
\* reason phrases a server may send: the registered one(s); with PhraseMode = "free" also an empty and an
\* unregistered phrase (RFC 7230 3.1.2: the client SHOULD ignore the reason-phrase content)
SrvPhrases(c) == Phrases(c) \cup (IF PhraseMode = "free" THEN {"", "Custom Phrase"} ELSE {})

CL(b) == Hdr("Content-Length", Dec(Len(b)))
TE == Hdr("Transfer-Encoding", "chunked")
Place(h, x, first) == IF first THEN <<x>> \o h ELSE h \o <<x>>

NoAux == [k |-> "none", head |-> "", frames |-> <<>>]

InitFamApi ==
  /\ "api" \in Families
  /\ \E c \in CodeSet, ver \in Versions, hl \in HdrLists, b \in Bodies, cl \in BOOLEAN :
       /\ (Bodiless(c) => b = "")
       /\ InitApi(Resp(ver, c, IF cl THEN hl \o <<CL(b)>> ELSE hl, b))
       /\ meta = [k |-> "s", head |-> "", frames |-> <<>>]

InitFamCl ==
  /\ "cl" \in Families
  /\ \E c \in CodeSet, ver \in Versions, hl \in HdrLists, b \in Bodies, sp \in Spellings, framed \in BOOLEAN :
       /\ (Bodiless(c) => (b = "" /\ ~framed))
       /\ (b # "" => framed)
       /\ \E ph \in SrvPhrases(c) :
            LET h    == IF framed THEN Place(hl, CL(b), sp.first) ELSE hl
                head == SrvHead(ver, c, ph, h, sp)
            IN /\ InitSrv(Resp(ver, c, h, b), head \o b)
               /\ meta = [k |-> "p", head |-> head, frames |-> <<"", b>>]

InitFamChunk ==
  /\ "chunk" \in Families
  /\ \E c \in {x \in CodeSet : ~Bodiless(x)}, hl \in HdrLists, b \in Bodies, sp \in Spellings :
       \E comp \in Compositions(Len(b)) :
         LET head   == SrvHead("HTTP/1.1", c, Row(c).p, Place(hl, TE, sp.first), sp)
             frames == ChunkFrames(b, comp, sp.upper, sp.pad, TRUE)
         IN /\ InitSrv(Resp("HTTP/1.1", c, hl \o <<CL(b)>>, b), head \o Concat(frames))
            /\ meta = [k |-> "p", head |-> head, frames |-> frames]

BigComps(n) == {<<n>>} \cup { <<k, n - k>> : k \in 1..(n - 1) }
InitFamBig ==
  /\ "bigchunk" \in Families
  /\ \E n \in 10..MaxBig, upper \in BOOLEAN :
       \E comp \in BigComps(n) :
         LET b      == Take(Pattern, n)
             head   == SrvHead("HTTP/1.1", 200, "OK", <<TE>>, [case |-> "asis", ows |-> " "])
             frames == ChunkFrames(b, comp, upper, 0, TRUE)
         IN /\ InitSrv(Resp("HTTP/1.1", 200, <<CL(b)>>, b), head \o Concat(frames))
            /\ meta = [k |-> "p", head |-> head, frames |-> frames]

\* many header fields.  Field i of n: A = Set-Cookie, B = x-trace at the positions the pattern says,
\* every fifth other field a (repeated) Link, the rest pairwise different custom names
ManyCounts == IF ManyMode = "all" THEN (30..48) \cup {64, 100}
              ELSE IF ManyMode = "quick" THEN {30, 32, 33, 34, 36, 40, 44, 48, 64} ELSE {}
ManyShares == IF ManyMode = "all" THEN 2..10 ELSE {2, 5, 10}
ManyKind(n, k, pat, i) ==
  LET step == n \div k
      m    == (n - 2 * k) \div 2
  IN CASE pat = 1 -> IF i % step = 0 /\ i \div step <= k THEN "A" ELSE IF i % step = 1 /\ i \div step < k THEN "B" ELSE "o"
       [] pat = 2 -> IF i > n - k THEN "A" ELSE IF i <= k THEN "B" ELSE "o"
       [] pat = 3 -> IF i > m /\ i <= m + 2 * k THEN (IF (i - m) % 2 = 1 THEN "A" ELSE "B") ELSE "o"
ManyHeaders(n, k, pat) ==
  [i \in 1..n |->
     LET kind == ManyKind(n, k, pat, i) IN
     IF kind = "A" THEN Hdr("Set-Cookie", "c" \o Dec(i) \o "=v" \o Dec(i))
     ELSE IF kind = "B" THEN Hdr("x-trace", "hop-" \o Dec(i))
     ELSE IF i % 5 = 0 THEN Hdr("Link", "</r" \o Dec(i) \o ">; rel=preload")
     ELSE Hdr("x-u" \o Dec(i), "v" \o Dec(i))]
InitFamMany ==
  /\ ManyMode # "none"
  /\ \E n \in ManyCounts, k \in ManyShares, pat \in 1..3 :
       /\ InitApi(Resp("HTTP/1.1", 200, ManyHeaders(n, k, pat) \o <<CL("a\n")>>, "a\n"))
       /\ meta = [k |-> "s", head |-> "", frames |-> <<>>]

MCInit == InitFamApi \/ InitFamCl \/ InitFamChunk \/ InitFamBig \/ InitFamMany
MCSpec == MCInit /\ [][Next]_vars /\ WF_vars(Next)

\* the constant-level lemma, evaluated on every api response of the bound
LemmaInv == (mode = "api" /\ spc = "status") => LemmaRoundTrip(r0)
\* the denotation of every server wire image of the bound is the response the server meant
SrvDenotes == (mode = "srv" /\ pos = 0) =>
                 LET d == DenoteResp(wire) IN d.ok /\ d.rest = "" /\ RespEq(d, r0)
\* conforming messages are never refused
NeverErr == res \in {"run", "ok"}

-----------------------------------------------------------------------------
(* Generation: one JSON line per case (initial state); NEXT is GenNext = no step                      *)
GenNext == FALSE /\ UNCHANGED vars
SerTail(r, D) == IF r.body # "" /\ "CrlfAfterBody" \in D THEN CRLF ELSE ""
GenVector ==
  IF mode = "api"
  THEN /\ LemmaRoundTrip(r0)
       /\ PrintT(ToJson([k |-> "s", r |-> r0,
                         lines |-> { StatusLine(r0.version, r0.code, ph) : ph \in Phrases(r0.code) },
                         rt |-> (FramedOrEmpty(r0) /\ (Bodiless(r0.code) => r0.body = "")),
                         tail |-> SerTail(r0, {}), tail_CrlfAfterBody |-> SerTail(r0, {"CrlfAfterBody"})]))
  ELSE LET d == DenoteResp(wire) IN
       /\ d.ok /\ d.rest = "" /\ RespEq(d, r0)
       /\ PrintT(ToJson([k |-> "p", head |-> meta.head, frames |-> meta.frames,
                         exp |-> [version |-> d.version, code |-> d.code, headers |-> d.headers, body |-> d.body]]))
GenInv == GenVector

\* Set-Cookie: every subset of the 7 attributes ...
CookieBase == [name |-> "sid", value |-> "abc123", attrs |-> AttrNames, expires |-> "Wed, 21 Oct 2015 07:28:00 GMT",
               maxage |-> "3600", millis |-> 0, domain |-> "example.com", path |-> "/", samesite |-> "Lax"]
CookieSubsets == { [CookieBase EXCEPT !.attrs = A, !.samesite = ss, !.maxage = ma] :
                   A \in SUBSET AttrNames, ss \in {"Strict", "Lax", "None"}, ma \in {"0", "3600"} }
\* ... and boundary VALUES per attribute.  Max-Age: whole seconds around 2^24 (f32 mantissa), 2^31, 2^32, 2^53
\* (f64 mantissa) and up to u64::MAX, each with sub-second parts on both sides of one half.
MaxAges == {"0", "1", "59", "3600", "86400", "31536000", "16777215", "16777216", "16777217", "33554433", "2147483647",
            "2147483648", "4294967295", "4294967297", "9007199254740993", "18446744073709551", "18446744073709551615"}
Millis == {0, 1, 499, 500, 999}
RECURSIVE Rep(_, _)
Rep(s, k) == IF k = 0 THEN "" ELSE IF k % 2 = 1 THEN s \o Rep(s, k - 1) ELSE LET h == Rep(s, k \div 2) IN h \o h
\* "~" stands for a non-ASCII character (the harness substitutes one in the input and in the expectation)
CookieValues ==
       { [CookieBase EXCEPT !.attrs = A, !.maxage = ma, !.millis = ms] : A \in {AttrNames, {"Max-Age"}}, ma \in MaxAges, ms \in Millis }
  \cup { [CookieBase EXCEPT !.expires = e] : e \in {"Thu, 01 Jan 1970 00:00:00 GMT", "Fri, 31 Dec 9999 23:59:59 GMT", "Sun, 06 Nov 1994 08:49:37 GMT"} }
  \cup { [CookieBase EXCEPT !.domain = d, !.path = pa] :
          d \in {"example.com", ".sub.example.com", "xn--bcher-kva.example", "b~cher.example", "a=b.example"},
          pa \in {"/", "/a b/c", "/q=1&r=2", "/caf~", "/" \o Rep("p", 300)} }
  \cup { [CookieBase EXCEPT !.name = n, !.value = v] :
          n \in {"sid", "n", Rep("N", 4096)}, v \in {"", "a=b", "k=v=w==", "Zm9v=", Rep("v", 4096)} }
Cookies == CookieSubsets \cup CookieValues
CookieInit ==
  /\ \E c \in Cookies : meta = [k |-> "c", head |-> "", frames |-> <<>>, c |-> c]
  /\ InitApi(Resp("HTTP/1.1", 200, <<>>, ""))
\* the model of the code (Cookie_HeaderValue) yields a value that means the cookie, and that value survives a
\* response round trip as one header line
CookieInv ==
  LET c == meta.c
      v == Cookie_HeaderValue(c)
      r == Resp("HTTP/1.1", 200, <<Hdr("Set-Cookie", v), Hdr("Set-Cookie", "other=1")>>, "")
  IN /\ CookieMeans(v, c)
     /\ CookieMeans(SetCookieValue(c), c)
     /\ LemmaRoundTrip(r)
     /\ PrintT(ToJson([k |-> "c", name |-> c.name, value |-> c.value, attrs |-> c.attrs, expires |-> c.expires,
                       maxage |-> c.maxage, millis |-> c.millis, domain |-> c.domain, path |-> c.path, samesite |-> c.samesite,
                       exp |-> SetCookieValue(c), pair |-> c.name \o "=" \o c.value, avsets |-> CookieAvSets(c)]))

\* cookies and the many-headers family in one generation run
ExtraInit == CookieInit \/ InitFamMany
ExtraInv == IF meta.k = "c" THEN CookieInv ELSE GenVector

\* the status table, for the harness to compare with every variant of StatusCode
ASSUME PrintT(ToJson([k |-> "codes", rows |-> StatusRows]))
=============================================================================
