CONSTANTS
  Dev = {}
  MaxRest = 0
  Schemes = {"http"}
INIT LemInit
NEXT LemNext
INVARIANT LemInv
CHECK_DEADLOCK FALSE
