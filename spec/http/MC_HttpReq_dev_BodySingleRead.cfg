CONSTANTS
  StartLines <- SL_One
  Cat <- Catalogue
  HdrIdx = {}
  MaxH = 0
  Bodies <- BodiesF
  Peers <- PeersOne
  ClNames <- ClOne
  ClPos = {"last"}
  Mode = "machine"
  Cap = 8192
  Dev = {"BodySingleRead"}
INIT Init
NEXT Next
INVARIANTS Inv_Faithful Inv_NoError Inv_RoundTrip
CHECK_DEADLOCK FALSE
