CONSTANTS
  Dev = {}
  Segmented = FALSE
  Families = {"chunk"}
  CodeMode = "one"
  HdrK = 2
  MaxHdrs = 1
  MaxBody = 6
  BodyMode = "all"
  StyleMode = "all"
  PhraseMode = "reg"
  ManyMode = "none"
  MaxBig = 9
INIT MCInit
NEXT GenNext
INVARIANT GenInv
CHECK_DEADLOCK FALSE
