----------------------------- MODULE MC_Client -----------------------------
EXTENDS Client, Json
\* final responses the scripted server ends a chain with: a plain 200 under both framings, an error
\* status, a 304 (3xx without Location) and a 303 that carries a Location (must not be followed)
MCFinals == { [code |-> 200, framing |-> "cl",      loc |-> FALSE],
              [code |-> 200, framing |-> "chunked", loc |-> FALSE],
              [code |-> 404, framing |-> "cl",      loc |-> FALSE],
              [code |-> 304, framing |-> "none",    loc |-> FALSE],
              [code |-> 303, framing |-> "cl",      loc |-> TRUE] }
MCPathModes == {"distinct", "pingpong", "self"}
MCFinalsSmall == { [code |-> 200, framing |-> "chunked", loc |-> FALSE],
                   [code |-> 303, framing |-> "cl",      loc |-> TRUE] }

\* generation: one line per complete behaviour = the chain the server played and what send() must return
Wire(r) == [host |-> HostName(r.at.host), path |-> PathOf(r.at.path), code |-> r.code,
            location |-> LocString(r.loc), framing |-> r.framing, id |-> r.id]
GenInv == (cpc = "done") =>
            PrintT(ToJson([k |-> "client", follow |-> follow,
                           script |-> [i \in 1..Len(sent) |-> Wire(sent[i])],
                           exp |-> Wire(got)]))
=============================================================================
