CONSTANTS
  StartLines <- SL_One
  Cat <- Catalogue
  HdrIdx = {}
  MaxH = 0
  Bodies <- Bodies1
  Peers <- PeersOne
  ClNames <- ClOne
  ClPos = {"last"}
  Mode = "machine"
  Cap = 8192
  Dev = {"ZeroHdrExtraCrlf"}
INIT Init
NEXT Next
INVARIANTS Inv_Faithful Inv_NoError Inv_RoundTrip Inv_SerialExact
CHECK_DEADLOCK FALSE
