CONSTANTS
  STAR = "*"
  Lits = {"a", "b"}
  TextSyms = {"a", "b"}
  MaxP = 4
  MaxT = 4
  MaxL = 2
  Dev = {"NoSavedTextPos"}
INIT Init
NEXT Next
INVARIANTS AlgoCorrect
CHECK_DEADLOCK FALSE
