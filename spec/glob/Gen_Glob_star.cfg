CONSTANTS
  STAR = "*"
  Lits = {"a"}
  TextSyms = {"a", "*"}
  MaxP = 5
  MaxT = 6
  MaxL = 2
  Dev = {}
INIT GenInit
NEXT GenNext
INVARIANT GenInv
CHECK_DEADLOCK FALSE
