CONSTANTS
  STAR = "*"
  Lits = {"a", "b"}
  TextSyms = {"a", "b"}
  MaxP = 5
  MaxT = 7
  MaxL = 2
  Dev = {}
INIT GenInit
NEXT GenNext
INVARIANT GenInv
CHECK_DEADLOCK FALSE
