------------------------------ MODULE MC_Glob ------------------------------
EXTENDS Glob, Json
\* Generation: one line per pattern with the set of matching texts (as sequences of symbol names).
GenInit == /\ p \in Patterns /\ t = <<>> /\ wi = 0 /\ ti = 0 /\ aw = 0 /\ at = 0 /\ res = "gen"
GenNext == FALSE /\ UNCHANGED vars
GenInv == PrintT(ToJson([p |-> p, m |-> { x \in Texts : Match(p, x) }]))
=============================================================================
