------------------------------ MODULE MC_Glob ------------------------------
EXTENDS Glob, Json
\* Generation: one line per pattern with the set of matching texts (as sequences of symbol names).
GenInit == /\ p \in Patterns /\ t = <<>> /\ wi = 0 /\ ti = 0 /\ aw = 0 /\ at = 0 /\ res = "gen"
GenNext == FALSE /\ UNCHANGED vars
GenInv == PrintT(ToJson([p |-> p, m |-> { x \in Texts : Match(p, x) }]))

(* Self-overlapping literals beyond the exhaustive bound (the property's "text contains repeats of the
   literal parts"): for every literal L the texts are concatenations of prefixes of L (partial occurrences
   that overlap the real one), the patterns anchor L with stars on either side. MatchDP is the polynomial
   formulation proved equal to Match on a bounded space in Trace_Glob (ASSUME LemmaDP). *)
CONSTANT MaxL
RECURSIVE Pos(_, _, _)
Pos(q, x, k) ==
  IF k = 0 THEN {0}
  ELSE LET S == Pos(q, x, k - 1) IN
       IF q[k] = STAR THEN { j \in 0..Len(x) : \E i \in S : i <= j }
       ELSE { i + 1 : i \in { i \in S : i < Len(x) /\ x[i + 1] = q[k] } }
MatchDP(q, x) == Len(x) \in Pos(q, x, Len(q))
Prefixes(L) == { SubSeq(L, 1, k) : k \in 1..Len(L) }
KmpTexts(L) == { x \o y : x \in Prefixes(L), y \in Prefixes(L) } \cup { x \o L : x \in Prefixes(L) }
               \cup { x \o y \o L : x \in Prefixes(L), y \in Prefixes(L) }
KmpPats(L) == { <<STAR>> \o L \o <<STAR>>, <<STAR>> \o L, L \o <<STAR>>, <<STAR>> \o L \o <<STAR>> \o L,
                <<Head(L)>> \o <<STAR>> \o L \o <<STAR>> }
GenKmpInit == /\ p \in { L \in SeqsUpTo(Lits, MaxL) : Len(L) >= 2 }
              /\ t = <<>> /\ wi = 0 /\ ti = 0 /\ aw = 0 /\ at = 0 /\ res = "gen"
GenKmpInv == PrintT(ToJson([l |-> p, cases |-> { [p |-> q, t |-> x, m |-> MatchDP(q, x)] : q \in KmpPats(p), x \in KmpTexts(p) }]))
=============================================================================
