CONSTANTS
  STAR = "*"
  Lits = {"a", "b"}
  TextSyms = {"a", "b"}
  MaxP = 2
  MaxT = 2
  MaxL = 7
  Dev = {}
INIT GenKmpInit
NEXT GenNext
INVARIANT GenKmpInv
CHECK_DEADLOCK FALSE
