CONSTANTS
  STAR = "*"
  Lits = {"a", "b"}
  TextSyms = {"a", "b"}
  MaxP = 6
  MaxT = 8
  MaxL = 2
  Dev = {}
INIT Init
NEXT Next
INVARIANTS AlgoCorrect Bounded
CHECK_DEADLOCK FALSE
