CONSTANTS
  STAR = "*"
  Lits = {"a", "b"}
  TextSyms = {"a", "b"}
  MaxP = 6
  MaxT = 8
  MaxL = 2
  Dev = {}
INIT GenInit
NEXT GenNext
INVARIANT GenInv
CHECK_DEADLOCK FALSE
