----------------------------- MODULE Trace_Glob -----------------------------
(* Code -> spec direction for C05: the harness logs random long (pattern, text, result) triples
   observed on humphrey::krauss::wildcard_match; every line must agree with Match.  MatchDP is a
   polynomial formulation (sets of reachable text positions) whose equivalence with the
   denotational Match is checked by TLC on the bounded space (LemmaDP in MC configs). *)
EXTENDS Naturals, Sequences, TLC, Json, IOUtils

STAR == "*"

RECURSIVE Pos(_, _, _)
Pos(p, t, k) ==
  IF k = 0 THEN {0}
  ELSE LET S == Pos(p, t, k - 1) IN
       IF p[k] = STAR THEN { j \in 0..Len(t) : \E i \in S : i <= j }
       ELSE { i + 1 : i \in { i \in S : i < Len(t) /\ t[i + 1] = p[k] } }
MatchDP(p, t) == Len(t) \in Pos(p, t, Len(p))

RECURSIVE Match(_, _)
Match(p, t) ==
  IF p = <<>> THEN t = <<>>
  ELSE IF Head(p) = STAR
       THEN Match(Tail(p), t) \/ (t # <<>> /\ Match(p, Tail(t)))
       ELSE t # <<>> /\ Head(t) = Head(p) /\ Match(Tail(p), Tail(t))

Rec == ndJsonDeserialize(IOEnv.TRACE)

VARIABLES l, bad
Init == l = 1 /\ bad = <<>>
Next == /\ l <= Len(Rec)
        /\ l' = l + 1
        /\ bad' = IF Rec[l].got = MatchDP(Rec[l].p, Rec[l].t) \/ Len(bad) >= 20 THEN bad
                  ELSE Append(bad, l)
Spec == Init /\ [][Next]_<<l, bad>>

\* checked at the last state: every record consumed and none disagreed (the first 20 disagreeing
\* records are printed for the driver, which stores them as the replay file)
AllAgree == (l = Len(Rec) + 1) =>
              \/ bad = <<>>
              \/ PrintT(ToJson([rejected |-> [i \in 1..Len(bad) |-> Rec[bad[i]]]])) /\ FALSE

\* bounded lemma: the DP formulation equals the denotation
SeqsUpTo(S, n) == UNION { [1..k -> S] : k \in 0..n }
LemmaDP == \A p \in SeqsUpTo({"a", "b", STAR}, 4), t \in SeqsUpTo({"a", "b"}, 5) : MatchDP(p, t) = Match(p, t)
ASSUME LemmaDP
=============================================================================
