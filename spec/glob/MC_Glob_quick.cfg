CONSTANTS
  STAR = "*"
  Lits = {"a", "b"}
  TextSyms = {"a", "b"}
  MaxP = 4
  MaxT = 6
  MaxL = 2
  Dev = {}
SPECIFICATION Spec
INVARIANTS AlgoCorrect Bounded
PROPERTY Terminates
CHECK_DEADLOCK FALSE
