CONSTANTS
  STAR = "*"
  Lits = {"a"}
  TextSyms = {"a", "*"}
  MaxP = 4
  MaxT = 5
  MaxL = 2
  Dev = {}
SPECIFICATION Spec
INVARIANTS AlgoCorrect Bounded
PROPERTY Terminates
CHECK_DEADLOCK FALSE
