------------------------------- MODULE Glob -------------------------------
(* Denotational meaning of Humphrey's route / host patterns (property C05) and a
   transcription of the matching *algorithm* (humphrey/src/krauss.rs) as a state machine.

   A pattern is a sequence of symbols, STAR standing for `*`; a text is a sequence of symbols.
   Match(p, t) is the property's definition: t is obtained from p by replacing each STAR
   by some (possibly empty) sequence.  The algorithm model steps exactly like the loop in
   wildcard_match: one action per loop iteration. Dev names the deviations of the code as it
   was before the repair (KNOWN_FINDINGS.txt):
     NoSavedTextPos  - only the pattern position after the last `*` is remembered; after a partial
                       match of the literal that follows the star the text position is not rewound
     StarLiteralFirst- text and pattern characters are compared for equality *before* the pattern
                       character is tested for being `*`, so a `*` in the text is consumed one-for-one *)
EXTENDS Naturals, Sequences, TLC

CONSTANTS STAR,        \* the wildcard symbol
          Lits,        \* literal symbols usable in patterns
          TextSyms,    \* symbols usable in texts (may include STAR: a text may contain a literal `*`)
          MaxP, MaxT,  \* length bounds
          Dev

RECURSIVE Match(_, _)
Match(p, t) ==
  IF p = <<>> THEN t = <<>>
  ELSE IF Head(p) = STAR
       THEN Match(Tail(p), t) \/ (t # <<>> /\ Match(p, Tail(t)))
       ELSE t # <<>> /\ Head(t) = Head(p) /\ Match(Tail(p), Tail(t))

SeqsUpTo(S, n) == UNION { [1..k -> S] : k \in 0..n }
Patterns == SeqsUpTo(Lits \cup {STAR}, MaxP)
Texts    == SeqsUpTo(TextSyms, MaxT)

(***************************************************************************)
(* The algorithm.  wi/ti are 1-based cursors, aw = pattern position after  *)
(* the last star (0 = none), at = text position saved with it.             *)
(***************************************************************************)
VARIABLES p, t, wi, ti, aw, at, res     \* res \in {"run","true","false"}
vars == <<p, t, wi, ti, aw, at, res>>

Init == /\ p \in Patterns /\ t \in Texts
        /\ wi = 1 /\ ti = 1 /\ aw = 0 /\ at = 0 /\ res = "run"

WEnd == wi > Len(p)
TEnd == ti > Len(t)
WC   == p[wi]
TC   == t[ti]

Finish(b) == /\ res' = (IF b THEN "true" ELSE "false")
             /\ UNCHANGED <<p, t, wi, ti, aw, at>>

\* text exhausted
StepTextDone ==
  /\ res = "run" /\ TEnd
  /\ IF WEnd THEN Finish(TRUE)
     ELSE IF WC = STAR THEN /\ wi' = wi + 1 /\ UNCHANGED <<p, t, ti, aw, at, res>>
     ELSE Finish(FALSE)

IsStarHere == ~WEnd /\ WC = STAR
SameChar   == ~WEnd /\ WC = TC

\* the pattern is at a star: remember the position after it (and, in the repaired code, the text position)
StepStar ==
  /\ res = "run" /\ ~TEnd
  /\ IF "StarLiteralFirst" \in Dev THEN IsStarHere /\ ~SameChar ELSE IsStarHere
  /\ wi' = wi + 1 /\ aw' = wi + 1 /\ at' = ti
  /\ UNCHANGED <<p, t, ti, res>>

\* same character: advance both
StepEqual ==
  /\ res = "run" /\ ~TEnd
  /\ IF "StarLiteralFirst" \in Dev THEN SameChar ELSE (SameChar /\ ~IsStarHere)
  /\ wi' = wi + 1 /\ ti' = ti + 1
  /\ UNCHANGED <<p, t, aw, at, res>>

\* mismatch after a star: backtrack
StepBacktrack ==
  /\ res = "run" /\ ~TEnd /\ ~IsStarHere /\ ~SameChar /\ aw # 0
  /\ IF "NoSavedTextPos" \in Dev
     THEN \* code before the repair: go back in the pattern only, keep walking the text
          IF aw > Len(p) THEN Finish(TRUE)
          ELSE /\ wi' = (IF p[aw] = TC THEN aw + 1 ELSE aw)
               /\ ti' = ti + 1
               /\ UNCHANGED <<p, t, aw, at, res>>
     ELSE \* repaired: the star absorbs one more character
          /\ wi' = aw /\ ti' = at + 1 /\ at' = at + 1
          /\ UNCHANGED <<p, t, aw, res>>

StepMismatch ==
  /\ res = "run" /\ ~TEnd /\ ~IsStarHere /\ ~SameChar /\ aw = 0
  /\ Finish(FALSE)

Next == StepTextDone \/ StepStar \/ StepEqual \/ StepBacktrack \/ StepMismatch
Spec == Init /\ [][Next]_vars /\ WF_vars(Next)

\* C05 on the algorithm model: when it stops, it stops with the denotational answer ...
AlgoCorrect == (res # "run") => ((res = "true") <=> Match(p, t))
\* ... and it always stops.
Terminates == <>(res # "run")
\* progress measure used to argue termination without a liveness run in the large configs
Bounded == wi <= Len(p) + 1 /\ ti <= Len(t) + 1 /\ at <= Len(t) + 1
=============================================================================
