CONSTANTS
  STAR = "*"
  Lits = {"a"}
  TextSyms = {"a", "*"}
  MaxP = 3
  MaxT = 3
  Dev = {"StarLiteralFirst"}
INIT Init
NEXT Next
INVARIANTS AlgoCorrect
CHECK_DEADLOCK FALSE
