CONSTANTS
  STAR = "*"
  Lits = {"a"}
  TextSyms = {"a", "*"}
  MaxP = 3
  MaxT = 3
  MaxL = 2
  Dev = {"StarLiteralFirst"}
INIT Init
NEXT Next
INVARIANTS AlgoCorrect
CHECK_DEADLOCK FALSE
