---------------------------- MODULE MC_ThreadPool ----------------------------
(* TLC-only definitions for the exhaustive configurations of ThreadPool. *)
EXTENDS ThreadPool

\* Reachability witnesses: each must be VIOLATED; the counterexample is a schedule that the
\* harness forces through the real pool (binding D).
\*   a respawned worker runs a task / panics a second time
NeverRespawnedRuns  == \A w \in Workers : ~(inc[w] >= 1 /\ wpc[w] = "run")
NeverSecondRespawn  == \A w \in Workers : inc[w] < 2
\*   drop is entered without stop while a task runs and another is still queued
NeverDropBusyNoStop == ~(cpc = "dropping" /\ recAttached /\ Running # {} /\ q # <<>>)
\*   stop: one worker has consumed the Shutdown while another still runs a task and a third sits in recv
NeverStopBusy       == ~(cpc = "stopped" /\ Gone # {} /\ Running # {} /\ rxLock # NOBODY)
\*   the recovery thread finds the handle already taken by Drop
NeverRespawnAfterDrop == ~(rpc = "respawn" /\ cpc = "done" /\ ~handles[rw])
=============================================================================
