---------------------------- MODULE MC_ThreadPool ----------------------------
(* TLC-only definitions for the exhaustive configurations of ThreadPool. *)
EXTENDS ThreadPool

\* (the reachability witnesses used for the gated replay are defined in Gen_ThreadPool)
=============================================================================
