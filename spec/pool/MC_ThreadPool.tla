---------------------------- MODULE MC_ThreadPool ----------------------------
(* TLC-only definitions for the exhaustive configurations of ThreadPool. *)
EXTENDS ThreadPool

\* Reachability witnesses: each must be VIOLATED; the counterexample is a schedule that the
\* harness forces through the real pool (binding D).
\*   a respawned worker runs a task / panics a second time
NeverRespawnedRuns  == \A w \in Workers : ~(inc[w] >= 1 /\ wpc[w] = "run")
NeverSecondRespawn  == \A w \in Workers : inc[w] < 2
\*   drop is entered without stop while a task runs and another is still queued
NeverDropBusyNoStop == ~(cpc = "dropping" /\ recAttached /\ Running # {} /\ q # <<>>)
\*   stop+drop: the Sender goes away while one worker is still running a task and another sits in recv
NeverStopDropBusy   == ~(cpc = "done" /\ Gone # {} /\ Running # {} /\ rxLock # NOBODY)
\*   the recovery thread finds the handle already taken by Drop
NeverRespawnAfterDrop == ~(rpc = "respawn" /\ cpc = "done" /\ ~handles[rw])
=============================================================================
