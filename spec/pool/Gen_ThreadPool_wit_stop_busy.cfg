CONSTANTS
  N = 3
  MaxTasks = 1
  G = 1
  Stops = 1
  Dev = {}
  KeepHist = FALSE
INIT GInit
NEXT GNext
INVARIANT NeverStopBusy
CHECK_DEADLOCK FALSE
