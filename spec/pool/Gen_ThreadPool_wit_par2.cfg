CONSTANTS
  N = 2
  MaxTasks = 2
  G = 1
  Stops = 1
  Dev = {}
  KeepHist = FALSE
INIT GInit
NEXT GNext
INVARIANT NeverAllRunning
CHECK_DEADLOCK FALSE
