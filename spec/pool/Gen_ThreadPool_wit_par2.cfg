CONSTANTS
  N = 2
  MaxTasks = 2
  Dev = {}
  KeepHist = FALSE
INIT GInit
NEXT GNext
INVARIANT NeverAllRunning
CHECK_DEADLOCK FALSE
