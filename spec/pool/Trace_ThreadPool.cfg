CONSTANTS
  N = 8
  MaxTasks = 200
  G = 3
  Stops = 2
  Dev = {}
INIT TInit
NEXT TNext
CONSTRAINT Track
INVARIANTS AtMostOnce OnlySubmittedRun LockNotHeldWhileRunning LockConsistent NeverPoisoned NoLossNoDup NoPrematureExit SingleShutdown HandlesOwn
POSTCONDITION Accepted
CHECK_DEADLOCK FALSE
