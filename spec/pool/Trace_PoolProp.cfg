SPECIFICATION Spec
INVARIANTS Satisfied
CHECK_DEADLOCK FALSE
