CONSTANTS
  N = 32
  MaxTasks = 600
  G = 3
  Stops = 2
  Dev = {}
INIT TInit
NEXT TNext
CONSTRAINT Track
INVARIANTS AtMostOnce OnlySubmittedRun LockNotHeldWhileRunning LockConsistent NeverPoisoned NoLossNoDup NoPrematureExit SingleShutdown HandlesOwn
POSTCONDITION Accepted
CHECK_DEADLOCK FALSE
