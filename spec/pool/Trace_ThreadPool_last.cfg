CONSTANTS
  N = 8
  MaxTasks = 200
  Dev = {}
INIT TInit
NEXT TNext
INVARIANTS AtEnd
CHECK_DEADLOCK FALSE
