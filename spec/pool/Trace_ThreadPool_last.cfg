CONSTANTS
  N = 8
  MaxTasks = 200
  G = 3
  Stops = 2
  Dev = {}
INIT TInit
NEXT TNext
INVARIANTS AtEnd
CHECK_DEADLOCK FALSE
