CONSTANTS
  N = 2
  MaxTasks = 2
  G = 1
  Stops = 1
  Dev = {}
SPECIFICATION Spec
CHECK_DEADLOCK FALSE
INVARIANT NeverAllRunning
