----------------------------- MODULE ThreadPool -----------------------------
(* Humphrey's thread pool (property C08): humphrey/src/thread/pool.rs and recovery.rs, modelled
   action by action.  One action per critical section / linearization point of the code; the
   names are the names of the hook points (`crate::verif::point`) at those places.

   Threads:  the CALLER owns the pool and walks a lifecycle script
                 (start  execute*  [stop])*  drop        with at most G starts
             chosen nondeterministically (every script in which execute follows start and
             precedes stop; DESIGN 5a).  Each start() creates a new GENERATION g: a new task
             channel, a new handle table, n new workers with the ids 0..n-1 again and a new
             recovery thread; the previous generation lives on (its recovery thread was only
             detached, its workers drain their queue and leave when start() replaces - i.e.
             drops - the old Sender).  Everything a start creates is indexed by g below;
             WORKERS 0..N-1 run `Thread::new`'s closure: loop { lock rx; recv; unlock; run };
             the RECOVERY thread runs `RecoveryThread::new`'s closure: for id in &recovery_rx
             { lock threads; join old; respawn; unlock }.  It owns a clone of the recovery
             Sender and of the task Receiver, so it never terminates and neither channel ever
             loses its receiving side (send never fails).

   Tasks are 1..MaxTasks, submitted in that order; `pan` (chosen in Init) is the set of tasks
   whose body panics.  Message 0 is Message::Shutdown.

   What the code does, as modelled below (pool.rs line numbers of the unhooked file):
     * worker (147-181): `rx.lock()` (Worker_Lock), `recv()` while the guard is alive and the
       guard is dropped at the end of that match arm, i.e. before the task runs (Worker_Recv:
       pop + unlock are one step because nothing happens in between).  Function -> run it
       (Worker_Run = the body starts, Worker_Finish = it returns); Shutdown -> leave the loop;
       recv error (all Senders gone AND queue empty) -> leave the loop; poisoned mutex -> leave
       the loop (`Err(_) => break`, unreachable because nothing panics while the guard lives:
       invariant NeverPoisoned).
     * a panicking body unwinds through the closure; dropping `PanicMarker` while
       `panicking()` sends the worker id on the recovery channel (Worker_Panic); then the OS
       thread ends (Worker_Die, the only step without a hook point).
     * recovery (recovery.rs 63-91): receive an id (Rec_Wake), lock `threads` (Rec_Recv), join the old
       handle if it is still in the vector (Rec_Join: blocks until that thread has ended;
       the handle is absent when the pool's Drop already took it), spawn a replacement with
       the same id, store it, unlock (Rec_Respawn).
     * stop (106-111): forget the recovery JoinHandle (detach), send ONE Shutdown.  Exactly one
       worker consumes it; the others stay blocked until the Sender is dropped.
     * Drop (191-204): [join the recovery thread if stop was not called], lock `threads`, take
       and drop every worker handle (detach), unlock; then the fields are dropped, among them
       the only task Sender (Pool_DropEnd) - from then on recv fails once the queue is empty.

   Named deviations (Dev):
     DropJoinsRecovery    - the code as it was before the repair: Drop *joins* the recovery
                            thread when stop() was not called; that thread never ends.
     RestartSharesHandles - start() refills the existing handle table (`*threads.lock() = new`)
                            instead of installing a fresh Arc, so the recovery threads of all
                            generations share one table and one mutex: an old recovery thread
                            takes a NEW worker's handle and joins that live thread while
                            holding the table.
   Plausible bugs used only to show the properties are not vacuous (sensitivity configs):
     RunUnderLock         - the receiver guard lives until the task has run (a panic then poisons it)
     ContinueOnDisconnect - a worker `continue`s instead of `break`ing when recv fails
     NoRespawn            - the recovery thread joins but does not spawn a replacement
     StopJoinsWorkers     - stop() joins the workers after sending its single Shutdown
     RequeueOnPanic       - a panicked task is sent again (retry)
     ShutdownPerStop2     - stop() sends two Shutdown messages (breaks only the implementation-level
                            invariant SingleShutdown, not the property) *)
EXTENDS Naturals, Sequences, FiniteSets

CONSTANTS N,          \* worker ids are 0..N-1 (Pool_Start(n) may start fewer: trace spec)
          MaxTasks,
          G,          \* at most G calls of start (generations 1..G)
          Stops,      \* at most Stops calls of stop per generation (stop; stop is a legal script)
          Dev

DevNames == {"DropJoinsRecovery", "RestartSharesHandles", "RunUnderLock", "ContinueOnDisconnect",
             "NoRespawn", "StopJoinsWorkers", "RequeueOnPanic", "ShutdownPerStop2"}
ASSUME Dev \subseteq DevNames

Workers  == 0 .. N - 1
Tasks    == 1 .. MaxTasks
Gens     == 1 .. G
SHUTDOWN == 0
NOBODY   == 0 - 1

VARIABLES
  cpc,         \* caller: new | started | stopjoin | stopped | dropping | dropped | done
  nsub,        \* tasks 1..nsub have been passed to execute
  cur,         \* number of start() calls so far = current generation (0: never started)
  recAttached, \* pool.recovery_thread is Some(handle)
  nsd,         \* nsd[g]: number of stop() calls (= Shutdown messages sent) in generation g
  q,           \* q[g]: task channel of generation g, FIFO of task ids and SHUTDOWN
  txAlive,     \* txAlive[g]: the pool's Sender<Message> of generation g exists
  rxLock,      \* rxLock[g]: worker holding the Mutex<Receiver> of generation g, or NOBODY
  poisoned,    \* poisoned[g]: that mutex is poisoned
  wpc,         \* wpc[g][w]: absent | idle | recv | got | run | unwinding | dead | exited
  wtask,       \* wtask[g][w]: task held by the worker (0 = none)
  inc,         \* inc[g][w]: incarnation of worker id w of generation g (number of respawns)
  recq,        \* recq[g]: recovery channel of generation g, FIFO of worker ids
  rpc,         \* rpc[g]: recovery thread: absent | recv | lock | join | respawn (join/respawn: holds the table)
  rw,          \* rw[g]: id being recovered, or NOBODY
  handles,     \* handles[tb][w]: 0 = threads[w].os_thread is None, else the generation of the thread it refers to
  pan,         \* tasks whose body panics (constant during a behaviour)
  ran,         \* ran[t]  = number of times the body of t was entered
  done         \* done[t] = number of times the body of t returned

vars == <<cpc, nsub, cur, recAttached, nsd, q, txAlive, rxLock, poisoned, wpc, wtask, inc, recq, rpc, rw,
          handles, pan, ran, done>>

\* the handle table (Arc<Mutex<Vec<Thread>>>) used by generation g
Tbl(g) == IF "RestartSharesHandles" \in Dev THEN 1 ELSE g
\* its mutex is held exactly by a recovery thread between Rec_Recv and Rec_Respawn
TableFree(tb) == \A g \in Gens : Tbl(g) = tb => rpc[g] \notin {"join", "respawn"}

InitWith(p) ==
  /\ cpc = "new" /\ nsub = 0 /\ cur = 0 /\ recAttached = FALSE /\ nsd = [g \in Gens |-> 0]
  /\ q = [g \in Gens |-> <<>>] /\ txAlive = [g \in Gens |-> FALSE]
  /\ rxLock = [g \in Gens |-> NOBODY] /\ poisoned = [g \in Gens |-> FALSE]
  /\ wpc = [g \in Gens |-> [w \in Workers |-> "absent"]]
  /\ wtask = [g \in Gens |-> [w \in Workers |-> 0]]
  /\ inc = [g \in Gens |-> [w \in Workers |-> 0]]
  /\ recq = [g \in Gens |-> <<>>] /\ rpc = [g \in Gens |-> "absent"] /\ rw = [g \in Gens |-> NOBODY]
  /\ handles = [g \in Gens |-> [w \in Workers |-> 0]]
  /\ pan = p
  /\ ran = [t \in Tasks |-> 0] /\ done = [t \in Tasks |-> 0]

Init == \E p \in SUBSET Tasks : InitWith(p)

(***************************************************************************)
(* Caller                                                                  *)
(***************************************************************************)
\* ThreadPool::start: new channels, n workers, a new handle table, the recovery thread; the old
\* Sender (if any) is dropped by the assignment `self.tx = tx`, the old recovery JoinHandle (if
\* stop was not called) by `self.recovery_thread = Some(..)`.
Pool_Start(n) ==
  /\ cpc \in {"new", "started", "stopped"} /\ cur < G
  /\ LET g == cur + 1 IN
     /\ (cur >= 1 /\ "RestartSharesHandles" \in Dev) => TableFree(1)     \* `self.threads.lock()`
     /\ cur' = g /\ cpc' = "started" /\ recAttached' = TRUE
     /\ txAlive' = [h \in Gens |-> IF h = g THEN TRUE ELSE IF h = cur THEN FALSE ELSE txAlive[h]]
     /\ wpc' = [wpc EXCEPT ![g] = [w \in Workers |-> IF w < n THEN "idle" ELSE "absent"]]
     /\ handles' = [handles EXCEPT ![Tbl(g)] = [w \in Workers |-> IF w < n THEN g ELSE 0]]
     /\ rpc' = [rpc EXCEPT ![g] = "recv"]
  /\ UNCHANGED <<nsub, nsd, q, rxLock, poisoned, wtask, inc, recq, rw, pan, ran, done>>

\* ThreadPool::execute: tx.send(Function(task)) - never fails, never blocks.
Pool_Execute(t) ==
  /\ cpc = "started" /\ t = nsub + 1 /\ t \in Tasks
  /\ nsub' = t /\ q' = [q EXCEPT ![cur] = Append(@, t)]
  /\ UNCHANGED <<cpc, cur, recAttached, nsd, txAlive, rxLock, poisoned, wpc, wtask, inc, recq, rpc, rw,
                 handles, pan, ran, done>>

\* ThreadPool::stop: recovery_thread = None (detach), send ONE Shutdown.  Calling it again on a stopped pool
\* sends another Shutdown on the same channel (its receiver lives in the recovery thread, so send succeeds).
Pool_Stop ==
  /\ cpc \in {"started", "stopped"} /\ cur >= 1 /\ nsd[cur] < Stops
  /\ recAttached' = FALSE
  /\ nsd' = [nsd EXCEPT ![cur] = @ + 1]
  /\ q' = [q EXCEPT ![cur] = IF "ShutdownPerStop2" \in Dev THEN @ \o <<SHUTDOWN, SHUTDOWN>>
                                                             ELSE Append(@, SHUTDOWN)]
  /\ cpc' = IF "StopJoinsWorkers" \in Dev THEN "stopjoin" ELSE "stopped"
  /\ UNCHANGED <<nsub, cur, txAlive, rxLock, poisoned, wpc, wtask, inc, recq, rpc, rw, handles, pan,
                 ran, done>>

\* only under StopJoinsWorkers: the joins return when every worker thread has ended
Pool_StopJoined ==
  /\ cpc = "stopjoin"
  /\ \A w \in Workers : wpc[cur][w] \in {"absent", "exited", "dead"}
  /\ cpc' = "stopped"
  /\ UNCHANGED <<nsub, cur, recAttached, nsd, q, txAlive, rxLock, poisoned, wpc, wtask, inc, recq, rpc, rw,
                 handles, pan, ran, done>>

\* <ThreadPool as Drop>::drop is entered (also for a pool that was never started).
Pool_DropBegin ==
  /\ cpc \in {"new", "started", "stopped"}
  /\ cpc' = "dropping"
  /\ UNCHANGED <<nsub, cur, recAttached, nsd, q, txAlive, rxLock, poisoned, wpc, wtask, inc, recq, rpc, rw,
                 handles, pan, ran, done>>

\* The recovery thread never ends, so joining it never returns.
RecoveryJoinReturns == FALSE
DropPassesRecovery ==
  ("DropJoinsRecovery" \in Dev /\ recAttached) => RecoveryJoinReturns

\* threads.lock(); take and drop every handle; unlock.  One step: the critical section does not block.
Pool_DropHandles ==
  /\ cpc = "dropping"
  /\ DropPassesRecovery
  /\ IF cur = 0 THEN UNCHANGED handles
     ELSE /\ TableFree(Tbl(cur))
          /\ handles' = [handles EXCEPT ![Tbl(cur)] = [w \in Workers |-> 0]]
  /\ recAttached' = FALSE
  /\ cpc' = "dropped"
  /\ UNCHANGED <<nsub, cur, nsd, q, txAlive, rxLock, poisoned, wpc, wtask, inc, recq, rpc, rw, pan, ran, done>>

\* the fields are dropped: the pool's Sender - the only one of the current generation - goes away.
Pool_DropEnd ==
  /\ cpc = "dropped"
  /\ txAlive' = [h \in Gens |-> IF h = cur THEN FALSE ELSE txAlive[h]] /\ cpc' = "done"
  /\ UNCHANGED <<nsub, cur, recAttached, nsd, q, rxLock, poisoned, wpc, wtask, inc, recq, rpc, rw, handles,
                 pan, ran, done>>

Caller == \/ Pool_Start(N) \/ (\E t \in Tasks : Pool_Execute(t)) \/ Pool_Stop \/ Pool_StopJoined
          \/ Pool_DropBegin \/ Pool_DropHandles \/ Pool_DropEnd

(***************************************************************************)
(* Workers (generation g, id w)                                            *)
(***************************************************************************)
SetW(f, g, w, v) == [f EXCEPT ![g] = [@ EXCEPT ![w] = v]]

\* rx.lock(): Ok(guard) -> go on to recv; Err(poisoned) -> break.
Worker_Lock(g, w) ==
  /\ wpc[g][w] = "idle" /\ rxLock[g] = NOBODY
  /\ IF poisoned[g]
       THEN /\ wpc' = SetW(wpc, g, w, "exited") /\ UNCHANGED rxLock
       ELSE /\ wpc' = SetW(wpc, g, w, "recv") /\ rxLock' = [rxLock EXCEPT ![g] = w]
  /\ UNCHANGED <<cpc, nsub, cur, recAttached, nsd, q, txAlive, poisoned, wtask, inc, recq, rpc, rw, handles,
                 pan, ran, done>>

\* guard.recv() returns a message; the guard is dropped.
Worker_RecvMsg(g, w) ==
  /\ wpc[g][w] = "recv" /\ q[g] # <<>>
  /\ q' = [q EXCEPT ![g] = Tail(@)]
  /\ IF Head(q[g]) = SHUTDOWN
       THEN /\ wpc' = SetW(wpc, g, w, "exited") /\ rxLock' = [rxLock EXCEPT ![g] = NOBODY]
            /\ UNCHANGED wtask
       ELSE /\ wpc' = SetW(wpc, g, w, "got")
            /\ wtask' = SetW(wtask, g, w, Head(q[g]))
            /\ rxLock' = [rxLock EXCEPT ![g] = IF "RunUnderLock" \in Dev THEN w ELSE NOBODY]
  /\ UNCHANGED <<cpc, nsub, cur, recAttached, nsd, txAlive, poisoned, inc, recq, rpc, rw, handles, pan, ran, done>>

\* guard.recv() fails: every Sender is gone and the queue is empty.
Worker_RecvDisc(g, w) ==
  /\ wpc[g][w] = "recv" /\ q[g] = <<>> /\ ~txAlive[g]
  /\ wpc' = SetW(wpc, g, w, IF "ContinueOnDisconnect" \in Dev THEN "idle" ELSE "exited")
  /\ rxLock' = [rxLock EXCEPT ![g] = NOBODY]
  /\ UNCHANGED <<cpc, nsub, cur, recAttached, nsd, q, txAlive, poisoned, wtask, inc, recq, rpc, rw, handles,
                 pan, ran, done>>

Worker_Recv(g, w) == Worker_RecvMsg(g, w) \/ Worker_RecvDisc(g, w)

\* (f)() is entered
Worker_Run(g, w) ==
  /\ wpc[g][w] = "got"
  /\ wpc' = SetW(wpc, g, w, "run")
  /\ ran' = [ran EXCEPT ![wtask[g][w]] = @ + 1]
  /\ UNCHANGED <<cpc, nsub, cur, recAttached, nsd, q, txAlive, rxLock, poisoned, wtask, inc, recq, rpc, rw,
                 handles, pan, done>>

\* (f)() returns; back to the top of the loop
Worker_Finish(g, w) ==
  /\ wpc[g][w] = "run" /\ wtask[g][w] \notin pan
  /\ wpc' = SetW(wpc, g, w, "idle")
  /\ done' = [done EXCEPT ![wtask[g][w]] = @ + 1]
  /\ wtask' = SetW(wtask, g, w, 0)
  /\ rxLock' = [rxLock EXCEPT ![g] = IF @ = w THEN NOBODY ELSE @]      \* RunUnderLock only
  /\ UNCHANGED <<cpc, nsub, cur, recAttached, nsd, q, txAlive, poisoned, inc, recq, rpc, rw, handles, pan, ran>>

\* (f)() panics; PanicMarker::drop sends the worker id to the recovery thread of its generation
Worker_Panic(g, w) ==
  /\ wpc[g][w] = "run" /\ wtask[g][w] \in pan
  /\ wpc' = SetW(wpc, g, w, "unwinding")
  /\ recq' = [recq EXCEPT ![g] = Append(@, w)]
  /\ wtask' = SetW(wtask, g, w, 0)
  /\ rxLock' = [rxLock EXCEPT ![g] = IF @ = w THEN NOBODY ELSE @]      \* RunUnderLock only: guard dropped
  /\ poisoned' = [poisoned EXCEPT ![g] = (@ \/ rxLock[g] = w)]         \*   while panicking => poisoned
  /\ q' = IF "RequeueOnPanic" \in Dev THEN [q EXCEPT ![g] = Append(@, wtask[g][w])] ELSE q
  /\ UNCHANGED <<cpc, nsub, cur, recAttached, nsd, txAlive, inc, rpc, rw, handles, pan, ran, done>>

\* the OS thread of a panicked worker ends (the only step without a hook point)
Worker_Die(g, w) ==
  /\ wpc[g][w] = "unwinding"
  /\ wpc' = SetW(wpc, g, w, "dead")
  /\ UNCHANGED <<cpc, nsub, cur, recAttached, nsd, q, txAlive, rxLock, poisoned, wtask, inc, recq, rpc, rw,
                 handles, pan, ran, done>>

Worker(g, w) == \/ Worker_Lock(g, w) \/ Worker_Recv(g, w) \/ Worker_Run(g, w) \/ Worker_Finish(g, w)
                \/ Worker_Panic(g, w) \/ Worker_Die(g, w)

(***************************************************************************)
(* Recovery thread of generation g                                         *)
(***************************************************************************)
\* `for id in &rx` yields an id (the recovery channel is popped)
Rec_Wake(g) ==
  /\ rpc[g] = "recv" /\ recq[g] # <<>>
  /\ rw' = [rw EXCEPT ![g] = Head(recq[g])] /\ recq' = [recq EXCEPT ![g] = Tail(@)]
  /\ rpc' = [rpc EXCEPT ![g] = "lock"]
  /\ UNCHANGED <<cpc, nsub, cur, recAttached, nsd, q, txAlive, rxLock, poisoned, wpc, wtask, inc, handles,
                 pan, ran, done>>

\* threads.lock() returns (the caller's critical sections are single steps, so with one table per
\* generation this is always possible); the guard lives until Rec_Respawn
Rec_Recv(g) ==
  /\ rpc[g] = "lock" /\ TableFree(Tbl(g))
  /\ rpc' = [rpc EXCEPT ![g] = "join"]
  /\ UNCHANGED <<cpc, nsub, cur, recAttached, nsd, q, txAlive, rxLock, poisoned, wpc, wtask, inc, recq, rw,
                 handles, pan, ran, done>>

\* threads[id].os_thread.take() and, if it was there, join() - returns when the thread the handle refers
\* to has ended.  When Drop has already taken the handle the old thread is not joined.
Rec_Join(g) ==
  /\ rpc[g] = "join"
  /\ LET tb == Tbl(g)  h == handles[tb][rw[g]] IN
     IF h # 0
       THEN /\ wpc[h][rw[g]] \in {"dead", "exited"}
            /\ handles' = [handles EXCEPT ![tb] = [@ EXCEPT ![rw[g]] = 0]]
       ELSE UNCHANGED handles
  /\ rpc' = [rpc EXCEPT ![g] = "respawn"]
  /\ UNCHANGED <<cpc, nsub, cur, recAttached, nsd, q, txAlive, rxLock, poisoned, wpc, wtask, inc, recq, rw,
                 pan, ran, done>>

\* Thread::new(id, ..) on the task channel of generation g, stored in threads[id]; the guard is dropped at
\* the end of the loop body.  (If the old thread was not joined it may still be unwinding; it takes no
\* further part - it emits nothing and nobody waits for it - so its state is simply overwritten.)
Rec_Respawn(g) ==
  /\ rpc[g] = "respawn"
  /\ wpc' = IF "NoRespawn" \in Dev THEN wpc ELSE SetW(wpc, g, rw[g], "idle")
  /\ inc' = SetW(inc, g, rw[g], inc[g][rw[g]] + 1)
  /\ handles' = [handles EXCEPT ![Tbl(g)] = [@ EXCEPT ![rw[g]] = g]]
  /\ rpc' = [rpc EXCEPT ![g] = "recv"] /\ rw' = [rw EXCEPT ![g] = NOBODY]
  /\ UNCHANGED <<cpc, nsub, cur, recAttached, nsd, q, txAlive, rxLock, poisoned, wtask, recq, pan, ran, done>>

Recovery(g) == Rec_Wake(g) \/ Rec_Recv(g) \/ Rec_Join(g) \/ Rec_Respawn(g)

(***************************************************************************)
Next == Caller \/ (\E g \in Gens : (\E w \in Workers : Worker(g, w)) \/ Recovery(g))

Spec == /\ Init /\ [][Next]_vars
        /\ WF_vars(Caller)
        /\ \A g \in Gens : \A w \in Workers : WF_vars(Worker(g, w))
        /\ \A g \in Gens : WF_vars(Recovery(g))

(***************************************************************************)
(* Properties                                                              *)
(***************************************************************************)
WStates == {"absent", "idle", "recv", "got", "run", "unwinding", "dead", "exited"}
TypeOK ==
  /\ cpc \in {"new", "started", "stopjoin", "stopped", "dropping", "dropped", "done"}
  /\ nsub \in 0 .. MaxTasks /\ cur \in 0 .. G /\ recAttached \in BOOLEAN /\ nsd \in [Gens -> 0 .. Stops]
  /\ txAlive \in [Gens -> BOOLEAN] /\ poisoned \in [Gens -> BOOLEAN]
  /\ \A g \in Gens : q[g] \in Seq(Tasks \cup {SHUTDOWN}) /\ recq[g] \in Seq(Workers)
  /\ rxLock \in [Gens -> Workers \cup {NOBODY}]
  /\ wpc \in [Gens -> [Workers -> WStates]] /\ wtask \in [Gens -> [Workers -> Tasks \cup {0}]]
  /\ inc \in [Gens -> [Workers -> 0 .. MaxTasks]]
  /\ rpc \in [Gens -> {"absent", "recv", "lock", "join", "respawn"}]
  /\ rw \in [Gens -> Workers \cup {NOBODY}]
  /\ handles \in [Gens -> [Workers -> 0 .. G]] /\ pan \subseteq Tasks
  /\ ran \in [Tasks -> Nat] /\ done \in [Tasks -> Nat]

Running(g) == {w \in Workers : wpc[g][w] = "run"}
Usable(g)  == {w \in Workers : wpc[g][w] \in {"idle", "recv", "got", "run"}}
Gone(g)    == {w \in Workers : wpc[g][w] = "exited"}
Started(g) == {w \in Workers : wpc[g][w] # "absent"}
GW         == Gens \X Workers

\* "executed exactly once", safety half
AtMostOnce == \A t \in Tasks : ran[t] <= 1 /\ done[t] <= ran[t]
OnlySubmittedRun == \A t \in Tasks : ran[t] > 0 => t <= nsub

\* the receiver mutex is held exactly while a worker sits in recv - never while a task runs
LockNotHeldWhileRunning == \A g \in Gens, w \in Workers : wpc[g][w] \in {"got", "run"} => rxLock[g] # w
LockConsistent == \A g \in Gens, w \in Workers : (rxLock[g] = w) <=> (wpc[g][w] = "recv")
NeverPoisoned == \A g \in Gens : ~poisoned[g]

\* a worker holds a task iff it is between recv and the end of the body; tasks held, queued and
\* finished never overlap (no loss, no duplication), across all generations
Held == {wtask[p[1]][p[2]] : p \in {x \in GW : wpc[x[1]][x[2]] \in {"got", "run"}}}
InQueue == UNION {{q[g][i] : i \in 1 .. Len(q[g])} : g \in Gens} \ {SHUTDOWN}
NoLossNoDup ==
  LET inq  == InQueue
      held == Held
      running == {wtask[p[1]][p[2]] : p \in {x \in GW : wpc[x[1]][x[2]] = "run"}}
  IN
  /\ \A p \in GW : (wtask[p[1]][p[2]] # 0) <=> (wpc[p[1]][p[2]] \in {"got", "run"})
  /\ \A p1, p2 \in GW : (p1 # p2 /\ wtask[p1[1]][p1[2]] # 0) => wtask[p1[1]][p1[2]] # wtask[p2[1]][p2[2]]
  /\ \A g \in Gens : \A i \in 1 .. Len(q[g]) - 1 :
        IF q[g][i] = SHUTDOWN THEN q[g][i + 1] = SHUTDOWN             \* no task behind a Shutdown
        ELSE q[g][i + 1] # SHUTDOWN => q[g][i] < q[g][i + 1]           \* tasks in submission order
  /\ \A g1, g2 \in Gens : g1 # g2 =>
        {q[g1][i] : i \in 1 .. Len(q[g1])} \cap {q[g2][i] : i \in 1 .. Len(q[g2])} \subseteq {SHUTDOWN}
  /\ \A t \in 1 .. nsub :
        \/ t \in inq /\ t \notin held /\ ran[t] = 0
        \/ t \notin inq /\ t \in held /\ ran[t] = (IF t \in running THEN 1 ELSE 0)
        \/ t \notin inq /\ t \notin held /\ ran[t] = 1

\* "a task that panics affects nothing but itself": while the pool is started no worker of the current
\* generation leaves, and a worker that died of a panic is on its way to being replaced
NoPrematureExit ==
  /\ (cpc = "started" /\ cur >= 1 /\ nsd[cur] = 0) => Gone(cur) = {}
  /\ \A g \in Gens : \A w \in Started(g) : wpc[g][w] \in {"unwinding", "dead"} =>
        \/ rw[g] = w \/ \E i \in 1 .. Len(recq[g]) : recq[g][i] = w   \* its recovery is under way

\* implementation-level (not demanded by the property): each stop sends ONE Shutdown, so until the Sender
\* is gone exactly as many workers have left as Shutdowns were sent at most; the others leave when the
\* Sender is dropped
SingleShutdown == \A g \in Gens : txAlive[g] => Cardinality(Gone(g)) <= nsd[g]

\* a handle in a table refers to a worker of the generation that owns the table
HandlesOwn == \A g \in Gens, w \in Workers : handles[g][w] \in {0, g}

Quiescent ==
  /\ cpc = "done"
  /\ \A g \in Gens : /\ Started(g) \subseteq Gone(g)
                     /\ \A i \in 1 .. Len(q[g]) : q[g][i] = SHUTDOWN    \* (a surplus Shutdown may stay behind)
                     /\ recq[g] = <<>> /\ rpc[g] \in {"absent", "recv"}

SubmittedOK(t) == ran[t] = 1 /\ (t \in pan \/ done[t] = 1)

\* liveness (under Spec's weak fairness, no state constraint)
EventuallyEachOnce == \A t \in Tasks : (nsub >= t) ~> SubmittedOK(t)
CallerNeverBlocks  == <>(cpc = "done")
AllWorkersExit     == <>[](\A g \in Gens : Started(g) \subseteq Gone(g))
PanicIsolated      == \A g \in Gens, w \in Workers : (wpc[g][w] \in {"unwinding", "dead"}) ~> (wpc[g][w] = "idle")
EventuallyQuiescent == <>[]Quiescent
AllSubmittedDone   == <>[](\A t \in Tasks : t <= nsub => SubmittedOK(t))

\* all of the above in one formula (the system always terminates, so the liveness properties are
\* statements about the final states); used alone at the largest bound
LiveAll            == <>[](Quiescent /\ \A t \in Tasks : t <= nsub => SubmittedOK(t))

\* "up to N tasks run at the same time": TLC must VIOLATE this (witness of N running)
NeverAllRunning == \A g \in Gens : Cardinality(Running(g)) < N
=============================================================================
