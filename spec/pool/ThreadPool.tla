----------------------------- MODULE ThreadPool -----------------------------
(* Humphrey's thread pool (property C08): humphrey/src/thread/pool.rs and recovery.rs, modelled
   action by action.  One action per critical section / linearization point of the code; the
   names are the names of the hook points (`crate::verif::point`) at those places.

   Threads:  the CALLER owns the pool and walks a lifecycle script
                 [start  execute*  [stop]]  drop
             chosen nondeterministically (every script in which execute follows start and
             precedes stop; DESIGN 5a);
             WORKERS 0..N-1 run `Thread::new`'s closure: loop { lock rx; recv; unlock; run };
             the RECOVERY thread runs `RecoveryThread::new`'s closure: for id in &recovery_rx
             { lock threads; join old; respawn; unlock }.  It owns a clone of the recovery
             Sender and of the task Receiver, so it never terminates and neither channel ever
             loses its receiving side (send never fails).

   Tasks are 1..MaxTasks, submitted in that order; `pan` (chosen in Init) is the set of tasks
   whose body panics.  Message 0 is Message::Shutdown.

   What the code does, as modelled below (pool.rs line numbers of the unhooked file):
     * worker (147-181): `rx.lock()` (Worker_Lock), `recv()` while the guard is alive and the
       guard is dropped at the end of that match arm, i.e. before the task runs (Worker_Recv:
       pop + unlock are one step because nothing happens in between).  Function -> run it
       (Worker_Run = the body starts, Worker_Finish = it returns); Shutdown -> leave the loop;
       recv error (all Senders gone AND queue empty) -> leave the loop; poisoned mutex -> leave
       the loop (`Err(_) => break`, unreachable because nothing panics while the guard lives:
       invariant NeverPoisoned).
     * a panicking body unwinds through the closure; dropping `PanicMarker` while
       `panicking()` sends the worker id on the recovery channel (Worker_Panic); then the OS
       thread ends (Worker_Die, the only step without a hook point).
     * recovery (recovery.rs 63-91): receive an id (Rec_Wake), lock `threads` (Rec_Recv), join the old
       handle if it is still in the vector (Rec_Join: blocks until that thread has ended;
       the handle is absent when the pool's Drop already took it), spawn a replacement with
       the same id, store it, unlock (Rec_Respawn).
     * stop (106-111): forget the recovery JoinHandle (detach), send ONE Shutdown.  Exactly one
       worker consumes it; the others stay blocked until the Sender is dropped.
     * Drop (191-204): [join the recovery thread if stop was not called], lock `threads`, take
       and drop every worker handle (detach), unlock; then the fields are dropped, among them
       the only task Sender (Pool_DropEnd) - from then on recv fails once the queue is empty.

   Named deviations (Dev):
     DropJoinsRecovery    - the code as it was before the repair: Drop *joins* the recovery
                            thread when stop() was not called; that thread never ends.
   Plausible bugs used only to show the properties are not vacuous (sensitivity configs):
     RunUnderLock         - the receiver guard lives until the task has run (a panic then poisons it)
     ContinueOnDisconnect - a worker `continue`s instead of `break`ing when recv fails
     NoRespawn            - the recovery thread joins but does not spawn a replacement
     StopJoinsWorkers     - stop() joins the workers after sending its single Shutdown
     RequeueOnPanic       - a panicked task is sent again (retry)
     ShutdownPerStop2     - stop() sends two Shutdown messages (breaks only the implementation-level
                            invariant SingleShutdown, not the property) *)
EXTENDS Naturals, Sequences, FiniteSets

CONSTANTS N,          \* worker ids are 0..N-1 (Pool_Start(n) may start fewer: trace spec)
          MaxTasks,
          Dev

DevNames == {"DropJoinsRecovery", "RunUnderLock", "ContinueOnDisconnect", "NoRespawn",
             "StopJoinsWorkers", "RequeueOnPanic", "ShutdownPerStop2"}
ASSUME Dev \subseteq DevNames

Workers  == 0 .. N - 1
Tasks    == 1 .. MaxTasks
SHUTDOWN == 0
NOBODY   == 0 - 1

VARIABLES
  cpc,         \* caller: new | started | stopjoin | stopped | dropping | dropped | done
  nsub,        \* tasks 1..nsub have been passed to execute
  recAttached, \* pool.recovery_thread is Some(handle)
  q,           \* task channel, FIFO of task ids and SHUTDOWN
  txAlive,     \* the pool's Sender<Message> exists (after start, before the pool's fields are dropped)
  rxLock,      \* worker holding the Mutex<Receiver>, or NOBODY
  poisoned,    \* that mutex is poisoned
  wpc,         \* worker: absent | idle | recv | got | run | unwinding | dead | exited
  wtask,       \* task held by the worker (0 = none)
  inc,         \* incarnation of worker id w (number of respawns)
  recq,        \* recovery channel, FIFO of worker ids
  rpc,         \* recovery thread: absent | recv | lock | join | respawn  (join/respawn: holds `threads`)
  rw,          \* id being recovered, or NOBODY
  handles,     \* threads[w].os_thread is Some
  pan,         \* tasks whose body panics (constant during a behaviour)
  ran,         \* ran[t]  = number of times the body of t was entered
  done         \* done[t] = number of times the body of t returned

vars == <<cpc, nsub, recAttached, q, txAlive, rxLock, poisoned, wpc, wtask, inc, recq, rpc, rw,
          handles, pan, ran, done>>
callerVars == <<cpc, nsub, recAttached>>
workerVars == <<rxLock, poisoned, wpc, wtask, ran, done>>
recVars    == <<rpc, rw, inc>>

InitWith(p) ==
  /\ cpc = "new" /\ nsub = 0 /\ recAttached = FALSE
  /\ q = <<>> /\ txAlive = FALSE /\ rxLock = NOBODY /\ poisoned = FALSE
  /\ wpc = [w \in Workers |-> "absent"] /\ wtask = [w \in Workers |-> 0]
  /\ inc = [w \in Workers |-> 0]
  /\ recq = <<>> /\ rpc = "absent" /\ rw = NOBODY
  /\ handles = [w \in Workers |-> FALSE]
  /\ pan = p
  /\ ran = [t \in Tasks |-> 0] /\ done = [t \in Tasks |-> 0]

Init == \E p \in SUBSET Tasks : InitWith(p)

(***************************************************************************)
(* Caller                                                                  *)
(***************************************************************************)
\* ThreadPool::start: new channels, n workers, the recovery thread.
Pool_Start(n) ==
  /\ cpc = "new"
  /\ cpc' = "started" /\ recAttached' = TRUE /\ txAlive' = TRUE
  /\ wpc' = [w \in Workers |-> IF w < n THEN "idle" ELSE "absent"]
  /\ handles' = [w \in Workers |-> w < n]
  /\ rpc' = "recv"
  /\ UNCHANGED <<nsub, q, rxLock, poisoned, wtask, inc, recq, rw, pan, ran, done>>

\* ThreadPool::execute: tx.send(Function(task)) - never fails, never blocks.
Pool_Execute(t) ==
  /\ cpc = "started" /\ t = nsub + 1 /\ t \in Tasks
  /\ nsub' = t /\ q' = Append(q, t)
  /\ UNCHANGED <<cpc, recAttached, txAlive, rxLock, poisoned, wpc, wtask, inc, recq, rpc, rw,
                 handles, pan, ran, done>>

\* ThreadPool::stop: recovery_thread = None (detach), send ONE Shutdown.
Pool_Stop ==
  /\ cpc = "started"
  /\ recAttached' = FALSE
  /\ q' = IF "ShutdownPerStop2" \in Dev THEN q \o <<SHUTDOWN, SHUTDOWN>> ELSE Append(q, SHUTDOWN)
  /\ cpc' = IF "StopJoinsWorkers" \in Dev THEN "stopjoin" ELSE "stopped"
  /\ UNCHANGED <<nsub, txAlive, rxLock, poisoned, wpc, wtask, inc, recq, rpc, rw, handles, pan,
                 ran, done>>

\* only under StopJoinsWorkers: the joins return when every worker thread has ended
Pool_StopJoined ==
  /\ cpc = "stopjoin"
  /\ \A w \in Workers : wpc[w] \in {"absent", "exited", "dead"}
  /\ cpc' = "stopped"
  /\ UNCHANGED <<nsub, recAttached, q, txAlive, rxLock, poisoned, wpc, wtask, inc, recq, rpc, rw,
                 handles, pan, ran, done>>

\* <ThreadPool as Drop>::drop is entered (also for a pool that was never started).
Pool_DropBegin ==
  /\ cpc \in {"new", "started", "stopped"}
  /\ cpc' = "dropping"
  /\ UNCHANGED <<nsub, recAttached, q, txAlive, rxLock, poisoned, wpc, wtask, inc, recq, rpc, rw,
                 handles, pan, ran, done>>

\* The recovery thread never ends, so joining it never returns.
RecoveryJoinReturns == FALSE
DropPassesRecovery ==
  ("DropJoinsRecovery" \in Dev /\ recAttached) => RecoveryJoinReturns

\* threads.lock(); take and drop every handle; unlock.  One step: the critical section does not block.
Pool_DropHandles ==
  /\ cpc = "dropping"
  /\ DropPassesRecovery
  /\ rpc \notin {"join", "respawn"}          \* `threads` is free
  /\ handles' = [w \in Workers |-> FALSE]
  /\ recAttached' = FALSE
  /\ cpc' = "dropped"
  /\ UNCHANGED <<nsub, q, txAlive, rxLock, poisoned, wpc, wtask, inc, recq, rpc, rw, pan, ran, done>>

\* the fields are dropped: the pool's Sender - the only one - goes away.
Pool_DropEnd ==
  /\ cpc = "dropped"
  /\ txAlive' = FALSE /\ cpc' = "done"
  /\ UNCHANGED <<nsub, recAttached, q, rxLock, poisoned, wpc, wtask, inc, recq, rpc, rw, handles,
                 pan, ran, done>>

Caller == \/ Pool_Start(N) \/ (\E t \in Tasks : Pool_Execute(t)) \/ Pool_Stop \/ Pool_StopJoined
          \/ Pool_DropBegin \/ Pool_DropHandles \/ Pool_DropEnd

(***************************************************************************)
(* Workers                                                                 *)
(***************************************************************************)
\* rx.lock(): Ok(guard) -> go on to recv; Err(poisoned) -> break.
Worker_Lock(w) ==
  /\ wpc[w] = "idle" /\ rxLock = NOBODY
  /\ IF poisoned
       THEN /\ wpc' = [wpc EXCEPT ![w] = "exited"] /\ UNCHANGED rxLock
       ELSE /\ wpc' = [wpc EXCEPT ![w] = "recv"] /\ rxLock' = w
  /\ UNCHANGED <<cpc, nsub, recAttached, q, txAlive, poisoned, wtask, inc, recq, rpc, rw, handles,
                 pan, ran, done>>

\* guard.recv() returns a message; the guard is dropped.
Worker_RecvMsg(w) ==
  /\ wpc[w] = "recv" /\ q # <<>>
  /\ q' = Tail(q)
  /\ IF Head(q) = SHUTDOWN
       THEN /\ wpc' = [wpc EXCEPT ![w] = "exited"] /\ rxLock' = NOBODY /\ UNCHANGED wtask
       ELSE /\ wpc' = [wpc EXCEPT ![w] = "got"]
            /\ wtask' = [wtask EXCEPT ![w] = Head(q)]
            /\ rxLock' = IF "RunUnderLock" \in Dev THEN w ELSE NOBODY
  /\ UNCHANGED <<cpc, nsub, recAttached, txAlive, poisoned, inc, recq, rpc, rw, handles, pan, ran, done>>

\* guard.recv() fails: every Sender is gone and the queue is empty.
Worker_RecvDisc(w) ==
  /\ wpc[w] = "recv" /\ q = <<>> /\ ~txAlive
  /\ wpc' = [wpc EXCEPT ![w] = IF "ContinueOnDisconnect" \in Dev THEN "idle" ELSE "exited"]
  /\ rxLock' = NOBODY
  /\ UNCHANGED <<cpc, nsub, recAttached, q, txAlive, poisoned, wtask, inc, recq, rpc, rw, handles,
                 pan, ran, done>>

Worker_Recv(w) == Worker_RecvMsg(w) \/ Worker_RecvDisc(w)

\* (f)() is entered
Worker_Run(w) ==
  /\ wpc[w] = "got"
  /\ wpc' = [wpc EXCEPT ![w] = "run"]
  /\ ran' = [ran EXCEPT ![wtask[w]] = @ + 1]
  /\ UNCHANGED <<cpc, nsub, recAttached, q, txAlive, rxLock, poisoned, wtask, inc, recq, rpc, rw,
                 handles, pan, done>>

\* (f)() returns; back to the top of the loop
Worker_Finish(w) ==
  /\ wpc[w] = "run" /\ wtask[w] \notin pan
  /\ wpc' = [wpc EXCEPT ![w] = "idle"]
  /\ done' = [done EXCEPT ![wtask[w]] = @ + 1]
  /\ wtask' = [wtask EXCEPT ![w] = 0]
  /\ rxLock' = IF rxLock = w THEN NOBODY ELSE rxLock       \* RunUnderLock only
  /\ UNCHANGED <<cpc, nsub, recAttached, q, txAlive, poisoned, inc, recq, rpc, rw, handles, pan, ran>>

\* (f)() panics; PanicMarker::drop sends the worker id to the recovery thread
Worker_Panic(w) ==
  /\ wpc[w] = "run" /\ wtask[w] \in pan
  /\ wpc' = [wpc EXCEPT ![w] = "unwinding"]
  /\ recq' = Append(recq, w)
  /\ wtask' = [wtask EXCEPT ![w] = 0]
  /\ rxLock' = IF rxLock = w THEN NOBODY ELSE rxLock       \* RunUnderLock only: guard dropped
  /\ poisoned' = (poisoned \/ rxLock = w)                  \*   while panicking => poisoned
  /\ q' = IF "RequeueOnPanic" \in Dev THEN Append(q, wtask[w]) ELSE q
  /\ UNCHANGED <<cpc, nsub, recAttached, txAlive, inc, rpc, rw, handles, pan, ran, done>>

\* the OS thread of a panicked worker ends (the only step without a hook point)
Worker_Die(w) ==
  /\ wpc[w] = "unwinding"
  /\ wpc' = [wpc EXCEPT ![w] = "dead"]
  /\ UNCHANGED <<cpc, nsub, recAttached, q, txAlive, rxLock, poisoned, wtask, inc, recq, rpc, rw,
                 handles, pan, ran, done>>

Worker(w) == \/ Worker_Lock(w) \/ Worker_Recv(w) \/ Worker_Run(w) \/ Worker_Finish(w)
             \/ Worker_Panic(w) \/ Worker_Die(w)

(***************************************************************************)
(* Recovery thread                                                         *)
(***************************************************************************)
\* `for id in &rx` yields an id (the recovery channel is popped)
Rec_Wake ==
  /\ rpc = "recv" /\ recq # <<>>
  /\ rw' = Head(recq) /\ recq' = Tail(recq) /\ rpc' = "lock"
  /\ UNCHANGED <<cpc, nsub, recAttached, q, txAlive, rxLock, poisoned, wpc, wtask, inc, handles,
                 pan, ran, done>>

\* threads.lock() returns (the mutex is free unless the caller is inside Pool_DropHandles, which
\* is a single step, so this is always possible); the guard lives until Rec_Respawn
Rec_Recv ==
  /\ rpc = "lock"
  /\ rpc' = "join"
  /\ UNCHANGED <<cpc, nsub, recAttached, q, txAlive, rxLock, poisoned, wpc, wtask, inc, recq, rw,
                 handles, pan, ran, done>>

\* threads[id].os_thread.take() and, if it was there, join() - returns when that thread has ended.
\* When Drop has already taken the handle the old thread is not joined.
Rec_Join ==
  /\ rpc = "join"
  /\ IF handles[rw]
       THEN /\ wpc[rw] = "dead"
            /\ handles' = [handles EXCEPT ![rw] = FALSE]
       ELSE UNCHANGED handles
  /\ rpc' = "respawn"
  /\ UNCHANGED <<cpc, nsub, recAttached, q, txAlive, rxLock, poisoned, wpc, wtask, inc, recq, rw,
                 pan, ran, done>>

\* Thread::new(id, ..) stored in threads[id]; the guard is dropped at the end of the loop body.
\* (If the old thread was not joined it may still be unwinding; it takes no further part - it
\*  emits nothing and nobody waits for it - so its state is simply overwritten.)
Rec_Respawn ==
  /\ rpc = "respawn"
  /\ wpc' = IF "NoRespawn" \in Dev THEN wpc ELSE [wpc EXCEPT ![rw] = "idle"]
  /\ inc' = [inc EXCEPT ![rw] = @ + 1]
  /\ handles' = [handles EXCEPT ![rw] = TRUE]
  /\ rpc' = "recv" /\ rw' = NOBODY
  /\ UNCHANGED <<cpc, nsub, recAttached, q, txAlive, rxLock, poisoned, wtask, recq, pan, ran, done>>

Recovery == Rec_Wake \/ Rec_Recv \/ Rec_Join \/ Rec_Respawn

(***************************************************************************)
Next == Caller \/ (\E w \in Workers : Worker(w)) \/ Recovery

Spec == /\ Init /\ [][Next]_vars
        /\ WF_vars(Caller)
        /\ \A w \in Workers : WF_vars(Worker(w))
        /\ WF_vars(Recovery)

(***************************************************************************)
(* Properties                                                              *)
(***************************************************************************)
WStates == {"absent", "idle", "recv", "got", "run", "unwinding", "dead", "exited"}
TypeOK ==
  /\ cpc \in {"new", "started", "stopjoin", "stopped", "dropping", "dropped", "done"}
  /\ nsub \in 0 .. MaxTasks /\ recAttached \in BOOLEAN /\ txAlive \in BOOLEAN /\ poisoned \in BOOLEAN
  /\ q \in Seq(Tasks \cup {SHUTDOWN})
  /\ rxLock \in Workers \cup {NOBODY}
  /\ wpc \in [Workers -> WStates] /\ wtask \in [Workers -> Tasks \cup {0}]
  /\ inc \in [Workers -> 0 .. MaxTasks]
  /\ recq \in Seq(Workers) /\ rpc \in {"absent", "recv", "lock", "join", "respawn"}
  /\ rw \in Workers \cup {NOBODY}
  /\ handles \in [Workers -> BOOLEAN] /\ pan \subseteq Tasks
  /\ ran \in [Tasks -> Nat] /\ done \in [Tasks -> Nat]

Running == {w \in Workers : wpc[w] = "run"}
Usable  == {w \in Workers : wpc[w] \in {"idle", "recv", "got", "run"}}
Gone    == {w \in Workers : wpc[w] = "exited"}
Started == {w \in Workers : wpc[w] # "absent"}

\* "executed exactly once", safety half
AtMostOnce == \A t \in Tasks : ran[t] <= 1 /\ done[t] <= ran[t]
OnlySubmittedRun == \A t \in Tasks : ran[t] > 0 => t <= nsub

\* the receiver mutex is held exactly while a worker sits in recv - never while a task runs
LockNotHeldWhileRunning == \A w \in Workers : wpc[w] \in {"got", "run"} => rxLock # w
LockConsistent == \A w \in Workers : (rxLock = w) <=> (wpc[w] = "recv")
NeverPoisoned == ~poisoned

\* a worker holds a task iff it is between recv and the end of the body; tasks held, queued and
\* finished never overlap (no loss, no duplication)
Held == {wtask[w] : w \in {x \in Workers : wpc[x] \in {"got", "run"}}}
InQueue == {q[i] : i \in 1 .. Len(q)} \ {SHUTDOWN}
NoLossNoDup ==
  LET inq  == InQueue
      held == Held
      running == {wtask[w] : w \in {x \in Workers : wpc[x] = "run"}}
  IN
  /\ \A w \in Workers : (wtask[w] # 0) <=> (wpc[w] \in {"got", "run"})
  /\ \A w1, w2 \in Workers : (w1 # w2 /\ wtask[w1] # 0) => wtask[w1] # wtask[w2]
  /\ \A i \in 1 .. Len(q) - 1 : q[i] # SHUTDOWN /\ (q[i + 1] # SHUTDOWN => q[i] < q[i + 1])
  /\ \A t \in 1 .. nsub :
        \/ t \in inq /\ t \notin held /\ ran[t] = 0
        \/ t \notin inq /\ t \in held /\ ran[t] = (IF t \in running THEN 1 ELSE 0)
        \/ t \notin inq /\ t \notin held /\ ran[t] = 1

\* "a task that panics affects nothing but itself": while the pool is started no worker leaves, and a
\* worker that died of a panic is on its way to being replaced
NoPrematureExit ==
  /\ cpc = "started" => Gone = {}
  /\ \A w \in Started : wpc[w] \in {"unwinding", "dead"} =>
        \/ rw = w \/ \E i \in 1 .. Len(recq) : recq[i] = w   \* its recovery is under way

\* implementation-level (not demanded by the property): stop sends ONE Shutdown, so until the Sender
\* is gone exactly the worker that consumed it has left; the others leave at drop
SingleShutdown == txAlive => Cardinality(Gone) <= 1

\* "the expected event can always arrive": nobody waits for a condition that cannot come true -
\* checked as liveness below.
Quiescent ==
  /\ cpc = "done" /\ Started \subseteq Gone
  /\ q = <<>> /\ recq = <<>> /\ rpc \in {"absent", "recv"}

SubmittedOK(t) == ran[t] = 1 /\ (t \in pan \/ done[t] = 1)

\* liveness (under Spec's weak fairness, no state constraint)
EventuallyEachOnce == \A t \in Tasks : (nsub >= t) ~> SubmittedOK(t)
CallerNeverBlocks  == <>(cpc = "done")
AllWorkersExit     == <>[](Started \subseteq Gone)
PanicIsolated      == \A w \in Workers : (wpc[w] \in {"unwinding", "dead"}) ~> (wpc[w] = "idle")
EventuallyQuiescent == <>[]Quiescent
AllSubmittedDone   == <>[](\A t \in Tasks : t <= nsub => SubmittedOK(t))

\* all of the above in one formula (the system always terminates, so the liveness properties are
\* statements about the final states); used alone at the largest bound
LiveAll            == <>[](Quiescent /\ \A t \in Tasks : t <= nsub => SubmittedOK(t))

\* "up to N tasks run at the same time": TLC must VIOLATE this (witness of N running)
NeverAllRunning == Cardinality(Running) < N
=============================================================================
