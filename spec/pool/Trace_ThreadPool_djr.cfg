CONSTANTS
  N = 8
  MaxTasks = 200
  Dev = {"DropJoinsRecovery"}
INIT TInit
NEXT TNext
CONSTRAINT Track
INVARIANTS AtMostOnce OnlySubmittedRun LockNotHeldWhileRunning LockConsistent NeverPoisoned NoLossNoDup NoPrematureExit SingleShutdown
POSTCONDITION Accepted
CHECK_DEADLOCK FALSE
