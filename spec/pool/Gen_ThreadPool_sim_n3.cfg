CONSTANTS
  N = 3
  MaxTasks = 4
  G = 1
  Stops = 1
  Dev = {}
  KeepHist = TRUE
INIT GInit
NEXT GNext
INVARIANT SimOut
CHECK_DEADLOCK FALSE
