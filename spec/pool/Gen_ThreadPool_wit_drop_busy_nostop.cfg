CONSTANTS
  N = 2
  MaxTasks = 3
  G = 1
  Stops = 1
  Dev = {}
  KeepHist = FALSE
INIT GInit
NEXT GNext
INVARIANT NeverDropBusyNoStop
CHECK_DEADLOCK FALSE
