CONSTANTS
  N = 1
  MaxTasks = 1
  G = 1
  Stops = 1
  Dev = {"DropJoinsRecovery"}
SPECIFICATION Spec
CHECK_DEADLOCK FALSE
INVARIANTS TypeOK AtMostOnce OnlySubmittedRun LockNotHeldWhileRunning LockConsistent NeverPoisoned NoLossNoDup NoPrematureExit SingleShutdown
PROPERTIES CallerNeverBlocks
