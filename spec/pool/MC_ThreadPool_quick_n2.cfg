CONSTANTS
  N = 2
  MaxTasks = 2
  G = 1
  Stops = 2
  Dev = {}
SPECIFICATION Spec
CHECK_DEADLOCK FALSE
INVARIANTS TypeOK AtMostOnce OnlySubmittedRun LockNotHeldWhileRunning LockConsistent NeverPoisoned NoLossNoDup NoPrematureExit SingleShutdown HandlesOwn
PROPERTIES EventuallyEachOnce CallerNeverBlocks AllWorkersExit PanicIsolated EventuallyQuiescent AllSubmittedDone
