---------------------------- MODULE Gen_ThreadPool ----------------------------
(* Generation of behaviours of ThreadPool for the gated schedule replay (binding D).
   Every action of ThreadPool is taken together with a label [a, w, x] naming the hook point the
   real code must reach and the arguments it must report there:
       a = action / point name,  w = worker id (or -1),
       x = Pool_Start: n | Pool_Execute: task | Worker_Lock: 0 ok, 1 poisoned
           | Worker_Recv: 0 Function, 1 Shutdown, 2 disconnected | Worker_Run/Finish/Panic: task
           | Rec_Join: 1 if the handle was still in `threads`, 0 if Drop had taken it.
   KeepHist = FALSE: hist holds the last label only; EdgeOut (ACTION_CONSTRAINT) prints every
                     transition [s, l, t] of the complete state graph (edge-covering paths are
                     chosen by the driver);
   KeepHist = TRUE : hist is the whole behaviour; used with -simulate (SimOut prints the
                     behaviour when it has reached a final state) and with the witness invariants
                     of MC_ThreadPool (the violating trace is dumped by TLC as JSON). *)
EXTENDS ThreadPool, TLC, Json

CONSTANT KeepHist
VARIABLE hist

AsSeq(f) == [i \in 1 .. N |-> f[i - 1]]
Proj == [cpc |-> cpc, nsub |-> nsub, att |-> recAttached, q |-> q, tx |-> txAlive, lk |-> rxLock,
         wpc |-> AsSeq(wpc), wt |-> AsSeq(wtask), inc |-> AsSeq(inc), rq |-> recq, rpc |-> rpc,
         rw |-> rw, h |-> AsSeq(handles), pan |-> [t \in Tasks |-> t \in pan],
         ran |-> ran, done |-> done]
\* what the harness compares after each step
Obs == [cpc |-> cpc, wpc |-> AsSeq(wpc), ran |-> ran, done |-> done]

L(name, w, x) == hist' = IF KeepHist THEN Append(hist, [a |-> name, w |-> w, x |-> x, s |-> Obs'])
                         ELSE <<[a |-> name, w |-> w, x |-> x]>>

GInit == Init /\ hist = <<>>
GNext ==
  \/ Pool_Start(N) /\ L("Pool_Start", NOBODY, N)
  \/ \E t \in Tasks : Pool_Execute(t) /\ L("Pool_Execute", NOBODY, t)
  \/ Pool_Stop /\ L("Pool_Stop", NOBODY, 0)
  \/ Pool_StopJoined /\ L("Pool_StopJoined", NOBODY, 0)
  \/ Pool_DropBegin /\ L("Pool_DropBegin", NOBODY, IF recAttached THEN 1 ELSE 0)
  \/ Pool_DropHandles /\ L("Pool_DropHandles", NOBODY, Cardinality(Started))
  \/ Pool_DropEnd /\ L("Pool_DropEnd", NOBODY, 0)
  \/ \E w \in Workers :
       \/ Worker_Lock(w) /\ L("Worker_Lock", w, IF poisoned THEN 1 ELSE 0)
       \/ Worker_RecvMsg(w) /\ L("Worker_Recv", w, IF Head(q) = SHUTDOWN THEN 1 ELSE 0)
       \/ Worker_RecvDisc(w) /\ L("Worker_Recv", w, 2)
       \/ Worker_Run(w) /\ L("Worker_Run", w, wtask[w])
       \/ Worker_Finish(w) /\ L("Worker_Finish", w, wtask[w])
       \/ Worker_Panic(w) /\ L("Worker_Panic", w, wtask[w])
       \/ Worker_Die(w) /\ L("Worker_Die", w, 0)
  \/ Rec_Wake /\ L("Rec_Wake", Head(recq), 0)
  \/ Rec_Recv /\ L("Rec_Recv", rw, 0)
  \/ Rec_Join /\ L("Rec_Join", rw, IF handles[rw] THEN 1 ELSE 0)
  \/ Rec_Respawn /\ L("Rec_Respawn", rw, 0)

gvars == <<vars, hist>>
GSpec == GInit /\ [][GNext]_gvars

\* edge dump (KeepHist = FALSE)
EdgeOut == PrintT(ToJson([s |-> Proj, l |-> hist'[1], t |-> Proj']))

\* behaviour dump under -simulate (KeepHist = TRUE)
Final == cpc = "done" /\ ~ENABLED GNext
SimOut == Final => PrintT(ToJson([n |-> N, tasks |-> MaxTasks, pan |-> [t \in Tasks |-> t \in pan],
                                  complete |-> TRUE, steps |-> hist]))

\* reachability witnesses (must be violated; see MC_ThreadPool)
NeverRespawnedRuns  == \A w \in Workers : ~(inc[w] >= 1 /\ wpc[w] = "run")
NeverSecondRespawn  == \A w \in Workers : inc[w] < 2
NeverDropBusyNoStop == ~(cpc = "dropping" /\ recAttached /\ Running # {} /\ q # <<>>)
NeverStopBusy       == ~(cpc = "stopped" /\ Gone # {} /\ Running # {} /\ rxLock # NOBODY)
NeverRespawnAfterDrop == ~(rpc = "respawn" /\ cpc = "done" /\ ~handles[rw])
=============================================================================
