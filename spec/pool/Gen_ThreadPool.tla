---------------------------- MODULE Gen_ThreadPool ----------------------------
(* Generation of behaviours of ThreadPool for the gated schedule replay (binding D).
   Every action of ThreadPool is taken together with a label [a, w, x] naming the hook point the
   real code must reach and the arguments it must report there:
       a = action / point name,  g = generation of the acting thread,  w = worker id (or -1),
       x = Pool_Start: n | Pool_Execute: task | Worker_Lock: 0 ok, 1 poisoned
           | Worker_Recv: 0 Function, 1 Shutdown, 2 disconnected | Worker_Run/Finish/Panic: task
           | Rec_Join: 1 if the handle was still in `threads`, 0 if Drop had taken it.
   KeepHist = FALSE: hist holds the last label only; EdgeOut (ACTION_CONSTRAINT) prints every
                     transition [s, l, t] of the complete state graph (edge-covering paths are
                     chosen by the driver);
   KeepHist = TRUE : hist is the whole behaviour; used with -simulate (SimOut prints the
                     behaviour when it has reached a final state) and with the witness invariants
                     of MC_ThreadPool (the violating trace is dumped by TLC as JSON). *)
EXTENDS ThreadPool, TLC, Json

CONSTANT KeepHist
VARIABLE hist

AsSeq(f) == [i \in 1 .. N |-> f[i - 1]]
PerGen(f) == [g \in Gens |-> AsSeq(f[g])]
Proj == [cpc |-> cpc, nsub |-> nsub, cur |-> cur, att |-> recAttached, q |-> q, tx |-> txAlive, lk |-> rxLock,
         wpc |-> PerGen(wpc), wt |-> PerGen(wtask), inc |-> PerGen(inc), rq |-> recq, rpc |-> rpc,
         rw |-> rw, h |-> PerGen(handles), pan |-> [t \in Tasks |-> t \in pan],
         ran |-> ran, done |-> done]
\* what the harness compares after each step
Obs == [cpc |-> cpc, wpc |-> PerGen(wpc), ran |-> ran, done |-> done]

\* label: g = generation of the acting thread (caller: the generation current AFTER the step)
L(name, g, w, x) == hist' = IF KeepHist THEN Append(hist, [a |-> name, g |-> g, w |-> w, x |-> x, s |-> Obs'])
                            ELSE <<[a |-> name, g |-> g, w |-> w, x |-> x]>>

GInit == Init /\ hist = <<>>
GNext ==
  \/ Pool_Start(N) /\ L("Pool_Start", cur + 1, NOBODY, N)
  \/ \E t \in Tasks : Pool_Execute(t) /\ L("Pool_Execute", cur, NOBODY, t)
  \/ Pool_Stop /\ L("Pool_Stop", cur, NOBODY, 0)
  \/ Pool_StopJoined /\ L("Pool_StopJoined", cur, NOBODY, 0)
  \/ Pool_DropBegin /\ L("Pool_DropBegin", cur, NOBODY, IF recAttached THEN 1 ELSE 0)
  \/ Pool_DropHandles /\ L("Pool_DropHandles", cur, NOBODY, IF cur = 0 THEN 0 ELSE Cardinality(Started(cur)))
  \/ Pool_DropEnd /\ L("Pool_DropEnd", cur, NOBODY, 0)
  \/ \E g \in Gens :
       \/ \E w \in Workers :
            \/ Worker_Lock(g, w) /\ L("Worker_Lock", g, w, IF poisoned[g] THEN 1 ELSE 0)
            \/ Worker_RecvMsg(g, w) /\ L("Worker_Recv", g, w, IF Head(q[g]) = SHUTDOWN THEN 1 ELSE 0)
            \/ Worker_RecvDisc(g, w) /\ L("Worker_Recv", g, w, 2)
            \/ Worker_Run(g, w) /\ L("Worker_Run", g, w, wtask[g][w])
            \/ Worker_Finish(g, w) /\ L("Worker_Finish", g, w, wtask[g][w])
            \/ Worker_Panic(g, w) /\ L("Worker_Panic", g, w, wtask[g][w])
            \/ Worker_Die(g, w) /\ L("Worker_Die", g, w, 0)
       \/ Rec_Wake(g) /\ L("Rec_Wake", g, Head(recq[g]), 0)
       \/ Rec_Recv(g) /\ L("Rec_Recv", g, rw[g], 0)
       \/ Rec_Join(g) /\ L("Rec_Join", g, rw[g], IF handles[Tbl(g)][rw[g]] # 0 THEN 1 ELSE 0)
       \/ Rec_Respawn(g) /\ L("Rec_Respawn", g, rw[g], 0)

gvars == <<vars, hist>>
GSpec == GInit /\ [][GNext]_gvars

\* edge dump (KeepHist = FALSE)
EdgeOut == PrintT(ToJson([s |-> Proj, l |-> hist'[1], t |-> Proj']))

\* behaviour dump under -simulate (KeepHist = TRUE)
Final == cpc = "done" /\ ~ENABLED GNext
SimOut == Final => PrintT(ToJson([n |-> N, tasks |-> MaxTasks, gens |-> G, pan |-> [t \in Tasks |-> t \in pan],
                                  complete |-> TRUE, steps |-> hist]))

\* reachability witnesses (each must be violated; the counterexample is a schedule for the gated replay)
\*   N tasks running at once: NeverAllRunning (ThreadPool)
\*   a respawned worker runs a task / a worker id is respawned a second time
NeverRespawnedRuns  == \A g \in Gens, w \in Workers : ~(inc[g][w] >= 1 /\ wpc[g][w] = "run")
NeverSecondRespawn  == \A g \in Gens, w \in Workers : inc[g][w] < 2
\*   drop is entered without stop while a task runs and another is still queued
NeverDropBusyNoStop == ~(cpc = "dropping" /\ recAttached /\ Running(cur) # {} /\ q[cur] # <<>>)
\*   stop: one worker has consumed the Shutdown while another still runs a task and a third sits in recv
NeverStopBusy       == ~(cpc = "stopped" /\ Gone(cur) # {} /\ Running(cur) # {} /\ rxLock[cur] # NOBODY)
\*   the recovery thread finds the handle already taken by Drop
NeverRespawnAfterDrop == \A g \in Gens : ~(rpc[g] = "respawn" /\ cpc = "done" /\ handles[g][rw[g]] = 0)
\*   restart: a task of the first generation is still running after start; stop; start and then panics, and
\*   its (old) recovery thread is about to join it while the second generation has begun to work
NeverOldPanicAfterRestart ==
  ~(cur = 2 /\ rpc[1] = "join" /\ handles[1][rw[1]] = 1 /\ \E w \in Workers : wpc[2][w] = "recv")
\*   stop() after a task has panicked: while the dead worker is not yet replaced / after it was replaced
NeverStopWhileDead    == ~(cpc = "stopped" /\ \E w \in Workers : wpc[cur][w] \in {"unwinding", "dead"})
NeverStopAfterRespawn == ~(cpc = "stopped" /\ \E w \in Workers : inc[cur][w] >= 1)
\*   stop() returns while one task is running and another is still queued (it does not wait for them)
NeverStopBusyQueued   == ~(cpc = "stopped" /\ Running(cur) # {} /\ \E i \in 1 .. Len(q[cur]) : q[cur][i] # SHUTDOWN)
\*   two panics, the first on a worker that is not the last one: worker 0 replaced, then worker 1 dies;
\*   worker 1 (of 0..2) replaced, then worker 2 dies
NeverTwoPanicsLow     == ~(inc[1][0] >= 1 /\ wpc[1][1] = "unwinding")
NeverTwoPanicsMid     == ~(N >= 3 /\ inc[1][1] >= 1 /\ wpc[1][N - 1] = "unwinding")
\*   stop; stop: two workers have left through the two Shutdowns
NeverDoubleStop       == ~(cur >= 1 /\ nsd[1] = 2 /\ Cardinality(Gone(1)) = 2 /\ txAlive[1])
\*   restart without stop: two generations run tasks at the same time
NeverTwoGenerationsRun == ~(cur = 2 /\ Running(1) # {} /\ Running(2) # {})
=============================================================================
