CONSTANTS
  N = 2
  MaxTasks = 2
  G = 2
  Dev = {"RestartSharesHandles"}
SPECIFICATION Spec
CHECK_DEADLOCK FALSE
PROPERTIES PanicIsolated
