CONSTANTS
  N = 2
  MaxTasks = 2
  G = 2
  Stops = 1
  Dev = {"RestartSharesHandles"}
SPECIFICATION Spec
CHECK_DEADLOCK FALSE
PROPERTIES PanicIsolated
