CONSTANTS
  N = 1
  MaxTasks = 2
  G = 2
  Stops = 1
  Dev = {}
  KeepHist = FALSE
INIT GInit
NEXT GNext
ACTION_CONSTRAINT EdgeOut
CHECK_DEADLOCK FALSE
