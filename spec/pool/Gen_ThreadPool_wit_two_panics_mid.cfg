CONSTANTS
  N = 3
  MaxTasks = 2
  G = 1
  Stops = 1
  Dev = {}
  KeepHist = FALSE
INIT GInit
NEXT GNext
INVARIANT NeverTwoPanicsMid
CHECK_DEADLOCK FALSE
