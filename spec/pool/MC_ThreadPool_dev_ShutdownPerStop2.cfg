CONSTANTS
  N = 2
  MaxTasks = 1
  G = 1
  Stops = 1
  Dev = {"ShutdownPerStop2"}
SPECIFICATION Spec
CHECK_DEADLOCK FALSE
INVARIANT SingleShutdown
