CONSTANTS
  N = 1
  MaxTasks = 2
  G = 1
  Stops = 1
  Dev = {"NoRespawn"}
SPECIFICATION Spec
CHECK_DEADLOCK FALSE
PROPERTIES EventuallyEachOnce
