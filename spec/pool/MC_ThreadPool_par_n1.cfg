CONSTANTS
  N = 1
  MaxTasks = 1
  G = 1
  Stops = 1
  Dev = {}
SPECIFICATION Spec
CHECK_DEADLOCK FALSE
INVARIANT NeverAllRunning
