CONSTANTS
  N = 1
  MaxTasks = 2
  G = 2
  Stops = 1
  Dev = {}
  KeepHist = FALSE
INIT GInit
NEXT GNext
INVARIANT NeverTwoGenerationsRun
CHECK_DEADLOCK FALSE
