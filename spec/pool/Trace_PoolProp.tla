---------------------------- MODULE Trace_PoolProp ----------------------------
(* The property C08 by itself, as a judge of a recorded run - independent of HOW the pool is built
   (channel protocol, number of Shutdown messages, order of the hook points, handle tables, monitor
   events, thread names).  ThreadPool.tla / Trace_ThreadPool.tla model this implementation step by
   step; a log they cannot explain is re-examined here, so that an implementation that changes its
   internals but keeps the property is reported as SPEC-DRIFT, not as a violation of C08, while
   anything the statement forbids still is a violation.

   Only records that do not come from hook points inside the pool are read (same log format as
   Trace_ThreadPool):
     Reset(a = N, b = tasks, p = panicking tasks)     written by the driver
     C_Call / C_Ret (a = 1 start, 2 execute(b), 3 stop, 4 drop)
                                                      written by the caller thread around each API call
     Task_Start(t) / Task_End(t)                      written by the task bodies
     Barrier_Timeout(t)  a body that waits for N bodies to run at the same time gave up
     Wait_Timeout(t)     a body that runs until drop() has returned gave up
     C_Hang(a)           1/3: the caller did not get through its script (an API call never returned),
                         2: after drop() returned a submitted task was never entered or more threads than
                            "main + one service thread per start()" stayed alive (escalating waits 1+4+15 s)
     Quiesced(a, b)      the run is over: a = tasks entered exactly once and returned exactly once (never,
                         if the body panics), counted by the bodies themselves; b = threads beyond
                         "main + one per start()" still in /proc
   Everything else in the log is skipped.

   A run satisfies C08 iff
     ExactlyOnce   a body is entered only after its execute() call began, at most once, and returns at
                   most once and only if it does not panic; at the end every submitted task was entered
                   exactly once, every non-panicking one returned, and the bodies' own counters agree;
     Parallel      no Barrier_Timeout: N bodies did run at the same time on an N-thread pool - also after
                   tasks that panicked (the pool is back to N usable workers);
     Isolated      follows from ExactlyOnce for the other tasks, queued before or after, and Parallel;
     Terminates    no Wait_Timeout and no C_Hang: stop() and drop() returned although tasks were running and
                   queued, every call returned, every worker thread exited (b = 0), with or without stop(),
                   across restarts.
   One forward pass; the offending records are collected and printed. *)
EXTENDS Naturals, Sequences, FiniteSets, TLC, Json, IOUtils

Rec == ndJsonDeserialize(IOEnv.TRACE)
N == Len(Rec)
SetOf(s) == {s[i] : i \in 1 .. Len(s)}

VARIABLES l, sub, begun, ended, pan, open, over, bad
vars == <<l, sub, begun, ended, pan, open, over, bad>>

Init == l = 1 /\ sub = {} /\ begun = {} /\ ended = {} /\ pan = {} /\ open = 0 /\ over = TRUE /\ bad = <<>>

Note(why) == IF Len(bad) >= 20 THEN bad ELSE Append(bad, [at |-> l, why |-> why, rec |-> Rec[l]])
Keep == UNCHANGED <<sub, begun, ended, pan, open, over>>

Step ==
  /\ l <= N
  /\ l' = l + 1
  /\ LET e == Rec[l] IN
     CASE e.ev = "Reset" ->
            /\ sub' = {} /\ begun' = {} /\ ended' = {} /\ pan' = SetOf(e.p) /\ open' = 0 /\ over' = FALSE
            /\ bad' = IF over THEN bad ELSE Note("the previous run has no end")
       [] e.ev = "C_Call" ->
            /\ open' = e.a /\ sub' = IF e.a = 2 THEN sub \cup {e.b} ELSE sub
            /\ UNCHANGED <<begun, ended, pan, over>>
            /\ bad' = IF open = 0 THEN bad ELSE Note("a call began while another had not returned")
       [] e.ev = "C_Ret" ->
            /\ open' = 0 /\ UNCHANGED <<sub, begun, ended, pan, over>>
            /\ bad' = IF open = e.a THEN bad ELSE Note("return without call")
       [] e.ev = "Task_Start" ->
            /\ begun' = begun \cup {e.a} /\ UNCHANGED <<sub, ended, pan, open, over>>
            /\ bad' = IF e.a \notin sub THEN Note("ExactlyOnce: a body was entered that was not submitted")
                      ELSE IF e.a \in begun THEN Note("ExactlyOnce: a body was entered twice") ELSE bad
       [] e.ev = "Task_End" ->
            /\ ended' = ended \cup {e.a} /\ UNCHANGED <<sub, begun, pan, open, over>>
            /\ bad' = IF e.a \notin begun \/ e.a \in ended \/ e.a \in pan THEN Note("ExactlyOnce: a body returned that was not running")
                      ELSE bad
       [] e.ev = "Barrier_Timeout" -> Keep /\ bad' = Note("Parallel: N task bodies never ran at the same time on an N-thread pool")
       [] e.ev = "Wait_Timeout" -> Keep /\ bad' = Note("Terminates: drop() did not return while a task was running")
       [] e.ev = "C_Hang" ->
            /\ over' = TRUE /\ UNCHANGED <<sub, begun, ended, pan, open>>
            /\ bad' = Note(IF e.a = 2 THEN "Terminates/ExactlyOnce: after drop() a submitted task was never entered or worker threads stayed alive"
                                      ELSE "Terminates: the caller was blocked in a call of the pool")
       [] e.ev = "Quiesced" ->
            /\ over' = TRUE /\ UNCHANGED <<sub, begun, ended, pan, open>>
            /\ bad' = IF open # 0 THEN Note("Terminates: a call had not returned at the end of the run")
                      ELSE IF begun # sub THEN Note("ExactlyOnce: a submitted task was never entered")
                      ELSE IF ended # sub \ pan THEN Note("ExactlyOnce: a task that does not panic never returned")
                      ELSE IF e.a # Cardinality(sub) THEN Note("ExactlyOnce: the bodies' own counters disagree")
                      ELSE IF e.b # 0 THEN Note("Terminates: worker threads still alive") ELSE bad
       [] OTHER -> Keep /\ bad' = bad

Finish ==
  /\ l = N + 1 /\ ~over
  /\ l' = N + 2 /\ bad' = Append(bad, [at |-> N, why |-> "the last run has no end", rec |-> Rec[N]])
  /\ UNCHANGED <<sub, begun, ended, pan, open, over>>

Next == Step \/ Finish
Spec == Init /\ [][Next]_vars

Satisfied == ((l = N + 1 /\ over) \/ l = N + 2) =>
               \/ bad = <<>>
               \/ PrintT(ToJson([judged |-> "C08 violated", bad |-> bad])) /\ FALSE
=============================================================================
