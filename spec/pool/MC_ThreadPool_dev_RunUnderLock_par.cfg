CONSTANTS
  N = 2
  MaxTasks = 3
  Dev = {"RunUnderLock"}
SPECIFICATION Spec
CHECK_DEADLOCK FALSE
INVARIANT NeverAllRunning
