CONSTANTS
  N = 3
  MaxTasks = 3
  G = 1
  Stops = 1
  Dev = {}
  KeepHist = FALSE
INIT GInit
NEXT GNext
INVARIANT NeverAllRunning
CHECK_DEADLOCK FALSE
