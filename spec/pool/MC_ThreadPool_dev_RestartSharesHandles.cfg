CONSTANTS
  N = 1
  MaxTasks = 1
  G = 2
  Stops = 1
  Dev = {"RestartSharesHandles"}
SPECIFICATION Spec
CHECK_DEADLOCK FALSE
PROPERTIES CallerNeverBlocks
