CONSTANTS
  N = 1
  MaxTasks = 1
  G = 1
  Stops = 1
  Dev = {}
  KeepHist = FALSE
INIT GInit
NEXT GNext
INVARIANT NeverRespawnAfterDrop
CHECK_DEADLOCK FALSE
