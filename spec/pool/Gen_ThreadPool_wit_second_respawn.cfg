CONSTANTS
  N = 1
  MaxTasks = 2
  G = 1
  Stops = 1
  Dev = {}
  KeepHist = FALSE
INIT GInit
NEXT GNext
INVARIANT NeverSecondRespawn
CHECK_DEADLOCK FALSE
