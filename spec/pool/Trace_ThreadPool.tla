--------------------------- MODULE Trace_ThreadPool ---------------------------
(* Code -> spec direction for C08 (binding C): logs recorded from the real pool through the hook
   points in humphrey/src/thread/{pool,recovery}.rs (plus Task_Start / Task_End written by the
   harness-supplied task bodies and Reset / Mon_Restarted / Quiesced / C_Hang written by the harness driver) are
   replayed against ThreadPool's actions.

   Record shape (one JSON object per line, every field always present):
       seq  global sequence number (order of the callback under the harness's log mutex)
       th   thread: worker id 0.. for pool workers (from the thread's name), -1 caller,
            -2 recovery thread, -9 harness driver
       g    generation: for worker / recovery threads the start() call that created their task channel
            (the harness learns it from the Pool_Chan / Worker_Spawned / Rec_Chan points, which report
            the channel's identity), for the caller the number of start() calls so far
       ev   point name;  a, b  the point's two arguments;
       p    (Reset only) the tasks whose body panics
   A file holds several runs, each  Reset ... (Quiesced | C_Hang).

   Each event is explained by exactly the ThreadPool action whose hook it is, with the logged
   arguments bound to the action's parameters and checked against the state the model is in
   (which FIFO element a worker received, which task it runs, whether the handle was still in
   `threads`, ...).  Steps of the code that have no hook are silent actions: Worker_Die (the OS
   thread of a panicked worker ends - required before the recovery thread's join returns), the
   send of a PanicMarker (between its Marker_Send and Marker_Sent points) and
   Pool_DropHandles of a pool that was never started (the loop body with the hook runs 0 times).
   Points that mark no state change (Worker_Loop, Worker_Exit, Marker_Sent, Pool_DropHandle(i>0)) must find
   the model in the corresponding control state.

   Acceptance: the furthest position reached is kept in TLC register 1 (CONSTRAINT Track);
   POSTCONDITION Accepted compares it with the length of the log and otherwise prints the first
   inexplicable record.  All invariants of ThreadPool are evaluated in every state on the way. *)
EXTENDS ThreadPool, TLC, Json, IOUtils

Rec == ndJsonDeserialize(IOEnv.TRACE)

VARIABLES l,        \* position in the log
          dh,       \* next index expected from the Pool_DropHandle points of the current drop
          sending   \* workers between Marker_Send and Marker_Sent whose send has not taken effect yet
tvars == <<vars, l, dh, sending>>

E        == Rec[l]
Is(name) == l <= Len(Rec) /\ E.ev = name
Adv      == l' = l + 1 /\ UNCHANGED <<dh, sending>>
Same     == UNCHANGED vars
SetOf(s) == {s[i] : i \in 1 .. Len(s)}
IsW(x)   == x \in Workers
IsG      == E.g \in Gens
ByW      == IsG /\ IsW(E.a) /\ E.th = E.a          \* a worker's own point: reported id = thread name
CALLER   == 0 - 1
RECOVERY == 0 - 2

ResetTo(p) ==
  /\ cpc' = "new" /\ nsub' = 0 /\ cur' = 0 /\ recAttached' = FALSE /\ nsd' = [g \in Gens |-> 0]
  /\ q' = [g \in Gens |-> <<>>] /\ txAlive' = [g \in Gens |-> FALSE]
  /\ rxLock' = [g \in Gens |-> NOBODY] /\ poisoned' = [g \in Gens |-> FALSE]
  /\ wpc' = [g \in Gens |-> [w \in Workers |-> "absent"]]
  /\ wtask' = [g \in Gens |-> [w \in Workers |-> 0]]
  /\ inc' = [g \in Gens |-> [w \in Workers |-> 0]]
  /\ recq' = [g \in Gens |-> <<>>] /\ rpc' = [g \in Gens |-> "absent"] /\ rw' = [g \in Gens |-> NOBODY]
  /\ handles' = [g \in Gens |-> [w \in Workers |-> 0]]
  /\ pan' = p
  /\ ran' = [t \in Tasks |-> 0] /\ done' = [t \in Tasks |-> 0]

TInit == l = 1 /\ dh = 0 /\ sending = {} /\ InitWith({}) /\ TLCSet(1, 1)

\* the harness's verdict that a run is over: caller returned from drop, no worker thread of any generation
\* alive (counted in /proc), every submitted task entered once and, unless it panics, returned once
RunOver == Quiescent /\ \A t \in Tasks : t <= nsub => SubmittedOK(t)

Ev_Reset ==
  /\ Is("Reset")
  /\ IF l = 1 THEN TRUE ELSE Rec[l - 1].ev \in {"Quiesced", "C_Hang"}
  /\ E.a \in 0 .. N /\ E.b \in 0 .. MaxTasks /\ SetOf(E.p) \subseteq Tasks
  /\ ResetTo(SetOf(E.p)) /\ l' = l + 1 /\ dh' = 0 /\ sending' = {}

\* the caller's events carry g = number of start() calls so far (the harness counts the Pool_Chan points)
Ev_Caller ==
  \/ Is("Pool_Start") /\ E.th = CALLER /\ E.a \in 1 .. N /\ Pool_Start(E.a) /\ l' = l + 1 /\ dh' = 0 /\ UNCHANGED sending
  \/ Is("Pool_Execute") /\ E.th = CALLER /\ E.a \in Tasks /\ E.g = cur /\ Pool_Execute(E.a) /\ Adv
  \/ Is("Pool_Stop") /\ E.th = CALLER /\ E.g = cur /\ Pool_Stop /\ Adv
  \/ Is("Pool_DropBegin") /\ E.th = CALLER /\ E.g = cur /\ ((E.a = 1) <=> recAttached) /\ Pool_DropBegin /\ Adv
  \* the loop body of Drop runs once per entry of `threads`, all under one guard: the first
  \* point is the critical section (Pool_DropHandles), the others mark no further change
  \/ /\ Is("Pool_DropHandle") /\ E.th = CALLER /\ cur >= 1 /\ IsW(E.a) /\ wpc[cur][E.a] # "absent" /\ E.a = dh
     /\ IF E.a = 0 THEN Pool_DropHandles ELSE cpc = "dropped" /\ Same
     /\ l' = l + 1 /\ dh' = dh + 1 /\ UNCHANGED sending
  \/ Is("Pool_DropEnd") /\ E.th = CALLER /\ Pool_DropEnd /\ Adv

Ev_Worker ==
  \/ Is("Worker_Loop") /\ ByW /\ wpc[E.g][E.a] = "idle" /\ Same /\ Adv
  \/ Is("Worker_Lock") /\ ByW /\ ((E.b = 1) <=> poisoned[E.g]) /\ Worker_Lock(E.g, E.a) /\ Adv
  \/ /\ Is("Worker_Recv") /\ ByW
     /\ IF E.b = 2 THEN Worker_RecvDisc(E.g, E.a)
        ELSE /\ q[E.g] # <<>>
             /\ IF Head(q[E.g]) = SHUTDOWN THEN E.b = 1 ELSE E.b = 0
             /\ Worker_RecvMsg(E.g, E.a)
     /\ Adv
  \/ Is("Task_Start") /\ IsG /\ IsW(E.th) /\ E.a \in Tasks /\ wtask[E.g][E.th] = E.a /\ Worker_Run(E.g, E.th) /\ Adv
  \/ Is("Task_End") /\ IsG /\ IsW(E.th) /\ E.a \in Tasks /\ wtask[E.g][E.th] = E.a /\ Worker_Finish(E.g, E.th) /\ Adv
  \* PanicMarker::drop: Marker_Send is reported before, Marker_Sent after `send(id)`.  The send itself
  \* (= Worker_Panic, which appends to the recovery channel) is a silent step in between, so that
  \* two overlapping sends may take effect in either order.
  \/ /\ Is("Marker_Send") /\ ByW /\ wpc[E.g][E.a] = "run" /\ wtask[E.g][E.a] \in pan /\ <<E.g, E.a>> \notin sending
     /\ sending' = sending \cup {<<E.g, E.a>>} /\ Same /\ l' = l + 1 /\ UNCHANGED dh
  \/ Is("Marker_Sent") /\ ByW /\ <<E.g, E.a>> \notin sending /\ Same /\ Adv
  \/ Is("Worker_Exit") /\ ByW /\ wpc[E.g][E.a] = "exited" /\ Same /\ Adv

Ev_Recovery ==
  \/ Is("Rec_Wake") /\ IsG /\ E.th = RECOVERY /\ recq[E.g] # <<>> /\ Head(recq[E.g]) = E.a /\ Rec_Wake(E.g) /\ Adv
  \/ Is("Rec_Recv") /\ IsG /\ E.th = RECOVERY /\ rpc[E.g] = "lock" /\ rw[E.g] = E.a /\ Rec_Recv(E.g) /\ Adv
  \/ Is("Rec_Joined") /\ IsG /\ E.th = RECOVERY /\ rpc[E.g] = "join" /\ rw[E.g] = E.a
       /\ ((E.b = 1) <=> (handles[Tbl(E.g)][E.a] # 0)) /\ Rec_Join(E.g) /\ Adv
  \/ Is("Rec_Respawn") /\ IsG /\ E.th = RECOVERY /\ rpc[E.g] = "respawn" /\ rw[E.g] = E.a /\ Rec_Respawn(E.g) /\ Adv

Ev_Harness ==
  \* written by the caller thread around each API call, for the property-level judge (Trace_PoolProp); the
  \* hook points inside the calls are what this module follows
  \/ (Is("C_Call") \/ Is("C_Ret")) /\ E.th = CALLER /\ Same /\ Adv
  \* Humphrey's own monitor stream, read by the driver after a run without restart: b = number of
  \* ThreadRestarted events naming worker a.  Must equal the number of respawns of that id in the model.
  \/ Is("Mon_Restarted") /\ IsW(E.a) /\ cur = 1 /\ inc[1][E.a] = E.b /\ Same /\ Adv
  \* a = number of tasks whose body was entered exactly once and returned exactly once (never, if it panics),
  \* counted by the bodies themselves; b = threads beyond "main + one recovery thread per start()" still in /proc
  \/ Is("Quiesced") /\ RunOver /\ sending = {} /\ E.a = nsub /\ E.b = 0 /\ Same /\ Adv
  \* a = 1: drop() has not returned after the escalating waits.  Explicable only where the model's
  \* caller is blocked for ever, i.e. under DropJoinsRecovery.
  \/ Is("C_Hang") /\ E.a = 1 /\ cpc = "dropping" /\ ~DropPassesRecovery /\ Same /\ Adv

Silent ==
  \/ \E p \in sending :
       /\ Is("Marker_Sent") \/ Is("Rec_Wake")
       /\ Worker_Panic(p[1], p[2]) /\ sending' = sending \ {p} /\ UNCHANGED <<l, dh>>
  \/ \E g \in Gens, w \in Workers :
       /\ wpc[g][w] = "unwinding"
       /\ Is("Rec_Joined") /\ E.g = g /\ E.a = w /\ E.b = 1
       /\ Worker_Die(g, w) /\ UNCHANGED <<l, dh, sending>>
  \/ /\ Is("Pool_DropEnd") /\ cpc = "dropping" /\ cur = 0
     /\ Pool_DropHandles /\ UNCHANGED <<l, dh, sending>>

TNext == Ev_Reset \/ Ev_Caller \/ Ev_Worker \/ Ev_Recovery \/ Ev_Harness \/ Silent
TSpec == TInit /\ [][TNext]_tvars

Track == TLCSet(1, IF TLCGet(1) < l THEN l ELSE TLCGet(1))

Around(i) == [j \in 1 .. (IF i > 6 THEN 7 ELSE i) |-> Rec[i - (IF i > 6 THEN 7 ELSE i) + j]]
Accepted ==
  \/ TLCGet(1) = Len(Rec) + 1
  \/ /\ PrintT(ToJson([rejected_at |-> TLCGet(1), of |-> Len(Rec),
                       context |-> Around(IF TLCGet(1) > Len(Rec) THEN Len(Rec) ELSE TLCGet(1))]))
     /\ FALSE

\* second pass on a rejected log, truncated before the inexplicable record: print the model state there
AtEnd == (l = Len(Rec) + 1) =>
   PrintT(ToJson([last_state |-> [cpc |-> cpc, nsub |-> nsub, att |-> recAttached, q |-> q, tx |-> txAlive,
                                   lk |-> rxLock, wpc |-> wpc, wt |-> wtask, rq |-> recq, rpc |-> rpc, rw |-> rw,
                                   h |-> handles, cur |-> cur]]))
=============================================================================
