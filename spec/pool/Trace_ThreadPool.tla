--------------------------- MODULE Trace_ThreadPool ---------------------------
(* Code -> spec direction for C08 (binding C): logs recorded from the real pool through the hook
   points in humphrey/src/thread/{pool,recovery}.rs (plus Task_Start / Task_End written by the
   harness-supplied task bodies and Reset / Mon_Restarted / Quiesced / C_Hang written by the harness driver) are
   replayed against ThreadPool's actions.

   Record shape (one JSON object per line, every field always present):
       seq  global sequence number (order of the callback under the harness's log mutex)
       th   thread: worker id 0.. for pool workers (from the thread's name), -1 caller,
            -2 recovery thread, -9 harness driver
       ev   point name;  a, b  the point's two arguments;
       p    (Reset only) the tasks whose body panics
   A file holds several runs, each  Reset ... (Quiesced | C_Hang).

   Each event is explained by exactly the ThreadPool action whose hook it is, with the logged
   arguments bound to the action's parameters and checked against the state the model is in
   (which FIFO element a worker received, which task it runs, whether the handle was still in
   `threads`, ...).  Steps of the code that have no hook are silent actions: Worker_Die (the OS
   thread of a panicked worker ends - required before the recovery thread's join returns), the
   send of a PanicMarker (between its Marker_Send and Marker_Sent points) and
   Pool_DropHandles of a pool that was never started (the loop body with the hook runs 0 times).
   Points that mark no state change (Worker_Loop, Worker_Exit, Marker_Sent, Pool_DropHandle(i>0)) must find
   the model in the corresponding control state.

   Acceptance: the furthest position reached is kept in TLC register 1 (CONSTRAINT Track);
   POSTCONDITION Accepted compares it with the length of the log and otherwise prints the first
   inexplicable record.  All invariants of ThreadPool are evaluated in every state on the way. *)
EXTENDS ThreadPool, TLC, Json, IOUtils

Rec == ndJsonDeserialize(IOEnv.TRACE)

VARIABLES l,        \* position in the log
          dh,       \* next index expected from the Pool_DropHandle points of the current drop
          sending   \* workers between Marker_Send and Marker_Sent whose send has not taken effect yet
tvars == <<vars, l, dh, sending>>

E        == Rec[l]
Is(name) == l <= Len(Rec) /\ E.ev = name
Adv      == l' = l + 1 /\ UNCHANGED <<dh, sending>>
Same     == UNCHANGED vars
SetOf(s) == {s[i] : i \in 1 .. Len(s)}
IsW(x)   == x \in Workers
ByW      == IsW(E.a) /\ E.th = E.a          \* a worker's own point: reported id = thread name

ResetTo(p) ==
  /\ cpc' = "new" /\ nsub' = 0 /\ recAttached' = FALSE
  /\ q' = <<>> /\ txAlive' = FALSE /\ rxLock' = NOBODY /\ poisoned' = FALSE
  /\ wpc' = [w \in Workers |-> "absent"] /\ wtask' = [w \in Workers |-> 0]
  /\ inc' = [w \in Workers |-> 0]
  /\ recq' = <<>> /\ rpc' = "absent" /\ rw' = NOBODY
  /\ handles' = [w \in Workers |-> FALSE]
  /\ pan' = p
  /\ ran' = [t \in Tasks |-> 0] /\ done' = [t \in Tasks |-> 0]

TInit == l = 1 /\ dh = 0 /\ sending = {} /\ InitWith({}) /\ TLCSet(1, 1)

\* the harness's verdict that a run is over: caller returned from drop, no worker thread alive
\* (counted in /proc), every submitted task entered once and, unless it panics, returned once
RunOver == Quiescent /\ \A t \in Tasks : t <= nsub => SubmittedOK(t)

Ev_Reset ==
  /\ Is("Reset")
  /\ IF l = 1 THEN TRUE ELSE Rec[l - 1].ev \in {"Quiesced", "C_Hang"}
  /\ E.a \in 0 .. N /\ E.b \in 0 .. MaxTasks /\ SetOf(E.p) \subseteq Tasks
  /\ ResetTo(SetOf(E.p)) /\ l' = l + 1 /\ dh' = 0 /\ sending' = {}

Ev_Caller ==
  \/ Is("Pool_Start") /\ E.th = 0 - 1 /\ E.a \in 1 .. N /\ Pool_Start(E.a) /\ Adv
  \/ Is("Pool_Execute") /\ E.th = 0 - 1 /\ E.a \in Tasks /\ Pool_Execute(E.a) /\ Adv
  \/ Is("Pool_Stop") /\ E.th = 0 - 1 /\ Pool_Stop /\ Adv
  \/ Is("Pool_DropBegin") /\ E.th = 0 - 1 /\ ((E.a = 1) <=> recAttached) /\ Pool_DropBegin /\ Adv
  \* the loop body of Drop runs once per entry of `threads`, all under one guard: the first
  \* point is the critical section (Pool_DropHandles), the others mark no further change
  \/ /\ Is("Pool_DropHandle") /\ E.th = 0 - 1 /\ IsW(E.a) /\ wpc[E.a] # "absent" /\ E.a = dh
     /\ IF E.a = 0 THEN Pool_DropHandles ELSE cpc = "dropped" /\ Same
     /\ l' = l + 1 /\ dh' = dh + 1 /\ UNCHANGED sending
  \/ Is("Pool_DropEnd") /\ E.th = 0 - 1 /\ Pool_DropEnd /\ Adv

Ev_Worker ==
  \/ Is("Worker_Loop") /\ ByW /\ wpc[E.a] = "idle" /\ Same /\ Adv
  \/ Is("Worker_Lock") /\ ByW /\ ((E.b = 1) <=> poisoned) /\ Worker_Lock(E.a) /\ Adv
  \/ /\ Is("Worker_Recv") /\ ByW
     /\ IF E.b = 2 THEN Worker_RecvDisc(E.a)
        ELSE /\ q # <<>>
             /\ IF Head(q) = SHUTDOWN THEN E.b = 1 ELSE E.b = 0
             /\ Worker_RecvMsg(E.a)
     /\ Adv
  \/ Is("Task_Start") /\ IsW(E.th) /\ E.a \in Tasks /\ wtask[E.th] = E.a /\ Worker_Run(E.th) /\ Adv
  \/ Is("Task_End") /\ IsW(E.th) /\ E.a \in Tasks /\ wtask[E.th] = E.a /\ Worker_Finish(E.th) /\ Adv
  \* PanicMarker::drop: Marker_Send is reported before, Marker_Sent after `send(id)`.  The send itself
  \* (= Worker_Panic, which appends to the recovery channel) is a silent step in between, so that
  \* two overlapping sends may take effect in either order.
  \/ /\ Is("Marker_Send") /\ ByW /\ wpc[E.a] = "run" /\ wtask[E.a] \in pan /\ E.a \notin sending
     /\ sending' = sending \cup {E.a} /\ Same /\ l' = l + 1 /\ UNCHANGED dh
  \/ Is("Marker_Sent") /\ ByW /\ E.a \notin sending /\ Same /\ Adv
  \/ Is("Worker_Exit") /\ ByW /\ wpc[E.a] = "exited" /\ Same /\ Adv

Ev_Recovery ==
  \/ Is("Rec_Wake") /\ E.th = 0 - 2 /\ recq # <<>> /\ Head(recq) = E.a /\ Rec_Wake /\ Adv
  \/ Is("Rec_Recv") /\ E.th = 0 - 2 /\ rpc = "lock" /\ rw = E.a /\ Rec_Recv /\ Adv
  \/ Is("Rec_Joined") /\ E.th = 0 - 2 /\ rpc = "join" /\ rw = E.a /\ ((E.b = 1) <=> handles[rw])
       /\ Rec_Join /\ Adv
  \/ Is("Rec_Respawn") /\ E.th = 0 - 2 /\ rpc = "respawn" /\ rw = E.a /\ Rec_Respawn /\ Adv

Ev_Harness ==
  \* Humphrey's own monitor stream, read by the driver after the run: b = number of ThreadRestarted
  \* events naming worker a.  Must equal the number of respawns of that id in the model.
  \/ Is("Mon_Restarted") /\ IsW(E.a) /\ inc[E.a] = E.b /\ Same /\ Adv
  \/ Is("Quiesced") /\ RunOver /\ sending = {} /\ Same /\ Adv
  \* a = 1: drop() has not returned after the escalating waits.  Explicable only where the model's
  \* caller is blocked for ever, i.e. under DropJoinsRecovery.
  \/ Is("C_Hang") /\ E.a = 1 /\ cpc = "dropping" /\ ~DropPassesRecovery /\ Same /\ Adv

Silent ==
  \/ \E w \in sending :
       /\ Is("Marker_Sent") \/ Is("Rec_Wake")
       /\ Worker_Panic(w) /\ sending' = sending \ {w} /\ UNCHANGED <<l, dh>>
  \/ \E w \in Workers :
       /\ wpc[w] = "unwinding"
       /\ Is("Rec_Joined") /\ E.a = w /\ E.b = 1
       /\ Worker_Die(w) /\ UNCHANGED <<l, dh, sending>>
  \/ /\ Is("Pool_DropEnd") /\ cpc = "dropping" /\ Started = {}
     /\ Pool_DropHandles /\ UNCHANGED <<l, dh, sending>>

TNext == Ev_Reset \/ Ev_Caller \/ Ev_Worker \/ Ev_Recovery \/ Ev_Harness \/ Silent
TSpec == TInit /\ [][TNext]_tvars

Track == TLCSet(1, IF TLCGet(1) < l THEN l ELSE TLCGet(1))

Around(i) == [j \in 1 .. (IF i > 6 THEN 7 ELSE i) |-> Rec[i - (IF i > 6 THEN 7 ELSE i) + j]]
Accepted ==
  \/ TLCGet(1) = Len(Rec) + 1
  \/ /\ PrintT(ToJson([rejected_at |-> TLCGet(1), of |-> Len(Rec),
                       context |-> Around(IF TLCGet(1) > Len(Rec) THEN Len(Rec) ELSE TLCGet(1))]))
     /\ FALSE

\* second pass on a rejected log, truncated before the inexplicable record: print the model state there
AtEnd == (l = Len(Rec) + 1) =>
   PrintT(ToJson([last_state |-> [cpc |-> cpc, nsub |-> nsub, att |-> recAttached, q |-> q, tx |-> txAlive,
                                   lk |-> rxLock, wpc |-> wpc, wt |-> wtask, rq |-> recq, rpc |-> rpc, rw |-> rw,
                                   h |-> handles]]))
=============================================================================
