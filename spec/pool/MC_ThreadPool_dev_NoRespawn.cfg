CONSTANTS
  N = 2
  MaxTasks = 2
  Dev = {"NoRespawn"}
SPECIFICATION Spec
CHECK_DEADLOCK FALSE
PROPERTIES PanicIsolated
