CONSTANTS
  N = 1
  MaxTasks = 3
  G = 1
  Stops = 2
  Dev = {}
  KeepHist = FALSE
INIT GInit
NEXT GNext
ACTION_CONSTRAINT EdgeOut
CHECK_DEADLOCK FALSE
