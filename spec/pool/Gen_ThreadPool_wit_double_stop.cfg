CONSTANTS
  N = 2
  MaxTasks = 1
  G = 1
  Stops = 2
  Dev = {}
  KeepHist = FALSE
INIT GInit
NEXT GNext
INVARIANT NeverDoubleStop
CHECK_DEADLOCK FALSE
