CONSTANTS
  N = 2
  MaxTasks = 3
  G = 2
  Stops = 2
  Dev = {}
  KeepHist = TRUE
INIT GInit
NEXT GNext
INVARIANT SimOut
CHECK_DEADLOCK FALSE
