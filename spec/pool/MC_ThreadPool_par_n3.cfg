CONSTANTS
  N = 3
  MaxTasks = 3
  G = 1
  Stops = 1
  Dev = {}
SPECIFICATION Spec
CHECK_DEADLOCK FALSE
INVARIANT NeverAllRunning
