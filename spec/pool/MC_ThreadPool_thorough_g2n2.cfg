CONSTANTS
  N = 2
  MaxTasks = 2
  G = 2
  Stops = 1
  Dev = {}
SPECIFICATION Spec
CHECK_DEADLOCK FALSE
INVARIANTS TypeOK AtMostOnce OnlySubmittedRun LockNotHeldWhileRunning LockConsistent NeverPoisoned NoLossNoDup NoPrematureExit SingleShutdown HandlesOwn
PROPERTIES LiveAll
