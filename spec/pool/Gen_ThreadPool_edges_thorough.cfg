CONSTANTS
  N = 2
  MaxTasks = 3
  G = 1
  Stops = 1
  Dev = {}
  KeepHist = FALSE
INIT GInit
NEXT GNext
ACTION_CONSTRAINT EdgeOut
CHECK_DEADLOCK FALSE
