CONSTANTS
  N = 2
  MaxTasks = 1
  G = 1
  Stops = 1
  Dev = {"DropJoinsRecovery"}
SPECIFICATION Spec
CHECK_DEADLOCK FALSE
PROPERTIES AllWorkersExit
