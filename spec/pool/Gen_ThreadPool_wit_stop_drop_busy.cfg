CONSTANTS
  N = 3
  MaxTasks = 1
  Dev = {}
  KeepHist = FALSE
INIT GInit
NEXT GNext
INVARIANT NeverStopDropBusy
CHECK_DEADLOCK FALSE
