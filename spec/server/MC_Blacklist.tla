---------------------------- MODULE MC_Blacklist ----------------------------
(* TLC-only helpers for Blacklist: vector generation for the replay harness. *)
EXTENDS Blacklist, Json

\* one state per (configuration, peer); nothing moves
GenPeer0 == c[CHOOSE k \in Conns : TRUE].peer
GenInit == /\ cfg \in Cfgs
           /\ cached = {}
           /\ c \in { [k \in Conns |-> [Fresh EXCEPT !.peer = p]] : p \in Peers }
           /\ cfg.dual => GenPeer0 \in V4Addrs      \* the dual-stack instance is exercised by IPv4 clients
GenNext == FALSE /\ UNCHANGED vars

GenPeer == c[CHOOSE k \in Conns : TRUE].peer

\* per X-Forwarded-For value: what the property allows (exp), what the model of the repaired code answers
\* per route type (m), and what each historical deviation alone would answer (dev)
Row(x) == [p   |-> x.present,
           nc  |-> x.nc,
           es  |-> x.es,
           exp |-> Decide(cfg.mode, cfg.list, GenPeer, x),
           m   |-> [rt \in RouteTypes |-> Model({}, cfg, GenPeer, x, rt, FALSE)],
           dev |-> [d \in HistoricalDevs \cup {"MappedListEntryUnmatched"} |-> [rt \in RouteTypes |-> Model({d}, cfg, GenPeer, x, rt, FALSE)]]]

GenInv == PrintT(ToJson([mode |-> cfg.mode, list |-> cfg.list, cache |-> cfg.cache, dual |-> cfg.dual, lm |-> cfg.lm, peer |-> GenPeer,
                         rows |-> { Row(x) : x \in AllXff }]))

\* the model of the repaired code never leaves what the property allows, for every cached-ness:
\* evaluated on the generation states as a cross-check of the function Model itself
GenSound == \A x \in AllXff, rt \in RouteTypes, w \in BOOLEAN :
               Model({}, cfg, GenPeer, x, rt, w) \in Decide(cfg.mode, cfg.list, GenPeer, x)

\* several X-Forwarded-For lines: a listed peer has exactly one allowed outcome whatever the lines say, and the
\* model of the code (first line) is one of the accepted readings
Lines_ListedStrict == \A x1 \in AllXff, x2 \in AllXff :
   /\ GenPeer \in cfg.list => DecideLines(cfg.mode, cfg.list, GenPeer, x1, x2) = Decide(cfg.mode, cfg.list, GenPeer, NoXff)
   /\ \A rt \in RouteTypes : Model({}, cfg, GenPeer, x1, rt, FALSE) \in DecideLines(cfg.mode, cfg.list, GenPeer, x1, x2)
=============================================================================
