CONSTANTS
  Addrs = {"127.0.0.1", "127.0.0.2", "10.1.2.3"}
  Peers = {"127.0.0.1", "127.0.0.2"}
  V4Addrs = {"127.0.0.1", "127.0.0.2", "10.1.2.3"}
  Duals = {FALSE}
  ListForms = {FALSE}
  NameCases = {FALSE}
  Garbage = {}
  Lists = {{"127.0.0.2"}, {"10.1.2.3"}}
  MaxXff = 1
  Uris = {"u1"}
  Conns = {1, 2}
  Dev = {"CacheBeforeBlacklist"}
INIT Init
NEXT Next
INVARIANTS Inv_Decide
CHECK_DEADLOCK FALSE
