CONSTANTS
  Addrs = {"127.0.0.1", "127.0.0.2", "::1", "10.1.2.3"}
  Peers = {"127.0.0.1", "127.0.0.2", "::1"}
  V4Addrs = {"127.0.0.1", "127.0.0.2", "10.1.2.3"}
  Duals = {FALSE}
  ListForms = {TRUE}
  NameCases = {FALSE}
  Garbage = {"unknown"}
  Lists = {{}, {"127.0.0.2"}, {"10.1.2.3"}, {"127.0.0.2", "::1"}}
  MaxXff = 2
  Uris = {"u1"}
  Conns = {1}
  Dev = {"MappedListEntryUnmatched"}
INIT Init
NEXT Next
INVARIANTS Inv_Decide Inv_ModelFn
CHECK_DEADLOCK FALSE
