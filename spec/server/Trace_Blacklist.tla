--------------------------- MODULE Trace_Blacklist ---------------------------
(* Code -> spec direction for C19.  The harness runs random sessions against real `humphrey` processes
   (random configuration, connections from random source addresses, 1..4 kept-alive requests each with
   random X-Forwarded-For lists of up to 4 entries, random route, targets drawn from a small pool so that
   the file cache fills up by itself) and logs what it did and saw:
     ev = "cfg"   a server was started with (mode, list, cache); dual = it listens on "::" and is reached
                  by IPv4 clients (which it sees in IPv4-mapped form); lm = the IPv4 entries of its list
                  file are written in IPv4-mapped form.  Every record carries `v4`, the IPv4 addresses it names
     ev = "conn"  a client connected from `peer`
     ev = "req"   request n on that connection: X-Forwarded-For (present, es; present2, es2 = a second
                  X-Forwarded-For line, judged with DecideLines), route type, uri ->
                  res (result class seen by the client), fromCache (content was older than the file on disk)
     ev = "close" the client closed
   TLC replays the log with Blacklist's operators: every result must be one Decide allows (the verdict),
   a connection can only be dropped before its first request is read (verify_connection), and the cache
   contents evolve as Srv_InnerFile / Srv_*_CacheCheck say.  Results that are allowed but differ from the
   model of the repaired code, and cache observations that differ from the model's cache, are counted and
   reported, not rejected (they are outside what C19 states).  A rejected record that is exactly what a
   single named deviation predicts is listed under `attributed` with the names of those deviations so that the driver can match it against KNOWN_FINDINGS.txt. *)
EXTENDS Naturals, Sequences, FiniteSets, TLC, Json, IOUtils

Rec == ndJsonDeserialize(IOEnv.TRACE)

RangeOf(s) == { s[i] : i \in 1..Len(s) }
TraceAddrs == UNION { RangeOf(Rec[i].list) \cup (IF Rec[i].peer = "" THEN {} ELSE {Rec[i].peer})
                      \cup { Rec[i].es[j].a : j \in { j \in 1..Len(Rec[i].es) : Rec[i].es[j].k = 1 } }
                      \cup { Rec[i].es2[j].a : j \in { j \in 1..Len(Rec[i].es2) : Rec[i].es2[j].k = 1 } } : i \in 1..Len(Rec) }
TraceGarbage == UNION { { Rec[i].es[j].a : j \in { j \in 1..Len(Rec[i].es) : Rec[i].es[j].k = 0 } }
                        \cup { Rec[i].es2[j].a : j \in { j \in 1..Len(Rec[i].es2) : Rec[i].es2[j].k = 0 } } : i \in 1..Len(Rec) }

VARIABLES l, cfg, cached, c, conn, bad, attributed, nattr, lenient, cachediv, nreq
tvars == <<l, cfg, cached, c, conn, bad, attributed, nattr, lenient, cachediv, nreq>>

TraceV4 == UNION { RangeOf(Rec[i].v4) : i \in 1..Len(Rec) }       \* the IPv4 addresses of the log

B == INSTANCE Blacklist WITH Addrs <- TraceAddrs, Peers <- TraceAddrs, V4Addrs <- TraceV4, Duals <- BOOLEAN,
                             ListForms <- BOOLEAN, NameCases <- {FALSE}, Garbage <- TraceGarbage,
                             Lists <- {}, MaxXff <- 0, Uris <- {}, Conns <- {1}, Dev <- {}

NoConn == [open |-> FALSE, peer |-> "", n |-> 0]

Init == /\ l = 1
        /\ cfg = [mode |-> "block", list |-> {}, cache |-> FALSE, dual |-> FALSE, lm |-> FALSE]
        /\ cached = {}
        /\ c = [k \in {1} |-> B!Fresh]          \* (unused; Blacklist's variable)
        /\ conn = NoConn
        /\ bad = <<>> /\ attributed = <<>> /\ nattr = 0 /\ lenient = 0 /\ cachediv = 0 /\ nreq = 0

Cap == 60
Reject == IF Len(bad) >= Cap THEN bad ELSE Append(bad, [line |-> l, dev |-> {}, allowed |-> {}])

Step(r) ==
  CASE r.ev = "cfg" ->
         /\ cfg' = [mode |-> r.mode, list |-> RangeOf(r.list), cache |-> r.cache, dual |-> r.dual, lm |-> r.lm]
         /\ cached' = {} /\ conn' = NoConn
         /\ UNCHANGED <<bad, attributed, nattr, lenient, cachediv, nreq>>
    [] r.ev = "conn" ->
         /\ conn' = [open |-> TRUE, peer |-> r.peer, n |-> 0]
         /\ bad' = IF conn.open THEN Reject ELSE bad
         /\ UNCHANGED <<cfg, cached, attributed, nattr, lenient, cachediv, nreq>>
    [] r.ev = "close" ->
         /\ conn' = NoConn
         /\ UNCHANGED <<cfg, cached, bad, attributed, nattr, lenient, cachediv, nreq>>
    [] r.ev = "req" ->
         LET x       == [present |-> r.present, nc |-> FALSE, es |-> r.es]
             key     == <<r.rt, r.uri>>
             warm    == key \in cached
             x2      == [present |-> r.present2, nc |-> FALSE, es |-> r.es2]       \* a second X-Forwarded-For line, if any
             allowed == B!DecideLines(cfg.mode, cfg.list, conn.peer, x, x2)
             model   == B!Model({}, cfg, conn.peer, x, r.rt, warm)
             wellformed == conn.open /\ r.peer = conn.peer /\ r.n = conn.n /\ r.rt \in B!RouteTypes
             ok      == /\ wellformed
                        /\ r.res \in allowed
                        /\ (r.res = "Dropped" => conn.n = 0)      \* Srv_VerifyConnection precedes any read
             hit     == cfg.cache /\ warm                          \* Srv_*_CacheCheck
             \* a rejected record that is exactly what one historical deviation alone predicts
             expl    == IF wellformed /\ (r.res = "Dropped" => conn.n = 0)
                        THEN { d \in B!HistoricalDevs \cup {"MappedListEntryUnmatched"} :
                                   B!Model({d}, cfg, conn.peer, x, r.rt, warm) = r.res }
                        ELSE {}
             entry   == [line |-> l, dev |-> expl, allowed |-> allowed]
         IN /\ bad' = IF ok \/ expl # {} \/ Len(bad) >= Cap THEN bad ELSE Append(bad, entry)
            /\ attributed' = IF ok \/ expl = {} \/ Len(attributed) >= Cap THEN attributed ELSE Append(attributed, entry)
            /\ nattr' = IF ~ok /\ expl # {} THEN nattr + 1 ELSE nattr
            /\ lenient' = IF ok /\ r.res # model THEN lenient + 1 ELSE lenient
            /\ cachediv' = IF r.res = "Served" /\ r.rt \in B!Cacheable /\ r.fromCache # hit
                           THEN cachediv + 1 ELSE cachediv
            \* Srv_InnerFile fills the cache; a hit leaves it unchanged
            /\ cached' = IF r.res = "Served" /\ r.rt \in B!Cacheable /\ cfg.cache THEN cached \cup {key} ELSE cached
            /\ conn' = IF r.res = "Dropped" THEN NoConn ELSE [conn EXCEPT !.n = @ + 1]
            /\ nreq' = nreq + 1
            /\ UNCHANGED cfg

Next == /\ l <= Len(Rec)
        /\ l' = l + 1
        /\ Step(Rec[l])
        /\ UNCHANGED c
Spec == Init /\ [][Next]_tvars

\* evaluated at the last state: summary for the driver; fails when a record was inexplicable
AllExplained == (l = Len(Rec) + 1) =>
   /\ PrintT(ToJson([records |-> Len(Rec), requests |-> nreq, lenient |-> lenient, cachediv |-> cachediv,
                     nattributed |-> nattr,
                     attributed |-> [i \in 1..Len(attributed) |-> [line |-> attributed[i].line, dev |-> attributed[i].dev,
                                                                  allowed |-> attributed[i].allowed, rec |-> Rec[attributed[i].line]]],
                     rejected |-> [i \in 1..Len(bad) |-> [line |-> bad[i].line, allowed |-> bad[i].allowed, rec |-> Rec[bad[i].line]]]]))
   /\ bad = <<>> /\ attributed = <<>>
=============================================================================
