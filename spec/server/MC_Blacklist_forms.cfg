CONSTANTS
  Addrs = {"127.0.0.1", "127.0.0.2", "::1", "10.1.2.3"}
  Peers = {"127.0.0.1", "127.0.0.2", "::1"}
  V4Addrs = {"127.0.0.1", "127.0.0.2", "10.1.2.3"}
  Duals = {FALSE, TRUE}
  ListForms = {FALSE, TRUE}
  NameCases = {FALSE, TRUE}
  Garbage = {"unknown"}
  Lists = {{}, {"127.0.0.2"}, {"10.1.2.3"}, {"127.0.0.2", "::1"}}
  MaxXff = 1
  Uris = {"u1"}
  Conns = {1}
  Dev = {}
INIT Init
NEXT Next
INVARIANTS TypeOK Inv_Decide Inv_ListedPeerNeverServed Inv_BlockNeverRead Inv_ForbiddenAlways403 Inv_ForwardedListed403 Inv_CleanServed Inv_ServeOnlyClean Inv_ModelFn
PROPERTIES Prop_CacheFill Prop_CfgFixed
CHECK_DEADLOCK FALSE
